(* Model of the life cycle of one experiment object over many runs:
   epyc Experiment.run (set-up; do; tear-down; tear-down also after a failing do(), not after a
   failing set-up; exceptions swallowed unless fatal), NetworkExperiment.setUp (drop the working
   network, generator.set(params).generate(), topology marker), NetworkGenerator.generate (the
   quota), FixedNetwork._generate (a copy of the prototype), Dynamics.setUp (fresh loci
   registry, empty queue and finder, id counter 0, clock 0, then reset / build / setUp of the
   process), Dynamics.tearDown.
   Networks live in a heap of objects so that "a copy" and "the prototype itself" differ; user
   code (what build and setUp register and post, what a do() does, what a failing step did
   before it raised) is a parameter of the model: the theorems quantify over all of it.
   The event stream of Dynamics (clock, id counter, queue with its finder, loci) and the
   process-owned per-run fields are the state of the event-kernel model (Model/Kernel.v).
   Executable definitions only. *)
From Coq Require Import List ZArith QArith Bool Arith String.
From EpyV Require Import Model.Kernel.
Import ListNotations.
Close Scope Q_scope.
Open Scope list_scope.

(* ------------------------------------------------------------------ field inventory (tie A) *)
(* every attribute that the anchored classes assign through [self._x = ...], classified.
   Persistent: survives a run by design.  PerRun r: overwritten, from constants / the
   parameters / the fresh network, by method r before any user code of the next run reads it.
   Constant: assigned by __init__ only.  Dead: written, never read. *)
Inductive fkind := Persistent | PerRun (reset_in : string) | Constant | Dead.
Definition inventory : list (string * string * fkind) := [
  ("Experiment", "_metadata", PerRun "run"); ("Experiment", "_results", PerRun "run");
  ("Experiment", "_parameters", Persistent);
  ("NetworkGenerator", "_params", PerRun "set"); ("NetworkGenerator", "_remaining", Persistent);
  ("FixedNetwork", "_graphPrototype", Constant);
  ("NetworkExperiment", "_generator", Persistent); ("NetworkExperiment", "_graph", PerRun "setUp");
  ("Dynamics", "_eventId", PerRun "setUp"); ("Dynamics", "_simulationTime", PerRun "setUp");
  ("Dynamics", "_loci", PerRun "setUp"); ("Dynamics", "_processLoci", PerRun "setUp");
  ("Dynamics", "_postedEvents", PerRun "setUp"); ("Dynamics", "_postedEventFinder", PerRun "setUp");
  ("Dynamics", "_process", Constant);
  ("Dynamics", "_perElementEvents", Dead); ("Dynamics", "_perLocusEvents", Dead);
  ("Process", "_maxTime", Persistent); ("Process", "_containerProcess", Persistent); ("Process", "_dynamics", Persistent);
  ("Process", "_instanceName", Constant); ("Process", "_uniqueId", Constant); ("Process", "_runId", Persistent);
  ("Process", "_perElementEvents", PerRun "reset"); ("Process", "_perLocusEvents", PerRun "reset");
  ("ProcessSequence", "_processes", Constant); ("ProcessSequence", "_processNames", Constant);
  ("ProcessSequence", "_allProcesses", Constant);
  ("CompartmentedModel", "_compartments", PerRun "reset"); ("CompartmentedModel", "_effects", PerRun "reset");
  ("CompartmentedModel", "COMPARTMENT", Constant); ("CompartmentedModel", "OCCUPIED", Constant);
  ("Monitor", "_timeSeries", PerRun "reset");
  (* loci are objects created by build(), i.e. per run; their own fields never change *)
  ("CompartmentedNodeLocus", "_compartment", Constant);
  ("CompartmentedEdgeLocus", "_left", Constant); ("CompartmentedEdgeLocus", "_right", Constant)
]%string.

Definition fname_eqb (a b : string * string) : bool := String.eqb (fst a) (fst b) && String.eqb (snd a) (snd b).
Definition classify (f : string * string) : option fkind :=
  option_map snd (find (fun x => fname_eqb (fst x) f) inventory).
(* [found]: what the AST of the current source assigns, with the methods that assign it *)
Definition field_ok (x : string * string * list string) : bool :=
  match classify (fst x) with
  | None => false                                                  (* a new field: unclassified *)
  | Some (PerRun r) => existsb (String.eqb r) (snd x)              (* still reset where the model resets it *)
  | Some Constant => forallb (String.eqb "__init__") (snd x)       (* assigned nowhere else *)
  | Some _ => true
  end.
Definition inventory_ok (found : list (string * string * list string)) : bool :=
  forallb field_ok found
  && forallb (fun e => existsb (fun x => fname_eqb (fst x) (fst e)) found) inventory.

(* ------------------------------------------------------------------ heap of network objects *)
Section Life.
Variable G : Type.       (* the value of a network: nodes, edges, all attribute dicts *)
Variable W : Type.       (* process-owned per-run state (kernel world) *)
Variable P : Type.       (* points of the parameter space *)

Record heap := { h_next : nat; h_objs : list (nat * G) }.
Fixpoint h_lookup (a : nat) (l : list (nat * G)) : option G :=
  match l with [] => None | (b, g) :: l' => if Nat.eqb a b then Some g else h_lookup a l' end.
Definition h_get (a : nat) (h : heap) : option G := h_lookup a (h_objs h).
Definition h_alloc (g : G) (h : heap) : nat * heap :=
  (h_next h, {| h_next := S (h_next h); h_objs := (h_next h, g) :: h_objs h |}).
Definition h_set (a : nat) (g : G) (h : heap) : heap :=
  {| h_next := h_next h; h_objs := (a, g) :: h_objs h |}.     (* the newest binding shadows *)

(* ------------------------------------------------------------------ the experiment object *)
Inductive tag :=
| TSetUp | TGenerate (made : bool) | TReset | TBuild | TProcSetUp
| TStarted | TResults | TEnded | TProcTearDown | TTornDown.

Record state := {
  (* persistent *)
  s_heap : heap;
  s_proto : nat;                 (* FixedNetwork._graphPrototype *)
  s_remaining : option nat;      (* NetworkGenerator._remaining *)
  s_generated : nat;             (* ghost: networks handed out so far *)
  s_runid : nat;                 (* Process._runId *)
  s_trace : list tag;            (* ghost: the calls made, newest first *)
  (* per run *)
  s_graph : option nat;          (* NetworkExperiment._graph *)
  s_genparams : option P;        (* NetworkGenerator._params *)
  s_topology : bool;             (* params[TOPOLOGY] written by this run *)
  s_k : st W;                    (* Dynamics: clock, id counter, queue (+finder), loci; world = process fields *)
  s_table : option (table W);    (* Process._perElementEvents / _perLocusEvents as registered by build *)
  s_status : option bool;        (* Experiment._metadata[STATUS] *)
  s_results : bool }.            (* Experiment._results filled *)

(* where an exception is injected *)
Inductive fail :=
| FGenerate                      (* inside the generator's _generate *)
| FReset | FBuild | FProcSetUp   (* inside the process' reset / build / setUp *)
| FEvent (k : nat)               (* in the event function of the k-th event of do() *)
| FResults                       (* in results collection *)
| FProcTearDown.                 (* in the process' tearDown *)
Inductive outcome := Ok | FailAt (f : fail).

(* user code *)
Record user := {
  u_world : W;                                           (* the process fields as reset() leaves them *)
  u_table : P -> G -> table W;                           (* what build() registers: loci with initial members, event
                                                            tables, and the actions of setUp (p_setup) *)
  u_decorate : P -> G -> G;                              (* what build()/setUp() write into the working network *)
  u_oracle : nat -> list Q * list Q * list nat;          (* the random source of run number i *)
  u_partial : fail -> P -> st W * G -> st W * G;         (* what a failing step did before it raised *)
  u_body : outcome -> P -> st W * G -> st W * G }.       (* what do() did (events, posts, loci, network) *)

Variable u : user.

Definition upd (s : state) (heap : heap) (remaining : option nat) (generated runid : nat) (trace : list tag)
  (graph : option nat) (genparams : option P) (topology : bool) (k : st W) (table : option (table W))
  (status : option bool) (results : bool) : state :=
  {| s_heap := heap; s_proto := s_proto s; s_remaining := remaining; s_generated := generated; s_runid := runid;
     s_trace := trace; s_graph := graph; s_genparams := genparams; s_topology := topology; s_k := k; s_table := table;
     s_status := status; s_results := results |}.

(* ---- the single assignments (or small groups of them) that the steps below are made of *)
Definition log (t : tag) (s : state) : state :=
  upd s (s_heap s) (s_remaining s) (s_generated s) (s_runid s) (t :: s_trace s) (s_graph s) (s_genparams s) (s_topology s)
      (s_k s) (s_table s) (s_status s) (s_results s).
Definition set_status (b : bool) (s : state) : state :=
  upd s (s_heap s) (s_remaining s) (s_generated s) (s_runid s) (s_trace s) (s_graph s) (s_genparams s) (s_topology s)
      (s_k s) (s_table s) (Some b) (s_results s).
Definition set_k (k : st W) (s : state) : state :=
  upd s (s_heap s) (s_remaining s) (s_generated s) (s_runid s) (s_trace s) (s_graph s) (s_genparams s) (s_topology s)
      k (s_table s) (s_status s) (s_results s).
Definition set_heap (h : heap) (s : state) : state :=
  upd s h (s_remaining s) (s_generated s) (s_runid s) (s_trace s) (s_graph s) (s_genparams s) (s_topology s)
      (s_k s) (s_table s) (s_status s) (s_results s).

(* the empty event stream that Dynamics.setUp installs, with the run's random source *)
Definition fresh_k (w : W) (i : nat) : st W :=
  {| clock := 0%Q; nextid := 0; queue := []; loci := []; world := w; ids := []; out := [];
     rands := fst (fst (u_oracle u i)); lns := snd (fst (u_oracle u i)); draws := snd (u_oracle u i); stuck := false |}.

(* user code acting on the event stream and on the working network object *)
Definition act (f : st W * G -> st W * G) (s : state) : state :=
  match s_graph s with
  | None => s
  | Some a => match h_get a (s_heap s) with
              | None => s
              | Some g => set_k (fst (f (s_k s, g))) (set_heap (h_set a (snd (f (s_k s, g))) (s_heap s)) s)
              end
  end.

(* Experiment.run, prologue: self._metadata = dict(); self._results = dict() *)
Definition prologue (s : state) : state :=
  upd s (s_heap s) (s_remaining s) (s_generated s) (s_runid s) (s_trace s) (s_graph s) (s_genparams s) (s_topology s)
      (s_k s) (s_table s) None false.

(* NetworkExperiment.setUp: self._graph = None; gen.set(params) *)
Definition drop_graph (params : P) (s : state) : state :=
  upd s (s_heap s) (s_remaining s) (s_generated s) (s_runid s) (TSetUp :: s_trace s) None (Some params) (s_topology s)
      (s_k s) (s_table s) (s_status s) (s_results s).
(* NetworkGenerator.generate: self._remaining -= 1 (when limited), before _generate is called *)
Definition take_quota (s : state) : state :=
  upd s (s_heap s) (match s_remaining s with Some (S n) => Some n | r => r end) (s_generated s) (s_runid s) (s_trace s)
      (s_graph s) (s_genparams s) (s_topology s) (s_k s) (s_table s) (s_status s) (s_results s).
(* FixedNetwork._generate: a copy of the prototype; setNetwork(g); params[TOPOLOGY] = gen.topology() *)
Definition put_graph (g : G) (s : state) : state :=
  upd s (snd (h_alloc g (s_heap s))) (s_remaining s) (S (s_generated s)) (s_runid s) (TGenerate true :: s_trace s)
      (Some (fst (h_alloc g (s_heap s)))) (s_genparams s) true (s_k s) (s_table s) (s_status s) (s_results s).
(* quota used up: generate() returns None; setNetwork(None); the marker is still written *)
Definition no_graph (s : state) : state :=
  upd s (s_heap s) (s_remaining s) (s_generated s) (s_runid s) (TGenerate false :: s_trace s) None (s_genparams s) true
      (s_k s) (s_table s) (s_status s) (s_results s).

(* NetworkExperiment.setUp.  Result: the state and whether the step raised. *)
Definition net_setup (params : P) (inject : option fail) (s : state) : state * bool :=
  match s_remaining s with
  | Some O => (no_graph (drop_graph params s), false)
  | _ =>
      match inject with
      | Some FGenerate => (take_quota (drop_graph params s), true)
      | _ => match h_get (s_proto s) (s_heap s) with
             | None => (drop_graph params s, true)                    (* unreachable: the prototype exists *)
             | Some g => (put_graph g (take_quota (drop_graph params s)), false)
             end
      end
  end.

(* Dynamics.setUp after super().setUp(): self._loci = dict() ... self._simulationTime = 0.0;
   the process fields stay as they were until reset() *)
Definition clear_stream (i : nat) (s : state) : state := set_k (fresh_k (world (s_k s)) i) s.
(* Process.reset (and the sub-classes'): _runId += 1; event tables and own fields from constants *)
Definition reset_proc (i : nat) (s : state) : state :=
  upd s (s_heap s) (s_remaining s) (s_generated s) (S (s_runid s)) (TReset :: s_trace s) (s_graph s) (s_genparams s)
      (s_topology s) (fresh_k (u_world u) i) None (s_status s) (s_results s).
(* build: loci with their initial members and the event tables *)
Definition built (i : nat) (tb : table W) (s : state) : state :=
  upd s (s_heap s) (s_remaining s) (s_generated s) (s_runid s) (TBuild :: s_trace s) (s_graph s) (s_genparams s) (s_topology s)
      {| clock := 0%Q; nextid := 0; queue := []; loci := init_loci tb; world := t_world tb; ids := []; out := [];
         rands := fst (fst (u_oracle u i)); lns := snd (fst (u_oracle u i)); draws := snd (u_oracle u i); stuck := false |}
      (Some tb) (s_status s) (s_results s).
(* setUp of the processes: their actions (postings) in order; the working network decorated *)
Definition proc_setup (i : nat) (a : nat) (g' : G) (tb : table W) (s : state) : state :=
  upd s (h_set a g' (s_heap s)) (s_remaining s) (s_generated s) (s_runid s) (TProcSetUp :: s_trace s) (s_graph s)
      (s_genparams s) (s_topology s)
      (setup_state tb (fst (fst (u_oracle u i))) (snd (fst (u_oracle u i))) (snd (u_oracle u i))) (s_table s) (s_status s) (s_results s).

Definition dyn_setup (i : nat) (params : P) (inject : option fail) (s : state) : state * bool :=
  match inject with
  | Some FReset => (log TReset (clear_stream i s), true)             (* reset() raised before resetting *)
  | Some FBuild => (act (u_partial u FBuild params) (log TBuild (reset_proc i (clear_stream i s))), true)
  | _ =>
      match s_graph s with
      | None => (log TBuild (reset_proc i (clear_stream i s)), true)  (* no working network: build/setUp of a process
                                                                        that reads the network raises *)
      | Some a =>
          match h_get a (s_heap s) with
          | None => (log TBuild (reset_proc i (clear_stream i s)), true)
          | Some g =>
              let tb := u_table u params g in
              match inject with
              | Some FProcSetUp =>
                  (act (u_partial u FProcSetUp params) (log TProcSetUp (built i tb (reset_proc i (clear_stream i s)))), true)
              | _ => (proc_setup i a (u_decorate u params g) tb (built i tb (reset_proc i (clear_stream i s))), false)
              end
          end
      end
  end.

(* the whole set-up; [inject] only matters if it names a set-up step *)
Definition setup (i : nat) (params : P) (inject : option fail) (s : state) : state * bool :=
  if snd (net_setup params inject (prologue s)) then (fst (net_setup params inject (prologue s)), true)
  else dyn_setup i params inject (fst (net_setup params inject (prologue s))).

(* Dynamics.tearDown: process.tearDown(); super().tearDown(); finder and queue emptied *)
Definition empty_queue (k : st W) : st W :=
  {| clock := clock k; nextid := nextid k; queue := []; loci := loci k; world := world k; ids := ids k; out := out k;
     rands := rands k; lns := lns k; draws := draws k; stuck := stuck k |}.
Definition torn_down (s : state) : state := log TTornDown (set_k (empty_queue (s_k s)) (log TProcTearDown s)).
Definition teardown (inject : option fail) (s : state) : state * bool :=
  match inject with
  | Some FProcTearDown => (log TProcTearDown s, true)
  | _ => (torn_down s, false)
  end.

Definition mark_results (s : state) : state :=
  upd s (s_heap s) (s_remaining s) (s_generated s) (s_runid s) (TEnded :: TResults :: s_trace s) (s_graph s) (s_genparams s)
      (s_topology s) (s_k s) (s_table s) (s_status s) true.

(* do() and what follows it, from the state at simulationStarted *)
Definition after_started (params : P) (o : outcome) (s1 : state) : state * bool :=
  let s3 := act (u_body u o params) (log TStarted s1) in
  match o with
  | FailAt (FEvent _) => (set_status false (torn_down s3), true)     (* do() raised: tear-down is still called *)
  | FailAt FResults => (set_status false (torn_down (log TResults s3)), true)
  | FailAt FProcTearDown => (set_status false (log TProcTearDown (mark_results s3)), true)
  | _ => (set_status true (torn_down (mark_results s3)), false)
  end.

(* one call of run(): the state afterwards, and whether the run failed *)
Definition run_once (i : nat) (params : P) (o : outcome) (s : state) : state * bool :=
  let inject := match o with Ok => None | FailAt f => Some f end in
  if snd (setup i params inject s) then (set_status false (fst (setup i params inject s)), true)   (* no tear-down *)
  else after_started params o (fst (setup i params inject s)).

(* the state at simulationStarted of a run whose set-up succeeds *)
Definition at_started (i : nat) (params : P) (s : state) : option state :=
  if snd (setup i params None s) then None else Some (fst (setup i params None s)).

(* a history: the parameters and the outcome of each run, run number counting from i *)
Fixpoint run_all (i : nat) (h : list (P * outcome)) (s : state) : state :=
  match h with
  | [] => s
  | (params, o) :: h' => run_all (S i) h' (fst (run_once i params o s))
  end.

(* a new experiment object around a prototype network; limit = None: unbounded *)
Definition initial (proto : G) (limit : option nat) : state :=
  {| s_heap := {| h_next := 1; h_objs := [(0, proto)] |}; s_proto := 0; s_remaining := limit; s_generated := 0;
     s_runid := 0; s_trace := []; s_graph := None; s_genparams := None; s_topology := false;
     s_k := fresh_k (u_world u) 0; s_table := None; s_status := None; s_results := false |}.

(* what a run can see when it starts: every per-run field, the working network by value *)
Record view := {
  v_net : option G; v_genparams : option P; v_topology : bool;
  v_k : st W; v_table : option (table W); v_status : option bool; v_results : bool }.
Definition view_of (s : state) : view :=
  {| v_net := match s_graph s with None => None | Some a => h_get a (s_heap s) end;
     v_genparams := s_genparams s; v_topology := s_topology s; v_k := s_k s; v_table := s_table s;
     v_status := s_status s; v_results := s_results s |}.

(* F: the state at simulationStarted as a function of the parameters, the prototype's value and
   the run's random source alone *)
Definition F (i : nat) (params : P) (g : G) : view :=
  let tb := u_table u params g in
  {| v_net := Some (u_decorate u params g); v_genparams := Some params; v_topology := true;
     v_k := setup_state tb (fst (fst (u_oracle u i))) (snd (fst (u_oracle u i))) (snd (u_oracle u i));
     v_table := Some tb; v_status := None; v_results := false |}.

End Life.

Arguments h_next {G}. Arguments h_objs {G}. Arguments h_get {G}. Arguments h_alloc {G}. Arguments h_set {G}.
Arguments s_heap {G W P}. Arguments s_proto {G W P}. Arguments s_remaining {G W P}. Arguments s_generated {G W P}.
Arguments s_runid {G W P}. Arguments s_trace {G W P}. Arguments s_graph {G W P}. Arguments s_genparams {G W P}.
Arguments s_topology {G W P}. Arguments s_k {G W P}. Arguments s_table {G W P}. Arguments s_status {G W P}. Arguments s_results {G W P}.
Arguments u_world {G W P}. Arguments u_table {G W P}. Arguments u_decorate {G W P}. Arguments u_oracle {G W P}.
Arguments u_partial {G W P}. Arguments u_body {G W P}.
Arguments net_setup {G W P}. Arguments dyn_setup {G W P}. Arguments setup {G W P}. Arguments teardown {G W P}.
Arguments run_once {G W P}. Arguments run_all {G W P}. Arguments at_started {G W P}. Arguments initial {G W P}.
Arguments view_of {G W P}. Arguments F {G W P}. Arguments prologue {G W P}. Arguments act {G W P}.
Arguments drop_graph {G W P}. Arguments take_quota {G W P}. Arguments put_graph {G W P}. Arguments no_graph {G W P}.
Arguments clear_stream {G W P}. Arguments reset_proc {G W P}. Arguments built {G W P}. Arguments proc_setup {G W P}.
Arguments torn_down {G W P}. Arguments mark_results {G W P}. Arguments after_started {G W P}. Arguments upd {G W P}.
Arguments fresh_k {G W P}. Arguments log {G W P}. Arguments set_status {G W P}. Arguments set_k {G W P}. Arguments set_heap {G W P}.
Arguments v_net {G W P}. Arguments v_genparams {G W P}. Arguments v_topology {G W P}. Arguments v_k {G W P}.
Arguments v_table {G W P}. Arguments v_status {G W P}. Arguments v_results {G W P}.
