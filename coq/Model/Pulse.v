(* Model of epydemic/pulsecoupled.py (PulseCoupledOscillator) as a process of the kernel model
   (Model/Kernel.v): one posted-event program `fired`, a set-up that posts the first firing of
   every node, and the user state the Python object keeps (the node attribute 'event', the
   firing log, the bumping/bumped sets).

   A kernel program computes all its actions from the user state before they run, so it cannot
   call pendingEventTime: the user state therefore carries, next to the index of each node's
   pending event, the time that event was posted for (what getFiringTime would return).  That
   this mirror is what the queue holds is a theorem (Proofs/PulseInv.v), not an assumption.

   The numeric maps have no exact Coq counterpart: decimal round(x, 5) in normalisePhase, the binary64
   value of the time setFiringTime posts for (et itself since the repair F13; the theorems only assume
   caller time <= answer <= bound of the exact argument), phaseToState, stateToPhase and rng.random() are
   answered from an oracle list
   held in the user state and consumed in call order; every request is logged with the argument
   the model computed (exactly, in Q) so that hypotheses on the answers can be stated and the
   arguments compared with the implementation's.  The clamp of normalisePhase is modelled.
   Executable definitions only. *)
From Coq Require Import List ZArith QArith Qabs Bool Arith.
From EpyV Require Import Lib.Prelude Model.Kernel.
Import ListNotations.
Open Scope Q_scope.

(* kinds of oracle request: round(phi, 5) inside normalisePhase; the posting time inside setFiringTime;
   phaseToState; stateToPhase; rng.random() *)
Inductive rkind := RN | RT | RS | RG | RR.
Definition rkind_eqb (a b : rkind) : bool :=
  match a, b with RN, RN | RT, RT | RS, RS | RG, RG | RR, RR => true | _, _ => false end.

(* a logged request: kind, simulation time of the caller, argument (exact), answer *)
Record req := { rq_kind : rkind; rq_t : Q; rq_arg : Q; rq_ans : Q }.

Record pworld := {
  pw_ev : list (Z * (nat * Q));     (* node -> (index in ids of the event named by its 'event' attribute, time posted for) *)
  pw_nposted : nat;                 (* number of postEvent calls made so far *)
  pw_ftimes : list Q;               (* _firingTimes, newest first *)
  pw_fnodes : list Z;               (* _firingNodes, newest first *)
  pw_bumping : list Z;
  pw_bumped : list Z;
  pw_oracle : list (rkind * Q);
  pw_orders : list (list Z);        (* per call of fired: the order in which set.pop() hands out the bumping set *)
  pw_reqs : list req;               (* newest first *)
  pw_bad : bool }.                  (* oracle exhausted or of the wrong kind, pop order not a listing of the set,
                                       or a Python exception the model does not follow (None firing time) *)

Record pcfg := {
  pc_nodes : list Z;                (* g.nodes() order *)
  pc_adj : list (Z * list Z);       (* neighbors(g, n) *)
  pc_period : Q;
  pc_coupling : Q;
  pc_maxtime : Q;
  pc_observe : bool }.              (* the harness' probe: pendingEventTime of every node's event at the event tap *)

Definition memz (x : Z) (l : list Z) : bool := existsb (Z.eqb x) l.
Definition addz (x : Z) (l : list Z) : list Z := if memz x l then l else l ++ [x].   (* set.add *)

Definition ev_of (w : pworld) (n : Z) : option (nat * Q) :=
  match find (fun p => Z.eqb (fst p) n) (pw_ev w) with Some p => Some (snd p) | None => None end.

Definition set_ev (n : Z) (v : nat * Q) (w : pworld) : pworld :=
  {| pw_ev := (n, v) :: filter (fun p => negb (Z.eqb (fst p) n)) (pw_ev w); pw_nposted := S (pw_nposted w);
     pw_ftimes := pw_ftimes w; pw_fnodes := pw_fnodes w; pw_bumping := pw_bumping w; pw_bumped := pw_bumped w;
     pw_oracle := pw_oracle w; pw_orders := pw_orders w; pw_reqs := pw_reqs w; pw_bad := pw_bad w |}.

Definition set_sets (bumping bumped : list Z) (w : pworld) : pworld :=
  {| pw_ev := pw_ev w; pw_nposted := pw_nposted w; pw_ftimes := pw_ftimes w; pw_fnodes := pw_fnodes w;
     pw_bumping := bumping; pw_bumped := bumped;
     pw_oracle := pw_oracle w; pw_orders := pw_orders w; pw_reqs := pw_reqs w; pw_bad := pw_bad w |}.

Definition add_log (t : Q) (n : Z) (w : pworld) : pworld :=
  {| pw_ev := pw_ev w; pw_nposted := pw_nposted w; pw_ftimes := t :: pw_ftimes w; pw_fnodes := n :: pw_fnodes w;
     pw_bumping := pw_bumping w; pw_bumped := pw_bumped w;
     pw_oracle := pw_oracle w; pw_orders := pw_orders w; pw_reqs := pw_reqs w; pw_bad := pw_bad w |}.

Definition set_bad (w : pworld) : pworld :=
  {| pw_ev := pw_ev w; pw_nposted := pw_nposted w; pw_ftimes := pw_ftimes w; pw_fnodes := pw_fnodes w;
     pw_bumping := pw_bumping w; pw_bumped := pw_bumped w;
     pw_oracle := pw_oracle w; pw_orders := pw_orders w; pw_reqs := pw_reqs w; pw_bad := true |}.

Definition set_orders (o : list (list Z)) (w : pworld) : pworld :=
  {| pw_ev := pw_ev w; pw_nposted := pw_nposted w; pw_ftimes := pw_ftimes w; pw_fnodes := pw_fnodes w;
     pw_bumping := pw_bumping w; pw_bumped := pw_bumped w;
     pw_oracle := pw_oracle w; pw_orders := o; pw_reqs := pw_reqs w; pw_bad := pw_bad w |}.

(* one numeric call answered by the oracle *)
Definition ask (k : rkind) (t arg : Q) (w : pworld) : Q * pworld :=
  match pw_oracle w with
  | (k', a) :: rest =>
      (a, {| pw_ev := pw_ev w; pw_nposted := pw_nposted w; pw_ftimes := pw_ftimes w; pw_fnodes := pw_fnodes w;
             pw_bumping := pw_bumping w; pw_bumped := pw_bumped w;
             pw_oracle := rest; pw_orders := pw_orders w;
             pw_reqs := {| rq_kind := k; rq_t := t; rq_arg := arg; rq_ans := a |} :: pw_reqs w;
             pw_bad := pw_bad w || negb (rkind_eqb k k') |})
  | [] =>
      (0, {| pw_ev := pw_ev w; pw_nposted := pw_nposted w; pw_ftimes := pw_ftimes w; pw_fnodes := pw_fnodes w;
             pw_bumping := pw_bumping w; pw_bumped := pw_bumped w;
             pw_oracle := []; pw_orders := pw_orders w;
             pw_reqs := {| rq_kind := k; rq_t := t; rq_arg := arg; rq_ans := 0 |} :: pw_reqs w;
             pw_bad := true |})
  end.

(* Python's min(a, b) returns a unless b < a; max(a, b) returns a unless b > a *)
Definition pymin (a b : Q) : Q := if Qltb b a then b else a.
Definition pymax (a b : Q) : Q := if Qltb a b then b else a.
(* normalisePhase: max(min(round(phi, 5), 1.0), 0.0) *)
Definition clamp01 (r : Q) : Q := pymax (pymin r 1) 0.

Definition is01 (x : Q) : bool := Qeq_bool x 1 || Qeq_bool x 0.     (* x == 1.0 or x == 0.0 *)

Definition prog_fired : nat := 0%nat.

Section Pulse.
Variable cfg : pcfg.

(* a program under construction: the user state and the kernel actions issued so far *)
Definition pstate : Type := pworld * list action.

Definition normalise_phase (t x : Q) (w : pworld) : Q * pworld :=
  let '(r, w1) := ask RN t (Qred x) w in (clamp01 r, w1).

(* setFiringTime(n, et): un-post the node's event (non-fatally) if it has one, post at the oracle's value T of et;
   the kernel posts relative to the handler time t, so the delay is T - t *)
Definition set_firing_time (t : Q) (n : Z) (et : Q) (st : pstate) : pstate :=
  let '(T, w1) := ask RT t (Qred et) (fst st) in
  let unpost := match ev_of w1 n with Some (k, _) => [AUnpost k false] | None => [] end in
  (set_ev n (pw_nposted w1, Qred (t + (T - t))) w1,
   snd st ++ unpost ++ [APostOn (EN n) (T - t) prog_fired]).

(* getPhase(t, n): 1 - (firing time - t) / period, normalised *)
Definition get_phase (t : Q) (n : Z) (w : pworld) : Q * pworld :=
  match ev_of w n with
  | Some (_, old) => normalise_phase t (1 - (old - t) / pc_period cfg) w
  | None => (0, set_bad w)                      (* None - t: TypeError *)
  end.

(* setPhase(t, n, phi) *)
Definition set_phase (t : Q) (n : Z) (phi : Q) (st : pstate) : pstate :=
  let '(c, w1) := normalise_phase t (1 - phi) (fst st) in
  set_firing_time t n (t + c * pc_period cfg) (w1, snd st).

Definition neighbours (n : Z) : list Z :=
  match find (fun p => Z.eqb (fst p) n) (pc_adj cfg) with Some p => snd p | None => [] end.

(* fire(t, n) *)
Definition fire_node (t : Q) (n : Z) (st : pstate) : pstate :=
  let w := fst st in
  let w1 := set_sets (fold_left (fun acc m => addz m acc) (neighbours n) (pw_bumping w)) (pw_bumped w) w in
  let st2 := set_phase t n 0 (w1, snd st) in
  (set_sets (pw_bumping (fst st2)) (addz n (pw_bumped (fst st2))) (fst st2), snd st2).

(* cascade(t, n, m): the test for "already synchronised" is on the PHASE (repair of the defect that it was on
   phaseToState(phase), which is not exactly 1.0 at phase 1.0 for every dissipation) *)
Definition cascade (t : Q) (n m : Z) (st : pstate) : pstate :=
  let '(phi, w1) := get_phase t m (fst st) in                        (* phi = getPhase(t, m) *)
  if is01 phi then (w1, snd st)
  else
    let '(s2, w4) := ask RS t phi w1 in                              (* bumpPhase(phi): phaseToState *)
    let '(g, w5) := ask RG t (Qred (pc_coupling cfg + s2)) w4 in     (*                 stateToPhase *)
    let '(newPhase, w6) := normalise_phase t g w5 in                 (*            normalisePhase *)
    let st7 := set_phase t m newPhase (w6, snd st) in
    let '(newState, w8) := get_phase t m (fst st7) in
    if is01 newState then set_phase t m 0 (w8, snd st7)              (* synchronised(t, n, m) *)
    else (w8, snd st7).

Definition remz (x : Z) (l : list Z) : list Z := filter (fun y => negb (Z.eqb x y)) l.

(* while len(bumping) > 0: m = bumping.pop(); if m not in bumped: cascade(t, n, m); bumped.add(m)
   with the pops in the order ms *)
Fixpoint cascade_loop (t : Q) (n : Z) (ms : list Z) (st : pstate) : pstate :=
  match ms with
  | [] => st
  | m :: ms' =>
      let w := set_sets (remz m (pw_bumping (fst st))) (pw_bumped (fst st)) (fst st) in
      let st1 := if memz m (pw_bumped w) then (w, snd st)
                 else let st2 := cascade t n m (w, snd st) in
                      (set_sets (pw_bumping (fst st2)) (addz m (pw_bumped (fst st2))) (fst st2), snd st2) in
      cascade_loop t n ms' st1
  end.

Fixpoint nodupz (l : list Z) : bool :=
  match l with [] => true | x :: l' => negb (memz x l') && nodupz l' end.

(* the order in which the set is popped: the observed order of the cascaded nodes when it lists
   distinct members of the set, followed by the members it does not mention *)
Definition pop_order (w : pworld) : list Z * pworld :=
  match pw_orders w with
  | o :: rest =>
      let w1 := set_orders rest w in
      if nodupz o && forallb (fun m => memz m (pw_bumping w)) o
      then (o ++ filter (fun m => negb (memz m o)) (pw_bumping w), w1)
      else (pw_bumping w, set_bad w1)
  | [] => (pw_bumping w, set_bad w)
  end.

Definition index_of (w : pworld) (n : Z) : nat := match ev_of w n with Some (k, _) => k | None => 0%nat end.
Definition probe (w : pworld) : list action :=
  if pc_observe cfg then map (fun n => AQuery (index_of w n)) (pc_nodes cfg) else [].

(* the event function fired(t, n) *)
Definition fired_prog : dynprog pworld := fun t e _ w =>
  match e with
  | EN n =>
      let w0 := set_sets [] [] w in
      let st1 := fire_node t n (w0, []) in
      let w2 := add_log t n (fst st1) in
      let '(ms, w3) := pop_order w2 in
      let st4 := cascade_loop t n ms (w3, snd st1) in
      (fst st4, snd st4 ++ probe (fst st4))
  | EE _ _ => (w, [])
  end.

(* initialisePhases: state = rng.random(); phase = stateToPhase(state); setPhase(0.0, n, phase) *)
Definition init_node (st : pstate) (n : Z) : pstate :=
  let '(state, w1) := ask RR 0 0 (fst st) in
  let '(phase, w2) := ask RG 0 state w1 in
  set_phase 0 n phase (w2, snd st).

Definition init_world (oracle : list (rkind * Q)) (orders : list (list Z)) : pworld :=
  {| pw_ev := []; pw_nposted := 0; pw_ftimes := []; pw_fnodes := []; pw_bumping := []; pw_bumped := [];
     pw_oracle := oracle; pw_orders := orders; pw_reqs := []; pw_bad := false |}.

Definition init_phases (oracle : list (rkind * Q)) (orders : list (list Z)) : pstate :=
  fold_left init_node (pc_nodes cfg) (init_world oracle orders, []).

(* the process in a simulation: set-up runs with the kernel at time 0 *)
Definition pulse_table (oracle : list (rkind * Q)) (orders : list (list Z)) : table pworld :=
  let st := init_phases oracle orders in
  {| t_maxtime := pc_maxtime cfg;
     t_loci := [];
     t_procs := [{| p_events := []; p_setup := snd st ++ probe (fst st) |}];
     t_progs := [fired_prog];
     t_world := fst st;
     (* atEquilibrium is only t >= maximumTime; the model also stops once it has lost track of the
        implementation (oracle of the wrong kind or exhausted, see pw_bad): nothing is claimed about such runs *)
     t_equil := fun _ w => pw_bad w |}.

(* results(): the final phases [getPhase(t, n) for n in g.nodes()] at t = currentSimulationTime() *)
Definition final_phases (t : Q) (w : pworld) : list Q * pworld :=
  fold_left (fun acc n => let '(phi, w1) := get_phase t n (snd acc) in (fst acc ++ [phi], w1)) (pc_nodes cfg) ([], w).

End Pulse.
