(* Executable model of the addition-deletion process (C19).  NO proofs here.

   Transcribed from /repo/epydemic/adddelete.py (AddDelete.build/setUp/addNode/newNodeName/
   addNewNode/removeNode/add/delete), process.py (Process.addNode/removeNode/addEdge) and the two
   documented ways of combining it with a compartmented model, as the repository itself carries
   them in test/test_adddeletesir.py and doc/cookbook/dynamic-population.rst:

     Inherit            class DynamicSIR(SIR, AddDelete)            (multiple inheritance)
     Sequence false     ProcessSequence({disease: SIR(), population: CompartmentedAddDelete()})
                        exactly as documented: CompartmentedAddDelete overrides addNewNode and
                        removeNode only (defect F11)
     Sequence true      the same with the repair proposed in fixes/F11-*.diff: the recipe also
                        overrides addEdge and delegates it to the disease process
     Alone              AddDelete on its own

   Method resolution, written out (-> = "reaches"):

     call in adddelete.py     Alone                 Inherit (MRO DynamicSIR, SIR, CompartmentedModel,      Sequence (self = CompartmentedAddDelete,
                                                    AddDelete, Process)                                    disease = container()[DISEASE])
     self.addNewNode()        AddDelete.addNewNode  DynamicSIR.addNewNode: AddDelete.addNewNode, then       CompartmentedAddDelete.addNewNode: AddDelete.addNewNode,
                                                    self.setCompartment(n, S)                              then disease.setCompartment(n, S)
     self.addNode(n)          AddDelete.addNode ->  CompartmentedModel.addNode(n, c=None) ->               AddDelete.addNode -> Process.addNode; locus add
                              Process.addNode;      AddDelete.addNode -> Process.addNode; locus add
                              locus add
     self.addEdge(i, j)       Process.addEdge       CompartmentedModel.addEdge (Process.addEdge, then      Process.addEdge   (F11: the disease's loci never hear
                                                    the add handlers)                                      of the edge);  with the repair: disease.addEdge
     self.removeNode(n)       AddDelete.removeNode  DynamicSIR.removeNode: self.changeCompartment(n, R);   CompartmentedAddDelete.removeNode:
                              (locus discard;       CompartmentedModel.removeNode (remove handlers for     disease.changeCompartment(n, R); AddDelete.removeNode
                              Process.removeNode)   the incident edges and the node; AddDelete.removeNode  (locus discard; Process.removeNode)
                                                    -> locus discard; Process.removeNode)

   The network, the compartments and the disease's loci are a Model/Loci.v state; the disease's
   event functions are the programs of Model/Compart.v; everything runs on Model/Kernel.v.  The
   all-nodes locus is kept (a) as the handlers of AddDelete maintain it (aw_all) and (b) in the
   kernel's ordered loci, updated by explicit add/discard actions, like the disease loci.

   DrawSet.draw inside the event function add is served from a list of ranks held in the world
   (the kernel's own draws are only visible to the scheduler loops); a rank k selects the element
   number k of the ascending enumeration of the locus.  Python's `while True` around the draw has no
   bound: the model stops with aw_stuck := true when the ranks run out. *)
From Coq Require Import List ZArith QArith Bool Arith.
From EpyV Require Import Lib.Prelude Model.Kernel Model.Loci Model.Compart.
Import ListNotations.
Close Scope Q_scope.
Close Scope Z_scope.

(* ---------- the all-nodes locus as a set of node names ---------- *)
Definition zadd (x : Z) (l : list Z) : list Z := if zmem x l then l else l ++ [x].
Definition zdiscard (x : Z) (l : list Z) : list Z := filter (fun y => negb (Z.eqb x y)) l.
(* ascending enumeration (what iterating a DrawSet gives) *)
Fixpoint zins (x : Z) (l : list Z) : list Z :=
  match l with
  | [] => [x]
  | y :: l' => if (x <? y)%Z then x :: l else if (x =? y)%Z then l else y :: zins x l'
  end.
Definition zsort (l : list Z) : list Z := fold_left (fun acc x => zins x acc) l [].

(* ---------- process.py: the operations of the base class on the working network ---------- *)
(* Process.addNode: networkx add_node; an existing node stays as it is *)
Definition p_add_node (s : state) (n : Z) : state :=
  if has_node s n then s else mkState (st_nodes s ++ [n]) (st_edges s) (st_attr s) (st_loci s).

(* Process.removeNode: networkx remove_node (NetworkXError when the node is absent) *)
Definition p_remove_node (s : state) (n : Z) : state * outcome :=
  if has_node s n then
    (mkState (filter (fun v => negb (Z.eqb v n)) (st_nodes s))
             (filter (fun e => negb (touches n e)) (st_edges s))
             (fun v => if Z.eqb v n then None else st_attr s v)
             (st_loci s), Done)
  else (s, Raised).

(* Process.addEdge: both endpoints must exist; networkx add_edge, an existing edge stays as it is *)
Definition p_add_edge (s : state) (n m : Z) : state * outcome :=
  if negb (has_node s n) || negb (has_node s m) then (s, Raised)
  else (mkState (st_nodes s) (if adjb (st_edges s) n m then st_edges s else st_edges s ++ [(n, m)])
                (st_attr s) (st_loci s), Done).

(* ---------- AddDelete.newNodeName ---------- *)
(* i = g.order() + 1; while i in g.nodes(): i = i + 1.  Of order + 1 consecutive candidates at most
   order are taken, so order + 1 iterations always suffice (Proofs/AddDelete.v, name_search_fresh) *)
Fixpoint name_search (fuel : nat) (i : Z) (nodes : list Z) : Z :=
  match fuel with
  | O => i
  | S f => if zmem i nodes then name_search f (i + 1)%Z nodes else i
  end.
Definition new_node_name (s : state) : Z :=
  name_search (S (length (st_nodes s))) (Z.of_nat (length (st_nodes s)) + 1)%Z (st_nodes s).

(* ---------- the draw loop of AddDelete.add ---------- *)
(* ns.draw() with rank k on the enumeration L *)
Definition draw_at (L : list Z) (k : nat) : Z := nth (k mod length L) L 0%Z.

(* while True: j = ns.draw(); if (j not in es) and (i != j): break *)
Fixpoint pick (L : list Z) (i : Z) (es : list Z) (ds : list nat) : option (Z * list nat) :=
  match ds with
  | [] => None
  | k :: ds' => let j := draw_at L k in
                if negb (zmem j es) && negb (Z.eqb i j) then Some (j, ds') else pick L i es ds'
  end.
(* for _ in range(c): ...; es.add(j)      (es in the order drawn; Python holds it in a set) *)
Fixpoint picks (c : nat) (L : list Z) (i : Z) (es : list Z) (ds : list nat) : option (list Z * list nat) :=
  match c with
  | O => Some (es, ds)
  | S c' => match pick L i es ds with
            | None => None
            | Some (j, ds') => picks c' L i (es ++ [j]) ds'
            end
  end.

(* ---------- configurations ---------- *)
Inductive combo := Alone | Inherit | Sequence (edges_via_disease : bool).

Record adcfg := {
  ac_combo : combo;
  ac_deg : nat;                 (* self._c = params[DEGREE] *)
  ac_tbl : list spec;           (* the disease's loci in registration order ([] when alone) *)
  ac_li : nat;                  (* kernel index of the all-nodes locus *)
  ac_off : nat;                 (* kernel index of the first disease locus *)
  ac_S : Z; ac_R : Z }.         (* the compartments the documented overrides use *)

Definition with_disease (cf : adcfg) : bool := match ac_combo cf with Alone => false | _ => true end.
Definition tracked_edges (cf : adcfg) : bool :=
  match ac_combo cf with Alone => false | Inherit => true | Sequence v => v end.

(* ---------- the world ---------- *)
Inductive evkind :=
| KAdd (i : Z) (es : list Z)            (* add: the new node and the nodes it was linked to *)
| KDelete (n : Z)
| KDisease (k : nat) (e : Kernel.elem).  (* event function number k of the table *)

(* what is true after an event *)
Record snap := { sn_kind : evkind; sn_all : list Z; sn_st : state }.

Record adworld := {
  aw_c : cworld;                (* network, compartments, disease loci; occupied/hit marks *)
  aw_all : list Z;              (* the all-nodes locus *)
  aw_draws : list nat;          (* ranks for the draws inside add *)
  aw_stuck : bool;              (* the draw loop of add ran out of ranks *)
  aw_raised : bool;             (* a call made by add/delete raised (never, see C19_no_exception) *)
  aw_log : list snap }.         (* newest first *)

Definition aw_st (w : adworld) : state := cw_st (aw_c w).

Definition isdone (o : outcome) : bool := match o with Done => true | _ => false end.

(* the part of addNewNode that the combination adds *)
Definition mark_new (cf : adcfg) (s : state) (i : Z) : state * outcome :=
  if with_disease cf then set_compartment (ac_tbl cf) s i (ac_S cf)     (* [disease.]setCompartment(n, SUSCEPTIBLE) *)
  else (s, Done).

(* self.addEdge(i, j) *)
Definition link (cf : adcfg) (s : state) (i j : Z) : state * outcome :=
  if tracked_edges cf then add_edge (ac_tbl cf) s i j                  (* CompartmentedModel.addEdge *)
  else p_add_edge s i j.                                               (* Process.addEdge *)

(* for j in es: self.addEdge(i, j) *)
Fixpoint link_all (cf : adcfg) (s : state) (i : Z) (es : list Z) : state * bool :=
  match es with
  | [] => (s, true)
  | j :: es' => let '(s1, o) := link cf s i j in
                let '(s2, ok) := link_all cf s1 i es' in (s2, isdone o && ok)
  end.

(* the part of removeNode that the combination adds *)
Definition mark_removed (cf : adcfg) (s : state) (n : Z) : state * outcome :=
  if with_disease cf then change_compartment (ac_tbl cf) s n (ac_R cf)  (* [disease.]changeCompartment(n, REMOVED) *)
  else (s, Done).

(* super().removeNode(n) below the override: the network part *)
Definition unlink (cf : adcfg) (s : state) (n : Z) : state * outcome :=
  match ac_combo cf with
  | Inherit => remove_node (ac_tbl cf) s n    (* CompartmentedModel.removeNode ... Process.removeNode *)
  | _ => p_remove_node s n                    (* Process.removeNode *)
  end.

Definition set_world_st (w : adworld) (s : state) (all : list Z) (ds : list nat) (stuck raised : bool)
           (k : option evkind) : adworld :=
  {| aw_c := with_st (aw_c w) s; aw_all := all; aw_draws := ds;
     aw_stuck := aw_stuck w || stuck; aw_raised := aw_raised w || raised;
     aw_log := match k with
               | Some k => {| sn_kind := k; sn_all := all; sn_st := s |} :: aw_log w
               | None => aw_log w
               end |}.

(* AddDelete.add(t, e) as a function of the world: new world, new node, linked nodes *)
Definition add_step (cf : adcfg) (w : adworld) : adworld :=
  let s := aw_st w in
  (* i = self.addNewNode() *)
  let i := new_node_name s in
  let s1 := p_add_node s i in                                   (* ... Process.addNode *)
  let all1 := zadd i (aw_all w) in                              (* self.locus(NODES).addHandler(g, n) *)
  let '(s2, o2) := mark_new cf s1 i in
  (* the draws are made on the locus that already contains i *)
  match picks (ac_deg cf) (zsort all1) i [] (aw_draws w) with
  | None => set_world_st w s2 all1 [] true (negb (isdone o2)) None
  | Some (es, ds) =>
      let '(s3, ok) := link_all cf s2 i es in
      set_world_st w s3 all1 ds false (negb (isdone o2 && ok)) (Some (KAdd i es))
  end.

(* AddDelete.delete(t, n) = self.removeNode(n) *)
Definition delete_step (cf : adcfg) (w : adworld) (n : Z) : adworld :=
  let s := aw_st w in
  let '(s1, o1) := mark_removed cf s n in
  (* AddDelete.removeNode discards n from the locus before Process.removeNode; in the inheritance
     combination CompartmentedModel.removeNode has called its remove handlers before that: the two
     touch different data *)
  let all1 := zdiscard n (aw_all w) in
  let '(s2, o2) := unlink cf s1 n in
  set_world_st w s2 all1 (aw_draws w) false (negb (isdone o1 && isdone o2)) (Some (KDelete n)).

(* ---------- the event functions as kernel programs ---------- *)
Definition ad_add (cf : adcfg) : dynprog adworld :=
  fun _ _ kloci w =>
    let w' := add_step cf w in
    let i := new_node_name (aw_st w) in
    (w', ALAdd (ac_li cf) (EN i) :: sync_actions (ac_off cf) kloci (st_loci (aw_st w'))).

Definition ad_delete (cf : adcfg) : dynprog adworld :=
  fun _ e kloci w =>
    match e with
    | EN n => let w' := delete_step cf w n in
              (w', ALDiscard (ac_li cf) (EN n) :: sync_actions (ac_off cf) kloci (st_loci (aw_st w')))
    | EE _ _ => (w, [])              (* the all-nodes locus holds nodes only *)
    end.

(* an event function of the disease (Model/Compart.v), which knows nothing of the rest of the world *)
Definition ad_disease (cf : adcfg) (k : nat) (h : hkind) : dynprog adworld :=
  fun t e kloci w =>
    let '(c', acts) := Compart.handler (ac_tbl cf) (ac_off cf) h t e kloci (aw_c w) in
    ({| aw_c := c'; aw_all := aw_all w; aw_draws := aw_draws w; aw_stuck := aw_stuck w; aw_raised := aw_raised w;
        aw_log := {| sn_kind := KDisease k e; sn_all := aw_all w; sn_st := cw_st c' |} :: aw_log w |}, acts).

(* ---------- the simulation ---------- *)
Inductive pkind := PAdd | PDelete | PDisease (h : hkind).
Record adevent := { ae_elem : bool; ae_locus : nat; ae_p : Q; ae_kind : pkind }.

Definition prog_of_kind (cf : adcfg) (k : nat) (p : pkind) : dynprog adworld :=
  match p with PAdd => ad_add cf | PDelete => ad_delete cf | PDisease h => ad_disease cf k h end.

(* events are numbered through the processes in order; program k is the function of event k *)
Fixpoint mk_procs (k : nat) (procs : list (list adevent)) : list proc :=
  match procs with
  | [] => []
  | evs :: rest =>
      {| p_events := map (fun x => {| ev_elem := ae_elem (snd x); ev_locus := ae_locus (snd x); ev_p := ae_p (snd x); ev_prog := fst x |})
                         (combine (seq k (length evs)) evs);
         p_setup := [] |} :: mk_procs (k + length evs) rest
  end.

(* state after setUp: alone, the nodes carry no compartment attribute at all; with a disease,
   CompartmentedModel.setUp and initialCompartments have run (Loci.setup) *)
Definition init_state (cf : adcfg) (nodes : list Z) (edges : list (Z * Z)) (init : list (Z * Z)) : state :=
  if with_disease cf then Loci.setup (ac_tbl cf) nodes edges init
  else mkState nodes edges (fun _ => None) [].

Definition init_world (cf : adcfg) (nodes : list Z) (edges : list (Z * Z)) (init : list (Z * Z)) (adraws : list nat) : adworld :=
  {| aw_c := {| cw_st := init_state cf nodes edges init; cw_occ := []; cw_hit := [] |};
     aw_all := nodes;                      (* AddDelete.setUp: for n in g.nodes(): l.addHandler(g, n) *)
     aw_draws := adraws; aw_stuck := false; aw_raised := false; aw_log := [] |}.

(* nloci kernel loci: the all-nodes locus at ac_li, the disease loci from ac_off *)
Definition init_kloci (cf : adcfg) (nloci : nat) (s0 : state) (nodes : list Z) : list (nat * list Kernel.elem) :=
  map (fun j => (0,
         if Nat.eqb j (ac_li cf) then map EN nodes
         else if Nat.leb (ac_off cf) j && Nat.ltb j (ac_off cf + length (ac_tbl cf))
              then ksort (nth (j - ac_off cf) (st_loci s0) [])
              else []))
      (seq 0 nloci).

Definition ad_table (cf : adcfg) (procs : list (list adevent)) (nloci : nat)
           (nodes : list Z) (edges : list (Z * Z)) (init : list (Z * Z)) (maxtime : Q) (adraws : list nat) : table adworld :=
  let w0 := init_world cf nodes edges init adraws in
  let flat := concat procs in
  {| t_maxtime := maxtime;
     t_loci := init_kloci cf nloci (aw_st w0) nodes;
     t_procs := mk_procs 0 procs;
     t_progs := map (fun x => prog_of_kind cf (fst x) (ae_kind (snd x))) (combine (seq 0 (length flat)) flat);
     t_world := w0;
     t_equil := fun _ _ => false |}.           (* neither AddDelete nor SIR overrides atEquilibrium *)

(* ---------- what the property talks about ---------- *)
Definition neighbours (s : state) (n : Z) : list Z := map snd (incident (st_edges s) n).
Definition count_adds (log : list snap) : nat :=
  length (filter (fun sn => match sn_kind sn with KAdd _ _ => true | _ => false end) log).
Definition count_deletes (log : list snap) : nat :=
  length (filter (fun sn => match sn_kind sn with KDelete _ => true | _ => false end) log).

(* a whole run under either dynamics *)
Definition ad_run (cf : adcfg) (procs : list (list adevent)) (nloci : nat)
           (nodes : list Z) (edges : list (Z * Z)) (init : list (Z * Z)) (maxtime : Q) (adraws : list nat)
           (sync : bool) (pf fuel : nat) (rs ls : list Q) (ds : list nat) : result adworld :=
  let tb := ad_table cf procs nloci nodes edges init maxtime adraws in
  if sync then sync_run tb pf fuel rs ds else stoch_run tb pf fuel rs ls ds.
