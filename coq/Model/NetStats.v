(* Model of epydemic/statistics.py: NetworkStatistics.results() on a finite undirected graph
   (node list, edge list, a self-loop counts twice in a degree as in networkx).
   Executable definitions only. *)
From Coq Require Import List ZArith QArith Bool Arith.
From EpyV Require Import Lib.Prelude.
Import ListNotations.

Definition edge := (Z * Z)%type.

Definition deg1 (n : Z) (e : edge) : nat :=
  ((if Z.eqb (fst e) n then 1 else 0) + (if Z.eqb (snd e) n then 1 else 0))%nat.
Definition degree (es : list edge) (n : Z) : nat := fold_right (fun e a => (deg1 n e + a)%nat) 0%nat es.

Definition max_degree (nodes : list Z) (es : list edge) : nat :=
  fold_right (fun n a => Nat.max (degree es n) a) 0%nat nodes.

Definition count_deg (nodes : list Z) (es : list edge) (i : nat) : nat :=
  length (filter (fun n => Nat.eqb (degree es n) i) nodes).

(* networkx.degree_histogram: [] for the null graph, else counts for degrees 0..max *)
Definition histogram (nodes : list Z) (es : list edge) : list nat :=
  match nodes with
  | [] => []
  | _ => map (count_deg nodes es) (seq 0 (S (max_degree nodes es)))
  end.

Fixpoint weighted_sum (i : nat) (h : list nat) : nat :=
  match h with [] => 0%nat | x :: h' => (i * x + weighted_sum (S i) h')%nat end.

(* connected components by label propagation: every node starts with its own label, each pass
   gives both ends of every edge the smaller label; |V| passes suffice *)
Definition label_of (lab : list (Z * Z)) (n : Z) : Z :=
  match find (fun x => Z.eqb (fst x) n) lab with Some x => snd x | None => n end.
Definition relabel (lab : list (Z * Z)) (e : edge) : list (Z * Z) :=
  let a := label_of lab (fst e) in let b := label_of lab (snd e) in
  let m := Z.min a b in
  map (fun x => if Z.eqb (snd x) a || Z.eqb (snd x) b then (fst x, m) else x) lab.
Fixpoint passes (k : nat) (es : list edge) (lab : list (Z * Z)) : list (Z * Z) :=
  match k with O => lab | S k' => passes k' es (fold_left relabel es lab) end.
Definition labels (nodes : list Z) (es : list edge) : list (Z * Z) :=
  passes (length nodes) es (map (fun n => (n, n)) nodes).
Fixpoint zdedup (l : list Z) : list Z :=
  match l with [] => [] | x :: l' => if existsb (Z.eqb x) l' then zdedup l' else x :: zdedup l' end.
Definition component_sizes (nodes : list Z) (es : list edge) : list nat :=
  let lab := labels nodes es in
  map (fun r => length (filter (fun x => Z.eqb (snd x) r) lab)) (zdedup (map snd lab)).

(* sorted(sizes, reverse=True) *)
Fixpoint insert_desc (x : nat) (l : list nat) : list nat :=
  match l with [] => [x] | y :: l' => if (y <=? x)%nat then x :: l else y :: insert_desc x l' end.
Definition sort_desc (l : list nat) : list nat := fold_right insert_desc [] l.

Record stats := {
  s_N : nat; s_M : nat; s_kmean : Q; s_kmax : nat; s_kdist : list nat;
  s_components : nat; s_lcc : nat; s_slcc : nat }.

Definition statistics (nodes : list Z) (es : list edge) : stats :=
  let h := histogram nodes es in
  let ccs := sort_desc (component_sizes nodes es) in
  {| s_N := length nodes; s_M := length es;
     s_kmean := inject_Z (Z.of_nat (weighted_sum 0 h)) / inject_Z (Z.of_nat (length nodes));
     s_kmax := (length h - 1)%nat; s_kdist := h;
     s_components := length ccs;
     s_lcc := nth 0 ccs 0%nat; s_slcc := nth 1 ccs 0%nat |}.
