(* Shipped compartmented models as programs of the kernel model: the event functions of
   sir_model.py, sis_model.py, sirs_model.py, seir_model.py, sir/sis_model_fixed_recovery.py,
   opinion_model.py (infect / remove / recover / resuscept / symptoms / affect / stifle),
   CompartmentedModel.setUp / markOccupied / markHit / results / skeletonise, and Monitor.
   The loci are maintained by the handler dispatch of Model/Loci.v (changeCompartment), the
   kernel's ordered loci are kept equal to them by explicit add/discard actions.
   Executable definitions only. *)
From Coq Require Import List ZArith QArith Bool Arith.
From EpyV Require Import Lib.Prelude Model.Kernel Model.Loci.
Import ListNotations.
Open Scope Q_scope.

Definition kelem (e : Loci.elem) : Kernel.elem :=
  match e with Loci.N n => EN n | Loci.E n m => EE n m end.
(* a DrawSet iterates in ascending order whatever the insertion order was *)
Definition ksort (l : list Loci.elem) : list Kernel.elem :=
  fold_left (fun acc x => ins (kelem x) acc) l [].

(* the user state of a compartmented model *)
Record cworld := {
  cw_st : Loci.state;                 (* network, compartments, loci as the handlers maintain them *)
  cw_occ : list (Z * Z * Q);          (* occupied edges (as given to markOccupied) with tOccupied *)
  cw_hit : list (Z * Q) }.            (* tHitting *)

(* summaries of the shipped event functions *)
Inductive hkind :=
| HNode (c : Z)                                         (* changeCompartment(n, c) on a node element *)
| HLeft (c : Z) (mark : bool) (post : option (Q * nat)) (* (n, _) = e; changeCompartment(n, c);
                                                           mark: markOccupied(e, t); markHit(n, t)  (first only);
                                                           post (T, k): postEvent(t + T, n, program k) *)
| HNop                                                  (* changes neither compartments nor loci (Vaccinate.vaccinate) *)
| HObs.                                                 (* Monitor.observe *)

Definition undirected_eqb (a b : Z * Z) : bool :=
  zpair_eqb a b || zpair_eqb a (snd b, fst b).

(* markOccupied(e, t, firstOnly=True): the OCCUPIED flag lives on the undirected edge *)
Definition mark_occupied (e : Z * Z) (t : Q) (occ : list (Z * Z * Q)) : list (Z * Z * Q) :=
  if existsb (fun x => undirected_eqb (fst x) e) occ then occ else occ ++ [(e, t)].
(* markHit(n, t, firstOnly=True) *)
Definition mark_hit (n : Z) (t : Q) (hit : list (Z * Q)) : list (Z * Q) :=
  if existsb (fun x => Z.eqb (fst x) n) hit then hit else hit ++ [(n, t)].

(* keep the kernel's copy of the loci of this process (at global indices off, off+1, ...) equal to
   the contents the handlers produced *)
Definition kmem (x : Kernel.elem) (l : list Kernel.elem) : bool := existsb (Kernel.elem_eqb x) l.
Fixpoint sync_from (i : nat) (old : list (list Kernel.elem)) (new : list (list Loci.elem)) : list action :=
  match new with
  | [] => []
  | n :: new' =>
      let o := match old with [] => [] | o :: _ => o end in
      let ns := ksort n in
      map (fun x => ALDiscard i x) (filter (fun x => negb (kmem x ns)) o)
      ++ map (fun x => ALAdd i x) (filter (fun x => negb (kmem x o)) ns)
      ++ sync_from (S i) (tl old) new'
  end.
Definition sync_actions (off : nat) (kloci : list (list Kernel.elem)) (new : list (list Loci.elem)) : list action :=
  sync_from off (skipn off kloci) new.

Definition with_st (w : cworld) (s : Loci.state) : cworld :=
  {| cw_st := s; cw_occ := cw_occ w; cw_hit := cw_hit w |}.

(* the event function with summary h, for a model with loci table tbl whose loci start at index off *)
Definition handler (tbl : list Loci.spec) (off : nat) (h : hkind) : dynprog cworld :=
  fun t e kloci w =>
    match h, e with
    | HNode c, EN n =>
        let s' := fst (change_compartment tbl (cw_st w) n c) in
        (with_st w s', sync_actions off kloci (st_loci s'))
    | HLeft c mark post, EE n m =>
        let s' := fst (change_compartment tbl (cw_st w) n c) in
        let w' := if mark
                  then {| cw_st := s'; cw_occ := mark_occupied (n, m) t (cw_occ w); cw_hit := mark_hit n t (cw_hit w) |}
                  else with_st w s' in
        (w', sync_actions off kloci (st_loci s')
             ++ match post with Some (T, k) => [APostOn (EN n) T k] | None => [] end)
    | HObs, _ => (w, [AObserve])
    | _, _ => (w, [])
    end.

(* a shipped model instance in a simulation *)
Record cevent := { ce_elem : bool; ce_locus : nat; ce_p : Q; ce_kind : hkind }.
Record cmodel := {
  cm_specs : list Loci.spec;          (* loci in registration order (tie A: read off the live objects) *)
  cm_events : list cevent;            (* events in registration order; program j is the handler of event j *)
  cm_extra : list hkind;              (* further programs (posted removal of the fixed-recovery variants) *)
  cm_seed_post : option (Z * Q * nat); (* fixed recovery set-up: for every node in compartment c post program k at T *)
  cm_equil : list nat                 (* Opinion.atEquilibrium: the run also ends when all of these loci are empty ([] = no such test) *)
}.

Definition nodes_in (s : Loci.state) (c : Z) : list Z :=
  filter (fun v => match getc s v with Some x => Z.eqb x c | None => false end) (st_nodes s).

(* The simulation [Monitor?; model]: process 0 is the monitor when present (it posts its repeating
   observation during build, i.e. before any setUp), then the model.  init gives the initial
   compartment of every node in network order (what initialCompartments assigned). *)
Definition mk_table (cm : cmodel) (nodes : list Z) (edges : list (Z * Z)) (init : list (Z * Z))
           (maxtime : Q) (monitor : option Q) : table cworld :=
  let s0 := Loci.setup (cm_specs cm) nodes edges init in
  let nprog := length (cm_events cm) in
  let mpi := match monitor with Some _ => 1%nat | None => 0%nat end in
  let progs := map (fun ev => handler (cm_specs cm) 0 (ce_kind ev)) (cm_events cm)
               ++ map (handler (cm_specs cm) 0) (cm_extra cm) ++ [handler (cm_specs cm) 0 HObs] in
  let kobs := (nprog + length (cm_extra cm))%nat in
  let model_proc :=
    {| p_events := map (fun x => {| ev_elem := ce_elem (snd x); ev_locus := ce_locus (snd x); ev_p := ce_p (snd x); ev_prog := fst x |})
                       (combine (seq 0 nprog) (cm_events cm));
       p_setup := match cm_seed_post cm with
                  | Some (c, T, k) => map (fun n => APostOn (EN n) T k) (nodes_in s0 c)
                  | None => []
                  end |} in
  {| t_maxtime := maxtime;
     t_loci := map (fun l => (mpi, ksort l)) (st_loci s0);
     t_procs := match monitor with
                | Some delta => [{| p_events := []; p_setup := [APostRep 0 delta kobs] |}; model_proc]
                | None => [model_proc]
                end;
     t_progs := progs;
     t_world := {| cw_st := s0; cw_occ := []; cw_hit := [] |};
     (* a ProcessSequence is at equilibrium only when every component is; a Monitor is only at t >= maximumTime *)
     t_equil := fun kloci _ =>
       match monitor, cm_equil cm with
       | Some _, _ => false
       | None, [] => false
       | None, ls => forallb (fun i => match nth i kloci [] with [] => true | _ => false end) ls
       end |}.

(* CompartmentedModel.results(): nodes per compartment *)
Definition count_in (s : Loci.state) (c : Z) : nat := length (nodes_in s c).
