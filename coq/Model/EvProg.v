(* Event functions of the shipped compartmented models as *programs*: the statement language that
   harness/evsrc.py (a fail-closed translator over the Python ast of the function that the live
   model object would call, super() and self.f() calls inlined along the MRO) emits on every run,
   and its interpretation as an event function of the kernel model over the compartmented world
   of Model/Compart.v.  Executable definitions only.

   Python                                                  statement
   n, _ = e   /   (n, m) = e   /   n, m = e                SUnpack
   self.changeCompartment(n, self.C)                       SChange c
   self.markOccupied(e, t[, firstOnly=b])                  SMarkOcc b     (default True)
   self.markHit(n, t[, firstOnly=b])                       SMarkHit b     (default True)
   <graph>.nodes[n][K] = v   (K not a modelled attribute)  SSetAttr
   g = self.network()                                      SSetAttr       (binds a local, no effect)
   self.postEvent(t + T, n, self.f, name=...)              SPost T k      (k: the program f was given)
   self.locus(self.L).enterHandler(g, n)                   SEnter i       (i: kernel index of the plain locus L)
   self.locus(self.L).leaveHandler(g, n)                   SLeave i *)
From Coq Require Import List ZArith QArith Bool Arith.
From EpyV Require Import Lib.Prelude Model.Kernel Model.Loci Model.Compart.
Import ListNotations.
Open Scope Q_scope.

Inductive stmt :=
| SUnpack
| SChange (c : Z)
| SMarkOcc (firstOnly : bool)
| SMarkHit (firstOnly : bool)
| SSetAttr
| SPost (T : Q) (k : nat)
| SEnter (i : nat)
| SLeave (i : nat).

(* the parameter list is (self, t, n) for events on node loci and (self, t, e) for events on edge loci *)
Inductive eprog := PNode (body : list stmt) | PEdge (body : list stmt).

(* markOccupied(e, t, firstOnly=False): the time is overwritten *)
Definition mark_occupied_over (e : Z * Z) (t : Q) (occ : list (Z * Z * Q)) : list (Z * Z * Q) :=
  if existsb (fun x => undirected_eqb (fst x) e) occ
  then map (fun x => if undirected_eqb (fst x) e then (fst x, t) else x) occ
  else occ ++ [(e, t)].
Definition mark_hit_over (n : Z) (t : Q) (hit : list (Z * Q)) : list (Z * Q) :=
  if existsb (fun x => Z.eqb (fst x) n) hit
  then map (fun x => if Z.eqb (fst x) n then (n, t) else x) hit
  else hit ++ [(n, t)].

(* interpreter state: the world, the local n (None: not bound yet), the events posted so far *)
Record ist := { i_w : cworld; i_n : option Z; i_posts : list action }.

Definition exec (tbl : list Loci.spec) (t : Q) (ed : option (Z * Z)) (s : stmt) (x : ist) : ist :=
  match s with
  | SUnpack =>
      match ed with
      | Some (n, _) => {| i_w := i_w x; i_n := Some n; i_posts := i_posts x |}
      | None => x                                   (* unpacking a node raises TypeError; never summarised *)
      end
  | SChange c =>
      match i_n x with
      | Some n => {| i_w := with_st (i_w x) (fst (change_compartment tbl (cw_st (i_w x)) n c)); i_n := i_n x; i_posts := i_posts x |}
      | None => x                                   (* NameError; never summarised *)
      end
  | SMarkOcc fo =>
      match ed with
      | Some e => let w := i_w x in
                  {| i_w := {| cw_st := cw_st w;
                               cw_occ := (if fo then mark_occupied else mark_occupied_over) e t (cw_occ w);
                               cw_hit := cw_hit w |};
                     i_n := i_n x; i_posts := i_posts x |}
      | None => x
      end
  | SMarkHit fo =>
      match i_n x with
      | Some n => let w := i_w x in
                  {| i_w := {| cw_st := cw_st w; cw_occ := cw_occ w;
                               cw_hit := (if fo then mark_hit else mark_hit_over) n t (cw_hit w) |};
                     i_n := i_n x; i_posts := i_posts x |}
      | None => x
      end
  | SSetAttr => x
  | SPost T k =>
      match i_n x with
      | Some n => {| i_w := i_w x; i_n := i_n x; i_posts := i_posts x ++ [APostOn (EN n) T k] |}
      | None => x
      end
  | SEnter i =>
      match i_n x with
      | Some n => {| i_w := i_w x; i_n := i_n x; i_posts := i_posts x ++ [ALAdd i (EN n)] |}
      | None => x
      end
  | SLeave i =>
      match i_n x with
      | Some n => {| i_w := i_w x; i_n := i_n x; i_posts := i_posts x ++ [ALDiscard i (EN n)] |}
      | None => x
      end
  end.

Definition run_body (tbl : list Loci.spec) (t : Q) (ed : option (Z * Z)) (body : list stmt) (x : ist) : ist :=
  fold_left (fun x s => exec tbl t ed s x) body x.

(* loci change only through changeCompartment: a body without one leaves the kernel's copy alone *)
Definition changes (body : list stmt) : bool :=
  existsb (fun s => match s with SChange _ => true | _ => false end) body.

(* the event function: loci of the model start at kernel index off *)
Definition finish (off : nat) (kloci : list (list Kernel.elem)) (body : list stmt) (x : ist) : cworld * list action :=
  (i_w x, (if changes body then sync_actions off kloci (st_loci (cw_st (i_w x))) else []) ++ i_posts x).
Definition interp (tbl : list Loci.spec) (off : nat) (p : eprog) : dynprog cworld :=
  fun t e kloci w =>
    match p, e with
    | PNode body, EN n =>
        finish off kloci body (run_body tbl t None body {| i_w := w; i_n := Some n; i_posts := [] |})
    | PEdge body, EE n m =>
        finish off kloci body (run_body tbl t (Some (n, m)) body {| i_w := w; i_n := None; i_posts := [] |})
    | _, _ => (w, [])
    end.

(* ------------------------------------------------------------------ summaries *)
(* abstract run: which effects the body has, each at most once; None = outside the fragment *)
Record asum := { a_bound : bool; a_chg : option Z; a_occ : option bool; a_hit : option bool; a_post : option (Q * nat);
                 a_lacts : list (bool * nat) }.     (* plain-locus enter (true) / leave (false) calls, in order; none may precede a post *)

Definition aexec (edge : bool) (s : stmt) (a : asum) : option asum :=
  match s with
  | SUnpack => if edge then Some {| a_bound := true; a_chg := a_chg a; a_occ := a_occ a; a_hit := a_hit a; a_post := a_post a; a_lacts := a_lacts a |} else None
  | SChange c =>
      match a_bound a, a_chg a with
      | true, None => Some {| a_bound := true; a_chg := Some c; a_occ := a_occ a; a_hit := a_hit a; a_post := a_post a; a_lacts := a_lacts a |}
      | _, _ => None
      end
  | SMarkOcc fo =>
      match edge, a_occ a with
      | true, None => Some {| a_bound := a_bound a; a_chg := a_chg a; a_occ := Some fo; a_hit := a_hit a; a_post := a_post a; a_lacts := a_lacts a |}
      | _, _ => None
      end
  | SMarkHit fo =>
      match a_bound a, a_hit a with
      | true, None => Some {| a_bound := true; a_chg := a_chg a; a_occ := a_occ a; a_hit := Some fo; a_post := a_post a; a_lacts := a_lacts a |}
      | _, _ => None
      end
  | SSetAttr => Some a
  | SPost T k =>
      match a_bound a, a_post a, a_lacts a with
      | true, None, [] => Some {| a_bound := true; a_chg := a_chg a; a_occ := a_occ a; a_hit := a_hit a; a_post := Some (T, k); a_lacts := [] |}
      | _, _, _ => None
      end
  | SEnter i =>
      if a_bound a then Some {| a_bound := true; a_chg := a_chg a; a_occ := a_occ a; a_hit := a_hit a; a_post := a_post a; a_lacts := a_lacts a ++ [(true, i)] |}
      else None
  | SLeave i =>
      if a_bound a then Some {| a_bound := true; a_chg := a_chg a; a_occ := a_occ a; a_hit := a_hit a; a_post := a_post a; a_lacts := a_lacts a ++ [(false, i)] |}
      else None
  end.

Fixpoint arun (edge : bool) (body : list stmt) (a : asum) : option asum :=
  match body with
  | [] => Some a
  | s :: body' => match aexec edge s a with Some a' => arun edge body' a' | None => None end
  end.

Definition a0 (bound : bool) : asum := {| a_bound := bound; a_chg := None; a_occ := None; a_hit := None; a_post := None; a_lacts := [] |}.

(* the summary of Model/Compart.v that the program implements, if it is one of them *)
Definition summarise (p : eprog) : option hkind :=
  match p with
  | PNode body =>
      match arun false body (a0 true) with
      | Some {| a_chg := Some c; a_occ := None; a_hit := None; a_post := None; a_lacts := [] |} => Some (HNode c)
      | Some {| a_chg := None; a_occ := None; a_hit := None; a_post := None; a_lacts := [] |} => Some HNop
      | _ => None
      end
  | PEdge body =>
      match arun true body (a0 false) with
      | Some {| a_chg := Some c; a_occ := Some true; a_hit := Some true; a_post := post; a_lacts := [] |} => Some (HLeft c true post)
      | Some {| a_chg := Some c; a_occ := None; a_hit := None; a_post := post; a_lacts := [] |} => Some (HLeft c false post)
      | _ => None
      end
  end.

(* the part of a summary that concerns compartments and posted events only (what C07 talks about) *)
Inductive csum := CNode (c : Z) | CLeft (c : Z) (post : option (Q * nat)) | CNop.
Definition comp_part (h : hkind) : csum :=
  match h with HNode c => CNode c | HLeft c _ post => CLeft c post | HNop => CNop | HObs => CNop end.
Definition summarise_comp (p : eprog) : option csum :=
  match p with
  | PNode body =>
      match arun false body (a0 true) with
      | Some {| a_chg := Some c; a_occ := None; a_post := None; a_lacts := [] |} => Some (CNode c)
      | Some {| a_chg := None; a_occ := None; a_post := None; a_lacts := [] |} => Some CNop
      | _ => None
      end
  | PEdge body =>
      match arun true body (a0 false) with
      | Some {| a_chg := Some c; a_post := post; a_lacts := [] |} => Some (CLeft c post)
      | _ => None
      end
  end.
