(* SIvR (sivr_model.py) as a kernel program: SIR whose infection of a vaccinated node, once the
   vaccine has taken effect, is gated on a random value against the efficacy; two plain loci
   track infected-unvaccinated and infected-vaccinated nodes.  Extends Model/Compart.v without
   changing it.  Executable definitions only. *)
From Coq Require Import List ZArith QArith Bool Arith.
From EpyV Require Import Lib.Prelude Model.Kernel Model.Loci Model.Compart.
Import ListNotations.
Open Scope Q_scope.

Record vworld := {
  vw_base : cworld;
  vw_vacc : list (Z * Q);       (* vaccinated nodes with their vaccination time *)
  vw_gate : list Q }.           (* the values rng.random() returns inside SIvR.infect, in order *)

Inductive vkind :=
| VBase (h : hkind)                              (* an event function of Compart.v on the base state *)
| VInfect (c : Z) (eff off : Q) (iN iV : nat)    (* SIvR.infect: loci iN / iV are INFECTED_N / INFECTED_V *)
| VRemove (c : Z) (iN iV : nat).                 (* SIvR.remove *)

Definition vacc_time (w : vworld) (n : Z) : option Q :=
  option_map snd (find (fun x => Z.eqb (fst x) n) (vw_vacc w)).

Definition with_base (w : vworld) (b : cworld) : vworld :=
  {| vw_base := b; vw_vacc := vw_vacc w; vw_gate := vw_gate w |}.
Definition pop_gate (w : vworld) : vworld :=
  {| vw_base := vw_base w; vw_vacc := vw_vacc w; vw_gate := tl (vw_gate w) |}.

(* changeCompartment(n, c); markOccupied(e, t); locus idx .enterHandler(g, n)   -- no markHit in SIvR *)
Definition v_infect (tbl : list Loci.spec) (off0 : nat) (c : Z) (idx : nat) (t : Q) (n m : Z)
           (kloci : list (list Kernel.elem)) (w : vworld) : vworld * list action :=
  let b := vw_base w in
  let s' := fst (change_compartment tbl (cw_st b) n c) in
  (with_base w {| cw_st := s'; cw_occ := mark_occupied (n, m) t (cw_occ b); cw_hit := cw_hit b |},
   sync_actions off0 kloci (st_loci s') ++ [ALAdd idx (EN n)]).

Definition vhandler (tbl : list Loci.spec) (off0 : nat) (h : vkind) : dynprog vworld :=
  fun t e kloci w =>
    match h with
    | VBase h0 =>
        let '(b', acts) := handler tbl off0 h0 t e kloci (vw_base w) in (with_base w b', acts)
    | VInfect c eff off iN iV =>
        match e with
        | EE n m =>
            let effective := match vacc_time w n with Some tv => Qltb (tv + off) t | None => false end in
            if effective then
              match vw_gate w with
              | r :: _ => if Qltb eff r then v_infect tbl off0 c iV t n m kloci (pop_gate w) else (pop_gate w, [])
              | [] => (w, [])
              end
            else v_infect tbl off0 c iN t n m kloci w
        | EN _ => (w, [])
        end
    | VRemove c iN iV =>
        match e with
        | EN n =>
            let b := vw_base w in
            let s' := fst (change_compartment tbl (cw_st b) n c) in
            (with_base w (with_st b s'), sync_actions off0 kloci (st_loci s') ++ [ALDiscard iV (EN n); ALDiscard iN (EN n)])
        | EE _ _ => (w, [])
        end
    end.

Record vevent := { ve_elem : bool; ve_locus : nat; ve_p : Q; ve_kind : vkind }.
Record vmodel := { vm_specs : list Loci.spec; vm_events : list vevent; vm_plain : nat (* number of plain loci after the tracked ones *) }.

(* the simulation [SIvR] (no monitor); vaccinated nodes are given with their times *)
Definition mk_vtable (vm : vmodel) (nodes : list Z) (edges : list (Z * Z)) (init : list (Z * Z))
           (maxtime : Q) (vacc : list (Z * Q)) (gate : list Q) : table vworld :=
  let s0 := Loci.setup (vm_specs vm) nodes edges init in
  let nprog := length (vm_events vm) in
  {| t_maxtime := maxtime;
     t_loci := map (fun l => (0%nat, ksort l)) (st_loci s0) ++ repeat (0%nat, []) (vm_plain vm);
     t_procs := [{| p_events := map (fun x => {| ev_elem := ve_elem (snd x); ev_locus := ve_locus (snd x); ev_p := ve_p (snd x); ev_prog := fst x |})
                                    (combine (seq 0 nprog) (vm_events vm));
                    p_setup := [] |}];
     t_progs := map (fun ev => vhandler (vm_specs vm) 0 (ve_kind ev)) (vm_events vm);
     t_world := {| vw_base := {| cw_st := s0; cw_occ := []; cw_hit := [] |}; vw_vacc := vacc; vw_gate := gate |};
     t_equil := fun _ _ => false |}.
