(* The two scheduler loops of Model/Kernel.v for processes whose per-element event distribution
   is STATE DEPENDENT: a process may override Process.perElementEventDistribution(t) and append,
   to its registered per-element events, entries computed from the current state.  The one
   shipped instance is SIR_VariableInfection (sir_model_variable_infection.py), which appends
   one entry (SingletonLocus(self, e, SI), infectivity(e), self.infect, INFECTED) per edge e
   currently in its SI locus.

   What the code does with such an entry (l, pr, ef, name), l a SingletonLocus:
     networkdynamics.py  perElementEventDistribution / perElementEventRateDistribution: for every
                         process p of allProcesses(), in order, p's own list (registered entries
                         first, then the appended ones); eventRateDistribution = these, then the
                         fixed-rate entries of all processes
     SingletonLocus      __contains__(e): e is the value and the value is still in the locus it was
                         taken from; __len__: 1 if the value is still in that locus, else 0 (repair
                         F15, /repo 0d0f7b6: it used to be 1 always); draw(): the value; iteration:
                         the value
     process.py          rate = pr * len(l)
     stochasticdynamics  the entry takes part in the total rate, in "len(transitions) > 1" and in
                         the inverse-CDF scan; when chosen, after the posted events of the interval
                         ran: `if len(l) > 0` is the entry's membership test on the CURRENT state;
                         if it holds e = l.draw() is the stored value (rng.integers is NOT
                         consulted) and ef(t, e) is called; otherwise nothing fires, nothing is counted
     synchronousdynamics len(l) > 0 and pr > 0: one rng.random() <= pr trial for the one element;
                         at firing time `e in l` is the same membership test

   Everything else (state, posted events, programs, oracle, set-up, the result record) is
   Model/Kernel.v, imported.  Executable definitions only. *)
From Coq Require Import List ZArith QArith Qabs Bool Arith.
From EpyV Require Import Model.Kernel.
Import ListNotations.
Open Scope Q_scope.

Section KernelDyn.
Variable W : Type.

(* one appended entry: (SingletonLocus(p, value, l), pr, ef, name) *)
Record dyn_event := {
  de_value : elem;                               (* SingletonLocus._value: what draw() returns and what iteration yields *)
  de_p : Q;                                      (* the probability stored in the entry *)
  de_prog : nat;                                 (* the event function *)
  de_name : nat;                                 (* the tap reports the event as NEv pi de_name *)
  de_member : list (list elem) -> W -> bool }.   (* `value in l` evaluated on the CURRENT loci and user state *)

Record dtable := {
  d_tb : table W;                                            (* everything registered at build time *)
  d_dyn : nat -> list (list elem) -> W -> list dyn_event }.  (* process pi's appended entries, from the current state *)

Inductive trans :=
| TStat (x : nat * nat * event)        (* a registered event, as in Model/Kernel.v *)
| TDyn (pi : nat) (d : dyn_event).     (* an appended entry of process pi *)

(* Dynamics.perElementEventDistribution(t): process by process; within a process the registered
   per-element events, then its appended entries *)
Fixpoint dper_from (D : dtable) (pi : nat) (ps : list proc) (lc : list (list elem)) (w : W) : list trans :=
  match ps with
  | [] => []
  | p :: ps' =>
      map TStat (filter (fun x => ev_elem (snd x)) (index_events pi 0 (p_events p)))
      ++ map (TDyn pi) (d_dyn D pi lc w)
      ++ dper_from D (S pi) ps' lc w
  end.
Definition dper_element (D : dtable) (lc : list (list elem)) (w : W) : list trans :=
  dper_from D 0 (t_procs (d_tb D)) lc w.
(* eventRateDistribution: per-element rates first, then the fixed-rate events *)
Definition dtransitions (D : dtable) (lc : list (list elem)) (w : W) : list trans :=
  dper_element D lc w ++ map TStat (fixed_rate (d_tb D)).

(* pr * len(l); len(SingletonLocus) is 1 while its membership test holds, else 0 *)
Definition drate (s : st W) (x : trans) : Q :=
  match x with
  | TStat y => rate s y
  | TDyn _ d => if de_member d (loci s) (world s) then de_p d else 0
  end.
Definition dsum_rates (s : st W) (trs : list trans) : Q :=
  fold_left (fun a x => Qred (a + drate s x)) trs 0.

(* the event function of an appended entry called on (t, value), then tapped; the record carries
   the outcome of the entry's membership test at the instant of the call *)
Definition fire_dyn (D : dtable) (pi : nat) (d : dyn_event) (t : Q) (s : st W) : st W :=
  let e := de_value d in
  let s1 := emit (OHandler (de_prog d) t (clock s) e (Some (de_member d (loci s) (world s)))) s in
  let s2 := run_prog (d_tb D) pi (de_prog d) t e s1 in
  emit (OTap t pi (NEv pi (de_name d)) e) s2.

(* ------------------------------------------------------------------ stochastic dynamics *)
Fixpoint dstoch_loop (D : dtable) (pf fuel : nat) (t : Q) (events : nat) (s : st W) : Q * nat * st W :=
  match fuel with
  | O => (t, events, set_stuck s)
  | S f =>
      let tb := d_tb D in
      if Qle_bool (t_maxtime tb) t || t_equil tb (loci s) (world s) then (t, events, s)
      else
        let trs := dtransitions D (loci s) (world s) in
        let a := dsum_rates s trs in
        if Qeq_bool a 0 then
          match next_pending_time s with
          | (None, s') => (t, events, s')
          | (Some et, s') => let '(n, s'') := run_pending tb pf et 0 s' in dstoch_loop D pf f et (events + n) s''
          end
        else
          let '(_, s1) := next_rand s in
          let '(ln, s2) := next_ln s1 in
          let dt := Qred ((1 / a) * ln) in
          match trs with
          | [] => (t, events, set_stuck s)
          | x0 :: rest =>
              let '(x, s3) := match rest with
                              | [] => (x0, s2)
                              | _ => let '(r2, s3) := next_rand s2 in (select (drate s) (r2 * a) 0 x0 trs, s3)
                              end in
              let nt := Qred (t + dt) in
              let '(n, s4) := run_pending tb pf nt 0 s3 in
              let s5 := set_clock nt s4 in
              match x with
              | TStat y =>
                  let l := locus s5 (ev_locus (snd y)) in
                  match l with
                  | [] => dstoch_loop D pf f nt (events + n) s5
                  | _ => let '(k, s6) := next_draw s5 in
                         let e := nth (k mod length l) l (EN 0) in
                         dstoch_loop D pf f nt (S (events + n)) (fire_event tb y nt e s6)
                  end
              | TDyn pi d =>
                  (* len(l) > 0: the membership test on the state the posted events left; l.draw() is the stored value *)
                  if de_member d (loci s5) (world s5)
                  then dstoch_loop D pf f nt (S (events + n)) (fire_dyn D pi d nt s5)
                  else dstoch_loop D pf f nt (events + n) s5
              end
          end
  end.

Definition dstoch_run (D : dtable) (pf fuel : nat) (rs ls : list Q) (ds : list nat) : result W :=
  let '(t, ev, s) := dstoch_loop D pf fuel 0 0 (setup_state (d_tb D) rs ls ds) in
  {| r_time := t; r_events := ev; r_steps := 0; r_out := rev (out s); r_stuck := stuck s; r_final := s |}.

(* ------------------------------------------------------------------ synchronous dynamics *)
Definition lift_sel (xe : (nat * nat * event) * elem) : trans * elem := (TStat (fst xe), snd xe).

(* the per-element half of allEventsInTimestep over a distribution computed beforehand *)
Fixpoint dtranche_elem (evs : list trans) (s : st W) : list (trans * elem) * st W :=
  match evs with
  | [] => ([], s)
  | x :: evs' =>
      let '(sel, s1) :=
        match x with
        | TStat y =>
            let ev := snd y in
            let l := locus s (ev_locus ev) in
            match l with
            | [] => ([], s)
            | _ => if Qltb 0 (ev_p ev) then let '(sel, s1) := trials (ev_p ev) y l s in (map lift_sel sel, s1) else ([], s)
            end
        | TDyn pi d =>
            if de_member d (loci s) (world s) && Qltb 0 (de_p d) then
              let '(r, s1) := next_rand s in
              (if Qle_bool r (de_p d) then [(x, de_value d)] else [], s1)
            else ([], s)
        end in
      let '(sel', s2) := dtranche_elem evs' s1 in (sel ++ sel', s2)
  end.

Definition dtranche (D : dtable) (s : st W) : list (trans * elem) * st W :=
  let '(a, s1) := dtranche_elem (dper_element D (loci s) (world s)) s in
  let '(b, s2) := tranche_fixed (fixed_rate (d_tb D)) s1 in (a ++ map lift_sel b, s2).

(* the loop over the tranche: `if e in l` with the locus of the entry, then fire *)
Fixpoint dfire_tranche (D : dtable) (t : Q) (evs : list (trans * elem)) (nev : nat) (s : st W) : nat * st W :=
  match evs with
  | [] => (nev, s)
  | (TStat y, e) :: evs' =>
      if mem e (locus s (ev_locus (snd y))) then dfire_tranche D t evs' (S nev) (fire_event (d_tb D) y t e s)
      else dfire_tranche D t evs' nev s
  | (TDyn pi d, _) :: evs' =>
      if de_member d (loci s) (world s) then dfire_tranche D t evs' (S nev) (fire_dyn D pi d t s)
      else dfire_tranche D t evs' nev s
  end.

Fixpoint dsync_loop (D : dtable) (pf fuel : nat) (t : Q) (events steps : nat) (s : st W) : Q * nat * nat * st W :=
  match fuel with
  | O => (t, events, steps, set_stuck s)
  | S f =>
      let tb := d_tb D in
      if Qle_bool (t_maxtime tb) t || t_equil tb (loci s) (world s) then (t, events, steps, s)
      else
        let s0 := set_clock t s in
        let '(n, s1) := run_pending tb pf t 0 s0 in
        let s1' := set_clock t s1 in
        let '(evs, s2) := dtranche D s1' in
        let '(nev, s3) := dfire_tranche D t evs n s2 in
        dsync_loop D pf f (Qred (t + 1)) (events + nev) (if (0 <? nev)%nat then S steps else steps) s3
  end.

Definition dsync_run (D : dtable) (pf fuel : nat) (rs : list Q) (ds : list nat) : result W :=
  let '(t, ev, steps, s) := dsync_loop D pf fuel 1 0 0 (setup_state (d_tb D) rs [] ds) in
  {| r_time := t; r_events := ev; r_steps := steps; r_out := rev (out s); r_stuck := stuck s; r_final := s |}.

(* a table with no appended entries *)
Definition static_dtable (tb : table W) : dtable := {| d_tb := tb; d_dyn := fun _ _ _ => [] |}.

End KernelDyn.

Arguments de_value {W}. Arguments de_p {W}. Arguments de_prog {W}. Arguments de_name {W}. Arguments de_member {W}.
Arguments d_tb {W}. Arguments d_dyn {W}.
Arguments TStat {W}. Arguments TDyn {W}.
Arguments dper_from {W}. Arguments dper_element {W}. Arguments dtransitions {W}.
Arguments drate {W}. Arguments dsum_rates {W}. Arguments fire_dyn {W}.
Arguments dstoch_loop {W}. Arguments dstoch_run {W}.
Arguments lift_sel {W}. Arguments dtranche_elem {W}. Arguments dtranche {W}. Arguments dfire_tranche {W}.
Arguments dsync_loop {W}. Arguments dsync_run {W}. Arguments static_dtable {W}.
