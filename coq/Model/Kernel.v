(* Model of the event kernel: networkdynamics.py (posted-event queue, clock, taps),
   process.py (event tables), stochasticdynamics.py and synchronousdynamics.py (the two
   scheduler loops), running generic user processes given as tables of action programs
   (harness/kscript.py interprets the same tables through the public Process API).
   Executable definitions only; times, rates and probabilities are exact rationals. *)
From Coq Require Import List ZArith QArith Qabs Bool Arith.
Import ListNotations.
Open Scope Q_scope.

Definition Qltb (x y : Q) : bool := negb (Qle_bool y x).

(* elements of loci: nodes, or edges stored as ordered pairs; Python orders ints numerically
   and tuples lexicographically, and a locus never mixes the two *)
Inductive elem := EN (n : Z) | EE (n m : Z).
Definition elem_eqb (a b : elem) : bool :=
  match a, b with
  | EN x, EN y => (x =? y)%Z
  | EE x1 x2, EE y1 y2 => (x1 =? y1)%Z && (x2 =? y2)%Z
  | _, _ => false
  end.
Definition elem_ltb (a b : elem) : bool :=
  match a, b with
  | EN x, EN y => (x <? y)%Z
  | EE x1 x2, EE y1 y2 => (x1 <? y1)%Z || ((x1 =? y1)%Z && (x2 <? y2)%Z)
  | EN _, EE _ _ => true
  | EE _ _, EN _ => false
  end.

(* ------------------------------------------------------------------ user processes *)
Inductive action :=
| APost (dt : Q) (prog : nat)              (* postEvent(t + dt, e, handler prog), remember the id *)
| APostOn (x : elem) (dt : Q) (prog : nat) (* postEvent(t + dt, x, handler prog): as APost, on a given element *)
| APostRep (dt0 ddt : Q) (prog : nat)      (* postRepeatingEvent(t + dt0, ddt, e, handler prog) *)
| APostPast                                (* postEvent(clock - 1, ...): must be rejected *)
| AUnpost (k : nat) (fatal : bool)         (* unpostEvent(ids[k mod |ids|], fatal) *)
| AQuery (k : nat)                         (* pendingEventTime(ids[k mod |ids|]) *)
| ALAdd (l : nat) (x : elem) | ALDiscard (l : nat) (x : elem)
| ALAddSelf (l : nat) | ALDiscardSelf (l : nat)
| AObserve.                                (* record the size of every locus (what Monitor.observe does) *)

Record event := { ev_elem : bool; ev_locus : nat; ev_p : Q; ev_prog : nat }.
Record proc := { p_events : list event; p_setup : list action }.
(* An event function is a program: given the event time, the element, the current loci and a
   user state W it returns the new user state and the kernel actions it performs.  User
   programs given as fixed action lists (harness/kscript.py) are the constant case; the
   shipped compartmented models are programs over W = (network, compartments, marks). *)
Definition dynprog (W : Type) := Q -> elem -> list (list elem) -> W -> W * list action.
Definition static {W : Type} (acts : list action) : dynprog W := fun _ _ _ w => (w, acts).

Record table (W : Type) := {
  t_maxtime : Q;
  t_loci : list (nat * list elem);         (* owner process, initial elements *)
  t_procs : list proc;
  t_progs : list (dynprog W);
  t_world : W;
  t_equil : list (list elem) -> W -> bool }.   (* a process' own atEquilibrium test, beyond t >= maximumTime
                                                  (Opinion: both of its edge loci are empty) *)
Arguments t_maxtime {W}. Arguments t_loci {W}. Arguments t_procs {W}. Arguments t_progs {W}. Arguments t_world {W}. Arguments t_equil {W}.

Inductive ename := NEv (pi j : nat) | NPost (prog : nat).

(* what a run lets user code observe, in order *)
Inductive obs :=
| OHandler (prog : nat) (targ clk : Q) (e : elem) (member : option bool)
| OTap (t : Q) (pi : nat) (n : ename) (e : elem)
| OPosted (id : nat) (t : Q)
| OPostedRep (t : Q)
| OValueError
| OUnpost (id : nat) (r : option (option Q))   (* None: KeyError; Some None: returned None *)
| OQuery (id : nat) (r : option Q)             (* None: KeyError *)
| OObserve (t : Q) (sizes : list nat).

(* ------------------------------------------------------------------ state *)
Record entry := { e_time : Q; e_id : nat; e_live : bool; e_proc : nat; e_elem : elem; e_prog : nat; e_rep : option Q }.

Section Kernel.
Variable W : Type.

Record st := {
  clock : Q; nextid : nat;
  queue : list entry;                 (* the heap as a multiset, lazily deleted entries included *)
  loci : list (list elem);            (* each ascending, duplicate-free *)
  world : W;                          (* state owned by the user programs *)
  ids : list nat;                     (* ids returned to the user program, in posting order *)
  out : list obs;                     (* newest first *)
  rands : list Q; lns : list Q; draws : list nat;   (* the oracle: rng.random(), ln(1/r1), rank drawn *)
  stuck : bool }.                     (* oracle or fuel exhausted *)

Definition emit (o : obs) (s : st) : st :=
  {| clock := clock s; nextid := nextid s; queue := queue s; loci := loci s; world := world s; ids := ids s; out := o :: out s;
     rands := rands s; lns := lns s; draws := draws s; stuck := stuck s |}.
Definition set_clock (t : Q) (s : st) : st :=
  {| clock := t; nextid := nextid s; queue := queue s; loci := loci s; world := world s; ids := ids s; out := out s;
     rands := rands s; lns := lns s; draws := draws s; stuck := stuck s |}.
Definition set_queue (q : list entry) (s : st) : st :=
  {| clock := clock s; nextid := nextid s; queue := q; loci := loci s; world := world s; ids := ids s; out := out s;
     rands := rands s; lns := lns s; draws := draws s; stuck := stuck s |}.
Definition set_loci (l : list (list elem)) (s : st) : st :=
  {| clock := clock s; nextid := nextid s; queue := queue s; loci := l; world := world s; ids := ids s; out := out s;
     rands := rands s; lns := lns s; draws := draws s; stuck := stuck s |}.
Definition set_world (w : W) (s : st) : st :=
  {| clock := clock s; nextid := nextid s; queue := queue s; loci := loci s; world := w; ids := ids s; out := out s;
     rands := rands s; lns := lns s; draws := draws s; stuck := stuck s |}.
Definition set_stuck (s : st) : st :=
  {| clock := clock s; nextid := nextid s; queue := queue s; loci := loci s; world := world s; ids := ids s; out := out s;
     rands := rands s; lns := lns s; draws := draws s; stuck := true |}.
Definition set_oracle (rs ls : list Q) (ds : list nat) (s : st) : st :=
  {| clock := clock s; nextid := nextid s; queue := queue s; loci := loci s; world := world s; ids := ids s; out := out s;
     rands := rs; lns := ls; draws := ds; stuck := stuck s |}.

Definition next_rand (s : st) : Q * st :=
  match rands s with
  | [] => (0, set_stuck s)
  | r :: rs => (r, set_oracle rs (lns s) (draws s) s)
  end.
Definition next_ln (s : st) : Q * st :=
  match lns s with
  | [] => (0, set_stuck s)
  | r :: rs => (r, set_oracle (rands s) rs (draws s) s)
  end.
Definition next_draw (s : st) : nat * st :=
  match draws s with
  | [] => (0%nat, set_stuck s)
  | r :: rs => (r, set_oracle (rands s) (lns s) rs s)
  end.

(* ------------------------------------------------------------------ loci as ascending lists *)
Fixpoint ins (x : elem) (l : list elem) : list elem :=
  match l with
  | [] => [x]
  | y :: l' => if elem_ltb x y then x :: l else if elem_eqb x y then l else y :: ins x l'
  end.
Fixpoint del (x : elem) (l : list elem) : list elem :=
  match l with [] => [] | y :: l' => if elem_eqb x y then l' else y :: del x l' end.
Definition mem (x : elem) (l : list elem) : bool := existsb (elem_eqb x) l.

Fixpoint upd_nth {A} (n : nat) (f : A -> A) (l : list A) : list A :=
  match l, n with
  | [], _ => []
  | x :: l', O => f x :: l'
  | x :: l', S n' => x :: upd_nth n' f l'
  end.
Definition locus (s : st) (li : nat) : list elem := nth li (loci s) [].

(* ------------------------------------------------------------------ posted events *)
(* heap order: lists compare by time, then id (ids are unique) *)
Definition before (a b : entry) : bool :=
  match e_time a ?= e_time b with Lt => true | Gt => false | Eq => (e_id a <? e_id b)%nat end.

Fixpoint min_entry (m : entry) (q : list entry) : entry :=
  match q with [] => m | x :: q' => min_entry (if before x m then x else m) q' end.
Definition head (q : list entry) : option entry :=
  match q with [] => None | x :: q' => Some (min_entry x q') end.
Fixpoint remove_id (i : nat) (q : list entry) : list entry :=
  match q with [] => [] | x :: q' => if (e_id x =? i)%nat then q' else x :: remove_id i q' end.

(* _discardUnpostedEvents *)
Fixpoint discard_dead (fuel : nat) (q : list entry) : list entry :=
  match fuel with
  | O => q
  | S f => match head q with
           | Some h => if e_live h then q else discard_dead f (remove_id (e_id h) q)
           | None => q
           end
  end.
Definition discard (s : st) : st := set_queue (discard_dead (length (queue s)) (queue s)) s.

(* nextPendingEventTime *)
Definition next_pending_time (s : st) : option Q * st :=
  let s' := discard s in (option_map e_time (head (queue s')), s').

(* postEvent *)
Definition post (t : Q) (p : nat) (e : elem) (prog : nat) (rep : option Q) (s : st) : option nat * st :=
  if Qltb t (clock s) then (None, s)          (* ValueError *)
  else
    let i := nextid s in
    (Some i,
     {| clock := clock s; nextid := S i;
        queue := {| e_time := t; e_id := i; e_live := true; e_proc := p; e_elem := e; e_prog := prog; e_rep := rep |} :: queue s;
        loci := loci s; world := world s; ids := ids s; out := out s; rands := rands s; lns := lns s; draws := draws s; stuck := stuck s |}).

Definition find_live (i : nat) (q : list entry) : option entry :=
  find (fun x => (e_id x =? i)%nat && e_live x) q.
Definition kill (i : nat) (q : list entry) : list entry :=
  map (fun x => if (e_id x =? i)%nat
                then {| e_time := e_time x; e_id := e_id x; e_live := false; e_proc := e_proc x; e_elem := e_elem x; e_prog := e_prog x; e_rep := e_rep x |}
                else x) q.

Definition push_id (i : nat) (s : st) : st :=
  {| clock := clock s; nextid := nextid s; queue := queue s; loci := loci s; world := world s; ids := ids s ++ [i]; out := out s;
     rands := rands s; lns := lns s; draws := draws s; stuck := stuck s |}.

(* one action of a user program, run by process p at handler time t on element e *)
Definition do_action (p : nat) (t : Q) (e : elem) (a : action) (s : st) : st :=
  match a with
  | APost dt prog =>
      let tt := Qred (t + dt) in
      match post tt p e prog None s with
      | (Some i, s') => emit (OPosted i tt) (push_id i s')
      | (None, s') => emit OValueError s'
      end
  | APostOn x dt prog =>
      let tt := Qred (t + dt) in
      match post tt p x prog None s with
      | (Some i, s') => emit (OPosted i tt) (push_id i s')
      | (None, s') => emit OValueError s'
      end
  | APostRep dt0 ddt prog =>
      let tt := Qred (t + dt0) in
      match post tt p e prog (Some ddt) s with
      | (Some i, s') => emit (OPostedRep tt) s'
      | (None, s') => emit OValueError s'
      end
  | APostPast =>
      match post (Qred (clock s - 1)) p e 0%nat None s with
      | (Some i, s') => emit (OPosted i (clock s - 1)) s'
      | (None, s') => emit OValueError s'
      end
  | AUnpost k fatal =>
      match ids s with
      | [] => s
      | _ => let i := nth (k mod length (ids s)) (ids s) 0%nat in
             match find_live i (queue s) with
             | Some x => emit (OUnpost i (Some (Some (e_time x)))) (set_queue (kill i (queue s)) s)
             | None => emit (OUnpost i (if fatal then None else Some None)) s
             end
      end
  | AQuery k =>
      match ids s with
      | [] => s
      | _ => let i := nth (k mod length (ids s)) (ids s) 0%nat in
             emit (OQuery i (option_map e_time (find_live i (queue s)))) s
      end
  | ALAdd l x => set_loci (upd_nth l (ins x) (loci s)) s
  | ALDiscard l x => set_loci (upd_nth l (del x) (loci s)) s
  | ALAddSelf l => set_loci (upd_nth l (ins e) (loci s)) s
  | ALDiscardSelf l => set_loci (upd_nth l (del e) (loci s)) s
  | AObserve => emit (OObserve t (map (@length elem) (loci s))) s
  end.

Definition run_actions (p : nat) (t : Q) (e : elem) (acts : list action) (s : st) : st :=
  fold_left (fun s a => do_action p t e a s) acts s.

Definition prog_of (tb : table W) (k : nat) : dynprog W := nth k (t_progs tb) (static []).

(* calling an event function: the program computes its actions from the state, they run in order *)
Definition run_prog (tb : table W) (p : nat) (k : nat) (t : Q) (e : elem) (s : st) : st :=
  let '(w, acts) := prog_of tb k t e (loci s) (world s) in
  run_actions p t e acts (set_world w s).

(* the closure posted by postEvent / the `repeat` closure of postRepeatingEvent *)
Definition fire (tb : table W) (x : entry) (s : st) : st :=
  let s1 := emit (OHandler (e_prog x) (e_time x) (clock s) (e_elem x) None) s in
  let s2 := run_prog tb (e_proc x) (e_prog x) (e_time x) (e_elem x) s1 in
  match e_rep x with
  | None => s2
  | Some ddt =>
      match post (Qred (e_time x + ddt)) (e_proc x) (e_elem x) (e_prog x) (Some ddt) s2 with
      | (Some _, s3) => s3
      | (None, s3) => emit OValueError s3
      end
  end.

(* runPendingEvents(t): returns the number fired *)
Fixpoint run_pending (tb : table W) (fuel : nat) (t : Q) (n : nat) (s : st) : nat * st :=
  match fuel with
  | O => (n, set_stuck s)
  | S f =>
      let s0 := discard s in
      match head (queue s0) with
      | None => (n, s0)
      | Some h =>
          if Qle_bool (e_time h) t then
            let s1 := set_clock (e_time h) (set_queue (remove_id (e_id h) (queue s0)) s0) in
            let s2 := fire tb h s1 in
            let s3 := emit (OTap (e_time h) (e_proc h) (NPost (e_prog h)) (e_elem h)) s2 in
            run_pending tb f t (S n) s3
          else (n, s0)
      end
  end.

(* ------------------------------------------------------------------ event tables *)
(* (process, index in process, event) in the order Dynamics concatenates them *)
Fixpoint index_events (pi : nat) (j : nat) (evs : list event) : list (nat * nat * event) :=
  match evs with [] => [] | e :: evs' => (pi, j, e) :: index_events pi (S j) evs' end.
Fixpoint all_events_from (pi : nat) (ps : list proc) : list (nat * nat * event) :=
  match ps with [] => [] | p :: ps' => index_events pi 0 (p_events p) ++ all_events_from (S pi) ps' end.
Definition all_events (tb : table W) := all_events_from 0 (t_procs tb).
Definition per_element (tb : table W) := filter (fun x => ev_elem (snd x)) (all_events tb).
Definition fixed_rate (tb : table W) := filter (fun x => negb (ev_elem (snd x))) (all_events tb).

Definition qlen (l : list elem) : Q := inject_Z (Z.of_nat (length l)).
Definition rate (s : st) (x : nat * nat * event) : Q :=
  let ev := snd x in if ev_elem ev then Qred (ev_p ev * qlen (locus s (ev_locus ev))) else ev_p ev.
(* eventRateDistribution: per-element rates first, then fixed rates *)
Definition transitions (tb : table W) : list (nat * nat * event) := per_element tb ++ fixed_rate tb.

(* a stochastic or fixed-rate event function called on (t, e), then tapped *)
Definition fire_event (tb : table W) (x : nat * nat * event) (t : Q) (e : elem) (s : st) : st :=
  let '(pi, j, ev) := x in
  let s1 := emit (OHandler (ev_prog ev) t (clock s) e (Some (mem e (locus s (ev_locus ev))))) s in
  let s2 := run_prog tb pi (ev_prog ev) t e s1 in
  emit (OTap t pi (NEv pi j) e) s2.

(* ------------------------------------------------------------------ stochastic dynamics *)
(* inverse-CDF scan of stochasticdynamics.py:80-94 *)
Fixpoint select {A} (rate_of : A -> Q) (xc xs : Q) (cur : A) (l : list A) : A :=
  match l with
  | [] => cur
  | x :: l' => if Qltb xc (xs + rate_of x) then x else select rate_of xc (Qred (xs + rate_of x)) x l'
  end.

Definition sum_rates (s : st) (trs : list (nat * nat * event)) : Q :=
  fold_left (fun a x => Qred (a + rate s x)) trs 0.

Record result := { r_time : Q; r_events : nat; r_steps : nat; r_out : list obs; r_stuck : bool; r_final : st }.

Definition init_loci (tb : table W) : list (list elem) :=
  map (fun l => fold_left (fun acc x => ins x acc) (snd l) []) (t_loci tb).

Definition setup_state (tb : table W) (rs ls : list Q) (ds : list nat) : st :=
  let s0 := {| clock := 0; nextid := 0; queue := []; loci := init_loci tb; world := t_world tb;
               ids := []; out := []; rands := rs; lns := ls; draws := ds; stuck := false |} in
  fst (fold_left (fun (acc : st * nat) p => (run_actions (snd acc) 0 (EN 0) (p_setup p) (fst acc), S (snd acc))) (t_procs tb) (s0, 0%nat)).

Fixpoint stoch_loop (tb : table W) (pf fuel : nat) (t : Q) (events : nat) (s : st) : Q * nat * st :=
  match fuel with
  | O => (t, events, set_stuck s)
  | S f =>
      if Qle_bool (t_maxtime tb) t || t_equil tb (loci s) (world s) then (t, events, s)
      else
        let trs := transitions tb in
        let a := sum_rates s trs in
        if Qeq_bool a 0 then
          match next_pending_time s with
          | (None, s') => (t, events, s')
          | (Some et, s') => let '(n, s'') := run_pending tb pf et 0 s' in stoch_loop tb pf f et (events + n) s''
          end
        else
          let '(_, s1) := next_rand s in
          let '(ln, s2) := next_ln s1 in
          let dt := Qred ((1 / a) * ln) in
          match trs with
          | [] => (t, events, set_stuck s)
          | x0 :: rest =>
              let '(x, s3) := match rest with
                              | [] => (x0, s2)
                              | _ => let '(r2, s3) := next_rand s2 in (select (rate s) (r2 * a) 0 x0 trs, s3)
                              end in
              let nt := Qred (t + dt) in
              let '(n, s4) := run_pending tb pf nt 0 s3 in
              let s5 := set_clock nt s4 in
              let l := locus s5 (ev_locus (snd x)) in
              match l with
              | [] => stoch_loop tb pf f nt (events + n) s5
              | _ => let '(k, s6) := next_draw s5 in
                     let e := nth (k mod length l) l (EN 0) in
                     stoch_loop tb pf f nt (S (events + n)) (fire_event tb x nt e s6)
              end
          end
  end.

Definition stoch_run (tb : table W) (pf fuel : nat) (rs ls : list Q) (ds : list nat) : result :=
  let '(t, ev, s) := stoch_loop tb pf fuel 0 0 (setup_state tb rs ls ds) in
  {| r_time := t; r_events := ev; r_steps := 0; r_out := rev (out s); r_stuck := stuck s; r_final := s |}.

(* ------------------------------------------------------------------ synchronous dynamics *)
(* allEventsInTimestep: one trial per element per per-element event, one per fixed-rate event *)
Fixpoint trials (p : Q) (x : nat * nat * event) (els : list elem) (s : st) : list ((nat * nat * event) * elem) * st :=
  match els with
  | [] => ([], s)
  | e :: els' => let '(r, s1) := next_rand s in
                 let '(sel, s2) := trials p x els' s1 in
                 (if Qle_bool r p then (x, e) :: sel else sel, s2)
  end.

Fixpoint tranche_elem (evs : list (nat * nat * event)) (s : st) : list ((nat * nat * event) * elem) * st :=
  match evs with
  | [] => ([], s)
  | x :: evs' =>
      let ev := snd x in
      let l := locus s (ev_locus ev) in
      let '(sel, s1) := match l with
                        | [] => ([], s)
                        | _ => if Qltb 0 (ev_p ev) then trials (ev_p ev) x l s else ([], s)
                        end in
      let '(sel', s2) := tranche_elem evs' s1 in (sel ++ sel', s2)
  end.

Fixpoint tranche_fixed (evs : list (nat * nat * event)) (s : st) : list ((nat * nat * event) * elem) * st :=
  match evs with
  | [] => ([], s)
  | x :: evs' =>
      let ev := snd x in
      let l := locus s (ev_locus ev) in
      let '(sel, s1) := match l with
                        | [] => ([], s)
                        | _ => if Qltb 0 (ev_p ev) then
                                 let '(r, s1) := next_rand s in
                                 if Qle_bool r (ev_p ev) then
                                   let '(k, s2) := next_draw s1 in ([(x, nth (k mod length l) l (EN 0))], s2)
                                 else ([], s1)
                               else ([], s)
                        end in
      let '(sel', s2) := tranche_fixed evs' s1 in (sel ++ sel', s2)
  end.

Definition tranche (tb : table W) (s : st) : list ((nat * nat * event) * elem) * st :=
  let '(a, s1) := tranche_elem (per_element tb) s in
  let '(b, s2) := tranche_fixed (fixed_rate tb) s1 in (a ++ b, s2).

(* the body of the for loop over the tranche: membership re-check, then fire *)
Fixpoint fire_tranche (tb : table W) (t : Q) (evs : list ((nat * nat * event) * elem)) (nev : nat) (s : st) : nat * st :=
  match evs with
  | [] => (nev, s)
  | (x, e) :: evs' =>
      if mem e (locus s (ev_locus (snd x))) then fire_tranche tb t evs' (S nev) (fire_event tb x t e s)
      else fire_tranche tb t evs' nev s
  end.

Fixpoint sync_loop (tb : table W) (pf fuel : nat) (t : Q) (events steps : nat) (s : st) : Q * nat * nat * st :=
  match fuel with
  | O => (t, events, steps, set_stuck s)
  | S f =>
      if Qle_bool (t_maxtime tb) t || t_equil tb (loci s) (world s) then (t, events, steps, s)
      else
        let s0 := set_clock t s in
        let '(n, s1) := run_pending tb pf t 0 s0 in
        let s1' := set_clock t s1 in
        let '(evs, s2) := tranche tb s1' in
        let '(nev, s3) := fire_tranche tb t evs n s2 in
        sync_loop tb pf f (Qred (t + 1)) (events + nev) (if (0 <? nev)%nat then S steps else steps) s3
  end.

Definition sync_run (tb : table W) (pf fuel : nat) (rs : list Q) (ds : list nat) : result :=
  let '(t, ev, steps, s) := sync_loop tb pf fuel 1 0 0 (setup_state tb rs [] ds) in
  {| r_time := t; r_events := ev; r_steps := steps; r_out := rev (out s); r_stuck := stuck s; r_final := s |}.

End Kernel.

Arguments emit {W}.
Arguments set_clock {W}.
Arguments set_queue {W}.
Arguments set_loci {W}.
Arguments set_world {W}.
Arguments set_stuck {W}.
Arguments set_oracle {W}.
Arguments next_rand {W}.
Arguments next_ln {W}.
Arguments next_draw {W}.
Arguments locus {W}.
Arguments discard {W}.
Arguments next_pending_time {W}.
Arguments post {W}.
Arguments push_id {W}.
Arguments do_action {W}.
Arguments run_actions {W}.
Arguments prog_of {W}.
Arguments run_prog {W}.
Arguments fire {W}.
Arguments run_pending {W}.
Arguments all_events {W}.
Arguments per_element {W}.
Arguments fixed_rate {W}.
Arguments rate {W}.
Arguments transitions {W}.
Arguments fire_event {W}.
Arguments sum_rates {W}.
Arguments init_loci {W}.
Arguments setup_state {W}.
Arguments stoch_loop {W}.
Arguments stoch_run {W}.
Arguments trials {W}.
Arguments tranche_elem {W}.
Arguments tranche_fixed {W}.
Arguments tranche {W}.
Arguments fire_tranche {W}.
Arguments sync_loop {W}.
Arguments sync_run {W}.
Arguments clock {W}.
Arguments nextid {W}.
Arguments queue {W}.
Arguments loci {W}.
Arguments world {W}.
Arguments ids {W}.
Arguments out {W}.
Arguments rands {W}.
Arguments lns {W}.
Arguments draws {W}.
Arguments stuck {W}.
Arguments r_time {W}. Arguments r_events {W}. Arguments r_steps {W}. Arguments r_out {W}. Arguments r_stuck {W}. Arguments r_final {W}.
