(* Executable model of epydemic/gf: gf.py (operator dispatch), function_gf.py, discrete_gf.py
   (coefficient lists), sum_gf.py, product_gf.py, interface.py (gf_from_coefficients).
   Definitions only; proofs are in Proofs/GF*.v.

   Numbers are Q.  Python's Fraction is a normalised rational whose [==] is semantic equality;
   on Q that is [Qeq] (==), never Leibniz [=].  Memoisation (lru_cache on __getitem__,
   __call__, dx) is the identity on immutable values and is not modelled. *)
From Coq Require Import List ZArith QArith Bool Arith.
Import ListNotations.
Open Scope Q_scope.

(* nat -> Q, the way Python turns an int index into a factor *)
Definition qn (n : nat) : Q := inject_Z (Z.of_nat n).

(* Fraction.__pow__ with a non-negative int exponent: x**0 = 1 also for x = 0 *)
Fixpoint qpow (x : Q) (n : nat) : Q :=
  match n with O => 1 | S n' => x * qpow x n' end.

(* FunctionGF (and DiscreteGF, which only supplies the coefficient function and the number of
   coefficients) with its _maxTerm | SumGF | ProductGF *)
Inductive gf : Type :=
| Fn (c : nat -> Q) (m : nat)
| Sum (a b : gf)
| Prod (a b : gf).

(* ---------------------------------------------------------------- product_gf.py:53-64 *)

(* itertools.combinations_with_replacement(range(n), 2): all (a, b), a <= b < n, lexicographic *)
Definition cwr2 (n : nat) : list (nat * nat) :=
  flat_map (fun a => map (fun b => (a, b)) (seq a (n - a))) (seq 0 n).

(* forwards = [ns for ns in cwr(range(i+1), 2) if sum(ns) == i] *)
Definition forwards (i : nat) : list (nat * nat) :=
  filter (fun p => (fst p + snd p =? i)%nat) (cwr2 (S i)).
(* backwards = [(j, i) for (i, j) in forwards if i != j] *)
Definition backwards (i : nat) : list (nat * nat) :=
  map (fun p => (snd p, fst p)) (filter (fun p => negb (fst p =? snd p)%nat) (forwards i)).
Definition index_pairs (i : nat) : list (nat * nat) := forwards i ++ backwards i.

(* ---------------------------------------------------------------- getCoefficient *)

Fixpoint coeff (g : gf) (i : nat) : Q :=
  match g with
  | Fn c _ => c i                                                 (* function_gf.py:43 *)
  | Sum a b => coeff a i + coeff b i                              (* sum_gf.py:45 *)
  | Prod a b =>                                                   (* product_gf.py:60-64: c = 0; c += gf1[i]*gf2[j] *)
      fold_left (fun c p => c + coeff a (fst p) * coeff b (snd p)) (index_pairs i) 0
  end.

(* ---------------------------------------------------------------- evaluate *)

(* FunctionGF.__init__: self._maxTerm = 300 if n is None else n   (function_gf.py:36, as repaired
   by fix F12; the pinned tree had "else 300" and ignored n) *)
Definition max_term : nat := 300.

(* v = 0; for i in range(m + 1): v += self[i] * x**i *)
Definition eval_terms (m : nat) (c : nat -> Q) (x : Q) : Q :=
  fold_left (fun v i => v + c i * qpow x i) (seq 0 (S m)) 0.

(* evaluation with the leaf of _maxTerm m summed up to term [cut m] *)
Fixpoint eval_cut (cut : nat -> nat) (g : gf) (x : Q) : Q :=
  match g with
  | Fn c m => eval_terms (cut m) c x                              (* function_gf.py:50-53 *)
  | Sum a b => eval_cut cut a x + eval_cut cut b x                (* sum_gf.py:53 *)
  | Prod a b => eval_cut cut a x * eval_cut cut b x               (* product_gf.py:72 *)
  end.
(* the code: every leaf up to its own _maxTerm *)
Definition eval (g : gf) (x : Q) : Q := eval_cut (fun m => m) g x.
(* every leaf up to the same term m' (what the pinned tree did with m' = 300; what tie B runs) *)
Definition eval_to (m' : nat) (g : gf) (x : Q) : Q := eval_cut (fun _ => m') g x.

(* ---------------------------------------------------------------- scale *)

Fixpoint scale (n : Q) (g : gf) : gf :=
  match g with
  | Fn c m => Fn (fun i => n * c i) m                             (* function_gf.py:87-90: FunctionGF(lambda x: n * f(x), self._maxTerm) *)
  | Sum a b => Sum (scale n a) (scale n b)                        (* sum_gf.py:69: SumGF(gf1 * n, gf2 * n), n a Number *)
  | Prod a b => Prod (scale n a) b                                (* product_gf.py:95: ProductGF(gf1 * n, gf2) *)
  end.

(* ---------------------------------------------------------------- derivative *)

(* function_gf.py:63-67: m = f(i + order); for j in range(1, order + 1): m *= (i + j) *)
Definition dcoef (c : nat -> Q) (order : nat) (i : nat) : Q :=
  fold_left (fun m j => m * qn (i + j)%nat) (seq 1 order) (c (i + order)%nat).

(* dx(order) -> derivative(order).  ProductGF.derivative builds the product-rule sum and asks
   *that* for dx(order - 1), which is not a structural recursion, hence explicit fuel
   (one unit per nested call); [None] = out of fuel.  Proofs/GFDeriv.v shows that
   [deriv_fuel k g] is always enough, so [None] never reaches a statement. *)
Fixpoint deriv_on (fuel : nat) (order : nat) (g : gf) : option gf :=
  match fuel with
  | O => None
  | S fuel' =>
    match g with
    | Fn c m => Some (Fn (dcoef c order) m)                       (* function_gf.py:78-79: FunctionGF(df, self._maxTerm) *)
    | Sum a b =>                                                  (* sum_gf.py:61 *)
        match deriv_on fuel' order a, deriv_on fuel' order b with
        | Some a', Some b' => Some (Sum a' b')
        | _, _ => None
        end
    | Prod a b =>                                                 (* product_gf.py:81-86 *)
        match order with
        | O => Some (Prod a b)                                    (* else: return self *)
        | S order' =>
            match deriv_on fuel' 1 a, deriv_on fuel' 1 b with
            | Some a1, Some b1 => deriv_on fuel' order' (Sum (Prod a1 b) (Prod a b1))
            | _, _ => None
            end
        end
    end
  end.

Fixpoint height (g : gf) : nat :=
  match g with Fn _ _ => O | Sum a b | Prod a b => S (Nat.max (height a) (height b)) end.
(* largest number of ProductGF nodes on a path *)
Fixpoint pdepth (g : gf) : nat :=
  match g with
  | Fn _ _ => O
  | Sum a b => Nat.max (pdepth a) (pdepth b)
  | Prod a b => S (Nat.max (pdepth a) (pdepth b))
  end.
Definition deriv_fuel (order : nat) (g : gf) : nat := (height g + 3 + order * (2 + pdepth g))%nat.

Definition deriv (order : nat) (g : gf) : gf :=
  match deriv_on (deriv_fuel order g) order g with Some d => d | None => g end.

(* ---------------------------------------------------------------- operator layer (gf.py:162-207, interface.py:34-39) *)

(* gf_from_coefficients(cs) = DiscreteGF(coefficients=cs): wrap(i) = cs[i] if i < len(cs) else 0,
   ncoeff = len(cs) *)
Definition from_coeffs (cs : list Q) : gf := Fn (fun i => nth i cs 0) (length cs).
(* gf_from_coefficient_function(f) = DiscreteGF(f=f): ncoeff = None, so _maxTerm = 300 *)
Definition from_function (c : nat -> Q) : gf := Fn c max_term.

Definition gadd (f g : gf) : gf := Sum f g.                                  (* f + g  -> self.sum(g) *)
Definition gadd_num (f : gf) (n : Q) : gf := Sum f (from_coeffs [n]).        (* f + n  -> self.sum(gf_from_coefficients([n])) *)
Definition gsub (f g : gf) : gf := Sum f (scale (-1 # 1) g).                 (* f - g  -> self.sum(g * -1), g * -1 -> g.scale(-1) *)
Definition gsub_num (f : gf) (n : Q) : gf := Sum f (from_coeffs [n * (-1 # 1)]). (* f - n -> self.sum(gf_from_coefficients([n * -1])) *)
Definition gmul (f g : gf) : gf := Prod f g.                                 (* f * g  -> self.product(g) *)
Definition gmul_num (f : gf) (n : Q) : gf := scale n f.                      (* f * n  -> self.scale(n) *)
(* f / n -> self.scale(1 / n); 1 / Fraction(0) raises ZeroDivisionError *)
Definition gdiv (f : gf) (n : Q) : option gf :=
  if Qeq_bool n 0 then None else Some (scale (1 / n) f).

(* programs over the operators; [None] = the ZeroDivisionError of a division by 0 *)
Inductive expr : Type :=
| ECoeffs (cs : list Q)                 (* gf_from_coefficients(cs) *)
| EFunc (cs : list Q)                   (* gf_from_coefficient_function(lambda i: cs[i] if i < len(cs) else 0) *)
| EAdd (a b : expr) | EAddN (a : expr) (n : Q)
| ESub (a b : expr) | ESubN (a : expr) (n : Q)
| EMul (a b : expr) | EMulN (a : expr) (n : Q)
| EDiv (a : expr) (n : Q)
| EDx (a : expr) (order : nat).

Definition obind {A B} (o : option A) (f : A -> option B) : option B :=
  match o with Some x => f x | None => None end.

Fixpoint build (e : expr) : option gf :=
  match e with
  | ECoeffs cs => Some (from_coeffs cs)
  | EFunc cs => Some (from_function (fun i => nth i cs 0))
  | EAdd a b => obind (build a) (fun f => obind (build b) (fun g => Some (gadd f g)))
  | EAddN a n => obind (build a) (fun f => Some (gadd_num f n))
  | ESub a b => obind (build a) (fun f => obind (build b) (fun g => Some (gsub f g)))
  | ESubN a n => obind (build a) (fun f => Some (gsub_num f n))
  | EMul a b => obind (build a) (fun f => obind (build b) (fun g => Some (gmul f g)))
  | EMulN a n => obind (build a) (fun f => Some (gmul_num f n))
  | EDiv a n => obind (build a) (fun f => gdiv f n)
  | EDx a k => obind (build a) (fun f => Some (deriv k f))
  end.

(* longest coefficient list of a program: its leaves vanish from this index on *)
Fixpoint max_len (e : expr) : nat :=
  match e with
  | ECoeffs cs | EFunc cs => length cs
  | EAdd a b | ESub a b | EMul a b => Nat.max (max_len a) (max_len b)
  | EAddN a _ | ESubN a _ => Nat.max (max_len a) 1
  | EMulN a _ | EDiv a _ | EDx a _ => max_len a
  end.

(* coefficient functions handed over as such are within reach of their 301-term loop *)
Fixpoint funcs_short (e : expr) : Prop :=
  match e with
  | ECoeffs _ => True
  | EFunc cs => (length cs <= S max_term)%nat
  | EAdd a b | ESub a b | EMul a b => funcs_short a /\ funcs_short b
  | EAddN a _ | ESubN a _ | EMulN a _ | EDiv a _ | EDx a _ => funcs_short a
  end.
