(* Model of processsequence.py (ProcessSequence: components, flattening, the forwarded
   operations, results merge, maximumTime, atEquilibrium), of the naming part of process.py
   (decoratedName / undecoratedName / getDecoratedName / getParameters / setParameters /
   stateVariable), of the locus registry of networkdynamics.py (Dynamics.addLocus refuses a
   name that is already registered) and of the way Dynamics concatenates the event
   distributions of allProcesses().  Executable definitions only; strings are Coq strings,
   a Python dict is an insertion-ordered association list. *)
From Coq Require Import List ZArith QArith Bool Arith String Ascii.
From EpyV Require Import Model.Kernel.
Import ListNotations.
Close Scope Q_scope.
Open Scope list_scope.

(* ------------------------------------------------------------------ Python dicts *)
Section Dict.
Context {V : Type}.
Definition dict := list (string * V).

Fixpoint dict_get (k : string) (d : dict) : option V :=
  match d with
  | [] => None
  | (k', v) :: d' => if String.eqb k k' then Some v else dict_get k d'
  end.
(* d[k] = v: an existing key keeps its position, a new key goes last *)
Fixpoint dict_set (k : string) (v : V) (d : dict) : dict :=
  match d with
  | [] => [(k, v)]
  | (k', v') :: d' => if String.eqb k k' then (k', v) :: d' else (k', v') :: dict_set k v d'
  end.
(* d.update(d2) *)
Definition dict_update (d d2 : dict) : dict :=
  fold_left (fun acc kv => dict_set (fst kv) (snd kv) acc) d2 d.
Definition dict_keys (d : dict) : list string := map fst d.
Definition dict_has (k : string) (d : dict) : bool :=
  match dict_get k d with Some _ => true | None => false end.
End Dict.
Arguments dict : clear implicits.

(* ------------------------------------------------------------------ instance names *)
Definition at_sign : ascii := "@"%char.

(* Process.decoratedName *)
Definition decorated_name (inst : option string) (k : string) : string :=
  match inst with
  | None => k
  | Some i => (k ++ String at_sign i)%string
  end.

(* k.find('@') *)
Fixpoint find_at (k : string) : option nat :=
  match k with
  | EmptyString => None
  | String c k' => if Ascii.eqb c at_sign then Some 0 else option_map S (find_at k')
  end.
Fixpoint prefix (n : nat) (k : string) : string :=
  match n, k with
  | S n', String c k' => String c (prefix n' k')
  | _, _ => EmptyString
  end.
(* Process.undecoratedName: i = k.find('@'); k if i < 0 else k[:i] *)
Definition undecorated_name (k : string) : string :=
  match find_at k with None => k | Some i => prefix i k end.

Fixpoint has_at (k : string) : bool :=
  match k with EmptyString => false | String c k' => Ascii.eqb c at_sign || has_at k' end.

(* Process.stateVariable(stem) = decoratedName(stem); CompartmentedModel.__init__ *)
Definition state_variable (inst : option string) (stem : string) : string := decorated_name inst stem.
Definition compartment_var (inst : option string) : string := state_variable inst "compartment".
Definition occupied_var (inst : option string) : string := state_variable inst "occupied".
(* the state variables that CompartmentedModel declares as shared between instances *)
(* ... and the class-level node attribute of the fixed-recovery variants (INFECTION_TIME), which like
   the three above is a class constant, not a stateVariable() of the instance *)
Definition shared_vars : list string := ["tOccupied"; "tHitting"; "hittingProcess"; "infection_time"]%string.

(* ------------------------------------------------------------------ parameter lookup *)
Section Lookup.
Context {V : Type}.
Inductive lookup_result := Found (v : V) | KeyError (k : string).

(* Process.getDecoratedName(d, k) where k is a name or a (name, default) pair *)
Definition get_decorated (inst : option string) (d : dict V) (k : string) (default : option V) : lookup_result :=
  match dict_get (decorated_name inst k) d with
  | Some v => Found v                               (* decorated name *)
  | None =>
      match dict_get k d with
      | Some v => Found v                           (* undecorated name as fallback *)
      | None => match default with
                | Some v => Found v                 (* the default value supplied *)
                | None => KeyError k
                end
      end
  end.

(* Process.getParameters / getResults: the first KeyError propagates *)
Fixpoint get_parameters (inst : option string) (d : dict V) (ks : list (string * option V)) : list V + string :=
  match ks with
  | [] => inl []
  | (k, dflt) :: ks' =>
      match get_decorated inst d k dflt with
      | KeyError k' => inr k'
      | Found v => match get_parameters inst d ks' with
                   | inl vs => inl (v :: vs)
                   | inr k' => inr k'
                   end
      end
  end.

(* Process.setParameters / setResults *)
Definition set_parameters (inst : option string) (d : dict V) (kvs : dict V) : dict V :=
  fold_left (fun acc kv => dict_set (decorated_name inst (fst kv)) (snd kv) acc) kvs d.
End Lookup.
Arguments lookup_result : clear implicits.

(* ------------------------------------------------------------------ process trees *)
Section Tree.
Variable P : Type.

(* a process is a plain process, a ProcessSequence over a list, or one over a dict
   (insertion order; the keys of a dict are distinct) *)
Inductive ptree :=
| Leaf (p : P)
| Seq (cs : list ptree)
| NamedSeq (cs : list (string * ptree)).

(* ProcessSequence.processNames / get *)
Definition process_names (t : ptree) : option (list string) :=
  match t with NamedSeq cs => Some (map fst cs) | _ => None end.
Fixpoint assoc_tree (n : string) (cs : list (string * ptree)) : option ptree :=
  match cs with
  | [] => None
  | (n', c) :: cs' => if String.eqb n n' then Some c else assoc_tree n cs'
  end.
(* None: ValueError (anonymous sequence); Some None: the default *)
Definition seq_get (t : ptree) (n : string) : option (option ptree) :=
  match t with NamedSeq cs => Some (assoc_tree n cs) | _ => None end.

(* Process.allProcesses = [self]; ProcessSequence.__init__:
     for p in self._processes: self._allProcesses.extend(p.allProcesses()) *)
Fixpoint all_processes (t : ptree) : list P :=
  match t with
  | Leaf p => [p]
  | Seq cs => flat_map all_processes cs
  | NamedSeq cs => flat_map (fun nc => all_processes (snd nc)) cs
  end.

(* setDynamics / reset / build / setUp / tearDown / setMaximumTime:
     for p in self.processes(): p.op(...)
   with [f p] the effect of the operation of a plain process on a state S *)
Section Forward.
Context {S : Type}.
Variable f : P -> S -> S.
Fixpoint forward (t : ptree) (s : S) : S :=
  match t with
  | Leaf p => f p s
  | Seq cs => fold_left (fun s c => forward c s) cs s
  | NamedSeq cs => fold_left (fun s nc => forward (snd nc) s) cs s
  end.
End Forward.

(* maximumTime: t = 0; for p in processes: t = max(t, p.maximumTime()) -- Python's max keeps
   its first argument unless the second is strictly larger *)
Definition pymax (a b : Q) : Q := if Qltb a b then b else a.
Section MaxTime.
Variable max_time : P -> Q.
Fixpoint maximum_time (t : ptree) : Q :=
  match t with
  | Leaf p => max_time p
  | Seq cs => fold_left (fun a c => pymax a (maximum_time c)) cs 0%Q
  | NamedSeq cs => fold_left (fun a nc => pymax a (maximum_time (snd nc))) cs 0%Q
  end.
End MaxTime.

(* atEquilibrium(t): False at the first component that is not, True otherwise *)
Section Equilibrium.
Variable equil : P -> Q -> bool.
Fixpoint at_equilibrium (t : ptree) (tm : Q) : bool :=
  match t with
  | Leaf p => equil p tm
  | Seq cs => forallb (fun c => at_equilibrium c tm) cs
  | NamedSeq cs => forallb (fun nc => at_equilibrium (snd nc) tm) cs
  end.
End Equilibrium.

(* results: res = dict(); for p in processes: res.update(p.results()) *)
Section Results.
Context {V : Type}.
Variable res : P -> dict V.
Fixpoint results (t : ptree) : dict V :=
  match t with
  | Leaf p => res p
  | Seq cs => fold_left (fun r c => dict_update r (results c)) cs []
  | NamedSeq cs => fold_left (fun r nc => dict_update r (results (snd nc))) cs []
  end.
End Results.

End Tree.
Arguments Leaf {P}. Arguments Seq {P}. Arguments NamedSeq {P}.
Arguments all_processes {P}. Arguments forward {P S}. Arguments maximum_time {P}.
Arguments at_equilibrium {P}. Arguments results {P V}. Arguments process_names {P}. Arguments seq_get {P}.

(* ------------------------------------------------------------------ event distributions *)
(* what a plain process registered: Process._perElementEvents and Process._perLocusEvents,
   each entry (locus, probability, event function, name) *)
Record sevent := { se_locus : nat; se_p : Q; se_prog : nat; se_name : string }.
Record procdesc := {
  pd_id : nat;                          (* identity of the process object *)
  pd_inst : option string;              (* Process._instanceName *)
  pd_elem : list sevent;                (* _perElementEvents *)
  pd_fixed : list sevent;               (* _perLocusEvents *)
  pd_loci : list string;                (* the stems under which build() adds loci, in order *)
  pd_maxtime : Q;                       (* _maxTime *)
  pd_always : option bool }.            (* atEquilibrium overridden to a constant (NetworkStatistics) *)

(* Dynamics.perElementEventDistribution / fixedRateEventDistribution:
     dist = []; for p in self._process.allProcesses(): dist.extend(p.<its list>)
   every entry remembered with the position of its process in allProcesses() *)
Fixpoint dist_from {X} (sel : procdesc -> list X) (pi : nat) (ps : list procdesc) : list (nat * X) :=
  match ps with
  | [] => []
  | p :: ps' => map (pair pi) (sel p) ++ dist_from sel (S pi) ps'
  end.
Definition per_element_distribution (t : ptree procdesc) : list (nat * sevent) :=
  dist_from pd_elem 0 (all_processes t).
Definition fixed_rate_distribution (t : ptree procdesc) : list (nat * sevent) :=
  dist_from pd_fixed 0 (all_processes t).

(* Process.perElementEventRateDistribution: pr * len(l); eventRateDistribution: per-element
   rates then fixed rates.  [sizes] are the current sizes of the loci of the simulation. *)
Definition elem_rate (sizes : list nat) (e : sevent) : Q :=
  Qred (se_p e * inject_Z (Z.of_nat (nth (se_locus e) sizes 0%nat))).
Definition event_rate_distribution (t : ptree procdesc) (sizes : list nat) : list (nat * string * Q) :=
  map (fun x => (fst x, se_name (snd x), elem_rate sizes (snd x))) (per_element_distribution t)
  ++ map (fun x => (fst x, se_name (snd x), se_p (snd x))) (fixed_rate_distribution t).

(* the process table of the kernel model that corresponds to a tree *)
Definition kevent (is_elem : bool) (e : sevent) : event :=
  {| ev_elem := is_elem; ev_locus := se_locus e; ev_p := se_p e; ev_prog := se_prog e |}.
Definition kproc (p : procdesc) : proc :=
  {| p_events := map (kevent true) (pd_elem p) ++ map (kevent false) (pd_fixed p); p_setup := [] |}.
Definition kprocs (t : ptree procdesc) : list proc := map kproc (all_processes t).

(* Process.atEquilibrium: t >= maximumTime, unless overridden *)
Definition pd_equil (p : procdesc) (t : Q) : bool :=
  match pd_always p with Some b => b | None => Qle_bool (pd_maxtime p) t end.

(* ------------------------------------------------------------------ locus registry *)
(* Dynamics.addLocus(p, n): raise if n is already a key of _loci, else _loci[n] = l and
   _processLoci[p][n] = l.  A registry entry is (name, owner). *)
Definition registry := list (string * nat).
Definition add_locus (reg : registry) (owner : nat) (name : string) : option registry :=
  if existsb (fun x => String.eqb name (fst x)) reg then None else Some (reg ++ [(name, owner)]).
(* Process.addLocus(n) = dynamics.addLocus(self, decoratedName(n)) for every stem of one process *)
Fixpoint add_loci (reg : registry) (owner : nat) (inst : option string) (stems : list string) : option registry :=
  match stems with
  | [] => Some reg
  | s :: stems' => match add_locus reg owner (decorated_name inst s) with
                   | None => None
                   | Some reg' => add_loci reg' owner inst stems'
                   end
  end.
(* build() forwarded through the tree: the loci of all processes in allProcesses() order;
   None: "Locus ... already exists in the simulation" *)
Definition build_registry (t : ptree procdesc) : option registry :=
  forward (fun p r => match r with
                      | None => None
                      | Some reg => add_loci reg (pd_id p) (pd_inst p) (pd_loci p)
                      end) t (Some []).
(* Dynamics.lociForProcess *)
Definition loci_for_process (reg : registry) (owner : nat) : list string :=
  map fst (filter (fun x => Nat.eqb (snd x) owner) reg).

(* ------------------------------------------------------------------ write summaries *)
(* What the shipped event functions write, as names: a state variable of the instance itself
   (decorated with its instance name) or one of the declared shared ones.  This is a SUMMARY
   of sir_model.py / sis_model.py / sirs_model.py / s??_model_fixed_recovery.py / sivr_model.py (infect,
   remove, recover, resuscept) and of
   CompartmentedModel.changeCompartment / markOccupied / markHit, not a derivation from the
   Python source; tie B checks it against every event that the implementation fires. *)
Inductive var := Own (stem : string) | Shared (name : string).
Definition var_name (inst : option string) (v : var) : string :=
  match v with Own s => state_variable inst s | Shared n => n end.

Definition write_summary (fn : string) : list var :=
  if String.eqb fn "infect" then
    [Own "compartment"; Own "occupied"; Shared "tOccupied"; Shared "tHitting"; Shared "hittingProcess";
     Shared "infection_time"]%string
  else if String.eqb fn "remove" || String.eqb fn "recover" || String.eqb fn "resuscept" then [Own "compartment"%string]
  else [].                                  (* Monitor.observe, user programs of the kernel model *)

(* a world: node/edge attributes by (attribute name, element) and loci by registered name *)
Record sworld := { sw_attrs : list (string * elem * Z); sw_loci : list (string * list elem) }.
Definition key_eqb (a b : string * elem) : bool := String.eqb (fst a) (fst b) && elem_eqb (snd a) (snd b).
Fixpoint attr_get (k : string * elem) (l : list (string * elem * Z)) : option Z :=
  match l with
  | [] => None
  | (k', v) :: l' => if key_eqb k k' then Some v else attr_get k l'
  end.
Fixpoint attr_set (k : string * elem) (v : Z) (l : list (string * elem * Z)) : list (string * elem * Z) :=
  match l with
  | [] => [(k, v)]
  | (k', v') :: l' => if key_eqb k k' then (k', v) :: l' else (k', v') :: attr_set k v l'
  end.
Definition locus_get (n : string) (w : sworld) : list elem :=
  match dict_get n (sw_loci w) with Some l => l | None => [] end.

(* one write of an event function of the instance [inst] *)
Inductive write :=
| WAttr (v : var) (e : elem) (val : Z)          (* g.nodes[n][v] = val / data[v] = val *)
| WLocus (stem : string) (content : list elem). (* a locus of the instance itself (through its own
                                                   _effects handler list) gets new contents *)
Definition apply_write (inst : option string) (w : sworld) (x : write) : sworld :=
  match x with
  | WAttr v e val => {| sw_attrs := attr_set (var_name inst v, e) val (sw_attrs w); sw_loci := sw_loci w |}
  | WLocus stem content => {| sw_attrs := sw_attrs w; sw_loci := dict_set (decorated_name inst stem) content (sw_loci w) |}
  end.
Definition apply_writes (inst : option string) (ws : list write) (w : sworld) : sworld :=
  fold_left (apply_write inst) ws w.

(* an event function [fn] of a process with the given instance name and locus stems stays
   within its summary *)
Definition var_eqb (a b : var) : bool :=
  match a, b with
  | Own s, Own s' => String.eqb s s'
  | Shared n, Shared n' => String.eqb n n'
  | _, _ => false
  end.
Definition within_summary (fn : string) (stems : list string) (x : write) : bool :=
  match x with
  | WAttr v _ _ => existsb (var_eqb v) (write_summary fn)
  | WLocus stem _ => existsb (String.eqb stem) stems
  end.

(* the names an event of (inst, fn, stems) may change, as the harness sees them *)
Definition may_change_attrs (inst : option string) (fn : string) : list string :=
  map (var_name inst) (write_summary fn).
Definition may_change_loci (inst : option string) (stems : list string) : list string :=
  map (decorated_name inst) stems.
