(* Instance names (Model/Sequence.v): decoration is injective on '@'-free stems, undecoration
   inverts it, the three-level parameter lookup, non-interference of decorated parameters,
   and the locus registry (refuses duplicates; succeeds for distinct instance names). *)
From Coq Require Import List ZArith QArith Bool Arith String Ascii Lia.
From EpyV Require Import Model.Kernel Model.Sequence Proofs.Sequence.
Import ListNotations.
Close Scope Q_scope.
Open Scope list_scope.

(* ------------------------------------------------------------------ strings *)
Lemma append_inj_l (s a b : string) : (s ++ a)%string = (s ++ b)%string -> a = b.
Proof. induction s as [|c s IH]; simpl; intro H; [exact H|]. injection H as H. apply IH, H. Qed.

Lemma has_at_append (a b : string) : has_at (a ++ b)%string = has_at a || has_at b.
Proof. induction a as [|c a IH]; simpl; [reflexivity|]. rewrite IH, orb_assoc. reflexivity. Qed.

Lemma find_at_None (k : string) : find_at k = None <-> has_at k = false.
Proof.
  induction k as [|c k IH]; simpl; [tauto|].
  destruct (Ascii.eqb c at_sign); simpl; [split; discriminate|].
  rewrite <- IH. destruct (find_at k); simpl; split; congruence.
Qed.

Lemma find_at_decorated (k i : string) :
  has_at k = false -> find_at (k ++ String at_sign i)%string = Some (String.length k).
Proof.
  induction k as [|c k IH]; simpl; intro H.
  - reflexivity.
  - apply orb_false_iff in H. destruct H as [Hc Hk]. rewrite Hc, (IH Hk). reflexivity.
Qed.

Lemma prefix_append (k s : string) : prefix (String.length k) (k ++ s)%string = k.
Proof.
  induction k as [|c k IH]; simpl.
  - destruct s; reflexivity.
  - rewrite IH. reflexivity.
Qed.

(* undecoratedName inverts decoratedName on stems without '@' *)
Theorem undecorate_decorate (inst : option string) (k : string) :
  has_at k = false -> undecorated_name (decorated_name inst k) = k.
Proof.
  intro H. unfold undecorated_name, decorated_name. destruct inst as [i|].
  - rewrite (find_at_decorated k i H). apply prefix_append.
  - apply find_at_None in H. rewrite H. reflexivity.
Qed.

Lemma has_at_decorated (i k : string) : has_at (decorated_name (Some i) k) = true.
Proof. simpl. rewrite has_at_append. simpl. rewrite orb_true_r. reflexivity. Qed.

(* decoration is injective in both the stem and the instance *)
Theorem decorated_inj (i j : option string) (s1 s2 : string) :
  has_at s1 = false -> has_at s2 = false ->
  decorated_name i s1 = decorated_name j s2 -> s1 = s2 /\ i = j.
Proof.
  intros H1 H2 E.
  assert (Es : s1 = s2).
  { rewrite <- (undecorate_decorate i s1 H1), <- (undecorate_decorate j s2 H2), E. reflexivity. }
  subst s2. split; [reflexivity|].
  destruct i as [a|], j as [b|]; simpl in E.
  - apply append_inj_l in E. injection E as E. subst. reflexivity.
  - exfalso. pose proof (has_at_decorated a s1) as H. simpl in H. rewrite E in H. congruence.
  - exfalso. pose proof (has_at_decorated b s1) as H. simpl in H. rewrite <- E in H. congruence.
  - reflexivity.
Qed.

(* the names of two different instances never coincide *)
Theorem names_disjoint (i j : option string) (stems1 stems2 : list string) :
  i <> j ->
  (forall s, In s stems1 -> has_at s = false) -> (forall s, In s stems2 -> has_at s = false) ->
  forall x, In x (map (decorated_name i) stems1) -> In x (map (decorated_name j) stems2) -> False.
Proof.
  intros Hij H1 H2 x Hx1 Hx2. apply in_map_iff in Hx1. apply in_map_iff in Hx2.
  destruct Hx1 as (s1 & E1 & Hs1). destruct Hx2 as (s2 & E2 & Hs2).
  apply Hij. eapply decorated_inj; [apply H1, Hs1|apply H2, Hs2|]. rewrite E1, E2. reflexivity.
Qed.

(* the hypothesis on stems is needed: a stem containing '@' can collide *)
Lemma names_collide_with_at :
  decorated_name (Some "c"%string) "a@b"%string = decorated_name (Some "b@c"%string) "a"%string.
Proof. reflexivity. Qed.

(* ------------------------------------------------------------------ parameter lookup *)
Section LookupRule.
Context {V : Type}.

Theorem lookup_rule (inst : option string) (d : dict V) (k : string) (dflt : option V) :
  (forall v, dict_get (decorated_name inst k) d = Some v -> get_decorated inst d k dflt = Found v)
  /\ (dict_get (decorated_name inst k) d = None ->
      forall v, dict_get k d = Some v -> get_decorated inst d k dflt = Found v)
  /\ (dict_get (decorated_name inst k) d = None -> dict_get k d = None ->
      get_decorated inst d k dflt = match dflt with Some v => Found v | None => KeyError k end).
Proof.
  unfold get_decorated. repeat split.
  - intros v ->. reflexivity.
  - intros -> v ->. reflexivity.
  - intros -> ->. reflexivity.
Qed.

(* setParameters of one instance is invisible to the lookups of another *)
Theorem lookup_other_instance (i j : option string) (d : dict V) (k k' : string) (v : V) (dflt : option V) :
  i <> j -> has_at k = false -> has_at k' = false -> i <> None ->
  get_decorated j (dict_set (decorated_name i k') v d) k dflt = get_decorated j d k dflt.
Proof.
  intros Hij Hk Hk' Hi. unfold get_decorated. rewrite !dict_get_set.
  assert (E1 : String.eqb (decorated_name j k) (decorated_name i k') = false).
  { apply String.eqb_neq. intro E. apply decorated_inj in E; [|assumption..]. destruct E as [_ E]. congruence. }
  assert (E2 : String.eqb k (decorated_name i k') = false).
  { apply String.eqb_neq. intro E. change k with (decorated_name None k) in E.
    apply decorated_inj in E; [|assumption..]. destruct E as [_ E]. congruence. }
  rewrite E1, E2. reflexivity.
Qed.

(* ... and visible to its own *)
Theorem lookup_own_instance (i : option string) (d : dict V) (k : string) (v : V) (dflt : option V) :
  get_decorated i (dict_set (decorated_name i k) v d) k dflt = Found v.
Proof. unfold get_decorated. rewrite dict_get_set, String.eqb_refl. reflexivity. Qed.

(* an undecorated parameter is shared by all instances that have no decorated one *)
Theorem lookup_shared (i : option string) (d : dict V) (k : string) (v : V) (dflt : option V) :
  dict_get (decorated_name i k) d = None -> dict_get k d = Some v -> get_decorated i d k dflt = Found v.
Proof. intros H1 H2. unfold get_decorated. rewrite H1, H2. reflexivity. Qed.
End LookupRule.

(* ------------------------------------------------------------------ locus registry *)
Definition reg_names (reg : registry) : list string := map fst reg.

Lemma add_locus_spec reg owner name :
  add_locus reg owner name = if In_dec string_dec name (reg_names reg) then None else Some (reg ++ [(name, owner)]).
Proof.
  unfold add_locus. destruct (existsb (fun x => String.eqb name (fst x)) reg) eqn:E.
  - apply existsb_exists in E. destruct E as (x & Hx & E). apply String.eqb_eq in E.
    destruct (In_dec string_dec name (reg_names reg)) as [_|H]; [reflexivity|].
    exfalso. apply H. subst name. apply in_map, Hx.
  - destruct (In_dec string_dec name (reg_names reg)) as [H|_]; [|reflexivity].
    apply in_map_iff in H. destruct H as (x & Ex & Hx).
    assert (existsb (fun x => String.eqb name (fst x)) reg = true).
    { apply existsb_exists. exists x. split; [exact Hx|]. rewrite Ex. apply String.eqb_refl. }
    congruence.
Qed.

(* registering a list of names one after the other *)
Fixpoint add_names (reg : registry) (l : list (string * nat)) : option registry :=
  match l with
  | [] => Some reg
  | (n, o) :: l' => match add_locus reg o n with None => None | Some reg' => add_names reg' l' end
  end.

Lemma add_loci_names reg owner inst stems :
  add_loci reg owner inst stems = add_names reg (map (fun s => (decorated_name inst s, owner)) stems).
Proof.
  revert reg. induction stems as [|s stems IH]; intro reg; simpl; [reflexivity|].
  destruct (add_locus reg owner (decorated_name inst s)); [apply IH|reflexivity].
Qed.

Lemma add_names_app reg l1 l2 :
  add_names reg (l1 ++ l2) = match add_names reg l1 with None => None | Some r => add_names r l2 end.
Proof.
  revert reg. induction l1 as [|[n o] l1 IH]; intro reg; simpl; [reflexivity|].
  destruct (add_locus reg o n); [apply IH|reflexivity].
Qed.

Lemma add_names_spec l : forall reg, NoDup (reg_names reg) ->
  (forall r, add_names reg l = Some r -> r = reg ++ l /\ NoDup (reg_names r))
  /\ (add_names reg l = None <-> ~ NoDup (reg_names reg ++ map fst l)).
Proof.
  induction l as [|[n o] l IH]; intros reg Hnd; simpl.
  - split.
    + intros r [= <-]. rewrite app_nil_r. split; [reflexivity|exact Hnd].
    + rewrite app_nil_r. split; [discriminate|intro H; contradiction].
  - rewrite add_locus_spec. destruct (In_dec string_dec n (reg_names reg)) as [Hin|Hnin].
    + split; [discriminate|]. split; [intros _ H|reflexivity].
      apply NoDup_remove_2 in H. apply H, in_or_app. left. exact Hin.
    + assert (Hnd' : NoDup (reg_names (reg ++ [(n, o)]))).
      { unfold reg_names. rewrite map_app. simpl.
        apply NoDup_rev in Hnd. rewrite <- (rev_involutive (map fst reg ++ [n])). apply NoDup_rev.
        rewrite rev_app_distr. simpl. constructor; [rewrite <- in_rev; exact Hnin|exact Hnd]. }
      destruct (IH _ Hnd') as (I1 & I2). split.
      * intros r Hr. destruct (I1 r Hr) as (-> & H). split; [rewrite <- app_assoc; reflexivity|exact H].
      * rewrite I2. unfold reg_names. rewrite map_app, <- app_assoc. simpl. tauto.
Qed.

(* all names that the processes of a tree register, in build order, with their owners *)
Definition all_loci (ps : list procdesc) : list (string * nat) :=
  flat_map (fun p => map (fun s => (decorated_name (pd_inst p) s, pd_id p)) (pd_loci p)) ps.
Definition all_locus_names (t : ptree procdesc) : list string := map fst (all_loci (all_processes t)).

Lemma build_registry_names (t : ptree procdesc) :
  build_registry t = add_names [] (all_loci (all_processes t)).
Proof.
  unfold build_registry. rewrite forward_flat.
  assert (G : forall ps r, fold_left (fun r p => match r with
                                                  | None => None
                                                  | Some reg => add_loci reg (pd_id p) (pd_inst p) (pd_loci p)
                                                  end) ps r
                           = match r with None => None | Some reg => add_names reg (all_loci ps) end).
  { induction ps as [|p ps IH]; intro r; simpl; [destruct r; reflexivity|].
    rewrite IH. destruct r as [reg|]; [|reflexivity].
    rewrite add_loci_names, add_names_app. reflexivity. }
  apply G.
Qed.

(* build succeeds exactly when all decorated locus names are distinct; the registry then holds
   exactly those names, in allProcesses order *)
Theorem registry_spec (t : ptree procdesc) :
  (forall reg, build_registry t = Some reg -> reg = all_loci (all_processes t) /\ NoDup (all_locus_names t))
  /\ (build_registry t = None <-> ~ NoDup (all_locus_names t)).
Proof.
  rewrite build_registry_names.
  destruct (add_names_spec (all_loci (all_processes t)) [] (NoDup_nil _)) as (H1 & H2). split.
  - intros reg Hr. destruct (H1 reg Hr) as (E & Hnd). simpl in E. subst reg. split; [reflexivity|exact Hnd].
  - exact H2.
Qed.

Lemma NoDup_flat_map_disjoint {A B} (f : A -> list B) (l : list A) :
  (forall a, In a l -> NoDup (f a)) ->
  ForallOrdPairs (fun a b => forall x, In x (f a) -> In x (f b) -> False) l ->
  NoDup (flat_map f l).
Proof.
  intros Hnd Hpairs. induction Hpairs as [|a l Ha Hl IH]; simpl; [constructor|].
  assert (IH' : NoDup (flat_map f l)) by (apply IH; intros b Hb; apply Hnd; right; exact Hb).
  assert (Hnda : NoDup (f a)) by (apply Hnd; left; reflexivity).
  clear IH Hnd Hl. induction (f a) as [|x xs IHx] in Hnda, Ha |- *; simpl; [exact IH'|].
  inversion Hnda as [|? ? Hx Hxs]; subst. constructor.
  - intro Hin. apply in_app_or in Hin. destruct Hin as [Hin|Hin]; [contradiction|].
    apply in_flat_map in Hin. destruct Hin as (b & Hb & Hxb).
    rewrite Forall_forall in Ha. apply (Ha b Hb x); [left; reflexivity|exact Hxb].
  - apply IHx; [|exact Hxs]. rewrite Forall_forall in *. intros b Hb y Hy. apply (Ha b Hb). right. exact Hy.
Qed.

(* instances with pairwise different instance names, '@'-free distinct stems: no clash *)
Theorem registry_separate (t : ptree procdesc) :
  NoDup (map pd_inst (all_processes t)) ->
  (forall p, In p (all_processes t) -> NoDup (pd_loci p) /\ forall s, In s (pd_loci p) -> has_at s = false) ->
  exists reg, build_registry t = Some reg /\ reg = all_loci (all_processes t).
Proof.
  intros Hinst Hstems.
  assert (Hnd : NoDup (all_locus_names t)).
  { unfold all_locus_names, all_loci. rewrite flat_map_concat_map, concat_map, map_map, <- flat_map_concat_map.
    induction (all_processes t) as [|p ps IH]; [constructor|].
    apply NoDup_flat_map_disjoint.
    - intros a Ha. destruct (Hstems a Ha) as (Hnd & Hat). rewrite map_map. simpl.
      clear Ha. induction (pd_loci a) as [|s l IHl]; simpl; [constructor|].
      inversion Hnd as [|? ? Hs Hl]; subst. constructor.
      + intro Hin. apply in_map_iff in Hin. destruct Hin as (s' & E & Hs').
        apply decorated_inj in E; [|apply Hat; right; exact Hs'|apply Hat; left; reflexivity].
        destruct E as [E _]. subst s'. contradiction.
      + apply IHl; [exact Hl|]. intros s' Hs'. apply Hat. right. exact Hs'.
    - clear IH. revert Hinst Hstems. generalize (p :: ps). intros l Hinst Hstems.
      induction l as [|a l IHl]; [constructor|].
      simpl in Hinst. inversion Hinst as [|? ? Ha Hl]; subst. constructor.
      + rewrite Forall_forall. intros b Hb x Hxa Hxb. rewrite map_map in Hxa, Hxb. simpl in Hxa, Hxb.
        apply (names_disjoint (pd_inst a) (pd_inst b) (pd_loci a) (pd_loci b)) with (x := x); try assumption.
        * intro E. apply Ha. rewrite E. apply in_map, Hb.
        * apply Hstems. left. reflexivity.
        * apply Hstems. right. exact Hb.
      + apply IHl; [exact Hl|]. intros q Hq. apply Hstems. right. exact Hq. }
  destruct (build_registry t) as [reg|] eqn:E.
  - exists reg. split; [reflexivity|]. apply (proj1 (registry_spec t)). exact E.
  - exfalso. apply (proj2 (registry_spec t)) in E. contradiction.
Qed.

Lemma NoDup_drop_l {A} (l1 l2 : list A) : NoDup (l1 ++ l2) -> NoDup l2.
Proof. induction l1 as [|a l1 IH]; simpl; [tauto|]. intro H. inversion H; subst. apply IH. assumption. Qed.

(* two processes with the same instance name (or both without) and a common stem: refused *)
Theorem registry_refuses_same_name (t : ptree procdesc) ps1 p ps2 q ps3 s :
  all_processes t = ps1 ++ p :: ps2 ++ q :: ps3 -> pd_inst p = pd_inst q ->
  In s (pd_loci p) -> In s (pd_loci q) -> build_registry t = None.
Proof.
  intros Hall Hi Hp Hq. apply (proj2 (registry_spec t)). intro Hnd.
  unfold all_locus_names in Hnd. rewrite Hall in Hnd. unfold all_loci in Hnd.
  rewrite flat_map_app in Hnd. simpl in Hnd. rewrite flat_map_app in Hnd. simpl in Hnd.
  rewrite !map_app in Hnd.
  apply NoDup_drop_l in Hnd.
  set (n := decorated_name (pd_inst p) s).
  assert (H1 : In n (map fst (map (fun s0 => (decorated_name (pd_inst p) s0, pd_id p)) (pd_loci p)))).
  { rewrite map_map. simpl. apply in_map_iff. exists s. split; [reflexivity|exact Hp]. }
  assert (H2 : In n (map fst (map (fun s0 => (decorated_name (pd_inst q) s0, pd_id q)) (pd_loci q)))).
  { rewrite map_map. simpl. apply in_map_iff. exists s. split; [unfold n; rewrite Hi; reflexivity|exact Hq]. }
  apply in_split in H1. destruct H1 as (l1 & l2 & E1). rewrite E1 in Hnd.
  rewrite <- app_assoc in Hnd. apply NoDup_drop_l in Hnd. simpl in Hnd.
  apply NoDup_cons_iff in Hnd. destruct Hnd as [Hnin _]. apply Hnin.
  apply in_or_app. right. apply in_or_app. right. apply in_or_app. left. exact H2.
Qed.
