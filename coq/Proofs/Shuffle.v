(* Proofs about Model/Shuffle.v (C18), part 1: the undirected edge list and one swap. *)
From Coq Require Import List ZArith Bool Arith Lia.
From EpyV Require Import Lib.Prelude Model.Shuffle.
Import ListNotations.
Local Open Scope nat_scope.

(* ---------------------------------------------------------------- same_edge *)
Lemma zpair_eqb_iff a b : zpair_eqb a b = true <-> a = b.
Proof.
  destruct a as [a1 a2], b as [b1 b2]; unfold zpair_eqb; cbn [fst snd].
  rewrite andb_true_iff, !Z.eqb_eq. split; [intros [-> ->]; reflexivity | intros H; inversion H; auto].
Qed.

Lemma same_edge_iff a b c d :
  same_edge (a, b) (c, d) = true <-> (a = c /\ b = d) \/ (a = d /\ b = c).
Proof.
  unfold same_edge. cbn [fst snd]. rewrite orb_true_iff, !zpair_eqb_iff.
  split; (intros [H|H]; [left|right]); first [injection H as -> ->; auto | destruct H as [-> ->]; reflexivity].
Qed.

Lemma same_edge_false_iff a b c d :
  same_edge (a, b) (c, d) = false <-> ~ ((a = c /\ b = d) \/ (a = d /\ b = c)).
Proof. rewrite <- same_edge_iff. destruct (same_edge (a, b) (c, d)); split; intros H; congruence || (exfalso; apply H; reflexivity) || (intros ?; discriminate). Qed.

Lemma same_edge_refl e : same_edge e e = true.
Proof. destruct e as [a b]. apply same_edge_iff. left; auto. Qed.

Lemma same_edge_sym e f : same_edge e f = same_edge f e.
Proof.
  destruct e as [a b], f as [c d].
  destruct (same_edge (a, b) (c, d)) eqn:H1, (same_edge (c, d) (a, b)) eqn:H2; try reflexivity.
  - apply same_edge_iff in H1. apply same_edge_false_iff in H2. exfalso; apply H2. intuition.
  - apply same_edge_iff in H2. apply same_edge_false_iff in H1. exfalso; apply H1. intuition.
Qed.

(* two names of the same edge behave alike *)
Lemma same_edge_cong e f h : same_edge e f = true -> same_edge e h = same_edge f h.
Proof.
  destruct e as [a b], f as [c d], h as [x y]. intros H. apply same_edge_iff in H.
  destruct (same_edge (a, b) (x, y)) eqn:H1, (same_edge (c, d) (x, y)) eqn:H2; try reflexivity.
  - apply same_edge_iff in H1. apply same_edge_false_iff in H2. exfalso; apply H2.
    destruct H as [[-> ->]|[-> ->]], H1 as [[-> ->]|[-> ->]]; auto.
  - apply same_edge_iff in H2. apply same_edge_false_iff in H1. exfalso; apply H1.
    destruct H as [[-> ->]|[-> ->]], H2 as [[-> ->]|[-> ->]]; auto.
Qed.

Lemma same_edge_flip a b f : same_edge (a, b) f = same_edge (b, a) f.
Proof. apply same_edge_cong. apply same_edge_iff. right; auto. Qed.

Lemma same_edge_inc e f n : same_edge e f = true -> inc e n = inc f n.
Proof.
  destruct e as [a b], f as [c d]. intros H. apply same_edge_iff in H.
  unfold inc; cbn [fst snd]. destruct H as [[-> ->]|[-> ->]]; lia.
Qed.

(* ---------------------------------------------------------------- has_edge *)
Lemma has_edge_ext g e f : same_edge e f = true ->
  has_edge g (fst e) (snd e) = has_edge g (fst f) (snd f).
Proof.
  intros H. unfold has_edge. rewrite <- !surjective_pairing.
  induction g as [|x g IH]; cbn; [reflexivity|].
  rewrite IH, (same_edge_cong e f x H). reflexivity.
Qed.

Lemma has_edge_sym g a b : has_edge g a b = has_edge g b a.
Proof. apply (has_edge_ext g (a, b) (b, a)). apply same_edge_iff. right; auto. Qed.

Lemma has_edge_cons g e a b : has_edge (e :: g) a b = same_edge (a, b) e || has_edge g a b.
Proof. reflexivity. Qed.

Lemma has_edge_app g h a b : has_edge (g ++ h) a b = has_edge g a b || has_edge h a b.
Proof. unfold has_edge. apply existsb_app. Qed.

Lemma has_edge_In g a b : has_edge g a b = true <-> exists e, In e g /\ same_edge (a, b) e = true.
Proof. unfold has_edge. apply existsb_exists. Qed.

Lemma has_edge_remove g a b c d :
  has_edge (remove_edge g a b) c d = has_edge g c d && negb (same_edge (a, b) (c, d)).
Proof.
  unfold remove_edge. induction g as [|e g IH]; [reflexivity|].
  cbn [filter]. destruct (same_edge (a, b) e) eqn:He; cbn [negb].
  - rewrite IH, has_edge_cons.
    destruct (same_edge (c, d) e) eqn:Hc; cbn [orb]; [|reflexivity].
    (* e names both (a,b) and (c,d) *)
    rewrite (same_edge_cong (a, b) e (c, d) He), (same_edge_sym e), Hc. cbn. apply andb_false_r.
  - rewrite !has_edge_cons, IH.
    destruct (same_edge (c, d) e) eqn:Hc; cbn [orb]; [|reflexivity].
    rewrite (same_edge_sym (a, b)), (same_edge_cong (c, d) e (a, b) Hc), (same_edge_sym e), He. reflexivity.
Qed.

Lemma has_edge_add g a b c d :
  has_edge (add_edge g a b) c d = has_edge g c d || same_edge (a, b) (c, d).
Proof.
  unfold add_edge. destruct (has_edge g a b) eqn:H.
  - destruct (same_edge (a, b) (c, d)) eqn:Hs; [|rewrite orb_false_r; reflexivity].
    pose proof (has_edge_ext g (a, b) (c, d) Hs) as E. cbn [fst snd] in E. rewrite <- E, H. reflexivity.
  - rewrite has_edge_app. cbn. rewrite orb_false_r, (same_edge_sym (c, d)). reflexivity.
Qed.

Lemma has_edge_swap g a b c d x y :
  has_edge (swap g a b c d) x y =
  has_edge g x y && negb (same_edge (a, b) (x, y)) && negb (same_edge (c, d) (x, y))
  || same_edge (a, d) (x, y) || same_edge (c, b) (x, y).
Proof. unfold swap. rewrite !has_edge_add, !has_edge_remove. reflexivity. Qed.

(* ---------------------------------------------------------------- simple edge lists *)
(* a networkx Graph holds every undirected edge once *)
Fixpoint nodupu (g : list edge) : Prop :=
  match g with [] => True | e :: r => has_edge r (fst e) (snd e) = false /\ nodupu r end.
Definition no_loops (g : list edge) : Prop := forall e, In e g -> fst e <> snd e.
Definition simple (g : list edge) : Prop := nodupu g /\ no_loops g.

Lemma has_edge_filter_sub (p : edge -> bool) g a b : has_edge (filter p g) a b = true -> has_edge g a b = true.
Proof.
  rewrite !has_edge_In. intros [e [Hi Hs]]. apply filter_In in Hi. exists e. tauto.
Qed.

Lemma nodupu_filter (p : edge -> bool) g : nodupu g -> nodupu (filter p g).
Proof.
  induction g as [|e g IH]; [trivial|]. intros [H1 H2]. cbn [filter].
  destruct (p e); [|auto]. split; [|auto].
  destruct (has_edge (filter p g) (fst e) (snd e)) eqn:H; [|reflexivity].
  apply has_edge_filter_sub in H. congruence.
Qed.

Lemma nodupu_snoc g a b : nodupu g -> has_edge g a b = false -> nodupu (g ++ [(a, b)]).
Proof.
  induction g as [|e g IH]; intros Hn Hh.
  - cbn. auto.
  - destruct Hn as [H1 H2]. rewrite has_edge_cons in Hh. apply orb_false_iff in Hh. destruct Hh as [Hs Hh].
    cbn [app nodupu]. split; [|auto].
    rewrite has_edge_app, H1. cbn. rewrite orb_false_r, <- surjective_pairing, same_edge_sym. exact Hs.
Qed.

Lemma nodupu_add g a b : nodupu g -> nodupu (add_edge g a b).
Proof. intros H. unfold add_edge. destruct (has_edge g a b) eqn:Hh; [exact H | apply nodupu_snoc; assumption]. Qed.

Lemma no_loops_filter (p : edge -> bool) g : no_loops g -> no_loops (filter p g).
Proof. intros H e Hi. apply filter_In in Hi. apply H. tauto. Qed.

Lemma no_loops_add g a b : no_loops g -> a <> b -> no_loops (add_edge g a b).
Proof.
  intros H Hab. unfold add_edge. destruct (has_edge g a b); [exact H|].
  intros e Hi. apply in_app_or in Hi. destruct Hi as [Hi|[<-|[]]]; [auto | exact Hab].
Qed.

Lemma has_edge_no_loop g a b : no_loops g -> has_edge g a b = true -> a <> b.
Proof.
  intros Hl H. apply has_edge_In in H. destruct H as [[x y] [Hi Hs]].
  apply same_edge_iff in Hs. specialize (Hl _ Hi). cbn in Hl. destruct Hs as [[-> ->]|[-> ->]]; congruence.
Qed.

(* ---------------------------------------------------------------- degree and size under remove/add *)
Lemma remove_absent g a b : has_edge g a b = false -> remove_edge g a b = g.
Proof.
  unfold remove_edge. induction g as [|e g IH]; [reflexivity|].
  rewrite has_edge_cons. intros H. apply orb_false_iff in H. destruct H as [H1 H2].
  cbn [filter]. rewrite H1. cbn. f_equal. auto.
Qed.

Lemma deg_app g h n : deg (g ++ h) n = deg g n + deg h n.
Proof. induction g as [|e g IH]; cbn; [reflexivity | rewrite IH; lia]. Qed.

Lemma deg_remove g a b n : nodupu g -> has_edge g a b = true ->
  deg g n = deg (remove_edge g a b) n + inc (a, b) n.
Proof.
  induction g as [|e g IH]; [discriminate|]. intros [Hn1 Hn2]. rewrite has_edge_cons.
  destruct (same_edge (a, b) e) eqn:He; intros H.
  - unfold remove_edge. cbn [filter]. rewrite He. cbn [negb]. fold (remove_edge g a b).
    rewrite remove_absent.
    + cbn [deg]. rewrite (same_edge_inc _ _ n He). lia.
    + rewrite <- Hn1. apply (has_edge_ext g (a, b) e He).
  - cbn in H. unfold remove_edge. cbn [filter]. rewrite He. cbn [negb deg]. fold (remove_edge g a b).
    rewrite (IH Hn2 H). lia.
Qed.

Lemma length_remove g a b : nodupu g -> has_edge g a b = true -> length g = S (length (remove_edge g a b)).
Proof.
  induction g as [|e g IH]; [discriminate|]. intros [Hn1 Hn2]. rewrite has_edge_cons.
  destruct (same_edge (a, b) e) eqn:He; intros H.
  - unfold remove_edge. cbn [filter]. rewrite He. cbn [negb]. fold (remove_edge g a b).
    rewrite remove_absent; [reflexivity|].
    rewrite <- Hn1. apply (has_edge_ext g (a, b) e He).
  - cbn in H. unfold remove_edge. cbn [filter]. rewrite He. cbn [negb length]. fold (remove_edge g a b).
    rewrite (IH Hn2 H). reflexivity.
Qed.

Lemma deg_add g a b n : has_edge g a b = false -> deg (add_edge g a b) n = deg g n + inc (a, b) n.
Proof. intros H. unfold add_edge. rewrite H, deg_app. cbn. lia. Qed.

Lemma length_add g a b : has_edge g a b = false -> length (add_edge g a b) = S (length g).
Proof. intros H. unfold add_edge. rewrite H, app_length. cbn. lia. Qed.

(* ---------------------------------------------------------------- one swap *)
(* what the guards of shuffle.py:72-108 establish before lines 112-113 run *)
Record swap_ok (g : list edge) (a b c d : Z) : Prop := {
  ok_ab : has_edge g a b = true;
  ok_cd : has_edge g c d = true;
  ok_ca : c <> a; ok_cb : c <> b;
  ok_da : d <> a; ok_db : d <> b; ok_dc : d <> c;
  ok_ad : has_edge g a d = false;
  ok_cbe : has_edge g c b = false
}.

Section Swap.
  Variables (g : list edge) (a b c d : Z).
  Hypothesis Hs : simple g.
  Hypothesis Hok : swap_ok g a b c d.

  Let g1 := remove_edge g a b.
  Let g2 := remove_edge g1 c d.
  Let g3 := add_edge g2 a d.

  Lemma swap_ab_distinct : a <> b.
  Proof. exact (has_edge_no_loop g a b (proj2 Hs) (ok_ab _ _ _ _ _ Hok)). Qed.

  Lemma sw_cd_ab : same_edge (a, b) (c, d) = false.
  Proof. apply same_edge_false_iff. destruct Hok. intros [[? ?]|[? ?]]; congruence. Qed.

  Lemma sw_g1_cd : has_edge g1 c d = true.
  Proof. unfold g1. rewrite has_edge_remove, (ok_cd _ _ _ _ _ Hok), sw_cd_ab. reflexivity. Qed.

  Lemma sw_g2_ad : has_edge g2 a d = false.
  Proof. unfold g2, g1. rewrite !has_edge_remove, (ok_ad _ _ _ _ _ Hok). reflexivity. Qed.

  Lemma sw_g3_cb : has_edge g3 c b = false.
  Proof.
    unfold g3, g2, g1. rewrite has_edge_add, !has_edge_remove, (ok_cbe _ _ _ _ _ Hok). cbn.
    apply same_edge_false_iff. destruct Hok. intros [[? ?]|[? ?]]; congruence.
  Qed.

  Lemma sw_nodupu1 : nodupu g1.
  Proof. apply nodupu_filter. exact (proj1 Hs). Qed.

  Lemma swap_degree n : deg (swap g a b c d) n = deg g n.
  Proof.
    unfold swap. fold g1. fold g2. fold g3.
    rewrite (deg_add g3 c b n sw_g3_cb). unfold g3. rewrite (deg_add g2 a d n sw_g2_ad).
    rewrite (deg_remove g a b n (proj1 Hs) (ok_ab _ _ _ _ _ Hok)). fold g1.
    rewrite (deg_remove g1 c d n sw_nodupu1 sw_g1_cd). fold g2.
    unfold inc; cbn [fst snd]. lia.
  Qed.

  Lemma swap_length : length (swap g a b c d) = length g.
  Proof.
    unfold swap. fold g1. fold g2. fold g3.
    rewrite (length_add g3 c b sw_g3_cb). unfold g3. rewrite (length_add g2 a d sw_g2_ad).
    rewrite (length_remove g a b (proj1 Hs) (ok_ab _ _ _ _ _ Hok)). fold g1.
    rewrite (length_remove g1 c d sw_nodupu1 sw_g1_cd). reflexivity.
  Qed.

  Lemma swap_simple : simple (swap g a b c d).
  Proof.
    destruct Hs as [Hn Hl]. split; unfold swap.
    - apply nodupu_add, nodupu_add. unfold remove_edge. apply nodupu_filter, nodupu_filter. exact Hn.
    - apply no_loops_add; [apply no_loops_add|].
      + unfold remove_edge. apply no_loops_filter, no_loops_filter. exact Hl.
      + intros E. exact (ok_da _ _ _ _ _ Hok (eq_sym E)).
      + exact (ok_cb _ _ _ _ _ Hok).
  Qed.

  (* the four nodes are pairwise distinct *)
  Lemma swap_distinct : NoDup [a; b; c; d].
  Proof.
    pose proof swap_ab_distinct. destruct Hok.
    repeat constructor; cbn; intuition congruence.
  Qed.

  (* an edge of the network that is neither a-b nor c-d survives *)
  Lemma swap_keeps x y : has_edge g x y = true -> same_edge (a, b) (x, y) = false -> same_edge (c, d) (x, y) = false ->
    has_edge (swap g a b c d) x y = true.
  Proof. intros H1 H2 H3. rewrite has_edge_swap, H1, H2, H3. reflexivity. Qed.
End Swap.

(* ---------------------------------------------------------------- counting original edges that are gone *)
Definition missing (g0 g : list edge) : list edge :=
  filter (fun e => negb (has_edge g (fst e) (snd e))) g0.

Lemma filter_length_mono {A} (p q : A -> bool) l :
  (forall x, In x l -> p x = true -> q x = true) -> length (filter p l) <= length (filter q l).
Proof.
  induction l as [|x l IH]; intros H; [cbn; lia|]. cbn [filter].
  assert (IH' : length (filter p l) <= length (filter q l)) by (apply IH; intros; apply H; [right|]; assumption).
  destruct (p x) eqn:Hp.
  - rewrite (H x (or_introl eq_refl) Hp). cbn. lia.
  - destruct (q x); cbn; lia.
Qed.

Lemma filter_length_or {A} (p q : A -> bool) l :
  length (filter (fun x => p x || q x) l) <= length (filter p l) + length (filter q l).
Proof. induction l as [|x l IH]; cbn; [lia|]. destruct (p x), (q x); cbn; lia. Qed.

Lemma filter_same_le1 g0 x : nodupu g0 -> length (filter (same_edge x) g0) <= 1.
Proof.
  induction g0 as [|e g0 IH]; [cbn; lia|]. intros [H1 H2]. cbn [filter].
  destruct (same_edge x e) eqn:He; [|auto].
  assert (filter (same_edge x) g0 = []) as ->; [|cbn; lia].
  destruct (filter (same_edge x) g0) as [|y r] eqn:Hf; [reflexivity|exfalso].
  assert (Hy : In y (filter (same_edge x) g0)) by (rewrite Hf; left; reflexivity).
  apply filter_In in Hy. destruct Hy as [Hy1 Hy2].
  assert (has_edge g0 (fst e) (snd e) = true); [|congruence].
  apply has_edge_In. exists y. split; [exact Hy1|]. rewrite <- surjective_pairing.
  rewrite same_edge_sym in He. rewrite (same_edge_cong e x y He). exact Hy2.
Qed.

Lemma missing_swap g0 g a b c d : nodupu g0 ->
  length (missing g0 (swap g a b c d)) <= length (missing g0 g) + 2.
Proof.
  intros Hn. unfold missing.
  eapply Nat.le_trans.
  - apply (filter_length_mono _ (fun e => negb (has_edge g (fst e) (snd e)) || (same_edge (a, b) e || same_edge (c, d) e))).
    intros [x y] _. cbn [fst snd]. rewrite has_edge_swap.
    destruct (has_edge g x y), (same_edge (a, b) (x, y)), (same_edge (c, d) (x, y)); cbn; intros; try reflexivity; try discriminate.
  - eapply Nat.le_trans; [apply filter_length_or|].
    apply Nat.add_le_mono_l.
    eapply Nat.le_trans; [apply filter_length_or|].
    change 2 with (1 + 1). apply Nat.add_le_mono; apply filter_same_le1; exact Hn.
Qed.

Lemma missing_self g : nodupu g -> missing g g = [].
Proof.
  intros _. unfold missing.
  assert (H : forall h, (forall e, In e h -> In e g) -> filter (fun e => negb (has_edge g (fst e) (snd e))) h = []).
  { induction h as [|e h IH]; intros Hs; [reflexivity|]. cbn [filter].
    assert (has_edge g (fst e) (snd e) = true) as ->.
    { apply has_edge_In. exists e. split; [apply Hs; left; reflexivity|]. rewrite <- surjective_pairing. apply same_edge_refl. }
    cbn. apply IH. intros; apply Hs; right; assumption. }
  apply H. auto.
Qed.
