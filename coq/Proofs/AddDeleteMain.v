(* C19, part 5: the bookkeeping invariant through whole runs of Model/AddDelete.v's tables under
   both dynamics: instantiation of Proofs/AddDeleteRun.v. *)
From Coq Require Import List ZArith QArith Bool Arith Lia Sorted Permutation.
From EpyV Require Import Lib.Prelude Model.Kernel Model.Loci Model.Compart Model.AddDelete
                         Proofs.LociBase Proofs.LociLocus Proofs.LociInv
                         Proofs.AddDelete Proofs.AddDeleteSteps Proofs.AddDeleteInv Proofs.AddDeleteRun.
Import ListNotations.
Close Scope Q_scope.
Close Scope Z_scope.

(* ------------------------------------------------------------------ the kernel's lists of loci *)
Lemma kupd_length : forall A i (f : A -> A) l, length (Kernel.upd_nth i f l) = length l.
Proof. intros A i f l. revert i. induction l as [|x l IH]; intros [|i]; cbn; auto. Qed.

Lemma kupd_same : forall A i (f : A -> A) l d, i < length l -> nth i (Kernel.upd_nth i f l) d = f (nth i l d).
Proof. intros A i f l d. revert i. induction l as [|x l IH]; intros [|i] H; cbn in *; try lia; auto. apply IH. lia. Qed.

Lemma kupd_other : forall A i j (f : A -> A) l d, i <> j -> nth j (Kernel.upd_nth i f l) d = nth j l d.
Proof.
  intros A i j f l d. revert i j. induction l as [|x l IH]; intros [|i] [|j] H; cbn; auto; try congruence.
Qed.

Definition on_locus (a : action) (j : nat) : Prop := exists x, a = ALAdd j x \/ a = ALDiscard j x.

Lemma act_loci_length : forall e lc a, length (act_loci e lc a) = length lc.
Proof. intros e lc a. destruct a; cbn; try reflexivity; apply kupd_length. Qed.

Lemma acts_loci_length : forall e acts lc, length (acts_loci e acts lc) = length lc.
Proof.
  intros e acts. unfold acts_loci. induction acts as [|a acts IH]; intros lc; cbn [fold_left]; [reflexivity|].
  rewrite IH. apply act_loci_length.
Qed.

Lemma acts_loci_other : forall e li acts lc,
  (forall a, In a acts -> a = AObserve \/ exists j, on_locus a j /\ j <> li) ->
  nth li (acts_loci e acts lc) [] = nth li lc [].
Proof.
  intros e li acts. unfold acts_loci. induction acts as [|a acts IH]; intros lc H; cbn [fold_left]; [reflexivity|].
  rewrite IH by (intros b Hb; apply H; right; exact Hb).
  destruct (H a (or_introl eq_refl)) as [->|[j [[x [->| ->]] Hj]]]; cbn [act_loci]; [reflexivity| |]; apply kupd_other; exact Hj.
Qed.

Lemma sync_from_quiet : forall new i old, forallb quiet (sync_from i old new) = true.
Proof.
  induction new as [|n new IH]; intros i old; cbn [sync_from]; [reflexivity|].
  rewrite !forallb_app, IH, !andb_true_r. apply andb_true_iff. split; apply forallb_forall; intros a Ha;
    apply in_map_iff in Ha; destruct Ha as [x [<- _]]; reflexivity.
Qed.

Lemma sync_from_range : forall new i old a, In a (sync_from i old new) -> exists j, on_locus a j /\ i <= j < i + length new.
Proof.
  induction new as [|n new IH]; intros i old a Ha; cbn [sync_from] in Ha; [destruct Ha|].
  apply in_app_or in Ha. destruct Ha as [Ha|Ha]; [|apply in_app_or in Ha; destruct Ha as [Ha|Ha]].
  - apply in_map_iff in Ha. destruct Ha as [x [<- _]]. exists i. split; [exists x; auto | cbn; lia].
  - apply in_map_iff in Ha. destruct Ha as [x [<- _]]. exists i. split; [exists x; auto | cbn; lia].
  - destruct (IH (S i) (tl old) a Ha) as [j [Hj Hr]]. exists j. split; [exact Hj | cbn; lia].
Qed.

(* ------------------------------------------------------------------ the run invariant *)
Section Inst.
Variable cf : adcfg.
Variable n0 : nat.                 (* the order of the initial network *)
Let tbl := ac_tbl cf.
Let li := ac_li cf.
Let off := ac_off cf.

(* the all-nodes locus is not one of the disease's loci; a disease is there iff it has loci to speak of;
   where the disease hears of edges its table is one C01 covers; in the repaired sequence recipe
   (Process.removeNode on a node just put into REMOVED) no locus of the disease mentions REMOVED *)
Record cfg_ok : Prop := {
  co_apart : li < off \/ off + length tbl <= li;
  co_alone : with_disease cf = false -> tbl = [];
  co_c01 : tracked_edges cf = true -> wf_loci tbl = true /\ single_orientation tbl = true;
  co_seq : ac_combo cf = Sequence true -> forallb (fun sp => negb (mentions sp (ac_R cf))) tbl = true }.
Hypothesis Hcfg : cfg_ok.

Definition snap_ok (sn : snap) : Prop :=
  NoDup (sn_all sn) /\ (forall v, In v (sn_all sn) <-> In v (st_nodes (sn_st sn)))
  /\ (with_disease cf = true -> has_comp (sn_st sn))
  /\ (tracked_edges cf = true -> Inv tbl (sn_st sn))
  /\ match sn_kind sn with
     | KAdd i es => In i (st_nodes (sn_st sn)) /\ neighbours (sn_st sn) i = es /\ length es = ac_deg cf /\ NoDup es /\ ~ In i es
     | KDelete n => ~ In n (st_nodes (sn_st sn)) /\ untouched (st_edges (sn_st sn)) n
     | KDisease _ _ => True
     end.

Definition RunInv (w : adworld) : Prop :=
  Base cf w /\ length (st_loci (aw_st w)) = length tbl /\ aw_raised w = false
  /\ (tracked_edges cf = true -> Inv tbl (aw_st w))
  /\ (aw_stuck w = false -> length (st_nodes (aw_st w)) + count_deletes (aw_log w) = n0 + count_adds (aw_log w))
  /\ Forall snap_ok (aw_log w).

Definition J (lc : list (list Kernel.elem)) (w : adworld) : Prop :=
  li < length lc /\ nth li lc [] = map EN (zsort (aw_all w)) /\ RunInv w.

Lemma sync_keeps_li : forall e lc (s' : state), length (st_loci s') = length tbl ->
  nth li (acts_loci e (sync_actions off lc (st_loci s')) lc) [] = nth li lc [].
Proof.
  intros e lc s' HL. apply acts_loci_other. intros a Ha. right. unfold sync_actions in Ha.
  destruct (sync_from_range _ _ _ _ Ha) as [j [Hj Hr]]. exists j. split; [exact Hj|].
  rewrite HL in Hr. destruct (co_apart Hcfg); lia.
Qed.

(* --- add --- *)
Lemma add_ok : forall t e lc w, J lc w ->
  forallb quiet (snd (ad_add cf t e lc w)) = true
  /\ J (acts_loci e (snd (ad_add cf t e lc w)) lc) (fst (ad_add cf t e lc w)).
Proof.
  intros t e lc w [Hli [Hm [HB [HL [HR [HI [HO HS]]]]]]]. unfold ad_add. cbn [fst snd].
  split; [cbn [forallb quiet]; apply sync_from_quiet|].
  pose proof (add_step_base cf w HB) as HB'.
  pose proof (LL_add_step cf w) as HLL. unfold LL in HLL.
  assert (HL' : length (st_loci (aw_st (add_step cf w))) = length tbl) by congruence.
  assert (HI' : tracked_edges cf = true -> Inv tbl (aw_st (add_step cf w))).
  { intro T. destruct (co_c01 Hcfg T) as [Hwf Hso]. apply add_step_inv; auto. }
  pose proof HB as [[HG HN] [HA [HAN HC]]].
  assert (Hall : aw_all (add_step cf w) = zadd (new_node_name (aw_st w)) (aw_all w) /\ aw_raised (add_step cf w) = false
                 /\ (aw_stuck (add_step cf w) = false ->
                     length (st_nodes (aw_st (add_step cf w))) + count_deletes (aw_log (add_step cf w)) = n0 + count_adds (aw_log (add_step cf w)))
                 /\ Forall snap_ok (aw_log (add_step cf w))).
  { assert (Ez : zadd (new_node_name (aw_st w)) (aw_all w) = aw_all w ++ [new_node_name (aw_st w)]).
    { apply zadd_fresh. intro H. apply HAN in H. exact (new_node_name_fresh _ H). }
    destruct (add_step_cases cf w HB) as [[_ H]|[es [ds [_ [_ R]]]]].
    - cbv zeta in H. destruct H as [Hst [Hlog [Hra [_ [_ [Ea _]]]]]]. rewrite Ez. split; [exact Ea|]. split; [congruence|].
      split; [intro Hf; congruence|]. rewrite Hlog. exact HS.
    - destruct R as [Rfresh Rnodes Redges Rall Rlen Rnodup Rnoself Rold Rnbrs Rattr Rlog Rraised Rstuck].
      rewrite Ez. split; [assumption|]. split; [congruence|]. split.
      + intro Hf. rewrite Rstuck in Hf. specialize (HO Hf). rewrite Rlog, Rnodes, app_length. cbn.
        unfold count_adds, count_deletes in *. cbn. lia.
      + rewrite Rlog. constructor; [|exact HS]. destruct HB' as [_ [HA' [HAN' HC']]].
        split; [exact HA'|]. split; [exact HAN'|]. split; [exact HC'|]. split; [exact HI'|]. cbn.
        split; [rewrite Rnodes; apply in_app_iff; right; left; reflexivity|]. auto. }
  destruct Hall as [Ea [Hra [HO' HS']]].
  split; [rewrite acts_loci_length; exact Hli|]. split.
  - change (ALAdd (ac_li cf) (EN (new_node_name (aw_st w))) :: sync_actions (ac_off cf) lc (st_loci (aw_st (add_step cf w))))
      with ([ALAdd li (EN (new_node_name (aw_st w)))] ++ sync_actions off lc (st_loci (aw_st (add_step cf w)))).
    unfold acts_loci. rewrite fold_left_app. cbn [fold_left act_loci].
    set (lc1 := Kernel.upd_nth li (ins (EN (new_node_name (aw_st w)))) lc).
    assert (E1 : nth li lc1 [] = map EN (zsort (aw_all (add_step cf w)))).
    { unfold lc1. rewrite kupd_same by exact Hli. rewrite Hm, ins_map_EN, Ea, zsort_zadd. reflexivity. }
    rewrite <- E1. apply acts_loci_other. intros a Ha. right. unfold sync_actions in Ha.
    destruct (sync_from_range _ _ _ _ Ha) as [j [Hj Hr]]. exists j. split; [exact Hj|].
    rewrite HL' in Hr. destruct (co_apart Hcfg); lia.
  - split; [exact HB'|]. split; [exact HL'|]. split; [exact Hra|]. split; [exact HI'|]. split; [exact HO'|exact HS'].
Qed.

(* --- delete --- *)
Lemma delete_ok : forall t e lc w, J lc w -> In e (nth li lc []) ->
  forallb quiet (snd (ad_delete cf t e lc w)) = true
  /\ J (acts_loci e (snd (ad_delete cf t e lc w)) lc) (fst (ad_delete cf t e lc w)).
Proof.
  intros t e lc w [Hli [Hm [HB [HL [HR [HI [HO HS]]]]]]] He. rewrite Hm in He.
  apply in_map_iff in He. destruct He as [n [<- Hn]]. apply (proj1 (zsort_In _ _)) in Hn.
  pose proof HB as [[HG HN] [HA [HAN HC]]]. apply HAN in Hn.
  unfold ad_delete. cbn [fst snd].
  split; [cbn [forallb quiet]; apply sync_from_quiet|].
  pose proof (delete_step_base cf w n HB Hn) as HB'.
  pose proof (LL_delete_step cf w n) as HLL. unfold LL in HLL.
  assert (HL' : length (st_loci (aw_st (delete_step cf w n))) = length tbl) by congruence.
  destruct (delete_step_result cf w n HB Hn) as [[En Ee] Et Ea Elog Era Est _].
  assert (HI' : tracked_edges cf = true -> Inv tbl (aw_st (delete_step cf w n))).
  { intro T. destruct (co_c01 Hcfg T) as [Hwf Hso]. specialize (HI T).
    destruct (ac_combo cf) as [| |v] eqn:Ec.
    - unfold tracked_edges in T. rewrite Ec in T. discriminate.
    - apply delete_step_inv_inherit; assumption.
    - assert (v = true) by (unfold tracked_edges in T; rewrite Ec in T; exact T). subst v.
      rewrite delete_step_st. unfold delete_state, mark_removed, unlink, with_disease. rewrite Ec.
      pose proof (has_comp_not_raises _ n (HC (tracked_with_disease cf T)) Hn) as Hr.
      destruct (change_compartment_frame tbl (aw_st w) n (ac_R cf)) as [A [_ [C _]]]. cbv zeta in A, C.
      apply (p_remove_node_inv cf Hso _ n (ac_R cf)).
      + apply change_compartment_inv; assumption.
      + fold tbl. rewrite A. exact Hn.
      + unfold getc. fold tbl. rewrite C, Hr, Z.eqb_refl. reflexivity.
      + apply (co_seq Hcfg). exact Ec. }
  split; [rewrite acts_loci_length; exact Hli|]. split.
  - change (ALDiscard (ac_li cf) (EN n) :: sync_actions (ac_off cf) lc (st_loci (aw_st (delete_step cf w n))))
      with ([ALDiscard li (EN n)] ++ sync_actions off lc (st_loci (aw_st (delete_step cf w n)))).
    unfold acts_loci. rewrite fold_left_app. cbn [fold_left act_loci].
    set (lc1 := Kernel.upd_nth li (del (EN n)) lc).
    assert (E1 : nth li lc1 [] = map EN (zsort (aw_all (delete_step cf w n)))).
    { unfold lc1. rewrite kupd_same by exact Hli. rewrite Hm, del_map_EN, Ea, zsort_zdiscard. reflexivity. }
    rewrite <- E1. apply acts_loci_other. intros a Ha. right. unfold sync_actions in Ha.
    destruct (sync_from_range _ _ _ _ Ha) as [j [Hj Hr]]. exists j. split; [exact Hj|].
    rewrite HL' in Hr. destruct (co_apart Hcfg); lia.
  - split; [exact HB'|]. split; [exact HL'|]. split; [congruence|]. split; [exact HI'|]. split.
    + intro Hf. rewrite Est in Hf. specialize (HO Hf). rewrite Elog, En.
      pose proof (filter_neq_length n (st_nodes (aw_st w)) HN Hn). unfold count_adds, count_deletes in *. cbn. lia.
    + rewrite Elog. constructor; [|exact HS]. destruct HB' as [_ [HA' [HAN' HC']]].
      split; [exact HA'|]. split; [exact HAN'|]. split; [exact HC'|]. split; [exact HI'|]. cbn. split.
      * rewrite En. intro H. apply filter_In in H. destruct H as [_ H]. rewrite Z.eqb_refl in H. discriminate.
      * intros x Hx. rewrite Ee in Hx. apply filter_In in Hx. apply negb_true_iff. exact (proj2 Hx).
Qed.

(* --- the disease's event functions --- *)
Definition quiet_hk (h : hkind) : bool := match h with HLeft _ _ (Some _) => false | _ => true end.

(* the world after a disease event that left the network state s' *)
Definition dis_world (w : adworld) (c' : cworld) (k : nat) (e : Kernel.elem) : adworld :=
  {| aw_c := c'; aw_all := aw_all w; aw_draws := aw_draws w; aw_stuck := aw_stuck w; aw_raised := aw_raised w;
     aw_log := {| sn_kind := KDisease k e; sn_all := aw_all w; sn_st := cw_st c' |} :: aw_log w |}.

Lemma dis_world_inv : forall w c' k e, RunInv w ->
  (cw_st c' = aw_st w \/ exists n c, cw_st c' = fst (change_compartment tbl (aw_st w) n c)) ->
  RunInv (dis_world w c' k e).
Proof.
  intros w c' k e [HB [HL [HR [HI [HO HS]]]]] Hs.
  assert (F : st_nodes (cw_st c') = st_nodes (aw_st w) /\ st_edges (cw_st c') = st_edges (aw_st w)
              /\ (forall v, ~ In v (st_nodes (aw_st w)) -> st_attr (cw_st c') v = st_attr (aw_st w) v)
              /\ (has_comp (aw_st w) -> has_comp (cw_st c'))
              /\ length (st_loci (cw_st c')) = length (st_loci (aw_st w))
              /\ (tracked_edges cf = true -> Inv tbl (cw_st c'))).
  { destruct Hs as [->|[n [c ->]]];
      [split; [reflexivity|]; split; [reflexivity|]; split; [reflexivity|]; split; [auto|]; split; [reflexivity|exact HI]|].
    destruct (change_compartment_frame tbl (aw_st w) n c) as [A [B [C _]]]. cbv zeta in *.
    split; [exact A|]. split; [exact B|]. split; [|split; [|split]].
    - intros v Hv. rewrite C. destruct (getc_raises (aw_st w) n) eqn:Er; [reflexivity|]. cbn [negb andb].
      destruct (Z.eqb_spec v n) as [->|_]; [|reflexivity]. exfalso. apply Hv. exact (proj1 (getc_raises_false _ _ Er)).
    - intros Hc v Hv. rewrite A in Hv. rewrite C. destruct (negb (getc_raises (aw_st w) n) && Z.eqb v n); [eauto | apply Hc, Hv].
    - apply LL_change_compartment.
    - intro T. destruct (co_c01 Hcfg T) as [Hwf Hso]. apply change_compartment_inv; auto. }
  destruct F as [A [B [C [D [E G]]]]]. destruct HB as [HG [HA [HAN HC]]].
  assert (HB' : Base cf (dis_world w c' k e)).
  { split; [apply (gok_attr (aw_st w)); assumption|]. split; [exact HA|]. split.
    - intro v. unfold aw_st, dis_world. cbn. fold (aw_st w). rewrite A. apply HAN.
    - intro Dz. apply D, HC, Dz. }
  split; [exact HB'|]. split; [unfold aw_st, dis_world; cbn; congruence|]. split; [exact HR|]. split; [exact G|]. split.
  - intro Hf. specialize (HO Hf). unfold aw_st, dis_world. cbn. fold (aw_st w). rewrite A. exact HO.
  - cbn. constructor; [|exact HS]. destruct HB' as [_ [_ [HAN' HC']]].
    split; [exact HA|]. split; [exact HAN'|]. split; [exact HC'|]. split; [exact G|]. exact I.
Qed.

Lemma disease_ok : forall k h t e lc w, quiet_hk h = true -> J lc w ->
  forallb quiet (snd (ad_disease cf k h t e lc w)) = true
  /\ J (acts_loci e (snd (ad_disease cf k h t e lc w)) lc) (fst (ad_disease cf k h t e lc w)).
Proof.
  intros k h t e lc w Hq [Hli [Hm HRI]]. unfold ad_disease.
  assert (Sh : exists c' acts, Compart.handler (ac_tbl cf) (ac_off cf) h t e lc (aw_c w) = (c', acts)
             /\ (cw_st c' = aw_st w \/ exists n c, cw_st c' = fst (change_compartment tbl (aw_st w) n c))
             /\ (acts = sync_actions off lc (st_loci (cw_st c')) \/ acts = [AObserve] \/ acts = [])).
  { unfold Compart.handler. destruct h as [c|c mark post| |]; destruct e as [n|n m]; try (eexists _, _; split; [reflexivity|]; split; [left; reflexivity | auto]).
    - eexists _, _. split; [reflexivity|]. split; [right; exists n, c; reflexivity | left; reflexivity].
    - destruct post as [[T kk]|]; [discriminate|]. rewrite app_nil_r. destruct mark; (eexists _, _; split; [reflexivity|]; split; [right; exists n, c; reflexivity | left; reflexivity]). }
  destruct Sh as [c' [acts [Eh [Hs Ha]]]]. rewrite Eh. cbn [fst snd]. fold (dis_world w c' k e).
  pose proof (dis_world_inv w c' k e HRI Hs) as HRI'.
  assert (HL' : length (st_loci (cw_st c')) = length tbl) by (destruct HRI' as [_ [H _]]; exact H).
  split.
  - destruct Ha as [->|[->| ->]]; [apply sync_from_quiet | reflexivity | reflexivity].
  - split; [rewrite acts_loci_length; exact Hli|]. split; [|exact HRI'].
    change (aw_all (dis_world w c' k e)) with (aw_all w). rewrite <- Hm.
    destruct Ha as [->|[->| ->]]; [apply sync_keeps_li; exact HL' | reflexivity | reflexivity].
Qed.

(* ------------------------------------------------------------------ the table *)
Definition event_ok (a : adevent) : Prop :=
  match ae_kind a with
  | PAdd => True
  | PDelete => ae_locus a = li             (* delete is registered on the all-nodes locus *)
  | PDisease h => quiet_hk h = true        (* the disease's event functions post nothing (SIR, SIS, ...) *)
  end.

Lemma in_combine_seq : forall A (l : list A) k m a, In (m, a) (combine (seq k (length l)) l) ->
  exists j, m = k + j /\ nth_error l j = Some a.
Proof.
  intros A l. induction l as [|x l IH]; intros k m a H; cbn in H; [destruct H|].
  destruct H as [[= <- <-]|H]; [exists 0; split; [lia|reflexivity]|].
  destruct (IH (S k) m a H) as [j [-> Hj]]. exists (S j). split; [lia|exact Hj].
Qed.

Lemma nth_error_combine_seq : forall A (l : list A) k j a, nth_error l j = Some a ->
  nth_error (combine (seq k (length l)) l) j = Some (k + j, a).
Proof.
  intros A l. induction l as [|x l IH]; intros k [|j] a H; cbn in *; try discriminate.
  - inversion H. rewrite Nat.add_0_r. reflexivity.
  - rewrite (IH (S k) j a H). f_equal. f_equal. lia.
Qed.

Lemma index_events_In : forall pi j0 evs x, In x (index_events pi j0 evs) -> In (snd x) evs.
Proof.
  intros pi j0 evs. revert j0. induction evs as [|ev evs IH]; intros j0 x H; cbn in H; [destruct H|].
  destruct H as [<-|H]; [left; reflexivity | right; apply (IH (S j0)), H].
Qed.

Lemma mk_procs_events : forall procs pi k x, In x (all_events_from pi (mk_procs k procs)) ->
  exists j a, nth_error (concat procs) j = Some a /\ ev_prog (snd x) = k + j /\ ev_locus (snd x) = ae_locus a.
Proof.
  induction procs as [|evs procs IH]; intros pi k x H; cbn [mk_procs all_events_from] in H; [destruct H|].
  apply in_app_or in H. destruct H as [H|H].
  - apply index_events_In in H. cbn [p_events] in H. apply in_map_iff in H. destruct H as [[m a] [E Hin]].
    destruct (in_combine_seq _ _ _ _ _ Hin) as [j [-> Hj]]. exists j, a. cbn [concat]. split.
    + rewrite nth_error_app1; [exact Hj|]. apply nth_error_Some. congruence.
    + rewrite <- E. cbn. auto.
  - destruct (IH (S pi) (k + length evs) x H) as [j [a [Hj [Hp Hl]]]]. exists (length evs + j), a. cbn [concat]. split.
    + rewrite nth_error_app2 by lia. replace (length evs + j - length evs) with j by lia. exact Hj.
    + split; [lia | exact Hl].
Qed.

Lemma mk_procs_setup : forall procs k p, In p (mk_procs k procs) -> p_setup p = [].
Proof.
  induction procs as [|evs ps IH]; intros k p H; cbn [mk_procs] in H; [destruct H|].
  destruct H as [<-|H]; [reflexivity | apply (IH _ _ H)].
Qed.

Section Table.
Variable procs : list (list adevent).
Variable nloci : nat.
Variables (nodes : list Z) (edges : list (Z * Z)) (init : list (Z * Z)) (maxtime : Q) (adraws : list nat).
Let tb := ad_table cf procs nloci nodes edges init maxtime adraws.

Hypothesis Hev : forall a, In a (concat procs) -> event_ok a.

Lemma table_prog_ok : prog_ok adworld tb J.
Proof.
  intros x t e lc w Hx HJ He.
  destruct (mk_procs_events procs 0 0 x Hx) as [j [a [Hj [Hp Hl]]]]. cbn [Nat.add] in Hp.
  assert (Ep : prog_of tb (ev_prog (snd x)) = prog_of_kind cf j (ae_kind a)).
  { unfold prog_of, tb, ad_table. cbn [t_progs]. rewrite Hp.
    apply nth_error_nth. rewrite (map_nth_error _ _ _ (nth_error_combine_seq _ _ 0 j a Hj)). reflexivity. }
  rewrite Ep. pose proof (Hev a (nth_error_In _ _ Hj)) as Hok. unfold event_ok in Hok.
  destruct (ae_kind a) as [| |h]; cbn [prog_of_kind].
  - apply add_ok, HJ.
  - apply delete_ok; [exact HJ|]. rewrite <- Hok, <- Hl. exact He.
  - apply disease_ok; assumption.
Qed.

Lemma table_setup : forall p, In p (t_procs tb) -> p_setup p = [].
Proof. intros p H. apply (mk_procs_setup procs 0 p H). Qed.

(* --- the initial state --- *)
Record init_ok : Prop := {
  io_n0 : length nodes = n0;
  io_nodup : NoDup nodes;
  io_graph : graph_okb nodes edges = true;
  io_li : li < nloci;
  io_init : with_disease cf = true ->
            forallb (fun nc => zmem (fst nc) nodes) init = true /\ (forall v, In v nodes -> exists c, In (v, c) init) }.
Hypothesis Hinit : init_ok.

Lemma fold_ins_EN : forall l acc, fold_left (fun a x => ins x a) (map EN l) (map EN acc) = map EN (fold_left (fun a x => zins x a) l acc).
Proof. induction l as [|x l IH]; intros acc; cbn [map fold_left]; [reflexivity|]. rewrite ins_map_EN. apply IH. Qed.

Lemma init_fold_frame : forall ops s, (forall o, In o ops -> exists n c, o = ChangeC n c) ->
  let s' := fold_left (step tbl) ops s in
  st_nodes s' = st_nodes s /\ st_edges s' = st_edges s /\ LL s s'
  /\ (graph_ok s -> graph_ok s')
  /\ (forall v, (exists c, st_attr s v = Some (Some c)) -> exists c, st_attr s' v = Some (Some c))
  /\ (forall v, getc_raises s v = false -> getc_raises s' v = false).
Proof.
  induction ops as [|o ops IH]; intros s Ho; cbn [fold_left];
    [split; [reflexivity|]; split; [reflexivity|]; split; [apply LL_refl|]; split; [auto|]; split; auto|].
  destruct (Ho o (or_introl eq_refl)) as [n [c ->]].
  change (step tbl s (ChangeC n c)) with (fst (change_compartment tbl s n c)).
  destruct (change_compartment_frame tbl s n c) as [A [B [C _]]]. cbv zeta in A, B, C.
  destruct (IH (fst (change_compartment tbl s n c)) (fun o' H => Ho o' (or_intror H))) as [A' [B' [L' [G' [P' R']]]]]. cbv zeta in *.
  split; [congruence|]. split; [congruence|]. split; [eapply LL_trans; [apply LL_change_compartment | exact L']|].
  split; [|split].
  - intro G. apply G'. destruct G as [G1 G2]. split; rewrite ?A, ?B; [exact G1|].
    intros v Hv. rewrite C. destruct (getc_raises s n) eqn:Er; [apply G2, Hv|]. cbn [negb andb].
    destruct (Z.eqb_spec v n) as [->|_]; [|apply G2, Hv]. exfalso. apply Hv. exact (proj1 (getc_raises_false _ _ Er)).
  - intros v Hv. apply P'. rewrite C. destruct (negb (getc_raises s n) && Z.eqb v n); [eauto | exact Hv].
  - intros v Hv. apply R'. apply attr_present_step_change. exact Hv.
Qed.

Lemma init_has_comp : forall ini s v c, In (v, c) ini -> getc_raises s v = false ->
  exists c', st_attr (fold_left (step tbl) (init_ops ini) s) v = Some (Some c').
Proof.
  induction ini as [|[n c0] ini IH]; intros s v c Hin Hr; [destruct Hin|]. cbn [init_ops map fold_left fst snd].
  change (step tbl s (ChangeC n c0)) with (fst (change_compartment tbl s n c0)).
  destruct Hin as [[= -> ->]|Hin].
  - assert (Ho : forall o, In o (map (fun nc => ChangeC (fst nc) (snd nc)) ini) -> exists n c, o = ChangeC n c).
    { intros o H. apply in_map_iff in H. destruct H as [[a b] [<- _]]. eauto. }
    destruct (init_fold_frame _ (fst (change_compartment tbl s v c)) Ho) as [_ [_ [_ [_ [P _]]]]]. cbv zeta in P. apply P.
    destruct (change_compartment_frame tbl s v c) as [_ [_ [C _]]]. cbv zeta in C. rewrite C, Hr, Z.eqb_refl. cbn. eauto.
  - apply (IH _ v c Hin). apply attr_present_step_change. exact Hr.
Qed.

Lemma init_state_ok :
  let s0 := init_state cf nodes edges init in
  st_nodes s0 = nodes /\ gok s0 /\ length (st_loci s0) = length tbl
  /\ (with_disease cf = true -> has_comp s0) /\ (tracked_edges cf = true -> Inv tbl s0).
Proof.
  destruct Hinit as [_ Hnd Hg _ Hi]. unfold init_state. fold tbl.
  assert (G0 : forall t, graph_ok (state0 t nodes edges)).
  { intro t. split; cbn.
    - intros a b Hab. unfold graph_okb in Hg. rewrite forallb_forall in Hg. specialize (Hg (a, b) Hab). cbn in Hg.
      apply andb_true_iff in Hg. destruct Hg as [H1 H2]. split; apply zmem_In; assumption.
    - intros v Hv. apply zmem_false in Hv. rewrite Hv. reflexivity. }
  destruct (with_disease cf) eqn:D.
  - destruct (Hi eq_refl) as [Hi1 Hi2]. unfold setup.
    assert (Ho : forall o, In o (init_ops init) -> exists n c, o = ChangeC n c).
    { intros o H. apply in_map_iff in H. destruct H as [[a b] [<- _]]. eauto. }
    destruct (init_fold_frame (init_ops init) (state0 tbl nodes edges) Ho) as [A [B [L [G [_ _]]]]]. cbv zeta in *.
    split; [exact A|]. split; [split; [apply G, G0 | rewrite A; exact Hnd]|]. split; [rewrite L; cbn; apply map_length|]. split.
    + intros _ v Hv. rewrite A in Hv. cbn in Hv. destruct (Hi2 v Hv) as [c Hc]. apply (init_has_comp init _ v c Hc).
      unfold getc_raises, has_node, state0. cbn [st_nodes st_attr]. apply zmem_In in Hv. rewrite Hv. reflexivity.
    + intro T. destruct (co_c01 Hcfg T) as [Hwf Hso].
      apply (inv_history tbl nodes edges init [] Hwf Hso Hg). rewrite app_nil_r. apply setup_valid, Hi1.
  - cbn. rewrite (co_alone Hcfg D). split; [reflexivity|]. split; [|split; [reflexivity|split; [discriminate|]]].
    + split; [|exact Hnd]. split; cbn.
      * intros a b Hab. unfold graph_okb in Hg. rewrite forallb_forall in Hg. specialize (Hg (a, b) Hab). cbn in Hg.
        apply andb_true_iff in Hg. destruct Hg as [H1 H2]. split; apply zmem_In; assumption.
      * reflexivity.
    + intro T. pose proof (tracked_with_disease cf T). congruence.
Qed.

Lemma nth_map_seq : forall A (g : nat -> A) n i d, i < n -> nth i (map g (seq 0 n)) d = g i.
Proof.
  intros A g n i d H. rewrite (nth_indep _ d (g 0)) by (rewrite map_length, seq_length; exact H).
  rewrite map_nth, seq_nth by exact H. reflexivity.
Qed.

Lemma table_init : J (init_loci tb) (t_world tb).
Proof.
  destruct init_state_ok as [A [G [L [C I0]]]]. cbv zeta in *.
  pose proof (io_li Hinit) as Hli.
  unfold tb, ad_table, init_loci, init_kloci. cbn [t_loci t_world]. rewrite map_map. cbn [snd].
  split; [rewrite map_length, seq_length; exact Hli|]. split.
  - rewrite nth_map_seq by exact Hli. fold li. rewrite Nat.eqb_refl.
    change (@nil Kernel.elem) with (map EN []). rewrite fold_ins_EN. reflexivity.
  - unfold RunInv, Base, init_world, aw_st. cbn.
    split; [split; [exact G|]; split; [exact (io_nodup Hinit)|]; split; [intro v; rewrite A; tauto | exact C]|].
    split; [exact L|]. split; [reflexivity|]. split; [exact I0|]. split; [|constructor].
    intros _. rewrite A. unfold count_adds, count_deletes. cbn. rewrite (io_n0 Hinit). lia.
Qed.

(* --- every run, both dynamics --- *)
Theorem stoch_run_inv : forall pf fuel rs ls ds,
  let r := stoch_run tb pf fuel rs ls ds in J (loci (r_final r)) (world (r_final r)).
Proof.
  intros pf fuel rs ls ds. exact (proj2 (stoch_run_SJ adworld tb J table_prog_ok table_setup table_init pf fuel rs ls ds)).
Qed.

Theorem sync_run_inv : forall pf fuel rs ds,
  let r := sync_run tb pf fuel rs ds in J (loci (r_final r)) (world (r_final r)).
Proof.
  intros pf fuel rs ds. exact (proj2 (sync_run_SJ adworld tb J table_prog_ok table_setup table_init pf fuel rs ds)).
Qed.

End Table.
End Inst.
