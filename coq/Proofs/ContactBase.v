(* C08, base: what a call of an event function does to the occupied-edge and hitting-time
   records of Model/Compart.v, for every table; posted events are only ever posted on node
   elements, so a posted event function never marks. *)
From Coq Require Import List ZArith QArith Bool Arith Lia.
From EpyV Require Import Lib.Prelude Model.Kernel Model.Loci Model.Compart
  Proofs.KernelBase Proofs.KernelMember Proofs.LociBase Proofs.LociLocus Proofs.LociInv
  Proofs.CompartRun Proofs.CompartSort Proofs.CompartInv Proofs.CompartDiagram.
Import ListNotations.
Close Scope Q_scope.

(* the pair an event function with summary h marks when called on element e *)
Definition marks (h : hkind) (e : Kernel.elem) : option (Z * Z) :=
  match h, e with
  | HLeft _ true _, EE n m => Some (n, m)
  | _, _ => None
  end.

Lemma handler_occ tbl off h t e kl w :
  cw_occ (fst (handler tbl off h t e kl w)) =
  match marks h e with Some nm => mark_occupied nm t (cw_occ w) | None => cw_occ w end.
Proof. destruct h as [c|c [|] post| |], e as [n|n m]; reflexivity. Qed.

Lemma handler_hit tbl off h t e kl w :
  cw_hit (fst (handler tbl off h t e kl w)) =
  match marks h e with Some nm => mark_hit (fst nm) t (cw_hit w) | None => cw_hit w end.
Proof. destruct h as [c|c [|] post| |], e as [n|n m]; reflexivity. Qed.

Lemma marks_moved h e n m : marks h e = Some (n, m) -> exists c, moved h e = Some (n, c).
Proof. destruct h as [c|c [|] post| |], e as [a|a b]; cbn; intros E; inversion E; subst. exists c. reflexivity. Qed.

(* ------------------------------------------------------------------ actions of the shipped event functions *)
Definition okact (e : Kernel.elem) (a : action) : Prop :=
  match a with
  | ALAdd _ _ | ALDiscard _ _ | AObserve => True
  | APostOn (EN _) _ _ => True
  | APostRep _ _ _ | APost _ _ => exists n, e = EN n
  | _ => False
  end.

Definition QE {W} (s : st W) : Prop := forall x, In x (queue s) -> exists n, e_elem x = EN n.

Lemma do_action_QE {W} p t e a (s : st W) : okact e a -> QE s -> QE (do_action p t e a s).
Proof.
  intros Ha Hq. destruct a; cbn in Ha; try contradiction; cbn [do_action]; unfold post.
  - destruct (Qltb _ _); [exact Hq|]. intros y [<-|Hy]; [exact Ha | apply Hq, Hy].
  - destruct x as [n|n m]; [|contradiction]. destruct (Qltb _ _); [exact Hq|].
    intros y [<-|Hy]; [exists n; reflexivity | apply Hq, Hy].
  - destruct (Qltb _ _); [exact Hq|]. intros y [<-|Hy]; [exact Ha | apply Hq, Hy].
  - exact Hq.
  - exact Hq.
  - exact Hq.
Qed.

Lemma run_actions_QE {W} p t e acts (s : st W) : Forall (okact e) acts -> QE s -> QE (run_actions p t e acts s).
Proof.
  unfold run_actions. revert s. induction acts as [|a acts IH]; intros s H Hq; cbn [fold_left]; [exact Hq|].
  inversion H as [|? ? Ha H']; subst. apply IH; [exact H' | apply do_action_QE; assumption].
Qed.

Lemma handler_okact tbl off h t e kl w : Forall (okact e) (snd (handler tbl off h t e kl w)).
Proof.
  assert (S : forall l, Forall (okact e) (sync_actions off kl l)).
  { intros l. unfold sync_actions. eapply Forall_impl; [|apply sync_from_loci_only].
    intros a Ha. destruct a; cbn in Ha; try contradiction; exact I. }
  destruct h as [c|c mark post| |], e as [n|n m]; cbn [handler snd]; try (constructor; fail); try apply S.
  - apply Forall_app. split; [apply S|]. destruct post as [[T k]|]; [|constructor]. constructor; [exact I | constructor].
  - constructor; [exact I | constructor].
  - constructor; [exact I | constructor].
Qed.

Section CB.
Variable cm : cmodel.
Variables (nodes : list Z) (edges : list (Z * Z)) (init : list (Z * Z)) (maxtime : Q) (monitor : option Q).
Let tb := mk_table cm nodes edges init maxtime monitor.

(* the summary of the event function entered by a call *)
Definition call_kind (c : call) : option hkind := nth_error (cm_kinds cm) (fst (fst (call_args c))).

Lemma after_world c (s : st cworld) :
  world (after tb c s) =
  match call_kind c with
  | Some h => fst (handler (cm_specs cm) 0 h (snd (fst (call_args c))) (snd (call_args c)) (loci s) (world s))
  | None => world s
  end.
Proof.
  pose proof (after_lw tb c s) as A. unfold call_kind. destruct (call_args c) as [[k t] e]. cbn [fst snd].
  destruct A as [_ A]. rewrite A. unfold tb. rewrite prog_of_kind. destruct (nth_error (cm_kinds cm) k); reflexivity.
Qed.

Lemma prog_okact k t e kl w : Forall (okact e) (snd (prog_of tb k t e kl w)).
Proof.
  unfold tb. rewrite prog_of_kind. destruct (nth_error (cm_kinds cm) k) as [h|]; [apply handler_okact | constructor].
Qed.

Lemma run_prog_QE p k t e (s : st cworld) : QE s -> QE (run_prog tb p k t e s).
Proof.
  intros Hq. unfold run_prog. pose proof (prog_okact k t e (loci s) (world s)) as A.
  destruct (prog_of tb k t e (loci s) (world s)) as [w acts]. cbn [snd] in A.
  apply run_actions_QE; [exact A | exact Hq].
Qed.

Lemma QE_sched (s s' : st cworld) : QE s -> sched s s' -> QE s'.
Proof. intros Hq (_ & _ & _ & Hi & _) x Hx. apply Hq, Hi, Hx. Qed.

Lemma QE_call (s : st cworld) c : QE s -> call_ok tb c s -> QE (after tb c s).
Proof.
  intros Hq Hok. destruct c as [[[pi j] ev] t e|h]; cbn [after].
  - unfold fire_event. intros y Hy. cbn [queue emit] in Hy. revert y Hy. apply run_prog_QE. exact Hq.
  - destruct Hok as [Hh _]. apply head_in in Hh. destruct (Hq h Hh) as [n En].
    unfold pend_step, fire. intros y Hy. cbn [queue emit] in Hy. revert y Hy.
    set (s1 := emit _ (set_clock _ (set_queue _ s))).
    assert (Q1 : QE s1) by (intros y Hy; cbn in Hy; apply Hq; eapply remove_id_incl; exact Hy).
    pose proof (run_prog_QE (e_proc h) (e_prog h) (e_time h) (e_elem h) s1 Q1) as Q2.
    destruct (e_rep h) as [ddt|]; [|exact Q2].
    unfold post. destruct (Qltb _ _); cbn [queue emit]; [exact Q2|].
    intros y [<-|Hy]; [exists n; exact En | apply Q2, Hy].
Qed.

Lemma QE_setup rs ls ds : QE (setup_state tb rs ls ds).
Proof.
  unfold setup_state.
  set (s0 := {| clock := 0%Q; nextid := 0; queue := []; loci := init_loci tb; world := t_world tb; ids := []; out := [];
                rands := rs; lns := ls; draws := ds; stuck := false |}).
  assert (Q0 : QE s0) by (intros x []).
  assert (P : forall p, In p (t_procs tb) -> Forall (okact (EN 0)) (p_setup p)).
  { intros p Hp. pose proof (mk_table_post_only cm nodes edges init maxtime monitor p Hp) as F.
    unfold tb, mk_table in Hp. cbn [t_procs] in Hp.
    assert (M : Forall (okact (EN 0)) (match cm_seed_post cm with
            | Some (c, T, k) => map (fun n => APostOn (EN n) T k) (nodes_in (Loci.setup (cm_specs cm) nodes edges init) c)
            | None => [] end)).
    { destruct (cm_seed_post cm) as [[[c T] k]|]; [|constructor].
      apply Forall_forall. intros a Ha. apply in_map_iff in Ha. destruct Ha as [n [<- _]]. exact I. }
    destruct monitor as [delta|]; cbn [In] in Hp.
    - destruct Hp as [<-|[<-|[]]]; cbn [p_setup]; [|exact M]. constructor; [exists 0%Z; reflexivity | constructor].
    - destruct Hp as [<-|[]]; cbn [p_setup]. exact M. }
  revert P Q0. generalize 0%nat as k. generalize s0 as s. clear s0.
  induction (t_procs tb) as [|p ps IH]; intros s k P Q0; cbn [fold_left fst snd]; [exact Q0|].
  apply IH; [intros q Hq; apply P; right; exact Hq|].
  apply run_actions_QE; [apply P; left; reflexivity | exact Q0].
Qed.

(* a posted event function never marks: its element is a node *)
Lemma posted_no_marks (s : st cworld) h k : QE s -> call_ok tb (CPost h) s -> marks k (e_elem h) = None.
Proof.
  intros Hq [Hh _]. apply head_in in Hh. destruct (Hq h Hh) as [n ->]. destruct k as [c|c [|] post| |]; reflexivity.
Qed.

End CB.
