(* C13: the whole run.  The invariants of Proofs/NewmanZiffOcc.v hold in every state reached by
   percolate(), and the sampling rule of Proofs/NewmanZiffSampling.v says which state each sample sees. *)
From Coq Require Import List ZArith QArith Bool Arith Lia Permutation Sorted.
From EpyV Require Import Lib.Prelude Model.Percolate Model.NewmanZiff.
From EpyV Require Import Proofs.NewmanZiffUF Proofs.NewmanZiffOcc Proofs.NewmanZiffQuery Proofs.NewmanZiffSampling.
Import ListNotations.
Local Open Scope nat_scope.

(* ------------------------------------------------------------------ the shuffle *)
Definition is_perm (perm : list nat) (n : nat) : Prop := Permutation perm (seq 0 n).

Lemma map_nth_seq {A} (d : A) (l : list A) : map (fun i => nth i l d) (seq 0 (length l)) = l.
Proof.
  induction l as [|x l IH]; [reflexivity|]. cbn [length seq map nth]. f_equal.
  rewrite <- seq_shift, map_map. exact IH.
Qed.

Lemma apply_perm_Permutation {A} (d : A) l perm : is_perm perm (length l) -> Permutation (apply_perm d l perm) l.
Proof.
  intros P. unfold apply_perm. transitivity (map (fun i => nth i l d) (seq 0 (length l)));
    [apply Permutation_map; exact P | rewrite map_nth_seq; reflexivity].
Qed.

Lemma apply_perm_Forall {A} (P : A -> Prop) (d : A) l perm : P d -> Forall P l -> Forall P (apply_perm d l perm).
Proof.
  intros Pd Pl. unfold apply_perm. apply Forall_forall. intros x I. apply in_map_iff in I. destruct I as (i & <- & _).
  destruct (Nat.lt_ge_cases i (length l)) as [L|L]; [|rewrite nth_overflow by exact L; exact Pd].
  rewrite Forall_forall in Pl. apply Pl, nth_In, L.
Qed.

Lemma Forall2_weaken {A B} (P Q : A -> B -> Prop) l1 l2 : (forall x y, P x y -> Q x y) -> Forall2 P l1 l2 -> Forall2 Q l1 l2.
Proof. intros H F. induction F; constructor; auto. Qed.

(* ------------------------------------------------------------------ initial states *)
Lemma init_bond_UF N : UF (repeat (-1)%Z N) [].
Proof.
  assert (L : length (repeat (-1)%Z N) = N) by apply repeat_length.
  assert (Rt : forall x, x < N -> is_root (repeat (-1)%Z N) x).
  { intros x H. split; [rewrite L; exact H | rewrite get_repeat by exact H; lia]. }
  constructor.
  - intros n [H _]. rewrite L in H. exists n, 0. split; [apply path_of_root, Rt, H|]. rewrite get_repeat by exact H. lia.
  - intros x y [].
  - intros x r d P. pose proof (path_lt _ _ _ _ P) as [H _]. rewrite L in H.
    destruct (path_root_inv _ _ _ _ (Rt _ H) P) as [-> _]. apply conn_refl.
  - intros r R. exists [r]. split; [repeat constructor; cbn; tauto|]. split.
    + intros x. cbn. split.
      * intros [<-|[]]. exists 0. apply path_of_root, R.
      * intros (d & P). pose proof (path_lt _ _ _ _ P) as [H _]. rewrite L in H.
        destruct (path_root_inv _ _ _ _ (Rt _ H) P) as [-> _]. auto.
    + destruct R as [H _]. rewrite L in H. rewrite get_repeat by exact H. reflexivity.
Qed.

Lemma init_bond_Inv nodes : 1 <= length nodes -> Inv (init_bond nodes).
Proof.
  intros HN. set (N := length nodes). assert (L : length (repeat (-1)%Z N) = N) by apply repeat_length.
  constructor; cbn [init_bond comp gcc ncomp wedges]; fold N.
  - apply init_bond_UF.
  - split.
    + intros r [H _]. rewrite L in H. rewrite get_repeat by exact H. lia.
    + left. exists 0. split; [split; [rewrite L; exact HN | rewrite get_repeat by exact HN; lia] | rewrite get_repeat by exact HN; reflexivity].
  - exists (seq 0 N). split; [apply seq_NoDup|]. split; [|rewrite seq_length; reflexivity].
    intros r. rewrite in_seq. unfold is_root. rewrite L. split.
    + intros H. split; [lia | rewrite get_repeat by lia; lia].
    + intros [H _]. lia.
Qed.

Lemma init_bond_occ N x : occ (repeat (-1)%Z N) x <-> x < N.
Proof.
  unfold occ, unocc. rewrite repeat_length. split; [tauto|]. intros H. split; [exact H|]. rewrite get_repeat by exact H. lia.
Qed.

Lemma init_site_no_occ N x : ~ occ (repeat (Z.of_nat N + 1)%Z N) x.
Proof. intros [H1 H2]. rewrite repeat_length in H1. apply H2. unfold unocc. rewrite repeat_length, get_repeat by exact H1. reflexivity. Qed.

Lemma init_site_SInv adj nodes : SInv adj (init_site nodes).
Proof.
  set (N := length nodes). pose proof (init_site_no_occ N) as NO.
  assert (NR : forall r, ~ is_root (repeat (Z.of_nat N + 1)%Z N) r).
  { intros r [H1 H2]. rewrite repeat_length in H1. rewrite get_repeat in H2 by exact H1. lia. }
  constructor; [constructor|..]; cbn [init_site comp gcc ncomp wnodes wedges]; fold N.
  - constructor.
    + intros n O. destruct (NO _ O).
    + intros x y [].
    + intros x r d P. destruct (NO _ (path_occ _ _ _ _ P)).
    + intros r R. destruct (NR _ R).
  - split; [intros r R; destruct (NR _ R) | right; auto].
  - exists []. split; [constructor|]. split; [|reflexivity]. intros r. cbn. split; [tauto | apply NR].
  - intros n. cbn. split; [apply NO | tauto].
  - intros x y [].
  - intros x y [].
Qed.

(* ------------------------------------------------------------------ bond percolation *)
Definition valid_edge (N : nat) (e : nedge) : Prop := fst e < N /\ snd e < N.

(* nodes labelled 0..N-1 *)
Definition nodes_ok (nodes : list nat) : Prop := forall n, In n nodes <-> n < length nodes.

(* [RB nodes pre s]: a state of bond percolation in which exactly the edges pre have been occupied *)
Record RB (nodes : list nat) (pre : list nedge) (s : state) : Prop := {
  rb_inv : Inv s;
  rb_len : length (comp s) = length nodes;
  rb_occ : forall x, occ (comp s) x <-> x < length nodes;
  rb_nodes : wnodes s = nodes;
  rb_edges : eeq (wedges s) pre
}.

Lemma eeq_snoc e a b : eeq a (e :: b) -> eeq a (b ++ [e]).
Proof.
  intros H. eapply eeq_trans; [exact H|]. split; intros x y I; left.
  - apply in_app_iff. destruct I as [<-|I]; [right; left; reflexivity | left; exact I].
  - apply in_app_iff in I. destruct I as [I|[<-|[]]]; [right; exact I | left; reflexivity].
Qed.

Lemma RB_init nodes : 1 <= length nodes -> RB nodes [] (init_bond nodes).
Proof.
  intros HN. constructor.
  - apply init_bond_Inv, HN.
  - apply repeat_length.
  - apply init_bond_occ.
  - reflexivity.
  - apply eeq_refl.
Qed.

Lemma RB_occupy nodes pre e s : valid_edge (length nodes) e -> RB nodes pre s -> RB nodes (pre ++ [e]) (occupy_bond s e).
Proof.
  intros [V1 V2] [I L O Nd Ed]. destruct e as [n m]. cbn [fst snd] in V1, V2.
  destruct (occupy_bond_spec s n m I (proj2 (O n) V1) (proj2 (O m) V2)) as (I' & L' & O' & Ed' & Nd' & _).
  constructor.
  - exact I'.
  - rewrite L'. exact L.
  - intros x. rewrite O'. apply O.
  - rewrite Nd'. exact Nd.
  - apply eeq_snoc. eapply eeq_trans; [exact Ed'|]. apply eeq_cons. exact Ed.
Qed.

Lemma bond_cs_spec a es V n : UF a es -> (forall x, V x <-> occ a x) -> occ a n ->
  exists a' c, componentSize_bond a n = (a', c) /\ compr a a' /\ size_spec V es n c.
Proof.
  intros U HV O. destruct (componentSize_bond_spec a es V n U HV O) as (a' & c & E & C & S).
  exists a', c. split; [exact E|]. split; [exact C|]. left. split; [apply HV; exact O | exact S].
Qed.

Lemma occ_compr_stable a a' n : compr a a' -> occ a n -> occ a' n.
Proof. intros C O. apply (compr_occ _ _ C). exact O. Qed.

Lemma RB_sample nodes : nodes_ok nodes -> forall pre p s, RB nodes pre s ->
  RB nodes pre (fst (sample_with componentSize_bond (length nodes) p s)) /\
  let o := snd (sample_with componentSize_bond (length nodes) p s) in
  o_p o = p /\ o_gcc o = gcc s /\ o_wnodes o = nodes /\ eeq (o_wedges o) pre /\ reports_true (length nodes) o
  /\ gcc (fst (sample_with componentSize_bond (length nodes) p s)) = gcc s.
Proof.
  intros NO pre p s [I L O Nd Ed].
  destruct (sample_with_spec componentSize_bond occ (length nodes) p s occ_compr_stable bond_cs_spec I) as (a' & C & E & Ho).
  { intros x. rewrite Nd, O. apply NO. }
  { intros n H. apply O. exact H. }
  cbv zeta in Ho. destruct Ho as (H1 & H2 & H3 & H4 & H5). rewrite E. cbn [fst snd]. split.
  - constructor; cbn [comp gcc ncomp wnodes wedges].
    + apply Inv_compr; assumption.
    + rewrite (c_len _ _ C). exact L.
    + intros x. rewrite (compr_occ _ _ C). apply O.
    + exact Nd.
    + exact Ed.
  - cbv zeta. split; [exact H1|]. split; [exact H2|]. split; [rewrite H3; exact Nd|]. split; [rewrite H4; exact Ed|].
    split; [exact H5 | reflexivity].
Qed.

(* what the property says about one sample of a bond percolation run *)
Definition bond_sample_ok (nodes : list nat) (es : list nedge) (p : Q) (o : obs) : Prop :=
  o_p o = p /\ exists k, least_reach k (length es) p /\ o_wnodes o = nodes /\ eeq (o_wedges o) (firstn k es)
  /\ reports_true (length nodes) o.

Section Bond.
  Variables (nodes : list nat) (es : list nedge) (ps : list Q).
  Hypothesis NO : nodes_ok nodes.
  Hypothesis HN : 1 <= length nodes.
  Hypothesis HM : 1 <= length es.
  Hypothesis VE : Forall (valid_edge (length nodes)) es.
  Hypothesis Srt : StronglySorted Qlt ps.
  Hypothesis Rng : Forall (fun p => (0 <= p)%Q /\ (p <= 1)%Q) ps.

  Let smp := sample_with componentSize_bond (length nodes).

  Theorem bond_samples :
    exists s' os n, percolate occupy_bond smp es ps (init_bond nodes) = (s', os, n)
      /\ Forall2 (bond_sample_ok nodes es) ps os
      /\ RB nodes (firstn n es) s' /\ n <= length es
      /\ StronglySorted Z.le (map o_gcc os).
  Proof.
    assert (Rocc : forall pre e post s, es = pre ++ e :: post -> RB nodes pre s -> RB nodes (pre ++ [e]) (occupy_bond s e)).
    { intros pre e post s Ea Rs. apply RB_occupy; [|exact Rs]. rewrite Forall_forall in VE. apply VE. rewrite Ea.
      apply in_app_iff. right. left. reflexivity. }
    assert (Rsm : forall pre p s, RB nodes pre s -> RB nodes pre (fst (smp p s))).
    { intros pre p s Rs. apply (RB_sample nodes NO pre p s Rs). }
    destruct (percolate_spec occupy_bond smp es (RB nodes) Rocc Rsm HM ps (init_bond nodes) (RB_init nodes HN) Srt Rng)
      as (s' & os & n & E & F & Rn & Ln & _).
    exists s', os, n. split; [exact E|]. split; [|split; [exact Rn|split; [exact Ln|]]].
    - eapply Forall2_weaken; [|exact F]. intros p o (k & s & Lk & Rs & ->).
      destruct (RB_sample nodes NO _ p s Rs) as (_ & H1 & _ & H3 & H4 & H5 & _).
      split; [exact H1|]. exists k. auto.
    - apply (percolate_mono occupy_bond smp gcc o_gcc) with (es := es) (ps := ps) (s0 := init_bond nodes) (s' := s') (n := n); [| | |exact E].
      + intros s [n0 m0]. unfold occupy_bond. destruct (root (comp s) n0) as [a1 nr]. destruct (root a1 m0) as [a2 mr].
        destruct (Nat.eqb mr nr); [cbn; lia|]. destruct (join a2 nr mr). cbn. lia.
      + intros p s. unfold smp, sample_with. destruct (sizes_all _ _ _). reflexivity.
      + intros p s. unfold smp, sample_with. destruct (sizes_all _ _ _). reflexivity.
  Qed.
End Bond.

(* ------------------------------------------------------------------ site percolation *)
(* [RS adj N pre s]: a state of site percolation in which exactly the nodes pre have been occupied *)
Record RS (adj : nat -> list nat) (N : nat) (pre : list nat) (s : state) : Prop := {
  rs_inv : SInv adj s;
  rs_len : length (comp s) = N;
  rs_nodes : wnodes s = pre
}.

Lemma RS_init adj nodes : RS adj (length nodes) [] (init_site nodes).
Proof. constructor; [apply init_site_SInv | apply repeat_length | reflexivity]. Qed.

Lemma RS_occupy adj N pre nr s : adj_ok N adj -> nr < N -> ~ In nr pre -> RS adj N pre s -> RS adj N (pre ++ [nr]) (occupy_site adj s nr).
Proof.
  intros A Lnr Fr [I L Nd]. rewrite <- Nd in Fr.
  destruct (occupy_site_spec N adj s nr A I L Lnr Fr) as (I' & L' & Nd' & _).
  constructor; [exact I' | exact L' | rewrite Nd', Nd; reflexivity].
Qed.

Lemma lt_compr_stable a a' n : compr a a' -> n < length a -> n < length a'.
Proof. intros C H. rewrite (c_len _ _ C). exact H. Qed.

Lemma site_cs_spec a es V n : UF a es -> (forall x, V x <-> occ a x) -> n < length a ->
  exists a' c, componentSize_site a n = (a', c) /\ compr a a' /\ size_spec V es n c.
Proof. apply componentSize_site_spec. Qed.

Definition induced (adj : nat -> list nat) (W : list nat) (E : list nedge) : Prop :=
  (forall x y, In (x, y) E -> In x W /\ In y W /\ In y (adj x)) /\
  (forall x y, In x W -> In y W -> In y (adj x) -> In (x, y) E \/ In (y, x) E).

Lemma RS_sample adj N pre p s : RS adj N pre s ->
  RS adj N pre (fst (sample_with componentSize_site N p s)) /\
  let o := snd (sample_with componentSize_site N p s) in
  o_p o = p /\ o_gcc o = gcc s /\ o_wnodes o = pre /\ induced adj (o_wnodes o) (o_wedges o) /\ reports_true N o.
Proof.
  intros [[I So S1 S2] L Nd].
  destruct (sample_with_spec componentSize_site (fun a n => n < length a) N p s lt_compr_stable site_cs_spec I) as (a' & C & E & Ho).
  { intros x. symmetry. apply So. }
  { intros n H. rewrite L. exact H. }
  cbv zeta in Ho. destruct Ho as (H1 & H2 & H3 & H4 & H5). rewrite E. cbn [fst snd]. split.
  - constructor; [constructor|..]; cbn [comp gcc ncomp wnodes wedges]; auto.
    + apply Inv_compr; assumption.
    + intros n. rewrite (compr_occ _ _ C). apply So.
    + rewrite (c_len _ _ C). exact L.
  - cbv zeta. split; [exact H1|]. split; [exact H2|]. split; [rewrite H3; exact Nd|]. split; [|exact H5].
    rewrite H3, H4. split; assumption.
Qed.

(* what the property says about one sample of a site percolation run *)
Definition site_sample_ok (adj : nat -> list nat) (N : nat) (ns : list nat) (p : Q) (o : obs) : Prop :=
  o_p o = p /\ exists k, least_reach k (length ns) p /\ o_wnodes o = firstn k ns
  /\ induced adj (o_wnodes o) (o_wedges o) /\ reports_true N o.

Section Site.
  Variables (adj : nat -> list nat) (nodes ns : list nat) (ps : list Q).
  Let N := length nodes.
  Hypothesis A : adj_ok N adj.
  Hypothesis ND : NoDup ns.
  Hypothesis VN : Forall (fun n => n < N) ns.
  Hypothesis HM : 1 <= length ns.
  Hypothesis Srt : StronglySorted Qlt ps.
  Hypothesis Rng : Forall (fun p => (0 <= p)%Q /\ (p <= 1)%Q) ps.

  Let smp := sample_with componentSize_site N.

  Theorem site_samples :
    exists s' os n, percolate (occupy_site adj) smp ns ps (init_site nodes) = (s', os, n)
      /\ Forall2 (site_sample_ok adj N ns) ps os
      /\ RS adj N (firstn n ns) s' /\ n <= length ns
      /\ StronglySorted Z.le (map o_gcc os).
  Proof.
    assert (Rocc : forall pre e post s, ns = pre ++ e :: post -> RS adj N pre s -> RS adj N (pre ++ [e]) (occupy_site adj s e)).
    { intros pre e post s Ea Rs. apply RS_occupy; [exact A| | |exact Rs].
      - rewrite Forall_forall in VN. apply VN. rewrite Ea. apply in_app_iff. right. left. reflexivity.
      - rewrite Ea in ND. apply NoDup_remove_2 in ND. intros I. apply ND. apply in_app_iff. left. exact I. }
    assert (Rsm : forall pre p s, RS adj N pre s -> RS adj N pre (fst (smp p s))).
    { intros pre p s Rs. apply (RS_sample adj N pre p s Rs). }
    destruct (percolate_spec (occupy_site adj) smp ns (RS adj N) Rocc Rsm HM ps (init_site nodes) (RS_init adj nodes) Srt Rng)
      as (s' & os & n & E & F & Rn & Ln & _).
    exists s', os, n. split; [exact E|]. split; [|split; [exact Rn|split; [exact Ln|]]].
    - eapply Forall2_weaken; [|exact F]. intros p o (k & s & Lk & Rs & ->).
      destruct (RS_sample adj N _ p s Rs) as (_ & H1 & _ & H3 & H4 & H5).
      split; [exact H1|]. exists k. auto.
    - apply (percolate_mono (occupy_site adj) smp gcc o_gcc) with (es := ns) (ps := ps) (s0 := init_site nodes) (s' := s') (n := n); [| | |exact E].
      + intros s e. unfold occupy_site. destruct (link_nbrs _ _ _ _ _) as [[a cs] nc]. cbn. lia.
      + intros p s. unfold smp, sample_with. destruct (sizes_all _ _ _). reflexivity.
      + intros p s. unfold smp, sample_with. destruct (sizes_all _ _ _). reflexivity.
  Qed.
End Site.

(* ------------------------------------------------------------------ first and last sample *)
Lemma eeq_nil l : eeq l [] -> l = [].
Proof. intros [H _]. destruct l as [|[x y] l]; [reflexivity|]. destruct (H x y (or_introl eq_refl)) as [[]|[]]. Qed.

Lemma conn_nil x y : conn [] x y -> x = y.
Proof. induction 1; try congruence. contradiction. Qed.

Lemma class_size_no_edges (V : nat -> Prop) n : V n -> class_size V [] n 1%Z.
Proof.
  intros Vn. exists [n]. split; [repeat constructor; cbn; tauto|]. split; [|reflexivity].
  intros x. cbn. split.
  - intros [<-|[]]. split; [exact Vn | apply conn_refl].
  - intros [_ C]. left. apply conn_nil. exact C.
Qed.

(* requested point 0: the sample shows the empty configuration *)
Lemma bond_first_empty nodes es p o : nodes_ok nodes -> 1 <= length nodes -> bond_sample_ok nodes es p o -> (p == 0)%Q ->
  o_wnodes o = nodes /\ o_wedges o = [] /\ o_gcc o = 1%Z.
Proof.
  intros NO HN (_ & k & Lk & Hn & He & (G & _ & _)) E0. rewrite (least_reach_0 _ _ _ E0 Lk) in He. cbn in He.
  apply eeq_nil in He. split; [exact Hn|]. split; [exact He|]. rewrite He, Hn in G.
  destruct G as [_ [(n & Vn & Cs)|[_ H]]].
  - apply (class_size_unique _ _ _ _ _ Cs (class_size_no_edges _ _ Vn)).
  - exfalso. apply (H 0). apply NO. exact HN.
Qed.

Lemma site_first_empty adj N ns p o : site_sample_ok adj N ns p o -> (p == 0)%Q ->
  o_wnodes o = [] /\ o_wedges o = [] /\ o_gcc o = 0%Z /\ o_ncomp o = 0%Z.
Proof.
  intros (_ & k & Lk & Hn & [H1 _] & (G & (reps & _ & Hr & _ & _ & Ek) & _)) E0.
  rewrite (least_reach_0 _ _ _ E0 Lk) in Hn. cbn in Hn. rewrite Hn in *. split; [reflexivity|]. split; [|split].
  - destruct (o_wedges o) as [|[x y] l]; [reflexivity|]. destruct (H1 x y (or_introl eq_refl)) as [[] _].
  - destruct G as [_ [(n & [] & _)|[E _]]]. exact E.
  - destruct reps as [|r reps]; [exact Ek|]. destruct (Hr r (or_introl eq_refl)).
Qed.

(* requested point 1: the sample shows the complete network *)
Lemma bond_last_complete nodes es p o : 1 <= length es -> bond_sample_ok nodes es p o -> (p == 1)%Q ->
  o_wnodes o = nodes /\ eeq (o_wedges o) es.
Proof.
  intros HM (_ & k & Lk & Hn & He & _) E1. rewrite (least_reach_1 _ _ _ HM E1 Lk), firstn_all in He. auto.
Qed.

Lemma site_last_complete adj N ns p o : 1 <= length ns -> site_sample_ok adj N ns p o -> (p == 1)%Q ->
  o_wnodes o = ns /\ induced adj ns (o_wedges o).
Proof.
  intros HM (_ & k & Lk & Hn & Hi & _) E1. rewrite (least_reach_1 _ _ _ HM E1 Lk), firstn_all in Hn.
  rewrite Hn in Hi. auto.
Qed.

(* componentSize of a site that has not been occupied *)
Lemma site_unoccupied_zero adj s n : SInv adj s -> n < length (comp s) -> ~ In n (wnodes s) ->
  componentSize_site (comp s) n = (comp s, 0%Z).
Proof.
  intros I L H. unfold componentSize_site. destruct (Z.eqb_spec (get (comp s) n) (unocc (comp s))) as [E|Ne]; [reflexivity|].
  exfalso. apply H. apply (si_occ _ _ I). split; assumption.
Qed.

(* ------------------------------------------------------------------ do(): the shuffled order, then percolate *)
Lemma root_preserves a es n : UF a es -> occ a n ->
  exists a' r d, root a n = (a', r) /\ path a n r d /\ is_root a' r /\ UF a' es /\ length a' = length a.
Proof.
  intros U O. destruct (root_spec a es n U O) as (a' & r & d & E & P & C). exists a', r, d.
  split; [exact E|]. split; [exact P|]. split; [apply (compr_root _ _ C); apply (path_lt _ _ _ _ P)|].
  split; [eapply UF_compr; eauto | apply (c_len _ _ C)].
Qed.

Lemma componentSize_bond_true a es V n : UF a es -> (forall x, V x <-> occ a x) -> occ a n ->
  exists a' c, componentSize_bond a n = (a', c) /\ UF a' es /\ class_size V es n c.
Proof.
  intros U HV O. destruct (componentSize_bond_spec a es V n U HV O) as (a' & c & E & C & S).
  exists a', c. split; [exact E|]. split; [eapply UF_compr; eauto | exact S].
Qed.

Lemma series_labels os ps (P : Q -> obs -> Prop) : (forall p o, P p o -> o_p o = p) -> Forall2 P ps os -> map fst (series os) = ps.
Proof. intros H F. induction F as [|p o ps os Hpo F IH]; [reflexivity|]. cbn. rewrite (H _ _ Hpo). f_equal. exact IH. Qed.

Lemma series_gcc os : map snd (series os) = map o_gcc os.
Proof. unfold series. rewrite map_map. reflexivity. Qed.

Lemma apply_perm_len {A} (d : A) l perm : is_perm perm (length l) -> length (apply_perm d l perm) = length l.
Proof. intros P. unfold apply_perm. rewrite map_length, (Permutation_length P), seq_length. reflexivity. Qed.

Theorem do_bond_samples nodes es0 perm ps :
  nodes_ok nodes -> 1 <= length nodes -> Forall (valid_edge (length nodes)) es0 -> 1 <= length es0 ->
  is_perm perm (length es0) -> StronglySorted Qlt ps -> Forall (fun p => (0 <= p)%Q /\ (p <= 1)%Q) ps ->
  let es := apply_perm (0, 0) es0 perm in
  exists s' os n, do_bond nodes es0 perm ps = (s', os, n)
    /\ Permutation es es0
    /\ Forall2 (bond_sample_ok nodes es) ps os
    /\ map fst (series os) = ps
    /\ StronglySorted Z.le (map snd (series os)).
Proof.
  intros NO HN VE HM IP Srt Rng es. unfold do_bond. fold es.
  assert (VE' : Forall (valid_edge (length nodes)) es) by (apply apply_perm_Forall; [split; cbn; lia | exact VE]).
  assert (HM' : 1 <= length es) by (unfold es; rewrite apply_perm_len by exact IP; exact HM).
  destruct (bond_samples nodes es ps NO HN HM' VE' Srt Rng) as (s' & os & n & E & F & _ & _ & Mo).
  exists s', os, n. split; [exact E|]. split; [apply apply_perm_Permutation; exact IP|]. split; [exact F|].
  split; [eapply series_labels; [|exact F]; intros p o H; apply H | rewrite series_gcc; exact Mo].
Qed.

Theorem do_site_samples adj nodes perm ps :
  nodes_ok nodes -> NoDup nodes -> 1 <= length nodes -> adj_ok (length nodes) adj ->
  is_perm perm (length nodes) -> StronglySorted Qlt ps -> Forall (fun p => (0 <= p)%Q /\ (p <= 1)%Q) ps ->
  let ns := apply_perm 0 nodes perm in
  exists s' os n, do_site nodes adj perm ps = (s', os, n)
    /\ Permutation ns nodes
    /\ Forall2 (site_sample_ok adj (length nodes) ns) ps os
    /\ map fst (series os) = ps
    /\ StronglySorted Z.le (map snd (series os)).
Proof.
  intros NO ND HN A IP Srt Rng ns. unfold do_site. fold ns.
  pose proof (apply_perm_Permutation 0 nodes perm IP) as Pn. fold ns in Pn.
  assert (ND' : NoDup ns) by (eapply Permutation_NoDup; [apply Permutation_sym; exact Pn | exact ND]).
  assert (VN : Forall (fun n => n < length nodes) ns).
  { apply Forall_forall. intros n I. apply NO. eapply Permutation_in; eauto. }
  assert (HM' : 1 <= length ns) by (rewrite (Permutation_length Pn); exact HN).
  destruct (site_samples adj nodes ns ps A ND' VN HM' Srt Rng) as (s' & os & n & E & F & _ & _ & Mo).
  exists s', os, n. split; [exact E|]. split; [exact Pn|]. split; [exact F|].
  split; [eapply series_labels; [|exact F]; intros p o H; apply H | rewrite series_gcc; exact Mo].
Qed.

(* ------------------------------------------------------------------ the hypotheses are satisfiable *)
Lemma is_perm_by_In perm n : NoDup perm -> (forall x, In x perm <-> x < n) -> is_perm perm n.
Proof.
  intros ND H. apply NoDup_Permutation; [exact ND | apply seq_NoDup|]. intros x. rewrite H, in_seq. lia.
Qed.

Lemma example_bond :
  let nodes := [0; 1; 2; 3] in let es0 := [(0, 1); (1, 2); (0, 2); (2, 3)] in let perm := [2; 0; 3; 1] in
  let ps := [0; 1 # 2; 1]%Q in
  nodes_ok nodes /\ Forall (valid_edge (length nodes)) es0 /\ is_perm perm (length es0)
  /\ StronglySorted Qlt ps /\ Forall (fun p => (0 <= p)%Q /\ (p <= 1)%Q) ps
  /\ Inv (init_bond nodes)
  /\ (let '(_, os, n) := do_bond nodes es0 perm ps in (series os, map o_ncomp os, map o_sizes os, n))
     = ([(0, 1%Z); (1 # 2, 3%Z); (1, 4%Z)]%Q, [4; 2; 1]%Z, [[1; 1; 1; 1]; [3; 3; 3; 1]; [4; 4; 4; 4]]%Z, 4).
Proof.
  cbv zeta. split; [|split; [|split; [|split; [|split; [|split]]]]].
  - intros n. cbn. lia.
  - repeat constructor; cbn; lia.
  - apply is_perm_by_In; [repeat constructor; cbn; lia | intros x; cbn; lia].
  - repeat constructor; unfold Qlt; cbn; lia.
  - repeat constructor; unfold Qle; cbn; lia.
  - apply init_bond_Inv. cbn. lia.
  - vm_compute. reflexivity.
Qed.

Lemma example_site :
  let nodes := [0; 1; 2; 3] in let adj := fun n => nth n [[1; 2]; [0; 2]; [1; 0; 3]; [2]] [] in let perm := [3; 0; 2; 1] in
  let ps := [1 # 4; 3 # 4]%Q in
  nodes_ok nodes /\ NoDup nodes /\ adj_ok (length nodes) adj /\ is_perm perm (length nodes)
  /\ StronglySorted Qlt ps /\ Forall (fun p => (0 <= p)%Q /\ (p <= 1)%Q) ps
  /\ (let '(_, os, n) := do_site nodes adj perm ps in (series os, map o_ncomp os, map o_sizes os, map o_wnodes os, n))
     = ([(1 # 4, 1%Z); (3 # 4, 3%Z)]%Q, [1; 1]%Z, [[0; 0; 0; 1]; [3; 0; 3; 3]]%Z, [[3]; [3; 0; 2]], 3).
Proof.
  cbv zeta. split; [|split; [|split; [|split; [|split; [|split]]]]].
  - intros n. cbn. lia.
  - repeat constructor; cbn; lia.
  - intros x y. do 4 (destruct x as [|x]; [cbn; intros H; repeat (destruct H as [<-|H]); try contradiction; (split; [lia | cbn; tauto])|]).
    cbn. destruct x; intros [].
  - apply is_perm_by_In; [repeat constructor; cbn; lia | intros x; cbn; lia].
  - repeat constructor; unfold Qlt; cbn; lia.
  - repeat constructor; unfold Qle; cbn; lia.
  - vm_compute. reflexivity.
Qed.

(* ------------------------------------------------------------------ the GCC series never decreases (no side conditions) *)
Lemma occupy_bond_gcc s e : (gcc s <= gcc (occupy_bond s e))%Z.
Proof.
  destruct e as [n0 m0]. unfold occupy_bond. destruct (root (comp s) n0) as [a1 nr]. destruct (root a1 m0) as [a2 mr].
  destruct (Nat.eqb mr nr); [cbn; lia|]. destruct (join a2 nr mr). cbn. lia.
Qed.

Lemma occupy_site_gcc adj s e : (gcc s <= gcc (occupy_site adj s e))%Z.
Proof. unfold occupy_site. destruct (link_nbrs _ _ _ _ _) as [[a cs] nc]. cbn. lia. Qed.

Lemma sample_with_gcc cs N p s : gcc (fst (sample_with cs N p s)) = gcc s /\ o_gcc (snd (sample_with cs N p s)) = gcc s.
Proof. unfold sample_with. destruct (sizes_all _ _ _). split; reflexivity. Qed.

Theorem do_bond_monotone nodes es0 perm ps s' os n : do_bond nodes es0 perm ps = (s', os, n) ->
  StronglySorted Z.le (map snd (series os)).
Proof.
  unfold do_bond. intros E. rewrite series_gcc.
  apply (percolate_mono occupy_bond (sample_with componentSize_bond (length nodes)) gcc o_gcc occupy_bond_gcc
           (fun p s => proj1 (sample_with_gcc _ _ p s)) (fun p s => proj2 (sample_with_gcc _ _ p s)) _ _ _ _ _ _ E).
Qed.

Theorem do_site_monotone nodes adj perm ps s' os n : do_site nodes adj perm ps = (s', os, n) ->
  StronglySorted Z.le (map snd (series os)).
Proof.
  unfold do_site. intros E. rewrite series_gcc.
  apply (percolate_mono (occupy_site adj) (sample_with componentSize_site (length nodes)) gcc o_gcc (occupy_site_gcc adj)
           (fun p s => proj1 (sample_with_gcc _ _ p s)) (fun p s => proj2 (sample_with_gcc _ _ p s)) _ _ _ _ _ _ E).
Qed.
