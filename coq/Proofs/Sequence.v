(* The combinator algebra of ProcessSequence (Model/Sequence.v): every forwarded operation,
   maximumTime, atEquilibrium and results of an arbitrarily nested sequence are the
   corresponding fold over the flattening all_processes. *)
From Coq Require Import List ZArith QArith Bool Arith String Lia.
From EpyV Require Import Model.Kernel Model.Sequence.
Import ListNotations.
Close Scope Q_scope.
Open Scope list_scope.

(* ------------------------------------------------------------------ induction on nested trees *)
Section TreeInd.
Variable P : Type.
Variable R : ptree P -> Prop.
Hypothesis HL : forall p, R (Leaf p).
Hypothesis HS : forall cs, Forall R cs -> R (Seq cs).
Hypothesis HN : forall cs, Forall (fun nc => R (snd nc)) cs -> R (NamedSeq cs).
Fixpoint ptree_ind' (t : ptree P) : R t :=
  match t with
  | Leaf p => HL p
  | Seq cs => HS cs ((fix go (l : list (ptree P)) : Forall R l :=
                        match l with
                        | [] => Forall_nil _
                        | c :: l' => Forall_cons c (ptree_ind' c) (go l')
                        end) cs)
  | NamedSeq cs => HN cs ((fix go (l : list (string * ptree P)) : Forall (fun nc => R (snd nc)) l :=
                             match l with
                             | [] => Forall_nil _
                             | nc :: l' => Forall_cons nc (ptree_ind' (snd nc)) (go l')
                             end) cs)
  end.
End TreeInd.

(* ------------------------------------------------------------------ list lemmas *)
Lemma fold_left_flat_map {A B S} (g : S -> B -> S) (h : A -> list B) (l : list A) (s : S) :
  fold_left g (flat_map h l) s = fold_left (fun s c => fold_left g (h c) s) l s.
Proof.
  revert s. induction l as [|c l IH]; intro s; simpl; [reflexivity|].
  rewrite fold_left_app. apply IH.
Qed.

Lemma fold_left_ext_Forall {A S} (f g : S -> A -> S) (l : list A) :
  Forall (fun c => forall s, f s c = g s c) l -> forall s, fold_left f l s = fold_left g l s.
Proof.
  induction 1 as [|c l Hc _ IH]; intro s; simpl; [reflexivity|]. rewrite Hc. apply IH.
Qed.

Lemma forallb_flat_map {A B} (f : B -> bool) (h : A -> list B) (l : list A) :
  forallb f (flat_map h l) = forallb (fun c => forallb f (h c)) l.
Proof.
  induction l as [|c l IH]; simpl; [reflexivity|]. rewrite forallb_app, IH. reflexivity.
Qed.

Lemma forallb_ext_Forall {A} (f g : A -> bool) (l : list A) :
  Forall (fun c => f c = g c) l -> forallb f l = forallb g l.
Proof. induction 1 as [|c l Hc _ IH]; simpl; [reflexivity|]. rewrite Hc, IH. reflexivity. Qed.

(* ------------------------------------------------------------------ forwarded operations *)
Theorem forward_flat {P S} (f : P -> S -> S) (t : ptree P) :
  forall s, forward f t s = fold_left (fun s p => f p s) (all_processes t) s.
Proof.
  induction t as [p|cs IH|cs IH] using ptree_ind'; intro s; simpl.
  - reflexivity.
  - rewrite fold_left_flat_map. apply fold_left_ext_Forall.
    eapply Forall_impl; [|exact IH]. intros c Hc s'. apply Hc.
  - rewrite fold_left_flat_map. apply fold_left_ext_Forall.
    eapply Forall_impl; [|exact IH]. intros c Hc s'. apply Hc.
Qed.

(* ------------------------------------------------------------------ atEquilibrium *)
Theorem at_equilibrium_flat {P} (equil : P -> Q -> bool) (t : ptree P) (tm : Q) :
  at_equilibrium equil t tm = forallb (fun p => equil p tm) (all_processes t).
Proof.
  induction t as [p|cs IH|cs IH] using ptree_ind'; simpl.
  - rewrite andb_true_r. reflexivity.
  - rewrite forallb_flat_map. apply forallb_ext_Forall. exact IH.
  - rewrite forallb_flat_map. apply forallb_ext_Forall. exact IH.
Qed.

(* ------------------------------------------------------------------ maximumTime *)
Lemma pymax_cases a b : (pymax a b = a /\ (b <= a)%Q) \/ (pymax a b = b /\ (a < b)%Q).
Proof.
  unfold pymax, Qltb. destruct (Qle_bool b a) eqn:E; simpl.
  - left. split; [reflexivity|]. apply Qle_bool_iff. exact E.
  - right. split; [reflexivity|]. apply Qnot_le_lt. intro H. apply Qle_bool_iff in H. congruence.
Qed.
Lemma pymax_ge_l a b : (a <= pymax a b)%Q.
Proof. destruct (pymax_cases a b) as [[-> H]|[-> H]]; [apply Qle_refl|apply Qlt_le_weak, H]. Qed.
Lemma pymax_ge_r a b : (b <= pymax a b)%Q.
Proof. destruct (pymax_cases a b) as [[-> H]|[-> H]]; [exact H|apply Qle_refl]. Qed.

(* the running maximum over a list of values *)
Lemma fold_pymax_spec {A} (g : A -> Q) (l : list A) (a : Q) :
  let r := fold_left (fun a c => pymax a (g c)) l a in
  (a <= r)%Q /\ (forall c, In c l -> (g c <= r)%Q) /\ (r = a \/ exists c, In c l /\ r = g c).
Proof.
  revert a. induction l as [|c l IH]; intro a; simpl.
  - split; [apply Qle_refl|]. split; [intros c []|]. left. reflexivity.
  - destruct (IH (pymax a (g c))) as (H1 & H2 & H3). split; [|split].
    + eapply Qle_trans; [apply pymax_ge_l|exact H1].
    + intros c' [<-|Hin]; [eapply Qle_trans; [apply pymax_ge_r|exact H1]|apply H2, Hin].
    + destruct H3 as [H3|(c' & Hin & H3)].
      * destruct (pymax_cases a (g c)) as [[E _]|[E _]].
        -- left. exact (eq_trans H3 E).
        -- right. exists c. split; [left; reflexivity|exact (eq_trans H3 E)].
      * right. exists c'. split; [right; exact Hin|exact H3].
Qed.

Definition is_seq {P} (t : ptree P) : bool := match t with Leaf _ => false | _ => true end.

Theorem maximum_time_spec {P} (mt : P -> Q) (t : ptree P) :
  (forall p, In p (all_processes t) -> (mt p <= maximum_time mt t)%Q)
  /\ (is_seq t = true -> (0 <= maximum_time mt t)%Q)
  /\ ((is_seq t = true /\ maximum_time mt t = 0%Q) \/ exists p, In p (all_processes t) /\ maximum_time mt t = mt p).
Proof.
  induction t as [p|cs IH|cs IH] using ptree_ind'.
  - simpl. split; [intros p' [<-|[]]; apply Qle_refl|]. split; [discriminate|].
    right. exists p. split; [left; reflexivity|reflexivity].
  - cbn [maximum_time all_processes is_seq].
    destruct (fold_pymax_spec (maximum_time mt) cs 0%Q) as (H1 & H2 & H3). cbv zeta in H1, H2, H3.
    split; [|split].
    + intros p Hp. apply in_flat_map in Hp. destruct Hp as (c & Hc & Hp).
      rewrite Forall_forall in IH. destruct (IH c Hc) as (Hle & _).
      eapply Qle_trans; [apply Hle, Hp|apply H2, Hc].
    + intros _. exact H1.
    + destruct H3 as [H3|(c & Hc & H3)]; [left; split; [reflexivity|exact H3]|].
      rewrite Forall_forall in IH. destruct (IH c Hc) as (_ & _ & [[_ E]|(p & Hp & E)]).
      * left. split; [reflexivity|]. rewrite H3. exact E.
      * right. exists p. split; [apply in_flat_map; exists c; split; assumption|]. rewrite H3. exact E.
  - cbn [maximum_time all_processes is_seq].
    destruct (fold_pymax_spec (fun nc : string * ptree P => maximum_time mt (snd nc)) cs 0%Q) as (H1 & H2 & H3).
    cbv zeta in H1, H2, H3. split; [|split].
    + intros p Hp. apply in_flat_map in Hp. destruct Hp as (c & Hc & Hp).
      rewrite Forall_forall in IH. destruct (IH c Hc) as (Hle & _).
      eapply Qle_trans; [apply Hle, Hp|apply (H2 c), Hc].
    + intros _. exact H1.
    + destruct H3 as [H3|(c & Hc & H3)]; [left; split; [reflexivity|exact H3]|].
      rewrite Forall_forall in IH. destruct (IH c Hc) as (_ & _ & [[_ E]|(p & Hp & E)]).
      * left. split; [reflexivity|]. rewrite H3. exact E.
      * right. exists p. split; [apply in_flat_map; exists c; split; assumption|]. rewrite H3. exact E.
Qed.

(* setMaximumTime(T) forwarded to every component, then maximumTime() *)
Lemma maximum_time_const {P} (T : Q) (t : ptree P) :
  (0 <= T)%Q -> all_processes t <> [] -> (maximum_time (fun _ => T) t == T)%Q.
Proof.
  intros HT Hne. destruct (maximum_time_spec (fun _ : P => T) t) as (H1 & H2 & H3).
  destruct H3 as [[_ E]|(p & _ & E)]; [|rewrite E; reflexivity].
  destruct (all_processes t) as [|p l] eqn:Ea; [congruence|].
  apply Qle_antisym; [|apply (H1 p); left; reflexivity]. rewrite E. exact HT.
Qed.

(* ------------------------------------------------------------------ dicts *)
Section DictLemmas.
Context {V : Type}.
Implicit Types d : dict V.

Lemma dict_get_set k k' v d :
  dict_get k (dict_set k' v d) = if String.eqb k k' then Some v else dict_get k d.
Proof.
  induction d as [|[k0 v0] d IH]; simpl.
  - destruct (String.eqb k k'); reflexivity.
  - destruct (String.eqb k' k0) eqn:E; simpl.
    + apply String.eqb_eq in E. subst k0. destruct (String.eqb k k'); reflexivity.
    + destruct (String.eqb k k0) eqn:E0.
      * apply String.eqb_eq in E0. subst k0. rewrite String.eqb_sym, E. reflexivity.
      * exact IH.
Qed.

Lemma dict_get_None k d : dict_get k d = None <-> ~ In k (dict_keys d).
Proof.
  induction d as [|[k0 v0] d IH]; simpl; [tauto|].
  destruct (String.eqb k k0) eqn:E.
  - apply String.eqb_eq in E. subst. split; [discriminate|]. intros H. exfalso. apply H. left. reflexivity.
  - apply String.eqb_neq in E. rewrite IH. split; [intros H [H'|H']; [congruence|tauto]|tauto].
Qed.

Lemma dict_keys_set k v d :
  dict_keys (dict_set k v d) = if dict_has k d then dict_keys d else dict_keys d ++ [k].
Proof.
  unfold dict_has. induction d as [|[k0 v0] d IH]; simpl; [reflexivity|].
  destruct (String.eqb k k0) eqn:E; simpl; [reflexivity|].
  rewrite IH. unfold dict_keys. destruct (dict_get k d); reflexivity.
Qed.

Lemma dict_set_NoDup k v d : NoDup (dict_keys d) -> NoDup (dict_keys (dict_set k v d)).
Proof.
  intro H. rewrite dict_keys_set. unfold dict_has. destruct (dict_get k d) eqn:E; [exact H|].
  apply dict_get_None in E.
  apply NoDup_rev in H. rewrite <- (rev_involutive (dict_keys d ++ [k])). apply NoDup_rev.
  rewrite rev_app_distr. simpl. constructor; [rewrite <- in_rev; exact E|exact H].
Qed.

Lemma dict_update_NoDup d d2 : NoDup (dict_keys d) -> NoDup (dict_keys (dict_update d d2)).
Proof.
  unfold dict_update. revert d. induction d2 as [|[k v] d2 IH]; intros d H; simpl; [exact H|].
  apply IH, dict_set_NoDup, H.
Qed.

(* d.update(d2): the entries of d2 override those of d *)
Lemma dict_get_update k d d2 : NoDup (dict_keys d2) ->
  dict_get k (dict_update d d2) = match dict_get k d2 with Some v => Some v | None => dict_get k d end.
Proof.
  unfold dict_update. revert d. induction d2 as [|[k' v] d2 IH]; intros d H; simpl; [reflexivity|].
  inversion H as [|? ? Hnotin Hnd]; subst. rewrite (IH _ Hnd), dict_get_set.
  destruct (String.eqb k k') eqn:E.
  - apply String.eqb_eq in E. subst k'. apply dict_get_None in Hnotin. rewrite Hnotin. reflexivity.
  - reflexivity.
Qed.
End DictLemmas.

(* ------------------------------------------------------------------ results *)
Section ResultsMerge.
Context {P V : Type}.
Variable res : P -> dict V.
Hypothesis res_dict : forall p, NoDup (dict_keys (res p)).   (* a Python dict has distinct keys *)

(* scanning the components left to right, a later one that reports k replaces what is there *)
Definition merged_from (k : string) (acc : option V) (ps : list P) : option V :=
  fold_left (fun acc p => match dict_get k (res p) with Some v => Some v | None => acc end) ps acc.

Lemma merged_from_acc k acc ps :
  merged_from k acc ps = match merged_from k None ps with Some v => Some v | None => acc end.
Proof.
  unfold merged_from. revert acc. induction ps as [|p ps IH]; intro acc; simpl; [reflexivity|].
  rewrite IH. rewrite (IH (match dict_get k (res p) with Some v => Some v | None => None end)).
  destruct (fold_left _ ps None); [reflexivity|]. destruct (dict_get k (res p)); reflexivity.
Qed.

Lemma merged_from_app k acc ps1 ps2 :
  merged_from k acc (ps1 ++ ps2) = merged_from k (merged_from k acc ps1) ps2.
Proof. unfold merged_from. apply fold_left_app. Qed.

Lemma results_spec (t : ptree P) :
  NoDup (dict_keys (results res t))
  /\ forall k, dict_get k (results res t) = merged_from k None (all_processes t).
Proof.
  induction t as [p|cs IH|cs IH] using ptree_ind'.
  - simpl. split; [apply res_dict|]. intro k. unfold merged_from. simpl. destruct (dict_get k (res p)); reflexivity.
  - cbn [results all_processes].
    assert (G : forall r0, NoDup (dict_keys r0) ->
              NoDup (dict_keys (fold_left (fun r c => dict_update r (results res c)) cs r0))
              /\ forall k, dict_get k (fold_left (fun r c => dict_update r (results res c)) cs r0)
                           = merged_from k (dict_get k r0) (flat_map all_processes cs)).
    { induction IH as [|c cs [Hnd Hc] _ IHl]; intros r0 H0; simpl; [split; [exact H0|reflexivity]|].
      destruct (IHl (dict_update r0 (results res c)) (dict_update_NoDup _ _ H0)) as (G1 & G2).
      split; [exact G1|]. intro k. rewrite G2, merged_from_app, (dict_get_update _ _ _ Hnd), Hc.
      rewrite (merged_from_acc k (dict_get k r0)). reflexivity. }
    destruct (G [] (NoDup_nil _)) as (G1 & G2). split; [exact G1|exact G2].
  - cbn [results all_processes].
    assert (G : forall r0, NoDup (dict_keys r0) ->
              NoDup (dict_keys (fold_left (fun r (nc : string * ptree P) => dict_update r (results res (snd nc))) cs r0))
              /\ forall k, dict_get k (fold_left (fun r (nc : string * ptree P) => dict_update r (results res (snd nc))) cs r0)
                           = merged_from k (dict_get k r0) (flat_map (fun nc => all_processes (snd nc)) cs)).
    { induction IH as [|c cs [Hnd Hc] _ IHl]; intros r0 H0; simpl; [split; [exact H0|reflexivity]|].
      destruct (IHl (dict_update r0 (results res (snd c))) (dict_update_NoDup _ _ H0)) as (G1 & G2).
      split; [exact G1|]. intro k. rewrite G2, merged_from_app, (dict_get_update _ _ _ Hnd), Hc.
      rewrite (merged_from_acc k (dict_get k r0)). reflexivity. }
    destruct (G [] (NoDup_nil _)) as (G1 & G2). split; [exact G1|exact G2].
Qed.

(* the keys are the union of the components' keys *)
Lemma merged_from_None k ps :
  merged_from k None ps = None <-> forall p, In p ps -> dict_get k (res p) = None.
Proof.
  induction ps as [|p ps IH] using rev_ind.
  - simpl. split; [intros _ p []|reflexivity].
  - rewrite merged_from_app. unfold merged_from at 1. simpl. split.
    + intros H q Hq. destruct (dict_get k (res p)) eqn:E; [discriminate|].
      apply in_app_or in Hq. destruct Hq as [Hq|[<-|[]]]; [apply IH; assumption|exact E].
    + intro H. rewrite (H p) by (apply in_or_app; right; left; reflexivity).
      apply IH. intros q Hq. apply H, in_or_app. left. exact Hq.
Qed.

Theorem results_keys (t : ptree P) (k : string) :
  In k (dict_keys (results res t)) <-> exists p, In p (all_processes t) /\ In k (dict_keys (res p)).
Proof.
  destruct (results_spec t) as (_ & Hget).
  split.
  - intro Hin. destruct (merged_from k None (all_processes t)) eqn:E.
    + assert (Hn : ~ (forall p, In p (all_processes t) -> dict_get k (res p) = None)).
      { intro H. apply merged_from_None in H. congruence. }
      clear E Hin Hget. induction (all_processes t) as [|p ps IH].
      * exfalso. apply Hn. intros p [].
      * destruct (dict_get k (res p)) eqn:E.
        -- exists p. split; [left; reflexivity|]. destruct (In_dec string_dec k (dict_keys (res p))) as [H|H]; [exact H|].
           apply dict_get_None in H. congruence.
        -- destruct IH as (q & Hq & Hk).
           ++ intro H. apply Hn. intros q [<-|Hq]; [exact E|apply H, Hq].
           ++ exists q. split; [right; exact Hq|exact Hk].
    + rewrite <- Hget in E. apply dict_get_None in E. contradiction.
  - intros (p & Hp & Hk). destruct (In_dec string_dec k (dict_keys (results res t))) as [H|H]; [exact H|].
    apply dict_get_None in H. rewrite Hget in H. rewrite merged_from_None in H.
    specialize (H p Hp). apply dict_get_None in H. contradiction.
Qed.

(* the last component (in allProcesses order) that reports k wins *)
Theorem results_later_wins (t : ptree P) (k : string) ps1 p ps2 v :
  all_processes t = ps1 ++ p :: ps2 -> dict_get k (res p) = Some v ->
  (forall q, In q ps2 -> dict_get k (res q) = None) ->
  dict_get k (results res t) = Some v.
Proof.
  intros Hall Hp Hlater. destruct (results_spec t) as (_ & Hget).
  rewrite Hget, Hall, merged_from_app. change (p :: ps2) with ([p] ++ ps2). rewrite merged_from_app.
  rewrite (merged_from_acc k _ ps2). apply merged_from_None in Hlater. rewrite Hlater.
  unfold merged_from. simpl. rewrite Hp. reflexivity.
Qed.
End ResultsMerge.
