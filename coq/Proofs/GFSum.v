(* Finite sums over Q (up to ==), list sums, and the two reindexing identities used for
   Cauchy products: the triangle rearrangement and the Leibniz (product) rule. *)
From Coq Require Import List ZArith QArith Bool Arith Lia Setoid Morphisms.
From EpyV Require Import Model.GF.
Import ListNotations.
Open Scope Q_scope.

(* ------------------------------------------------------------ qn, qpow *)

Lemma qn_0 : qn 0 == 0.
Proof. reflexivity. Qed.
Lemma qn_S n : qn (S n) == qn n + 1.
Proof. unfold qn. rewrite Nat2Z.inj_succ, <- Z.add_1_r, inject_Z_plus. reflexivity. Qed.
Lemma qn_add a b : qn (a + b) == qn a + qn b.
Proof. unfold qn. rewrite Nat2Z.inj_add, inject_Z_plus. reflexivity. Qed.
Lemma qn_mul a b : qn (a * b) == qn a * qn b.
Proof. unfold qn. rewrite Nat2Z.inj_mul, inject_Z_mult. reflexivity. Qed.
Lemma qn_pos n : (0 < n)%nat -> ~ qn n == 0.
Proof. unfold qn, Qeq. simpl. lia. Qed.

Lemma qpow_add x a b : qpow x (a + b) == qpow x a * qpow x b.
Proof. induction a; simpl; [ring | rewrite IHa; ring]. Qed.

(* ------------------------------------------------------------ sumn *)

(* sum of f 0 .. f (n-1) *)
Fixpoint sumn (n : nat) (f : nat -> Q) : Q :=
  match n with O => 0 | S n' => sumn n' f + f n' end.

Lemma sumn_ext n f g : (forall i, (i < n)%nat -> f i == g i) -> sumn n f == sumn n g.
Proof.
  induction n; intros H; simpl; [reflexivity|].
  rewrite IHn by (intros; apply H; lia). rewrite (H n) by lia. reflexivity.
Qed.

Lemma sumn_add n f g : sumn n (fun i => f i + g i) == sumn n f + sumn n g.
Proof. induction n; simpl; [ring | rewrite IHn; ring]. Qed.

Lemma sumn_scale n c f : sumn n (fun i => c * f i) == c * sumn n f.
Proof. induction n; simpl; [ring | rewrite IHn; ring]. Qed.

Lemma sumn_scale_r n c f : sumn n (fun i => f i * c) == sumn n f * c.
Proof. induction n; simpl; [ring | rewrite IHn; ring]. Qed.

Lemma sumn_zero n f : (forall i, (i < n)%nat -> f i == 0) -> sumn n f == 0.
Proof.
  induction n; intros H; simpl; [reflexivity|].
  rewrite IHn by (intros; apply H; lia). rewrite (H n) by lia. ring.
Qed.

Lemma sumn_shift n f : sumn (S n) f == f O + sumn n (fun i => f (S i)).
Proof. induction n; [simpl; ring|]. change (sumn (S (S n)) f) with (sumn (S n) f + f (S n)). rewrite IHn. simpl. ring. Qed.

Lemma sumn_extend n m f : (n <= m)%nat -> (forall i, (n <= i < m)%nat -> f i == 0) -> sumn m f == sumn n f.
Proof.
  intros Hle. induction Hle; intros Hz; [reflexivity|]. simpl.
  rewrite IHHle by (intros; apply Hz; lia). rewrite (Hz m) by lia. ring.
Qed.

Lemma sumn_rev n f : sumn n f == sumn n (fun i => f (n - 1 - i)%nat).
Proof.
  revert f. induction n; intros f; [reflexivity|].
  rewrite (sumn_shift n (fun i => f (S n - 1 - i)%nat)).
  change (sumn (S n) f) with (sumn n f + f n).
  rewrite (IHn f). replace (S n - 1 - 0)%nat with n by lia.
  rewrite Qplus_comm. apply Qplus_comp; [reflexivity|].
  apply sumn_ext. intros i Hi. replace (S n - 1 - S i)%nat with (n - 1 - i)%nat by lia. reflexivity.
Qed.

(* Σ_{i<=N} Σ_{j<=N-i} F i j  ==  Σ_{n<=N} Σ_{i<=n} F i (n-i) *)
Lemma sumn_triangle (F : nat -> nat -> Q) N :
  sumn (S N) (fun i => sumn (S (N - i)) (fun j => F i j))
  == sumn (S N) (fun n => sumn (S n) (fun i => F i (n - i)%nat)).
Proof.
  induction N; [simpl; ring|].
  change (sumn (S (S N)) (fun n => sumn (S n) (fun i => F i (n - i)%nat)))
    with (sumn (S N) (fun n => sumn (S n) (fun i => F i (n - i)%nat)) + sumn (S (S N)) (fun i => F i (S N - i)%nat)).
  rewrite <- IHN.
  change (sumn (S (S N)) (fun i => sumn (S (S N - i)) (fun j => F i j)))
    with (sumn (S N) (fun i => sumn (S (S N - i)) (fun j => F i j)) + sumn (S (S N - S N)) (fun j => F (S N) j)).
  rewrite (sumn_ext (S N) (fun i => sumn (S (S N - i)) (fun j => F i j))
             (fun i => sumn (S (N - i)) (fun j => F i j) + F i (S N - i)%nat)).
  2:{ intros i Hi. replace (S N - i)%nat with (S (N - i)) by lia. reflexivity. }
  rewrite sumn_add.
  change (sumn (S (S N)) (fun i => F i (S N - i)%nat)) with (sumn (S N) (fun i => F i (S N - i)%nat) + F (S N) (S N - S N)%nat).
  replace (S N - S N)%nat with O by lia. simpl. ring.
Qed.

(* ------------------------------------------------------------ list sums and fold_left *)

Definition lsum (l : list Q) : Q := fold_right Qplus 0 l.

Lemma lsum_app a b : lsum (a ++ b) == lsum a + lsum b.
Proof. induction a; simpl; [ring | rewrite IHa; ring]. Qed.

Lemma fold_left_sum {A} (F : A -> Q) l a : fold_left (fun v i => v + F i) l a == a + lsum (map F l).
Proof. revert a. induction l; intros acc; simpl; [ring | rewrite IHl; ring]. Qed.

Lemma lsum_seq F n : lsum (map F (seq 0 n)) == sumn n F.
Proof.
  induction n; [reflexivity|]. rewrite seq_S, map_app, lsum_app, IHn. simpl. ring.
Qed.

Lemma lsum_flat_map {A B} (G : B -> Q) (f : A -> list B) l :
  lsum (map G (flat_map f l)) == lsum (map (fun a => lsum (map G (f a))) l).
Proof. induction l; simpl; [reflexivity | rewrite map_app, lsum_app, IHl; reflexivity]. Qed.

Lemma lsum_map_ext_in {A} (F G : A -> Q) l : (forall a, In a l -> F a == G a) -> lsum (map F l) == lsum (map G l).
Proof.
  induction l; intros H; simpl; [reflexivity|].
  rewrite (H a) by (left; reflexivity). rewrite IHl by (intros; apply H; right; assumption). reflexivity.
Qed.

(* ------------------------------------------------------------ Cauchy product and the product rule *)

Definition cauchy (a b : nat -> Q) (n : nat) : Q := sumn (S n) (fun j => a j * b (n - j)%nat).

Lemma cauchy_ext a a' b b' n : (forall i, a i == a' i) -> (forall i, b i == b' i) -> cauchy a b n == cauchy a' b' n.
Proof. intros Ha Hb. apply sumn_ext. intros i _. rewrite Ha, Hb. reflexivity. Qed.

(* first derivative of a coefficient sequence *)
Definition dseq (a : nat -> Q) (i : nat) : Q := qn (S i) * a (S i).

(* (a' b + a b')_n = (n+1) (a b)_{n+1} *)
Lemma cauchy_leibniz a b n :
  cauchy (dseq a) b n + cauchy a (dseq b) n == qn (S n) * cauchy a b (S n).
Proof.
  unfold cauchy.
  rewrite <- sumn_scale.
  rewrite (sumn_ext (S (S n)) (fun i => qn (S n) * (a i * b (S n - i)%nat))
             (fun i => qn i * a i * b (S n - i)%nat + a i * (qn (S n - i) * b (S n - i)%nat))).
  2:{ intros i Hi. replace (qn (S n)) with (qn (i + (S n - i))) by (f_equal; lia). rewrite qn_add. ring. }
  rewrite sumn_add. apply Qplus_comp.
  - rewrite (sumn_shift (S n)). cbv beta. rewrite qn_0.
    setoid_replace (0 * a O * b (S n - 0)%nat) with 0 by ring. rewrite Qplus_0_l.
    apply sumn_ext. intros i Hi. unfold dseq. replace (S n - S i)%nat with (n - i)%nat by lia. reflexivity.
  - change (sumn (S (S n)) (fun i => a i * (qn (S n - i) * b (S n - i)%nat)))
      with (sumn (S n) (fun i => a i * (qn (S n - i) * b (S n - i)%nat)) + a (S n) * (qn (S n - S n) * b (S n - S n)%nat)).
    replace (S n - S n)%nat with O by lia. rewrite qn_0.
    setoid_replace (a (S n) * (0 * b O)) with 0 by ring. rewrite Qplus_0_r.
    apply sumn_ext. intros i Hi. unfold dseq. replace (S n - i)%nat with (S (n - i)) by lia. reflexivity.
Qed.

(* product of two polynomials given by coefficient sequences that vanish above da, db *)
Lemma poly_mul_sum (A B : nat -> Q) x da db N :
  (forall i, (da < i)%nat -> A i == 0) -> (forall j, (db < j)%nat -> B j == 0) -> (da + db <= N)%nat ->
  sumn (S N) (fun i => A i * qpow x i) * sumn (S N) (fun j => B j * qpow x j)
  == sumn (S N) (fun n => cauchy A B n * qpow x n).
Proof.
  intros HA HB HN.
  set (F := fun i j => A i * B j * qpow x (i + j)).
  transitivity (sumn (S N) (fun i => sumn (S (N - i)) (fun j => F i j))).
  - rewrite <- sumn_scale_r. apply sumn_ext. intros i Hi.
    rewrite <- sumn_scale.
    rewrite <- (sumn_extend (S (N - i)) (S N) (fun j => F i j)); [| lia |].
    + apply sumn_ext. intros j Hj. unfold F. rewrite qpow_add. ring.
    + intros j Hj. unfold F.
      destruct (le_lt_dec i da) as [Hia|Hia].
      * rewrite (HB j) by lia. ring.
      * rewrite (HA i) by lia. ring.
  - rewrite sumn_triangle. apply sumn_ext. intros n Hn. unfold cauchy.
    rewrite <- sumn_scale_r. apply sumn_ext. intros i Hi. unfold F.
    replace (i + (n - i))%nat with n by lia. reflexivity.
Qed.
