(* C08, times: in a run that did not exhaust its fuel or oracle the times of the calls never
   decrease (C03), hence the hitting time of an infector is never later than that of the node it
   infected.  This file is the only one of the C07 / C08 development that depends on the C03
   development (Proofs/KernelTime.v, Properties/C03.v). *)
From Coq Require Import List ZArith QArith Bool Arith Lia Sorted.
From EpyV Require Import Model.Kernel Model.Loci Model.Compart
  Proofs.KernelBase Proofs.KernelLoops Proofs.KernelMember Proofs.KernelTime Properties.C03
  Proofs.CompartRun Proofs.CompartInv Proofs.CompartDiagram Proofs.ContactBase Proofs.ContactForest Proofs.ContactInv.
Import ListNotations.
Open Scope Q_scope.

Lemma hrec_times_handlers o : hrec_times o = map time_of (filter is_handler o).
Proof. induction o as [|x o IH]; [reflexivity|]. destruct x; cbn; try exact IH. f_equal. exact IH. Qed.

Lemma hrec_times_rev o : hrec_times (rev o) = rev (hrec_times o).
Proof.
  induction o as [|x o IH]; [reflexivity|]. cbn [rev]. rewrite hrec_times_app, IH.
  change (x :: o) with ([x] ++ o). rewrite hrec_times_app, rev_app_distr.
  f_equal. destruct x; reflexivity.
Qed.

Lemma SS_flat_sub {A B} (R : B -> B -> Prop) (f : A -> B) (g : A -> list B) l :
  (forall x, g x = [] \/ g x = [f x]) -> StronglySorted R (map f l) -> StronglySorted R (flat_map g l).
Proof.
  intros Hg. induction l as [|x l IH]; intros H; [constructor|]. cbn [map] in H. inversion H as [|? ? H1 H2]; subst.
  cbn [flat_map]. destruct (Hg x) as [->| ->]; [exact (IH H1)|]. cbn [app]. constructor; [exact (IH H1)|].
  apply Forall_forall. intros y Hy. apply in_flat_map in Hy. destruct Hy as [z [Hz Hy]].
  rewrite Forall_forall in H2. destruct (Hg z) as [E|E]; rewrite E in Hy; [destruct Hy|]. destruct Hy as [<-|[]].
  apply H2, in_map, Hz.
Qed.

Section CT.
Variable cm : cmodel.
Variables (nodes : list Z) (edges : list (Z * Z)) (init : list (Z * Z)) (maxtime : Q) (monitor : option Q).
Let tb := mk_table cm nodes edges init maxtime monitor.

Lemma call_args_time c : snd (fst (call_args c)) = call_time c.
Proof. destruct c; reflexivity. Qed.

(* the times of the marking calls are a subsequence of the times of all calls *)
Lemma infection_times_sorted (R : Q -> Q -> Prop) (cs : list (st cworld * call)) :
  StronglySorted R (map (fun sc => call_time (snd sc)) cs) -> StronglySorted R (map snd (infections cm cs)).
Proof.
  intros H. unfold infections. rewrite flat_map_concat_map, concat_map, map_map, <- flat_map_concat_map.
  apply (SS_flat_sub R (fun sc => call_time (snd sc))); [|exact H].
  intros [s c]. unfold infection. cbn [snd]. destruct (call_kind cm c); [|left; reflexivity].
  destruct (marks h (snd (call_args c))); [|left; reflexivity]. right. cbn [map snd]. rewrite call_args_time. reflexivity.
Qed.

Lemma nonneg_mk_table : (forall ev, In ev (cm_events cm) -> 0 <= ce_p ev) -> nonneg_tb tb.
Proof.
  intros H. unfold nonneg_tb, tb, mk_table. cbn [t_procs].
  assert (M : Forall (fun ev => 0 <= ev_p ev)
                (map (fun x : nat * cevent => {| ev_elem := ce_elem (snd x); ev_locus := ce_locus (snd x); ev_p := ce_p (snd x); ev_prog := fst x |})
                     (combine (seq 0 (length (cm_events cm))) (cm_events cm)))).
  { apply Forall_forall. intros ev Hev. apply in_map_iff in Hev. destruct Hev as [[j cev] [<- Hx]]. cbn [ev_p snd].
    apply H. exact (in_combine_r _ _ _ _ Hx). }
  destruct monitor; repeat constructor; exact M.
Qed.

(* the call times of a run, read off its output *)
Lemma run_call_times rs ls ds cs (s : st cworld) : Steps tb (setup_state tb rs ls ds) cs s ->
  map (fun sc => call_time (snd sc)) cs = map time_of (filter is_handler (rev (out s))).
Proof.
  intros H. rewrite <- hrec_times_handlers, hrec_times_rev, (Steps_hrec_times tb _ _ _ H).
  rewrite (hrec_times_act _ (proj1 (setup_state_out tb rs ls ds))), app_nil_r, rev_involutive. reflexivity.
Qed.

Theorem times_stoch pf fuel rs ls ds : wf_model cm = true -> once_model cm = true -> graph_okb nodes edges = true ->
  init_ok cm nodes init = true -> (forall ev, In ev (cm_events cm) -> 0 <= ce_p ev) -> Forall (Qle 0) ls ->
  let r := stoch_run tb pf fuel rs ls ds in
  r_stuck r = false ->
  forall n m t t', In (n, m, t) (cw_occ (world (r_final r))) -> In (m, t') (cw_hit (world (r_final r))) -> t' <= t.
Proof.
  intros Hwf Ho Hg Hi Hnn Hl. cbv zeta. intros Hs.
  destruct (stoch_run_steps tb pf fuel rs ls ds) as [cs H].
  apply (times_along_tree cm nodes edges init maxtime monitor Qle rs ls ds cs _ Hwf Ho Hg Hi H).
  apply infection_times_sorted. rewrite (run_call_times rs ls ds cs _ H).
  assert (E : rev (out (r_final (stoch_run tb pf fuel rs ls ds))) = r_out (stoch_run tb pf fuel rs ls ds)).
  { unfold stoch_run. destruct (stoch_loop tb pf fuel 0 0 (setup_state tb rs ls ds)) as [[t0 ev0] s0]. reflexivity. }
  rewrite E. exact (proj1 (proj2 (C03_monotone_stoch cworld tb pf fuel rs ls ds (nonneg_mk_table Hnn) Hl Hs))).
Qed.

Theorem times_sync pf fuel rs ds : wf_model cm = true -> once_model cm = true -> graph_okb nodes edges = true ->
  init_ok cm nodes init = true ->
  let r := sync_run tb pf fuel rs ds in
  r_stuck r = false ->
  forall n m t t', In (n, m, t) (cw_occ (world (r_final r))) -> In (m, t') (cw_hit (world (r_final r))) -> t' <= t.
Proof.
  intros Hwf Ho Hg Hi. cbv zeta. intros Hs.
  destruct (sync_run_steps tb pf fuel rs ds) as [cs H].
  apply (times_along_tree cm nodes edges init maxtime monitor Qle rs [] ds cs _ Hwf Ho Hg Hi H).
  apply infection_times_sorted. rewrite (run_call_times rs [] ds cs _ H).
  assert (E : rev (out (r_final (sync_run tb pf fuel rs ds))) = r_out (sync_run tb pf fuel rs ds)).
  { unfold sync_run. destruct (sync_loop tb pf fuel 1 0 0 (setup_state tb rs [] ds)) as [[[t0 ev0] k0] s0]. reflexivity. }
  rewrite E. exact (proj1 (proj2 (C03_monotone_sync cworld tb pf fuel rs ds Hs))).
Qed.

End CT.
