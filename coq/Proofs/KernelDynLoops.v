(* The two loops of Model/KernelDyn.v: the tranche, one Gillespie iteration, the invariant "only
   programs of a given class are ever queued", and every run as a [DSteps] sequence. *)
From Coq Require Import List ZArith QArith Qabs Bool Arith Lia.
From EpyV Require Import Model.Kernel Model.KernelDyn Proofs.KernelBase Proofs.KernelLoops Proofs.KernelMember
  Proofs.KernelSync Proofs.CompartSort Proofs.CompartRun Proofs.CompartInv Proofs.KernelDyn.
Import ListNotations.
Open Scope Q_scope.

Section DL.
Context {W : Type}.
Variable D : dtable W.
Notation tb := (d_tb D).
Implicit Types s : st W.

(* ------------------------------------------------------------------ the tranche *)
(* what is known of a selected pair, relative to the loci lc and user state w the distribution was computed from *)
Definition dsel_ok (lc : list (list elem)) (w : W) (xe : trans W * elem) : Prop :=
  0 < trans_p (fst xe) /\
  match fst xe with
  | TStat y => In y (all_events tb) /\ In (snd xe) (nth (ev_locus (snd y)) lc [])
  | TDyn pi d => In d (d_dyn D pi lc w) /\ snd xe = de_value d
  end.

Lemma osame_loci s s' : osame s s' -> loci s' = loci s.
Proof. intros [_ [[L _] _]]. exact L. Qed.
Lemma osame_world s s' : osame s s' -> world s' = world s.
Proof. intros [_ [[_ [_ Wd]] _]]. exact Wd. Qed.
Lemma osame_clock s s' : osame s s' -> clock s' = clock s.
Proof. intros [C _]. unfold core_of in C. inversion C. reflexivity. Qed.

Lemma dtranche_elem_spec : forall evs s,
  osame s (snd (dtranche_elem evs s)) /\
  forall xe, In xe (fst (dtranche_elem evs s)) ->
    In (fst xe) evs /\ 0 < trans_p (fst xe) /\
    match fst xe with
    | TStat y => In (snd xe) (locus s (ev_locus (snd y)))
    | TDyn _ d => snd xe = de_value d
    end.
Proof.
  induction evs as [|x evs IH]; intros s; cbn [dtranche_elem].
  - split; [apply osame_refl | intros xe []].
  - set (first := match x with TStat y => _ | TDyn pi d => _ end).
    assert (H : osame s (snd first) /\ forall xe, In xe (fst first) ->
              fst xe = x /\ 0 < trans_p x /\
              match x with TStat y => In (snd xe) (locus s (ev_locus (snd y))) | TDyn _ d => snd xe = de_value d end).
    { unfold first. destruct x as [y|pi d].
      - destruct (locus s (ev_locus (snd y))) as [|e0 l0] eqn:El; [split; [apply osame_refl | intros xe []]|].
        destruct (Qltb 0 (ev_p (snd y))) eqn:Hp; [|split; [apply osame_refl | intros xe []]].
        pose proof (trials_osame (ev_p (snd y)) y (e0 :: l0) s) as Ho.
        rewrite (trials_spec (ev_p (snd y)) y (e0 :: l0) s) in *. cbn [fst snd] in *.
        split; [exact Ho|]. intros xe Hxe. apply in_map_iff in Hxe. destruct Hxe as [ye [<- Hye]].
        apply spec_trials_In in Hye. destruct Hye as [E1 E2].
        unfold lift_sel. cbn [fst snd]. split; [f_equal; exact E1|]. split; [apply Qltb_lt; exact Hp | exact E2].
      - destruct (de_member d (loci s) (world s)); cbn [andb]; [|split; [apply osame_refl | intros xe []]].
        destruct (Qltb 0 (de_p d)) eqn:Hp; [|split; [apply osame_refl | intros xe []]].
        pose proof (next_rand_osame s) as Ho. destruct (next_rand s) as [r s1]. cbn [fst snd] in *.
        split; [exact Ho|]. intros xe Hxe. destruct (Qle_bool r (de_p d)); [|destruct Hxe].
        destruct Hxe as [<-|[]]. cbn [fst snd]. split; [reflexivity|]. split; [apply Qltb_lt; exact Hp | reflexivity]. }
    destruct first as [sel s1]. cbn [fst snd] in H. destruct H as [Ho Hsel].
    destruct (IH s1) as [Ho' Hsel']. destruct (dtranche_elem evs s1) as [sel' s2]. cbn [fst snd] in *.
    split; [eapply osame_trans; eassumption|].
    intros xe Hxe. apply in_app_or in Hxe. destruct Hxe as [Hxe|Hxe].
    + destruct (Hsel xe Hxe) as (E & P & M). rewrite E. split; [left; reflexivity|]. split; [exact P | exact M].
    + destruct (Hsel' xe Hxe) as (E & P & M). split; [right; exact E|]. split; [exact P|].
      destruct (fst xe) as [y|pi d]; [|exact M]. unfold locus in *. rewrite (osame_loci _ _ Ho) in M. exact M.
Qed.

Lemma dtranche_spec s :
  osame s (snd (dtranche D s)) /\ Forall (dsel_ok (loci s) (world s)) (fst (dtranche D s)).
Proof.
  unfold dtranche.
  destruct (dtranche_elem_spec (dper_element D (loci s) (world s)) s) as [Ho Hsel].
  destruct (dtranche_elem (dper_element D (loci s) (world s)) s) as [a s1]. cbn [fst snd] in *.
  pose proof (tranche_fixed_osame (fixed_rate tb) s1) as Ho'.
  pose proof (tranche_fixed_spec (fixed_rate tb) s1) as Hf.
  destruct (tranche_fixed (fixed_rate tb) s1) as [b s2]. cbn [fst snd] in *.
  split; [eapply osame_trans; eassumption|].
  apply Forall_forall. intros xe Hxe. apply in_app_or in Hxe. destruct Hxe as [Hxe|Hxe].
  - destruct (Hsel xe Hxe) as (E & P & M). split; [exact P|].
    apply dper_element_In in E. destruct (fst xe) as [y|pi d].
    + split; [exact (proj1 E) | exact M].
    + split; [exact E | exact M].
  - apply in_map_iff in Hxe. destruct Hxe as [ye [<- Hye]]. inversion Hf; subst b.
    apply spec_fixed_In in Hye. destruct Hye as (G1 & G2 & G3). apply active_true in G2.
    unfold lift_sel, dsel_ok. cbn [fst snd trans_p]. split; [exact (proj2 G2)|].
    split; [apply fixed_rate_In; exact G1|]. unfold lookup in G3. rewrite (osame_loci _ _ Ho) in G3. exact G3.
Qed.

(* the membership re-check, as equations on the loop body: an appended entry whose test fails
   when its turn comes is skipped: no call, no record, no count, state untouched *)
Lemma dfire_tranche_skip_dyn t pi d e evs nev s :
  de_member d (loci s) (world s) = false ->
  dfire_tranche D t ((TDyn pi d, e) :: evs) nev s = dfire_tranche D t evs nev s.
Proof. intros H. cbn [dfire_tranche]. rewrite H. reflexivity. Qed.

Lemma dfire_tranche_fire_dyn t pi d e evs nev s :
  de_member d (loci s) (world s) = true ->
  dfire_tranche D t ((TDyn pi d, e) :: evs) nev s = dfire_tranche D t evs (S nev) (fire_dyn D pi d t s).
Proof. intros H. cbn [dfire_tranche]. rewrite H. reflexivity. Qed.

Lemma dfire_tranche_skip_stat t y e evs nev s :
  mem e (locus s (ev_locus (snd y))) = false ->
  dfire_tranche D t ((TStat y, e) :: evs) nev s = dfire_tranche D t evs nev s.
Proof. intros H. cbn [dfire_tranche]. rewrite H. reflexivity. Qed.

Lemma dfire_tranche_fire_stat t y e evs nev s :
  mem e (locus s (ev_locus (snd y))) = true ->
  dfire_tranche D t ((TStat y, e) :: evs) nev s = dfire_tranche D t evs (S nev) (fire_event tb y t e s).
Proof. intros H. cbn [dfire_tranche]. rewrite H. reflexivity. Qed.

(* records of the tranche of timestep t: every event function entered passed its membership test *)
Definition dtranche_rec (t : Q) (o : obs) : Prop :=
  match o with
  | OHandler _ targ clk _ m => m = Some true /\ targ = t /\ clk = t
  | OTap t1 _ n _ => t1 = t /\ exists pi j, n = NEv pi j
  | _ => True
  end.

Lemma act_dtranche t o : act_obs o -> dtranche_rec t o.
Proof. destruct o; cbn; tauto. Qed.

(* over a whole tranche: the count grows by exactly the number of event functions entered *)
Lemma dfire_tranche_count : forall t evs nev s, clock s = t ->
  let r := dfire_tranche D t evs nev s in
  frame s (snd r) /\
  exists l, out (snd r) = l ++ out s /\ Forall (dtranche_rec t) l /\ fst r = (nev + nfired l)%nat.
Proof.
  intros t evs. induction evs as [|[x e] evs IH]; intros nev s Hc.
  - cbn. split; [apply frame_refl|]. exists []. split; [reflexivity|]. split; [constructor | unfold nfired; cbn; lia].
  - cbv zeta. destruct x as [y|pi d].
    + destruct (mem e (locus s (ev_locus (snd y)))) eqn:Hm.
      2:{ rewrite (dfire_tranche_skip_stat _ _ _ _ _ _ Hm). exact (IH nev s Hc). }
      rewrite (dfire_tranche_fire_stat _ _ _ _ _ _ Hm). destruct y as [[pi j] ev].
      destruct (fire_event_spec tb pi j ev t e s) as [F [l [A E]]]. cbv zeta in F, E.
      set (s' := fire_event tb (pi, j, ev) t e s) in *.
      assert (Hc' : clock s' = t) by (destruct F as [F _]; rewrite F; exact Hc).
      destruct (IH (S nev) s' Hc') as [F' [l' [E' [R' N']]]]. cbv zeta in F', E', N'.
      split; [exact (frame_trans _ _ _ F F')|].
      exists (l' ++ OTap t pi (NEv pi j) e :: l ++ [OHandler (ev_prog ev) t t e (Some true)]).
      split; [|split].
      * rewrite E', E. cbn [snd ev_locus] in Hm. rewrite Hm, Hc. rewrite <- !app_assoc. cbn [app]. rewrite <- app_assoc. reflexivity.
      * apply Forall_app. split; [exact R'|]. constructor; [cbn; split; [reflexivity | eauto]|].
        apply Forall_app. split; [exact (Forall_impl _ (act_dtranche t) A)|]. repeat constructor.
      * rewrite N'. change (OTap t pi (NEv pi j) e :: l ++ [OHandler (ev_prog ev) t t e (Some true)])
          with ([OTap t pi (NEv pi j) e] ++ l ++ [OHandler (ev_prog ev) t t e (Some true)]).
        rewrite !nfired_app, (nfired_act l A). unfold nfired; cbn. lia.
    + destruct (de_member d (loci s) (world s)) eqn:Hm.
      2:{ rewrite (dfire_tranche_skip_dyn _ _ _ _ _ _ _ Hm). exact (IH nev s Hc). }
      rewrite (dfire_tranche_fire_dyn _ _ _ _ _ _ _ Hm).
      destruct (fire_dyn_spec D pi d t s) as [F [l [A E]]]. cbv zeta in F, E.
      set (s' := fire_dyn D pi d t s) in *.
      assert (Hc' : clock s' = t) by (destruct F as [F _]; rewrite F; exact Hc).
      destruct (IH (S nev) s' Hc') as [F' [l' [E' [R' N']]]]. cbv zeta in F', E', N'.
      split; [exact (frame_trans _ _ _ F F')|].
      exists (l' ++ OTap t pi (NEv pi (de_name d)) (de_value d) :: l ++ [OHandler (de_prog d) t t (de_value d) (Some true)]).
      split; [|split].
      * rewrite E', E, Hm, Hc. rewrite <- !app_assoc. cbn [app]. rewrite <- app_assoc. reflexivity.
      * apply Forall_app. split; [exact R'|]. constructor; [cbn; split; [reflexivity | eauto]|].
        apply Forall_app. split; [exact (Forall_impl _ (act_dtranche t) A)|]. repeat constructor.
      * rewrite N'. change (OTap t pi (NEv pi (de_name d)) (de_value d) :: l ++ [OHandler (de_prog d) t t (de_value d) (Some true)])
          with ([OTap t pi (NEv pi (de_name d)) (de_value d)] ++ l ++ [OHandler (de_prog d) t t (de_value d) (Some true)]).
        rewrite !nfired_app, (nfired_act l A). unfold nfired; cbn. lia.
Qed.

(* ------------------------------------------------------------------ one Gillespie iteration *)
Definition dstoch_select (s : st W) : option (trans W * Q * st W) :=
  let trs := dtransitions D (loci s) (world s) in
  let a := dsum_rates s trs in
  let '(_, s1) := next_rand s in
  let '(ln, s2) := next_ln s1 in
  let dt := Qred ((1 / a) * ln) in
  match trs with
  | [] => None
  | x0 :: rest =>
      let '(x, s3) := match rest with
                      | [] => (x0, s2)
                      | _ => let '(r2, s3) := next_rand s2 in (select (drate s) (r2 * a) 0 x0 trs, s3)
                      end in
      Some (x, dt, s3)
  end.

(* firing, after the posted events ran and the clock was set: a registered event reads its live
   locus now (Model/Kernel.v); an appended entry is tested now (`len(l) > 0`): if its membership
   test holds it is called on its stored value (no rank consumed), otherwise nothing happens *)
Definition dstoch_fire (x : trans W) (nt : Q) (ev : nat) (s5 : st W) : nat * st W :=
  match x with
  | TStat y => stoch_fire tb y nt ev s5
  | TDyn pi d => if de_member d (loci s5) (world s5) then (S ev, fire_dyn D pi d nt s5) else (ev, s5)
  end.

Lemma dstoch_loop_S : forall pf f t events s,
  dstoch_loop D pf (S f) t events s =
  if at_equil tb t s then (t, events, s)
  else if Qeq_bool (dsum_rates s (dtransitions D (loci s) (world s))) 0 then
    match next_pending_time s with
    | (None, s') => (t, events, s')
    | (Some et, s') => let '(n, s'') := run_pending tb pf et 0 s' in dstoch_loop D pf f et (events + n) s''
    end
  else
    match dstoch_select s with
    | None => (t, events, set_stuck s)
    | Some (x, dt, s3) =>
        let nt := Qred (t + dt) in
        let '(n, s4) := run_pending tb pf nt 0 s3 in
        let '(ev', s6) := dstoch_fire x nt (events + n) (set_clock nt s4) in
        dstoch_loop D pf f nt ev' s6
    end.
Proof.
  intros pf f t events s. cbn [dstoch_loop]. unfold dstoch_select, dstoch_fire, stoch_fire, at_equil.
  destruct (Qle_bool (t_maxtime tb) t || t_equil tb (loci s) (world s)); [reflexivity|].
  destruct (Qeq_bool (dsum_rates s (dtransitions D (loci s) (world s))) 0); [reflexivity|].
  cbv zeta.
  destruct (next_rand s) as [r1 s1]. destruct (next_ln s1) as [ln s2].
  destruct (dtransitions D (loci s) (world s)) as [|x0 rest]; [reflexivity|].
  destruct rest as [|x1 rest].
  - destruct (run_pending tb pf _ 0 s2) as [n s4]. destruct x0 as [y|pi d]; [|destruct (de_member d _ _); reflexivity].
    destruct (locus (set_clock _ s4) (ev_locus (snd y))); [reflexivity|].
    destruct (next_draw _) as [k s6]. reflexivity.
  - destruct (next_rand s2) as [r2 s3].
    destruct (run_pending tb pf _ 0 s3) as [n s4].
    destruct (select _ _ _ _ _) as [y|pi d]; [|destruct (de_member d _ _); reflexivity].
    destruct (locus (set_clock _ s4) _); [reflexivity|].
    destruct (next_draw _) as [k s6]. reflexivity.
Qed.

Lemma dsum_rates_qsum s trs : dsum_rates s trs == qsum (drate s) trs.
Proof. unfold dsum_rates. rewrite fold_qsum, Qplus_0_l. reflexivity. Qed.

(* with no hypothesis at all: an entry of the distribution computed from the state at the start
   of the iteration is chosen, and only the oracle moves *)
Lemma dstoch_select_shape s x dt s3 : dstoch_select s = Some (x, dt, s3) ->
  In x (dtransitions D (loci s) (world s)) /\ exists nr, (nr <= 2)%nat /\ s3 = advance nr 1 0 s.
Proof.
  unfold dstoch_select. rewrite next_rand_adv, next_ln_adv, advance_advance. cbn [Nat.add].
  destruct (dtransitions D (loci s) (world s)) as [|x0 rest] eqn:Etr; [discriminate|].
  destruct rest as [|x1 rest].
  - intros E; inversion E; subst. split; [left; reflexivity|]. exists 1%nat; split; [lia | reflexivity].
  - rewrite next_rand_adv, advance_advance. cbn [Nat.add].
    set (sel := select _ _ _ _ _).
    assert (Hs : In sel (x0 :: x1 :: rest)) by (apply select_In'; left; reflexivity).
    clearbody sel. intros E; inversion E; subst. split; [exact Hs|]. exists 2%nat; split; [lia | reflexivity].
Qed.

Definition dnonneg (lc : list (list elem)) (w : W) : Prop := forall x, In x (dtransitions D lc w) -> 0 <= trans_p x.

Lemma drate_nonneg s x : 0 <= trans_p x -> 0 <= drate s x.
Proof.
  destruct x as [y|pi d]; cbn [trans_p drate]; [apply rate_nonneg|].
  destruct (de_member d (loci s) (world s)); [tauto | intros _; apply Qle_refl].
Qed.

Lemma drate_pos s x : 0 < drate s x -> 0 < trans_p x.
Proof.
  destruct x as [y|pi d]; cbn [trans_p drate]; [apply rate_pos|].
  destruct (de_member d (loci s) (world s)); [tauto | intros H; exfalso; exact (Qlt_irrefl 0 H)].
Qed.

(* an appended entry with a positive rate passes its membership test in the state the rates are computed from *)
Lemma drate_pos_member s pi d : 0 < drate s (TDyn pi d) -> de_member d (loci s) (world s) = true.
Proof. cbn [drate]. destruct (de_member d (loci s) (world s)); [reflexivity | intros H; exfalso; exact (Qlt_irrefl 0 H)]. Qed.

(* the entry chosen has a positive rate, hence a positive probability: zero-probability entries are never selected *)
Lemma dstoch_select_pos s x dt s3 : dnonneg (loci s) (world s) -> Forall unit_rand (rands s) ->
  Qeq_bool (dsum_rates s (dtransitions D (loci s) (world s))) 0 = false ->
  dstoch_select s = Some (x, dt, s3) -> 0 < drate s x /\ 0 < trans_p x.
Proof.
  intros Hnn Hr Ha. unfold dstoch_select.
  rewrite next_rand_adv, next_ln_adv, advance_advance. cbn [Nat.add].
  assert (Hall : forall y, In y (dtransitions D (loci s) (world s)) -> 0 <= drate s y)
    by (intros y Hy; apply drate_nonneg, Hnn, Hy).
  assert (Hsum := dsum_rates_qsum s (dtransitions D (loci s) (world s))).
  assert (Hapos : 0 < dsum_rates s (dtransitions D (loci s) (world s))).
  { destruct (proj1 (Qle_lteq _ _) (qsum_nonneg _ _ _ Hall)) as [Hlt|Heq].
    - rewrite Hsum; exact Hlt.
    - exfalso. rewrite <- Hsum in Heq. symmetry in Heq. apply Qeq_bool_iff in Heq. congruence. }
  destruct (dtransitions D (loci s) (world s)) as [|x0 rest] eqn:Etr; [discriminate|].
  destruct rest as [|x1 rest].
  - intros E; inversion E; subst.
    assert (Hx : 0 < drate s x).
    { cbn [qsum] in Hsum. rewrite Qplus_0_r in Hsum. rewrite <- Hsum. exact Hapos. }
    split; [exact Hx | exact (drate_pos s x Hx)].
  - rewrite next_rand_adv, advance_advance. cbn [Nat.add].
    intros E; inversion E; subst. clear E.
    set (a := dsum_rates s (x0 :: x1 :: rest)) in *.
    assert (Hr2 : unit_rand (hd 0 (rands (advance 1 1 0 s)))).
    { cbn [advance rands]. destruct (rands s) as [|r1 [|r2 rs]]; cbn [skipn hd].
      - split; [apply Qle_refl | reflexivity].
      - split; [apply Qle_refl | reflexivity].
      - inversion Hr as [|? ? _ Hr']; inversion Hr' as [|? ? Hr2 _]; exact Hr2. }
    destruct Hr2 as [Hlo Hhi].
    set (r2 := hd 0 (rands (advance 1 1 0 s))) in *.
    destruct (select_pos _ (drate s) (r2 * a) (x0 :: x1 :: rest) x0) as [Hin Hp].
    + apply Qmult_le_0_compat; [exact Hlo | apply Qlt_le_weak; exact Hapos].
    + rewrite <- Hsum. fold a. setoid_replace a with (1 * a) at 2 by ring.
      apply Qmult_lt_compat_r; assumption.
    + split; [exact Hp | exact (drate_pos s _ Hp)].
Qed.

(* the stale entry of a Gillespie iteration: nothing is called, recorded or counted, no rank is consumed *)
Lemma dstoch_fire_stale pi d nt ev s5 : de_member d (loci s5) (world s5) = false ->
  dstoch_fire (TDyn pi d) nt ev s5 = (ev, s5).
Proof. intros H. cbn [dstoch_fire]. rewrite H. reflexivity. Qed.

Lemma dstoch_fire_live pi d nt ev s5 : de_member d (loci s5) (world s5) = true ->
  dstoch_fire (TDyn pi d) nt ev s5 = (S ev, fire_dyn D pi d nt s5).
Proof. intros H. cbn [dstoch_fire]. rewrite H. reflexivity. Qed.

(* ------------------------------------------------------------------ one synchronous timestep *)
Definition dsync_step (pf : nat) (t : Q) (s : st W) : nat * st W :=
  let s0 := set_clock t s in
  let '(n, s1) := run_pending tb pf t 0 s0 in
  let s1' := set_clock t s1 in
  let '(evs, s2) := dtranche D s1' in
  dfire_tranche D t evs n s2.

Lemma dsync_loop_S : forall pf f t events steps s,
  dsync_loop D pf (S f) t events steps s =
  if at_equil tb t s then (t, events, steps, s)
  else let '(nev, s3) := dsync_step pf t s in
       dsync_loop D pf f (Qred (t + 1)) (events + nev) (if (0 <? nev)%nat then S steps else steps) s3.
Proof.
  intros pf f t events steps s. cbn [dsync_loop]. unfold at_equil, dsync_step.
  destruct (Qle_bool (t_maxtime tb) t || t_equil tb (loci s) (world s)); [reflexivity|].
  cbv zeta. destruct (run_pending tb pf t 0 (set_clock t s)) as [n s1].
  destruct (dtranche D (set_clock t s1)) as [evs s2].
  destruct (dfire_tranche D t evs n s2) as [nev s3]. reflexivity.
Qed.

(* ------------------------------------------------------------------ which programs are ever queued *)
Section Queue.
Variable Qp : nat -> Prop.

Definition posts_ok (a : action) : Prop :=
  match a with APost _ k | APostOn _ _ k | APostRep _ _ k => Qp k | _ => True end.

Definition qinv s : Prop := Forall (fun x => Qp (e_prog x)) (queue s).

Lemma kill_qinv i q : Forall (fun x => Qp (e_prog x)) q -> Forall (fun x => Qp (e_prog x)) (kill i q).
Proof.
  induction 1 as [|x q Hx Hq IH]; cbn [kill map]; [constructor|].
  constructor; [|exact IH]. destruct (e_id x =? i)%nat; exact Hx.
Qed.

Lemma qinv_incl s s' : incl (queue s') (queue s) -> qinv s -> qinv s'.
Proof. unfold qinv. intros Hi H. rewrite Forall_forall in *. intros x Hx. apply H, Hi, Hx. Qed.

Lemma do_action_qinv p t e a s : posts_ok a -> qinv s -> qinv (do_action p t e a s).
Proof.
  intros Ha Hq. unfold qinv in *. destruct a; cbn [do_action posts_ok] in *; unfold post.
  - destruct (Qltb _ _); cbn [queue emit push_id]; [exact Hq | constructor; [exact Ha | exact Hq]].
  - destruct (Qltb _ _); cbn [queue emit push_id]; [exact Hq | constructor; [exact Ha | exact Hq]].
  - destruct (Qltb _ _); cbn [queue emit push_id]; [exact Hq | constructor; [exact Ha | exact Hq]].
  - rewrite Qred_pred_lt. exact Hq.
  - destruct (ids s); [exact Hq|]. destruct (find_live _ _); cbn [queue emit set_queue]; [apply kill_qinv; exact Hq | exact Hq].
  - destruct (ids s); exact Hq.
  - exact Hq.
  - exact Hq.
  - exact Hq.
  - exact Hq.
  - exact Hq.
Qed.

Lemma run_actions_qinv p t e acts s : Forall posts_ok acts -> qinv s -> qinv (run_actions p t e acts s).
Proof.
  unfold run_actions. revert s. induction acts as [|a acts IH]; intros s Ha Hq; cbn [fold_left]; [exact Hq|].
  inversion Ha; subst. apply IH; [assumption|]. apply do_action_qinv; assumption.
Qed.

Hypothesis Hprogs : forall k t e lc w, Forall posts_ok (snd (prog_of tb k t e lc w)).

Lemma run_prog_qinv p k t e s : qinv s -> qinv (run_prog tb p k t e s).
Proof.
  intros Hq. unfold run_prog. pose proof (Hprogs k t e (loci s) (world s)) as Hp.
  destruct (prog_of tb k t e (loci s) (world s)) as [w acts]. cbn [snd] in Hp.
  apply run_actions_qinv; [exact Hp | exact Hq].
Qed.

Lemma fire_qinv x s : Qp (e_prog x) -> qinv s -> qinv (fire tb x s).
Proof.
  intros Hx Hq. unfold fire.
  assert (H2 : qinv (run_prog tb (e_proc x) (e_prog x) (e_time x) (e_elem x)
                       (emit (OHandler (e_prog x) (e_time x) (clock s) (e_elem x) None) s)))
    by (apply run_prog_qinv; exact Hq).
  destruct (e_rep x) as [ddt|]; [|exact H2]. unfold post.
  destruct (Qltb _ _); cbn [queue emit]; [exact H2|]. unfold qinv. cbn [queue]. constructor; [exact Hx | exact H2].
Qed.

Lemma pend_step_qinv h s : In h (queue s) -> qinv s -> qinv (pend_step tb h s).
Proof.
  intros Hin Hq. unfold pend_step. unfold qinv. cbn [queue emit]. apply fire_qinv.
  - unfold qinv in Hq. rewrite Forall_forall in Hq. exact (Hq h Hin).
  - unfold qinv. cbn [queue set_clock set_queue]. unfold qinv in Hq. rewrite Forall_forall in *.
    intros y Hy. apply Hq. exact (remove_id_incl _ _ _ Hy).
Qed.

Lemma fire_event_qinv x t e s : qinv s -> qinv (fire_event tb x t e s).
Proof. intros Hq. destruct x as [[pi j] ev]. unfold fire_event, qinv. cbn [queue emit]. apply run_prog_qinv. exact Hq. Qed.

Lemma fire_dyn_qinv pi d t s : qinv s -> qinv (fire_dyn D pi d t s).
Proof. intros Hq. unfold fire_dyn, qinv. cbn [queue emit]. apply run_prog_qinv. exact Hq. Qed.

Lemma dafter_qinv Xtr c s : dcall_ok D Xtr c s -> qinv s -> qinv (dafter D c s).
Proof.
  intros Hok Hq. destruct c as [x t e|pi d t|h]; cbn [dafter].
  - apply fire_event_qinv; exact Hq.
  - apply fire_dyn_qinv; exact Hq.
  - apply pend_step_qinv; [|exact Hq]. destruct Hok as [Hh _]. exact (head_in _ _ Hh).
Qed.

Hypothesis Hsetup : forall p, In p (t_procs tb) -> Forall posts_ok (p_setup p).

Lemma setup_qinv rs ls ds : qinv (setup_state tb rs ls ds).
Proof.
  unfold setup_state.
  set (s0 := {| clock := 0; nextid := 0; queue := []; loci := init_loci tb; world := t_world tb; ids := []; out := [];
                rands := rs; lns := ls; draws := ds; stuck := false |}).
  assert (H0 : qinv s0) by constructor.
  generalize 0%nat. revert H0 Hsetup. generalize s0. clear s0.
  induction (t_procs tb) as [|p ps IH]; intros s0 H0 Hs n; cbn [fold_left fst snd]; [exact H0|].
  apply IH; [|intros q Hq; apply Hs; right; exact Hq].
  apply run_actions_qinv; [apply Hs; left; reflexivity | exact H0].
Qed.

(* posted programs of the class change neither the loci nor the user state *)
Hypothesis Hinert : forall k, Qp k -> forall t e lc w,
  fst (prog_of tb k t e lc w) = w /\ fold_left (act_loci e) (snd (prog_of tb k t e lc w)) lc = lc.

Lemma pend_step_inert h s : Qp (e_prog h) -> loci (pend_step tb h s) = loci s /\ world (pend_step tb h s) = world s.
Proof.
  intros Hh. pose proof (after_lw tb (CPost h) s) as A. cbn [call_args after] in A. destruct A as [A1 A2].
  destruct (Hinert _ Hh (e_time h) (e_elem h) (loci s) (world s)) as [I1 I2].
  rewrite A1, A2, I1, I2. split; reflexivity.
Qed.

Lemma run_pending_inert : forall fuel t n s, qinv s ->
  let s' := snd (run_pending tb fuel t n s) in
  qinv s' /\ loci s' = loci s /\ world s' = world s.
Proof.
  induction fuel as [|f IH]; intros t n s Hq; cbn [run_pending].
  - cbn [snd]. split; [exact Hq|]. split; reflexivity.
  - assert (Hd : qinv (discard s)) by (apply (qinv_incl s); [unfold discard; cbn [queue set_queue]; apply discard_dead_incl | exact Hq]).
    destruct (head (queue (discard s))) as [h|] eqn:Eh; [|cbn [snd]; split; [exact Hd|]; split; reflexivity].
    destruct (Qle_bool (e_time h) t); [|cbn [snd]; split; [exact Hd|]; split; reflexivity].
    pose proof (head_in _ _ Eh) as Hin.
    assert (Hp : Qp (e_prog h)) by (unfold qinv in Hd; rewrite Forall_forall in Hd; exact (Hd h Hin)).
    change (emit (OTap (e_time h) (e_proc h) (NPost (e_prog h)) (e_elem h))
              (fire tb h (set_clock (e_time h) (set_queue (remove_id (e_id h) (queue (discard s))) (discard s)))))
      with (pend_step tb h (discard s)).
    destruct (IH t (S n) (pend_step tb h (discard s)) (pend_step_qinv h (discard s) Hin Hd)) as (I1 & I2 & I3).
    destruct (pend_step_inert h (discard s) Hp) as [P1 P2].
    cbv zeta in I1, I2, I3. split; [exact I1|]. split; [rewrite I2, P1; reflexivity | rewrite I3, P2; reflexivity].
Qed.

End Queue.

(* ------------------------------------------------------------------ the Gillespie loop as a run *)
Section StochGen.
(* IR: an invariant of the stream of uniform variates; Xtr: the fact established at each selection *)
Variable IR : list Q -> Prop.
Variable Xtr : trans W -> Prop.
Hypothesis IR_skipn : forall n l, IR l -> IR (skipn n l).
Hypothesis Hsel : forall s x dt s3, IR (rands s) ->
  Qeq_bool (dsum_rates s (dtransitions D (loci s) (world s))) 0 = false ->
  dstoch_select s = Some (x, dt, s3) -> Xtr x.

Lemma dstoch_loop_dsteps : forall pf fuel t ev s t' ev' s', dstoch_loop D pf fuel t ev s = (t', ev', s') ->
  forall s0 cs, DSteps D Xtr s0 cs s -> IR (rands s) -> exists cs', DSteps D Xtr s0 (cs ++ cs') s'.
Proof.
  intros pf. induction fuel as [|f IH]; intros t ev s t' ev' s' E s0 cs H Hr.
  - cbn [dstoch_loop] in E. inversion E; subst. exists []. rewrite app_nil_r.
    eapply dst_sched; [exact H | apply dsched_set_stuck].
  - rewrite dstoch_loop_S in E. destruct (at_equil tb t s).
    { inversion E; subst. exists []. rewrite app_nil_r. exact H. }
    destruct (Qeq_bool (dsum_rates s (dtransitions D (loci s) (world s))) 0) eqn:Ha.
    + unfold next_pending_time in E.
      assert (Hd : DSteps D Xtr s0 cs (discard s)) by (eapply dst_sched; [exact H | apply dsched_discard]).
      destruct (head (queue (discard s))) as [h|]; cbn [option_map] in E.
      * destruct (run_pending_spec tb pf (e_time h) 0%nat (discard s)) as [[O1 _] _].
        destruct (run_pending tb pf (e_time h) 0 (discard s)) as [n s''] eqn:Ep. cbn [snd] in *.
        destruct (run_pending_dsteps D Xtr _ _ _ _ _ _ Ep _ _ Hd) as [c1 [H1 _]].
        destruct (IH _ _ _ _ _ _ E _ _ H1) as [c2 H2]; [rewrite O1; exact Hr|].
        exists (c1 ++ c2). rewrite app_assoc. exact H2.
      * inversion E; subst. exists []. rewrite app_nil_r. exact Hd.
    + destruct (dstoch_select s) as [[[x dt] s3]|] eqn:Es.
      * pose proof (Hsel s x dt s3 Hr Ha Es) as HX.
        destruct (dstoch_select_shape s x dt s3 Es) as [Hx [nr [_ ->]]]. cbv zeta in E.
        assert (H3 : DSteps D Xtr s0 cs (advance nr 1 0 s)) by (eapply dst_sched; [exact H | apply dsched_advance]).
        destruct (run_pending_spec tb pf (Qred (t + dt)) 0%nat (advance nr 1 0 s)) as [[O1 _] _].
        destruct (run_pending tb pf (Qred (t + dt)) 0 (advance nr 1 0 s)) as [n s4] eqn:Ep. cbn [snd] in *.
        destruct (run_pending_dsteps D Xtr _ _ _ _ _ _ Ep _ _ H3) as [c1 [H1 _]].
        assert (H5 : DSteps D Xtr s0 (cs ++ c1) (set_clock (Qred (t + dt)) s4)) by (eapply dst_sched; [exact H1 | apply dsched_set_clock]).
        set (s5 := set_clock (Qred (t + dt)) s4) in *.
        assert (Hr5 : IR (rands s5)).
        { change (rands s5) with (rands s4). rewrite O1. cbn [advance rands]. apply IR_skipn. exact Hr. }
        apply dtransitions_In in Hx.
        destruct x as [y|pi d]; cbn [dstoch_fire] in E.
        -- destruct (locus s5 (ev_locus (snd y))) as [|e0 l0] eqn:El.
           ++ rewrite (stoch_fire_empty tb y _ _ s5 El) in E.
              destruct (IH _ _ _ _ _ _ E _ _ H5 Hr5) as [c2 H2]. exists (c1 ++ c2). rewrite app_assoc. exact H2.
           ++ assert (Hne : locus s5 (ev_locus (snd y)) <> []) by (rewrite El; discriminate).
              destruct (stoch_fire_member tb y (Qred (t + dt)) (ev + n) s5 Hne) as [e [He Ef]]. rewrite Ef in E.
              assert (H6 : DSteps D Xtr s0 (cs ++ c1) (advance 0 0 1 s5)) by (eapply dst_sched; [exact H5 | apply dsched_advance]).
              assert (H7 : DSteps D Xtr s0 ((cs ++ c1) ++ [(advance 0 0 1 s5, DEv y (Qred (t + dt)) e)])
                                  (dafter D (DEv y (Qred (t + dt)) e) (advance 0 0 1 s5))).
              { apply dst_call; [exact H6|]. split; [exact Hx|]. split; [apply mem_In; exact He|]. split; [reflexivity | exact HX]. }
              cbn [dafter] in H7.
              destruct (IH _ _ _ _ _ _ E _ _ H7) as [c2 H2].
              { destruct y as [[pi j] evt]. destruct (fire_event_spec tb pi j evt (Qred (t + dt)) e (advance 0 0 1 s5)) as [(_ & F2 & _) _].
                rewrite F2. exact Hr5. }
              exists (c1 ++ (advance 0 0 1 s5, DEv y (Qred (t + dt)) e) :: c2).
              rewrite <- !app_assoc in H2. exact H2.
        -- destruct (de_member d (loci s5) (world s5)) eqn:Em.
           ++ assert (H7 : DSteps D Xtr s0 ((cs ++ c1) ++ [(s5, DDyn pi d (Qred (t + dt)))]) (dafter D (DDyn pi d (Qred (t + dt))) s5)).
              { apply dst_call; [exact H5|]. split; [exists (loci s), (world s); exact Hx|].
                split; [exact Em|]. split; [reflexivity | exact HX]. }
              cbn [dafter] in H7.
              destruct (IH _ _ _ _ _ _ E _ _ H7) as [c2 H2]; [rewrite fire_dyn_rands; exact Hr5|].
              exists (c1 ++ (s5, DDyn pi d (Qred (t + dt))) :: c2).
              rewrite <- !app_assoc in H2. exact H2.
           ++ destruct (IH _ _ _ _ _ _ E _ _ H5 Hr5) as [c2 H2]. exists (c1 ++ c2). rewrite app_assoc. exact H2.
      * inversion E; subst. exists []. rewrite app_nil_r. eapply dst_sched; [exact H | apply dsched_set_stuck].
Qed.

Theorem dstoch_run_dsteps pf fuel rs ls ds : IR rs ->
  exists cs, DSteps D Xtr (setup_state tb rs ls ds) cs (r_final (dstoch_run D pf fuel rs ls ds)).
Proof.
  intros Hr. unfold dstoch_run.
  destruct (dstoch_loop D pf fuel 0 0 (setup_state tb rs ls ds)) as [[t ev] s] eqn:E. cbn [r_final].
  destruct (dstoch_loop_dsteps _ _ _ _ _ _ _ _ E _ [] (dst_refl D Xtr _)) as [cs H].
  - rewrite (proj2 (setup_state_out tb rs ls ds)). exact Hr.
  - exists cs. exact H.
Qed.

End StochGen.

(* ------------------------------------------------------------------ the synchronous loop as a run *)
Definition Xpos (x : trans W) : Prop := 0 < trans_p x.

Definition dsel_range (xe : trans W * elem) : Prop :=
  Xpos (fst xe) /\ match fst xe with TStat y => In y (all_events tb) | TDyn pi d => dyn_range D pi d end.

Lemma dsel_ok_range lc w xe : dsel_ok lc w xe -> dsel_range xe.
Proof.
  intros [P H]. split; [exact P|]. destruct (fst xe) as [y|pi d]; [exact (proj1 H)|].
  exists lc, w. exact (proj1 H).
Qed.

Lemma dfire_tranche_dsteps : forall t evs nev s nev' s', dfire_tranche D t evs nev s = (nev', s') ->
  Forall dsel_range evs -> clock s = t ->
  forall s0 cs, DSteps D Xpos s0 cs s -> exists cs', DSteps D Xpos s0 (cs ++ cs') s' /\ clock s' = t.
Proof.
  intros t. induction evs as [|[x e] evs IH]; intros nev s nev' s' E Hall Hc s0 cs H.
  - cbn [dfire_tranche] in E. inversion E; subst. exists []. rewrite app_nil_r. split; [exact H | reflexivity].
  - inversion Hall as [|? ? [Hp Hx] Hall']; subst. cbn [fst] in Hp, Hx. destruct x as [y|pi d].
    + destruct (mem e (locus s (ev_locus (snd y)))) eqn:Em.
      * rewrite (dfire_tranche_fire_stat _ _ _ _ _ _ Em) in E.
        assert (H1 : DSteps D Xpos s0 (cs ++ [(s, DEv y (clock s) e)]) (dafter D (DEv y (clock s) e) s)).
        { apply dst_call; [exact H|]. split; [exact Hx|]. split; [exact Em|]. split; [reflexivity | exact Hp]. }
        cbn [dafter] in H1.
        destruct (IH _ _ _ _ E Hall' (fire_event_clock tb y (clock s) e s) _ _ H1) as [c2 [H2 Hc2]].
        exists ((s, DEv y (clock s) e) :: c2). rewrite <- app_assoc in H2. split; [exact H2 | exact Hc2].
      * rewrite (dfire_tranche_skip_stat _ _ _ _ _ _ Em) in E. exact (IH _ _ _ _ E Hall' eq_refl _ _ H).
    + destruct (de_member d (loci s) (world s)) eqn:Em.
      * rewrite (dfire_tranche_fire_dyn _ _ _ _ _ _ _ Em) in E.
        assert (H1 : DSteps D Xpos s0 (cs ++ [(s, DDyn pi d (clock s))]) (dafter D (DDyn pi d (clock s)) s)).
        { apply dst_call; [exact H|]. split; [exact Hx|]. split; [exact Em|]. split; [reflexivity | exact Hp]. }
        cbn [dafter] in H1.
        destruct (IH _ _ _ _ E Hall' (fire_dyn_clock D pi d (clock s) s) _ _ H1) as [c2 [H2 Hc2]].
        exists ((s, DDyn pi d (clock s)) :: c2). rewrite <- app_assoc in H2. split; [exact H2 | exact Hc2].
      * rewrite (dfire_tranche_skip_dyn _ _ _ _ _ _ _ Em) in E. exact (IH _ _ _ _ E Hall' eq_refl _ _ H).
Qed.

Lemma dsync_loop_dsteps : forall pf fuel t ev k s t' ev' k' s', dsync_loop D pf fuel t ev k s = (t', ev', k', s') ->
  forall s0 cs, DSteps D Xpos s0 cs s -> exists cs', DSteps D Xpos s0 (cs ++ cs') s'.
Proof.
  intros pf. induction fuel as [|f IH]; intros t ev k s t' ev' k' s' E s0 cs H.
  - cbn [dsync_loop] in E. inversion E; subst. exists []. rewrite app_nil_r.
    eapply dst_sched; [exact H | apply dsched_set_stuck].
  - rewrite dsync_loop_S in E. destruct (at_equil tb t s).
    { inversion E; subst. exists []. rewrite app_nil_r. exact H. }
    unfold dsync_step in E.
    assert (H0 : DSteps D Xpos s0 cs (set_clock t s)) by (eapply dst_sched; [exact H | apply dsched_set_clock]).
    destruct (run_pending tb pf t 0 (set_clock t s)) as [n s1] eqn:Ep.
    destruct (run_pending_dsteps D Xpos _ _ _ _ _ _ Ep _ _ H0) as [c1 [H1 _]].
    destruct (dtranche_spec (set_clock t s1)) as [Ho Hsel].
    destruct (dtranche D (set_clock t s1)) as [evs s2]. cbn [fst snd] in *.
    assert (H2 : DSteps D Xpos s0 (cs ++ c1) s2).
    { eapply dst_sched; [eapply dst_sched; [exact H1 | apply dsched_set_clock] | apply dsched_osame; exact Ho]. }
    destruct (dfire_tranche D t evs n s2) as [nev s3] eqn:Ef.
    assert (Hall : Forall dsel_range evs) by (eapply Forall_impl; [|exact Hsel]; intros xe; apply dsel_ok_range).
    assert (Hc2 : clock s2 = t) by (rewrite (osame_clock _ _ Ho); reflexivity).
    destruct (dfire_tranche_dsteps _ _ _ _ _ _ Ef Hall Hc2 _ _ H2) as [c2 [H3 _]].
    destruct (IH _ _ _ _ _ _ _ _ E _ _ H3) as [c3 H4]. exists (c1 ++ c2 ++ c3).
    rewrite <- !app_assoc in H4. exact H4.
Qed.

Theorem dsync_run_dsteps pf fuel rs ds :
  exists cs, DSteps D Xpos (setup_state tb rs [] ds) cs (r_final (dsync_run D pf fuel rs ds)).
Proof.
  unfold dsync_run.
  destruct (dsync_loop D pf fuel 1 0 0 (setup_state tb rs [] ds)) as [[[t ev] k] s] eqn:E. cbn [r_final].
  destruct (dsync_loop_dsteps _ _ _ _ _ _ _ _ _ _ E _ [] (dst_refl D Xpos _)) as [cs H]. exists cs. exact H.
Qed.

(* ------------------------------------------------------------------ what a run writes *)
(* every event function entered from the scheduler passed its membership test *)
Definition member_rec (o : obs) : Prop :=
  match o with OHandler _ _ _ _ m => m = None \/ m = Some true | _ => True end.

Lemma act_member o : act_obs o -> member_rec o.
Proof. destruct o; cbn; tauto. Qed.

Lemma dafter_member Xtr c s : dcall_ok D Xtr c s -> Forall member_rec (out s) -> Forall member_rec (out (dafter D c s)).
Proof.
  intros Hok Hm. destruct c as [[[pi j] ev] t e|pi d t|h]; cbn [dafter].
  - destruct (fire_event_spec tb pi j ev t e s) as [_ [l [A E]]]. cbv zeta in E. rewrite E.
    destruct Hok as (_ & Hmem & _). cbn [snd] in Hmem. rewrite Hmem.
    constructor; [exact I|]. apply Forall_app. split; [exact (Forall_impl _ act_member A)|].
    constructor; [right; reflexivity | exact Hm].
  - destruct (fire_dyn_spec D pi d t s) as [_ [l [A E]]]. cbv zeta in E. rewrite E.
    destruct Hok as (_ & Hmem & _). rewrite Hmem.
    constructor; [exact I|]. apply Forall_app. split; [exact (Forall_impl _ act_member A)|].
    constructor; [right; reflexivity | exact Hm].
  - unfold pend_step. cbn [out emit]. constructor; [exact I|].
    destruct (fire_shape tb h (set_clock (e_time h) (set_queue (remove_id (e_id h) (queue s)) s))) as [l [A E]].
    rewrite E. apply Forall_app. split; [exact (Forall_impl _ act_member A)|].
    constructor; [left; reflexivity | exact Hm].
Qed.

Lemma DSteps_member Xtr s0 cs s : DSteps D Xtr s0 cs s -> Forall member_rec (out s0) -> Forall member_rec (out s).
Proof.
  intros H H0.
  refine (proj1 (DSteps_inv D Xtr (fun s => Forall member_rec (out s)) _ _ s0 cs s H0 H)).
  - intros s1 s2 Hj (_ & _ & Ho & _). rewrite Ho. exact Hj.
  - intros s1 c Hj Hok. exact (dafter_member Xtr c s1 Hok Hj).
Qed.

Lemma setup_member rs ls ds : Forall member_rec (out (setup_state tb rs ls ds)).
Proof. exact (Forall_impl _ act_member (proj1 (setup_state_out tb rs ls ds))). Qed.

End DL.
