(* The life cycle of an experiment object (Model/Lifecycle.v): set-up overwrites every per-run
   field, so the state at simulationStarted does not depend on the history; the prototype
   network is never written; the generator's quota; the protocol of one run. *)
From Coq Require Import List ZArith QArith Bool Arith String Lia.
From EpyV Require Import Model.Kernel Model.Lifecycle.
Import ListNotations.
Close Scope Q_scope.
Open Scope list_scope.

Section Proofs.
Variables G W P : Type.
Variable u : user G W P.
Notation state := (state G W P).

(* ------------------------------------------------------------------ heap *)
Lemma h_get_alloc (a : nat) (g : G) (h : heap G) :
  h_get a (snd (h_alloc g h)) = if Nat.eqb a (h_next h) then Some g else h_get a h.
Proof. reflexivity. Qed.
Lemma h_get_set (a b : nat) (g : G) (h : heap G) :
  h_get a (h_set b g h) = if Nat.eqb a b then Some g else h_get a h.
Proof. reflexivity. Qed.

(* the prototype holds g0, the working network (if any) is another object, addresses are allocated *)
Definition Inv (g0 : G) (s : state) : Prop :=
  h_get (s_proto s) (s_heap s) = Some g0
  /\ s_proto s < h_next (s_heap s)
  /\ match s_graph s with Some a => a <> s_proto s /\ a < h_next (s_heap s) | None => True end.

Definition can_generate (s : state) : bool :=
  match s_remaining s with Some O => false | _ => true end.

(* a step that touches neither the heap nor the two references *)
Lemma Inv_eq g0 (s s' : state) :
  s_proto s' = s_proto s -> s_heap s' = s_heap s -> s_graph s' = s_graph s -> Inv g0 s -> Inv g0 s'.
Proof. unfold Inv. intros -> -> ->. tauto. Qed.
(* a step that drops the working network *)
Lemma Inv_drop g0 (s s' : state) :
  s_proto s' = s_proto s -> s_heap s' = s_heap s -> s_graph s' = None -> Inv g0 s -> Inv g0 s'.
Proof. unfold Inv. intros -> -> ->. tauto. Qed.
(* a step that writes the working network *)
Lemma Inv_hset g0 (s s' : state) a g' :
  s_graph s = Some a -> s_proto s' = s_proto s -> s_heap s' = h_set a g' (s_heap s) -> s_graph s' = s_graph s ->
  Inv g0 s -> Inv g0 s'.
Proof.
  unfold Inv. intros Eg -> -> ->. rewrite Eg. intros (H1 & H2 & Hne & Hlt). rewrite h_get_set.
  destruct (Nat.eqb_spec (s_proto s) a) as [E|_]; [congruence|]. repeat split; assumption.
Qed.
(* the step that allocates the copy *)
Lemma Inv_put g0 g (s : state) : Inv g0 s -> Inv g0 (put_graph g s).
Proof.
  intros (H1 & H2 & _). unfold Inv. cbn. unfold h_get. cbn.
  destruct (Nat.eqb_spec (s_proto s) (h_next (s_heap s))) as [E|_]; [lia|].
  split; [exact H1|]. split; [lia|]. split; lia.
Qed.

(* user code reaches only the working network *)
Lemma Inv_act g0 (f : st W * G -> st W * G) (s : state) : Inv g0 s -> Inv g0 (act f s).
Proof.
  intro HI. unfold act. destruct (s_graph s) as [a|] eqn:Eg; [|exact HI].
  destruct (h_get a (s_heap s)) as [g|]; [|exact HI].
  apply (Inv_hset g0 s _ a (snd (f (s_k s, g))) Eg); try reflexivity. exact HI.
Qed.

Lemma act_fields (f : st W * G -> st W * G) (s : state) :
  s_proto (act f s) = s_proto s /\ s_remaining (act f s) = s_remaining s /\ s_generated (act f s) = s_generated s
  /\ s_runid (act f s) = s_runid s /\ s_trace (act f s) = s_trace s /\ s_graph (act f s) = s_graph s
  /\ s_status (act f s) = s_status s.
Proof.
  unfold act. destruct (s_graph s) as [a|] eqn:Eg; [|repeat split; try reflexivity; exact Eg].
  destruct (h_get a (s_heap s)) as [g|]; [|repeat split; try reflexivity; exact Eg].
  repeat split; try reflexivity. exact Eg.
Qed.

(* ------------------------------------------------------------------ case analysis of set-up *)
Inductive net_case (params : P) (inj : option fail) (s : state) : state * bool -> Prop :=
| NC_exhausted : s_remaining s = Some O -> net_case params inj s (no_graph (drop_graph params s), false)
| NC_generator_raised : s_remaining s <> Some O -> inj = Some FGenerate ->
    net_case params inj s (take_quota (drop_graph params s), true)
| NC_no_prototype : s_remaining s <> Some O -> inj <> Some FGenerate -> h_get (s_proto s) (s_heap s) = None ->
    net_case params inj s (drop_graph params s, true)
| NC_generated g : s_remaining s <> Some O -> inj <> Some FGenerate -> h_get (s_proto s) (s_heap s) = Some g ->
    net_case params inj s (put_graph g (take_quota (drop_graph params s)), false).

Lemma net_setup_case params inj s : net_case params inj s (net_setup params inj s).
Proof.
  unfold net_setup. destruct (s_remaining s) as [[|n]|] eqn:Er; [apply NC_exhausted; exact Er| |].
  all: destruct inj as [[| | | | | |]|].
  all: try (apply NC_generator_raised; congruence).
  all: destruct (h_get (s_proto s) (s_heap s)) as [g|] eqn:Eg;
       [apply NC_generated; congruence|apply NC_no_prototype; congruence].
Qed.

Inductive dyn_case (i : nat) (params : P) (inj : option fail) (s : state) : state * bool -> Prop :=
| DC_reset : inj = Some FReset -> dyn_case i params inj s (log TReset (clear_stream u i s), true)
| DC_build : inj = Some FBuild ->
    dyn_case i params inj s (act (u_partial u FBuild params) (log TBuild (reset_proc u i (clear_stream u i s))), true)
| DC_no_network : inj <> Some FReset -> inj <> Some FBuild ->
    (s_graph s = None \/ exists a, s_graph s = Some a /\ h_get a (s_heap s) = None) ->
    dyn_case i params inj s (log TBuild (reset_proc u i (clear_stream u i s)), true)
| DC_proc_setup a g : inj = Some FProcSetUp -> s_graph s = Some a -> h_get a (s_heap s) = Some g ->
    dyn_case i params inj s
      (act (u_partial u FProcSetUp params)
           (log TProcSetUp (built u i (u_table u params g) (reset_proc u i (clear_stream u i s)))), true)
| DC_ok a g : inj <> Some FReset -> inj <> Some FBuild -> inj <> Some FProcSetUp ->
    s_graph s = Some a -> h_get a (s_heap s) = Some g ->
    dyn_case i params inj s
      (proc_setup u i a (u_decorate u params g) (u_table u params g)
                  (built u i (u_table u params g) (reset_proc u i (clear_stream u i s))), false).

Lemma dyn_setup_case i params inj s : dyn_case i params inj s (dyn_setup u i params inj s).
Proof.
  unfold dyn_setup.
  destruct inj as [[| | | | | |]|]; try (apply DC_reset; reflexivity); try (apply DC_build; reflexivity).
  all: destruct (s_graph s) as [a|] eqn:Eg; [|apply DC_no_network; [congruence|congruence|left; exact Eg]].
  all: destruct (h_get a (s_heap s)) as [g|] eqn:Ea;
       [|apply DC_no_network; [congruence|congruence|right; exists a; split; [exact Eg|exact Ea]]].
  all: try (apply (DC_ok i params _ s a g); try congruence; assumption).
  apply (DC_proc_setup i params _ s a g); [reflexivity|exact Eg|exact Ea].
Qed.

(* ------------------------------------------------------------------ the invariant *)
Lemma Inv_net_setup g0 params inj s : Inv g0 s -> Inv g0 (fst (net_setup params inj s)).
Proof.
  intro HI. destruct (net_setup_case params inj s); cbn [fst].
  - apply (Inv_drop g0 s); try reflexivity. exact HI.
  - apply (Inv_drop g0 s); try reflexivity. exact HI.
  - apply (Inv_drop g0 s); try reflexivity. exact HI.
  - apply Inv_put. apply (Inv_drop g0 s); try reflexivity. exact HI.
Qed.

Lemma Inv_dyn_setup g0 i params inj s : Inv g0 s -> Inv g0 (fst (dyn_setup u i params inj s)).
Proof.
  intro HI. destruct (dyn_setup_case i params inj s); cbn [fst].
  - apply (Inv_eq g0 s); try reflexivity. exact HI.
  - apply Inv_act. apply (Inv_eq g0 s); try reflexivity. exact HI.
  - apply (Inv_eq g0 s); try reflexivity. exact HI.
  - apply Inv_act. apply (Inv_eq g0 s); try reflexivity. exact HI.
  - apply (Inv_hset g0 s _ a (u_decorate u params g)); try reflexivity; assumption.
Qed.

Lemma Inv_setup g0 i params inj s : Inv g0 s -> Inv g0 (fst (setup u i params inj s)).
Proof.
  intro HI. unfold setup.
  assert (H1 : Inv g0 (fst (net_setup params inj (prologue s)))).
  { apply Inv_net_setup. apply (Inv_eq g0 s); try reflexivity. exact HI. }
  destruct (snd (net_setup params inj (prologue s))); [exact H1|]. apply Inv_dyn_setup. exact H1.
Qed.

Lemma Inv_after_started g0 params o (s : state) : Inv g0 s -> Inv g0 (fst (after_started u params o s)).
Proof.
  intro HI. unfold after_started.
  assert (H3 : Inv g0 (act (u_body u o params) (log TStarted s))).
  { apply Inv_act. apply (Inv_eq g0 s); try reflexivity. exact HI. }
  set (s3 := act (u_body u o params) (log TStarted s)) in *. clearbody s3.
  destruct o as [|[| | | |k| |]]; cbn [fst]; apply (Inv_eq g0 s3); try reflexivity; exact H3.
Qed.

Lemma Inv_run_once g0 i params o s : Inv g0 s -> Inv g0 (fst (run_once u i params o s)).
Proof.
  intro HI. unfold run_once.
  pose proof (Inv_setup g0 i params (match o with Ok => None | FailAt f => Some f end) s HI) as H1.
  destruct (snd (setup u i params _ s)); cbn [fst].
  - apply (Inv_eq g0 (fst (setup u i params (match o with Ok => None | FailAt f => Some f end) s))); try reflexivity. exact H1.
  - apply Inv_after_started. exact H1.
Qed.

Lemma Inv_run_all g0 h : forall i s, Inv g0 s -> Inv g0 (run_all u i h s).
Proof.
  induction h as [|[params o] h IH]; intros i s HI; simpl; [exact HI|]. apply IH, Inv_run_once, HI.
Qed.

Lemma Inv_initial g0 limit : Inv g0 (initial u g0 limit).
Proof. unfold Inv, initial. simpl. repeat split. lia. Qed.

(* ------------------------------------------------------------------ fields that a run preserves *)
Lemma setup_proto i params inj (s : state) : s_proto (fst (setup u i params inj s)) = s_proto s.
Proof.
  unfold setup.
  assert (H1 : s_proto (fst (net_setup params inj (prologue s))) = s_proto s)
    by (destruct (net_setup_case params inj (prologue s)); reflexivity).
  destruct (snd (net_setup params inj (prologue s))); [exact H1|].
  rewrite <- H1. generalize (fst (net_setup params inj (prologue s))). intro s1.
  destruct (dyn_setup_case i params inj s1); cbn [fst]; rewrite ?(proj1 (act_fields _ _)); reflexivity.
Qed.

Lemma after_started_proto params o (s : state) : s_proto (fst (after_started u params o s)) = s_proto s.
Proof.
  unfold after_started.
  assert (H3 : s_proto (act (u_body u o params) (log TStarted s)) = s_proto s) by (rewrite (proj1 (act_fields _ _)); reflexivity).
  set (s3 := act (u_body u o params) (log TStarted s)) in *. clearbody s3.
  destruct o as [|[| | | |k| |]]; cbn [fst]; exact H3.
Qed.

Lemma run_once_proto i params o (s : state) : s_proto (fst (run_once u i params o s)) = s_proto s.
Proof.
  unfold run_once. pose proof (setup_proto i params (match o with Ok => None | FailAt f => Some f end) s) as Hs.
  destruct (snd (setup u i params _ s)); cbn [fst]; [exact Hs|]. rewrite after_started_proto. exact Hs.
Qed.

Lemma run_all_proto h : forall i (s : state), s_proto (run_all u i h s) = s_proto s.
Proof.
  induction h as [|[params o] h IH]; intros i s; simpl; [reflexivity|]. rewrite IH. apply run_once_proto.
Qed.

(* the prototype's value after any history is the one it was constructed with *)
Theorem prototype_unchanged g0 limit h :
  let s := run_all u 0 h (initial u g0 limit) in
  h_get (s_proto s) (s_heap s) = Some g0 /\ s_proto s = 0
  /\ match s_graph s with Some a => a <> s_proto s | None => True end.
Proof.
  cbv zeta. pose proof (Inv_run_all g0 h 0 _ (Inv_initial g0 limit)) as (H1 & H2 & H3).
  split; [exact H1|]. split; [rewrite run_all_proto; reflexivity|].
  destruct (s_graph _); [exact (proj1 H3)|exact I].
Qed.

(* ------------------------------------------------------------------ the state at simulationStarted *)
Lemma setup_fresh g0 i params s : Inv g0 s -> can_generate s = true ->
  snd (setup u i params None s) = false /\ view_of (fst (setup u i params None s)) = F u i params g0.
Proof.
  intros (H1 & H2 & H3) Hq. unfold setup.
  destruct (net_setup_case params None (prologue s)) as [Hr|Hr Hi|Hr Hi Hp|g Hr Hi Hp]; cbn [fst snd].
  - exfalso. unfold can_generate in Hq. change (s_remaining (prologue s)) with (s_remaining s) in Hr. rewrite Hr in Hq. discriminate.
  - discriminate.
  - exfalso. change (h_get (s_proto s) (s_heap s) = None) in Hp. congruence.
  - change (h_get (s_proto s) (s_heap s) = Some g) in Hp. assert (g = g0) by congruence. subst g.
    set (s1 := put_graph g0 (take_quota (drop_graph params (prologue s)))).
    assert (Eg : s_graph s1 = Some (h_next (s_heap s))) by reflexivity.
    assert (Ea : h_get (h_next (s_heap s)) (s_heap s1) = Some g0) by (unfold s1, h_get; cbn; rewrite Nat.eqb_refl; reflexivity).
    destruct (dyn_setup_case i params None s1) as [Hj|Hj|_ _ Hn|a g Hj _ _|a g _ _ _ Ha Hg]; try discriminate; cbn [fst snd].
    + exfalso. destruct Hn as [Hn|(a & Ha & Hn)]; [congruence|]. rewrite Eg in Ha. injection Ha as <-. congruence.
    + rewrite Eg in Ha. injection Ha as <-. rewrite Ea in Hg. injection Hg as <-.
      split; [reflexivity|]. unfold view_of, F. cbn. unfold h_get. cbn. rewrite Nat.eqb_refl. reflexivity.
Qed.

Lemma setup_exhausted i params s : s_remaining s = Some O ->
  snd (setup u i params None s) = true
  /\ view_of (fst (setup u i params None s))
     = {| v_net := None; v_genparams := Some params; v_topology := true; v_k := fresh_k u (u_world u) i;
          v_table := None; v_status := None; v_results := false |}.
Proof.
  intro Hr. unfold setup.
  destruct (net_setup_case params None (prologue s)) as [_|Hr'|Hr'|g Hr']; cbn [fst snd];
    try (exfalso; apply Hr'; exact Hr).
  set (s1 := no_graph (drop_graph params (prologue s))).
  assert (Eg : s_graph s1 = None) by reflexivity.
  destruct (dyn_setup_case i params None s1) as [Hj|Hj|_ _ Hn|a g Hj _ _|a g _ _ _ Ha Hg]; try discriminate; cbn [fst snd].
  split; reflexivity.
Qed.

(* set-up reads no per-run field: from any two states of objects around the same prototype value
   and with the same quota status it leaves the same per-run state *)
Theorem fresh g0 i params s s' : Inv g0 s -> Inv g0 s' -> can_generate s = can_generate s' ->
  snd (setup u i params None s) = snd (setup u i params None s')
  /\ view_of (fst (setup u i params None s)) = view_of (fst (setup u i params None s')).
Proof.
  intros HI HI' Hq. destruct (can_generate s) eqn:E.
  - destruct (setup_fresh g0 i params s HI E) as [A B]. destruct (setup_fresh g0 i params s' HI' (eq_sym Hq)) as [A' B'].
    rewrite A, A', B, B'. split; reflexivity.
  - assert (Hr : s_remaining s = Some O) by (unfold can_generate in E; destruct (s_remaining s) as [[|n]|]; congruence).
    assert (Hr' : s_remaining s' = Some O)
      by (symmetry in Hq; unfold can_generate in Hq; destruct (s_remaining s') as [[|n]|]; congruence).
    destruct (setup_exhausted i params s Hr) as [A B]. destruct (setup_exhausted i params s' Hr') as [A' B'].
    rewrite A, A', B, B'. split; reflexivity.
Qed.

(* after every history, the next run starts from F(parameters, prototype value, its random source) *)
Theorem history g0 limit h params :
  let s := run_all u 0 h (initial u g0 limit) in
  can_generate s = true ->
  exists s1, at_started u (List.length h) params s = Some s1 /\ view_of s1 = F u (List.length h) params g0.
Proof.
  cbv zeta. intro Hq. pose proof (Inv_run_all g0 h 0 _ (Inv_initial g0 limit)) as HI.
  destruct (setup_fresh g0 (List.length h) params _ HI Hq) as [A B]. unfold at_started. rewrite A.
  eexists. split; [reflexivity|exact B].
Qed.

(* ------------------------------------------------------------------ quota *)
Definition quota_inv (L : nat) (s : state) : Prop :=
  exists r, s_remaining s = Some r /\ s_generated s + r <= L.

Lemma quota_eq L (s s' : state) : s_remaining s' = s_remaining s -> s_generated s' = s_generated s -> quota_inv L s -> quota_inv L s'.
Proof. unfold quota_inv. intros -> ->. tauto. Qed.

Lemma setup_quota L i params inj s : quota_inv L s -> quota_inv L (fst (setup u i params inj s)).
Proof.
  intro HQ. unfold setup.
  assert (H1 : quota_inv L (fst (net_setup params inj (prologue s)))).
  { destruct HQ as (r & Hr & Hle).
    destruct (net_setup_case params inj (prologue s)) as [_|Hr' _|Hr' _ _|g Hr' _ _]; cbn [fst].
    - exists r. split; [exact Hr|exact Hle].
    - change (s_remaining s <> Some O) in Hr'. unfold quota_inv. cbn. rewrite Hr.
      destruct r as [|n]; [congruence|]. exists n. split; [reflexivity|lia].
    - exists r. split; [exact Hr|exact Hle].
    - change (s_remaining s <> Some O) in Hr'. unfold quota_inv. cbn. rewrite Hr.
      destruct r as [|n]; [congruence|]. exists n. split; [reflexivity|lia]. }
  destruct (snd (net_setup params inj (prologue s))); [exact H1|].
  revert H1. generalize (fst (net_setup params inj (prologue s))). intros s1 H1.
  destruct (dyn_setup_case i params inj s1); cbn [fst].
  all: apply (quota_eq L s1); [| |exact H1];
       rewrite ?(proj1 (proj2 (act_fields _ _))), ?(proj1 (proj2 (proj2 (act_fields _ _)))); reflexivity.
Qed.

Lemma after_started_quota L params o (s : state) : quota_inv L s -> quota_inv L (fst (after_started u params o s)).
Proof.
  intro HQ. unfold after_started.
  assert (H3 : quota_inv L (act (u_body u o params) (log TStarted s))).
  { apply (quota_eq L s); [| |exact HQ].
    - rewrite (proj1 (proj2 (act_fields _ _))). reflexivity.
    - rewrite (proj1 (proj2 (proj2 (act_fields _ _)))). reflexivity. }
  set (s3 := act (u_body u o params) (log TStarted s)) in *. clearbody s3.
  destruct o as [|[| | | |k| |]]; cbn [fst]; apply (quota_eq L s3); try reflexivity; exact H3.
Qed.

Lemma run_once_quota L i params o s : quota_inv L s -> quota_inv L (fst (run_once u i params o s)).
Proof.
  intro HQ. unfold run_once.
  pose proof (setup_quota L i params (match o with Ok => None | FailAt f => Some f end) s HQ) as H1.
  destruct (snd (setup u i params _ s)); cbn [fst].
  - apply (quota_eq L (fst (setup u i params (match o with Ok => None | FailAt f => Some f end) s))); try reflexivity. exact H1.
  - apply after_started_quota. exact H1.
Qed.

Theorem quota L h : forall i s, quota_inv L s -> quota_inv L (run_all u i h s).
Proof.
  induction h as [|[params o] h IH]; intros i s HQ; simpl; [exact HQ|]. apply IH, run_once_quota, HQ.
Qed.

Theorem quota_total g0 L h : s_generated (run_all u 0 h (initial u g0 (Some L))) <= L.
Proof.
  assert (HQ : quota_inv L (initial u g0 (Some L))) by (exists L; split; [reflexivity|simpl; lia]).
  destruct (quota L h 0 _ HQ) as (r & _ & Hle). lia.
Qed.

Lemma run_all_unbounded h : forall i (s : state), s_remaining s = None -> s_remaining (run_all u i h s) = None.
Proof.
  induction h as [|[params o] h IH]; intros i s Hs; simpl; [exact Hs|]. apply IH.
  unfold run_once. set (inj := match o with Ok => None | FailAt f => Some f end).
  assert (H1 : s_remaining (fst (setup u i params inj s)) = None).
  { unfold setup.
    assert (H0 : s_remaining (fst (net_setup params inj (prologue s))) = None).
    { destruct (net_setup_case params inj (prologue s)); cbn; rewrite ?Hs; reflexivity. }
    destruct (snd (net_setup params inj (prologue s))); [exact H0|].
    revert H0. generalize (fst (net_setup params inj (prologue s))). intros s1 H0.
    destruct (dyn_setup_case i params inj s1); cbn [fst]; rewrite ?(proj1 (proj2 (act_fields _ _))); exact H0. }
  destruct (snd (setup u i params inj s)); cbn [fst]; [exact H1|].
  unfold after_started.
  assert (H3 : s_remaining (act (u_body u o params) (log TStarted (fst (setup u i params inj s)))) = None)
    by (rewrite (proj1 (proj2 (act_fields _ _))); exact H1).
  set (s3 := act (u_body u o params) (log TStarted (fst (setup u i params inj s)))) in *. clearbody s3.
  destruct o as [|[| | | |k| |]]; cbn [fst]; exact H3.
Qed.

(* ------------------------------------------------------------------ the protocol of one run *)
(* the calls that one run adds to the trace, oldest first *)
Definition calls_of (s s' : state) (l : list tag) : Prop := s_trace s' = rev l ++ s_trace s.

Definition protocol_spec (o : outcome) (s s' : state) (failed : bool) : Prop :=
  match o with
  | Ok => failed = false /\ s_status s' = Some true /\ queue (s_k s') = []
          /\ calls_of s s' [TSetUp; TGenerate true; TReset; TBuild; TProcSetUp; TStarted; TResults; TEnded; TProcTearDown; TTornDown]
  | FailAt FGenerate => failed = true /\ s_status s' = Some false /\ calls_of s s' [TSetUp]
  | FailAt FReset => failed = true /\ s_status s' = Some false /\ calls_of s s' [TSetUp; TGenerate true; TReset]
  | FailAt FBuild => failed = true /\ s_status s' = Some false /\ calls_of s s' [TSetUp; TGenerate true; TReset; TBuild]
  | FailAt FProcSetUp => failed = true /\ s_status s' = Some false
                         /\ calls_of s s' [TSetUp; TGenerate true; TReset; TBuild; TProcSetUp]
  | FailAt (FEvent _) => failed = true /\ s_status s' = Some false /\ queue (s_k s') = []
                         /\ calls_of s s' [TSetUp; TGenerate true; TReset; TBuild; TProcSetUp; TStarted; TProcTearDown; TTornDown]
  | FailAt FResults => failed = true /\ s_status s' = Some false /\ queue (s_k s') = []
                       /\ calls_of s s' [TSetUp; TGenerate true; TReset; TBuild; TProcSetUp; TStarted; TResults; TProcTearDown; TTornDown]
  | FailAt FProcTearDown => failed = true /\ s_status s' = Some false
                            /\ calls_of s s' [TSetUp; TGenerate true; TReset; TBuild; TProcSetUp; TStarted; TResults; TEnded; TProcTearDown]
  end.

Theorem protocol g0 i params o s : Inv g0 s -> can_generate s = true ->
  protocol_spec o s (fst (run_once u i params o s)) (snd (run_once u i params o s)).
Proof.
  intros (H1 & H2 & H3) Hq. unfold run_once, setup.
  set (inj := match o with Ok => None | FailAt f => Some f end).
  destruct (net_setup_case params inj (prologue s)) as [Hr|Hr Hi|Hr Hi Hp|g Hr Hi Hp]; cbn [fst snd].
  - exfalso. unfold can_generate in Hq. change (s_remaining s = Some O) in Hr. rewrite Hr in Hq. discriminate.
  - destruct o as [|[| | | |k| |]]; try discriminate. cbn. repeat split; reflexivity.
  - exfalso. change (h_get (s_proto s) (s_heap s) = None) in Hp. congruence.
  - set (s1 := put_graph g (take_quota (drop_graph params (prologue s)))).
    assert (Et : s_trace s1 = TGenerate true :: TSetUp :: s_trace s) by reflexivity.
    assert (Eg : s_graph s1 = Some (h_next (s_heap s))) by reflexivity.
    assert (Ea : h_get (h_next (s_heap s)) (s_heap s1) = Some g) by (unfold s1, h_get; cbn; rewrite Nat.eqb_refl; reflexivity).
    clearbody s1.
    destruct (dyn_setup_case i params inj s1) as [Hj|Hj|Hj1 Hj2 Hn|a g' Hj Ha Hg|a g' Hj1 Hj2 Hj3 Ha Hg]; cbn [fst snd].
    + destruct o as [|[| | | |k| |]]; try discriminate. cbn [protocol_spec]. unfold calls_of. cbn. rewrite Et. repeat split; reflexivity.
    + destruct o as [|[| | | |k| |]]; try discriminate. cbn [protocol_spec].
      destruct (act_fields (u_partial u FBuild params) (log TBuild (reset_proc u i (clear_stream u i s1)))) as (_ & _ & _ & _ & At & _ & As).
      unfold calls_of. cbn. rewrite At. cbn. rewrite Et. repeat split; reflexivity.
    + exfalso. destruct Hn as [Hn|(a & Ha & Hn)]; [congruence|]. rewrite Eg in Ha. injection Ha as <-. congruence.
    + destruct o as [|[| | | |k| |]]; try discriminate. cbn [protocol_spec].
      match goal with |- context [act ?f ?x] => destruct (act_fields f x) as (_ & _ & _ & _ & At & _ & As) end.
      unfold calls_of. cbn. rewrite At. cbn. rewrite Et. repeat split; reflexivity.
    + set (s2 := proc_setup u i a (u_decorate u params g') (u_table u params g')
                            (built u i (u_table u params g') (reset_proc u i (clear_stream u i s1)))).
      assert (Et2 : s_trace s2 = TProcSetUp :: TBuild :: TReset :: TGenerate true :: TSetUp :: s_trace s)
        by (unfold s2; cbn; rewrite Et; reflexivity).
      clearbody s2. unfold after_started.
      destruct (act_fields (u_body u o params) (log TStarted s2)) as (_ & _ & _ & _ & At & _ & As).
      set (s3 := act (u_body u o params) (log TStarted s2)) in *. clearbody s3. cbn in At.
      destruct o as [|[| | | |k| |]]; unfold inj in *; try (exfalso; congruence); cbn; unfold calls_of; cbn; rewrite At, Et2; repeat split; reflexivity.
Qed.

End Proofs.
