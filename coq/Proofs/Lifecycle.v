(* The life cycle of an experiment object (Model/Lifecycle.v): set-up overwrites every per-run
   field, so the state at simulationStarted does not depend on the history; the prototype
   network is never written; the generator's quota. *)
From Coq Require Import List ZArith QArith Bool Arith String Lia.
From EpyV Require Import Model.Kernel Model.Lifecycle.
Import ListNotations.
Close Scope Q_scope.
Open Scope list_scope.

Section Proofs.
Variables G W P : Type.
Variable u : user G W P.
Notation state := (state G W P).

(* ------------------------------------------------------------------ heap *)
Lemma h_get_alloc (a : nat) (g : G) (h : heap G) :
  h_get a (snd (h_alloc g h)) = if Nat.eqb a (h_next h) then Some g else h_get a h.
Proof. reflexivity. Qed.
Lemma h_get_set (a b : nat) (g : G) (h : heap G) :
  h_get a (h_set b g h) = if Nat.eqb a b then Some g else h_get a h.
Proof. reflexivity. Qed.

(* the prototype holds g0, the working network (if any) is another object, addresses are allocated *)
Definition Inv (g0 : G) (s : state) : Prop :=
  h_get (s_proto s) (s_heap s) = Some g0
  /\ s_proto s < h_next (s_heap s)
  /\ match s_graph s with Some a => a <> s_proto s /\ a < h_next (s_heap s) | None => True end.

Definition can_generate (s : state) : bool :=
  match s_remaining s with Some O => false | _ => true end.

Lemma Inv_log g0 t (s : state) : Inv g0 s -> Inv g0 (log t s).
Proof. exact (fun H => H). Qed.
Lemma Inv_set_status g0 b (s : state) : Inv g0 s -> Inv g0 (set_status b s).
Proof. exact (fun H => H). Qed.
Lemma Inv_set_k g0 k (s : state) : Inv g0 s -> Inv g0 (set_k k s).
Proof. exact (fun H => H). Qed.
Lemma Inv_prologue g0 (s : state) : Inv g0 s -> Inv g0 (prologue s).
Proof. exact (fun H => H). Qed.

(* user code reaches only the working network *)
Lemma Inv_act g0 (f : st W * G -> st W * G) (s : state) : Inv g0 s -> Inv g0 (act f s).
Proof.
  intros (H1 & H2 & H3). unfold act. destruct (s_graph s) as [a|] eqn:Eg; [|repeat split; try assumption; rewrite Eg; exact I].
  destruct (h_get a (s_heap s)) as [g|]; [|repeat split; try assumption; rewrite Eg; exact H3].
  destruct (f (s_k s, g)) as [k g']. unfold Inv. simpl. rewrite Eg. destruct H3 as [Hne Hlt].
  rewrite h_get_set. destruct (Nat.eqb_spec (s_proto s) a) as [E|_]; [congruence|]. repeat split; assumption.
Qed.

Lemma act_fields (f : st W * G -> st W * G) (s : state) :
  s_proto (act f s) = s_proto s /\ s_remaining (act f s) = s_remaining s /\ s_generated (act f s) = s_generated s
  /\ s_runid (act f s) = s_runid s /\ s_trace (act f s) = s_trace s /\ s_graph (act f s) = s_graph s.
Proof.
  unfold act. destruct (s_graph s) as [a|] eqn:Eg; [|repeat split; try reflexivity; exact Eg].
  destruct (h_get a (s_heap s)) as [g|]; [|repeat split; try reflexivity; exact Eg].
  destruct (f (s_k s, g)) as [k g']. repeat split; try reflexivity. exact Eg.
Qed.

(* ------------------------------------------------------------------ set-up *)
Lemma Inv_net_setup g0 params inj s : Inv g0 s -> Inv g0 (fst (net_setup params inj s)).
Proof.
  intros (H1 & H2 & H3). unfold net_setup.
  assert (Hgo : forall rem,
    Inv g0 (fst (match inj with
                 | Some FGenerate =>
                     (upd G W P s (s_heap s) rem (s_generated s) (s_runid s) (TSetUp :: s_trace s) None (Some params) (s_topology s)
                          (s_k s) (s_table s) (s_status s) (s_results s), true)
                 | _ =>
                     match h_get (s_proto s) (s_heap s) with
                     | None => (upd G W P s (s_heap s) (s_remaining s) (s_generated s) (s_runid s) (TSetUp :: s_trace s) None
                                    (Some params) (s_topology s) (s_k s) (s_table s) (s_status s) (s_results s), true)
                     | Some g =>
                         let '(a, h) := h_alloc g (s_heap s) in
                         (upd G W P s h rem (S (s_generated s)) (s_runid s) (TGenerate true :: TSetUp :: s_trace s) (Some a)
                              (Some params) true (s_k s) (s_table s) (s_status s) (s_results s), false)
                     end
                 end))).
  { intro rem.
    assert (Hgen : Inv g0 (fst (match h_get (s_proto s) (s_heap s) with
                     | None => (upd G W P s (s_heap s) (s_remaining s) (s_generated s) (s_runid s) (TSetUp :: s_trace s) None
                                    (Some params) (s_topology s) (s_k s) (s_table s) (s_status s) (s_results s), true)
                     | Some g =>
                         let '(a, h) := h_alloc g (s_heap s) in
                         (upd G W P s h rem (S (s_generated s)) (s_runid s) (TGenerate true :: TSetUp :: s_trace s) (Some a)
                              (Some params) true (s_k s) (s_table s) (s_status s) (s_results s), false)
                     end))).
    { rewrite H1. unfold Inv. simpl. unfold h_get. simpl.
      destruct (Nat.eqb_spec (s_proto s) (h_next (s_heap s))) as [E|_]; [lia|].
      split; [exact H1|]. split; [lia|]. split; lia. }
    destruct inj as [[| | | | | |]|]; try exact Hgen.
    unfold Inv. simpl. repeat split; assumption. }
  simpl. destruct (s_remaining s) as [[|n]|]; [|apply Hgo|apply Hgo].
  unfold Inv. simpl. repeat split; assumption.
Qed.

Lemma Inv_eq g0 (s s' : state) :
  s_proto s' = s_proto s -> s_heap s' = s_heap s -> s_graph s' = s_graph s -> Inv g0 s -> Inv g0 s'.
Proof. unfold Inv. intros -> -> ->. tauto. Qed.

Lemma Inv_hset g0 (s s' : state) a g' :
  s_graph s = Some a -> s_proto s' = s_proto s -> s_heap s' = h_set a g' (s_heap s) -> s_graph s' = s_graph s ->
  Inv g0 s -> Inv g0 s'.
Proof.
  unfold Inv. intros Eg -> -> ->. rewrite Eg. intros (H1 & H2 & Hne & Hlt). rewrite h_get_set.
  destruct (Nat.eqb_spec (s_proto s) a) as [E|_]; [congruence|]. repeat split; assumption.
Qed.

Lemma Inv_dyn_setup g0 i params inj s : Inv g0 s -> Inv g0 (fst (dyn_setup u i params inj s)).
Proof.
  intros HI.
  assert (Hdefault : forall inj', (match inj' with Some FReset | Some FBuild | Some FProcSetUp => False | _ => True end) ->
    Inv g0 (fst (dyn_setup u i params inj' s))).
  { intros inj' Hinj. unfold dyn_setup.
    destruct inj' as [[| | | | | |]|]; try contradiction; clear Hinj; cbn.
    all: destruct (s_graph s) as [a|] eqn:Eg; [|apply (Inv_eq g0 s); [reflexivity|reflexivity|cbn; rewrite Eg; reflexivity|exact HI]].
    all: destruct (h_get a (s_heap s)) as [g|] eqn:Ea; [|apply (Inv_eq g0 s); [reflexivity|reflexivity|cbn; rewrite Eg; reflexivity|exact HI]].
    all: destruct (u_oracle u i) as [[rs ls] ds]; cbn.
    all: apply (Inv_hset g0 s _ a (u_decorate u params g) Eg); [reflexivity|reflexivity|cbn; rewrite Eg; reflexivity|exact HI]. }
  destruct inj as [[| | | | | |]|]; try (apply Hdefault; exact I).
  - (* FReset *) exact HI.
  - (* FBuild *) unfold dyn_setup. cbn -[act]. apply Inv_act. exact HI.
  - (* FProcSetUp *) unfold dyn_setup. cbn -[act].
    destruct (s_graph s) as [a|] eqn:Eg; [|apply (Inv_eq g0 s); [reflexivity|reflexivity|cbn; rewrite Eg; reflexivity|exact HI]].
    destruct (h_get a (s_heap s)) as [g|] eqn:Ea; [|apply (Inv_eq g0 s); [reflexivity|reflexivity|cbn; rewrite Eg; reflexivity|exact HI]].
    destruct (u_oracle u i) as [[rs ls] ds]. cbn -[act]. apply Inv_act.
    apply (Inv_eq g0 s); [reflexivity|reflexivity|cbn; rewrite Eg; reflexivity|exact HI].
Qed.

Lemma Inv_setup g0 i params inj s : Inv g0 s -> Inv g0 (fst (setup u i params inj s)).
Proof.
  intro HI. unfold setup.
  pose proof (Inv_net_setup g0 params inj (prologue s) (Inv_prologue g0 s HI)) as H1.
  destruct (net_setup params inj (prologue s)) as [s1 [|]]; [exact H1|].
  apply Inv_dyn_setup. exact H1.
Qed.

Lemma Inv_teardown g0 inj (s : state) : Inv g0 s -> Inv g0 (fst (teardown inj s)).
Proof. intro HI. unfold teardown. destruct inj as [[| | | | | |]|]; exact HI. Qed.

Lemma Inv_run_once g0 i params o s : Inv g0 s -> Inv g0 (fst (run_once u i params o s)).
Proof.
  intro HI. unfold run_once.
  pose proof (Inv_setup g0 i params (match o with Ok => None | FailAt f => Some f end) s HI) as H1.
  destruct (setup u i params _ s) as [s1 [|]]; [exact H1|].
  assert (H3 : Inv g0 (act (u_body u o params) (log TStarted s1))) by (apply Inv_act; exact H1).
  destruct o as [|[| | | |k| |]]; cbn -[act].
  all: try (apply Inv_set_status; exact H3).
  all: exact H3.
Qed.

Lemma Inv_run_all g0 h : forall i s, Inv g0 s -> Inv g0 (run_all u i h s).
Proof.
  induction h as [|[params o] h IH]; intros i s HI; simpl; [exact HI|]. apply IH, Inv_run_once, HI.
Qed.

Lemma Inv_initial g0 limit : Inv g0 (initial u g0 limit).
Proof. unfold Inv, initial. simpl. repeat split. lia. Qed.

Lemma setup_proto i params inj (s : state) : s_proto (fst (setup u i params inj s)) = s_proto s.
Proof.
  unfold setup, net_setup, dyn_setup.
  destruct (s_remaining (prologue s)) as [[|n]|]; destruct inj as [[| | | | | |]|]; cbn -[act];
  repeat match goal with
         | |- context [h_get ?a ?h] => destruct (h_get a h); cbn -[act]
         | |- context [match s_graph ?x with _ => _ end] => destruct (s_graph x); cbn -[act]
         | |- context [u_oracle u i] => destruct (u_oracle u i) as [[? ?] ?]; cbn -[act]
         | |- context [act ?f ?x] => rewrite (proj1 (act_fields f x)); cbn -[act]
         end; reflexivity.
Qed.

Lemma run_once_proto i params o (s : state) : s_proto (fst (run_once u i params o s)) = s_proto s.
Proof.
  unfold run_once. set (inj := match o with Ok => None | FailAt f => Some f end).
  pose proof (setup_proto i params inj s) as Hs.
  destruct (setup u i params inj s) as [s1 [|]]; [exact Hs|]. simpl in Hs.
  destruct inj as [[| | | |k| |]|]; cbn -[act]; rewrite ?(proj1 (act_fields _ _)); exact Hs.
Qed.

Lemma run_all_proto h : forall i (s : state), s_proto (run_all u i h s) = s_proto s.
Proof.
  induction h as [|[params o] h IH]; intros i s; simpl; [reflexivity|]. rewrite IH. apply run_once_proto.
Qed.

(* the prototype's value after any history is the one it was constructed with *)
Theorem prototype_unchanged g0 limit h :
  let s := run_all u 0 h (initial u g0 limit) in
  h_get (s_proto s) (s_heap s) = Some g0 /\ s_proto s = 0
  /\ match s_graph s with Some a => a <> s_proto s | None => True end.
Proof.
  cbv zeta. pose proof (Inv_run_all g0 h 0 _ (Inv_initial g0 limit)) as (H1 & H2 & H3).
  split; [exact H1|]. split; [rewrite run_all_proto; reflexivity|].
  destruct (s_graph _); [exact (proj1 H3)|exact I].
Qed.

(* ------------------------------------------------------------------ the state at simulationStarted *)
Lemma setup_fresh g0 i params s : Inv g0 s -> can_generate s = true ->
  snd (setup u i params None s) = false /\ view_of (fst (setup u i params None s)) = F u i params g0.
Proof.
  intros (H1 & H2 & H3) Hq. unfold setup, net_setup, dyn_setup, F, can_generate in *. cbn.
  destruct (s_remaining s) as [[|n]|]; [discriminate| |].
  all: cbn; rewrite H1; cbn; unfold h_get at 1; cbn; rewrite Nat.eqb_refl; cbn.
  all: destruct (u_oracle u i) as [[rs ls] ds]; cbn.
  all: split; [reflexivity|]; unfold view_of; cbn; unfold h_get; cbn; rewrite Nat.eqb_refl; reflexivity.
Qed.

Lemma setup_exhausted i params s : s_remaining s = Some O ->
  snd (setup u i params None s) = true
  /\ view_of (fst (setup u i params None s))
     = {| v_net := None; v_genparams := Some params; v_topology := true; v_k := fresh_k u (u_world u) i;
          v_table := None; v_status := None; v_results := false |}.
Proof. intro Hr. unfold setup, net_setup, dyn_setup. cbn. rewrite Hr. cbn. split; reflexivity. Qed.

(* set-up reads no per-run field: from any two states of objects around the same prototype value
   and with the same quota status it leaves the same per-run state *)
Theorem fresh g0 i params s s' : Inv g0 s -> Inv g0 s' -> can_generate s = can_generate s' ->
  snd (setup u i params None s) = snd (setup u i params None s')
  /\ view_of (fst (setup u i params None s)) = view_of (fst (setup u i params None s')).
Proof.
  intros HI HI' Hq. destruct (can_generate s) eqn:E.
  - destruct (setup_fresh g0 i params s HI E) as [A B]. destruct (setup_fresh g0 i params s' HI' (eq_sym Hq)) as [A' B'].
    rewrite A, A', B, B'. split; reflexivity.
  - assert (Hr : s_remaining s = Some O) by (unfold can_generate in E; destruct (s_remaining s) as [[|n]|]; congruence).
    assert (Hr' : s_remaining s' = Some O)
      by (symmetry in Hq; unfold can_generate in Hq; destruct (s_remaining s') as [[|n]|]; congruence).
    destruct (setup_exhausted i params s Hr) as [A B]. destruct (setup_exhausted i params s' Hr') as [A' B'].
    rewrite A, A', B, B'. split; reflexivity.
Qed.

(* after every history, the next run starts from F(parameters, prototype value, its random source) *)
Theorem history g0 limit h params :
  let s := run_all u 0 h (initial u g0 limit) in
  can_generate s = true ->
  exists s1, at_started u (List.length h) params s = Some s1 /\ view_of s1 = F u (List.length h) params g0.
Proof.
  cbv zeta. intro Hq. pose proof (Inv_run_all g0 h 0 _ (Inv_initial g0 limit)) as HI.
  destruct (setup_fresh g0 (List.length h) params _ HI Hq) as [A B]. unfold at_started.
  destruct (setup u (List.length h) params None _) as [s1 r]. simpl in A, B. subst r. exists s1. split; [reflexivity|exact B].
Qed.

(* ------------------------------------------------------------------ quota *)
Definition quota_inv (L : nat) (s : state) : Prop :=
  exists r, s_remaining s = Some r /\ s_generated s + r <= L.

Lemma setup_quota L i params inj s : quota_inv L s -> quota_inv L (fst (setup u i params inj s)).
Proof.
  intros (r & Hr & Hle). unfold quota_inv, setup, net_setup, dyn_setup. cbn. rewrite Hr.
  destruct r as [|n]; destruct inj as [[| | | | | |]|]; cbn;
  repeat match goal with
         | |- context [h_get ?a ?h] => destruct (h_get a h); cbn
         | |- context [s_graph ?x] => destruct (s_graph x); cbn
         | |- context [u_oracle u i] => destruct (u_oracle u i) as [[? ?] ?]; cbn
         | |- context [act ?f ?x] => rewrite (proj1 (proj2 (act_fields f x))), (proj1 (proj2 (proj2 (act_fields f x)))); cbn
         end;
  first [exists 0; split; [reflexivity|lia] | exists n; split; [reflexivity|lia] | exists (S n); split; [reflexivity|lia]].
Qed.

Lemma run_once_quota L i params o s : quota_inv L s -> quota_inv L (fst (run_once u i params o s)).
Proof.
  intro HQ. unfold run_once. set (inj := match o with Ok => None | FailAt f => Some f end).
  pose proof (setup_quota L i params inj s HQ) as H1.
  destruct (setup u i params inj s) as [s1 [|]]; [exact H1|]. simpl in H1.
  destruct H1 as (r & Hr & Hle).
  assert (Ha : forall f, s_remaining (act f (log TStarted s1)) = Some r /\ s_generated (act f (log TStarted s1)) + r <= L).
  { intro f. destruct (act_fields f (log TStarted s1)) as (_ & A & B & _). rewrite A, B. split; assumption. }
  destruct (Ha (u_body u o params)) as [A B].
  destruct inj as [[| | | |k| |]|]; cbn -[act]; exists r; split; assumption.
Qed.

Theorem quota L h : forall i s, quota_inv L s -> quota_inv L (run_all u i h s).
Proof.
  induction h as [|[params o] h IH]; intros i s HQ; simpl; [exact HQ|]. apply IH, run_once_quota, HQ.
Qed.

Theorem quota_total g0 L h : s_generated (run_all u 0 h (initial u g0 (Some L))) <= L.
Proof.
  assert (HQ : quota_inv L (initial u g0 (Some L))) by (exists L; split; [reflexivity|simpl; lia]).
  destruct (quota L h 0 _ HQ) as (r & _ & Hle). lia.
Qed.

(* ------------------------------------------------------------------ the protocol of one run *)
(* the calls that one run adds to the trace, oldest first *)
Definition calls_of (s s' : state) : list tag -> Prop := fun l => s_trace s' = rev l ++ s_trace s.

Theorem protocol g0 i params o s : Inv g0 s -> can_generate s = true ->
  let '(s', failed) := run_once u i params o s in
  match o with
  | Ok => failed = false /\ s_status s' = Some true /\ queue (s_k s') = []
          /\ calls_of s s' [TSetUp; TGenerate true; TReset; TBuild; TProcSetUp; TStarted; TResults; TEnded; TProcTearDown; TTornDown]
  | FailAt FGenerate => failed = true /\ s_status s' = Some false /\ calls_of s s' [TSetUp]
  | FailAt FReset => failed = true /\ s_status s' = Some false /\ calls_of s s' [TSetUp; TGenerate true; TReset]
  | FailAt FBuild => failed = true /\ s_status s' = Some false /\ calls_of s s' [TSetUp; TGenerate true; TReset; TBuild]
  | FailAt FProcSetUp => failed = true /\ s_status s' = Some false
                         /\ calls_of s s' [TSetUp; TGenerate true; TReset; TBuild; TProcSetUp]
  | FailAt (FEvent _) => failed = true /\ s_status s' = Some false /\ queue (s_k s') = []
                         /\ calls_of s s' [TSetUp; TGenerate true; TReset; TBuild; TProcSetUp; TStarted; TProcTearDown; TTornDown]
  | FailAt FResults => failed = true /\ s_status s' = Some false /\ queue (s_k s') = []
                       /\ calls_of s s' [TSetUp; TGenerate true; TReset; TBuild; TProcSetUp; TStarted; TResults; TProcTearDown; TTornDown]
  | FailAt FProcTearDown => failed = true /\ s_status s' = Some false
                            /\ calls_of s s' [TSetUp; TGenerate true; TReset; TBuild; TProcSetUp; TStarted; TResults; TEnded; TProcTearDown]
  end.
Proof.
  intros (H1 & H2 & H3) Hq. unfold can_generate in Hq.
  unfold run_once, setup, net_setup, dyn_setup, calls_of.
  destruct (s_remaining s) as [[|n]|] eqn:Er; [discriminate| |].
  all: destruct o as [|[| | | |k| |]]; cbn -[act]; rewrite ?Er; cbn -[act]; rewrite ?H1; cbn -[act];
       unfold h_get at 1; cbn -[act]; rewrite ?Nat.eqb_refl; cbn -[act];
       try (destruct (u_oracle u i) as [[rs ls] ds]; cbn -[act]).
  all: repeat match goal with
              | |- context [act ?f ?x] =>
                  let Hf := fresh "Hf" in
                  pose proof (act_fields f x) as Hf; destruct Hf as (_ & _ & _ & _ & Hf & _);
                  let y := fresh "y" in let Ey := fresh "Ey" in
                  remember (act f x) as y eqn:Ey; clear Ey; cbn in Hf
              end.
  all: cbn; repeat split; try reflexivity; try (rewrite Hf; reflexivity).
Qed.

End Proofs.
