(* C08, strictness under Gillespie dynamics: in a run that did not exhaust its fuel or oracle, with
   probabilities >= 0 and every ln(1/r) drawn > 0, the hitting time of an infector is STRICTLY
   earlier than that of the node it infects.  The loop time never decreases (C03: Proofs/
   KernelTime.v, tinv), every hitting time recorded so far is <= the loop time, and the next
   stochastic event happens dt > 0 later. *)
From Coq Require Import List ZArith QArith Bool Arith Lia Lqa.
From EpyV Require Import Lib.Prelude Model.Kernel Model.Loci Model.Compart
  Proofs.KernelBase Proofs.KernelLoops Proofs.KernelMember Proofs.KernelTime
  Proofs.LociBase Proofs.LociLocus Proofs.LociInv
  Proofs.CompartRun Proofs.CompartSort Proofs.CompartInv Proofs.CompartDiagram
  Proofs.ContactBase Proofs.ContactForest Proofs.ContactInv Proofs.ContactTime Proofs.ContactSync.
Import ListNotations.
Close Scope Q_scope.

Lemma stoch_select_dt {W} (tb : table W) (s : st W) x dt s3 : stoch_select tb s = Some (x, dt, s3) ->
  dt = Qred ((1 / sum_rates s (transitions tb)) * hd 0%Q (lns s))%Q /\ (stuck s3 = false -> lns s <> [] /\ stuck s = false)
  /\ lns s3 = skipn 1 (lns s).
Proof.
  unfold stoch_select. rewrite next_rand_adv, next_ln_adv, advance_advance. cbn [Nat.add].
  destruct (transitions tb) as [|x0 rest] eqn:Etr; [discriminate|].
  assert (A : forall nr, stuck (advance nr 1 0 s) = false -> lns s <> [] /\ stuck s = false).
  { intros nr H. unfold advance in H. cbn [stuck] in H. rewrite !orb_false_iff in H. destruct H as [[[H1 _] H2] _].
    split; [|exact H1]. intros E. rewrite E in H2. discriminate. }
  destruct rest as [|x1 rest].
  - intros E; inversion E; subst. cbn [lns advance]. split; [reflexivity|]. split; [apply A | reflexivity].
  - rewrite next_rand_adv, advance_advance. cbn [Nat.add]. intros E; inversion E; subst. cbn [lns advance].
    split; [reflexivity|]. split; [apply A | reflexivity].
Qed.

Section CSt.
Variable cm : cmodel.
Variables (nodes : list Z) (edges : list (Z * Z)) (init : list (Z * Z)) (maxtime : Q) (monitor : option Q).
Let tb := mk_table cm nodes edges init maxtime monitor.
Let KK := K cm nodes edges init.
Hypothesis Hwf : wf_model cm = true.
Hypothesis Hon : once_model cm = true.
Hypothesis Hnn : forall ev, In ev (cm_events cm) -> (0 <= ce_p ev)%Q.
Variable pf : nat.

Definition lns_pos (s : st cworld) : Prop := Forall (Qlt 0) (lns s).
Definition hits_le (t : Q) (w : cworld) : Prop := forall n t', In (n, t') (cw_hit w) -> (t' <= t)%Q.
Definition Good (t : Q) (s : st cworld) : Prop := tinv_st t s /\ hits_le t (world s) /\ strictT (world s).
Definition SI (t : Q) (s : st cworld) : Prop := KK s /\ lns_pos s /\ (stuck s = true \/ Good t s).

(* one call: strictness is kept when every hit recorded so far is strictly before the clock *)
Lemma strict_after_call (s : st cworld) c : KK s -> call_ok tb c s -> strictT (world s) ->
  (forall n t', In (n, t') (cw_hit (world s)) -> (t' < clock s)%Q) -> strictT (world (after tb c s)).
Proof.
  intros Hk Hok Hst Hlt.
  destruct (call_records cm nodes edges init maxtime monitor Hwf Hon s c Hk Hok) as [[R1 R2]|(h & n & m & Ek & Emk & R1 & R2)].
  - unfold strictT. fold tb in R1, R2. rewrite R1, R2. exact Hst.
  - destruct (marking_call cm nodes edges init maxtime monitor s c h n m Hwf Hon Hk Hok Ek Emk)
      as (_ & (l & Hl & Hn) & (r' & Hr' & Hm') & _).
    assert (Hnm : n <> m) by (intros ->; rewrite Hn in Hm'; inversion Hm'; subst; contradiction).
    destruct Hk as (_ & _ & (F1 & _)).
    unfold strictT. fold tb in R1, R2. rewrite R1, R2. intros a b ta tb' Ho Hh.
    apply in_app_or in Ho. apply in_app_or in Hh. destruct Ho as [Ho|[Ho|[]]]; destruct Hh as [Hh|[Hh|[]]].
    + exact (Hst a b ta tb' Ho Hh).
    + inversion Hh; subst b tb'. exfalso. exact (proj2 (F1 n l Hn Hl _ Ho) eq_refl).
    + inversion Ho; subst a b ta. exact (Hlt m tb' Hh).
    + inversion Ho; subst a b ta. inversion Hh; subst. contradiction.
Qed.

Lemma hits_after_call (s : st cworld) c t : KK s -> call_ok tb c s -> hits_le t (world s) -> (clock s <= t)%Q ->
  hits_le t (world (after tb c s)).
Proof.
  intros Hk Hok Hh Hc.
  destruct (call_records cm nodes edges init maxtime monitor Hwf Hon s c Hk Hok) as [[_ R2]|(h & n & m & _ & _ & _ & R2)];
    fold tb in R2; unfold hits_le; rewrite R2; [exact Hh|].
  intros a ta Ha. apply in_app_or in Ha. destruct Ha as [Ha|[Ha|[]]]; [exact (Hh a ta Ha)|]. inversion Ha; subst. exact Hc.
Qed.

(* run_pending as run_pendingL *)
Lemma run_pending_L fuel t n (s : st cworld) n' s' : run_pending tb fuel t n s = (n', s') ->
  exists l, run_pendingL tb fuel t n s = (n', s', l).
Proof.
  intros E. pose proof (run_pendingL_fst tb fuel t n s) as F. destruct (run_pendingL tb fuel t n s) as [[a b] l].
  cbn [fst] in F. rewrite E in F. inversion F; subst. exists l. reflexivity.
Qed.

Lemma Hnn_tb : nonneg_tb tb.
Proof. exact (nonneg_mk_table cm nodes edges init maxtime monitor Hnn). Qed.

Theorem stoch_loop_strict : forall fuel t ev (s : st cworld) t' ev' s',
  stoch_loop tb pf fuel t ev s = (t', ev', s') -> SI t s -> SI t' s'.
Proof.
  induction fuel as [|f IH]; intros t ev s t' ev' s' E (Hk & Hl & Hg).
  - cbn [stoch_loop] in E. inversion E; subst.
    split; [exact (K_sched cm nodes edges init s _ Hk (sched_set_stuck s))|]. split; [exact Hl | left; reflexivity].
  - rewrite stoch_loop_S in E. destruct (at_equil tb t s); [inversion E; subst; split; [exact Hk | split; assumption]|].
    destruct (Qeq_bool (sum_rates s (transitions tb)) 0) eqn:Ea.
    + (* no stochastic event possible: jump to the next posted event *)
      unfold next_pending_time in E.
      assert (Hkd : KK (discard s)) by (exact (K_sched cm nodes edges init s _ Hk (sched_discard s))).
      destruct (head (queue (discard s))) as [h|] eqn:Eh; cbn [option_map] in E.
      * destruct (run_pending tb pf (e_time h) 0 (discard s)) as [n s2] eqn:Ep.
        apply (IH _ _ _ _ _ _ E).
        destruct (run_pending_K cm nodes edges init maxtime monitor Hwf Hon _ _ _ _ _ _ Ep Hkd) as (K2 & O2 & H2).
        destruct (run_pending_L _ _ _ _ _ _ Ep) as [l1 Hrp].
        pose proof (run_pendingL_omono _ _ _ _ _ _ _ _ Hrp) as [Hm _].
        split; [exact K2|]. split; [unfold lns_pos; rewrite Hm; exact Hl|].
        destruct (stuck s2) eqn:Es2; [left; reflexivity | right].
        pose proof (run_pendingL_stuck _ _ _ _ _ _ _ _ Hrp Es2) as Es0. change (stuck (discard s)) with (stuck s) in Es0.
        destruct Hg as [Hg|(T & Hh & Hst)]; [congruence|].
        pose proof (tinv_st_discard _ _ T) as T0. pose proof (discard_head_live _ _ Eh) as Hlv.
        assert (Hth : (t <= e_time h)%Q) by (apply (t_live _ _ _ _ T0); [apply head_in; exact Eh | exact Hlv]).
        split; [|split].
        -- destruct pf as [|f0]; [cbn in Hrp; injection Hrp as _ <- _; discriminate|].
           rewrite (run_pendingL_head_fires tb f0 _ _ _ h Eh (Qle_refl _)) in Hrp.
           destruct (run_pendingL tb f0 (e_time h) 1 _) as [[n1 s1'] l1'] eqn:E1. injection Hrp as _ <- _.
           destruct (run_pendingL_tinv tb f0 _ _ _ _ _ _ _ (tinv_pend_step tb h _ _ Eh Hlv T0) E1 Es2) as [L' [A [B [C1 D1]]]].
           apply (tinv_raise L' (clock s1')); [destruct C1 as [C1|C1]; [exact C1 | rewrite C1; apply Qle_refl] | | | exact A].
           ++ pose proof (t_clock _ _ _ _ A). lra.
           ++ intros y Hy Hly. specialize (D1 y Hy Hly). lra.
        -- unfold hits_le. rewrite H2. intros a ta Ha. specialize (Hh a ta Ha). cbn [world discard set_queue] in Hh. lra.
        -- unfold strictT. rewrite O2, H2. exact Hst.
      * inversion E; subst. split; [exact Hkd|]. split; [exact Hl|].
        destruct Hg as [Hg|(T & Hh & Hst)]; [left; exact Hg | right]. split; [apply tinv_st_discard, T | split; [exact Hh | exact Hst]].
    + (* a stochastic event *)
      destruct (stoch_select tb s) as [[[x dt] s3]|] eqn:Es.
      2:{ inversion E; subst. split; [exact (K_sched cm nodes edges init s _ Hk (sched_set_stuck s))|]. split; [exact Hl | left; reflexivity]. }
      destruct (stoch_select_shape tb s x dt s3 Es) as [Hx [nr [_ E3]]].
      destruct (stoch_select_dt tb s x dt s3 Es) as (Edt & Hns & El3).
      cbv zeta in E. set (nt := Qred (t + dt)) in *.
      destruct (run_pending tb pf nt 0 s3) as [n s4] eqn:Ep.
      assert (K3 : KK s3) by (rewrite E3; exact (K_sched cm nodes edges init s _ Hk (sched_advance nr 1 0 s))).
      destruct (run_pending_K cm nodes edges init maxtime monitor Hwf Hon _ _ _ _ _ _ Ep K3) as (K4 & O4 & H4).
      destruct (run_pending_L _ _ _ _ _ _ Ep) as [l1 Hrp].
      pose proof (run_pendingL_omono _ _ _ _ _ _ _ _ Hrp) as [Hm4 _].
      assert (L3 : lns_pos s3).
      { unfold lns_pos. rewrite El3. apply Forall_skipn. exact Hl. }
      assert (L4 : lns_pos s4) by (unfold lns_pos; rewrite Hm4; exact L3).
      set (s5 := set_clock nt s4) in *.
      assert (K5 : KK s5) by (exact (K_sched cm nodes edges init s4 _ K4 (sched_set_clock nt s4))).
      (* the state of the event call and what holds there when nothing got stuck *)
      assert (Core : stuck s4 = false -> Good nt s5 /\ (forall a ta, In (a, ta) (cw_hit (world s5)) -> (ta < nt)%Q)).
      { intros Es4. pose proof (run_pendingL_stuck _ _ _ _ _ _ _ _ Hrp Es4) as Es3.
        destruct (Hns Es3) as [Hne Es0]. destruct Hg as [Hg|(T & Hh & Hst)]; [congruence|].
        assert (Hdt : (0 < dt)%Q).
        { rewrite Edt, Qred_correct.
          assert (Ha0 : (0 <= sum_rates s (transitions tb))%Q) by (apply sum_rates_nonneg, transitions_nonneg, Hnn_tb).
          assert (Ha : (0 < sum_rates s (transitions tb))%Q).
          { destruct (Qlt_le_dec 0 (sum_rates s (transitions tb))) as [H|H]; [exact H|]. exfalso.
            assert (E0 : (sum_rates s (transitions tb) == 0)%Q) by lra. apply Qeq_bool_iff in E0. congruence. }
          pose proof Hl as Hl'. unfold lns_pos in Hl'. destruct (lns s) as [|l0 ls] eqn:Els; [congruence|]. cbn [hd].
          inversion Hl' as [|? ? Hl0 _]; subst.
          apply Qmult_lt_0_compat; [|exact Hl0]. unfold Qdiv. rewrite Qmult_1_l. apply Qinv_lt_0_compat, Ha. }
        assert (Hnt : (t < nt)%Q) by (unfold nt; rewrite Qred_correct; lra).
        assert (T3 : tinv_st t s3) by (rewrite E3; apply (tinv_core t s); [reflexivity | exact T]).
        destruct (run_pendingL_tinv tb pf _ _ _ _ _ _ _ T3 Hrp Es4) as [L' [A [B [C1 D1]]]].
        split; [split; [|split]|].
        - unfold tinv_st, s5. cbn [clock queue out set_clock].
          apply (tinv_raise L' (clock s4)); [destruct C1 as [C1|C1]; [exact C1 | rewrite C1; lra] | apply Qle_refl | | exact A].
          intros y Hy Hly. specialize (D1 y Hy Hly). lra.
        - unfold hits_le, s5. cbn [world set_clock]. rewrite H4, E3. cbn [world advance]. intros a ta Ha. specialize (Hh a ta Ha). lra.
        - unfold strictT, s5. cbn [world set_clock]. rewrite O4, H4, E3. exact Hst.
        - unfold s5. cbn [world set_clock]. rewrite H4, E3. cbn [world advance]. intros a ta Ha. specialize (Hh a ta Ha). lra. }
      destruct (locus s5 (ev_locus (snd x))) as [|e0 l0] eqn:Eloc.
      * rewrite (stoch_fire_empty tb x _ _ s5 Eloc) in E. apply (IH _ _ _ _ _ _ E).
        split; [exact K5|]. split; [exact L4|]. destruct (stuck s4) eqn:Es4; [left; exact Es4 | right; exact (proj1 (Core eq_refl))].
      * assert (Hne : locus s5 (ev_locus (snd x)) <> []) by (rewrite Eloc; discriminate).
        destruct (stoch_fire_member tb x nt (ev + n) s5 Hne) as [e [He Ef]]. rewrite Ef in E.
        apply (IH _ _ _ _ _ _ E). set (s6 := advance 0 0 1 s5) in *.
        assert (K6 : KK s6) by (exact (K_sched cm nodes edges init s5 _ K5 (sched_advance 0 0 1 s5))).
        assert (Hok : call_ok tb (CEv x nt e) s6) by (split; [exact Hx | split; [apply mem_In; exact He | reflexivity]]).
        split; [exact (K_call cm nodes edges init maxtime monitor s6 (CEv x nt e) Hwf Hon K6 Hok)|].
        split; [unfold lns_pos; rewrite (proj1 (fire_event_okeep tb x nt e s6)); exact L4|].
        rewrite fire_event_stuck. destruct (stuck s6) eqn:Es6; [left; reflexivity | right].
        assert (Es4 : stuck s4 = false).
        { unfold s6, advance in Es6. cbn [stuck] in Es6. rewrite !orb_false_iff in Es6. exact (proj1 (proj1 (proj1 Es6))). }
        destruct (Core Es4) as [(T5 & H5 & St5) Hlt5].
        split; [|split].
        -- apply tinv_fire_event; [reflexivity|]. apply (tinv_core nt s5); [reflexivity | exact T5].
        -- exact (hits_after_call s6 (CEv x nt e) nt K6 Hok H5 (Qle_refl _)).
        -- exact (strict_after_call s6 (CEv x nt e) K6 Hok St5 Hlt5).
Qed.

Theorem strict_stoch fuel rs ls ds : graph_okb nodes edges = true -> init_ok cm nodes init = true -> Forall (Qlt 0) ls ->
  let r := stoch_run tb pf fuel rs ls ds in
  r_stuck r = false -> strictT (world (r_final r)).
Proof.
  intros Hg Hi Hls. cbv zeta. unfold stoch_run.
  destruct (stoch_loop tb pf fuel 0 0 (setup_state tb rs ls ds)) as [[t ev] s] eqn:E. cbn [r_final r_stuck]. intros Hs.
  assert (S0 : SI 0 (setup_state tb rs ls ds)).
  { split; [exact (K_setup cm nodes edges init maxtime monitor rs ls ds Hwf Hg Hi)|].
    destruct (setup_state_umoves tb rs ls ds) as [U [El Est]]. cbn [lns stuck init_state] in El, Est.
    split; [unfold lns_pos; rewrite El; exact Hls|]. right.
    destruct (setup_state_lw tb rs ls ds (mk_table_post_only cm nodes edges init maxtime monitor)) as [_ B].
    split; [|split].
    - unfold tinv_st. apply (tinv_umoves 0 _ _ U). cbn. constructor; [repeat constructor | apply Qle_refl | intros x []].
    - unfold hits_le. rewrite B. intros ? ? [].
    - unfold strictT. rewrite B. intros ? ? ? ? []. }
  destruct (stoch_loop_strict fuel 0 0 _ t ev s E S0) as (_ & _ & [Hst|(_ & _ & Hst)]); [congruence | exact Hst].
Qed.

End CSt.
