(* The two scheduler loops of Model/Kernel.v restated as iterations of a step function that also
   returns the posted entries fired, proved equal to the model's loops, with a case analysis of
   one step that all the C03 / C04 invariants are proved against. *)
From Coq Require Import List ZArith QArith Qabs Bool Arith Lia Lqa.
From EpyV Require Import Model.Kernel Proofs.KernelBase.
Import ListNotations.
Open Scope Q_scope.

Section L.
Context {W : Type}.
Implicit Types s : st W.

(* ------------------------------------------------------------------ the oracle and stuck *)
(* user-level operations leave the oracle and [stuck] alone *)
Definition okeep s s' : Prop := lns s' = lns s /\ stuck s' = stuck s.
(* kernel-level operations consume the oracle and may get stuck *)
Definition omono s s' : Prop := incl (lns s') (lns s) /\ (stuck s = true -> stuck s' = true).

Lemma okeep_refl s : okeep s s. Proof. split; reflexivity. Qed.
Lemma okeep_trans s1 s2 s3 : okeep s1 s2 -> okeep s2 s3 -> okeep s1 s3.
Proof. intros [A B] [C D]. split; congruence. Qed.
Lemma omono_refl s : omono s s. Proof. split; [apply incl_refl|auto]. Qed.
Lemma omono_trans s1 s2 s3 : omono s1 s2 -> omono s2 s3 -> omono s1 s3.
Proof. intros [A B] [C D]. split; [eapply incl_tran; eassumption|auto]. Qed.
Lemma okeep_omono s s' : okeep s s' -> omono s s'.
Proof. intros [A B]. split; [rewrite A; apply incl_refl|congruence]. Qed.

Lemma do_action_okeep p t e a s : okeep s (do_action p t e a s).
Proof.
  split; [|apply do_action_stuck].
  destruct a; cbn [do_action]; try reflexivity;
    try (unfold post; destruct (Qltb _ _); reflexivity).
  - destruct (ids s); [reflexivity|]. destruct (find_live _ _); reflexivity.
  - destruct (ids s); reflexivity.
Qed.

Lemma run_actions_okeep p t e acts s : okeep s (run_actions p t e acts s).
Proof.
  unfold run_actions. revert s. induction acts as [|a acts IH]; intros s; cbn [fold_left]; [apply okeep_refl|].
  eapply okeep_trans; [apply do_action_okeep|apply IH].
Qed.

Lemma run_prog_okeep tb p k t e s : okeep s (run_prog tb p k t e s).
Proof.
  unfold run_prog. destruct (prog_of tb k t e (loci s) (world s)) as [w acts].
  apply (run_actions_okeep p t e acts (set_world w s)).
Qed.

Lemma fire_okeep tb x s : okeep s (fire tb x s).
Proof.
  unfold fire.
  pose proof (run_prog_okeep tb (e_proc x) (e_prog x) (e_time x) (e_elem x)
                (emit (OHandler (e_prog x) (e_time x) (clock s) (e_elem x) None) s)) as [A B].
  cbn in A, B.
  destruct (e_rep x) as [ddt|]; [|split; assumption].
  unfold post. destruct (Qltb _ _); split; cbn; assumption.
Qed.

Lemma fire_event_okeep tb x t e s : okeep s (fire_event tb x t e s).
Proof.
  destruct x as [[pi j] ev]. unfold fire_event.
  pose proof (run_prog_okeep tb pi (ev_prog ev) t e
     (emit (OHandler (ev_prog ev) t (clock s) e (Some (mem e (locus s (ev_locus ev))))) s)) as [A B].
  split; cbn; assumption.
Qed.

Lemma pend_step_okeep tb h s : okeep s (pend_step tb h s).
Proof.
  unfold pend_step.
  pose proof (fire_okeep tb h (set_clock (e_time h) (set_queue (remove_id (e_id h) (queue s)) s))) as [A B].
  split; cbn; assumption.
Qed.

Lemma run_pendingL_omono tb fuel t n s n' s' l :
  run_pendingL tb fuel t n s = (n', s', l) -> lns s' = lns s /\ (stuck s = true -> stuck s' = true).
Proof.
  revert n s n' s' l. induction fuel as [|f IH]; intros n s n' s' l; cbn [run_pendingL].
  - intros [= <- <- <-]. split; reflexivity.
  - destruct (head (queue (discard s))) as [h|]; [|intros [= <- <- <-]; split; auto].
    destruct (Qle_bool (e_time h) t); [|intros [= <- <- <-]; split; auto].
    destruct (run_pendingL tb f t (S n) _) as [[n1 s1] l1] eqn:E. intros [= <- <- <-].
    apply IH in E. destruct E as [A B]. destruct (pend_step_okeep tb h (discard s)) as [C D].
    change (lns (discard s)) with (lns s) in C. change (stuck (discard s)) with (stuck s) in D.
    split; [congruence|]. intros Hs. apply B. rewrite D. exact Hs.
Qed.

(* oracle reads keep the core *)
Lemma next_rand_core s : core_of (snd (next_rand s)) = core_of s /\ omono s (snd (next_rand s)).
Proof. unfold next_rand. destruct (rands s); cbn; (split; [reflexivity|split; [apply incl_refl|auto]]). Qed.
Lemma next_ln_core s : core_of (snd (next_ln s)) = core_of s /\ omono s (snd (next_ln s)).
Proof.
  unfold next_ln. destruct (lns s) as [|r rs] eqn:E; cbn [snd]; (split; [reflexivity|split; [|auto]]).
  - cbn [lns set_stuck]. rewrite E. apply incl_refl.
  - cbn [lns set_oracle]. rewrite E. apply incl_tl, incl_refl.
Qed.
Lemma next_draw_core s : core_of (snd (next_draw s)) = core_of s /\ omono s (snd (next_draw s)).
Proof. unfold next_draw. destruct (draws s); cbn; (split; [reflexivity|split; [apply incl_refl|auto]]). Qed.

Lemma next_ln_val s : fst (next_ln s) = 0 \/ In (fst (next_ln s)) (lns s).
Proof. unfold next_ln. destruct (lns s); cbn; auto. Qed.

(* the parts of the state the oracle reads do not touch *)
Definition osame s s' : Prop :=
  core_of s' = core_of s /\ (loci s' = loci s /\ ids s' = ids s /\ world s' = world s) /\ omono s s'.
Lemma osame_refl s : osame s s.
Proof. split; [reflexivity|split; [repeat split|apply omono_refl]]. Qed.
Lemma osame_trans s1 s2 s3 : osame s1 s2 -> osame s2 s3 -> osame s1 s3.
Proof.
  intros [A [[B1 [B2 B3]] C]] [D [[E1 [E2 E3]] F]].
  split; [congruence|split; [repeat split; congruence|eapply omono_trans; eassumption]].
Qed.
Lemma next_rand_osame s : osame s (snd (next_rand s)).
Proof. split; [apply next_rand_core|split; [|apply next_rand_core]]. unfold next_rand. destruct (rands s); repeat split. Qed.
Lemma next_ln_osame s : osame s (snd (next_ln s)).
Proof. split; [apply next_ln_core|split; [|apply next_ln_core]]. unfold next_ln. destruct (lns s); repeat split. Qed.
Lemma next_draw_osame s : osame s (snd (next_draw s)).
Proof. split; [apply next_draw_core|split; [|apply next_draw_core]]. unfold next_draw. destruct (draws s); repeat split. Qed.
Lemma set_stuck_osame s : osame s (set_stuck s).
Proof. split; [reflexivity|split; [repeat split|split; [apply incl_refl|reflexivity]]]. Qed.

Lemma trials_osame p x els s : osame s (snd (trials p x els s)).
Proof.
  revert s. induction els as [|e els IH]; intros s; cbn [trials]; [apply osame_refl|].
  pose proof (next_rand_osame s) as H. destruct (next_rand s) as [r s1]. cbn [snd] in H.
  specialize (IH s1). destruct (trials p x els s1) as [sel s2]. cbn [snd] in *.
  eapply osame_trans; eassumption.
Qed.

Lemma tranche_elem_osame evs s : osame s (snd (tranche_elem evs s)).
Proof.
  revert s. induction evs as [|x evs IH]; intros s; cbn [tranche_elem]; [apply osame_refl|].
  assert (H : osame s (snd (match locus s (ev_locus (snd x)) with
                            | [] => ([], s)
                            | _ :: _ => if Qltb 0 (ev_p (snd x)) then trials (ev_p (snd x)) x (locus s (ev_locus (snd x))) s else ([], s)
                            end))).
  { destruct (locus s (ev_locus (snd x))); [apply osame_refl|].
    destruct (Qltb 0 (ev_p (snd x))); [apply trials_osame|apply osame_refl]. }
  destruct (match locus s (ev_locus (snd x)) with [] => _ | _ :: _ => _ end) as [sel s1]. cbn [snd] in H.
  specialize (IH s1). destruct (tranche_elem evs s1) as [sel' s2]. cbn [snd] in *.
  eapply osame_trans; eassumption.
Qed.

Lemma tranche_fixed_osame evs s : osame s (snd (tranche_fixed evs s)).
Proof.
  revert s. induction evs as [|x evs IH]; intros s; cbn [tranche_fixed]; [apply osame_refl|].
  assert (H : osame s (snd (match locus s (ev_locus (snd x)) with
                            | [] => ([], s)
                            | _ :: _ => if Qltb 0 (ev_p (snd x)) then
                                 let '(r, s1) := next_rand s in
                                 if Qle_bool r (ev_p (snd x)) then
                                   let '(k, s2) := next_draw s1 in
                                   ([(x, nth (k mod length (locus s (ev_locus (snd x)))) (locus s (ev_locus (snd x))) (EN 0))], s2)
                                 else ([], s1)
                               else ([], s)
                            end))).
  { destruct (locus s (ev_locus (snd x))) eqn:El; [apply osame_refl|].
    destruct (Qltb 0 (ev_p (snd x))); [|apply osame_refl].
    pose proof (next_rand_osame s) as H. destruct (next_rand s) as [r s1]. cbn [snd] in H.
    destruct (Qle_bool r (ev_p (snd x))); [|exact H].
    pose proof (next_draw_osame s1) as H1. destruct (next_draw s1) as [k s2]. cbn [snd] in *.
    eapply osame_trans; eassumption. }
  destruct (match locus s (ev_locus (snd x)) with [] => _ | _ :: _ => _ end) as [sel s1]. cbn [snd] in H.
  specialize (IH s1). destruct (tranche_fixed evs s1) as [sel' s2]. cbn [snd] in *.
  eapply osame_trans; eassumption.
Qed.

Lemma tranche_osame tb s : osame s (snd (tranche tb s)).
Proof.
  unfold tranche. pose proof (tranche_elem_osame (per_element tb) s) as H.
  destruct (tranche_elem (per_element tb) s) as [a s1]. cbn [snd] in H.
  pose proof (tranche_fixed_osame (fixed_rate tb) s1) as H1.
  destruct (tranche_fixed (fixed_rate tb) s1) as [b s2]. cbn [snd] in *.
  eapply osame_trans; eassumption.
Qed.

End L.

Section L2.
Context {W : Type}.
Implicit Types s : st W.

(* ------------------------------------------------------------------ rates are non-negative *)
Definition nonneg_tb (tb : table W) : Prop :=
  Forall (fun p => Forall (fun ev => 0 <= ev_p ev) (p_events p)) (t_procs tb).

Lemma index_events_nonneg pi j evs : Forall (fun ev => 0 <= ev_p ev) evs ->
  Forall (fun x : nat * nat * event => 0 <= ev_p (snd x)) (index_events pi j evs).
Proof.
  revert j. induction evs as [|e evs IH]; intros j H; cbn; [constructor|].
  inversion H; subst. constructor; [assumption|apply IH; assumption].
Qed.

Lemma all_events_nonneg (tb : table W) : nonneg_tb tb ->
  Forall (fun x : nat * nat * event => 0 <= ev_p (snd x)) (all_events tb).
Proof.
  unfold nonneg_tb, all_events. generalize 0%nat. induction (t_procs tb) as [|p ps IH]; intros pi H; cbn; [constructor|].
  inversion H; subst. apply Forall_app. split; [apply index_events_nonneg; assumption|apply IH; assumption].
Qed.

Lemma transitions_nonneg (tb : table W) : nonneg_tb tb ->
  Forall (fun x : nat * nat * event => 0 <= ev_p (snd x)) (transitions tb).
Proof.
  intros H. apply all_events_nonneg in H. unfold transitions, per_element, fixed_rate.
  rewrite Forall_forall in *. intros x Hx. apply in_app_or in Hx.
  destruct Hx as [Hx|Hx]; apply filter_In in Hx; apply H, Hx.
Qed.

Lemma qlen_nonneg l : 0 <= qlen l.
Proof. unfold qlen. change 0 with (inject_Z 0). rewrite <- Zle_Qle. lia. Qed.

Lemma rate_nonneg s x : 0 <= ev_p (snd x) -> 0 <= rate s x.
Proof.
  intros H. unfold rate. destruct (ev_elem (snd x)); [|exact H].
  rewrite Qred_correct. apply Qmult_le_0_compat; [exact H|apply qlen_nonneg].
Qed.

Lemma sum_rates_nonneg s trs : Forall (fun x : nat * nat * event => 0 <= ev_p (snd x)) trs -> 0 <= sum_rates s trs.
Proof.
  unfold sum_rates. intros H.
  assert (G : forall a, 0 <= a -> 0 <= fold_left (fun a x => Qred (a + rate s x)) trs a); [|apply G; lra].
  induction trs as [|x trs IH]; intros a Ha; cbn [fold_left]; [exact Ha|].
  inversion H; subst. apply IH; [assumption|]. rewrite Qred_correct.
  pose proof (rate_nonneg s x H2). lra.
Qed.

Lemma dt_nonneg a ln : 0 <= a -> Qeq_bool a 0 = false -> 0 <= ln -> 0 <= Qred ((1 / a) * ln).
Proof.
  intros Ha Hne Hln. rewrite Qred_correct.
  assert (Hpos : 0 < a).
  { destruct (Qlt_le_dec 0 a) as [H|H]; [exact H|]. exfalso.
    assert (E : a == 0) by lra. apply Qeq_bool_iff in E. congruence. }
  apply Qmult_le_0_compat; [|exact Hln].
  unfold Qdiv. rewrite Qmult_1_l. apply Qlt_le_weak, Qinv_lt_0_compat, Hpos.
Qed.

(* ------------------------------------------------------------------ stochastic dynamics *)
Inductive step_res := Stop (s : st W) | Cont (nt : Q) (n : nat) (s : st W) (l : list entry).

Definition stoch_step (tb : table W) (pf : nat) (t : Q) (s : st W) : step_res :=
  let trs := transitions tb in
  let a := sum_rates s trs in
  if Qeq_bool a 0 then
    match next_pending_time s with
    | (None, s') => Stop s'
    | (Some et, s') => let '(n, s'', l) := run_pendingL tb pf et 0 s' in Cont et n s'' l
    end
  else
    let '(_, s1) := next_rand s in
    let '(ln, s2) := next_ln s1 in
    let dt := Qred ((1 / a) * ln) in
    match trs with
    | [] => Stop (set_stuck s)
    | x0 :: rest =>
        let '(x, s3) := match rest with
                        | [] => (x0, s2)
                        | _ => let '(r2, s3) := next_rand s2 in (select (rate s) (r2 * a) 0 x0 trs, s3)
                        end in
        let nt := Qred (t + dt) in
        let '(n, s4, l) := run_pendingL tb pf nt 0 s3 in
        let s5 := set_clock nt s4 in
        let lc := locus s5 (ev_locus (snd x)) in
        match lc with
        | [] => Cont nt n s5 l
        | _ => let '(k, s6) := next_draw s5 in
               Cont nt (S n) (fire_event tb x nt (nth (k mod length lc) lc (EN 0)) s6) l
        end
    end.

(* the loops' exit test: maximum time reached, or the process' own equilibrium test *)
Definition at_end (tb : table W) (t : Q) (s : st W) : bool :=
  Qle_bool (t_maxtime tb) t || t_equil tb (loci s) (world s).

Fixpoint stoch_loopL (tb : table W) (pf fuel : nat) (t : Q) (events : nat) (s : st W) : Q * nat * st W * list entry :=
  match fuel with
  | O => (t, events, set_stuck s, [])
  | S f =>
      if at_end tb t s then (t, events, s, [])
      else match stoch_step tb pf t s with
           | Stop s' => (t, events, s', [])
           | Cont nt n s' l =>
               let '(t', ev', sf, l') := stoch_loopL tb pf f nt (events + n) s' in (t', ev', sf, l ++ l')
           end
  end.

Lemma stoch_loopL_fst tb pf fuel t events s :
  fst (stoch_loopL tb pf fuel t events s) = stoch_loop tb pf fuel t events s.
Proof.
  revert t events s. induction fuel as [|f IH]; intros t events s; cbn [stoch_loopL stoch_loop]; [reflexivity|].
  unfold at_end. destruct (Qle_bool (t_maxtime tb) t || t_equil tb (loci s) (world s)); [reflexivity|].
  unfold stoch_step.
  destruct (Qeq_bool (sum_rates s (transitions tb)) 0).
  - destruct (next_pending_time s) as [[et|] s']; [|reflexivity].
    rewrite <- (run_pendingL_fst tb pf et 0 s').
    destruct (run_pendingL tb pf et 0 s') as [[n s''] l]. cbn [fst].
    rewrite <- IH. destruct (stoch_loopL tb pf f et (events + n) s'') as [[[t' ev'] sf] l']. reflexivity.
  - destruct (next_rand s) as [r1 s1]. destruct (next_ln s1) as [ln s2].
    destruct (transitions tb) as [|x0 rest]; [reflexivity|].
    destruct (match rest with [] => (x0, s2) | _ :: _ => _ end) as [x s3].
    rewrite <- (run_pendingL_fst tb pf _ 0 s3).
    destruct (run_pendingL tb pf _ 0 s3) as [[n s4] l]. cbn [fst].
    destruct (locus (set_clock _ s4) (ev_locus (snd x))) as [|e0 lc].
    + rewrite <- IH. destruct (stoch_loopL tb pf f _ (events + n) _) as [[[t' ev'] sf] l']. reflexivity.
    + destruct (next_draw (set_clock _ s4)) as [k s6].
      rewrite <- IH, Nat.add_succ_r. destruct (stoch_loopL tb pf f _ _ _) as [[[t' ev'] sf] l']. reflexivity.
Qed.

(* what one iteration of the stochastic loop does *)
Inductive step_spec (tb : table W) (pf : nat) (t : Q) (s : st W) : step_res -> Prop :=
| ss_none : head (queue (discard s)) = None -> step_spec tb pf t s (Stop (discard s))
| ss_stuck : step_spec tb pf t s (Stop (set_stuck s))
| ss_pend h n s' l : head (queue (discard s)) = Some h ->
    run_pendingL tb pf (e_time h) 0 (discard s) = (n, s', l) -> step_spec tb pf t s (Cont (e_time h) n s' l)
| ss_ev0 s3 nt n s4 l : osame s s3 -> (nonneg_tb tb -> Forall (Qle 0) (lns s) -> t <= nt) ->
    run_pendingL tb pf nt 0 s3 = (n, s4, l) -> step_spec tb pf t s (Cont nt n (set_clock nt s4) l)
| ss_ev1 s3 nt n s4 l s6 x e : osame s s3 -> (nonneg_tb tb -> Forall (Qle 0) (lns s) -> t <= nt) ->
    run_pendingL tb pf nt 0 s3 = (n, s4, l) -> osame (set_clock nt s4) s6 ->
    step_spec tb pf t s (Cont nt (S n) (fire_event tb x nt e s6) l).

Lemma stoch_step_spec tb pf t s : step_spec tb pf t s (stoch_step tb pf t s).
Proof.
  unfold stoch_step.
  destruct (Qeq_bool (sum_rates s (transitions tb)) 0) eqn:Ea.
  - unfold next_pending_time. destruct (head (queue (discard s))) as [h|] eqn:Eh; cbn [option_map].
    + destruct (run_pendingL tb pf (e_time h) 0 (discard s)) as [[n s''] l] eqn:E.
      eapply ss_pend; eassumption.
    + apply ss_none. exact Eh.
  - pose proof (next_rand_osame s) as H1. destruct (next_rand s) as [r1 s1]. cbn [snd] in H1.
    pose proof (next_ln_osame s1) as H2. pose proof (next_ln_val s1) as Hv.
    destruct (next_ln s1) as [ln s2]. cbn [snd fst] in H2, Hv.
    destruct (transitions tb) as [|x0 rest] eqn:Et; [apply ss_stuck|].
    assert (H3 : osame s2 (snd (match rest with
                                | [] => (x0, s2)
                                | _ :: _ => let '(r2, s3) := next_rand s2 in
                                            (select (rate s) (r2 * sum_rates s (x0 :: rest)) 0 x0 (x0 :: rest), s3)
                                end))).
    { destruct rest; [apply osame_refl|]. pose proof (next_rand_osame s2) as H. destruct (next_rand s2). exact H. }
    destruct (match rest with [] => (x0, s2) | _ :: _ => _ end) as [x s3]. cbn [snd] in H3.
    assert (Hs3 : osame s s3) by (eapply osame_trans; [exact H1|eapply osame_trans; eassumption]).
    assert (Hnt : nonneg_tb tb -> Forall (Qle 0) (lns s) -> t <= Qred (t + Qred (1 / sum_rates s (x0 :: rest) * ln))).
    { intros Hnn Hl.
      assert (0 <= Qred (1 / sum_rates s (x0 :: rest) * ln)); [|rewrite Qred_correct; lra].
      apply dt_nonneg; [|exact Ea|].
      - apply sum_rates_nonneg. rewrite <- Et. apply transitions_nonneg, Hnn.
      - destruct Hv as [->|Hv]; [lra|]. rewrite Forall_forall in Hl. apply Hl.
        destruct H1 as [_ [_ [Hi _]]]. apply Hi. exact Hv. }
    destruct (run_pendingL tb pf _ 0 s3) as [[n s4] l] eqn:E.
    destruct (locus (set_clock _ s4) (ev_locus (snd x))) as [|e0 lc].
    + eapply ss_ev0; eassumption.
    + pose proof (next_draw_osame (set_clock (Qred (t + Qred (1 / sum_rates s (x0 :: rest) * ln))) s4)) as H6.
      destruct (next_draw (set_clock _ s4)) as [k s6]. cbn [snd] in H6.
      eapply ss_ev1; eassumption.
Qed.

(* induction over the stochastic loop: an invariant of the loop head (time, events, state, fired so far) *)
Lemma stoch_loopL_inv (tb : table W) (pf : nat) (I : Q -> nat -> st W -> list entry -> Prop) :
  (forall t ev s lg, I t ev s lg -> I t ev (set_stuck s) lg) ->
  (forall t ev s lg r, I t ev s lg -> at_end tb t s = false -> step_spec tb pf t s r ->
     match r with Stop s' => I t ev s' lg | Cont nt n s' l => I nt (ev + n)%nat s' (lg ++ l) end) ->
  forall fuel t ev s lg t' ev' s' l', I t ev s lg ->
    stoch_loopL tb pf fuel t ev s = (t', ev', s', l') -> I t' ev' s' (lg ++ l').
Proof.
  intros Hst Hstep. induction fuel as [|f IH]; intros t ev s lg t' ev' s' l' HI; cbn [stoch_loopL].
  - intros [= <- <- <- <-]. rewrite app_nil_r. apply Hst, HI.
  - destruct (at_end tb t s) eqn:Em; [intros [= <- <- <- <-]; rewrite app_nil_r; exact HI|].
    pose proof (Hstep t ev s lg _ HI Em (stoch_step_spec tb pf t s)) as H.
    destruct (stoch_step tb pf t s) as [s1|nt n s1 l]; [intros [= <- <- <- <-]; rewrite app_nil_r; exact H|].
    destruct (stoch_loopL tb pf f nt (ev + n) s1) as [[[t1 ev1] sf] l1] eqn:E. intros [= <- <- <- <-].
    rewrite app_assoc. eapply IH; eassumption.
Qed.

(* ------------------------------------------------------------------ synchronous dynamics *)
Definition sync_step (tb : table W) (pf : nat) (t : Q) (s : st W) : nat * st W * list entry :=
  let s0 := set_clock t s in
  let '(n, s1, l) := run_pendingL tb pf t 0 s0 in
  let s1' := set_clock t s1 in
  let '(evs, s2) := tranche tb s1' in
  let '(nev, s3) := fire_tranche tb t evs n s2 in (nev, s3, l).

Fixpoint sync_loopL (tb : table W) (pf fuel : nat) (t : Q) (events steps : nat) (s : st W)
  : Q * nat * nat * st W * list entry :=
  match fuel with
  | O => (t, events, steps, set_stuck s, [])
  | S f =>
      if at_end tb t s then (t, events, steps, s, [])
      else
        let '(nev, s3, l) := sync_step tb pf t s in
        let '(t', ev', st', sf, l') :=
          sync_loopL tb pf f (Qred (t + 1)) (events + nev) (if (0 <? nev)%nat then S steps else steps) s3 in
        (t', ev', st', sf, l ++ l')
  end.

Lemma sync_loopL_fst tb pf fuel t events steps s :
  fst (sync_loopL tb pf fuel t events steps s) = sync_loop tb pf fuel t events steps s.
Proof.
  revert t events steps s. induction fuel as [|f IH]; intros t events steps s; cbn [sync_loopL sync_loop]; [reflexivity|].
  unfold at_end. destruct (Qle_bool (t_maxtime tb) t || t_equil tb (loci s) (world s)); [reflexivity|].
  unfold sync_step. rewrite <- (run_pendingL_fst tb pf t 0 (set_clock t s)).
  destruct (run_pendingL tb pf t 0 (set_clock t s)) as [[n s1] l]. cbn [fst].
  destruct (tranche tb (set_clock t s1)) as [evs s2].
  destruct (fire_tranche tb t evs n s2) as [nev s3].
  rewrite <- IH. destruct (sync_loopL tb pf f _ _ _ s3) as [[[[t' ev'] st'] sf] l']. reflexivity.
Qed.

Inductive sync_spec (tb : table W) (pf : nat) (t : Q) (s : st W) : nat * st W * list entry -> Prop :=
| sy_step n s1 l s2 evs nev s3 : run_pendingL tb pf t 0 (set_clock t s) = (n, s1, l) ->
    osame (set_clock t s1) s2 -> fire_tranche tb t evs n s2 = (nev, s3) -> sync_spec tb pf t s (nev, s3, l).

Lemma sync_step_spec tb pf t s : sync_spec tb pf t s (sync_step tb pf t s).
Proof.
  unfold sync_step. destruct (run_pendingL tb pf t 0 (set_clock t s)) as [[n s1] l] eqn:E.
  pose proof (tranche_osame tb (set_clock t s1)) as H. destruct (tranche tb (set_clock t s1)) as [evs s2].
  cbn [snd] in H. destruct (fire_tranche tb t evs n s2) as [nev s3] eqn:E2.
  eapply sy_step; eassumption.
Qed.

Lemma fire_tranche_inv (tb : table W) (t : Q) (I : nat -> st W -> Prop) :
  (forall nev s x e, I nev s -> I (S nev) (fire_event tb x t e s)) ->
  forall evs nev s nev' s', I nev s -> fire_tranche tb t evs nev s = (nev', s') -> I nev' s'.
Proof.
  intros Hf. induction evs as [|[x e] evs IH]; intros nev s nev' s' HI; cbn [fire_tranche].
  - intros [= <- <-]. exact HI.
  - destruct (mem e (locus s (ev_locus (snd x)))); [|apply IH; exact HI].
    apply IH. apply Hf, HI.
Qed.

Lemma sync_loopL_inv (tb : table W) (pf : nat) (I : Q -> nat -> nat -> st W -> list entry -> Prop) :
  (forall t ev k s lg, I t ev k s lg -> I t ev k (set_stuck s) lg) ->
  (forall t ev k s lg nev s' l, I t ev k s lg -> at_end tb t s = false -> sync_spec tb pf t s (nev, s', l) ->
     I (Qred (t + 1)) (ev + nev)%nat (if (0 <? nev)%nat then S k else k) s' (lg ++ l)) ->
  forall fuel t ev k s lg t' ev' k' s' l', I t ev k s lg ->
    sync_loopL tb pf fuel t ev k s = (t', ev', k', s', l') -> I t' ev' k' s' (lg ++ l').
Proof.
  intros Hst Hstep. induction fuel as [|f IH]; intros t ev k s lg t' ev' k' s' l' HI; cbn [sync_loopL].
  - intros [= <- <- <- <- <-]. rewrite app_nil_r. apply Hst, HI.
  - destruct (at_end tb t s) eqn:Em; [intros [= <- <- <- <- <-]; rewrite app_nil_r; exact HI|].
    pose proof (sync_step_spec tb pf t s) as Hs.
    destruct (sync_step tb pf t s) as [[nev s3] l].
    pose proof (Hstep t ev k s lg nev s3 l HI Em Hs) as H.
    destruct (sync_loopL tb pf f _ _ _ s3) as [[[[t1 ev1] k1] sf] l1] eqn:E. intros [= <- <- <- <- <-].
    rewrite app_assoc. eapply IH; eassumption.
Qed.

(* ------------------------------------------------------------------ set-up *)
Definition init_state (tb : table W) (rs ls : list Q) (ds : list nat) : st W :=
  {| clock := 0; nextid := 0; queue := []; loci := init_loci tb; world := t_world tb;
     ids := []; out := []; rands := rs; lns := ls; draws := ds; stuck := false |}.

Lemma setup_fold_umoves (ps : list proc) (k : nat) s :
  let s' := fst (fold_left (fun (acc : st W * nat) p => (run_actions (snd acc) 0 (EN 0) (p_setup p) (fst acc), S (snd acc))) ps (s, k)) in
  umoves (core_of s) (core_of s') /\ okeep s s'.
Proof.
  revert k s. induction ps as [|p ps IH]; intros k s; cbn [fold_left fst snd].
  - split; [apply us_refl|apply okeep_refl].
  - destruct (IH (S k) (run_actions k 0 (EN 0) (p_setup p) s)) as [A B]. split.
    + eapply umoves_trans; [apply run_actions_umoves|exact A].
    + eapply okeep_trans; [apply run_actions_okeep|exact B].
Qed.

Lemma setup_state_umoves tb rs ls ds :
  umoves (core_of (init_state tb rs ls ds)) (core_of (setup_state tb rs ls ds))
  /\ okeep (init_state tb rs ls ds) (setup_state tb rs ls ds).
Proof. apply (setup_fold_umoves (t_procs tb) 0 (init_state tb rs ls ds)). Qed.

End L2.
