(* The two scheduler loops of Model/Kernel.v restated as iterations of a step function that also
   returns the posted entries fired, proved equal to the model's loops, with a case analysis of
   one step that all the C03 / C04 invariants are proved against. *)
From Coq Require Import List ZArith QArith Qabs Bool Arith Lia Lqa.
From EpyV Require Import Model.Kernel Proofs.KernelBase.
Import ListNotations.
Open Scope Q_scope.

Section L.
Context {W : Type}.
Implicit Types s : st W.

(* ------------------------------------------------------------------ the oracle and stuck *)
(* user-level operations leave the oracle and [stuck] alone *)
Definition okeep s s' : Prop := lns s' = lns s /\ stuck s' = stuck s.
(* kernel-level operations consume the oracle and may get stuck *)
Definition omono s s' : Prop := incl (lns s') (lns s) /\ (stuck s = true -> stuck s' = true).

Lemma okeep_refl s : okeep s s. Proof. split; reflexivity. Qed.
Lemma okeep_trans s1 s2 s3 : okeep s1 s2 -> okeep s2 s3 -> okeep s1 s3.
Proof. intros [A B] [C D]. split; congruence. Qed.
Lemma omono_refl s : omono s s. Proof. split; [apply incl_refl|auto]. Qed.
Lemma omono_trans s1 s2 s3 : omono s1 s2 -> omono s2 s3 -> omono s1 s3.
Proof. intros [A B] [C D]. split; [eapply incl_tran; eassumption|auto]. Qed.
Lemma okeep_omono s s' : okeep s s' -> omono s s'.
Proof. intros [A B]. split; [rewrite A; apply incl_refl|congruence]. Qed.

Lemma do_action_okeep p t e a s : okeep s (do_action p t e a s).
Proof.
  split; [|apply do_action_stuck].
  destruct a; cbn [do_action]; try reflexivity;
    try (unfold post; destruct (Qltb _ _); reflexivity).
  - destruct (ids s); [reflexivity|]. destruct (find_live _ _); reflexivity.
  - destruct (ids s); reflexivity.
Qed.

Lemma run_actions_okeep p t e acts s : okeep s (run_actions p t e acts s).
Proof.
  unfold run_actions. revert s. induction acts as [|a acts IH]; intros s; cbn [fold_left]; [apply okeep_refl|].
  eapply okeep_trans; [apply do_action_okeep|apply IH].
Qed.

Lemma run_prog_okeep tb p k t e s : okeep s (run_prog tb p k t e s).
Proof.
  unfold run_prog. destruct (prog_of tb k t e (loci s) (world s)) as [w acts].
  apply (run_actions_okeep p t e acts (set_world w s)).
Qed.

Lemma fire_okeep tb x s : okeep s (fire tb x s).
Proof.
  unfold fire.
  pose proof (run_prog_okeep tb (e_proc x) (e_prog x) (e_time x) (e_elem x)
                (emit (OHandler (e_prog x) (e_time x) (clock s) (e_elem x) None) s)) as [A B].
  cbn in A, B.
  destruct (e_rep x) as [ddt|]; [|split; assumption].
  unfold post. destruct (Qltb _ _); split; cbn; assumption.
Qed.

Lemma fire_event_okeep tb x t e s : okeep s (fire_event tb x t e s).
Proof.
  destruct x as [[pi j] ev]. unfold fire_event.
  pose proof (run_prog_okeep tb pi (ev_prog ev) t e
     (emit (OHandler (ev_prog ev) t (clock s) e (Some (mem e (locus s (ev_locus ev))))) s)) as [A B].
  split; cbn; assumption.
Qed.

Lemma pend_step_okeep tb h s : okeep s (pend_step tb h s).
Proof.
  unfold pend_step.
  pose proof (fire_okeep tb h (set_clock (e_time h) (set_queue (remove_id (e_id h) (queue s)) s))) as [A B].
  split; cbn; assumption.
Qed.

Lemma run_pendingL_omono tb fuel t n s n' s' l :
  run_pendingL tb fuel t n s = (n', s', l) -> lns s' = lns s /\ (stuck s = true -> stuck s' = true).
Proof.
  revert n s n' s' l. induction fuel as [|f IH]; intros n s n' s' l; cbn [run_pendingL].
  - intros [= <- <- <-]. split; reflexivity.
  - destruct (head (queue (discard s))) as [h|]; [|intros [= <- <- <-]; split; auto].
    destruct (Qle_bool (e_time h) t); [|intros [= <- <- <-]; split; auto].
    destruct (run_pendingL tb f t (S n) _) as [[n1 s1] l1] eqn:E. intros [= <- <- <-].
    apply IH in E. destruct E as [A B]. destruct (pend_step_okeep tb h (discard s)) as [C D].
    change (lns (discard s)) with (lns s) in C. change (stuck (discard s)) with (stuck s) in D.
    split; [congruence|]. intros Hs. apply B. rewrite D. exact Hs.
Qed.

(* oracle reads keep the core *)
Lemma next_rand_core s : core_of (snd (next_rand s)) = core_of s /\ omono s (snd (next_rand s)).
Proof. unfold next_rand. destruct (rands s); cbn; (split; [reflexivity|split; [apply incl_refl|auto]]). Qed.
Lemma next_ln_core s : core_of (snd (next_ln s)) = core_of s /\ omono s (snd (next_ln s)).
Proof.
  unfold next_ln. destruct (lns s) as [|r rs] eqn:E; cbn [snd]; (split; [reflexivity|split; [|auto]]).
  - cbn [lns set_stuck]. rewrite E. apply incl_refl.
  - cbn [lns set_oracle]. rewrite E. apply incl_tl, incl_refl.
Qed.
Lemma next_draw_core s : core_of (snd (next_draw s)) = core_of s /\ omono s (snd (next_draw s)).
Proof. unfold next_draw. destruct (draws s); cbn; (split; [reflexivity|split; [apply incl_refl|auto]]). Qed.

Lemma next_ln_val s : fst (next_ln s) = 0 \/ In (fst (next_ln s)) (lns s).
Proof. unfold next_ln. destruct (lns s); cbn; auto. Qed.

(* the parts of the state the oracle reads do not touch *)
Definition osame s s' : Prop :=
  core_of s' = core_of s /\ loci s' = loci s /\ omono s s'.
Lemma osame_refl s : osame s s.
Proof. split; [reflexivity|split; [reflexivity|apply omono_refl]]. Qed.
Lemma osame_trans s1 s2 s3 : osame s1 s2 -> osame s2 s3 -> osame s1 s3.
Proof. intros [A [B C]] [D [E F]]. split; [congruence|split; [congruence|eapply omono_trans; eassumption]]. Qed.
Lemma next_rand_osame s : osame s (snd (next_rand s)).
Proof. split; [apply next_rand_core|split; [|apply next_rand_core]]. unfold next_rand. destruct (rands s); reflexivity. Qed.
Lemma next_ln_osame s : osame s (snd (next_ln s)).
Proof. split; [apply next_ln_core|split; [|apply next_ln_core]]. unfold next_ln. destruct (lns s); reflexivity. Qed.
Lemma next_draw_osame s : osame s (snd (next_draw s)).
Proof. split; [apply next_draw_core|split; [|apply next_draw_core]]. unfold next_draw. destruct (draws s); reflexivity. Qed.
Lemma set_stuck_osame s : osame s (set_stuck s).
Proof. split; [reflexivity|split; [reflexivity|split; [apply incl_refl|reflexivity]]]. Qed.

Lemma trials_osame p x els s : osame s (snd (trials p x els s)).
Proof.
  revert s. induction els as [|e els IH]; intros s; cbn [trials]; [apply osame_refl|].
  pose proof (next_rand_osame s) as H. destruct (next_rand s) as [r s1]. cbn [snd] in H.
  specialize (IH s1). destruct (trials p x els s1) as [sel s2]. cbn [snd] in *.
  eapply osame_trans; eassumption.
Qed.

Lemma tranche_elem_osame evs s : osame s (snd (tranche_elem evs s)).
Proof.
  revert s. induction evs as [|x evs IH]; intros s; cbn [tranche_elem]; [apply osame_refl|].
  assert (H : osame s (snd (match locus s (ev_locus (snd x)) with
                            | [] => ([], s)
                            | _ :: _ => if Qltb 0 (ev_p (snd x)) then trials (ev_p (snd x)) x (locus s (ev_locus (snd x))) s else ([], s)
                            end))).
  { destruct (locus s (ev_locus (snd x))); [apply osame_refl|].
    destruct (Qltb 0 (ev_p (snd x))); [apply trials_osame|apply osame_refl]. }
  destruct (match locus s (ev_locus (snd x)) with [] => _ | _ :: _ => _ end) as [sel s1]. cbn [snd] in H.
  specialize (IH s1). destruct (tranche_elem evs s1) as [sel' s2]. cbn [snd] in *.
  eapply osame_trans; eassumption.
Qed.

Lemma tranche_fixed_osame evs s : osame s (snd (tranche_fixed evs s)).
Proof.
  revert s. induction evs as [|x evs IH]; intros s; cbn [tranche_fixed]; [apply osame_refl|].
  assert (H : osame s (snd (match locus s (ev_locus (snd x)) with
                            | [] => ([], s)
                            | _ :: _ => if Qltb 0 (ev_p (snd x)) then
                                 let '(r, s1) := next_rand s in
                                 if Qle_bool r (ev_p (snd x)) then
                                   let '(k, s2) := next_draw s1 in
                                   ([(x, nth (k mod length (locus s (ev_locus (snd x)))) (locus s (ev_locus (snd x))) (EN 0))], s2)
                                 else ([], s1)
                               else ([], s)
                            end))).
  { destruct (locus s (ev_locus (snd x))) eqn:El; [apply osame_refl|].
    destruct (Qltb 0 (ev_p (snd x))); [|apply osame_refl].
    pose proof (next_rand_osame s) as H. destruct (next_rand s) as [r s1]. cbn [snd] in H.
    destruct (Qle_bool r (ev_p (snd x))); [|exact H].
    pose proof (next_draw_osame s1) as H1. destruct (next_draw s1) as [k s2]. cbn [snd] in *.
    eapply osame_trans; eassumption. }
  destruct (match locus s (ev_locus (snd x)) with [] => _ | _ :: _ => _ end) as [sel s1]. cbn [snd] in H.
  specialize (IH s1). destruct (tranche_fixed evs s1) as [sel' s2]. cbn [snd] in *.
  eapply osame_trans; eassumption.
Qed.

Lemma tranche_osame tb s : osame s (snd (tranche tb s)).
Proof.
  unfold tranche. pose proof (tranche_elem_osame (per_element tb) s) as H.
  destruct (tranche_elem (per_element tb) s) as [a s1]. cbn [snd] in H.
  pose proof (tranche_fixed_osame (fixed_rate tb) s1) as H1.
  destruct (tranche_fixed (fixed_rate tb) s1) as [b s2]. cbn [snd] in *.
  eapply osame_trans; eassumption.
Qed.

End L.
