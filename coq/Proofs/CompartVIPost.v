(* C07_diagram for ALL calls of the posted-removal subclass of SIR_VariableInfection
   ([sir_vi_gen p (Some T)]: setUp posts, for every initially infected node n, postEvent(T, n, remove)).
   Queue invariant (the counterpart of Proofs/CompartFixed.v's for the fixed-recovery models): every
   queued entry is Monitor.observe or remove on a node that was a seed; world invariant: a seed is
   infected or removed at all times.  Hence a posted call is remove on a node in I (arrow I > R) or in
   R (nothing changes), or Monitor.observe (nothing changes). *)
From Coq Require Import List ZArith QArith Bool Arith Lia.
From EpyV Require Import Lib.Prelude Model.Kernel Model.KernelDyn Model.Loci Model.Compart Model.CompartVI
  Proofs.KernelBase Proofs.KernelMember Proofs.KernelSync Proofs.LociBase Proofs.LociLocus Proofs.LociInv
  Proofs.CompartRun Proofs.CompartSort Proofs.CompartInv Proofs.CompartDiagram
  Proofs.KernelDyn Proofs.KernelDynLoops Proofs.KernelDynRun Proofs.CompartVI.
Import ListNotations.
Close Scope Q_scope.

(* ------------------------------------------------------------------ which (program, element) pairs are ever queued *)
Section QueueE.
Context {W : Type}.
Variable D : dtable W.
Notation tb := (d_tb D).
Implicit Types s : st W.
Variable P : nat -> Kernel.elem -> Prop.

(* an action run by an event function entered on element e *)
Definition posts_okE (e : Kernel.elem) (a : action) : Prop :=
  match a with
  | APost _ k | APostRep _ _ k => P k e
  | APostOn x _ k => P k x
  | _ => True
  end.

Definition qinvE s : Prop := Forall (fun x => P (e_prog x) (e_elem x)) (queue s).

Lemma kill_qinvE i q : Forall (fun x => P (e_prog x) (e_elem x)) q -> Forall (fun x => P (e_prog x) (e_elem x)) (kill i q).
Proof.
  induction 1 as [|x q Hx Hq IH]; cbn [kill map]; [constructor|].
  constructor; [|exact IH]. destruct (e_id x =? i)%nat; exact Hx.
Qed.

Lemma qinvE_incl s s' : incl (queue s') (queue s) -> qinvE s -> qinvE s'.
Proof. unfold qinvE. intros Hi H. rewrite Forall_forall in *. intros x Hx. apply H, Hi, Hx. Qed.

Lemma do_action_qinvE p t e a s : posts_okE e a -> qinvE s -> qinvE (do_action p t e a s).
Proof.
  intros Ha Hq. unfold qinvE in *. destruct a; cbn [do_action posts_okE] in *; unfold post.
  - destruct (Qltb _ _); cbn [queue emit push_id]; [exact Hq | constructor; [exact Ha | exact Hq]].
  - destruct (Qltb _ _); cbn [queue emit push_id]; [exact Hq | constructor; [exact Ha | exact Hq]].
  - destruct (Qltb _ _); cbn [queue emit push_id]; [exact Hq | constructor; [exact Ha | exact Hq]].
  - rewrite Qred_pred_lt. exact Hq.
  - destruct (ids s); [exact Hq|]. destruct (find_live _ _); cbn [queue emit set_queue]; [apply kill_qinvE; exact Hq | exact Hq].
  - destruct (ids s); exact Hq.
  - exact Hq.
  - exact Hq.
  - exact Hq.
  - exact Hq.
  - exact Hq.
Qed.

Lemma run_actions_qinvE p t e acts s : Forall (posts_okE e) acts -> qinvE s -> qinvE (run_actions p t e acts s).
Proof.
  unfold run_actions. revert s. induction acts as [|a acts IH]; intros s Ha Hq; cbn [fold_left]; [exact Hq|].
  inversion Ha; subst. apply IH; [assumption|]. apply do_action_qinvE; assumption.
Qed.

Hypothesis Hprogs : forall k t e lc w, Forall (posts_okE e) (snd (prog_of tb k t e lc w)).

Lemma run_prog_qinvE p k t e s : qinvE s -> qinvE (run_prog tb p k t e s).
Proof.
  intros Hq. unfold run_prog. pose proof (Hprogs k t e (loci s) (world s)) as Hp.
  destruct (prog_of tb k t e (loci s) (world s)) as [w acts]. cbn [snd] in Hp.
  apply run_actions_qinvE; [exact Hp | exact Hq].
Qed.

Lemma fire_qinvE x s : P (e_prog x) (e_elem x) -> qinvE s -> qinvE (fire tb x s).
Proof.
  intros Hx Hq. unfold fire.
  assert (H2 : qinvE (run_prog tb (e_proc x) (e_prog x) (e_time x) (e_elem x)
                        (emit (OHandler (e_prog x) (e_time x) (clock s) (e_elem x) None) s)))
    by (apply run_prog_qinvE; exact Hq).
  destruct (e_rep x) as [ddt|]; [|exact H2]. unfold post.
  destruct (Qltb _ _); cbn [queue emit]; [exact H2|]. unfold qinvE. cbn [queue]. constructor; [exact Hx | exact H2].
Qed.

Lemma dafter_qinvE Xtr c s : dcall_ok D Xtr c s -> qinvE s -> qinvE (dafter D c s).
Proof.
  intros Hok Hq. destruct c as [[[pi j] ev] t e|pi d t|h]; cbn [dafter].
  - unfold fire_event, qinvE. cbn [queue emit]. apply run_prog_qinvE. exact Hq.
  - unfold fire_dyn, qinvE. cbn [queue emit]. apply run_prog_qinvE. exact Hq.
  - destruct Hok as [Hh _]. apply head_in in Hh. unfold pend_step, qinvE. cbn [queue emit]. apply fire_qinvE.
    + unfold qinvE in Hq. rewrite Forall_forall in Hq. exact (Hq h Hh).
    + unfold qinvE. cbn [queue set_clock set_queue]. unfold qinvE in Hq. rewrite Forall_forall in *.
      intros y Hy. apply Hq. exact (remove_id_incl _ _ _ Hy).
Qed.

Hypothesis Hsetup : forall p, In p (t_procs tb) -> Forall (posts_okE (EN 0)) (p_setup p).

Lemma setup_qinvE rs ls ds : qinvE (setup_state tb rs ls ds).
Proof.
  unfold setup_state.
  set (s0 := {| clock := 0%Q; nextid := 0; queue := []; loci := init_loci tb; world := t_world tb; ids := []; out := [];
                rands := rs; lns := ls; draws := ds; stuck := false |}).
  assert (H0 : qinvE s0) by constructor.
  generalize 0%nat. revert H0 Hsetup. generalize s0. clear s0.
  induction (t_procs tb) as [|p ps IH]; intros s0 H0 Hs n; cbn [fold_left fst snd]; [exact H0|].
  apply IH; [|intros q Hq; apply Hs; right; exact Hq].
  apply run_actions_qinvE; [apply Hs; left; reflexivity | exact H0].
Qed.

End QueueE.

(* ------------------------------------------------------------------ the posted-removal subclass *)
Section VP.
Variables (pRemove T : Q).
Variables (nodes : list Z) (edges : list (Z * Z)) (init : list (Z * Z)) (inf : list (Z * Z * Q)) (maxtime : Q) (monitor : option Q).
Let vm := sir_vi_gen pRemove (Some T).
Let D := mk_vitable vm nodes edges init inf maxtime monitor.
Let s0 := Loci.setup (vim_specs vm) nodes edges init.
Implicit Types s : st viworld.

Definition seeds : list Z := nodes_in s0 1.

(* Monitor.observe (program 2), or remove (program 0) on a seed *)
Definition post_class (k : nat) (x : Kernel.elem) : Prop := k = 2 \/ (k = 0 /\ exists n, x = EN n /\ In n seeds).

Lemma kinds_post : cm_kinds (vi_cm vm) = [HNode 2; HLeft 1 true None; HObs].
Proof. reflexivity. Qed.

Lemma post_progs k t e lc w : Forall (posts_okE post_class e) (snd (prog_of (d_tb D) k t e lc w)).
Proof.
  unfold D. rewrite vi_prog_of. destruct (nth_error (cm_kinds (vi_cm vm)) k) as [h|] eqn:E; [|constructor].
  rewrite lift_prog_snd.
  assert (Hn : kind_nopost h = true).
  { apply nth_error_In in E. rewrite kinds_post in E. destruct E as [<-|[<-|[<-|[]]]]; reflexivity. }
  pose proof (handler_posts_ok (fun _ => False) (vim_specs vm) 0 h t e lc (vi_base w) Hn) as F.
  eapply Forall_impl; [|exact F]. intros a Ha. destruct a; cbn in Ha |- *; try exact I; contradiction.
Qed.

Lemma post_setup : forall p, In p (t_procs (d_tb D)) -> Forall (posts_okE post_class (EN 0)) (p_setup p).
Proof.
  unfold D, mk_vitable, mk_table. cbn [d_tb t_procs cm_seed_post vi_cm vm sir_vi_gen vim_seed_post option_map].
  assert (M : Forall (posts_okE post_class (EN 0))
                (map (fun n => APostOn (EN n) T 0) (nodes_in (Loci.setup (cm_specs (vi_cm (sir_vi_gen pRemove (Some T)))) nodes edges init) 1))).
  { apply Forall_forall. intros a Ha. apply in_map_iff in Ha. destruct Ha as [n [<- Hn]]. cbn [posts_okE]. right.
    split; [reflexivity|]. exists n. split; [reflexivity | exact Hn]. }
  destruct monitor as [delta|]; cbn [In]; intros p [<-|[<-|[]]] || intros p [<-|[]]; cbn [p_setup]; try exact M.
  constructor; [left; reflexivity | constructor].
Qed.

(* a seed is infected or removed *)
Definition SD s : Prop := forall n, In n seeds ->
  getc (cw_st (vi_base (world s))) n = Some 1%Z \/ getc (cw_st (vi_base (world s))) n = Some 2%Z.

Definition JP s : Prop := VJ vm nodes edges s /\ qinvE post_class s /\ SD s.

Lemma arrows_post : vi_arrows vm = [(1, 2); (3, 1)]%Z.
Proof. reflexivity. Qed.

(* every call: what changes is an arrow of the model *)
Theorem post_call_diagram Xtr c s : JP s -> dcall_ok D Xtr c s ->
  forall v, getc (cw_st (vi_base (world (dafter D c s)))) v <> getc (cw_st (vi_base (world s))) v ->
  exists l c', getc (cw_st (vi_base (world s))) v = Some l /\ getc (cw_st (vi_base (world (dafter D c s)))) v = Some c'
    /\ In (l, c') (vi_arrows vm).
Proof.
  intros (Hj & Hq & Hsd) Hok v Hne. destruct c as [x t e|pi d t|h].
  - apply (vi_call_diagram vm nodes edges init inf maxtime monitor Xtr _ s Hj Hok); [intros hh; discriminate | exact Hne].
  - apply (vi_call_diagram vm nodes edges init inf maxtime monitor Xtr _ s Hj Hok); [intros hh; discriminate | exact Hne].
  - destruct Hok as [Hh _]. apply head_in in Hh.
    assert (Hp : post_class (e_prog h) (e_elem h)) by (unfold qinvE in Hq; rewrite Forall_forall in Hq; exact (Hq h Hh)).
    pose proof (dafter_lw D (DPost h) s) as A. cbn [dcall_args] in A. destruct A as [_ A]. rewrite A in *. clear A.
    unfold D in *. rewrite vi_prog_of in *. destruct Hp as [Hk|[Hk [n [He Hn]]]]; rewrite Hk in *.
    + exfalso. apply Hne. cbn [nth_error cm_kinds vi_cm vm sir_vi_gen cm_events cm_extra vim_events vim_infect map app].
      destruct (world s); reflexivity.
    + rewrite He in *. cbn [nth_error cm_kinds vi_cm vm sir_vi_gen cm_events cm_extra vim_events vim_infect map app ce_kind] in *.
      rewrite lift_prog_fst in *. cbn [vi_base] in *. rewrite handler_st in *. cbn [moved] in *. rewrite cc_getc in *.
      destruct (getc_raises (cw_st (vi_base (world s))) n); [congruence|].
      destruct (Z.eqb_spec v n) as [->|_]; [|congruence].
      destruct (Hsd n Hn) as [G|G]; [|congruence].
      exists 1%Z, 2%Z. split; [exact G|]. split; [reflexivity|]. left. reflexivity.
Qed.

Lemma SD_dafter Xtr c s : JP s -> dcall_ok D Xtr c s -> SD (dafter D c s).
Proof.
  intros Hjp Hok n Hn. pose proof Hjp as (_ & _ & Hsd).
  assert (Dec : forall a b : option Z, {a = b} + {a <> b}) by (intros a b; decide equality; apply Z.eq_dec).
  destruct (Dec (getc (cw_st (vi_base (world (dafter D c s)))) n) (getc (cw_st (vi_base (world s))) n)) as [E|E].
  - rewrite E. exact (Hsd n Hn).
  - destruct (post_call_diagram Xtr c s Hjp Hok n E) as (l & c' & G1 & G2 & Ha). rewrite G2.
    rewrite arrows_post in Ha. destruct (Hsd n Hn) as [G|G]; rewrite G in G1; inversion G1; subst l;
      destruct Ha as [Ha|[Ha|[]]]; inversion Ha; subst. right. reflexivity.
Qed.

Lemma JP_dsched s s' : JP s -> dsched s s' -> JP s'.
Proof.
  intros (Hj & Hq & Hsd) Hs. split; [eapply VJ_dsched; eassumption|]. destruct Hs as (_ & Hw & _ & Hi).
  split; [exact (qinvE_incl post_class s s' Hi Hq)|]. unfold SD. rewrite Hw. exact Hsd.
Qed.

Lemma JP_dafter Xtr c s : JP s -> dcall_ok D Xtr c s -> JP (dafter D c s).
Proof.
  intros Hjp Hok. pose proof Hjp as (Hj & Hq & _). split; [apply VJ_dafter; [reflexivity | exact Hj]|].
  split; [exact (dafter_qinvE D post_class post_progs Xtr c s Hok Hq) | exact (SD_dafter Xtr c s Hjp Hok)].
Qed.

Lemma JP_setup rs ls ds : graph_okb nodes edges = true -> init_ok (vi_cm vm) nodes init = true -> JP (setup_state (d_tb D) rs ls ds).
Proof.
  intros Hg Hi. split; [apply VJ_setup; [reflexivity | exact Hg | exact Hi]|].
  split; [exact (setup_qinvE D post_class post_setup rs ls ds)|].
  intros n Hn. destruct (setup_state_lw (d_tb D) rs ls ds (vi_post_only vm nodes edges init inf maxtime monitor)) as [_ B]. rewrite B.
  left. unfold D, mk_vitable, mk_table. cbn [d_tb t_world vi_base cw_st].
  unfold seeds, nodes_in in Hn. apply filter_In in Hn. destruct Hn as [_ Hn].
  change (Loci.setup (cm_specs (vi_cm vm)) nodes edges init) with s0.
  destruct (getc s0 n) as [c|]; [|discriminate]. apply Z.eqb_eq in Hn. subst c. reflexivity.
Qed.

Theorem JP_dsteps Xtr rs ls ds cs s : graph_okb nodes edges = true -> init_ok (vi_cm vm) nodes init = true ->
  DSteps D Xtr (setup_state (d_tb D) rs ls ds) cs s -> JP s /\ Forall (fun sc => JP (fst sc)) cs.
Proof.
  intros Hg Hi H.
  exact (DSteps_inv D Xtr JP JP_dsched (fun s c Hj Hok => JP_dafter Xtr c s Hj Hok) _ cs s (JP_setup rs ls ds Hg Hi) H).
Qed.

(* along a whole run: every call - stochastic, appended entry or posted - changes compartments only along S > I or I > R *)
Theorem post_run_diagram Xtr rs ls ds cs s : graph_okb nodes edges = true -> init_ok (vi_cm vm) nodes init = true ->
  DSteps D Xtr (setup_state (d_tb D) rs ls ds) cs s ->
  forall s1 c, In (s1, c) cs -> forall v,
  getc (cw_st (vi_base (world (dafter D c s1)))) v <> getc (cw_st (vi_base (world s1))) v ->
  exists l c', getc (cw_st (vi_base (world s1))) v = Some l /\ getc (cw_st (vi_base (world (dafter D c s1)))) v = Some c'
    /\ In (l, c') [(1, 2); (3, 1)]%Z.
Proof.
  intros Hg Hi H s1 c Hsc v Hne.
  destruct (JP_dsteps Xtr rs ls ds cs s Hg Hi H) as [_ Hall]. rewrite Forall_forall in Hall. pose proof (Hall _ Hsc) as Hjp. cbn [fst] in Hjp.
  pose proof (DSteps_calls D Xtr _ _ _ H) as Hoks. rewrite Forall_forall in Hoks. pose proof (Hoks _ Hsc) as Hok. cbn [fst snd] in Hok.
  rewrite <- arrows_post. exact (post_call_diagram Xtr c s1 Hjp Hok v Hne).
Qed.

End VP.
