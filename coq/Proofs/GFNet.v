(* gf_from_network: the coefficients are the degree fractions, they sum to 1 (= gf(1)), and
   gf.dx()(1) is the mean degree 2M/N (handshake lemma on the finite graph model). *)
From Coq Require Import List ZArith QArith Bool Arith Lia Setoid Morphisms.
From EpyV Require Import Model.GF Model.GFNet Proofs.GFSum Proofs.GFCoeff Proofs.GFDeriv Proofs.GFEval.
Import ListNotations.
Open Scope Q_scope.

(* ------------------------------------------------------------ sums of naturals *)

Fixpoint nsum (n : nat) (f : nat -> nat) : nat :=
  match n with O => O | S n' => (nsum n' f + f n')%nat end.

Lemma nsum_ext n f g : (forall i, (i < n)%nat -> f i = g i) -> nsum n f = nsum n g.
Proof. induction n; intros H; simpl; [reflexivity|]. rewrite IHn by (intros; apply H; lia). rewrite (H n) by lia. reflexivity. Qed.

Lemma nsum_add n f g : nsum n (fun i => (f i + g i)%nat) = (nsum n f + nsum n g)%nat.
Proof. induction n; simpl; [reflexivity | rewrite IHn; lia]. Qed.

Lemma nsum_shift n f : nsum (S n) f = (f O + nsum n (fun i => f (S i)))%nat.
Proof. induction n; [simpl; lia|]. change (nsum (S (S n)) f) with (nsum (S n) f + f (S n))%nat. rewrite IHn. simpl. lia. Qed.

Lemma nsum_pick n d (w : nat -> nat) : (d < n)%nat -> nsum n (fun i => if (i =? d)%nat then w i else O) = w d.
Proof.
  induction n; intros H; [lia|]. simpl.
  destruct (Nat.eqb_spec n d) as [->|Hne].
  - rewrite (nsum_ext d _ (fun _ => O)); [|intros i Hi; destruct (Nat.eqb_spec i d); [lia|reflexivity]].
    assert (Z : forall k, nsum k (fun _ => O) = O) by (induction k; simpl; auto; rewrite IHk; reflexivity).
    rewrite Z. reflexivity.
  - rewrite IHn by lia. lia.
Qed.

Lemma qn_nsum n f : qn (nsum n f) == sumn n (fun i => qn (f i)).
Proof. induction n; simpl; [reflexivity | rewrite qn_add, IHn; reflexivity]. Qed.

(* ------------------------------------------------------------ the histogram *)

Lemma count_cons i d l : count i (d :: l) = ((if (i =? d)%nat then 1 else 0) + count i l)%nat.
Proof. unfold count. simpl. destruct (i =? d)%nat; reflexivity. Qed.

Lemma count_above l i : (list_max l < i)%nat -> count i l = O.
Proof.
  induction l as [|d l IH]; intros H; [reflexivity|]. simpl in H. rewrite count_cons, IH by lia.
  destruct (Nat.eqb_spec i d); [lia|reflexivity].
Qed.

(* every node is counted once ... *)
Lemma count_total l n : (list_max l < n)%nat -> nsum n (fun i => count i l) = length l.
Proof.
  induction l as [|d l IH]; intros H.
  - clear H. induction n; simpl; [reflexivity | rewrite IHn; reflexivity].
  - simpl in H. rewrite (nsum_ext n _ (fun i => ((if (i =? d)%nat then 1 else 0) + count i l)%nat)) by (intros; apply count_cons).
    rewrite nsum_add, (nsum_pick n d (fun _ => 1%nat)), IH by lia. reflexivity.
Qed.

(* ... and with weight i this is the sum of the degrees *)
Lemma count_weighted l n : (list_max l < n)%nat -> nsum n (fun i => (i * count i l)%nat) = list_sum l.
Proof.
  induction l as [|d l IH]; intros H.
  - clear H. induction n; simpl; [reflexivity | rewrite IHn; unfold count; simpl; lia].
  - simpl in H. rewrite (nsum_ext n _ (fun i => ((if (i =? d)%nat then i else 0) + i * count i l)%nat)).
    2:{ intros i _. rewrite count_cons. destruct (i =? d)%nat; lia. }
    rewrite nsum_add, (nsum_pick n d (fun i => i)), IH by lia. reflexivity.
Qed.

(* ------------------------------------------------------------ handshake *)

Lemma sum_indicator (a : Z) l : NoDup l -> In a l -> list_sum (map (fun v => if (a =? v)%Z then 1%nat else O) l) = 1%nat.
Proof.
  induction 1 as [|x l Hx Hnd IH]; intros Hin; [contradiction|]. simpl.
  destruct (Z.eqb_spec a x) as [->|Hne].
  - rewrite (map_ext_in _ (fun _ => O)).
    + assert (Z0 : forall k : list Z, list_sum (map (fun _ => O) k) = O) by (induction k; simpl; auto).
      rewrite Z0. reflexivity.
    + intros v Hv. destruct (Z.eqb_spec x v); [subst; contradiction | reflexivity].
  - destruct Hin as [->|Hin]; [contradiction|]. rewrite IH by assumption. reflexivity.
Qed.

Lemma list_sum_map_add {A} (f g : A -> nat) l : list_sum (map (fun v => (f v + g v)%nat) l) = (list_sum (map f l) + list_sum (map g l))%nat.
Proof. induction l; simpl; [reflexivity | rewrite IHl; lia]. Qed.

Lemma handshake_lists nodes es : NoDup nodes ->
  (forall e, In e es -> In (fst e) nodes /\ In (snd e) nodes) ->
  list_sum (map (degree es) nodes) = (2 * length es)%nat.
Proof.
  intros Hnd. induction es as [|e es IH]; intros Hends.
  - simpl. clear Hnd Hends. induction nodes; simpl; auto.
  - cbn [degree length]. rewrite list_sum_map_add, IH by (intros e' He'; apply Hends; right; exact He').
    destruct (Hends e (or_introl eq_refl)) as [H1 H2].
    unfold ends_at. rewrite list_sum_map_add, (sum_indicator (fst e)), (sum_indicator (snd e)) by assumption. lia.
Qed.

(* the degrees add up to twice the number of edges; a self-loop contributes 2 to its node *)
Theorem handshake g : graph_wf g -> list_sum (degrees g) = (2 * length (g_edges g))%nat.
Proof. intros [Hnd Hends]. apply handshake_lists; assumption. Qed.

(* ------------------------------------------------------------ coefficients *)

Lemma nth_map_seq (F : nat -> Q) n i : nth i (map F (seq 0 n)) 0 = if (i <? n)%nat then F i else 0.
Proof.
  destruct (Nat.ltb_spec i n).
  - rewrite (nth_indep _ 0 (F O)) by (rewrite map_length, seq_length; lia).
    rewrite map_nth, seq_nth by lia. reflexivity.
  - apply nth_overflow. rewrite map_length, seq_length. lia.
Qed.

Lemma degrees_nonempty g f : gf_from_network g = Some f -> (0 < length (g_nodes g))%nat.
Proof.
  unfold gf_from_network, net_coeffs, degrees. destruct (g_nodes g); simpl; [discriminate | lia].
Qed.

Lemma net_coeffs_Some degs cs : net_coeffs degs = Some cs ->
  degs <> [] /\ cs = map (fun i => qn (count i degs) / qn (length degs)) (seq 0 (S (list_max degs))).
Proof. destruct degs; [discriminate|]. intros [= <-]. split; [discriminate | reflexivity]. Qed.

(* coefficient i is the fraction of nodes of degree i, for every i *)
Theorem net_coeff g f : gf_from_network g = Some f ->
  forall i, coeff f i == qn (count i (degrees g)) / qn (length (g_nodes g)).
Proof.
  intros H i. unfold gf_from_network in H.
  assert (L : length (degrees g) = length (g_nodes g)) by (unfold degrees; apply map_length).
  destruct (net_coeffs (degrees g)) as [cs|] eqn:E; [|discriminate]. injection H as <-.
  apply net_coeffs_Some in E. destruct E as [_ ->].
  rewrite coeff_from_coeffs, nth_map_seq, L.
  destruct (Nat.ltb_spec i (S (list_max (degrees g)))); [reflexivity|].
  rewrite count_above by lia. unfold Qdiv. rewrite qn_0. ring.
Qed.

Lemma net_shape g f : gf_from_network g = Some f ->
  exists cs, f = from_coeffs cs /\ length cs = S (S (list_max (degrees g)) - 1)%nat.
Proof.
  unfold gf_from_network. destruct (net_coeffs (degrees g)) as [cs|] eqn:E; [|discriminate]. intros [= <-].
  apply net_coeffs_Some in E. destruct E as [_ ->].
  eexists. split; [reflexivity|]. rewrite map_length, seq_length. lia.
Qed.

Lemma from_coeffs_own cs : leaves_within (fun m => m) (from_coeffs cs).
Proof. intros i Hi. simpl. rewrite nth_overflow by lia. reflexivity. Qed.

Lemma qpow_1 i : qpow 1 i == 1.
Proof. induction i; simpl; [reflexivity | rewrite IHi; ring]. Qed.

(* gf(1) = 1 *)
Theorem net_one g f : gf_from_network g = Some f -> eval f 1 == 1.
Proof.
  intros H. assert (HN := degrees_nonempty g f H).
  destruct (net_shape g f H) as (cs & -> & Hlen).
  unfold eval. rewrite (eval_cut_poly (fun m => m) (from_coeffs cs) 1 (from_coeffs_own cs) (length cs) (le_n _)).
  rewrite (sumn_ext _ _ (fun i => qn (count i (degrees g)) * / qn (length (g_nodes g)))).
  2:{ intros i _. rewrite (net_coeff g _ H), qpow_1. unfold Qdiv. ring. }
  rewrite sumn_scale_r, <- qn_nsum, count_total by lia.
  unfold degrees. rewrite map_length. field. apply qn_pos. exact HN.
Qed.

(* gf.dx()(1) = 2M/N *)
Theorem net_mean g f : graph_wf g -> gf_from_network g = Some f ->
  eval (deriv 1 f) 1 == qn (2 * length (g_edges g)) / qn (length (g_nodes g)).
Proof.
  intros Hwf H. assert (HN := degrees_nonempty g f H).
  destruct (net_shape g f H) as (cs & -> & Hlen).
  unfold eval. rewrite (eval_deriv (fun m => m) 1 (from_coeffs cs) 1 (from_coeffs_own cs) (length cs) (le_n _)).
  rewrite (sumn_ext _ _ (fun i => qn (S i * count (S i) (degrees g)) * / qn (length (g_nodes g)))).
  2:{ intros i _. rewrite ffq_1, (net_coeff g _ H), qpow_1, qn_mul. replace (i + 1)%nat with (S i) by lia. unfold Qdiv. ring. }
  rewrite sumn_scale_r, <- qn_nsum.
  assert (E : nsum (S (length cs)) (fun i => (S i * count (S i) (degrees g))%nat) = list_sum (degrees g)).
  { rewrite <- (count_weighted (degrees g) (S (S (length cs)))) by lia.
    rewrite (nsum_shift (S (length cs)) (fun i => (i * count i (degrees g))%nat)). reflexivity. }
  rewrite E, (handshake g Hwf). unfold Qdiv. reflexivity.
Qed.

(* ------------------------------------------------------------ the step rule of ContinuousGF.getCoefficient *)

Lemma contour_points_gt i : (i < contour_points i)%nat.
Proof.
  unfold contour_points.
  pose proof (Nat.div_mod (i + 1 + 98) 99 ltac:(lia)) as D.
  pose proof (Nat.mod_upper_bound (i + 1 + 98) 99 ltac:(lia)) as B.
  lia.
Qed.

Lemma contour_points_ceil i : (99 * (contour_points i / 100) >= i + 1 /\ 99 * (contour_points i / 100 - 1) < i + 1)%nat.
Proof.
  unfold contour_points.
  rewrite (Nat.mul_comm 100), Nat.div_mul by lia.
  pose proof (Nat.div_mod (i + 1 + 98) 99 ltac:(lia)) as D.
  pose proof (Nat.mod_upper_bound (i + 1 + 98) 99 ltac:(lia)) as B.
  lia.
Qed.
