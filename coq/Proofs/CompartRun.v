(* C07 / C08, kernel side: a run of either scheduler loop of Model/Kernel.v is a sequence of
   scheduler-internal moves (which touch neither the loci nor the user state and never add a
   posted event) and of CALLS of event functions:
     - a stochastic / per-element event function, entered on a member of its registered locus
       at that very instant, with the handler time equal to the clock (C05);
     - a posted event function, popped from the head of the (discarded) queue.
   [Steps s0 cs s] records the calls with the states they were entered on, oldest first, so
   that state invariants can be proved by induction over a run and every statement of the form
   "at every call of an event function in a run ..." has a precise meaning.
   For every world type, table, oracle and fuel. *)
From Coq Require Import List ZArith QArith Qabs Bool Arith Lia.
From EpyV Require Import Model.Kernel Proofs.KernelBase Proofs.KernelMember Proofs.KernelSync.
Import ListNotations.
Open Scope Q_scope.

Inductive call := CEv (x : nat * nat * event) (t : Q) (e : elem) | CPost (h : entry).

Section Run.
Context {W : Type}.
Variable tb : table W.
Implicit Types s : st W.

(* a scheduler-internal move *)
Definition sched s s' : Prop :=
  loci s' = loci s /\ world s' = world s /\ nextid s' = nextid s /\ incl (queue s') (queue s)
  /\ out s' = out s /\ (wf s -> wf s')
  /\ (wf s -> forall x, In x (queue s) -> e_live x = true -> In x (queue s')).

Lemma sched_refl s : sched s s.
Proof.
  split; [reflexivity|]. split; [reflexivity|]. split; [reflexivity|]. split; [apply incl_refl|]. split; [reflexivity|]. split; auto.
Qed.

Lemma sched_trans s1 s2 s3 : sched s1 s2 -> sched s2 s3 -> sched s1 s3.
Proof.
  intros (a1 & a2 & a3 & a4 & a5 & a6 & a7) (b1 & b2 & b3 & b4 & b5 & b6 & b7).
  split; [congruence|]. split; [congruence|]. split; [congruence|]. split; [eapply incl_tran; eassumption|].
  split; [congruence|]. split; [auto|]. intros Hw x Hx Hl. apply b7; [apply a6, Hw | apply a7; assumption | exact Hl].
Qed.

Lemma sched_same s s' : loci s' = loci s -> world s' = world s -> nextid s' = nextid s -> queue s' = queue s ->
  out s' = out s -> sched s s'.
Proof.
  intros H1 H2 H3 H4 H5. split; [exact H1|]. split; [exact H2|]. split; [exact H3|]. unfold wf. rewrite H3, H4, H5.
  split; [apply incl_refl|]. split; [reflexivity|]. split; auto.
Qed.

Lemma sched_advance a b c s : sched s (advance a b c s).
Proof. apply sched_same; reflexivity. Qed.
Lemma sched_set_clock t s : sched s (set_clock t s).
Proof. apply sched_same; reflexivity. Qed.
Lemma sched_set_stuck s : sched s (set_stuck s).
Proof. apply sched_same; reflexivity. Qed.
Lemma sched_discard s : sched s (discard s).
Proof.
  unfold discard. split; [reflexivity|]. split; [reflexivity|]. split; [reflexivity|]. cbn [queue set_queue].
  split; [apply discard_dead_incl|]. split; [reflexivity|]. unfold wf. cbn [queue nextid set_queue]. split; intros [H1 H2].
  - split; [apply discard_dead_NoDup, H1|]. rewrite Forall_forall in *. intros x Hx. apply H2. eapply discard_dead_incl. exact Hx.
  - intros x Hx Hl. apply discard_dead_keeps_live; assumption.
Qed.

(* the state an event function entered by call c on s leaves behind (tap included) *)
Definition after (c : call) s : st W :=
  match c with
  | CEv x t e => fire_event tb x t e s
  | CPost h => pend_step tb h s
  end.

(* what is known at the instant of a call *)
Definition call_ok (c : call) s : Prop :=
  match c with
  | CEv x t e => In x (all_events tb) /\ mem e (locus s (ev_locus (snd x))) = true /\ clock s = t
  | CPost h => head (queue s) = Some h /\ e_live h = true
  end.

Inductive Steps (s0 : st W) : list (st W * call) -> st W -> Prop :=
| st_refl : Steps s0 [] s0
| st_sched cs s s' : Steps s0 cs s -> sched s s' -> Steps s0 cs s'
| st_call cs s c : Steps s0 cs s -> call_ok c s -> Steps s0 (cs ++ [(s, c)]) (after c s).

(* induction principle for invariants: J holds after every call and at the end *)
Lemma Steps_inv (J : st W -> Prop) :
  (forall s s', J s -> sched s s' -> J s') ->
  (forall s c, J s -> call_ok c s -> J (after c s)) ->
  forall s0 cs s, J s0 -> Steps s0 cs s -> J s /\ Forall (fun sc => J (fst sc)) cs.
Proof.
  intros Hs Hc s0 cs s H0 H. induction H as [|cs s s' H IH Hsc|cs s c H IH Hok].
  - split; [exact H0 | constructor].
  - split; [eapply Hs; [exact (proj1 IH) | exact Hsc] | exact (proj2 IH)].
  - split; [apply Hc; [exact (proj1 IH) | exact Hok]|].
    apply Forall_app. split; [exact (proj2 IH)|]. constructor; [exact (proj1 IH) | constructor].
Qed.

(* every recorded call satisfied call_ok on the state it was entered on, and that state was itself reached *)
Lemma Steps_calls s0 cs s : Steps s0 cs s ->
  forall sc, In sc cs -> call_ok (snd sc) (fst sc) /\ exists cs1 cs2, cs = cs1 ++ sc :: cs2 /\ Steps s0 cs1 (fst sc).
Proof.
  intros H. induction H as [|cs s s' H IH Hsc|cs s c H IH Hok]; intros sc Hin.
  - destruct Hin.
  - apply IH, Hin.
  - apply in_app_or in Hin. destruct Hin as [Hin|[<-|[]]].
    + destruct (IH sc Hin) as [A [cs1 [cs2 [E S]]]]. split; [exact A|].
      exists cs1, (cs2 ++ [(s, c)]). split; [rewrite E, <- app_assoc; reflexivity | exact S].
    + split; [exact Hok|]. exists cs, []. split; [reflexivity | exact H].
Qed.

Lemma snoc_cases {A} (l : list A) : l = [] \/ exists l' z, l = l' ++ [z].
Proof. destruct l as [|x l]; [left; reflexivity|]. right. destruct (exists_last (l := x :: l)) as [l' [z E]]; [discriminate|]. eauto. Qed.

(* a run cut at one of its calls *)
Lemma Steps_split s0 cs s : Steps s0 cs s -> forall cs1 sc cs2, cs = cs1 ++ sc :: cs2 ->
  Steps s0 cs1 (fst sc) /\ call_ok (snd sc) (fst sc) /\ Steps (after (snd sc) (fst sc)) cs2 s.
Proof.
  intros H. induction H as [|cs s s' H IH Hsc|cs s c H IH Hok]; intros cs1 sc cs2 E.
  - destruct cs1; discriminate.
  - destruct (IH cs1 sc cs2 E) as (A & B & C). split; [exact A|]. split; [exact B|]. eapply st_sched; eassumption.
  - destruct (snoc_cases cs2) as [->|[cs2' [z ->]]].
    + apply app_inj_tail in E. destruct E as [<- <-]. cbn [fst snd]. split; [exact H|]. split; [exact Hok | apply st_refl].
    + replace (cs1 ++ sc :: cs2' ++ [z]) with ((cs1 ++ sc :: cs2') ++ [z]) in E by (rewrite <- app_assoc; reflexivity).
      apply app_inj_tail in E. destruct E as [E <-]. destruct (IH cs1 sc cs2' E) as (A & B & C).
      split; [exact A|]. split; [exact B|]. apply st_call; assumption.
Qed.

Lemma Steps_app_sched s0 cs s s' : Steps s0 cs s -> sched s s' -> Steps s0 cs s'.
Proof. apply st_sched. Qed.

(* ------------------------------------------------------------------ the calls and the output *)
(* every call writes exactly one handler-entry record, carrying the time the event function is given *)
Definition call_time (c : call) : Q := match c with CEv _ t _ => t | CPost h => e_time h end.
Definition hrec_times (o : list obs) : list Q :=
  flat_map (fun x => match x with OHandler _ t _ _ _ => [t] | _ => [] end) o.

Lemma hrec_times_act l : Forall act_obs l -> hrec_times l = [].
Proof.
  induction l as [|x l IH]; intros H; [reflexivity|]. inversion H as [|? ? Hx H']; subst.
  cbn [hrec_times flat_map]. fold (hrec_times l). rewrite (IH H'). destruct x; cbn in Hx; try contradiction; reflexivity.
Qed.

Lemma hrec_times_app a b : hrec_times (a ++ b) = hrec_times a ++ hrec_times b.
Proof. unfold hrec_times. apply flat_map_app. Qed.

Lemma after_hrec_times c s : hrec_times (out (after c s)) = call_time c :: hrec_times (out s).
Proof.
  destruct c as [[[pi j] ev] t e|h]; cbn [after call_time].
  - destruct (fire_event_spec tb pi j ev t e s) as [_ [l [A E]]]. cbv zeta in E. rewrite E.
    change (OTap t pi (NEv pi j) e :: l ++ ?r) with ((OTap t pi (NEv pi j) e :: l) ++ r).
    rewrite hrec_times_app. cbn [hrec_times flat_map app]. fold (hrec_times l). rewrite (hrec_times_act l A). reflexivity.
  - unfold pend_step. cbn [out emit].
    destruct (fire_shape tb h (set_clock (e_time h) (set_queue (remove_id (e_id h) (queue s)) s))) as [l [A E]].
    rewrite E. cbn [out set_clock set_queue]. cbn [hrec_times flat_map app]. fold (hrec_times (l ++ OHandler (e_prog h) (e_time h) (e_time h) (e_elem h) None :: out s)).
    rewrite hrec_times_app, (hrec_times_act l A). reflexivity.
Qed.

Lemma Steps_hrec_times s0 cs s : Steps s0 cs s ->
  hrec_times (out s) = rev (map (fun sc => call_time (snd sc)) cs) ++ hrec_times (out s0).
Proof.
  intros H. induction H as [|cs s s' H IH Hs|cs s c H IH Hok]; [reflexivity| |].
  - destruct Hs as (_ & _ & _ & _ & -> & _). exact IH.
  - rewrite after_hrec_times, IH, map_app, rev_app_distr. reflexivity.
Qed.

(* ------------------------------------------------------------------ runPendingEvents *)
Lemma run_pending_steps : forall fuel t n s n' s', run_pending tb fuel t n s = (n', s') ->
  forall s0 cs, Steps s0 cs s -> exists cs', Steps s0 (cs ++ cs') s'.
Proof.
  induction fuel as [|f IH]; intros t n s n' s' E s0 cs H; cbn [run_pending] in E.
  - inversion E; subst. exists []. rewrite app_nil_r. eapply st_sched; [exact H | apply sched_set_stuck].
  - assert (Hd : Steps s0 cs (discard s)) by (eapply st_sched; [exact H | apply sched_discard]).
    destruct (head (queue (discard s))) as [h|] eqn:Eh.
    + destruct (Qle_bool (e_time h) t).
      * assert (Hc : Steps s0 (cs ++ [(discard s, CPost h)]) (after (CPost h) (discard s))).
        { apply st_call; [exact Hd|]. split; [exact Eh | exact (discard_head_live s h Eh)]. }
        destruct (IH _ _ _ _ _ E _ _ Hc) as [cs' Hcs']. exists ((discard s, CPost h) :: cs').
        rewrite <- app_assoc in Hcs'. exact Hcs'.
      * inversion E; subst. exists []. rewrite app_nil_r. exact Hd.
    + inversion E; subst. exists []. rewrite app_nil_r. exact Hd.
Qed.

(* ------------------------------------------------------------------ Gillespie loop *)
Lemma stoch_loop_steps : forall pf fuel t ev s t' ev' s', stoch_loop tb pf fuel t ev s = (t', ev', s') ->
  forall s0 cs, Steps s0 cs s -> exists cs', Steps s0 (cs ++ cs') s'.
Proof.
  intros pf. induction fuel as [|f IH]; intros t ev s t' ev' s' E s0 cs H.
  - cbn [stoch_loop] in E. inversion E; subst. exists []. rewrite app_nil_r.
    eapply st_sched; [exact H | apply sched_set_stuck].
  - rewrite stoch_loop_S in E. destruct (at_equil tb t s).
    { inversion E; subst. exists []. rewrite app_nil_r. exact H. }
    destruct (Qeq_bool (sum_rates s (transitions tb)) 0).
    + unfold next_pending_time in E.
      assert (Hd : Steps s0 cs (discard s)) by (eapply st_sched; [exact H | apply sched_discard]).
      destruct (head (queue (discard s))) as [h|]; cbn [option_map] in E.
      * destruct (run_pending tb pf (e_time h) 0 (discard s)) as [n s''] eqn:Ep.
        destruct (run_pending_steps _ _ _ _ _ _ Ep _ _ Hd) as [c1 H1].
        destruct (IH _ _ _ _ _ _ E _ _ H1) as [c2 H2]. exists (c1 ++ c2). rewrite app_assoc. exact H2.
      * inversion E; subst. exists []. rewrite app_nil_r. exact Hd.
    + destruct (stoch_select tb s) as [[[x dt] s3]|] eqn:Es.
      * destruct (stoch_select_shape tb s x dt s3 Es) as [Hx [nr [_ ->]]]. cbv zeta in E.
        assert (H3 : Steps s0 cs (advance nr 1 0 s)) by (eapply st_sched; [exact H | apply sched_advance]).
        destruct (run_pending tb pf (Qred (t + dt)) 0 (advance nr 1 0 s)) as [n s4] eqn:Ep.
        destruct (run_pending_steps _ _ _ _ _ _ Ep _ _ H3) as [c1 H1].
        assert (H5 : Steps s0 (cs ++ c1) (set_clock (Qred (t + dt)) s4)) by (eapply st_sched; [exact H1 | apply sched_set_clock]).
        set (s5 := set_clock (Qred (t + dt)) s4) in *.
        destruct (locus s5 (ev_locus (snd x))) as [|e0 l0] eqn:El.
        -- rewrite (stoch_fire_empty tb x _ _ s5 El) in E.
           destruct (IH _ _ _ _ _ _ E _ _ H5) as [c2 H2]. exists (c1 ++ c2). rewrite app_assoc. exact H2.
        -- assert (Hne : locus s5 (ev_locus (snd x)) <> []) by (rewrite El; discriminate).
           destruct (stoch_fire_member tb x (Qred (t + dt)) (ev + n) s5 Hne) as [e [He Ef]]. rewrite Ef in E.
           assert (H6 : Steps s0 (cs ++ c1) (advance 0 0 1 s5)) by (eapply st_sched; [exact H5 | apply sched_advance]).
           assert (H7 : Steps s0 ((cs ++ c1) ++ [(advance 0 0 1 s5, CEv x (Qred (t + dt)) e)])
                              (after (CEv x (Qred (t + dt)) e) (advance 0 0 1 s5))).
           { apply st_call; [exact H6|]. split; [exact Hx|]. split; [apply mem_In; exact He | reflexivity]. }
           cbn [after] in H7.
           destruct (IH _ _ _ _ _ _ E _ _ H7) as [c2 H2].
           exists (c1 ++ (advance 0 0 1 s5, CEv x (Qred (t + dt)) e) :: c2).
           rewrite <- !app_assoc in H2. exact H2.
      * inversion E; subst. exists []. rewrite app_nil_r. eapply st_sched; [exact H | apply sched_set_stuck].
Qed.

(* ------------------------------------------------------------------ synchronous loop *)
Lemma fire_tranche_steps : forall t evs nev s nev' s', fire_tranche tb t evs nev s = (nev', s') ->
  Forall (fun xe => In (fst xe) (all_events tb)) evs -> clock s = t ->
  forall s0 cs, Steps s0 cs s -> exists cs', Steps s0 (cs ++ cs') s' /\ clock s' = t.
Proof.
  intros t. induction evs as [|[x e] evs IH]; intros nev s nev' s' E Hall Hc s0 cs H.
  - cbn [fire_tranche] in E. inversion E; subst. exists []. rewrite app_nil_r. split; [exact H | reflexivity].
  - inversion Hall as [|? ? Hx Hall']; subst. cbn [fst] in Hx.
    destruct (mem e (locus s (ev_locus (snd x)))) eqn:Em.
    + rewrite (fire_tranche_fire tb _ _ _ _ _ _ Em) in E.
      assert (H1 : Steps s0 (cs ++ [(s, CEv x (clock s) e)]) (after (CEv x (clock s) e) s)).
      { apply st_call; [exact H|]. split; [exact Hx|]. split; [exact Em | reflexivity]. }
      cbn [after] in H1.
      destruct (IH _ _ _ _ E Hall' (fire_event_clock tb x (clock s) e s) _ _ H1) as [c2 [H2 Hc2]].
      exists ((s, CEv x (clock s) e) :: c2). rewrite <- app_assoc in H2. split; [exact H2 | exact Hc2].
    + rewrite (fire_tranche_skip tb _ _ _ _ _ _ Em) in E. exact (IH _ _ _ _ E Hall' eq_refl _ _ H).
Qed.

Lemma sync_loop_steps : forall pf fuel t ev k s t' ev' k' s', sync_loop tb pf fuel t ev k s = (t', ev', k', s') ->
  forall s0 cs, Steps s0 cs s -> exists cs', Steps s0 (cs ++ cs') s'.
Proof.
  intros pf. induction fuel as [|f IH]; intros t ev k s t' ev' k' s' E s0 cs H.
  - cbn [sync_loop] in E. inversion E; subst. exists []. rewrite app_nil_r.
    eapply st_sched; [exact H | apply sched_set_stuck].
  - rewrite sync_loop_S in E. destruct (at_equil tb t s).
    { inversion E; subst. exists []. rewrite app_nil_r. exact H. }
    unfold sync_step in E.
    assert (H0 : Steps s0 cs (set_clock t s)) by (eapply st_sched; [exact H | apply sched_set_clock]).
    destruct (run_pending tb pf t 0 (set_clock t s)) as [n s1] eqn:Ep.
    destruct (run_pending_steps _ _ _ _ _ _ Ep _ _ H0) as [c1 H1].
    pose proof (tranche_sel_ok tb (set_clock t s1)) as Hsel.
    rewrite tranche_spec in E, Hsel. cbn [fst] in Hsel.
    set (s2 := advance _ _ _ (set_clock t s1)) in *.
    assert (H2 : Steps s0 (cs ++ c1) s2).
    { eapply st_sched; [eapply st_sched; [exact H1 | apply (sched_set_clock t)] | apply sched_advance]. }
    destruct (fire_tranche tb t _ n s2) as [nev s3] eqn:Ef.
    assert (Hall : Forall (fun xe : (nat * nat * event) * elem => In (fst xe) (all_events tb))
                     (spec_tranche tb (loci (set_clock t s1)) (rands (set_clock t s1)) (draws (set_clock t s1)))).
    { eapply Forall_impl; [|exact Hsel]. intros xe Hxe. exact (proj1 Hxe). }
    destruct (fire_tranche_steps _ _ _ _ _ _ Ef Hall eq_refl _ _ H2) as [c2 [H3 _]].
    destruct (IH _ _ _ _ _ _ _ _ E _ _ H3) as [c3 H4]. exists (c1 ++ c2 ++ c3).
    rewrite <- !app_assoc in H4. exact H4.
Qed.

(* ------------------------------------------------------------------ whole runs *)
Theorem stoch_run_steps : forall pf fuel rs ls ds,
  exists cs, Steps (setup_state tb rs ls ds) cs (r_final (stoch_run tb pf fuel rs ls ds)).
Proof.
  intros pf fuel rs ls ds. unfold stoch_run.
  destruct (stoch_loop tb pf fuel 0 0 (setup_state tb rs ls ds)) as [[t ev] s] eqn:E. cbn [r_final].
  destruct (stoch_loop_steps _ _ _ _ _ _ _ _ E _ [] (st_refl _)) as [cs H]. exists cs. exact H.
Qed.

Theorem sync_run_steps : forall pf fuel rs ds,
  exists cs, Steps (setup_state tb rs [] ds) cs (r_final (sync_run tb pf fuel rs ds)).
Proof.
  intros pf fuel rs ds. unfold sync_run.
  destruct (sync_loop tb pf fuel 1 0 0 (setup_state tb rs [] ds)) as [[[t ev] k] s] eqn:E. cbn [r_final].
  destruct (sync_loop_steps _ _ _ _ _ _ _ _ _ _ E _ [] (st_refl _)) as [cs H]. exists cs. exact H.
Qed.

End Run.
