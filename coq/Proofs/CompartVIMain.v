(* SIR_VariableInfection in the Coq whole-run model: the final statements.
     A. about the dynamic kernel (Model/KernelDyn.v), for every user state W and every dynamic
        table D (arbitrary user programs, arbitrary generator of appended entries); the model follows
        /repo after repair F15 (0d0f7b6: len(SingletonLocus) is 0 once its element has left its locus);
     B. about SIR_VariableInfection (Model/CompartVI.v), for every vimodel (loci table, registered
        events, index of the SI locus, summary of infect), network, initial assignment, edge
        infectivities, oracle and fuel; the shipped class is [sir_vi pRemove];
     C. non-vacuity: a 3-node path under both dynamics, by vm_compute.
   A record [OHandler prog t clock e (Some m)] is written at the instant a stochastic /
   per-element event function is entered; for an appended entry m is the outcome of the entry's
   own membership test (SingletonLocus.__contains__) on the state at that instant
   (Model/KernelDyn.v, fire_dyn).  The tie Tie/CompartVI.v compares exactly these flags with the
   `e in SI-locus` the harness evaluates at the entry of SIR_VariableInfection.infect. *)
From Coq Require Import List ZArith QArith Bool Arith Lia.
From EpyV Require Import Lib.Prelude Model.Kernel Model.KernelDyn Model.Loci Model.Compart Model.CompartVI
  Proofs.KernelBase Proofs.KernelMember Proofs.KernelSync Proofs.LociBase Proofs.LociLocus Proofs.LociInv
  Proofs.CompartRun Proofs.CompartSort Proofs.CompartInv Proofs.CompartDiagram
  Proofs.KernelDyn Proofs.KernelDynLoops Proofs.KernelDynRun Proofs.KernelDynStatic Proofs.KernelDynExample
  Proofs.CompartVI Tie.CompartVI.
Import ListNotations.
Open Scope Q_scope.

(* ================================================================== A. the dynamic kernel *)

(* ---------------------------------------------------------------- C05, synchronous dynamics *)
(* every event function entered from the tranche - registered event or appended entry - is entered
   on an element that passes the membership test of its locus at that instant *)
Theorem CVI_member_sync : forall W (D : dtable W) pf fuel rs ds k t c e m,
  In (OHandler k t c e (Some m)) (r_out (dsync_run D pf fuel rs ds)) -> m = true.
Proof. intros W D. exact (dsync_run_member D). Qed.
Print Assumptions CVI_member_sync.

(* a selected appended entry whose test fails when its turn comes: no call, no record, no count,
   state untouched, the rest of the tranche proceeds *)
Theorem CVI_sync_skip : forall W (D : dtable W) t pi d e evs nev (s : st W),
  de_member d (loci s) (world s) = false ->
  dfire_tranche D t ((TDyn pi d, e) :: evs) nev s = dfire_tranche D t evs nev s.
Proof. intros W D. exact (dfire_tranche_skip_dyn D). Qed.
Print Assumptions CVI_sync_skip.

Theorem CVI_sync_fire : forall W (D : dtable W) t pi d e evs nev (s : st W),
  de_member d (loci s) (world s) = true ->
  dfire_tranche D t ((TDyn pi d, e) :: evs) nev s = dfire_tranche D t evs (S nev) (fire_dyn D pi d t s).
Proof. intros W D. exact (dfire_tranche_fire_dyn D). Qed.
Print Assumptions CVI_sync_fire.

(* over a whole tranche: every handler record has member = true, time t, clock t, and the count
   grows by exactly the number of event functions entered (skipped entries are not counted) *)
Theorem CVI_sync_tranche_count : forall W (D : dtable W) t evs nev (s : st W), clock s = t ->
  exists l, out (snd (dfire_tranche D t evs nev s)) = l ++ out s /\
            Forall (dtranche_rec t) l /\
            fst (dfire_tranche D t evs nev s) = (nev + nfired l)%nat.
Proof. intros W D t evs nev s Hc. exact (proj2 (dfire_tranche_count D t evs nev s Hc)). Qed.
Print Assumptions CVI_sync_tranche_count.

(* allEventsInTimestep only selects entries of positive probability; an appended entry selected was
   generated from the loci and user state as they stood at that call, and is paired with its own value *)
Theorem CVI_sync_select : forall W (D : dtable W) (s : st W),
  Forall (dsel_ok D (loci s) (world s)) (fst (dtranche D s)).
Proof. intros W D s. exact (proj2 (dtranche_spec D s)). Qed.
Print Assumptions CVI_sync_select.

(* ... so in a synchronous run every tapped event is a registered event of positive probability or an
   appended entry of positive probability that the generator produced, fired on its own value:
   zero-probability and absent entries never fire *)
Theorem CVI_zero_never_sync : forall W (D : dtable W) pf fuel rs ds t pi j e,
  In (OTap t pi (NEv pi j) e) (r_out (dsync_run D pf fuel rs ds)) -> fired_dyn_ok D pi j e.
Proof. intros W D. exact (dsync_run_fired D). Qed.
Print Assumptions CVI_zero_never_sync.

(* ---------------------------------------------------------------- C05, stochastic dynamics *)
(* one Gillespie iteration: selection over the distribution computed from the state at its start,
   the posted events, then the firing (dstoch_fire): a registered event reads its live locus, an appended
   entry is tested on the current state and, if still a member, called on its stored value without
   consuming a rank *)
Theorem CVI_stoch_iteration : forall W (D : dtable W) pf f t events (s : st W),
  dstoch_loop D pf (S f) t events s =
  if at_equil (d_tb D) t s then (t, events, s)
  else if Qeq_bool (dsum_rates s (dtransitions D (loci s) (world s))) 0 then
    match next_pending_time s with
    | (None, s') => (t, events, s')
    | (Some et, s') => let '(n, s'') := run_pending (d_tb D) pf et 0 s' in dstoch_loop D pf f et (events + n) s''
    end
  else
    match dstoch_select D s with
    | None => (t, events, set_stuck s)
    | Some (x, dt, s3) =>
        let nt := Qred (t + dt) in
        let '(n, s4) := run_pending (d_tb D) pf nt 0 s3 in
        let '(ev', s6) := dstoch_fire D x nt (events + n) (set_clock nt s4) in
        dstoch_loop D pf f nt ev' s6
    end.
Proof. intros W D. exact (dstoch_loop_S D). Qed.
Print Assumptions CVI_stoch_iteration.

(* with probabilities >= 0 and uniform variates in [0,1): the entry selected has a positive rate and a
   positive probability *)
Theorem CVI_zero_never_stoch_select : forall W (D : dtable W) (s : st W) x dt s3,
  dnonneg D (loci s) (world s) -> Forall unit_rand (rands s) ->
  Qeq_bool (dsum_rates s (dtransitions D (loci s) (world s))) 0 = false ->
  dstoch_select D s = Some (x, dt, s3) ->
  In x (dtransitions D (loci s) (world s)) /\ 0 < drate s x /\ 0 < trans_p x.
Proof.
  intros W D s x dt s3 Hnn Hr Ha E. split; [exact (proj1 (dstoch_select_shape D s x dt s3 E))|].
  exact (dstoch_select_pos D s x dt s3 Hnn Hr Ha E).
Qed.
Print Assumptions CVI_zero_never_stoch_select.

(* the guard `len(l) > 0` of the Gillespie loop, for an appended entry: its membership test on the state
   the posted events of the interval left (repair F15: len(SingletonLocus) is 0 once its element has left
   the locus it was taken from).  A stale entry: no call, no record, no count, no rank consumed *)
Theorem CVI_stoch_stale_skip : forall W (D : dtable W) pi d nt ev (s5 : st W),
  de_member d (loci s5) (world s5) = false -> dstoch_fire D (TDyn pi d) nt ev s5 = (ev, s5).
Proof. intros W D. exact (dstoch_fire_stale D). Qed.
Print Assumptions CVI_stoch_stale_skip.

Theorem CVI_stoch_live_fire : forall W (D : dtable W) pi d nt ev (s5 : st W),
  de_member d (loci s5) (world s5) = true -> dstoch_fire D (TDyn pi d) nt ev s5 = (S ev, fire_dyn D pi d nt s5).
Proof. intros W D. exact (dstoch_fire_live D). Qed.
Print Assumptions CVI_stoch_live_fire.

(* hence, for every dynamic table, whatever user programs post and do: every event function entered from
   the Gillespie loop - registered event or appended entry - is entered on an element that passes the
   membership test of its locus at that instant *)
Theorem CVI_member_stoch : forall W (D : dtable W) pf fuel rs ls ds k t c e m,
  In (OHandler k t c e (Some m)) (r_out (dstoch_run D pf fuel rs ls ds)) -> m = true.
Proof. intros W D. exact (dstoch_run_member D). Qed.
Print Assumptions CVI_member_stoch.

(* the F15 situation in the model: the entry for element 1 is selected at time 0 for time 1; an event posted
   for 1/2 removes element 1 from the underlying locus; the stale entry is skipped (before the repair the
   event function was entered on the non-member) *)
Example CVI_stale_entry_skipped :
  let D := ex_D [] [APost (1#2) 1%nat] 1 in
  let r := dstoch_run D 10 10 [1#2; 1#4] [2] [] in
  r_out r = [OPosted 0 (1 # 2); OHandler 1 (1 # 2) (1 # 2) (EN 0) None; OTap (1 # 2) 0 (NPost 1) (EN 0)]
  /\ r_time r = 1 /\ r_events r = 1%nat /\ r_stuck r = false /\ loci (r_final r) = [[EN 2]].
Proof. exact dstoch_stale_skipped. Qed.
Print Assumptions CVI_stale_entry_skipped.

(* with probabilities >= 0 in every distribution and uniform variates in [0,1): zero-probability and absent
   entries never fire in a Gillespie run *)
Theorem CVI_zero_never_stoch : forall W (D : dtable W) pf fuel rs ls ds t pi j e,
  (forall lc w, dnonneg D lc w) -> Forall unit_rand rs ->
  In (OTap t pi (NEv pi j) e) (r_out (dstoch_run D pf fuel rs ls ds)) -> fired_dyn_ok D pi j e.
Proof. intros W D. exact (dstoch_run_fired D). Qed.
Print Assumptions CVI_zero_never_stoch.

(* ---------------------------------------------------------------- the variant is the same scheduler *)
(* without appended entries both loops of Model/KernelDyn.v compute exactly what Model/Kernel.v's do *)
Theorem CVI_conservative_stoch : forall W (tb : table W) pf fuel rs ls ds,
  dstoch_run (static_dtable tb) pf fuel rs ls ds = stoch_run tb pf fuel rs ls ds.
Proof. intros W tb. exact (dstoch_run_static tb). Qed.
Print Assumptions CVI_conservative_stoch.

Theorem CVI_conservative_sync : forall W (tb : table W) pf fuel rs ds,
  dsync_run (static_dtable tb) pf fuel rs ds = sync_run tb pf fuel rs ds.
Proof. intros W tb. exact (dsync_run_static tb). Qed.
Print Assumptions CVI_conservative_sync.

(* ================================================================== B. SIR_VariableInfection *)
(* the shipped class is [sir_vi pRemove] (Model/CompartVI.v): compartments I = 1, R = 2, S = 3 (the tie's
   coding); loci SI, I; one registered event remove on I; infect = changeCompartment(n, I) + markOccupied
   + markHit.  Tie/CompartVI.v checks on every run that the table read off the live objects is of this form. *)
Theorem CVI_sir_vi_facts : forall p,
  vi_nopost (sir_vi p) = true /\ wf_loci (vim_specs (sir_vi p)) = true
  /\ vi_arrows (sir_vi p) = [(1, 2); (3, 1)]%Z                     (* I > R, S > I *)
  /\ cm_comps (vi_cm (sir_vi p)) = [3; 2; 1]%Z.
Proof. intros p. repeat split. Qed.
Print Assumptions CVI_sir_vi_facts.

Theorem CVI_shipped_is_sir_vi : forall vm, Tie.CompartVI.vi_shipped vm = true -> exists p post, vm = sir_vi_gen p post.
Proof.
  intros [specs events si0 infect sp]. unfold Tie.CompartVI.vi_shipped. cbn [vim_events vim_specs vim_si vim_infect vim_seed_post].
  destruct events as [|[el lo p kd] [|ev2 events]]; try discriminate.
  cbn [ce_elem ce_locus ce_kind]. rewrite !andb_true_iff. intros [[[[[[H1 H2] H3] H4] H5] H6] H8].
  exists p.
  assert (Hsp : exists post, sp = option_map (fun T => (1%Z, T, 0%nat)) post).
  { destruct sp as [[[c T] k]|]; [|exists None; reflexivity]. apply andb_true_iff in H8. destruct H8 as [G1 G2].
    apply Z.eqb_eq in G1. apply Nat.eqb_eq in G2. subst. exists (Some T). reflexivity. }
  destruct Hsp as [post ->]. exists post. clear H8. apply Nat.eqb_eq in H3. apply Nat.eqb_eq in H5. subst el lo si0.
  destruct kd as [c|c m0 post0| |]; cbn in H4; try discriminate; [|destruct post0; discriminate]. apply Z.eqb_eq in H4. subst c.
  destruct infect as [c0|c m [post1|]| |]; cbn in H6; try discriminate.
  apply andb_true_iff in H6. destruct H6 as [H6 H7]. apply Z.eqb_eq in H6. subst c. destruct m; [|discriminate].
  destruct specs as [|[c1|l r|l2 rs2] [|[c|l3 r3|l3 rs3] [|sp3 specs]]]; cbn in H1; rewrite ?andb_true_iff in H1;
    try discriminate; try (exfalso; intuition discriminate).
  destruct H1 as [[G1 G2] [G3 _]].
  apply Z.eqb_eq in G1. apply Z.eqb_eq in G2. apply Z.eqb_eq in G3. subst. reflexivity.
Qed.
Print Assumptions CVI_shipped_is_sir_vi.

(* ---------------------------------------------------------------- (2) the distribution *)
(* the registered per-element events, then exactly one entry per element of the SI locus, in the
   order of that locus, each with its own element, the infectivity of that edge as probability,
   infect as event function and `still in the SI locus` as membership test *)
Theorem CVI_vi_distribution : forall vm nodes edges init inf maxtime monitor lc w,
  let D := mk_vitable vm nodes edges init inf maxtime monitor in
  dper_element D lc w
  = map TStat (per_element (d_tb D))
    ++ map (fun e => TDyn (vi_mpi monitor) (vi_entry vm w e)) (nth (vim_si vm) lc []).
Proof. intros vm nodes edges init inf maxtime monitor lc w. exact (vi_dper_element vm nodes edges init inf maxtime monitor lc w). Qed.
Print Assumptions CVI_vi_distribution.

Theorem CVI_vi_entry : forall vm w n m,
  let d := vi_entry vm w (EE n m) in
  de_value d = EE n m /\ de_prog d = vi_infect_prog vm
  /\ de_p d = match infectivity (vi_inf w) n m with Some p => p | None => 0 end
  /\ forall lc w', de_member d lc w' = mem (EE n m) (nth (vim_si vm) lc []).
Proof. intros vm w n m. repeat split. Qed.
Print Assumptions CVI_vi_entry.

(* ---------------------------------------------------------------- (1) C05 for whole runs *)
Theorem CVI_vi_member_stoch : forall vm nodes edges init inf maxtime monitor pf fuel rs ls ds k t c e m,
  In (OHandler k t c e (Some m)) (r_out (dstoch_run (mk_vitable vm nodes edges init inf maxtime monitor) pf fuel rs ls ds)) ->
  m = true.
Proof. intros vm nodes edges init inf maxtime monitor. exact (dstoch_run_member (mk_vitable vm nodes edges init inf maxtime monitor)). Qed.
Print Assumptions CVI_vi_member_stoch.

Theorem CVI_vi_member_sync : forall vm nodes edges init inf maxtime monitor pf fuel rs ds k t c e m,
  In (OHandler k t c e (Some m)) (r_out (dsync_run (mk_vitable vm nodes edges init inf maxtime monitor) pf fuel rs ds)) ->
  m = true.
Proof. intros vm nodes edges init inf maxtime monitor. exact (dsync_run_member (mk_vitable vm nodes edges init inf maxtime monitor)). Qed.
Print Assumptions CVI_vi_member_sync.

(* ---------------------------------------------------------------- (3) C01 / C07 along whole runs *)
(* [VJ s]: the kernel's loci are the sorted loci the handlers keep, these satisfy the C01 invariant
   for the model's table, nodes and edges are the network's, every node has a compartment of the
   model.  It holds on the state every event function is entered on and at the end, under either
   dynamics - also for a subclass whose set-up posts removals (vim_seed_post). *)
Theorem CVI_vi_stoch_run : forall vm nodes edges init inf maxtime monitor pf fuel rs ls ds,
  wf_loci (vim_specs vm) = true -> graph_okb nodes edges = true -> init_ok (vi_cm vm) nodes init = true ->
  let D := mk_vitable vm nodes edges init inf maxtime monitor in
  exists cs, DSteps D (fun _ => True) (setup_state (d_tb D) rs ls ds) cs (r_final (dstoch_run D pf fuel rs ls ds))
    /\ VJ vm nodes edges (r_final (dstoch_run D pf fuel rs ls ds)) /\ Forall (fun sc => VJ vm nodes edges (fst sc)) cs.
Proof.
  intros vm nodes edges init inf maxtime monitor pf fuel rs ls ds Hwf Hg Hi. cbv zeta.
  destruct (vi_stoch_run_steps vm nodes edges init inf maxtime monitor pf fuel rs ls ds) as [cs H].
  exists cs. split; [exact H|].
  exact (VJ_dsteps vm nodes edges init inf maxtime monitor _ rs ls ds cs _ Hwf Hg Hi H).
Qed.
Print Assumptions CVI_vi_stoch_run.

Theorem CVI_vi_sync_run : forall vm nodes edges init inf maxtime monitor pf fuel rs ds,
  wf_loci (vim_specs vm) = true -> graph_okb nodes edges = true -> init_ok (vi_cm vm) nodes init = true ->
  let D := mk_vitable vm nodes edges init inf maxtime monitor in
  exists cs, DSteps D (Xpos) (setup_state (d_tb D) rs [] ds) cs (r_final (dsync_run D pf fuel rs ds))
    /\ VJ vm nodes edges (r_final (dsync_run D pf fuel rs ds)) /\ Forall (fun sc => VJ vm nodes edges (fst sc)) cs.
Proof.
  intros vm nodes edges init inf maxtime monitor pf fuel rs ds Hwf Hg Hi. cbv zeta.
  destruct (vi_sync_run_steps vm nodes edges init inf maxtime monitor pf fuel rs ds) as [cs H].
  exists cs. split; [exact H|].
  exact (VJ_dsteps vm nodes edges init inf maxtime monitor _ rs [] ds cs _ Hwf Hg Hi H).
Qed.
Print Assumptions CVI_vi_sync_run.

(* the shipped class (no event function posts, set-up posts nothing): along every run only Monitor.observe is
   ever queued, and a posted call changes neither the user state nor the loci *)
Theorem CVI_vi_only_observe_queued : forall vm nodes edges init inf maxtime monitor Xtr rs ls ds cs (s : st viworld),
  let D := mk_vitable vm nodes edges init inf maxtime monitor in
  vi_nopost vm = true -> DSteps D Xtr (setup_state (d_tb D) rs ls ds) cs s ->
  qinv (vi_posted vm) s /\ Forall (fun sc => qinv (vi_posted vm) (fst sc)) cs.
Proof. intros vm nodes edges init inf maxtime monitor Xtr rs ls ds cs s. exact (vi_qinv_dsteps vm nodes edges init inf maxtime monitor Xtr rs ls ds cs s). Qed.
Print Assumptions CVI_vi_only_observe_queued.

Theorem CVI_vi_posted_inert : forall vm nodes edges init inf maxtime monitor Xtr h (s : st viworld),
  let D := mk_vitable vm nodes edges init inf maxtime monitor in
  qinv (vi_posted vm) s -> dcall_ok D Xtr (DPost h) s ->
  world (dafter D (DPost h) s) = world s /\ loci (dafter D (DPost h) s) = loci s.
Proof. intros vm nodes edges init inf maxtime monitor Xtr h s. exact (vi_posted_call_inert vm nodes edges init inf maxtime monitor Xtr h s). Qed.
Print Assumptions CVI_vi_posted_inert.

(* C07_partition on such a state: the network is unchanged, every node has exactly one compartment
   of the model, the sizes results() reports sum to |V| *)
Theorem CVI_vi_partition : forall vm nodes edges (s : st viworld), VJ vm nodes edges s ->
  let st := cw_st (vi_base (world s)) in
  st_nodes st = nodes /\ st_edges st = edges
  /\ (forall v, In v nodes -> exists c, getc st v = Some c /\ In c (cm_comps (vi_cm vm)))
  /\ NoDup (cm_comps (vi_cm vm))
  /\ lsum (map (count_in st) (cm_comps (vi_cm vm))) = length nodes.
Proof. intros vm nodes edges s. exact (vi_partition vm nodes edges s). Qed.
Print Assumptions CVI_vi_partition.

(* C07_diagram: whatever a call of a stochastic / per-element event function or of an appended entry changes
   is an arrow of the model (for sir_vi: S>I, I>R); posted calls of the shipped class change nothing
   (CVI_vi_posted_inert) *)
Theorem CVI_vi_diagram : forall vm nodes edges init inf maxtime monitor Xtr c (s : st viworld),
  let D := mk_vitable vm nodes edges init inf maxtime monitor in
  VJ vm nodes edges s -> dcall_ok D Xtr c s -> (forall h, c <> DPost h) ->
  forall v, getc (cw_st (vi_base (world (dafter D c s)))) v <> getc (cw_st (vi_base (world s))) v ->
  exists l c', getc (cw_st (vi_base (world s))) v = Some l /\ getc (cw_st (vi_base (world (dafter D c s)))) v = Some c'
    /\ In (l, c') (vi_arrows vm).
Proof. intros vm nodes edges init inf maxtime monitor Xtr c s. exact (vi_call_diagram vm nodes edges init inf maxtime monitor Xtr c s). Qed.
Print Assumptions CVI_vi_diagram.

(* C05_condition / C07_through_infectious_edge: when infect is entered - under either dynamics - its
   element is an edge (n, m) of the network with n susceptible and m infectious at that very moment *)
Theorem CVI_vi_through_infectious_edge : forall vm nodes edges init inf maxtime monitor Xtr pi d t (s : st viworld) l r,
  let D := mk_vitable vm nodes edges init inf maxtime monitor in
  VJ vm nodes edges s -> dcall_ok D Xtr (DDyn pi d t) s ->
  nth (vim_si vm) (vim_specs vm) default_spec = EdgeLocus l r ->
  exists n m, de_value d = EE n m /\ de_prog d = vi_infect_prog vm /\ pi = vi_mpi monitor
    /\ (In (n, m) edges \/ In (m, n) edges)
    /\ getc (cw_st (vi_base (world s))) n = Some l /\ getc (cw_st (vi_base (world s))) m = Some r.
Proof. intros vm nodes edges init inf maxtime monitor Xtr pi d t s l r. exact (vi_through_infectious_edge vm nodes edges init inf maxtime monitor Xtr pi d t s l r). Qed.
Print Assumptions CVI_vi_through_infectious_edge.

(* (2) read with the invariant: on such a state the SI locus the entries are made from is strictly
   ascending and holds exactly the S-I edges of the network *)
Theorem CVI_vi_entries : forall vm nodes edges (s : st viworld) l r,
  VJ vm nodes edges s -> (vim_si vm < length (vim_specs vm))%nat ->
  nth (vim_si vm) (vim_specs vm) default_spec = EdgeLocus l r -> Z.eqb l r = false ->
  ssorted (nth (vim_si vm) (loci s) []) /\
  forall e, In e (nth (vim_si vm) (loci s) []) <->
    exists n m, e = EE n m /\ (In (n, m) edges \/ In (m, n) edges)
      /\ getc (cw_st (vi_base (world s))) n = Some l /\ getc (cw_st (vi_base (world s))) m = Some r.
Proof. intros vm nodes edges s l r. exact (vi_entries_truth vm nodes edges s l r). Qed.
Print Assumptions CVI_vi_entries.

(* ================================================================== C. non-vacuity *)
(* path 0 - 1 - 2, node 0 infected; infectivities 1/2 on (0,1), 1/4 on (1,2) (what
   initialInfectivities stores when rng.random() returns 1/2, 1/4); pRemove = 1/4 *)
Definition ex_vi (mon : option Q) : dtable viworld :=
  mk_vitable (sir_vi (1#4)) [0; 1; 2]%Z [(0, 1); (1, 2)]%Z [(0, 1); (1, 3); (2, 3)]%Z
             (initial_infectivities [(0, 1); (1, 2)]%Z [1#2; 1#4]) 3 mon.

Definition summary (x : trans viworld) : bool * nat * Q * Kernel.elem * nat :=
  match x with
  | TStat y => (true, fst (fst y), ev_p (snd y), EN 0, ev_prog (snd y))
  | TDyn pi d => (false, pi, de_p d, de_value d, de_prog d)
  end.

(* the hypotheses of B hold of it *)
Example CVI_example_hyps :
  vi_nopost (sir_vi (1#4)) = true /\ wf_loci (vim_specs (sir_vi (1#4))) = true
  /\ graph_okb [0; 1; 2]%Z [(0, 1); (1, 2)]%Z = true
  /\ init_ok (vi_cm (sir_vi (1#4))) [0; 1; 2]%Z [(0, 1); (1, 3); (2, 3)]%Z = true
  /\ inf_covers [(0, 1); (1, 2)]%Z (initial_infectivities [(0, 1); (1, 2)]%Z [1#2; 1#4]) = true.
Proof. repeat split. Qed.
Print Assumptions CVI_example_hyps.

(* the distribution at the start: removal on I (p = 1/4), then the one S-I edge (1,0) with infectivity 1/2 *)
Example CVI_example_distribution :
  let s := setup_state (d_tb (ex_vi None)) [] [] [] in
  map summary (dper_element (ex_vi None) (loci s) (world s))
  = [(true, 0%nat, 1#4, EN 0, 0%nat); (false, 0%nat, 1#2, EE 1 0, 1%nat)].
Proof. vm_compute. reflexivity. Qed.
Print Assumptions CVI_example_distribution.

(* Gillespie: a = 3/4; infect on (1,0) at 1/2 (no rank consumed); then remove on node 0 (rank 0) at 3/2;
   then infect on (2,1) at 7/2 >= maximumTime *)
Example CVI_example_stoch :
  let r := dstoch_run (ex_vi None) 50 50 [1#2; 1#2; 1#2; 1#2; 1#2; 1#2] [3#8; 3#4; 1] [0%nat] in
  r_out r = [OHandler 1 (1 # 2) (1 # 2) (EE 1 0) (Some true); OTap (1 # 2) 0 (NEv 0 1) (EE 1 0);
             OHandler 0 (3 # 2) (3 # 2) (EN 0) (Some true); OTap (3 # 2) 0 (NEv 0 0) (EN 0);
             OHandler 1 (7 # 2) (7 # 2) (EE 2 1) (Some true); OTap (7 # 2) 0 (NEv 0 1) (EE 2 1)]
  /\ r_time r = 7 # 2 /\ r_events r = 3%nat /\ r_stuck r = false
  /\ loci (r_final r) = [[]; [EN 1; EN 2]]
  /\ draws (r_final r) = []                                        (* exactly one rank was consumed: by the removal *)
  /\ cw_occ (vi_base (world (r_final r))) = [(1, 0, 1 # 2); (2, 1, 7 # 2)]%Z
  /\ Forall unit_rand [1#2; 1#2; 1#2; 1#2; 1#2; 1#2].
Proof.
  cbv zeta. repeat split; try (vm_compute; reflexivity).
  repeat constructor; vm_compute; discriminate.
Qed.
Print Assumptions CVI_example_stoch.

(* synchronous, behind a Monitor (delta = 1): step 1: trial 1/2 > 1/4 for the removal of node 0, trial
   1/4 <= 1/2 for the edge (1,0): infect; step 2: removal trials 1/8 (node 0: removed), 7/8 (node 1: not),
   edge (2,1): trial 1/2 > 1/4 *)
Example CVI_example_sync :
  let r := dsync_run (ex_vi (Some 1)) 50 50 [1#2; 1#4; 1#8; 7#8; 1#2] [] in
  r_out r = [OPostedRep 0; OHandler 2 0 0 (EN 0) None; OObserve 0 [1%nat; 1%nat]; OTap 0 0 (NPost 2) (EN 0);
             OHandler 2 1 1 (EN 0) None; OObserve 1 [1%nat; 1%nat]; OTap 1 0 (NPost 2) (EN 0);
             OHandler 1 1 1 (EE 1 0) (Some true); OTap 1 1 (NEv 1 1) (EE 1 0);
             OHandler 2 2 2 (EN 0) None; OObserve 2 [1%nat; 2%nat]; OTap 2 0 (NPost 2) (EN 0);
             OHandler 0 2 2 (EN 0) (Some true); OTap 2 1 (NEv 1 0) (EN 0)]
  /\ r_time r = 3 /\ r_events r = 5%nat /\ r_steps r = 2%nat /\ r_stuck r = false
  /\ loci (r_final r) = [[EE 2 1]; [EN 1]].
Proof. cbv zeta. repeat split; vm_compute; reflexivity. Qed.
Print Assumptions CVI_example_sync.

(* synchronous, the F8 situation on a triangle 0-1-2 with 0 and 1 infected, all infectivities 1: both
   (2,0) and (2,1) are selected; infect on (2,0) empties the SI locus; (2,1) fails its test: skipped *)
Example CVI_example_sync_skip :
  let D := mk_vitable (sir_vi 0) [0; 1; 2]%Z [(0, 1); (0, 2); (1, 2)]%Z [(0, 1); (1, 1); (2, 3)]%Z
                      (initial_infectivities [(0, 1); (0, 2); (1, 2)]%Z [1; 1; 1]) 2 None in
  let r := dsync_run D 50 50 [1#2; 1#2] [] in
  r_out r = [OHandler 1 1 1 (EE 2 0) (Some true); OTap 1 0 (NEv 0 1) (EE 2 0)]
  /\ r_events r = 1%nat /\ r_steps r = 1%nat /\ r_stuck r = false
  /\ cw_occ (vi_base (world (r_final r))) = [((2, 0)%Z, 1)].
Proof. cbv zeta. repeat split; vm_compute; reflexivity. Qed.
Print Assumptions CVI_example_sync_skip.

(* the F15 situation with the harness' posted-removal subclass: path 0 - 1, node 0 infected and removed by an
   event posted for 1/2, infectivity 1, pRemove = 0.  Gillespie selects infect on (1,0) for time 1; the posted
   removal runs first; the entry is stale and is skipped: node 1 stays susceptible *)
Example CVI_example_posted_removal :
  let D := mk_vitable (sir_vi_gen 0 (Some (1#2))) [0; 1]%Z [(0, 1)]%Z [(0, 1); (1, 3)]%Z
                      (initial_infectivities [(0, 1)]%Z [1]) 3 None in
  let r := dstoch_run D 50 50 [1#2; 1#2; 1#2] [1; 1] [] in
  r_out r = [OPosted 0 (1 # 2); OHandler 0 (1 # 2) (1 # 2) (EN 0) None; OTap (1 # 2) 0 (NPost 0) (EN 0)]
  /\ r_time r = 1 /\ r_events r = 1%nat /\ r_stuck r = false
  /\ map (getc (cw_st (vi_base (world (r_final r))))) [0; 1]%Z = [Some 2; Some 3]%Z.
Proof. cbv zeta. repeat split; vm_compute; reflexivity. Qed.
Print Assumptions CVI_example_posted_removal.
