(* Soundness of the SIvR summaries: a program whose summary is k IS the event function `vhandler k`. *)
From Coq Require Import List ZArith QArith Bool Arith.
From EpyV Require Import Lib.Prelude Model.Kernel Model.Loci Model.Compart Model.CompartV Model.EvProg Model.EvProgV Proofs.EvProg.
Import ListNotations.
Open Scope Q_scope.

Lemma changes_app : forall a b, changes (a ++ b) = changes a || changes b.
Proof. intros. unfold changes. apply existsb_app. Qed.

Lemma conc_a0_bound : forall tbl t n m w,
  conc tbl t (Some (n, m)) n w (a0 true) = {| i_w := w; i_n := Some n; i_posts := [] |}.
Proof. intros. destruct w. reflexivity. Qed.

Theorem vsummarise_sound : forall p k, vsummarise p = Some k ->
  forall tbl off0 t e kloci w, vinterp tbl off0 p t e kloci w = vhandler tbl off0 k t e kloci w.
Proof.
  intros p k H tbl off0 t e kloci w. destruct p as [q|pre off eff th el]; cbn [vsummarise] in H.
  - destruct (summarise q) as [h|] eqn:Eq.
    + injection H as <-. cbn [vinterp vhandler]. rewrite (summarise_sound _ _ Eq). reflexivity.
    + destruct q as [body|body]; [|discriminate].
      destruct (arun false body (a0 true)) as [a|] eqn:E; [|discriminate].
      destruct a as [b [c|] [o|] [hh|] [pp|] [|[[|] iV] [|[[|] iN] [|? ?]]]]; try discriminate. injection H as <-.
      cbn [vinterp vhandler]. destruct e as [n|n m]; [|destruct w; reflexivity].
      unfold interp. rewrite <- (conc_a0_node tbl t n (vw_base w)).
      rewrite (arun_conc tbl t None n (vw_base w) I body _ _ E).
      pose proof (arun_changes _ _ _ _ E) as Hc. cbn in Hc.
      unfold finish. rewrite <- Hc. unfold conc, with_st, lact_action. cbn. reflexivity.
  - destruct (arun true pre (a0 false)) as [ap|] eqn:Ep; [|discriminate].
    destruct ap as [[|] [?|] [?|] [?|] [?|] [|? ?]]; try discriminate.
    destruct (arun true th (a0 true)) as [at_|] eqn:Et; [|discriminate].
    destruct at_ as [bt [c|] [[|]|] [?|] [?|] [|[[|] iV] [|? ?]]]; try discriminate.
    destruct (arun true el (a0 true)) as [ae|] eqn:Ee; [|discriminate].
    destruct ae as [be [c'|] [[|]|] [?|] [?|] [|[[|] iN] [|? ?]]]; try discriminate.
    destruct (Z.eqb_spec c c') as [<-|]; [|discriminate]. injection H as <-.
    cbn [vinterp vhandler]. destruct e as [n|n m]; [reflexivity|].
    rewrite <- (conc_a0_edge tbl t n m (vw_base w)).
    rewrite (arun_conc tbl t (Some (n, m)) n (vw_base w) eq_refl pre _ _ Ep).
    change {| a_bound := true; a_chg := None; a_occ := None; a_hit := None; a_post := None; a_lacts := [] |} with (a0 true).
    rewrite (arun_conc tbl t (Some (n, m)) n (vw_base w) eq_refl th _ _ Et).
    rewrite (arun_conc tbl t (Some (n, m)) n (vw_base w) eq_refl el _ _ Ee).
    pose proof (arun_changes _ _ _ _ Ep) as Hp. pose proof (arun_changes _ _ _ _ Et) as Ht. pose proof (arun_changes _ _ _ _ Ee) as He.
    cbn in Hp, Ht, He.
    unfold vfinish, finish. rewrite !changes_app, <- Hp, <- Ht, <- He.
    rewrite conc_a0_bound. cbn [i_n i_w i_posts].
    unfold conc, v_infect, lact_action. cbn.
    destruct w as [[bs bo bh] vv gg]. cbn.
    destruct (match vacc_time _ n with Some tv => Qltb (tv + off) t | None => false end); [|reflexivity].
    destruct gg as [|r gg]; [reflexivity|]. cbn.
    destruct (Qltb eff r); reflexivity.
Qed.
