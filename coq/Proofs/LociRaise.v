(* C01: a call that raises leaves the invariant intact (it changes nothing, or - removeEdge of
   an edge that is not there - has only discarded pairs that were not stored). *)
From Coq Require Import List ZArith Bool Arith Lia.
From EpyV Require Import Model.Loci Proofs.LociBase Proofs.LociLocus Proofs.LociInv.
Import ListNotations.

Definition is_done (r : outcome) : bool := match r with Done => true | _ => false end.

(* a call is admissible if it satisfies its precondition or raises *)
Definition okb (tbl : list spec) (s : state) (o : op) : bool :=
  preb s o || negb (is_done (snd (step_out tbl s o))).

Fixpoint admissibleb (tbl : list spec) (s : state) (ops : list op) : bool :=
  match ops with
  | [] => true
  | o :: r => okb tbl s o && admissibleb tbl (step tbl s o) r
  end.

Lemma set_compartment_not_done : forall tbl s n c, snd (set_compartment tbl s n c) <> Done ->
  fst (set_compartment tbl s n c) = s.
Proof.
  intros tbl s n c. unfold set_compartment. destruct (negb (has_node s n)); cbn [fst snd]; [reflexivity | congruence].
Qed.

Theorem winv_step_not_done : forall tbl s o, wf_loci tbl = true -> WInv tbl s ->
  snd (step_out tbl s o) <> Done -> WInv tbl (step tbl s o).
Proof.
  intros tbl s o Hwf W H. unfold step. destruct o as [n c|n c|n c|n|n m|n m]; cbn [step_out] in *.
  - rewrite set_compartment_not_done; assumption.
  - unfold change_compartment in *. destruct (getc_raises s n); cbn [fst snd] in *; [exact W | congruence].
  - unfold add_node in *. destruct c as [c|]; [|cbn [snd] in H; congruence].
    exfalso. apply H. unfold set_compartment.
    assert (Hn : has_node (if has_node s n then s else mkState (st_nodes s ++ [n]) (st_edges s) (st_attr s) (st_loci s)) n = true).
    { destruct (has_node s n) eqn:E; [exact E|]. unfold has_node. cbn [st_nodes]. apply zmem_In, in_app_iff. right. left. reflexivity. }
    rewrite Hn. reflexivity.
  - unfold remove_node in *. destruct (getc_raises s n); cbn [fst snd] in *; [exact W | congruence].
  - unfold add_edge in *. destruct (negb (has_node s n) || negb (has_node s m)); cbn [fst snd] in *; [exact W|].
    destruct (getc_raises s n || getc_raises s m); cbn [fst snd] in *; [exact W | congruence].
  - apply remove_edge_winv_state; assumption.
Qed.

Theorem winv_step_ok : forall tbl s o, wf_loci tbl = true -> WInv tbl s -> okb tbl s o = true -> WInv tbl (step tbl s o).
Proof.
  intros tbl s o Hwf W H. unfold okb in H. apply orb_true_iff in H. destruct H as [H|H].
  - apply winv_step; assumption.
  - apply winv_step_not_done; try assumption. intro E. rewrite E in H. discriminate.
Qed.

Lemma winv_admissible : forall tbl ops s, wf_loci tbl = true -> WInv tbl s -> admissibleb tbl s ops = true ->
  WInv tbl (fold_left (step tbl) ops s).
Proof.
  intros tbl ops. induction ops as [|o r IH]; intros s Hwf W Hv; cbn [fold_left]; [exact W|].
  cbn [admissibleb] in Hv. apply andb_true_iff in Hv. destruct Hv as [H1 H2].
  apply IH; [exact Hwf | apply winv_step_ok; assumption | exact H2].
Qed.

Lemma validb_admissibleb : forall tbl ops s, validb tbl s ops = true -> admissibleb tbl s ops = true.
Proof.
  intros tbl ops. induction ops as [|o r IH]; intros s H; [reflexivity|]. cbn [validb admissibleb] in *.
  apply andb_true_iff in H. destruct H as [H1 H2]. unfold okb. rewrite H1, (IH _ H2). reflexivity.
Qed.
