(* C12, Monitor clause.  A Monitor is a process whose set-up posts the repeating program
   [AObserve] from time 0 with period delta.  Proved for tables with arbitrary other processes:
   the observation records are made inside the handler bracket of their time with one size per
   locus; the monitor's entry is never un-posted (its id is never handed to user code) and
   fires at 0, delta, 2 delta, ...; times around an observation (from C03 monotonicity). *)
From Coq Require Import List ZArith QArith Qabs Bool Arith Lia Lqa Sorted.
From EpyV Require Import Model.Kernel Proofs.KernelBase Proofs.KernelLoops Proofs.KernelQueue
  Proofs.KernelFire Proofs.KernelTime Proofs.KernelResults.
Import ListNotations.
Open Scope Q_scope.

(* ------------------------------------------------------------------ lifting a state predicate over the kernel *)
Section Lift.
Context {W : Type}.
Implicit Types s : st W.
Variable tb : table W.
Variable P : st W -> list entry -> Prop.
Hypothesis P_stuck : forall s lg, P s lg -> P (set_stuck s) lg.
Hypothesis P_osame : forall s s' lg, osame s s' -> P s lg -> P s' lg.
Hypothesis P_discard : forall s lg, P s lg -> P (discard s) lg.
Hypothesis P_clock : forall c s lg, P s lg -> P (set_clock c s) lg.
Hypothesis P_pend : forall h s0 lg, head (queue s0) = Some h -> e_live h = true -> P s0 lg ->
  P (pend_step tb h s0) (lg ++ [h]).
Hypothesis P_event : forall x t e s lg, clock s = t -> P s lg -> P (fire_event tb x t e s) lg.

Lemma lift_run_pendingL fuel t : forall n s lg n' s' l,
  P s lg -> run_pendingL tb fuel t n s = (n', s', l) -> P s' (lg ++ l).
Proof.
  induction fuel as [|f IH]; intros n s lg n' s' l HP; cbn [run_pendingL].
  - intros [= <- <- <-]. rewrite app_nil_r. apply P_stuck, HP.
  - destruct (head (queue (discard s))) as [h|] eqn:Eh;
      [|intros [= <- <- <-]; rewrite app_nil_r; apply P_discard, HP].
    destruct (Qle_bool (e_time h) t); [|intros [= <- <- <-]; rewrite app_nil_r; apply P_discard, HP].
    destruct (run_pendingL tb f t (S n) _) as [[n1 s1] l1] eqn:E. intros [= <- <- <-].
    apply (IH _ _ (lg ++ [h])) in E; [rewrite <- app_assoc in E; exact E|].
    apply P_pend; [exact Eh|eapply discard_head_live; exact Eh|apply P_discard, HP].
Qed.

Lemma lift_stoch_loopL pf fuel t ev s lg t' ev' s' l :
  P s lg -> stoch_loopL tb pf fuel t ev s = (t', ev', s', l) -> P s' (lg ++ l).
Proof.
  intros HP H.
  refine (stoch_loopL_inv tb pf (fun _ _ s lg => P s lg) _ _ fuel t ev s lg t' ev' s' l HP H).
  - intros _ _ s1 lg1. apply P_stuck.
  - intros t1 _ s1 lg1 r HP1 _ Hs.
    destruct Hs as [Hnone | | h n s2 l1 Hh Hrp | s3 nt n s4 l1 Hos Hnt Hrp | s3 nt n s4 l1 s6 x e Hos Hnt Hrp Hos6].
    + apply P_discard, HP1.
    + apply P_stuck, HP1.
    + exact (lift_run_pendingL pf (e_time h) 0 (discard s1) lg1 n s2 l1 (P_discard _ _ HP1) Hrp).
    + apply P_clock. exact (lift_run_pendingL pf nt 0 s3 lg1 n s4 l1 (P_osame _ _ _ Hos HP1) Hrp).
    + apply P_event; [rewrite (osame_clock _ _ Hos6); reflexivity|].
      apply (P_osame _ _ _ Hos6). apply P_clock.
      exact (lift_run_pendingL pf nt 0 s3 lg1 n s4 l1 (P_osame _ _ _ Hos HP1) Hrp).
Qed.

Lemma lift_sync_loopL pf fuel t ev k s lg t' ev' k' s' l :
  P s lg -> sync_loopL tb pf fuel t ev k s = (t', ev', k', s', l) -> P s' (lg ++ l).
Proof.
  intros HP H.
  refine (sync_loopL_inv tb pf (fun _ _ _ s lg => P s lg) _ _ fuel t ev k s lg t' ev' k' s' l HP H).
  - intros _ _ _ s1 lg1. apply P_stuck.
  - intros t1 _ _ s1 lg1 nev s3 l1 HP1 _ Hs.
    inversion Hs as [n s0 l0 s2 evs nev1 s31 Hrp Hos Hft]; subst.
    refine (proj1 (fire_tranche_inv tb t1 (fun _ sx => P sx (lg1 ++ l1) /\ clock sx = t1) _ evs n s2 nev s3 _ Hft)).
    + intros _ sx x e [A B]. split; [apply P_event; assumption|rewrite fire_event_clock; exact B].
    + split; [|rewrite (osame_clock _ _ Hos); reflexivity].
      apply (P_osame _ _ _ Hos). apply P_clock.
      exact (lift_run_pendingL pf t1 0 (set_clock t1 s1) lg1 n s0 l1 (P_clock _ _ _ HP1) Hrp).
Qed.

End Lift.

(* ------------------------------------------------------------------ observations happen inside the handler bracket *)
(* newest first: the time of the most recent handler call, 0 before any (set-up code runs at 0) *)
Fixpoint lht (o : list obs) : Q :=
  match o with
  | [] => 0
  | OHandler _ t _ _ _ :: _ => t
  | _ :: o' => lht o'
  end.

(* every observation carries the time of the handler call it was made in and one size per locus *)
Fixpoint obs_ok (n : nat) (o : list obs) : Prop :=
  match o with
  | [] => True
  | x :: o' => obs_ok n o' /\ match x with OObserve t sz => t = lht o' /\ length sz = n | _ => True end
  end.

Definition not_ho (x : obs) : Prop :=
  match x with OHandler _ _ _ _ _ | OObserve _ _ => False | _ => True end.

Lemma obs_ok_other n x o : not_ho x -> obs_ok n o -> obs_ok n (x :: o) /\ lht (x :: o) = lht o.
Proof. destruct x; cbn; intros H Ho; try contradiction; auto. Qed.

Lemma upd_nth_length {A} k (f : A -> A) l : length (upd_nth k f l) = length l.
Proof. revert k. induction l as [|x l IH]; intros [|k]; cbn; auto. Qed.

Section Bracket.
Context {W : Type}.
Implicit Types s : st W.
Variable n : nat.

(* inside a handler called with time t *)
Definition J (t : Q) s : Prop := lht (out s) = t /\ obs_ok n (out s) /\ length (loci s) = n.
(* between handlers *)
Definition JK s : Prop := obs_ok n (out s) /\ length (loci s) = n.

Lemma J_emit t s x : not_ho x -> J t s -> J t (emit x s).
Proof.
  intros Hx [A [B C]]. destruct (obs_ok_other n x (out s) Hx B) as [D E].
  split; [cbn [out emit]; rewrite E; exact A|split; [exact D|exact C]].
Qed.

Lemma J_do_action p t e a s : J t s -> J t (do_action p t e a s).
Proof.
  intros HJ. destruct a; cbn [do_action].
  - unfold post. destruct (Qltb _ _); apply J_emit; try exact I; exact HJ.
  - unfold post. destruct (Qltb _ _); apply J_emit; try exact I; exact HJ.
  - unfold post. destruct (Qltb _ _); apply J_emit; try exact I; exact HJ.
  - unfold post. destruct (Qltb _ _); apply J_emit; try exact I; exact HJ.
  - destruct (ids s); [exact HJ|]. destruct (find_live _ _); apply J_emit; try exact I; exact HJ.
  - destruct (ids s); [exact HJ|]. apply J_emit; [exact I|exact HJ].
  - destruct HJ as [A [B C]]. split; [exact A|split; [exact B|cbn; rewrite upd_nth_length; exact C]].
  - destruct HJ as [A [B C]]. split; [exact A|split; [exact B|cbn; rewrite upd_nth_length; exact C]].
  - destruct HJ as [A [B C]]. split; [exact A|split; [exact B|cbn; rewrite upd_nth_length; exact C]].
  - destruct HJ as [A [B C]]. split; [exact A|split; [exact B|cbn; rewrite upd_nth_length; exact C]].
  - destruct HJ as [A [B C]]. split; [exact A|split; [|exact C]]. cbn.
    split; [exact B|split; [symmetry; exact A|rewrite map_length; exact C]].
Qed.

Lemma J_run_actions p t e acts s : J t s -> J t (run_actions p t e acts s).
Proof.
  unfold run_actions. revert s. induction acts as [|a acts IH]; intros s HJ; cbn [fold_left]; [exact HJ|].
  apply IH, J_do_action, HJ.
Qed.

Lemma J_run_prog tb p k t e s : J t s -> J t (run_prog tb p k t e s).
Proof.
  intros HJ. unfold run_prog. destruct (prog_of tb k t e (loci s) (world s)) as [w acts].
  apply J_run_actions. exact HJ.
Qed.

Lemma JK_handler k t c e m s : JK s -> J t (emit (OHandler k t c e m) s).
Proof. intros [A B]. split; [reflexivity|split; [cbn; auto|exact B]]. Qed.

Lemma J_JK t s : J t s -> JK s.
Proof. intros [_ H]. exact H. Qed.

Lemma JK_emit s x : not_ho x -> JK s -> JK (emit x s).
Proof. intros Hx [A B]. split; [apply (obs_ok_other n x (out s) Hx A)|exact B]. Qed.

Lemma JK_fire tb x s : JK s -> JK (fire tb x s).
Proof.
  intros HJ. unfold fire.
  pose proof (J_run_prog tb (e_proc x) (e_prog x) (e_time x) (e_elem x) _
               (JK_handler (e_prog x) (e_time x) (clock s) (e_elem x) None s HJ)) as H.
  apply J_JK in H. destruct (e_rep x) as [ddt|]; [|exact H].
  unfold post. destruct (Qltb _ _); [apply JK_emit; [exact I|exact H]|exact H].
Qed.

Lemma JK_fire_event tb x t e s : JK s -> JK (fire_event tb x t e s).
Proof.
  intros HJ. destruct x as [[pi j] ev]. unfold fire_event. apply JK_emit; [exact I|].
  eapply J_JK, J_run_prog, JK_handler, HJ.
Qed.

Lemma JK_pend_step tb h s0 : JK s0 -> JK (pend_step tb h s0).
Proof. intros HJ. unfold pend_step. apply JK_emit; [exact I|]. apply JK_fire. exact HJ. Qed.

Lemma JK_osame s s' : osame s s' -> JK s -> JK s'.
Proof.
  intros [Hc [[Hl _] _]] [A B]. unfold JK. rewrite Hl. unfold core_of in Hc.
  replace (out s') with (out s) by congruence. auto.
Qed.

Lemma JK_setup_fold (ps : list proc) (k : nat) s : J 0 s ->
  J 0 (fst (fold_left (fun (acc : st W * nat) p => (run_actions (snd acc) 0 (EN 0) (p_setup p) (fst acc), S (snd acc))) ps (s, k))).
Proof.
  revert k s. induction ps as [|p ps IH]; intros k s HJ; cbn [fold_left fst snd]; [exact HJ|].
  apply IH, J_run_actions, HJ.
Qed.

End Bracket.

Section BracketRuns.
Context {W : Type}.
Variable tb : table W.

Lemma JK_setup rs ls ds : JK (length (t_loci tb)) (setup_state tb rs ls ds).
Proof.
  apply (J_JK _ 0). unfold setup_state. apply JK_setup_fold.
  split; [reflexivity|split; [exact I|]]. cbn. unfold init_loci. apply map_length.
Qed.

Let PJ := fun (s : st W) (_ : list entry) => JK (length (t_loci tb)) s.

Lemma JK_stoch_run pf fuel rs ls ds : JK (length (t_loci tb)) (r_final (stoch_run tb pf fuel rs ls ds)).
Proof.
  rewrite stoch_run_eq. destruct (stoch_runL tb pf fuel rs ls ds) as [[[t ev] s] l] eqn:E. cbn.
  refine (lift_stoch_loopL tb PJ _ _ _ _ _ _ pf fuel 0 0 _ [] t ev s l (JK_setup rs ls ds) E); unfold PJ.
  - intros s0 _ H. exact H.
  - intros s0 s1 _. apply JK_osame.
  - intros s0 _ H. exact H.
  - intros c s0 _ H. exact H.
  - intros h s0 _ _ _. apply JK_pend_step.
  - intros x t0 e s0 _ _. apply JK_fire_event.
Qed.

Lemma JK_sync_run pf fuel rs ds : JK (length (t_loci tb)) (r_final (sync_run tb pf fuel rs ds)).
Proof.
  rewrite sync_run_eq. destruct (sync_runL tb pf fuel rs ds) as [[[[t ev] k] s] l] eqn:E. cbn.
  refine (lift_sync_loopL tb PJ _ _ _ _ _ _ pf fuel 1 0 0 _ [] t ev k s l (JK_setup rs [] ds) E); unfold PJ.
  - intros s0 _ H. exact H.
  - intros s0 s1 _. apply JK_osame.
  - intros s0 _ H. exact H.
  - intros c s0 _ H. exact H.
  - intros h s0 _ _ _. apply JK_pend_step.
  - intros x t0 e s0 _ _. apply JK_fire_event.
Qed.

End BracketRuns.

(* in the order of r_out: an observation carries the time of the last handler call before it *)
Lemma obs_ok_split n a t sz b : obs_ok n (a ++ OObserve t sz :: b) -> t = lht b /\ length sz = n.
Proof. induction a as [|x a IH]; cbn; [intros [_ H]; exact H|intros [H _]; auto]. Qed.

Lemma obs_record_fwd n o pre t sz post : obs_ok n o -> rev o = pre ++ OObserve t sz :: post ->
  t = lht (rev pre) /\ length sz = n.
Proof.
  intros H E. apply (f_equal (@rev obs)) in E. rewrite rev_involutive, rev_app_distr in E. cbn in E.
  rewrite <- app_assoc in E. cbn in E. rewrite E in H. exact (obs_ok_split n _ t sz _ H).
Qed.

(* ------------------------------------------------------------------ the monitor's entry is never un-posted and repeats *)
(* the only way user code learns an id is APost / APostOn; they must not post the observe program *)
Definition nopush (kobs : nat) (a : action) : Prop :=
  match a with APost _ k | APostOn _ _ k => k <> kobs | _ => True end.

Lemma do_unpost_cases {W} p t e k fatal (s : st W) :
  do_action p t e (AUnpost k fatal) s = s \/
  exists i, In i (ids s) /\
    ((exists x, do_action p t e (AUnpost k fatal) s =
                emit (OUnpost i (Some (Some (e_time x)))) (set_queue (kill i (queue s)) s)) \/
     do_action p t e (AUnpost k fatal) s = emit (OUnpost i (if fatal then None else Some None)) s).
Proof.
  cbn [do_action]. destruct (ids s) as [|i0 l0] eqn:Ei; [left; reflexivity|right].
  exists (nth (k mod length (i0 :: l0)) (i0 :: l0) 0%nat). split.
  - apply nth_In, Nat.mod_upper_bound. cbn. lia.
  - destruct (find_live _ (queue s)) as [x|]; [left; exists x; reflexivity|right; reflexivity].
Qed.

Lemma do_query_cases {W} p t e k (s : st W) :
  do_action p t e (AQuery k) s = s \/ exists i r, do_action p t e (AQuery k) s = emit (OQuery i r) s.
Proof. cbn [do_action]. destruct (ids s); [left; reflexivity|right; eexists; eexists; reflexivity]. Qed.

Section Mon.
Context {W : Type}.
Implicit Types s : st W.
Variable tb : table W.
Variable delta : Q.
Variable kobs : nat.

(* a table with a monitor: some process' set-up is exactly [postRepeatingEvent(0, delta, observe)],
   program kobs observes, and no program or set-up posts kobs through postEvent *)
Record monitor_tb : Prop := {
  mt_delta : 0 < delta;
  mt_procs : exists pre mp post, t_procs tb = pre ++ mp :: post /\ p_setup mp = [APostRep 0 delta kobs] /\
             Forall (fun p => Forall (nopush kobs) (p_setup p)) (pre ++ post);
  mt_obs : forall t e l w, snd (prog_of tb kobs t e l w) = [AObserve];
  mt_progs : forall k t e l w, Forall (nopush kobs) (snd (prog_of tb k t e l w)) }.

(* ids handed out are allocated; entries running the observe program are live and unknown to user code *)
Definition MI s : Prop :=
  wf s /\ (forall i, In i (ids s) -> (i < nextid s)%nat) /\
  (forall x, In x (queue s) -> e_prog x = kobs -> e_live x = true /\ ~ In (e_id x) (ids s)).

Lemma MI_same s s' : queue s' = queue s -> nextid s' = nextid s -> ids s' = ids s -> MI s -> MI s'.
Proof. unfold MI, wf. intros -> -> ->. auto. Qed.

Lemma MI_post t p e prog rep s : MI s -> MI (snd (post t p e prog rep s)).
Proof.
  intros [Hw [Hi Hk]]. unfold post. destruct (Qltb t (clock s)); cbn [snd]; [split; [exact Hw|split; assumption]|].
  split; [|split]; cbn.
  - apply (wfk_post _ _ t p e prog rep Hw).
  - intros i H. specialize (Hi i H). lia.
  - intros x [<-|Hx] Hp; [|auto]. cbn. split; [reflexivity|]. intros H. specialize (Hi _ H). lia.
Qed.

Lemma MI_do_action p t e a s : nopush kobs a -> MI s -> MI (do_action p t e a s).
Proof.
  intros Ha HM. pose proof (do_action_wf p t e a s (proj1 HM)) as Hwf.
  destruct HM as [Hw [Hi Hk]]. split; [exact Hwf|clear Hwf].
  assert (Hpush : forall tt pp ee prog, prog <> kobs ->
    let r := post tt pp ee prog None s in
    (forall i, In i (ids (match r with (Some i, s') => emit (OPosted i tt) (push_id i s') | (None, s') => emit OValueError s' end)) ->
       (i < nextid (match r with (Some i, s') => emit (OPosted i tt) (push_id i s') | (None, s') => emit OValueError s' end))%nat) /\
    (forall x, In x (queue (match r with (Some i, s') => emit (OPosted i tt) (push_id i s') | (None, s') => emit OValueError s' end)) ->
       e_prog x = kobs -> e_live x = true /\
       ~ In (e_id x) (ids (match r with (Some i, s') => emit (OPosted i tt) (push_id i s') | (None, s') => emit OValueError s' end)))).
  { intros tt pp ee prog Hne. cbv zeta. unfold post. destruct (Qltb tt (clock s)); cbn; [split; assumption|]. split.
    - intros i H. apply in_app_or in H. destruct H as [H|[<-|[]]]; [specialize (Hi i H); lia|lia].
    - intros x [<-|Hx] Hp; [cbn in Hp; congruence|]. destruct (Hk x Hx Hp) as [A B]. split; [exact A|].
      intros H. apply in_app_or in H. destruct H as [H|[H|[]]]; [auto|].
      destruct Hw as [_ Hlt]. rewrite Forall_forall in Hlt. specialize (Hlt x Hx). lia. }
  destruct a; cbn [nopush] in Ha.
  - exact (Hpush (Qred (t + dt)) p e prog Ha).
  - exact (Hpush (Qred (t + dt)) p x prog Ha).
  - cbn [do_action]. pose proof (MI_post (Qred (t + dt0)) p e prog (Some ddt) s (conj Hw (conj Hi Hk))) as [_ H].
    destruct (post (Qred (t + dt0)) p e prog (Some ddt) s) as [[i|] s']; exact H.
  - cbn [do_action]. unfold post. rewrite Qred_pred_lt. cbn. split; assumption.
  - destruct (do_unpost_cases p t e k fatal s) as [E|[i [Hin [[x E]|E]]]]; rewrite E; cbn; [split; assumption| |split; assumption].
    split; [exact Hi|].
    intros y Hy Hp. apply kill_in in Hy. destruct Hy as [[Hy _]|[z [Hz [Hzi ->]]]]; [auto|].
    exfalso. cbn in Hp. destruct (Hk z Hz Hp) as [_ B]. apply B. rewrite Hzi. exact Hin.
  - destruct (do_query_cases p t e k s) as [E|[i [r E]]]; rewrite E; cbn; split; assumption.
  - cbn. split; assumption.
  - cbn. split; assumption.
  - cbn. split; assumption.
  - cbn. split; assumption.
  - cbn. split; assumption.
Qed.

(* an entry running the observe program survives every action *)
Lemma keep_do_action y p t e a s : MI s -> e_prog y = kobs -> In y (queue s) -> In y (queue (do_action p t e a s)).
Proof.
  intros [Hw [Hi Hk]] Hp Hy. destruct a; try (cbn [do_action]; exact Hy).
  - cbn [do_action]. unfold post. destruct (Qltb _ _); cbn; auto.
  - cbn [do_action]. unfold post. destruct (Qltb _ _); cbn; auto.
  - cbn [do_action]. unfold post. destruct (Qltb _ _); cbn; auto.
  - cbn [do_action]. unfold post. destruct (Qltb _ _); cbn; auto.
  - destruct (do_unpost_cases p t e k fatal s) as [E|[i [Hin [[x E]|E]]]]; rewrite E; cbn; [exact Hy| |exact Hy].
    apply kill_keeps; [exact Hy|]. intros E2. apply (proj2 (Hk y Hy Hp)). rewrite E2. exact Hin.
  - destruct (do_query_cases p t e k s) as [E|[i [r E]]]; rewrite E; exact Hy.
Qed.

Lemma MI_run_actions p t e acts s : Forall (nopush kobs) acts -> MI s ->
  MI (run_actions p t e acts s) /\ (forall y, e_prog y = kobs -> In y (queue s) -> In y (queue (run_actions p t e acts s))).
Proof.
  unfold run_actions. revert s. induction acts as [|a acts IH]; intros s Hf HM; cbn [fold_left]; [split; auto|].
  inversion Hf; subst. destruct (IH (do_action p t e a s) H2 (MI_do_action p t e a s H1 HM)) as [A B].
  split; [exact A|]. intros y Hp Hy. apply B; [exact Hp|]. apply keep_do_action; assumption.
Qed.

Hypothesis Hmt : monitor_tb.

Lemma MI_run_prog p k t e s : MI s ->
  MI (run_prog tb p k t e s) /\ (forall y, e_prog y = kobs -> In y (queue s) -> In y (queue (run_prog tb p k t e s))).
Proof.
  intros HM. unfold run_prog. pose proof (mt_progs Hmt k t e (loci s) (world s)) as Hf.
  destruct (prog_of tb k t e (loci s) (world s)) as [w acts]. cbn [snd] in Hf.
  apply (MI_run_actions p t e acts (set_world w s) Hf). exact HM.
Qed.

Lemma MI_fire x s : MI s ->
  MI (fire tb x s) /\ (forall y, e_prog y = kobs -> In y (queue s) -> In y (queue (fire tb x s))).
Proof.
  intros HM. unfold fire.
  set (s1 := emit (OHandler (e_prog x) (e_time x) (clock s) (e_elem x) None) s).
  destruct (MI_run_prog (e_proc x) (e_prog x) (e_time x) (e_elem x) s1 HM) as [A B].
  set (s2 := run_prog tb (e_proc x) (e_prog x) (e_time x) (e_elem x) s1) in *.
  destruct (e_rep x) as [ddt|]; [|split; [exact A|exact B]].
  pose proof (MI_post (Qred (e_time x + ddt)) (e_proc x) (e_elem x) (e_prog x) (Some ddt) s2 A) as H.
  assert (K : forall y, In y (queue s2) -> In y (queue (snd (post (Qred (e_time x + ddt)) (e_proc x) (e_elem x) (e_prog x) (Some ddt) s2))))
    by (intros y Hy; unfold post; destruct (Qltb _ _); cbn; auto).
  destruct (post (Qred (e_time x + ddt)) (e_proc x) (e_elem x) (e_prog x) (Some ddt) s2) as [[i|] s3]; cbn [snd] in *.
  - split; [exact H|]. intros y Hp Hy. apply K, B; assumption.
  - split; [exact H|]. intros y Hp Hy. apply (K y), B; assumption.
Qed.

Lemma MI_fire_event x t e s : MI s ->
  MI (fire_event tb x t e s) /\ (forall y, e_prog y = kobs -> In y (queue s) -> In y (queue (fire_event tb x t e s))).
Proof.
  intros HM. destruct x as [[pi j] ev]. unfold fire_event.
  destruct (MI_run_prog pi (ev_prog ev) t e
     (emit (OHandler (ev_prog ev) t (clock s) e (Some (mem e (locus s (ev_locus ev))))) s) HM) as [A B].
  split; [exact A|exact B].
Qed.

Lemma MI_pend_step h s0 : In h (queue s0) -> MI s0 ->
  MI (pend_step tb h s0) /\
  (forall y, e_prog y = kobs -> In y (queue s0) -> y = h \/ In y (queue (pend_step tb h s0))).
Proof.
  intros Hh [Hw [Hi Hk]]. unfold pend_step.
  set (s1 := set_clock (e_time h) (set_queue (remove_id (e_id h) (queue s0)) s0)).
  assert (HM1 : MI s1).
  { split; [apply (wfk_remove _ _ _ Hw)|split; [exact Hi|]]. intros x Hx. apply Hk. eapply remove_id_incl; exact Hx. }
  destruct (MI_fire h s1 HM1) as [A B]. split; [exact A|].
  intros y Hp Hy. destruct (Nat.eq_dec (e_id y) (e_id h)) as [E|E].
  - left. eapply NoDup_id_inj; [apply Hw|eassumption..].
  - right. cbn [queue emit]. apply B; [exact Hp|]. apply remove_id_keeps; assumption.
Qed.

(* ---- the bundle lifted over the kernel *)
Definition kept (y : entry) s (lg : list entry) : Prop := In y (queue s) \/ In y lg.

Record PM s (lg : list entry) : Prop := {
  pm_mi : MI s;
  pm_first : exists m0, e_time m0 = 0 /\ e_prog m0 = kobs /\ e_rep m0 = Some delta /\ kept m0 s lg;
  pm_succ : forall x, In x lg -> e_prog x = kobs -> e_rep x = Some delta ->
            exists y, succ_of x delta y /\ kept y s lg;
  pm_rec : forall y, In y lg -> e_prog y = kobs -> e_rep y = Some delta ->
           exists sz a b, out s = a ++ trec y :: OObserve (e_time y) sz :: hrec y :: b }.

Lemma out_pend_step_obs h s0 : e_prog h = kobs -> e_rep h = Some delta ->
  out (pend_step tb h s0) = trec h :: OObserve (e_time h) (map (@length elem) (loci s0)) :: hrec h :: out s0.
Proof.
  intros Hp Hr. unfold pend_step, fire. rewrite Hr. unfold run_prog. rewrite Hp.
  cbn [loci world emit set_clock set_queue].
  pose proof (mt_obs Hmt (e_time h) (e_elem h) (loci s0) (world s0)) as Ho.
  destruct (prog_of tb kobs (e_time h) (e_elem h) (loci s0) (world s0)) as [w acts]. cbn [snd] in Ho. subst acts.
  unfold run_actions. cbn [fold_left do_action]. unfold post.
  cbn [clock emit set_world set_clock set_queue loci].
  assert (E : Qltb (Qred (e_time h + delta)) (e_time h) = false).
  { apply Qltb_false. rewrite Qred_correct. pose proof (mt_delta Hmt). lra. }
  rewrite E. cbn. unfold hrec, trec. rewrite Hp. reflexivity.
Qed.

Lemma out_grows_pend_step h s0 : head (queue s0) = Some h -> e_live h = true ->
  exists d, out (pend_step tb h s0) = d ++ out s0.
Proof.
  intros Hh Hl. pose proof (pend_step_kmove tb h s0 Hh Hl) as K. unfold core_of in K.
  destruct (kmove_frame _ _ _ _ _ _ _ _ _ K) as [d [E _]]. exists d. exact E.
Qed.

Lemma out_grows_fire_event x t e s : clock s = t -> exists d, out (fire_event tb x t e s) = d ++ out s.
Proof.
  intros Hc. pose proof (fire_event_kmove tb x t e s Hc) as K. unfold core_of in K.
  destruct (kmove_frame _ _ _ _ _ _ _ _ _ K) as [d [E _]]. exists d. exact E.
Qed.

Lemma PM_same s s' lg : queue s' = queue s -> nextid s' = nextid s -> ids s' = ids s -> out s' = out s ->
  PM s lg -> PM s' lg.
Proof.
  intros Eq En Ei Eo [A B C D]. split.
  - eapply MI_same; eassumption.
  - destruct B as [m0 [B1 [B2 [B3 B4]]]]. exists m0. unfold kept in *. rewrite Eq. auto.
  - intros x Hx Hp Hr. destruct (C x Hx Hp Hr) as [y [C1 C2]]. exists y. unfold kept in *. rewrite Eq. auto.
  - intros y Hy Hp Hr. rewrite Eo. auto.
Qed.

Lemma PM_discard s lg : PM s lg -> PM (discard s) lg.
Proof.
  intros [A B C D]. pose proof A as [Hw [Hi Hk]].
  assert (K : forall y, e_prog y = kobs -> kept y s lg -> kept y (discard s) lg).
  { intros y Hp [H|H]; [left|right; exact H]. unfold discard. cbn.
    apply discard_dead_keeps_live; [apply Hw|exact H|apply (Hk y H Hp)]. }
  split.
  - split; [apply (wfk_discard _ _ _ Hw)|split; [exact Hi|]].
    intros x Hx. apply Hk. unfold discard in Hx. cbn in Hx. eapply discard_dead_incl; exact Hx.
  - destruct B as [m0 [B1 [B2 [B3 B4]]]]. exists m0. auto.
  - intros x Hx Hp Hr. destruct (C x Hx Hp Hr) as [y [C1 C2]]. exists y. split; [exact C1|].
    apply K; [|exact C2]. rewrite (proj1 (proj2 (succ_fields _ _ _ C1))). exact Hp.
  - exact D.
Qed.

Lemma PM_pend_step h s0 lg : head (queue s0) = Some h -> e_live h = true -> PM s0 lg ->
  PM (pend_step tb h s0) (lg ++ [h]).
Proof.
  intros Hh Hl [A B C D]. pose proof (head_in _ _ Hh) as Hin.
  destruct (MI_pend_step h s0 Hin A) as [A' Kp].
  assert (K : forall y, e_prog y = kobs -> kept y s0 lg -> kept y (pend_step tb h s0) (lg ++ [h])).
  { intros y Hp [H|H]; [|right; apply in_or_app; left; exact H].
    destruct (Kp y Hp H) as [->|H']; [right; apply in_or_app; right; left; reflexivity|left; exact H']. }
  destruct (out_grows_pend_step h s0 Hh Hl) as [d Ed].
  split; [exact A'| | |].
  - destruct B as [m0 [B1 [B2 [B3 B4]]]]. exists m0. auto.
  - intros x Hx Hp Hr. apply in_app_or in Hx. destruct Hx as [Hx|[<-|[]]].
    + destruct (C x Hx Hp Hr) as [y [C1 C2]]. exists y. split; [exact C1|].
      apply K; [|exact C2]. rewrite (proj1 (proj2 (succ_fields _ _ _ C1))). exact Hp.
    + assert (Hs : exists y, succ_of h delta y /\ In y (queue (pend_step tb h s0))).
      { unfold pend_step. cbn [queue emit]. apply fire_succ; [exact Hr|apply Qlt_le_weak, (mt_delta Hmt)|cbn; lra]. }
      destruct Hs as [y [S1 S2]]. exists y. split; [exact S1|left; exact S2].
  - intros y Hy Hp Hr. apply in_app_or in Hy. destruct Hy as [Hy|[<-|[]]].
    + destruct (D y Hy Hp Hr) as [sz [a [b E]]]. exists sz, (d ++ a), b. rewrite Ed, E, app_assoc. reflexivity.
    + exists (map (@length elem) (loci s0)), [], (out s0). rewrite (out_pend_step_obs h s0 Hp Hr). reflexivity.
Qed.

Lemma PM_fire_event x t e s lg : clock s = t -> PM s lg -> PM (fire_event tb x t e s) lg.
Proof.
  intros Hc [A B C D]. destruct (MI_fire_event x t e s A) as [A' Kq].
  assert (K : forall y, e_prog y = kobs -> kept y s lg -> kept y (fire_event tb x t e s) lg)
    by (intros y Hp [H|H]; [left; apply Kq; assumption|right; exact H]).
  destruct (out_grows_fire_event x t e s Hc) as [d Ed].
  split; [exact A'| | |].
  - destruct B as [m0 [B1 [B2 [B3 B4]]]]. exists m0. auto.
  - intros y Hy Hp Hr. destruct (C y Hy Hp Hr) as [z [C1 C2]]. exists z. split; [exact C1|].
    apply K; [|exact C2]. rewrite (proj1 (proj2 (succ_fields _ _ _ C1))). exact Hp.
  - intros y Hy Hp Hr. destruct (D y Hy Hp Hr) as [sz [a [b E]]]. exists sz, (d ++ a), b. rewrite Ed, E, app_assoc. reflexivity.
Qed.

Lemma PM_osame s s' lg : osame s s' -> PM s lg -> PM s' lg.
Proof.
  intros [Hc [[_ [Hi _]] _]]. unfold core_of in Hc. injection Hc as _ En Eq Eo. apply PM_same; assumption.
Qed.

End Mon.

(* ------------------------------------------------------------------ set-up and whole runs *)
Section MonRuns.
Context {W : Type}.
Implicit Types s : st W.
Variable tb : table W.
Variable delta : Q.
Variable kobs : nat.
Hypothesis Hmt : monitor_tb tb delta kobs.

Definition setup_step (acc : st W * nat) (p : proc) : st W * nat :=
  (run_actions (snd acc) 0 (EN 0) (p_setup p) (fst acc), S (snd acc)).

Lemma setup_fold_MI (ps : list proc) : Forall (fun p => Forall (nopush kobs) (p_setup p)) ps ->
  forall acc, MI kobs (fst acc) ->
  MI kobs (fst (fold_left setup_step ps acc)) /\
  (forall y, e_prog y = kobs -> In y (queue (fst acc)) -> In y (queue (fst (fold_left setup_step ps acc)))) /\
  clock (fst (fold_left setup_step ps acc)) = clock (fst acc).
Proof.
  induction 1 as [|p ps Hp _ IH]; intros acc HM; cbn [fold_left]; [auto|].
  destruct (MI_run_actions kobs (snd acc) 0 (EN 0) (p_setup p) (fst acc) Hp HM) as [A B].
  destruct (IH (setup_step acc p) A) as [C [D E]]. split; [exact C|split].
  - intros y Hy Hin. apply D; [exact Hy|]. apply B; assumption.
  - rewrite E. unfold setup_step. cbn [fst].
    exact (core_clock _ _ (run_actions_umoves (snd acc) 0 (EN 0) (p_setup p) (fst acc))).
Qed.

Lemma MI_init rs ls ds : MI kobs (init_state tb rs ls ds).
Proof. split; [split; constructor|split; [intros ? []|intros ? []]]. Qed.

Lemma PM_setup rs ls ds : PM delta kobs (setup_state tb rs ls ds) [].
Proof.
  destruct (mt_procs _ _ _ Hmt) as [pre [mp [pst [Ep [Es Hf]]]]].
  apply Forall_app in Hf. destruct Hf as [Hpre Hpst].
  unfold setup_state. fold (init_state tb rs ls ds). change (fun (acc : st W * nat) p => _) with setup_step.
  rewrite Ep, fold_left_app. cbn [fold_left].
  destruct (setup_fold_MI pre Hpre (init_state tb rs ls ds, 0%nat) (MI_init rs ls ds)) as [A [_ Ec]].
  set (a1 := fold_left setup_step pre (init_state tb rs ls ds, 0%nat)) in *. cbn [fst] in Ec.
  assert (A2 : MI kobs (fst (setup_step a1 mp))).
  { unfold setup_step. cbn [fst]. rewrite Es. unfold run_actions. cbn [fold_left].
    apply MI_do_action; [exact I|exact A]. }
  set (m0 := mk_entry 0 (nextid (fst a1)) (snd a1) (EN 0) kobs (Some delta)).
  assert (Hm0 : In m0 (queue (fst (setup_step a1 mp)))).
  { unfold setup_step. cbn [fst]. rewrite Es. unfold run_actions. cbn [fold_left do_action]. unfold post.
    rewrite Ec. cbn. left. reflexivity. }
  destruct (setup_fold_MI pst Hpst (setup_step a1 mp) A2) as [B [K _]].
  split; [exact B| |intros ? []|intros ? []].
  exists m0. split; [reflexivity|split; [reflexivity|split; [reflexivity|]]]. left. apply K; [reflexivity|exact Hm0].
Qed.

Lemma PM_stoch_run pf fuel rs ls ds :
  PM delta kobs (r_final (stoch_run tb pf fuel rs ls ds)) (stoch_fired tb pf fuel rs ls ds).
Proof.
  rewrite stoch_run_eq. unfold stoch_fired. destruct (stoch_runL tb pf fuel rs ls ds) as [[[t ev] s] l] eqn:E. cbn.
  refine (lift_stoch_loopL tb (PM delta kobs) _ _ _ _ _ _ pf fuel 0 0 _ [] t ev s l (PM_setup rs ls ds) E).
  - intros s0 lg. apply PM_same; reflexivity.
  - intros s0 s1 lg. apply PM_osame.
  - intros s0 lg. apply PM_discard.
  - intros c s0 lg. apply PM_same; reflexivity.
  - intros h s0 lg. apply PM_pend_step. exact Hmt.
  - intros x t0 e s0 lg. apply PM_fire_event. exact Hmt.
Qed.

Lemma PM_sync_run pf fuel rs ds :
  PM delta kobs (r_final (sync_run tb pf fuel rs ds)) (sync_fired tb pf fuel rs ds).
Proof.
  rewrite sync_run_eq. unfold sync_fired. destruct (sync_runL tb pf fuel rs ds) as [[[[t ev] k] s] l] eqn:E. cbn.
  refine (lift_sync_loopL tb (PM delta kobs) _ _ _ _ _ _ pf fuel 1 0 0 _ [] t ev k s l (PM_setup rs [] ds) E).
  - intros s0 lg. apply PM_same; reflexivity.
  - intros s0 s1 lg. apply PM_osame.
  - intros s0 lg. apply PM_discard.
  - intros c s0 lg. apply PM_same; reflexivity.
  - intros h s0 lg. apply PM_pend_step. exact Hmt.
  - intros x t0 e s0 lg. apply PM_fire_event. exact Hmt.
Qed.

(* the chain 0, delta, 2 delta, ...: whatever is due strictly before a bound that no live entry
   precedes has fired and left its three records *)
Lemma PM_chain s lg B : PM delta kobs s lg ->
  (forall x, In x (queue s) -> e_live x = true -> B <= e_time x) ->
  forall k : nat, inject_Z (Z.of_nat k) * delta < B ->
  exists y, In y lg /\ e_time y == inject_Z (Z.of_nat k) * delta /\ e_prog y = kobs /\ e_rep y = Some delta.
Proof.
  intros [A [m0 [M1 [M2 [M3 M4]]]] C D] HB. destruct A as [_ [_ Hk]].
  induction k as [|k IH]; intros Hlt.
  - exists m0. rewrite inj_nat_0 in *. split; [|split; [rewrite M1; lra|auto]].
    destruct M4 as [H|H]; [|exact H]. exfalso.
    pose proof (HB m0 H (proj1 (Hk m0 H M2))) as Hle. rewrite M1 in Hle. lra.
  - rewrite inj_nat_S in Hlt. pose proof (mt_delta _ _ _ Hmt) as Hd.
    destruct IH as [y [Hy [Ty [Py Ry]]]]; [nra|].
    destruct (C y Hy Py Ry) as [z [Sz Kz]]. destruct (succ_fields _ _ _ Sz) as [F1 [F2 [F3 [F4 [F5 F6]]]]].
    assert (Tz : e_time z == inject_Z (Z.of_nat (S k)) * delta) by (rewrite F1, Qred_correct, Ty, inj_nat_S; ring).
    exists z. split; [|split; [exact Tz|split; congruence]].
    destruct Kz as [H|H]; [|exact H]. exfalso.
    pose proof (HB z H F6) as Hle. rewrite Tz, inj_nat_S in Hle. lra.
Qed.

End MonRuns.

(* ------------------------------------------------------------------ handler times around an observation *)
Lemma lht_last pre : filter is_handler pre <> [] ->
  lht (rev pre) = last (map time_of (filter is_handler pre)) 0.
Proof.
  induction pre as [|x pre IH] using rev_ind; [intros H; contradiction H; reflexivity|].
  intros Hne. rewrite rev_app_distr. cbn [rev app]. rewrite filter_app, map_app. cbn [filter].
  destruct x; cbn [is_handler lht map app time_of]; try (rewrite app_nil_r; apply IH; rewrite filter_app in Hne; cbn in Hne; rewrite app_nil_r in Hne; exact Hne).
  rewrite last_last. reflexivity.
Qed.

Lemma sorted_app_last l1 l2 : StronglySorted Qle (l1 ++ l2) -> l1 <> [] ->
  (forall a, In a l1 -> a <= last l1 0) /\ (forall b, In b l2 -> last l1 0 <= b).
Proof.
  intros Hs Hne. destruct (exists_last Hne) as [l1' [m ->]]. rewrite last_last. rewrite <- app_assoc in Hs. cbn in Hs. clear Hne. split.
  - intros a Ha. apply in_app_or in Ha. destruct Ha as [Ha|[<-|[]]]; [|apply Qle_refl].
    induction l1' as [|x l IH]; [destruct Ha|]. cbn in Hs. inversion Hs as [|? ? Hs' Hf]; subst.
    destruct Ha as [<-|Ha]; [|apply IH; assumption]. rewrite Forall_forall in Hf. apply Hf. apply in_or_app. right. left. reflexivity.
  - intros b Hb. induction l1' as [|x l IH]; cbn in Hs; inversion Hs as [|? ? Hs' Hf]; subst; [|apply IH; assumption].
    rewrite Forall_forall in Hf. apply Hf, Hb.
Qed.

Lemma obs_value o pre tau sz post :
  StronglySorted Qle (map time_of (filter is_handler o)) -> o = pre ++ OObserve tau sz :: post ->
  tau = lht (rev pre) -> filter is_handler pre <> [] ->
  (forall k t c e m, In (OHandler k t c e m) pre -> t <= tau) /\
  (forall k t c e m, In (OHandler k t c e m) post -> tau <= t).
Proof.
  intros Hs -> Ht Hne. rewrite filter_app, map_app in Hs. cbn [filter is_handler] in Hs.
  rewrite (lht_last pre Hne) in Ht.
  assert (Hne' : map time_of (filter is_handler pre) <> []) by (destruct (filter is_handler pre); [contradiction Hne; reflexivity|discriminate]).
  destruct (sorted_app_last _ _ Hs Hne') as [A B]. rewrite <- Ht in A, B. split.
  - intros k t c e m Hi. apply A. apply (in_map time_of _ (OHandler k t c e m)). apply filter_In. auto.
  - intros k t c e m Hi. apply B. apply (in_map time_of _ (OHandler k t c e m)). apply filter_In. auto.
Qed.

(* ------------------------------------------------------------------ assembled statements on r_out *)
Lemma rev_three {A} (a b : list A) x y z : rev (a ++ x :: y :: z :: b) = rev b ++ z :: y :: x :: rev a.
Proof. rewrite rev_app_distr. cbn. rewrite <- !app_assoc. reflexivity. Qed.

Section Final.
Context {W : Type}.
Variable tb : table W.
Variables (pf fuel : nat).

Lemma obs_record_stoch rs ls ds pre t sz post :
  r_out (stoch_run tb pf fuel rs ls ds) = pre ++ OObserve t sz :: post ->
  t = lht (rev pre) /\ length sz = length (t_loci tb).
Proof.
  rewrite (proj1 (stoch_fields tb pf fuel rs ls ds)).
  exact (obs_record_fwd _ _ pre t sz post (proj1 (JK_stoch_run tb pf fuel rs ls ds))).
Qed.

Lemma obs_record_sync rs ds pre t sz post :
  r_out (sync_run tb pf fuel rs ds) = pre ++ OObserve t sz :: post ->
  t = lht (rev pre) /\ length sz = length (t_loci tb).
Proof.
  rewrite (proj1 (sync_fields tb pf fuel rs ds)).
  exact (obs_record_fwd _ _ pre t sz post (proj1 (JK_sync_run tb pf fuel rs ds))).
Qed.

Lemma handlers_sorted_stoch rs ls ds : nonneg_tb tb -> Forall (Qle 0) ls ->
  r_stuck (stoch_run tb pf fuel rs ls ds) = false ->
  StronglySorted Qle (map time_of (filter is_handler (r_out (stoch_run tb pf fuel rs ls ds)))).
Proof.
  intros Hnn Hl Hs. apply handler_times_sorted.
  rewrite (proj1 (stoch_fields tb pf fuel rs ls ds)), obs_times_rev.
  exact (proj1 (desc_rev _ _ (t_desc _ _ _ _ (stoch_tinv tb pf fuel rs ls ds Hnn Hl Hs)))).
Qed.

Lemma handlers_sorted_sync rs ds : r_stuck (sync_run tb pf fuel rs ds) = false ->
  StronglySorted Qle (map time_of (filter is_handler (r_out (sync_run tb pf fuel rs ds)))).
Proof.
  intros Hs. apply handler_times_sorted.
  rewrite (proj1 (sync_fields tb pf fuel rs ds)), obs_times_rev.
  destruct (sync_tinv tb pf fuel rs ds Hs) as [L [_ T]]. exact (proj1 (desc_rev _ _ (t_desc _ _ _ _ T))).
Qed.

Lemma obs_value_stoch rs ls ds pre tau sz post : nonneg_tb tb -> Forall (Qle 0) ls ->
  r_stuck (stoch_run tb pf fuel rs ls ds) = false ->
  r_out (stoch_run tb pf fuel rs ls ds) = pre ++ OObserve tau sz :: post -> filter is_handler pre <> [] ->
  (forall k t c e m, In (OHandler k t c e m) pre -> t <= tau) /\
  (forall k t c e m, In (OHandler k t c e m) post -> tau <= t).
Proof.
  intros Hnn Hl Hs E Hne.
  exact (obs_value _ pre tau sz post (handlers_sorted_stoch rs ls ds Hnn Hl Hs) E
           (proj1 (obs_record_stoch rs ls ds pre tau sz post E)) Hne).
Qed.

Lemma obs_value_sync rs ds pre tau sz post :
  r_stuck (sync_run tb pf fuel rs ds) = false ->
  r_out (sync_run tb pf fuel rs ds) = pre ++ OObserve tau sz :: post -> filter is_handler pre <> [] ->
  (forall k t c e m, In (OHandler k t c e m) pre -> t <= tau) /\
  (forall k t c e m, In (OHandler k t c e m) post -> tau <= t).
Proof.
  intros Hs E Hne.
  exact (obs_value _ pre tau sz post (handlers_sorted_sync rs ds Hs) E
           (proj1 (obs_record_sync rs ds pre tau sz post E)) Hne).
Qed.

Variables (delta : Q) (kobs : nat).
Hypothesis Hmt : monitor_tb tb delta kobs.

Lemma PM_records (s : st W) lg y : PM delta kobs s lg -> In y lg -> e_prog y = kobs -> e_rep y = Some delta ->
  exists sz pre post, rev (out s) = pre ++ hrec y :: OObserve (e_time y) sz :: trec y :: post.
Proof.
  intros P Hy Hp Hr. destruct (pm_rec _ _ _ _ P y Hy Hp Hr) as [sz [a [b E]]].
  exists sz, (rev b), (rev a). rewrite E. apply rev_three.
Qed.

Lemma obs_times_stoch rs ls ds : nonneg_tb tb -> Forall (Qle 0) ls ->
  let r := stoch_run tb pf fuel rs ls ds in
  r_stuck r = false ->
  forall k : nat, inject_Z (Z.of_nat k) * delta < r_time r ->
  exists y sz pre post, In y (stoch_fired tb pf fuel rs ls ds) /\
    e_time y == inject_Z (Z.of_nat k) * delta /\ e_prog y = kobs /\
    r_out r = pre ++ hrec y :: OObserve (e_time y) sz :: trec y :: post /\ length sz = length (t_loci tb).
Proof.
  intros Hnn Hl. cbv zeta. intros Hs k Hk.
  pose proof (PM_stoch_run tb delta kobs Hmt pf fuel rs ls ds) as P.
  destruct (PM_chain tb delta kobs Hmt _ _ _ P (t_live _ _ _ _ (stoch_tinv tb pf fuel rs ls ds Hnn Hl Hs)) k Hk)
    as [y [Hy [Ty [Py Ry]]]].
  destruct (PM_records _ _ y P Hy Py Ry) as [sz [pre [post E]]].
  rewrite <- (proj1 (stoch_fields tb pf fuel rs ls ds)) in E.
  exists y, sz, pre, post. split; [exact Hy|split; [exact Ty|split; [exact Py|split; [exact E|]]]].
  apply (obs_record_stoch rs ls ds (pre ++ [hrec y]) (e_time y) sz (trec y :: post)).
  rewrite E, <- app_assoc. reflexivity.
Qed.

Lemma obs_times_sync rs ds :
  let r := sync_run tb pf fuel rs ds in
  r_stuck r = false ->
  forall k : nat, inject_Z (Z.of_nat k) * delta + 1 < r_time r ->
  exists y sz pre post, In y (sync_fired tb pf fuel rs ds) /\
    e_time y == inject_Z (Z.of_nat k) * delta /\ e_prog y = kobs /\
    r_out r = pre ++ hrec y :: OObserve (e_time y) sz :: trec y :: post /\ length sz = length (t_loci tb).
Proof.
  cbv zeta. intros Hs k Hk.
  pose proof (PM_sync_run tb delta kobs Hmt pf fuel rs ds) as P.
  destruct (sync_tinv tb pf fuel rs ds Hs) as [L [HL T]].
  assert (Hk' : inject_Z (Z.of_nat k) * delta < L) by (rewrite <- HL in Hk; lra).
  destruct (PM_chain tb delta kobs Hmt _ _ _ P (t_live _ _ _ _ T) k Hk') as [y [Hy [Ty [Py Ry]]]].
  destruct (PM_records _ _ y P Hy Py Ry) as [sz [pre [post E]]].
  rewrite <- (proj1 (sync_fields tb pf fuel rs ds)) in E.
  exists y, sz, pre, post. split; [exact Hy|split; [exact Ty|split; [exact Py|split; [exact E|]]]].
  apply (obs_record_sync rs ds (pre ++ [hrec y]) (e_time y) sz (trec y :: post)).
  rewrite E, <- app_assoc. reflexivity.
Qed.

(* the monitor's pending entry is live and its id was never handed to user code: no AUnpost can hit it *)
Lemma monitor_safe_stoch rs ls ds x :
  In x (queue (r_final (stoch_run tb pf fuel rs ls ds))) -> e_prog x = kobs ->
  e_live x = true /\ ~ In (e_id x) (ids (r_final (stoch_run tb pf fuel rs ls ds))).
Proof. exact (proj2 (proj2 (pm_mi _ _ _ _ (PM_stoch_run tb delta kobs Hmt pf fuel rs ls ds))) x). Qed.

Lemma monitor_safe_sync rs ds x :
  In x (queue (r_final (sync_run tb pf fuel rs ds))) -> e_prog x = kobs ->
  e_live x = true /\ ~ In (e_id x) (ids (r_final (sync_run tb pf fuel rs ds))).
Proof. exact (proj2 (proj2 (pm_mi _ _ _ _ (PM_sync_run tb delta kobs Hmt pf fuel rs ds))) x). Qed.

End Final.

(* ------------------------------------------------------------------ only chain times are observed by the monitor *)
(* when nobody else posts the observe program at all, every entry running it, hence every posted
   handler call of it, has a time of the form k * delta *)
Definition noposts (kobs : nat) (a : action) : Prop :=
  match a with APost _ k | APostOn _ _ k | APostRep _ _ k => k <> kobs | _ => True end.

(* newest first: the most recent handler record *)
Fixpoint lhr (o : list obs) : option obs :=
  match o with
  | [] => None
  | OHandler k t c e m :: _ => Some (OHandler k t c e m)
  | _ :: o' => lhr o'
  end.

Lemma lhr_lht o k t c e m : lhr o = Some (OHandler k t c e m) -> lht o = t /\ In (OHandler k t c e m) o.
Proof.
  induction o as [|x o IH]; [discriminate|]. destruct x; cbn; try (intros H; destruct (IH H); auto).
  intros [= -> -> -> -> ->]. auto.
Qed.

Section Only.
Context {W : Type}.
Implicit Types s : st W.
Variable tb : table W.
Variable delta : Q.
Variable kobs : nat.

Definition chain (t : Q) : Prop := exists k : nat, t == inject_Z (Z.of_nat k) * delta.

Record monitor_only : Prop := {
  mo_delta : 0 < delta;
  mo_procs : exists pre mp pst, t_procs tb = pre ++ mp :: pst /\ p_setup mp = [APostRep 0 delta kobs] /\
             Forall (fun p => Forall (noposts kobs) (p_setup p)) (pre ++ pst);
  mo_progs : forall k t e l w, Forall (noposts kobs) (snd (prog_of tb k t e l w)) }.

Definition QC s : Prop :=
  (forall x, In x (queue s) -> e_prog x = kobs -> e_rep x = Some delta /\ chain (e_time x)) /\
  (forall t c e, In (OHandler kobs t c e None) (out s) -> chain t).

Lemma QC_emit x s : (forall t c e, x <> OHandler kobs t c e None) -> QC s -> QC (emit x s).
Proof.
  intros Hx [A B]. split; [exact A|]. cbn. intros t c e [E|H]; [exfalso; eapply Hx; exact E|eauto].
Qed.

Lemma QC_post t p e prog rep s : (prog = kobs -> rep = Some delta /\ chain t) -> QC s ->
  QC (snd (post t p e prog rep s)).
Proof.
  intros Hn [A B]. unfold post. destruct (Qltb t (clock s)); cbn [snd]; [split; assumption|].
  split; [|exact B]. cbn. intros x [<-|Hx] Hp; [cbn in *; auto|auto].
Qed.

Lemma QC_same s s' : queue s' = queue s -> out s' = out s -> QC s -> QC s'.
Proof. unfold QC. intros -> ->. auto. Qed.

Lemma QC_do_action p t e a s : noposts kobs a -> QC s -> QC (do_action p t e a s).
Proof.
  intros Ha HQ. destruct a; cbn [noposts] in Ha.
  - cbn [do_action]. pose proof (QC_post (Qred (t + dt)) p e prog None s (fun E => False_ind _ (Ha E)) HQ) as H.
    destruct (post (Qred (t + dt)) p e prog None s) as [[i|] s']; cbn [snd] in H;
      (apply QC_emit; [intros; discriminate|]); [eapply QC_same; [| |exact H]; reflexivity|exact H].
  - cbn [do_action]. pose proof (QC_post (Qred (t + dt)) p x prog None s (fun E => False_ind _ (Ha E)) HQ) as H.
    destruct (post (Qred (t + dt)) p x prog None s) as [[i|] s']; cbn [snd] in H;
      (apply QC_emit; [intros; discriminate|]); [eapply QC_same; [| |exact H]; reflexivity|exact H].
  - cbn [do_action]. pose proof (QC_post (Qred (t + dt0)) p e prog (Some ddt) s (fun E => False_ind _ (Ha E)) HQ) as H.
    destruct (post (Qred (t + dt0)) p e prog (Some ddt) s) as [[i|] s']; cbn [snd] in H;
      (apply QC_emit; [intros; discriminate|exact H]).
  - cbn [do_action]. unfold post. rewrite Qred_pred_lt. apply QC_emit; [intros; discriminate|exact HQ].
  - destruct (do_unpost_cases p t e k fatal s) as [E|[i [Hin [[x E]|E]]]]; rewrite E; [exact HQ| |].
    + apply QC_emit; [intros; discriminate|]. destruct HQ as [A B]. split; [|exact B]. cbn.
      intros y Hy Hp. apply kill_in in Hy. destruct Hy as [[Hy _]|[z [Hz [_ ->]]]]; [auto|]. cbn in *. auto.
    + apply QC_emit; [intros; discriminate|exact HQ].
  - destruct (do_query_cases p t e k s) as [E|[i [r E]]]; rewrite E; [exact HQ|].
    apply QC_emit; [intros; discriminate|exact HQ].
  - exact HQ.
  - exact HQ.
  - exact HQ.
  - exact HQ.
  - cbn [do_action]. apply QC_emit; [intros; discriminate|exact HQ].
Qed.

Lemma QC_run_actions p t e acts s : Forall (noposts kobs) acts -> QC s -> QC (run_actions p t e acts s).
Proof.
  unfold run_actions. revert s. induction acts as [|a acts IH]; intros s Hf HQ; cbn [fold_left]; [exact HQ|].
  inversion Hf; subst. apply IH; [assumption|]. apply QC_do_action; assumption.
Qed.

Hypothesis Hmo : monitor_only.

Lemma QC_run_prog p k t e s : QC s -> QC (run_prog tb p k t e s).
Proof.
  intros HQ. unfold run_prog. pose proof (mo_progs Hmo k t e (loci s) (world s)) as Hf.
  destruct (prog_of tb k t e (loci s) (world s)) as [w acts]. cbn [snd] in Hf.
  apply QC_run_actions; [exact Hf|exact HQ].
Qed.

Lemma chain_succ t : chain t -> chain (Qred (t + delta)).
Proof. intros [k Hk]. exists (S k). rewrite Qred_correct, Hk, inj_nat_S. ring. Qed.

(* firing x: the handler record is a chain time when x runs the observe program *)
Lemma QC_fire x s : QC s -> (e_prog x = kobs -> e_rep x = Some delta /\ chain (e_time x)) -> QC (fire tb x s).
Proof.
  intros HQ Hx. unfold fire.
  assert (H1 : QC (emit (OHandler (e_prog x) (e_time x) (clock s) (e_elem x) None) s)).
  { destruct HQ as [A B]. split; [exact A|]. cbn. intros t c e [E|H]; [|eauto].
    injection E as E1 E2 _ _. subst t. apply Hx, E1. }
  pose proof (QC_run_prog (e_proc x) (e_prog x) (e_time x) (e_elem x) _ H1) as H2.
  destruct (e_rep x) as [ddt|] eqn:Er; [|exact H2].
  assert (Hn : e_prog x = kobs -> Some ddt = Some delta /\ chain (Qred (e_time x + ddt))).
  { intros E. destruct (Hx E) as [R C]. injection R as ->. split; [reflexivity|apply chain_succ, C]. }
  pose proof (QC_post (Qred (e_time x + ddt)) (e_proc x) (e_elem x) (e_prog x) (Some ddt) _ Hn H2) as H3.
  destruct (post _ _ _ _ _ _) as [[i|] s3]; cbn [snd] in H3; [exact H3|apply QC_emit; [intros; discriminate|exact H3]].
Qed.

Lemma QC_pend_step h s0 : In h (queue s0) -> QC s0 -> QC (pend_step tb h s0).
Proof.
  intros Hh HQ. unfold pend_step, trec. apply QC_emit; [intros; discriminate|].
  apply QC_fire; [|intros Hp; apply (proj1 HQ h Hh Hp)].
  destruct HQ as [A B]. split; [|exact B]. cbn. intros x Hx. apply A. eapply remove_id_incl; exact Hx.
Qed.

Lemma QC_fire_event x t e s : QC s -> QC (fire_event tb x t e s).
Proof.
  intros HQ. destruct x as [[pi j] ev]. unfold fire_event. apply QC_emit; [intros; discriminate|].
  apply QC_run_prog. apply QC_emit; [intros; discriminate|exact HQ].
Qed.

Lemma QC_setup_fold (ps : list proc) : Forall (fun p => Forall (noposts kobs) (p_setup p)) ps ->
  forall acc, QC (fst acc) -> QC (fst (fold_left setup_step ps acc)).
Proof.
  induction 1 as [|p ps Hp _ IH]; intros acc HQ; cbn [fold_left]; [exact HQ|].
  apply IH. unfold setup_step. cbn [fst]. apply QC_run_actions; assumption.
Qed.

Lemma QC_setup rs ls ds : QC (setup_state tb rs ls ds).
Proof.
  destruct (mo_procs Hmo) as [pre [mp [pst [Ep [Es Hf]]]]].
  apply Forall_app in Hf. destruct Hf as [Hpre Hpst].
  unfold setup_state. fold (init_state tb rs ls ds). change (fun (acc : st W * nat) p => _) with (@setup_step W).
  rewrite Ep, fold_left_app. cbn [fold_left]. apply (QC_setup_fold pst Hpst).
  assert (A : QC (fst (fold_left setup_step pre (init_state tb rs ls ds, 0%nat))))
    by (apply (QC_setup_fold pre Hpre); split; [intros ? []|intros ? ? ? []]).
  set (a1 := fold_left setup_step pre (init_state tb rs ls ds, 0%nat)) in *.
  unfold setup_step. cbn [fst]. rewrite Es. unfold run_actions. cbn [fold_left do_action].
  pose proof (QC_post (Qred (0 + 0)) (snd a1) (EN 0) kobs (Some delta) (fst a1)
     (fun _ => conj eq_refl (ex_intro _ 0%nat (eq_refl : Qred (0 + 0) == inject_Z (Z.of_nat 0) * delta))) A) as H.
  destruct (post _ _ _ _ _ _) as [[i|] s']; cbn [snd] in H; (apply QC_emit; [intros; discriminate|exact H]).
Qed.

Lemma QC_discard s : QC s -> QC (discard s).
Proof.
  intros [A B]. split; [|exact B]. unfold discard. cbn. intros x Hx. apply A. eapply discard_dead_incl; exact Hx.
Qed.

Lemma QC_osame s s' : osame s s' -> QC s -> QC s'.
Proof. intros [Hc _]. unfold core_of in Hc. injection Hc as _ _ Eq Eo. apply QC_same; assumption. Qed.

Let PQ := fun s (_ : list entry) => QC s.

Lemma QC_stoch_run pf fuel rs ls ds : QC (r_final (stoch_run tb pf fuel rs ls ds)).
Proof.
  rewrite stoch_run_eq. destruct (stoch_runL tb pf fuel rs ls ds) as [[[t ev] s] l] eqn:E. cbn.
  refine (lift_stoch_loopL tb PQ _ _ _ _ _ _ pf fuel 0 0 _ [] t ev s l (QC_setup rs ls ds) E); unfold PQ.
  - intros s0 _ H. exact H.
  - intros s0 s1 _. apply QC_osame.
  - intros s0 _. apply QC_discard.
  - intros c s0 _ H. exact H.
  - intros h s0 _ Hh _. apply QC_pend_step, head_in, Hh.
  - intros x t0 e s0 _ _. apply QC_fire_event.
Qed.

Lemma QC_sync_run pf fuel rs ds : QC (r_final (sync_run tb pf fuel rs ds)).
Proof.
  rewrite sync_run_eq. destruct (sync_runL tb pf fuel rs ds) as [[[[t ev] k] s] l] eqn:E. cbn.
  refine (lift_sync_loopL tb PQ _ _ _ _ _ _ pf fuel 1 0 0 _ [] t ev k s l (QC_setup rs [] ds) E); unfold PQ.
  - intros s0 _ H. exact H.
  - intros s0 s1 _. apply QC_osame.
  - intros s0 _. apply QC_discard.
  - intros c s0 _ H. exact H.
  - intros h s0 _ Hh _. apply QC_pend_step, head_in, Hh.
  - intros x t0 e s0 _ _. apply QC_fire_event.
Qed.

(* an observation made inside a posted call of the observe program is at a chain time *)
Lemma obs_chain_stoch pf fuel rs ls ds pre t sz post t' c e :
  r_out (stoch_run tb pf fuel rs ls ds) = pre ++ OObserve t sz :: post ->
  lhr (rev pre) = Some (OHandler kobs t' c e None) -> chain t.
Proof.
  intros E Hl. destruct (lhr_lht _ _ _ _ _ _ Hl) as [A B].
  rewrite (proj1 (obs_record_stoch tb pf fuel rs ls ds pre t sz post E)), A.
  apply (proj2 (QC_stoch_run pf fuel rs ls ds) t' c e).
  apply in_rev. rewrite <- (proj1 (stoch_fields tb pf fuel rs ls ds)), E.
  apply in_or_app. left. apply in_rev. exact B.
Qed.

Lemma obs_chain_sync pf fuel rs ds pre t sz post t' c e :
  r_out (sync_run tb pf fuel rs ds) = pre ++ OObserve t sz :: post ->
  lhr (rev pre) = Some (OHandler kobs t' c e None) -> chain t.
Proof.
  intros E Hl. destruct (lhr_lht _ _ _ _ _ _ Hl) as [A B].
  rewrite (proj1 (obs_record_sync tb pf fuel rs ds pre t sz post E)), A.
  apply (proj2 (QC_sync_run pf fuel rs ds) t' c e).
  apply in_rev. rewrite <- (proj1 (sync_fields tb pf fuel rs ds)), E.
  apply in_or_app. left. apply in_rev. exact B.
Qed.

End Only.
