(* The dynamic kernel (Model/KernelDyn.v), for every user state W and every dynamic table D:
   what an appended entry's call writes and changes; the per-element distribution; one Gillespie
   iteration as selection + firing; the tranche of a synchronous step; and a run of either loop
   as a sequence of scheduler-internal moves and CALLS of event functions ([DSteps], the
   counterpart of Proofs/CompartRun.v's [Steps] with a third kind of call, that of an appended
   entry).  Under synchronous dynamics every call of an appended entry passes the entry's
   membership test at that instant, unconditionally (the loop re-checks).  Under stochastic
   dynamics the code does NOT re-check: the test held when the distribution was computed, and
   it still holds at the call provided the posted events that ran in between are inert
   (section [Stoch]); Proofs/KernelDynExample.v shows that this proviso cannot be dropped. *)
From Coq Require Import List ZArith QArith Qabs Bool Arith Lia.
From EpyV Require Import Model.Kernel Model.KernelDyn Proofs.KernelBase Proofs.KernelLoops Proofs.KernelMember
  Proofs.KernelSync Proofs.CompartSort Proofs.CompartRun Proofs.CompartInv.
Import ListNotations.
Open Scope Q_scope.

Section DK.
Context {W : Type}.
Variable D : dtable W.
Notation tb := (d_tb D).
Implicit Types s : st W.

Definition trans_p (x : trans W) : Q := match x with TStat y => ev_p (snd y) | TDyn _ d => de_p d end.

(* ------------------------------------------------------------------ the call of an appended entry *)
Lemma fire_dyn_spec pi d t s :
  let s' := fire_dyn D pi d t s in
  frame s s' /\
  exists l, Forall act_obs l /\
    out s' = OTap t pi (NEv pi (de_name d)) (de_value d) :: l ++
             OHandler (de_prog d) t (clock s) (de_value d) (Some (de_member d (loci s) (world s))) :: out s.
Proof.
  cbv zeta. unfold fire_dyn. set (s1 := emit _ s).
  destruct (run_prog_spec tb pi (de_prog d) t (de_value d) s1) as [F [l [E A]]].
  split.
  - apply (frame_trans s s1); [repeat split|]. destruct F as (a1 & a2 & a3 & a4 & a5). repeat split; assumption.
  - exists l; split; [exact A|]. cbn [out emit]. rewrite E. reflexivity.
Qed.

Lemma fire_dyn_clock pi d t s : clock (fire_dyn D pi d t s) = clock s.
Proof. destruct (fire_dyn_spec pi d t s) as [(F & _) _]. exact F. Qed.

Lemma fire_dyn_rands pi d t s : rands (fire_dyn D pi d t s) = rands s.
Proof. destruct (fire_dyn_spec pi d t s) as [(_ & F & _) _]. exact F. Qed.

(* it computes from the loci and the user state it is entered on *)
Lemma fire_dyn_lw pi d t s :
  loci (fire_dyn D pi d t s)
    = fold_left (act_loci (de_value d)) (snd (prog_of tb (de_prog d) t (de_value d) (loci s) (world s))) (loci s)
  /\ world (fire_dyn D pi d t s) = fst (prog_of tb (de_prog d) t (de_value d) (loci s) (world s)).
Proof.
  unfold fire_dyn. cbn [loci world emit].
  exact (run_prog_lw tb pi (de_prog d) t (de_value d)
           (emit (OHandler (de_prog d) t (clock s) (de_value d) (Some (de_member d (loci s) (world s)))) s)).
Qed.

(* ------------------------------------------------------------------ the per-element distribution *)
Lemma dper_from_In lc w : forall ps pi x, In x (dper_from D pi ps lc w) ->
  match x with
  | TStat y => In y (all_events_from pi ps) /\ ev_elem (snd y) = true
  | TDyn pi' d => In d (d_dyn D pi' lc w)
  end.
Proof.
  induction ps as [|p ps IH]; intros pi x H; cbn [dper_from] in H; [destruct H|].
  apply in_app_or in H. destruct H as [H|H].
  - apply in_map_iff in H. destruct H as [y [<- Hy]]. apply filter_In in Hy. destruct Hy as [Hy He].
    split; [|exact He]. cbn [all_events_from]. apply in_or_app. left. exact Hy.
  - apply in_app_or in H. destruct H as [H|H].
    + apply in_map_iff in H. destruct H as [d [<- Hd]]. exact Hd.
    + specialize (IH (S pi) x H). destruct x as [y|pi' d]; [|exact IH].
      destruct IH as [I1 I2]. split; [|exact I2]. cbn [all_events_from]. apply in_or_app. right. exact I1.
Qed.

Lemma dper_element_In lc w x : In x (dper_element D lc w) ->
  match x with
  | TStat y => In y (all_events tb) /\ ev_elem (snd y) = true
  | TDyn pi d => In d (d_dyn D pi lc w)
  end.
Proof. apply dper_from_In. Qed.

Lemma dtransitions_In lc w x : In x (dtransitions D lc w) ->
  match x with
  | TStat y => In y (all_events tb)
  | TDyn pi d => In d (d_dyn D pi lc w)
  end.
Proof.
  unfold dtransitions. intros H. apply in_app_or in H. destruct H as [H|H].
  - apply dper_element_In in H. destruct x; [exact (proj1 H) | exact H].
  - apply in_map_iff in H. destruct H as [y [<- Hy]]. apply fixed_rate_In. exact Hy.
Qed.

(* with no appended entries the distribution is Model/Kernel.v's *)
Lemma dper_from_static lc w : (forall pi, d_dyn D pi lc w = []) -> forall ps pi,
  dper_from D pi ps lc w = map TStat (filter (fun x => ev_elem (snd x)) (all_events_from pi ps)).
Proof.
  intros H. induction ps as [|p ps IH]; intros pi; cbn [dper_from all_events_from]; [reflexivity|].
  rewrite H, IH, filter_app, map_app. reflexivity.
Qed.

(* ------------------------------------------------------------------ calls, scheduler moves, runs *)
Inductive dcall :=
| DEv (x : nat * nat * event) (t : Q) (e : elem)     (* a registered stochastic / per-element event *)
| DDyn (pi : nat) (d : dyn_event W) (t : Q)          (* an appended entry, on its own element *)
| DPost (h : entry).                                 (* a posted event *)

Definition dafter (c : dcall) s : st W :=
  match c with
  | DEv x t e => fire_event tb x t e s
  | DDyn pi d t => fire_dyn D pi d t s
  | DPost h => pend_step tb h s
  end.

Definition dcall_args (c : dcall) : nat * Q * elem :=
  match c with
  | DEv x t e => (ev_prog (snd x), t, e)
  | DDyn _ d t => (de_prog d, t, de_value d)
  | DPost h => (e_prog h, e_time h, e_elem h)
  end.

(* the entry was produced by the table's generator in SOME state *)
Definition dyn_range (pi : nat) (d : dyn_event W) : Prop := exists lc w, In d (d_dyn D pi lc w).

Section Runs.
(* Xtr: whatever else is established about every transition selected (e.g. positive probability) *)
Variable Xtr : trans W -> Prop.

Definition dcall_ok (c : dcall) s : Prop :=
  match c with
  | DEv x t e => In x (all_events tb) /\ mem e (locus s (ev_locus (snd x))) = true /\ clock s = t /\ Xtr (TStat x)
  | DDyn pi d t => dyn_range pi d /\ de_member d (loci s) (world s) = true /\ clock s = t /\ Xtr (TDyn pi d)
  | DPost h => head (queue s) = Some h /\ e_live h = true
  end.

(* a scheduler-internal move: touches neither loci nor user state nor output, adds no posted event *)
Definition dsched s s' : Prop :=
  loci s' = loci s /\ world s' = world s /\ out s' = out s /\ incl (queue s') (queue s).

Lemma dsched_refl s : dsched s s.
Proof. repeat split. apply incl_refl. Qed.

Lemma dsched_trans s1 s2 s3 : dsched s1 s2 -> dsched s2 s3 -> dsched s1 s3.
Proof.
  intros (a1 & a2 & a3 & a4) (b1 & b2 & b3 & b4).
  split; [congruence|]. split; [congruence|]. split; [congruence|]. eapply incl_tran; eassumption.
Qed.

Lemma dsched_same s s' : loci s' = loci s -> world s' = world s -> out s' = out s -> queue s' = queue s -> dsched s s'.
Proof. intros H1 H2 H3 H4. split; [exact H1|]. split; [exact H2|]. split; [exact H3|]. rewrite H4. apply incl_refl. Qed.

Lemma dsched_advance a b c s : dsched s (advance a b c s).
Proof. apply dsched_same; reflexivity. Qed.
Lemma dsched_set_clock t s : dsched s (set_clock t s).
Proof. apply dsched_same; reflexivity. Qed.
Lemma dsched_set_stuck s : dsched s (set_stuck s).
Proof. apply dsched_same; reflexivity. Qed.
Lemma dsched_discard s : dsched s (discard s).
Proof. unfold discard. split; [reflexivity|]. split; [reflexivity|]. split; [reflexivity|]. cbn [queue set_queue]. apply discard_dead_incl. Qed.
Lemma dsched_osame s s' : osame s s' -> dsched s s'.
Proof.
  intros [C [[L [_ Wd]] _]]. unfold core_of in C. inversion C as [[C1 C2 C3 C4]].
  apply dsched_same; assumption.
Qed.

Inductive DSteps (s0 : st W) : list (st W * dcall) -> st W -> Prop :=
| dst_refl : DSteps s0 [] s0
| dst_sched cs s s' : DSteps s0 cs s -> dsched s s' -> DSteps s0 cs s'
| dst_call cs s c : DSteps s0 cs s -> dcall_ok c s -> DSteps s0 (cs ++ [(s, c)]) (dafter c s).

(* induction principle for invariants: J holds on every state a call is entered on, and at the end *)
Lemma DSteps_inv (J : st W -> Prop) :
  (forall s s', J s -> dsched s s' -> J s') ->
  (forall s c, J s -> dcall_ok c s -> J (dafter c s)) ->
  forall s0 cs s, J s0 -> DSteps s0 cs s -> J s /\ Forall (fun sc => J (fst sc)) cs.
Proof.
  intros Hs Hc s0 cs s H0 H. induction H as [|cs s s' H IH Hsc|cs s c H IH Hok].
  - split; [exact H0 | constructor].
  - split; [eapply Hs; [exact (proj1 IH) | exact Hsc] | exact (proj2 IH)].
  - split; [apply Hc; [exact (proj1 IH) | exact Hok]|].
    apply Forall_app. split; [exact (proj2 IH)|]. constructor; [exact (proj1 IH) | constructor].
Qed.

(* every recorded call satisfied dcall_ok on the state it was entered on *)
Lemma DSteps_calls s0 cs s : DSteps s0 cs s -> Forall (fun sc => dcall_ok (snd sc) (fst sc)) cs.
Proof.
  intros H. induction H as [|cs s s' H IH Hsc|cs s c H IH Hok]; [constructor | exact IH |].
  apply Forall_app. split; [exact IH|]. constructor; [exact Hok | constructor].
Qed.

(* what a call does to loci and user state *)
Lemma dafter_lw c s :
  let '(k, t, e) := dcall_args c in
  loci (dafter c s) = fold_left (act_loci e) (snd (prog_of tb k t e (loci s) (world s))) (loci s)
  /\ world (dafter c s) = fst (prog_of tb k t e (loci s) (world s)).
Proof.
  destruct c as [x t e|pi d t|h]; cbn [dcall_args dafter].
  - exact (after_lw tb (CEv x t e) s).
  - exact (fire_dyn_lw pi d t s).
  - exact (after_lw tb (CPost h) s).
Qed.

(* ------------------------------------------------------------------ runPendingEvents *)
Lemma run_pending_dsteps : forall fuel t n s n' s', run_pending tb fuel t n s = (n', s') ->
  forall s0 cs, DSteps s0 cs s -> exists cs', DSteps s0 (cs ++ cs') s' /\ Forall (fun sc => exists h, snd sc = DPost h) cs'.
Proof.
  induction fuel as [|f IH]; intros t n s n' s' E s0 cs H; cbn [run_pending] in E.
  - inversion E; subst. exists []. rewrite app_nil_r. split; [|constructor]. eapply dst_sched; [exact H | apply dsched_set_stuck].
  - assert (Hd : DSteps s0 cs (discard s)) by (eapply dst_sched; [exact H | apply dsched_discard]).
    destruct (head (queue (discard s))) as [h|] eqn:Eh.
    + destruct (Qle_bool (e_time h) t).
      * assert (Hc : DSteps s0 (cs ++ [(discard s, DPost h)]) (dafter (DPost h) (discard s))).
        { apply dst_call; [exact Hd|]. split; [exact Eh | exact (discard_head_live (discard s) h ltac:(rewrite discard_discard; exact Eh))]. }
        destruct (IH _ _ _ _ _ E _ _ Hc) as [cs' [Hcs' Hp]]. exists ((discard s, DPost h) :: cs').
        rewrite <- app_assoc in Hcs'. split; [exact Hcs'|]. constructor; [eexists; reflexivity | exact Hp].
      * inversion E; subst. exists []. rewrite app_nil_r. split; [exact Hd | constructor].
    + inversion E; subst. exists []. rewrite app_nil_r. split; [exact Hd | constructor].
Qed.

End Runs.
End DK.
