(* C03 / C04: time.  Two invariants that constrain how the clock moves:
   [ord_inv]  every fired entry precedes, in (time, id), every live entry still queued (C04_order);
   [tinv]     handler and tap times never decrease and never exceed the times of live entries
              (C03_monotone, C03_end, C04_stochastic_end);
   and the pairing of handler and tap records with the event counters (C03_agree, C03_count). *)
From Coq Require Import List ZArith QArith Qabs Bool Arith Lia Lqa Sorted.
From EpyV Require Import Model.Kernel Proofs.KernelBase Proofs.KernelLoops Proofs.KernelQueue.
Import ListNotations.
Open Scope Q_scope.

(* ------------------------------------------------------------------ sorted lists *)
Lemma ss_snoc {A} (R : A -> A -> Prop) l a :
  StronglySorted R l -> Forall (fun x => R x a) l -> StronglySorted R (l ++ [a]).
Proof.
  induction l as [|x l IH]; cbn; intros Hs Hf; [constructor; constructor|].
  inversion Hs; subst. inversion Hf; subst. constructor; [apply IH; assumption|].
  apply Forall_app. split; [assumption|constructor; [assumption|constructor]].
Qed.

Lemma ss_app {A} (R : A -> A -> Prop) l1 l2 :
  StronglySorted R l1 -> StronglySorted R l2 -> (forall x y, In x l1 -> In y l2 -> R x y) ->
  StronglySorted R (l1 ++ l2).
Proof.
  induction l1 as [|x l1 IH]; cbn; intros H1 H2 H; [exact H2|].
  inversion H1; subst. constructor; [apply IH; auto|].
  apply Forall_app. split; [assumption|]. rewrite Forall_forall. intros y Hy. apply H; auto.
Qed.

Lemma ss_rev {A} (R : A -> A -> Prop) l : StronglySorted R l -> StronglySorted (fun a b => R b a) (rev l).
Proof.
  induction 1 as [|a l Hs IH Hf]; cbn; [constructor|].
  apply ss_snoc; [exact IH|]. rewrite Forall_forall in *. intros x Hx. apply Hf. apply in_rev. exact Hx.
Qed.

Lemma ss_filter {A} (R : A -> A -> Prop) f l : StronglySorted R l -> StronglySorted R (filter f l).
Proof.
  induction 1 as [|a l Hs IH Hf]; cbn; [constructor|].
  destruct (f a); [|exact IH]. constructor; [exact IH|].
  rewrite Forall_forall in *. intros x Hx. apply filter_In in Hx. apply Hf, Hx.
Qed.

Lemma filter_rev' {A} (f : A -> bool) l : filter f (rev l) = rev (filter f l).
Proof.
  induction l as [|x l IH]; cbn; [reflexivity|]. rewrite filter_app, IH. cbn.
  destruct (f x); cbn; [reflexivity|apply app_nil_r].
Qed.

(* ------------------------------------------------------------------ order of firing *)
Record ord_inv (c : Q) (n : nat) (q lg : list entry) : Prop := {
  o_wf : wfk n q;
  o_sorted : StronglySorted (fun a b => before a b = true) lg;
  o_last : forall f, In f lg ->
     (forall x, In x q -> e_live x = true -> before f x = true) /\ e_time f <= c /\ (e_id f < n)%nat }.

Lemma ord_umove c n q o c' n' q' o' lg : umove (c, n, q, o) (c', n', q', o') -> ord_inv c n q lg -> ord_inv c' n' q' lg.
Proof.
  intros H [O1 O2 O3]. split; [eapply wfk_umove; eassumption|exact O2|].
  inversion H; subst; try exact O3.
  - intros f Hf. destruct (O3 f Hf) as [A [B C]]. split; [|split; [exact B|lia]].
    intros x [<-|Hx] Hl; [|auto]. apply before_true. cbn.
    destruct (Qlt_le_dec (e_time f) t) as [Hlt|Hle]; [left; exact Hlt|right; split; [lra|exact C]].
  - intros f Hf. destruct (O3 f Hf) as [A [B C]]. split; [|split; assumption].
    intros y Hy Hl. apply kill_live_in in Hy; [|exact Hl]. apply A; [apply Hy|exact Hl].
Qed.

Lemma ord_umoves k k' lg : umoves k k' ->
  ord_inv (fst (fst (fst k))) (snd (fst (fst k))) (snd (fst k)) lg ->
  ord_inv (fst (fst (fst k'))) (snd (fst (fst k'))) (snd (fst k')) lg.
Proof.
  induction 1 as [|k1 k2 k3 H _ IH]; [auto|]. intros G. apply IH.
  destruct k1 as [[[c n] q] o], k2 as [[[c' n'] q'] o']. cbn in *. eapply ord_umove; eassumption.
Qed.

Lemma ord_discard c n q lg f : ord_inv c n q lg -> ord_inv c n (discard_dead f q) lg.
Proof.
  intros [O1 O2 O3]. split; [apply wfk_discard, O1|exact O2|].
  intros x Hx. destruct (O3 x Hx) as [A B]. split; [|exact B].
  intros y Hy. apply A. eapply discard_dead_incl; eassumption.
Qed.

Lemma ord_clock c n q lg c' : (forall f, In f lg -> e_time f <= c') -> ord_inv c n q lg -> ord_inv c' n q lg.
Proof.
  intros Hc [O1 O2 O3]. split; [exact O1|exact O2|].
  intros x Hx. destruct (O3 x Hx) as [A [B C]]. auto.
Qed.

Lemma ord_pop c n q lg h : head q = Some h -> e_live h = true -> ord_inv c n q lg ->
  ord_inv (e_time h) n (remove_id (e_id h) q) (lg ++ [h]).
Proof.
  intros Hh Hl [O1 O2 O3]. pose proof (head_in _ _ Hh) as Hin. split; [apply wfk_remove, O1| |].
  - apply ss_snoc; [exact O2|]. rewrite Forall_forall. intros f Hf. apply (O3 f Hf); assumption.
  - intros f Hf. apply in_app_or in Hf. destruct Hf as [Hf|[<-|[]]].
    + destruct (O3 f Hf) as [A [B C]]. split; [|split; [|exact C]].
      * intros x Hx. apply A. eapply remove_id_incl; eassumption.
      * apply before_time_le, A; assumption.
    + split; [|split; [lra|]].
      * intros x Hx Hlx. apply before_total; [|eapply head_min; [exact Hh|eapply remove_id_incl; exact Hx]].
        intros E. apply (remove_id_gone (e_id h) q (proj1 O1)).
        pose proof (in_map e_id _ _ Hx) as Hm. rewrite E in Hm. exact Hm.
      * destruct O1 as [_ Hlt]. rewrite Forall_forall in Hlt. apply Hlt, Hin.
Qed.

(* ------------------------------------------------------------------ times of handler and tap records *)
Definition is_ht (x : obs) : bool := match x with OHandler _ _ _ _ _ | OTap _ _ _ _ => true | _ => false end.
Definition time_of (x : obs) : Q := match x with OHandler _ t _ _ _ => t | OTap t _ _ _ => t | _ => 0 end.
Definition obs_times (o : list obs) : list Q := map time_of (filter is_ht o).
(* newest first: every time is at least every older one *)
Definition desc : list Q -> Prop := StronglySorted (fun a b : Q => b <= a).

Record tinv (L c : Q) (q : list entry) (o : list obs) : Prop := {
  t_desc : desc (L :: obs_times o);
  t_clock : L <= c;
  t_live : forall x, In x q -> e_live x = true -> L <= e_time x }.

Lemma neutral_not_ht x : neutral x = true -> is_ht x = false.
Proof. destruct x; cbn; congruence. Qed.

Lemma tinv_emit_other L c q o x : is_ht x = false -> tinv L c q o -> tinv L c q (x :: o).
Proof. intros Hx [T1 T2 T3]. split; auto. unfold obs_times. cbn. rewrite Hx. exact T1. Qed.

Lemma tinv_emit_at L c q o x : is_ht x = true -> time_of x <= L -> L <= time_of x -> tinv L c q o -> tinv L c q (x :: o).
Proof.
  intros Hx H1 H2 [T1 T2 T3]. split; auto. unfold obs_times. cbn. rewrite Hx. cbn.
  inversion T1 as [|? ? Hs Hf]; subst. constructor; [constructor; [exact Hs|]|constructor; [exact H1|exact Hf]].
  eapply Forall_impl; [|exact Hf]. cbn. intros; lra.
Qed.

Lemma tinv_umove L c n q o c' n' q' o' : umove (c, n, q, o) (c', n', q', o') -> tinv L c q o -> tinv L c' q' o'.
Proof.
  intros H T. pose proof T as [T1 T2 T3]. inversion H; subst.
  - apply tinv_emit_other; [apply neutral_not_ht; assumption|exact T].
  - split; [exact T1|exact T2|]. intros x [<-|Hx] Hl; [cbn; lra|auto].
  - apply tinv_emit_other; [reflexivity|exact T].
  - apply tinv_emit_other; [reflexivity|]. split; [exact T1|exact T2|].
    intros y Hy Hl. apply kill_live_in in Hy; [|exact Hl]. apply T3; [apply Hy|exact Hl].
Qed.

Lemma tinv_umoves L k k' : umoves k k' ->
  tinv L (fst (fst (fst k))) (snd (fst k)) (snd k) -> tinv L (fst (fst (fst k'))) (snd (fst k')) (snd k').
Proof.
  induction 1 as [|k1 k2 k3 H _ IH]; [auto|]. intros G. apply IH.
  destruct k1 as [[[c n] q] o], k2 as [[[c' n'] q'] o']. cbn in *. eapply tinv_umove; eassumption.
Qed.

Lemma tinv_discard L c q o f : tinv L c q o -> tinv L c (discard_dead f q) o.
Proof.
  intros [T1 T2 T3]. split; auto. intros x Hx. apply T3. eapply discard_dead_incl; eassumption.
Qed.

Lemma tinv_raise L c q o L' c' : L <= L' -> L' <= c' ->
  (forall x, In x q -> e_live x = true -> L' <= e_time x) -> tinv L c q o -> tinv L' c' q o.
Proof.
  intros H1 H2 H3 [T1 T2 T3]. split; auto.
  inversion T1 as [|? ? Hs Hf]; subst. constructor; [exact Hs|].
  eapply Forall_impl; [|exact Hf]. cbn. intros; lra.
Qed.

Lemma tinv_pop L c q o h : head q = Some h -> e_live h = true -> tinv L c q o ->
  tinv (e_time h) (e_time h) (remove_id (e_id h) q) (hrec h :: o).
Proof.
  intros Hh Hl T. pose proof (head_in _ _ Hh) as Hin.
  assert (HL : L <= e_time h) by (apply (t_live _ _ _ _ T); assumption).
  apply tinv_emit_at; [reflexivity|cbn; lra|cbn; lra|].
  apply (tinv_raise L c); [exact HL|lra| |].
  - intros x Hx _. apply notbefore_time_le. eapply head_min; [exact Hh|eapply remove_id_incl; exact Hx].
  - destruct T as [T1 T2 T3]. split; auto. intros x Hx. apply T3. eapply remove_id_incl; eassumption.
Qed.

Section T.
Context {W : Type}.
Implicit Types s : st W.

Definition ord_st s lg : Prop := ord_inv (clock s) (nextid s) (queue s) lg.
Definition tinv_st L s : Prop := tinv L (clock s) (queue s) (out s).

Lemma ord_core s s' lg : core_of s' = core_of s -> ord_st s lg -> ord_st s' lg.
Proof. unfold core_of, ord_st. intros [= -> -> -> _]. auto. Qed.
Lemma tinv_core L s s' : core_of s' = core_of s -> tinv_st L s -> tinv_st L s'.
Proof. unfold core_of, tinv_st. intros [= -> _ -> ->]. auto. Qed.

Lemma ord_of_core s c n q o lg : core_of s = (c, n, q, o) -> ord_inv c n q lg -> ord_st s lg.
Proof. unfold core_of, ord_st. intros [= <- <- <- <-]. auto. Qed.
Lemma tinv_of_core s c n q o L : core_of s = (c, n, q, o) -> tinv L c q o -> tinv_st L s.
Proof. unfold core_of, tinv_st. intros [= <- <- <- <-]. auto. Qed.

Lemma ord_pend_step tb h s0 lg : head (queue s0) = Some h -> e_live h = true ->
  ord_st s0 lg -> ord_st (pend_step tb h s0) (lg ++ [h]).
Proof.
  intros Hh Hl O. destruct (pend_step_shape tb h s0) as [n2 [q2 [o2 [U E]]]].
  apply (ord_of_core _ _ _ _ _ _ E).
  apply (ord_umoves _ _ (lg ++ [h]) U). cbn. exact (ord_pop (clock s0) _ _ _ _ Hh Hl O).
Qed.

Lemma tinv_pend_step tb h s0 L : head (queue s0) = Some h -> e_live h = true ->
  tinv_st L s0 -> tinv_st (e_time h) (pend_step tb h s0).
Proof.
  intros Hh Hl T. destruct (pend_step_shape tb h s0) as [n2 [q2 [o2 [U E]]]].
  apply (tinv_of_core _ _ _ _ _ _ E).
  apply tinv_emit_at; [reflexivity|cbn; lra|cbn; lra|].
  apply (tinv_umoves _ _ _ U). cbn. exact (tinv_pop L (clock s0) _ _ _ Hh Hl T).
Qed.

Lemma ord_fire_event tb x t e s lg : ord_st s lg -> ord_st (fire_event tb x t e s) lg.
Proof.
  intros O. destruct (fire_event_shape tb x t e s) as [k [m [pi [j [n2 [q2 [o2 [U E]]]]]]]].
  apply (ord_of_core _ _ _ _ _ _ E).
  apply (ord_umoves _ _ lg U). cbn. exact O.
Qed.

Lemma tinv_fire_event tb x t e s : clock s = t -> tinv_st t s -> tinv_st t (fire_event tb x t e s).
Proof.
  intros Hc T. destruct (fire_event_shape tb x t e s) as [k [m [pi [j [n2 [q2 [o2 [U E]]]]]]]].
  apply (tinv_of_core _ _ _ _ _ _ E).
  apply tinv_emit_at; [reflexivity|cbn; lra|cbn; lra|].
  apply (tinv_umoves _ _ _ U). cbn. apply tinv_emit_at; [reflexivity|cbn; lra|cbn; lra|].
  unfold tinv_st in T. rewrite Hc in T. rewrite Hc. exact T.
Qed.

(* ---- run_pending *)
Lemma run_pendingL_ord tb fuel t : forall n s lg n' s' l, ord_st s lg ->
  run_pendingL tb fuel t n s = (n', s', l) -> ord_st s' (lg ++ l) /\ (forall f, In f l -> e_time f <= t).
Proof.
  induction fuel as [|f IH]; intros n s lg n' s' l O; cbn [run_pendingL].
  - intros [= <- <- <-]. rewrite app_nil_r. split; [exact O|intros ? []].
  - assert (O0 : ord_st (discard s) lg) by (apply ord_discard, O).
    destruct (head (queue (discard s))) as [h|] eqn:Eh;
      [|intros [= <- <- <-]; rewrite app_nil_r; split; [exact O0|intros ? []]].
    destruct (Qle_bool (e_time h) t) eqn:Et;
      [|intros [= <- <- <-]; rewrite app_nil_r; split; [exact O0|intros ? []]].
    destruct (run_pendingL tb f t (S n) _) as [[n1 s1] l1] eqn:E. intros [= <- <- <-].
    apply (IH _ _ (lg ++ [h])) in E; [|apply ord_pend_step; [exact Eh|eapply discard_head_live; exact Eh|exact O0]].
    destruct E as [A B]. rewrite <- app_assoc in A. split; [exact A|].
    intros x [<-|Hx]; [apply Qle_bool_iff, Et|auto].
Qed.

Lemma run_pendingL_tinv tb fuel t : forall L n s n' s' l, tinv_st L s ->
  run_pendingL tb fuel t n s = (n', s', l) -> stuck s' = false ->
  exists L', tinv_st L' s' /\ L <= L' /\ (L' <= t \/ L' = L) /\
             (forall x, In x (queue s') -> e_live x = true -> t < e_time x).
Proof.
  induction fuel as [|f IH]; intros L n s n' s' l T; cbn [run_pendingL].
  - intros [= <- <- <-]. cbn. discriminate.
  - assert (T0 : tinv_st L (discard s)) by (apply tinv_discard, T).
    destruct (head (queue (discard s))) as [h|] eqn:Eh.
    2:{ intros [= <- <- <-] _. exists L. split; [exact T0|split; [lra|split; [right; reflexivity|]]].
        apply head_none in Eh. rewrite Eh. intros ? []. }
    destruct (Qle_bool (e_time h) t) eqn:Et.
    2:{ intros [= <- <- <-] _. exists L. split; [exact T0|split; [lra|split; [right; reflexivity|]]].
        apply Qle_bool_false in Et. intros x Hx _.
        pose proof (notbefore_time_le _ _ (head_min _ _ Eh x Hx)). lra. }
    destruct (run_pendingL tb f t (S n) _) as [[n1 s1] l1] eqn:E. intros [= <- <- <-] Hs.
    pose proof (discard_head_live _ _ Eh) as Hl.
    apply (IH (e_time h)) in E; [|eapply tinv_pend_step; eassumption|exact Hs].
    destruct E as [L' [A [B [C D]]]]. apply Qle_bool_iff in Et.
    assert (L <= e_time h) by (apply (t_live _ _ _ _ T0); [apply head_in; exact Eh|exact Hl]).
    exists L'. split; [exact A|split; [lra|split; [|exact D]]].
    left. destruct C as [C|C]; [exact C|rewrite C; exact Et].
Qed.

End T.

(* ------------------------------------------------------------------ the stochastic loop *)
Section Stoch.
Context {W : Type}.
Implicit Types s : st W.
Variable tb : table W.
Variable pf : nat.
Hypothesis Hnn : nonneg_tb tb.

Definition fired_le (lg : list entry) (t : Q) : Prop := forall f, In f lg -> e_time f <= t.
Definition lns_ok s : Prop := Forall (Qle 0) (lns s).

Lemma lns_ok_osame s s' : osame s s' -> lns_ok s -> lns_ok s'.
Proof.
  intros [_ [_ [Hi _]]] H. unfold lns_ok in *. rewrite Forall_forall in *. intros x Hx. apply H, Hi, Hx.
Qed.

Lemma lns_ok_eq s s' : lns s' = lns s -> lns_ok s -> lns_ok s'.
Proof. unfold lns_ok. intros ->. auto. Qed.

Lemma osame_stuck s s' : osame s s' -> stuck s' = false -> stuck s = false.
Proof. intros [_ [_ [_ Hm]]] H. destruct (stuck s); [rewrite Hm in H; [discriminate|reflexivity]|reflexivity]. Qed.

Lemma run_pendingL_stuck fuel t n s n' s' l :
  run_pendingL tb fuel t n s = (n', s', l) -> stuck s' = false -> stuck s = false.
Proof.
  intros H Hs. apply run_pendingL_omono in H. destruct H as [_ Hm].
  destruct (stuck s); [rewrite Hm in Hs; [discriminate|reflexivity]|reflexivity].
Qed.

Lemma run_pendingL_head_fires f t n s h : head (queue (discard s)) = Some h -> e_time h <= t ->
  run_pendingL tb (S f) t n (discard s) =
  let '(n', s', l) := run_pendingL tb f t (S n) (pend_step tb h (discard s)) in (n', s', h :: l).
Proof.
  intros Hh Ht. cbn [run_pendingL]. rewrite discard_discard, Hh.
  apply Qle_bool_iff in Ht. rewrite Ht. reflexivity.
Qed.

Definition OI (t : Q) s (lg : list entry) : Prop := ord_st s lg /\ fired_le lg t /\ lns_ok s.

Lemma fired_le_app lg l t : fired_le lg t -> fired_le l t -> fired_le (lg ++ l) t.
Proof. intros A B f Hf. apply in_app_or in Hf. destruct Hf; auto. Qed.

Lemma fired_le_mono lg t t' : t <= t' -> fired_le lg t -> fired_le lg t'.
Proof. intros H A f Hf. specialize (A f Hf). lra. Qed.

Lemma ord_set_clock c s lg : fired_le lg c -> ord_st s lg -> ord_st (set_clock c s) lg.
Proof. intros H O. unfold ord_st in *. cbn. eapply ord_clock; eassumption. Qed.

Lemma ord_st_discard s lg : ord_st s lg -> ord_st (discard s) lg.
Proof. intros O. unfold ord_st, discard in *. cbn. apply ord_discard, O. Qed.

Lemma tinv_st_discard L s : tinv_st L s -> tinv_st L (discard s).
Proof. intros O. unfold tinv_st, discard in *. cbn. apply tinv_discard, O. Qed.

Lemma stoch_loopL_ord fuel t ev s lg t' ev' s' l :
  OI t s lg -> stoch_loopL tb pf fuel t ev s = (t', ev', s', l) -> OI t' s' (lg ++ l).
Proof.
  intros HI H.
  refine (stoch_loopL_inv tb pf (fun t _ s lg => OI t s lg) _ _ fuel t ev s lg t' ev' s' l HI H).
  - intros t1 _ s1 lg1 [A [B C]]. split; [exact A|split; [exact B|exact C]].
  - intros t1 _ s1 lg1 r [A [B C]] _ Hs.
    destruct Hs as [Hnone | | h n s2 l1 Hh Hrp | s3 nt n s4 l1 Hos Hnt Hrp | s3 nt n s4 l1 s6 x e Hos Hnt Hrp Hos6].
    + split; [apply ord_st_discard, A|split; [exact B|exact C]].
    + split; [exact A|split; [exact B|exact C]].
    + pose proof (ord_st_discard _ _ A) as A0.
      destruct (run_pendingL_ord tb pf _ _ _ _ _ _ _ A0 Hrp) as [A1 B1].
      split; [exact A1|split].
      * apply fired_le_app; [|exact B1]. intros f Hf. apply before_time_le.
        apply (o_last _ _ _ _ A0 f Hf); [apply head_in; exact Hh|eapply discard_head_live; exact Hh].
      * apply run_pendingL_omono in Hrp. eapply lns_ok_eq; [apply Hrp|exact C].
    + specialize (Hnt Hnn C).
      pose proof (ord_core _ _ _ (osame_core _ _ Hos) A) as A3.
      destruct (run_pendingL_ord tb pf _ _ _ _ _ _ _ A3 Hrp) as [A4 B4].
      assert (B' : fired_le (lg1 ++ l1) nt) by (apply fired_le_app; [eapply fired_le_mono; eassumption|exact B4]).
      split; [apply ord_set_clock; assumption|split; [exact B'|]].
      apply run_pendingL_omono in Hrp. eapply lns_ok_eq; [apply Hrp|]. eapply lns_ok_osame; eassumption.
    + specialize (Hnt Hnn C).
      pose proof (ord_core _ _ _ (osame_core _ _ Hos) A) as A3.
      destruct (run_pendingL_ord tb pf _ _ _ _ _ _ _ A3 Hrp) as [A4 B4].
      assert (B' : fired_le (lg1 ++ l1) nt) by (apply fired_le_app; [eapply fired_le_mono; eassumption|exact B4]).
      split; [|split; [exact B'|]].
      * apply ord_fire_event. apply (ord_core _ _ _ (osame_core _ _ Hos6)). apply ord_set_clock; assumption.
      * eapply lns_ok_eq; [apply fire_event_okeep|]. eapply lns_ok_osame; [exact Hos6|].
        apply run_pendingL_omono in Hrp. eapply (lns_ok_eq s3); [apply Hrp|]. eapply lns_ok_osame; eassumption.
Qed.

(* handler/tap times: all at most the loop time, which no live entry precedes *)
Definition TI (t : Q) s : Prop := lns_ok s /\ (stuck s = true \/ tinv_st t s).

Lemma stoch_loopL_tinv fuel t ev s t' ev' s' l :
  TI t s -> stoch_loopL tb pf fuel t ev s = (t', ev', s', l) -> TI t' s'.
Proof.
  intros HI H.
  refine (stoch_loopL_inv tb pf (fun t _ s _ => TI t s) _ _ fuel t ev s [] t' ev' s' l HI H).
  - intros t1 _ s1 _ [C _]. split; [exact C|left; reflexivity].
  - intros t1 _ s1 _ r [C D] _ Hs.
    destruct Hs as [Hnone | | h n s2 l1 Hh Hrp | s3 nt n s4 l1 Hos Hnt Hrp | s3 nt n s4 l1 s6 x e Hos Hnt Hrp Hos6].
    + split; [exact C|]. destruct D as [D|D]; [left; exact D|right; apply tinv_st_discard, D].
    + split; [exact C|left; reflexivity].
    + split; [pose proof (run_pendingL_omono _ _ _ _ _ _ _ _ Hrp) as Hm; eapply lns_ok_eq; [apply Hm|exact C]|].
      destruct (stuck s2) eqn:Es2; [left; reflexivity|right].
      pose proof (run_pendingL_stuck _ _ _ _ _ _ _ Hrp Es2) as Es0. change (stuck (discard s1)) with (stuck s1) in Es0.
      destruct D as [D|D]; [congruence|]. pose proof (tinv_st_discard _ _ D) as T0.
      pose proof (discard_head_live _ _ Hh) as Hl.
      assert (Hth : t1 <= e_time h) by (apply (t_live _ _ _ _ T0); [apply head_in; exact Hh|exact Hl]).
      destruct pf as [|f]; [cbn in Hrp; injection Hrp as _ <- _; discriminate|].
      rewrite (run_pendingL_head_fires f _ _ _ h Hh (Qle_refl _)) in Hrp.
      destruct (run_pendingL tb f (e_time h) 1 _) as [[n1 s1'] l1'] eqn:E. injection Hrp as _ <- _.
      destruct (run_pendingL_tinv tb f _ _ _ _ _ _ _ (tinv_pend_step tb h _ _ Hh Hl T0) E Es2) as [L' [A [B [C1 D1]]]].
      apply (tinv_raise L' (clock s1')); [destruct C1 as [C1|C1]; [exact C1|rewrite C1; apply Qle_refl]| | |exact A].
      * pose proof (t_clock _ _ _ _ A). lra.
      * intros y Hy Hly. specialize (D1 y Hy Hly). lra.
    + specialize (Hnt Hnn C).
      assert (C4 : lns_ok (set_clock nt s4)).
      { pose proof (run_pendingL_omono _ _ _ _ _ _ _ _ Hrp) as Hm. eapply (lns_ok_eq s3); [apply Hm|]. eapply lns_ok_osame; eassumption. }
      split; [exact C4|]. destruct (stuck s4) eqn:Es4; [left; exact Es4|right].
      pose proof (run_pendingL_stuck _ _ _ _ _ _ _ Hrp Es4) as Es3.
      pose proof (osame_stuck _ _ Hos Es3) as Es1. destruct D as [D|D]; [congruence|].
      pose proof (tinv_core _ _ _ (osame_core _ _ Hos) D) as T3.
      destruct (run_pendingL_tinv tb pf _ _ _ _ _ _ _ T3 Hrp Es4) as [L' [A [B [C1 D1]]]].
      unfold tinv_st. cbn. apply (tinv_raise L' (clock s4)); [destruct C1 as [C1|C1]; [exact C1|rewrite C1; exact Hnt]|apply Qle_refl| |exact A].
      intros y Hy Hly. specialize (D1 y Hy Hly). lra.
    + specialize (Hnt Hnn C).
      assert (C4 : lns_ok (set_clock nt s4)).
      { pose proof (run_pendingL_omono _ _ _ _ _ _ _ _ Hrp) as Hm. eapply (lns_ok_eq s3); [apply Hm|]. eapply lns_ok_osame; eassumption. }
      split; [eapply lns_ok_eq; [apply fire_event_okeep|]; eapply lns_ok_osame; eassumption|].
      rewrite fire_event_stuck. destruct (stuck s6) eqn:Es6; [left; reflexivity|right].
      pose proof (osame_stuck _ _ Hos6 Es6) as Es4. change (stuck (set_clock nt s4)) with (stuck s4) in Es4.
      pose proof (run_pendingL_stuck _ _ _ _ _ _ _ Hrp Es4) as Es3.
      pose proof (osame_stuck _ _ Hos Es3) as Es1. destruct D as [D|D]; [congruence|].
      pose proof (tinv_core _ _ _ (osame_core _ _ Hos) D) as T3.
      destruct (run_pendingL_tinv tb pf _ _ _ _ _ _ _ T3 Hrp Es4) as [L' [A [B [C1 D1]]]].
      apply tinv_fire_event; [rewrite (osame_clock _ _ Hos6); reflexivity|].
      apply (tinv_core _ _ _ (osame_core _ _ Hos6)).
      unfold tinv_st. cbn. apply (tinv_raise L' (clock s4)); [destruct C1 as [C1|C1]; [exact C1|rewrite C1; exact Hnt]|apply Qle_refl| |exact A].
      intros y Hy Hly. specialize (D1 y Hy Hly). lra.
Qed.

End Stoch.

(* ------------------------------------------------------------------ the synchronous loop *)
Section Sync.
Context {W : Type}.
Implicit Types s : st W.
Variable tb : table W.
Variable pf : nat.

Definition OIy (t : Q) s (lg : list entry) : Prop := ord_st s lg /\ fired_le lg t.

Lemma fire_tranche_ord t evs nev s nev' s' lg :
  ord_st s lg -> fire_tranche tb t evs nev s = (nev', s') -> ord_st s' lg.
Proof.
  intros O H. refine (fire_tranche_inv tb t (fun _ s1 => ord_st s1 lg) _ evs nev s nev' s' O H).
  intros _ s1 x e O1. apply ord_fire_event, O1.
Qed.

Lemma fire_tranche_stuck t evs nev s nev' s' :
  fire_tranche tb t evs nev s = (nev', s') -> stuck s' = stuck s.
Proof.
  intros H. refine (fire_tranche_inv tb t (fun _ s1 => stuck s1 = stuck s) _ evs nev s nev' s' eq_refl H).
  intros _ s1 x e O1. rewrite fire_event_stuck. exact O1.
Qed.

Lemma fire_tranche_tinv t evs nev s nev' s' : clock s = t -> tinv_st t s ->
  fire_tranche tb t evs nev s = (nev', s') -> tinv_st t s'.
Proof.
  intros Hc T H.
  refine (proj1 (fire_tranche_inv tb t (fun _ s1 => tinv_st t s1 /\ clock s1 = t) _ evs nev s nev' s' (conj T Hc) H)).
  intros _ s1 x e [T1 C1]. split; [apply tinv_fire_event; assumption|rewrite fire_event_clock; exact C1].
Qed.

Lemma t_succ_le t : t <= Qred (t + 1).
Proof. rewrite Qred_correct. lra. Qed.

Lemma sync_loopL_ord fuel t ev k s lg t' ev' k' s' l :
  OIy t s lg -> sync_loopL tb pf fuel t ev k s = (t', ev', k', s', l) -> OIy t' s' (lg ++ l).
Proof.
  intros HI H.
  refine (sync_loopL_inv tb pf (fun t _ _ s lg => OIy t s lg) _ _ fuel t ev k s lg t' ev' k' s' l HI H).
  - intros t1 _ _ s1 lg1 [A B]. split; [exact A|exact B].
  - intros t1 _ _ s1 lg1 nev s3 l1 [A B] _ Hs.
    inversion Hs as [n s0 l0 s2 evs nev1 s31 Hrp Hos Hft]; subst.
    destruct (run_pendingL_ord tb pf _ _ _ _ _ _ _ (ord_set_clock t1 _ _ B A) Hrp) as [A1 B1].
    assert (B' : fired_le (lg1 ++ l1) t1) by (apply fired_le_app; assumption).
    split; [|eapply fired_le_mono; [apply t_succ_le|exact B']].
    eapply fire_tranche_ord; [|exact Hft].
    apply (ord_core _ _ _ (osame_core _ _ Hos)). apply ord_set_clock; assumption.
Qed.

Definition TIy (t : Q) s : Prop := stuck s = true \/ exists L, L + 1 == t /\ tinv_st L s.

Lemma sync_loopL_tinv fuel t ev k s t' ev' k' s' l :
  TIy t s -> sync_loopL tb pf fuel t ev k s = (t', ev', k', s', l) -> TIy t' s'.
Proof.
  intros HI H.
  refine (sync_loopL_inv tb pf (fun t _ _ s _ => TIy t s) _ _ fuel t ev k s [] t' ev' k' s' l HI H).
  - intros t1 _ _ s1 _ _. left. reflexivity.
  - intros t1 _ _ s1 _ nev s3 l1 D _ Hs.
    inversion Hs as [n s0 l0 s2 evs nev1 s31 Hrp Hos Hft]; subst.
    destruct (stuck s3) eqn:Es3; [left; exact Es3|right].
    rewrite (fire_tranche_stuck _ _ _ _ _ _ Hft) in Es3.
    pose proof (osame_stuck _ _ Hos Es3) as Es0. change (stuck (set_clock t1 s0)) with (stuck s0) in Es0.
    pose proof (run_pendingL_stuck _ _ _ _ _ _ _ _ Hrp Es0) as Es1. change (stuck (set_clock t1 s1)) with (stuck s1) in Es1.
    destruct D as [D|[L [HL D]]]; [congruence|].
    assert (T1 : tinv_st L (set_clock t1 s1)).
    { unfold tinv_st. cbn. apply (tinv_raise L (clock s1)); [apply Qle_refl|lra|apply (t_live _ _ _ _ D)|exact D]. }
    destruct (run_pendingL_tinv tb pf _ _ _ _ _ _ _ T1 Hrp Es0) as [L' [A [B [C1 D1]]]].
    exists t1. split; [rewrite Qred_correct; reflexivity|].
    eapply fire_tranche_tinv; [| |exact Hft]; [rewrite (osame_clock _ _ Hos); reflexivity|].
    apply (tinv_core _ _ _ (osame_core _ _ Hos)).
    unfold tinv_st. cbn. apply (tinv_raise L' (clock s0)); [destruct C1 as [C1|C1]; [exact C1|rewrite C1; lra]|apply Qle_refl| |exact A].
    intros y Hy Hly. specialize (D1 y Hy Hly). lra.
Qed.

(* the loop variable counts the steps: on exit it is 1 + (number of iterations), and it only
   stops at a step where the exit test holds *)
Lemma inj_nat_0 : inject_Z (Z.of_nat 0) == 0.
Proof. reflexivity. Qed.
Lemma inj_nat_S j : inject_Z (Z.of_nat (S j)) == inject_Z (Z.of_nat j) + 1.
Proof. rewrite Nat2Z.inj_succ. unfold Z.succ. rewrite inject_Z_plus. reflexivity. Qed.

Lemma sync_loopL_time fuel t ev k s t' ev' k' s' l :
  sync_loopL tb pf fuel t ev k s = (t', ev', k', s', l) ->
  exists m : nat, (m <= fuel)%nat /\ t' == t + inject_Z (Z.of_nat m) /\
    (stuck s' = false -> at_end tb t' s' = true) /\
    (forall j : nat, (j < m)%nat -> Qle_bool (t_maxtime tb) (t + inject_Z (Z.of_nat j)) = false).
Proof.
  revert t ev k s t' ev' k' s' l. induction fuel as [|f IH]; intros t ev k s t' ev' k' s' l; cbn [sync_loopL].
  - intros [= <- <- <- <- <-]. exists 0%nat. split; [lia|split; [rewrite inj_nat_0; lra|split; [cbn; discriminate|intros; lia]]].
  - destruct (at_end tb t s) eqn:Em.
    + intros [= <- <- <- <- <-]. exists 0%nat. split; [lia|split; [rewrite inj_nat_0; lra|split; [intros _; exact Em|intros; lia]]].
    + destruct (sync_step tb pf t s) as [[nev s3] l1].
      destruct (sync_loopL tb pf f _ _ _ s3) as [[[[t1 ev1] k1] sf] l2] eqn:E. intros [= <- <- <- <- <-].
      apply IH in E. destruct E as [m [Hm [Ht [He Hj]]]]. exists (S m). split; [lia|split; [|split; [exact He|]]].
      * rewrite Ht, Qred_correct, inj_nat_S. lra.
      * intros j Hlt. destruct j as [|j].
        -- unfold at_end in Em. apply orb_false_iff in Em. destruct Em as [Em _].
           destruct (Qle_bool (t_maxtime tb) (t + inject_Z (Z.of_nat 0))) eqn:E0; [|reflexivity].
           apply Qle_bool_iff in E0. rewrite inj_nat_0 in E0. assert (E1 : t_maxtime tb <= t) by lra.
           apply Qle_bool_iff in E1. congruence.
        -- specialize (Hj j ltac:(lia)).
           destruct (Qle_bool (t_maxtime tb) (t + inject_Z (Z.of_nat (S j)))) eqn:E0; [|reflexivity].
           apply Qle_bool_iff in E0. rewrite inj_nat_S in E0.
           assert (E1 : t_maxtime tb <= Qred (t + 1) + inject_Z (Z.of_nat j)) by (rewrite Qred_correct; lra).
           apply Qle_bool_iff in E1. congruence.
Qed.

End Sync.

(* ------------------------------------------------------------------ handler / tap pairing, counters *)
Definition is_tap (x : obs) : bool := match x with OTap _ _ _ _ => true | _ => false end.
Definition is_handler (x : obs) : bool := match x with OHandler _ _ _ _ _ => true | _ => false end.
Definition ht (o : list obs) : list obs := filter is_ht o.
Definition ntaps (o : list obs) : nat := length (filter is_tap o).
Definition nhandlers (o : list obs) : nat := length (filter is_handler o).

(* newest first: each tap sits on the handler record of the same event: same time (handler argument
   = clock seen by the handler = tap time), same element, and a name of the right kind *)
Inductive paired : list obs -> Prop :=
| pr_nil : paired []
| pr_posted k t e p l : paired l -> paired (OTap t p (NPost k) e :: OHandler k t t e None :: l)
| pr_event k t e m p j l : paired l -> paired (OTap t p (NEv p j) e :: OHandler k t t e (Some m) :: l).

(* the same, oldest first (the order of [r_out]) *)
Inductive paired_fwd : list obs -> Prop :=
| pf_nil : paired_fwd []
| pf_posted k t e p l : paired_fwd l -> paired_fwd (OHandler k t t e None :: OTap t p (NPost k) e :: l)
| pf_event k t e m p j l : paired_fwd l -> paired_fwd (OHandler k t t e (Some m) :: OTap t p (NEv p j) e :: l).

Lemma paired_fwd_app l1 l2 : paired_fwd l1 -> paired_fwd l2 -> paired_fwd (l1 ++ l2).
Proof. induction 1; cbn; intros H2; [exact H2|constructor; auto|constructor; auto]. Qed.

Lemma paired_rev l : paired l -> paired_fwd (rev l).
Proof.
  induction 1 as [|k t e p l _ IH|k t e m p j l _ IH]; cbn; [constructor| |].
  - rewrite <- app_assoc. apply paired_fwd_app; [exact IH|]. cbn. constructor. constructor.
  - rewrite <- app_assoc. apply paired_fwd_app; [exact IH|]. cbn. constructor. constructor.
Qed.

Lemma paired_counts l : paired l -> length (filter is_tap l) = length (filter is_handler l).
Proof. induction 1; cbn; [reflexivity|f_equal; assumption|f_equal; assumption]. Qed.

Lemma filter_ht_tap o : filter is_tap (filter is_ht o) = filter is_tap o.
Proof. induction o as [|x o IH]; cbn; [reflexivity|]. destruct x; cbn; rewrite IH; reflexivity. Qed.
Lemma filter_ht_handler o : filter is_handler (filter is_ht o) = filter is_handler o.
Proof. induction o as [|x o IH]; cbn; [reflexivity|]. destruct x; cbn; rewrite IH; reflexivity. Qed.

Lemma ht_umove c n q o c' n' q' o' : umove (c, n, q, o) (c', n', q', o') -> ht o' = ht o.
Proof.
  intros H. inversion H; subst; try reflexivity.
  unfold ht. cbn. rewrite neutral_not_ht; [reflexivity|assumption].
Qed.

Lemma ht_umoves k k' : umoves k k' -> ht (snd k') = ht (snd k).
Proof.
  induction 1 as [|k1 k2 k3 H _ IH]; [reflexivity|]. rewrite IH.
  destruct k1 as [[[c n] q] o], k2 as [[[c' n'] q'] o']. cbn. eapply ht_umove; eassumption.
Qed.

Section Count.
Context {W : Type}.
Implicit Types s : st W.
Variable tb : table W.
Variable pf : nat.

Lemma out_of_core s c n q o : core_of s = (c, n, q, o) -> out s = o.
Proof. unfold core_of. intros [= _ _ _ <-]. reflexivity. Qed.

Lemma ht_pend_step h s0 : ht (out (pend_step tb h s0)) = trec h :: hrec h :: ht (out s0).
Proof.
  destruct (pend_step_shape tb h s0) as [n2 [q2 [o2 [U E]]]]. rewrite (out_of_core _ _ _ _ _ E).
  apply ht_umoves in U. cbn in U. unfold ht in *. cbn. rewrite U. reflexivity.
Qed.

Lemma ht_fire_event x t e s : clock s = t -> exists k m pi j,
  ht (out (fire_event tb x t e s)) = OTap t pi (NEv pi j) e :: OHandler k t t e (Some m) :: ht (out s).
Proof.
  intros Hc. destruct (fire_event_shape tb x t e s) as [k [m [pi [j [n2 [q2 [o2 [U E]]]]]]]].
  exists k, m, pi, j. rewrite (out_of_core _ _ _ _ _ E).
  apply ht_umoves in U. cbn in U. unfold ht in *. cbn. rewrite U, Hc. reflexivity.
Qed.

Definition ntaps_ht (l : list obs) : nat := length (filter is_tap l).
Lemma ntaps_ht_eq o : ntaps o = ntaps_ht (ht o).
Proof. unfold ntaps, ntaps_ht, ht. rewrite filter_ht_tap. reflexivity. Qed.

(* paired records and the count of taps *)
Definition CI (ev : nat) s : Prop := paired (ht (out s)) /\ ev = ntaps (out s).

Lemma run_pendingL_count fuel t : forall n s n' s' l ev, CI ev s ->
  run_pendingL tb fuel t n s = (n', s', l) -> CI (ev + length l) s' /\ n' = (n + length l)%nat.
Proof.
  induction fuel as [|f IH]; intros n s n' s' l ev HC; cbn [run_pendingL].
  - intros [= <- <- <-]. cbn. rewrite !Nat.add_0_r. split; [exact HC|reflexivity].
  - destruct (head (queue (discard s))) as [h|] eqn:Eh;
      [|intros [= <- <- <-]; cbn; rewrite !Nat.add_0_r; split; [exact HC|reflexivity]].
    destruct (Qle_bool (e_time h) t);
      [|intros [= <- <- <-]; cbn; rewrite !Nat.add_0_r; split; [exact HC|reflexivity]].
    destruct (run_pendingL tb f t (S n) _) as [[n1 s1] l1] eqn:E. intros [= <- <- <-].
    apply (IH _ _ _ _ _ (S ev)) in E.
    + destruct E as [A B]. cbn [length]. rewrite Nat.add_succ_r. split; [exact A|lia].
    + destruct HC as [P C]. unfold CI. rewrite ntaps_ht_eq, ht_pend_step. split.
      * change (out (discard s)) with (out s). unfold trec, hrec. constructor. exact P.
      * change (out (discard s)) with (out s). unfold ntaps_ht. cbn. f_equal. rewrite C, ntaps_ht_eq. reflexivity.
Qed.

Lemma CI_fire_event ev x t e s : clock s = t -> CI ev s -> CI (S ev) (fire_event tb x t e s).
Proof.
  intros Hc [P C]. destruct (ht_fire_event x t e s Hc) as [k [m [pi [j E]]]].
  unfold CI. rewrite ntaps_ht_eq, E. split; [constructor; exact P|].
  unfold ntaps_ht. cbn. f_equal. rewrite C, ntaps_ht_eq. reflexivity.
Qed.

Lemma CI_core ev s s' : core_of s' = core_of s -> CI ev s -> CI ev s'.
Proof. unfold core_of, CI. intros [= _ _ _ ->]. auto. Qed.

Lemma CI_out ev s s' : out s' = out s -> CI ev s -> CI ev s'.
Proof. unfold CI. intros ->. auto. Qed.

Lemma stoch_loopL_count fuel t ev s t' ev' s' l :
  CI ev s -> stoch_loopL tb pf fuel t ev s = (t', ev', s', l) -> CI ev' s'.
Proof.
  intros HI H.
  refine (stoch_loopL_inv tb pf (fun _ ev s _ => CI ev s) _ _ fuel t ev s [] t' ev' s' l HI H).
  - intros _ ev1 s1 _ C. exact C.
  - intros t1 ev1 s1 _ r C _ Hs.
    destruct Hs as [Hnone | | h n s2 l1 Hh Hrp | s3 nt n s4 l1 Hos Hnt Hrp | s3 nt n s4 l1 s6 x e Hos Hnt Hrp Hos6].
    + exact C.
    + exact C.
    + destruct (run_pendingL_count _ _ _ _ _ _ _ ev1 (CI_out _ _ (discard s1) eq_refl C) Hrp) as [A B]. cbn in B. subst n. exact A.
    + destruct (run_pendingL_count _ _ _ _ _ _ _ ev1 (CI_core _ _ _ (osame_core _ _ Hos) C) Hrp) as [A B].
      cbn in B. subst n. exact A.
    + destruct (run_pendingL_count _ _ _ _ _ _ _ ev1 (CI_core _ _ _ (osame_core _ _ Hos) C) Hrp) as [A B].
      cbn in B. subst n. rewrite Nat.add_succ_r. apply CI_fire_event; [rewrite (osame_clock _ _ Hos6); reflexivity|].
      apply (CI_core _ _ _ (osame_core _ _ Hos6)). exact A.
Qed.

Lemma sync_loopL_count fuel t ev k s t' ev' k' s' l :
  CI ev s -> sync_loopL tb pf fuel t ev k s = (t', ev', k', s', l) -> CI ev' s'.
Proof.
  intros HI H.
  refine (sync_loopL_inv tb pf (fun _ ev _ s _ => CI ev s) _ _ fuel t ev k s [] t' ev' k' s' l HI H).
  - intros _ ev1 _ s1 _ C. exact C.
  - intros t1 ev1 _ s1 _ nev s3 l1 C _ Hs.
    inversion Hs as [n s0 l0 s2 evs nev1 s31 Hrp Hos Hft]; subst.
    destruct (run_pendingL_count _ _ _ _ _ _ _ ev1 (CI_out _ _ (set_clock t1 s1) eq_refl C) Hrp) as [A B]. cbn in B. subst n.
    refine (proj1 (fire_tranche_inv tb t1 (fun j sx => CI (ev1 + j) sx /\ clock sx = t1) _ evs _ s2 nev s3 _ Hft)).
    + intros j sx x e [C1 Hc]. split; [rewrite Nat.add_succ_r; apply CI_fire_event; assumption|].
      rewrite fire_event_clock. exact Hc.
    + split; [apply (CI_core _ _ _ (osame_core _ _ Hos)); exact A|rewrite (osame_clock _ _ Hos); reflexivity].
Qed.

End Count.
