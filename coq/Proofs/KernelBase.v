(* Basic facts about Model/Kernel.v shared by the C03 / C04 proofs: rational helpers, the heap
   order [before], [min_entry]/[head], [remove_id], [discard_dead], projections of the state
   setters, monotonicity of [stuck]. *)
From Coq Require Import List ZArith QArith Qabs Bool Arith Lia Lqa.
From EpyV Require Import Model.Kernel.
Import ListNotations.
Open Scope Q_scope.

(* ------------------------------------------------------------------ rationals *)
Lemma Qltb_true x y : Qltb x y = true <-> x < y.
Proof.
  unfold Qltb. rewrite negb_true_iff. split; intros H.
  - apply Qnot_le_lt. intros H1. apply Qle_bool_iff in H1. congruence.
  - destruct (Qle_bool y x) eqn:E; [|reflexivity]. apply Qle_bool_iff in E. exfalso. apply (Qlt_not_le _ _ H E).
Qed.

Lemma Qltb_false x y : Qltb x y = false <-> y <= x.
Proof.
  unfold Qltb. rewrite negb_false_iff. apply Qle_bool_iff.
Qed.

Lemma Qle_bool_false x y : Qle_bool x y = false <-> y < x.
Proof.
  split; intros H.
  - apply Qnot_le_lt. intros H1. apply Qle_bool_iff in H1. congruence.
  - destruct (Qle_bool x y) eqn:E; [|reflexivity]. apply Qle_bool_iff in E. exfalso. apply (Qlt_not_le _ _ H E).
Qed.

Lemma Qcompare_Lt x y : (x ?= y) = Lt <-> x < y.
Proof. symmetry. apply Qlt_alt. Qed.
Lemma Qcompare_Gt x y : (x ?= y) = Gt <-> y < x.
Proof. symmetry. apply Qgt_alt. Qed.
Lemma Qcompare_Eq x y : (x ?= y) = Eq <-> x == y.
Proof. symmetry. apply Qeq_alt. Qed.

(* ------------------------------------------------------------------ the heap order *)
Lemma before_true a b :
  before a b = true <-> e_time a < e_time b \/ (e_time a == e_time b /\ (e_id a < e_id b)%nat).
Proof.
  unfold before. destruct (e_time a ?= e_time b) eqn:E.
  - apply Qcompare_Eq in E. rewrite Nat.ltb_lt. split; [intros H; right; split; assumption|].
    intros [H|[_ H]]; [|exact H]. rewrite E in H. exfalso. apply (Qlt_irrefl _ H).
  - apply Qcompare_Lt in E. split; [intros _; left; exact E | reflexivity].
  - apply Qcompare_Gt in E. split; [discriminate|].
    intros [H|[H _]]; exfalso.
    + apply (Qlt_irrefl (e_time a)). eapply Qlt_trans; eassumption.
    + rewrite H in E. apply (Qlt_irrefl _ E).
Qed.

Lemma before_false a b :
  before a b = false <-> e_time b < e_time a \/ (e_time a == e_time b /\ (e_id b <= e_id a)%nat).
Proof.
  unfold before. destruct (e_time a ?= e_time b) eqn:E.
  - apply Qcompare_Eq in E. rewrite Nat.ltb_ge. split; [intros H; right; split; assumption|].
    intros [H|[_ H]]; [|exact H]. rewrite E in H. exfalso. apply (Qlt_irrefl _ H).
  - apply Qcompare_Lt in E. split; [discriminate|].
    intros [H|[H _]]; exfalso.
    + apply (Qlt_irrefl (e_time a)). eapply Qlt_trans; eassumption.
    + rewrite H in E. apply (Qlt_irrefl _ E).
  - apply Qcompare_Gt in E. split; [intros _; left; exact E | reflexivity].
Qed.

Lemma before_irrefl a : before a a = false.
Proof. apply before_false. right. split; [reflexivity|lia]. Qed.

Lemma before_trans a b c : before a b = true -> before b c = true -> before a c = true.
Proof.
  rewrite !before_true. intros [H1|[H1 H1']] [H2|[H2 H2']].
  - left. lra.
  - left. lra.
  - left. lra.
  - right. split; [lra|lia].
Qed.

Lemma before_negtrans a b c : before a b = false -> before b c = false -> before a c = false.
Proof.
  rewrite !before_false. intros [H1|[H1 H1']] [H2|[H2 H2']].
  - left. lra.
  - left. lra.
  - left. lra.
  - right. split; [lra|lia].
Qed.

Lemma before_total a b : e_id a <> e_id b -> before a b = false -> before b a = true.
Proof.
  rewrite before_false, before_true. intros Hne [H|[H H']]; [left; exact H|].
  right. split; [symmetry; exact H|lia].
Qed.

Lemma before_asym a b : before a b = true -> before b a = false.
Proof.
  rewrite before_true, before_false. intros [H|[H H']]; [left; exact H|right; split; [symmetry; exact H|lia]].
Qed.

Lemma before_time_le a b : before a b = true -> e_time a <= e_time b.
Proof. rewrite before_true. intros [H|[H _]]; lra. Qed.

Lemma notbefore_time_le a b : before a b = false -> e_time b <= e_time a.
Proof. rewrite before_false. intros [H|[H _]]; lra. Qed.

(* ------------------------------------------------------------------ min_entry / head *)
Lemma min_entry_in m q : In (min_entry m q) (m :: q).
Proof.
  revert m. induction q as [|x q IH]; intros m; cbn [min_entry].
  - left. reflexivity.
  - specialize (IH (if before x m then x else m)). destruct IH as [H|H].
    + destruct (before x m); [right; left|left]; exact H.
    + right. right. exact H.
Qed.

Lemma min_entry_min m q : forall x, In x (m :: q) -> before x (min_entry m q) = false.
Proof.
  revert m. induction q as [|y q IH]; intros m x Hx; cbn [min_entry].
  - destruct Hx as [<-|[]]. apply before_irrefl.
  - pose proof (IH (if before y m then y else m)) as IH'.
    assert (Hm' : before (if before y m then y else m) (min_entry (if before y m then y else m) q) = false)
      by (apply IH'; left; reflexivity).
    destruct Hx as [<-|[<-|Hx]].
    + destruct (before y m) eqn:E; [|exact Hm'].
      destruct (before m (min_entry y q)) eqn:E2; [|reflexivity].
      rewrite (before_trans _ _ _ E E2) in Hm'. discriminate.
    + destruct (before y m) eqn:E; [exact Hm'|].
      eapply before_negtrans; eassumption.
    + apply IH'. right. exact Hx.
Qed.

Lemma head_none q : head q = None <-> q = [].
Proof. destruct q; cbn; split; congruence. Qed.

Lemma head_in q h : head q = Some h -> In h q.
Proof. destruct q as [|x q]; cbn; [discriminate|]. intros [= <-]. apply min_entry_in. Qed.

Lemma head_min q h : head q = Some h -> forall x, In x q -> before x h = false.
Proof. destruct q as [|y q]; cbn; [discriminate|]. intros [= <-]. apply min_entry_min. Qed.

(* ------------------------------------------------------------------ remove_id *)
Lemma remove_id_incl i q : incl (remove_id i q) q.
Proof.
  induction q as [|x q IH]; cbn; [intros y []|].
  destruct (e_id x =? i)%nat; [intros y H; right; exact H|].
  intros y [<-|H]; [left; reflexivity|right; apply IH; exact H].
Qed.

Lemma remove_id_keeps i q x : In x q -> e_id x <> i -> In x (remove_id i q).
Proof.
  induction q as [|y q IH]; cbn; [intros []|]. intros [<-|H] Hne.
  - destruct (Nat.eqb_spec (e_id y) i); [contradiction|left; reflexivity].
  - destruct (e_id y =? i)%nat; [exact H|right; apply IH; assumption].
Qed.

Lemma remove_id_length i q : In i (map e_id q) -> S (length (remove_id i q)) = length q.
Proof.
  induction q as [|y q IH]; cbn; [intros []|].
  destruct (Nat.eqb_spec (e_id y) i) as [E|E]; [reflexivity|].
  intros [H|H]; [contradiction|]. cbn. rewrite IH; auto.
Qed.

Lemma remove_id_NoDup i q : NoDup (map e_id q) -> NoDup (map e_id (remove_id i q)).
Proof.
  induction q as [|y q IH]; cbn; [auto|]. intros H. inversion H as [|? ? Hn Hd]; subst.
  destruct (e_id y =? i)%nat; [exact Hd|]. cbn. constructor; [|apply IH; exact Hd].
  intros Hin. apply Hn. apply in_map_iff in Hin. destruct Hin as [z [Hz Hin]].
  apply in_map_iff. exists z. split; [exact Hz|]. eapply remove_id_incl; eassumption.
Qed.

Lemma remove_id_gone i q : NoDup (map e_id q) -> ~ In i (map e_id (remove_id i q)).
Proof.
  induction q as [|y q IH]; cbn; [auto|]. intros H. inversion H as [|? ? Hn Hd]; subst.
  destruct (Nat.eqb_spec (e_id y) i) as [E|E]; [subst; exact Hn|].
  cbn. intros [H1|H1]; [contradiction|]. apply IH; assumption.
Qed.

(* with unique ids, an entry is determined by its id *)
Lemma NoDup_id_inj q x y : NoDup (map e_id q) -> In x q -> In y q -> e_id x = e_id y -> x = y.
Proof.
  induction q as [|z q IH]; cbn; [intros _ []|]. intros H Hx Hy E. inversion H as [|? ? Hn Hd]; subst.
  destruct Hx as [<-|Hx], Hy as [<-|Hy]; [reflexivity| | |apply IH; assumption].
  - exfalso. apply Hn. rewrite E. apply in_map. exact Hy.
  - exfalso. apply Hn. rewrite <- E. apply in_map. exact Hx.
Qed.

(* ------------------------------------------------------------------ discard_dead *)
Lemma discard_dead_incl f q : incl (discard_dead f q) q.
Proof.
  revert q. induction f as [|f IH]; intros q; cbn; [apply incl_refl|].
  destruct (head q) as [h|]; [|apply incl_refl].
  destruct (e_live h); [apply incl_refl|].
  eapply incl_tran; [apply IH|apply remove_id_incl].
Qed.

Lemma discard_dead_keeps_live f q x :
  NoDup (map e_id q) -> In x q -> e_live x = true -> In x (discard_dead f q).
Proof.
  revert q. induction f as [|f IH]; intros q Hnd Hx Hl; cbn; [exact Hx|].
  destruct (head q) as [h|] eqn:Eh; [|exact Hx].
  destruct (e_live h) eqn:El; [exact Hx|].
  apply IH; [apply remove_id_NoDup; exact Hnd| |exact Hl].
  apply remove_id_keeps; [exact Hx|]. intros E.
  assert (x = h) by (eapply NoDup_id_inj; eauto using head_in). subst. congruence.
Qed.

Lemma discard_dead_NoDup f q : NoDup (map e_id q) -> NoDup (map e_id (discard_dead f q)).
Proof.
  revert q. induction f as [|f IH]; intros q Hnd; cbn; [exact Hnd|].
  destruct (head q) as [h|]; [|exact Hnd].
  destruct (e_live h); [exact Hnd|]. apply IH, remove_id_NoDup, Hnd.
Qed.

(* enough fuel: the result is empty or its head is live *)
Lemma discard_dead_head f q : (length q <= f)%nat ->
  match head (discard_dead f q) with None => True | Some h => e_live h = true end.
Proof.
  revert q. induction f as [|f IH]; intros q Hlen; cbn.
  - destruct q; [exact I|cbn in Hlen; lia].
  - destruct (head q) as [h|] eqn:Eh; [|rewrite Eh; exact I].
    destruct (e_live h) eqn:El; [rewrite Eh; exact El|].
    apply IH. pose proof (remove_id_length (e_id h) q (in_map e_id _ _ (head_in _ _ Eh))). lia.
Qed.

(* ------------------------------------------------------------------ kill / find_live *)
Definition dead (x : entry) : entry :=
  {| e_time := e_time x; e_id := e_id x; e_live := false; e_proc := e_proc x; e_elem := e_elem x; e_prog := e_prog x; e_rep := e_rep x |}.

Lemma dead_of_dead x : e_live x = false -> dead x = x.
Proof. destruct x; cbn; intros ->; reflexivity. Qed.

Lemma kill_ids i q : map e_id (kill i q) = map e_id q.
Proof. unfold kill. rewrite map_map. apply map_ext. intros x. destruct (e_id x =? i)%nat; reflexivity. Qed.

Lemma kill_in i q y : In y (kill i q) ->
  (In y q /\ e_id y <> i) \/ (exists x, In x q /\ e_id x = i /\ y = dead x).
Proof.
  unfold kill. rewrite in_map_iff. intros [x [Hy Hx]].
  destruct (Nat.eqb_spec (e_id x) i) as [E|E]; subst y.
  - right. exists x. auto.
  - left. auto.
Qed.

Lemma kill_live_in i q y : In y (kill i q) -> e_live y = true -> In y q /\ e_id y <> i.
Proof.
  intros H Hl. apply kill_in in H. destruct H as [H|[x [_ [_ ->]]]]; [exact H|discriminate].
Qed.

Lemma kill_keeps i q y : In y q -> e_id y <> i -> In y (kill i q).
Proof.
  intros H E. unfold kill. apply in_map_iff. exists y. split; [|exact H].
  destruct (Nat.eqb_spec (e_id y) i); [contradiction|reflexivity].
Qed.

Lemma kill_dead_in i q x : In x q -> e_id x = i -> In (dead x) (kill i q).
Proof.
  intros H E. unfold kill. apply in_map_iff. exists x. split; [|exact H].
  subst i. rewrite Nat.eqb_refl. reflexivity.
Qed.

Lemma find_live_some i q x : find_live i q = Some x -> In x q /\ e_id x = i /\ e_live x = true.
Proof.
  unfold find_live. intros H. apply find_some in H. destruct H as [H1 H2].
  apply andb_true_iff in H2. destruct H2 as [H2 H3]. apply Nat.eqb_eq in H2. auto.
Qed.

Lemma find_live_none i q : find_live i q = None <-> (forall x, In x q -> e_id x = i -> e_live x = false).
Proof.
  unfold find_live. split.
  - intros H x Hx E. pose proof (find_none _ _ H x Hx) as H1. cbn in H1.
    rewrite E, Nat.eqb_refl in H1. exact H1.
  - intros H. destruct (find _ q) as [x|] eqn:E; [|reflexivity].
    apply find_some in E. destruct E as [E1 E2]. apply andb_true_iff in E2. destruct E2 as [E2 E3].
    apply Nat.eqb_eq in E2. rewrite (H x E1 E2) in E3. discriminate.
Qed.

Lemma find_live_kill i q : find_live i (kill i q) = None.
Proof.
  apply find_live_none. intros y Hy E. apply kill_in in Hy.
  destruct Hy as [[_ Hne]|[x [_ [_ ->]]]]; [contradiction|reflexivity].
Qed.

(* ------------------------------------------------------------------ moves on the core of the state *)
(* what the queue invariants talk about: clock, next id, queue, output (newest first) *)
Definition core : Type := Q * nat * list entry * list obs.

Definition mk_entry (t : Q) (i p : nat) (e : elem) (prog : nat) (rep : option Q) : entry :=
  {| e_time := t; e_id := i; e_live := true; e_proc := p; e_elem := e; e_prog := prog; e_rep := rep |}.

(* records that no queue invariant depends on *)
Definition neutral (x : obs) : bool :=
  match x with
  | OHandler _ _ _ _ _ | OTap _ _ _ _ | OPosted _ _ | OUnpost _ (Some (Some _)) => false
  | _ => true
  end.

(* the record a fired posted entry leaves *)
Definition hrec (x : entry) : obs := OHandler (e_prog x) (e_time x) (e_time x) (e_elem x) None.
Definition trec (x : entry) : obs := OTap (e_time x) (e_proc x) (NPost (e_prog x)) (e_elem x).

(* the successor a repeating entry posts when it fires *)
Definition succ_of (x : entry) (ddt : Q) (y : entry) : Prop :=
  y = mk_entry (Qred (e_time x + ddt)) (e_id y) (e_proc x) (e_elem x) (e_prog x) (Some ddt).

(* what user code (an action) can do to the core *)
Inductive umove : core -> core -> Prop :=
| um_emit c n q o x : neutral x = true -> umove (c, n, q, o) (c, n, q, x :: o)
| um_post c n q o t p e prog rep : c <= t ->
    umove (c, n, q, o) (c, S n, mk_entry t n p e prog rep :: q, o)
| um_posted c n q o x : In x q -> e_live x = true ->
    umove (c, n, q, o) (c, n, q, OPosted (e_id x) (e_time x) :: o)
| um_kill c n q o i x : find_live i q = Some x ->
    umove (c, n, q, o) (c, n, kill i q, OUnpost i (Some (Some (e_time x))) :: o).

Inductive umoves : core -> core -> Prop :=
| us_refl k : umoves k k
| us_step k1 k2 k3 : umove k1 k2 -> umoves k2 k3 -> umoves k1 k3.

Lemma umoves_trans k1 k2 k3 : umoves k1 k2 -> umoves k2 k3 -> umoves k1 k3.
Proof. induction 1; [auto|]. intros H3. eapply us_step; eauto. Qed.

Lemma umoves_one k1 k2 : umove k1 k2 -> umoves k1 k2.
Proof. intros H. eapply us_step; [exact H|apply us_refl]. Qed.

Lemma umoves_clock k k' : umoves k k' -> fst (fst (fst k')) = fst (fst (fst k)).
Proof. induction 1 as [|k1 k2 k3 H _ IH]; [reflexivity|]. rewrite IH. destruct H; reflexivity. Qed.

(* what the kernel does: user moves, discarding dead heads, setting the clock, firing the live
   head (pop, handler record, user moves, tap), firing a stochastic event (handler record at
   the clock, user moves, tap at the clock).  The middle argument lists the entries fired. *)
Inductive kmove : core -> list entry -> core -> Prop :=
| km_u k k' : umoves k k' -> kmove k [] k'
| km_discard c n q o f : kmove (c, n, q, o) [] (c, n, discard_dead f q, o)
| km_clock c n q o c' : kmove (c, n, q, o) [] (c', n, q, o)
| km_posted c n q o h n2 q2 o2 : head q = Some h -> e_live h = true ->
    umoves (e_time h, n, remove_id (e_id h) q, hrec h :: o) (e_time h, n2, q2, o2) ->
    (forall ddt, e_rep h = Some ddt -> 0 <= ddt -> exists y, succ_of h ddt y /\ In y q2) ->
    kmove (c, n, q, o) [h] (e_time h, n2, q2, trec h :: o2)
| km_event c n q o k e m pi j n2 q2 o2 :
    umoves (c, n, q, OHandler k c c e (Some m) :: o) (c, n2, q2, o2) ->
    kmove (c, n, q, o) [] (c, n2, q2, OTap c pi (NEv pi j) e :: o2).

Inductive kmoves : core -> list entry -> core -> Prop :=
| ks_refl k : kmoves k [] k
| ks_step k1 l1 k2 l2 k3 : kmove k1 l1 k2 -> kmoves k2 l2 k3 -> kmoves k1 (l1 ++ l2) k3.

Lemma kmoves_trans k1 l1 k2 l2 k3 : kmoves k1 l1 k2 -> kmoves k2 l2 k3 -> kmoves k1 (l1 ++ l2) k3.
Proof.
  induction 1 as [|k1 l1 k2 l2' k3' H _ IH]; [auto|]. intros H3. rewrite <- app_assoc.
  eapply ks_step; eauto.
Qed.

Lemma kmoves_one k1 l k2 : kmove k1 l k2 -> kmoves k1 l k2.
Proof. intros H. rewrite <- (app_nil_r l). eapply ks_step; [exact H|apply ks_refl]. Qed.

Lemma kmoves_u k k' : umoves k k' -> kmoves k [] k'.
Proof. intros H. apply kmoves_one, km_u, H. Qed.

(* ------------------------------------------------------------------ the model makes these moves *)
Section K.
Context {W : Type}.
Implicit Types s : st W.

Definition core_of s : core := (clock s, nextid s, queue s, out s).

Definition wf s : Prop := NoDup (map e_id (queue s)) /\ Forall (fun x => (e_id x < nextid s)%nat) (queue s).

Lemma Qred_pred_lt c : Qltb (Qred (c - 1)) c = true.
Proof. apply Qltb_true. rewrite Qred_correct. lra. Qed.

Lemma do_action_umoves p t e a s : umoves (core_of s) (core_of (do_action p t e a s)).
Proof.
  unfold core_of. destruct a; cbn [do_action].
  - unfold post. destruct (Qltb (Qred (t + dt)) (clock s)) eqn:E.
    + apply umoves_one. cbn. apply um_emit. reflexivity.
    + apply Qltb_false in E. cbn. eapply us_step; [apply (um_post _ _ _ _ (Qred (t + dt)) p e prog None E)|].
      apply umoves_one. apply (um_posted _ _ _ _ (mk_entry (Qred (t + dt)) (nextid s) p e prog None)); [left|]; reflexivity.
  - unfold post. destruct (Qltb (Qred (t + dt)) (clock s)) eqn:E.
    + apply umoves_one. cbn. apply um_emit. reflexivity.
    + apply Qltb_false in E. cbn. eapply us_step; [apply (um_post _ _ _ _ (Qred (t + dt)) p x prog None E)|].
      apply umoves_one. apply (um_posted _ _ _ _ (mk_entry (Qred (t + dt)) (nextid s) p x prog None)); [left|]; reflexivity.
  - unfold post. destruct (Qltb (Qred (t + dt0)) (clock s)) eqn:E.
    + apply umoves_one. cbn. apply um_emit. reflexivity.
    + apply Qltb_false in E. cbn. eapply us_step; [apply (um_post _ _ _ _ (Qred (t + dt0)) p e prog (Some ddt) E)|].
      apply umoves_one. apply um_emit. reflexivity.
  - unfold post. rewrite Qred_pred_lt. apply umoves_one. cbn. apply um_emit. reflexivity.
  - destruct (ids s) as [|i0 l0]; [apply us_refl|].
    destruct (find_live _ (queue s)) as [x|] eqn:E; cbn.
    + apply umoves_one. apply um_kill. exact E.
    + apply umoves_one. apply um_emit. destruct fatal; reflexivity.
  - destruct (ids s) as [|i0 l0]; [apply us_refl|]. cbn. apply umoves_one, um_emit. reflexivity.
  - cbn. apply us_refl.
  - cbn. apply us_refl.
  - cbn. apply us_refl.
  - cbn. apply us_refl.
  - cbn. apply umoves_one, um_emit. reflexivity.
Qed.

Lemma do_action_stuck p t e a s : stuck (do_action p t e a s) = stuck s.
Proof.
  destruct a; cbn [do_action]; try reflexivity;
    try (unfold post; destruct (Qltb _ _); reflexivity).
  - destruct (ids s); [reflexivity|]. destruct (find_live _ _); reflexivity.
  - destruct (ids s); reflexivity.
Qed.

Lemma run_actions_umoves p t e acts s : umoves (core_of s) (core_of (run_actions p t e acts s)).
Proof.
  unfold run_actions. revert s. induction acts as [|a acts IH]; intros s; cbn [fold_left]; [apply us_refl|].
  eapply umoves_trans; [apply do_action_umoves|apply IH].
Qed.

Lemma run_actions_stuck p t e acts s : stuck (run_actions p t e acts s) = stuck s.
Proof.
  unfold run_actions. revert s. induction acts as [|a acts IH]; intros s; cbn [fold_left]; [reflexivity|].
  rewrite IH. apply do_action_stuck.
Qed.

Lemma run_prog_umoves tb p k t e s : umoves (core_of s) (core_of (run_prog tb p k t e s)).
Proof.
  unfold run_prog. destruct (prog_of tb k t e (loci s) (world s)) as [w acts].
  apply (run_actions_umoves p t e acts (set_world w s)).
Qed.

Lemma run_prog_stuck tb p k t e s : stuck (run_prog tb p k t e s) = stuck s.
Proof.
  unfold run_prog. destruct (prog_of tb k t e (loci s) (world s)) as [w acts].
  rewrite run_actions_stuck. reflexivity.
Qed.

Lemma core_clock s s' : umoves (core_of s) (core_of s') -> clock s' = clock s.
Proof. intros H. apply umoves_clock in H. exact H. Qed.

(* the posted handler: record, program, possibly the successor of a repeating event *)
Lemma fire_umoves tb x s :
  umoves (clock s, nextid s, queue s, OHandler (e_prog x) (e_time x) (clock s) (e_elem x) None :: out s)
         (core_of (fire tb x s)).
Proof.
  unfold fire.
  set (s1 := emit (OHandler (e_prog x) (e_time x) (clock s) (e_elem x) None) s).
  change (umoves (core_of s1) (core_of (match e_rep x with
      | Some ddt => match post (Qred (e_time x + ddt)) (e_proc x) (e_elem x) (e_prog x) (Some ddt)
                            (run_prog tb (e_proc x) (e_prog x) (e_time x) (e_elem x) s1) with
                    | (Some _, s3) => s3 | (None, s3) => emit OValueError s3 end
      | None => run_prog tb (e_proc x) (e_prog x) (e_time x) (e_elem x) s1 end))).
  pose proof (run_prog_umoves tb (e_proc x) (e_prog x) (e_time x) (e_elem x) s1) as H.
  set (s2 := run_prog tb (e_proc x) (e_prog x) (e_time x) (e_elem x) s1) in *.
  destruct (e_rep x) as [ddt|]; [|exact H].
  eapply umoves_trans; [exact H|]. unfold post, core_of.
  destruct (Qltb (Qred (e_time x + ddt)) (clock s2)) eqn:E.
  - apply umoves_one. cbn. apply um_emit. reflexivity.
  - apply Qltb_false in E. cbn. apply umoves_one. apply (um_post _ _ _ _ _ _ _ _ _ E).
Qed.

Lemma fire_succ tb x s ddt : e_rep x = Some ddt -> 0 <= ddt -> clock s <= e_time x ->
  exists y, succ_of x ddt y /\ In y (queue (fire tb x s)).
Proof.
  intros Hr Hd Hc. unfold fire. rewrite Hr.
  set (s1 := emit (OHandler (e_prog x) (e_time x) (clock s) (e_elem x) None) s).
  pose proof (core_clock _ _ (run_prog_umoves tb (e_proc x) (e_prog x) (e_time x) (e_elem x) s1)) as Hc2.
  set (s2 := run_prog tb (e_proc x) (e_prog x) (e_time x) (e_elem x) s1) in *.
  unfold post. assert (E : Qltb (Qred (e_time x + ddt)) (clock s2) = false).
  { apply Qltb_false. rewrite Hc2, Qred_correct. subst s1. cbn [clock emit]. lra. }
  rewrite E. cbn [queue]. eexists. split; [|left; reflexivity]. reflexivity.
Qed.

Lemma fire_stuck tb x s : stuck (fire tb x s) = stuck s.
Proof.
  unfold fire. destruct (e_rep x) as [ddt|]; [|rewrite run_prog_stuck; reflexivity].
  unfold post. destruct (Qltb _ _); cbn; rewrite run_prog_stuck; reflexivity.
Qed.

Lemma fire_clock tb x s : clock (fire tb x s) = clock s.
Proof. pose proof (umoves_clock _ _ (fire_umoves tb x s)) as H. exact H. Qed.

Lemma fire_event_kmove tb x t e s : clock s = t ->
  kmove (core_of s) [] (core_of (fire_event tb x t e s)).
Proof.
  intros Ht. destruct x as [[pi j] ev]. unfold fire_event.
  set (s1 := emit _ s).
  pose proof (run_prog_umoves tb pi (ev_prog ev) t e s1) as H.
  pose proof (core_clock _ _ H) as Hc.
  unfold core_of in *. cbn [clock nextid queue out emit] in *. rewrite Hc in *. subst s1. cbn [clock nextid queue out emit] in *.
  subst t. eapply km_event. exact H.
Qed.

Lemma fire_event_clock tb x t e s : clock (fire_event tb x t e s) = clock s.
Proof.
  destruct x as [[pi j] ev]. unfold fire_event. cbn [clock emit].
  rewrite (core_clock _ _ (run_prog_umoves tb pi (ev_prog ev) t e _)). reflexivity.
Qed.

Lemma fire_event_stuck tb x t e s : stuck (fire_event tb x t e s) = stuck s.
Proof. destruct x as [[pi j] ev]. unfold fire_event. cbn. rewrite run_prog_stuck. reflexivity. Qed.

(* ------------------------------------------------------------------ instrumented run_pending *)
Definition pend_step (tb : table W) (h : entry) (s0 : st W) : st W :=
  emit (trec h) (fire tb h (set_clock (e_time h) (set_queue (remove_id (e_id h) (queue s0)) s0))).

(* run_pending, also returning the entries fired, in order *)
Fixpoint run_pendingL (tb : table W) (fuel : nat) (t : Q) (n : nat) (s : st W) : nat * st W * list entry :=
  match fuel with
  | O => (n, set_stuck s, [])
  | S f =>
      let s0 := discard s in
      match head (queue s0) with
      | None => (n, s0, [])
      | Some h =>
          if Qle_bool (e_time h) t then
            let '(n', s', l) := run_pendingL tb f t (S n) (pend_step tb h s0) in (n', s', h :: l)
          else (n, s0, [])
      end
  end.

Lemma run_pendingL_fst tb fuel t n s : fst (run_pendingL tb fuel t n s) = run_pending tb fuel t n s.
Proof.
  revert n s. induction fuel as [|f IH]; intros n s; cbn [run_pendingL run_pending]; [reflexivity|].
  destruct (head (queue (discard s))) as [h|]; [|reflexivity].
  destruct (Qle_bool (e_time h) t); [|reflexivity].
  rewrite <- IH. unfold pend_step, trec.
  destruct (run_pendingL tb f t (S n) _) as [[n' s'] l]. reflexivity.
Qed.

Lemma discard_head_live s h : head (queue (discard s)) = Some h -> e_live h = true.
Proof.
  intros H. pose proof (discard_dead_head (length (queue s)) (queue s) (le_n _)) as H1.
  unfold discard in H. cbn in H. rewrite H in H1. exact H1.
Qed.

Lemma pend_step_kmove tb h s0 : head (queue s0) = Some h -> e_live h = true ->
  kmove (core_of s0) [h] (core_of (pend_step tb h s0)).
Proof.
  intros Hh Hl. unfold pend_step.
  set (s1 := set_clock (e_time h) (set_queue (remove_id (e_id h) (queue s0)) s0)).
  pose proof (fire_umoves tb h s1) as H. pose proof (fire_clock tb h s1) as Hc.
  unfold core_of in *. cbn [clock nextid queue out emit] in *.
  subst s1. cbn [clock nextid queue out set_clock set_queue] in *. rewrite Hc in *.
  apply (km_posted _ _ _ _ h _ _ _ Hh Hl H).
  intros ddt Hr Hd. apply (fire_succ tb h _ ddt Hr Hd). cbn. lra.
Qed.

(* the same two facts as equations on the core, for invariants that constrain clock changes *)
Lemma pend_step_shape tb h s0 : exists n2 q2 o2,
  umoves (e_time h, nextid s0, remove_id (e_id h) (queue s0), hrec h :: out s0) (e_time h, n2, q2, o2)
  /\ core_of (pend_step tb h s0) = (e_time h, n2, q2, trec h :: o2).
Proof.
  unfold pend_step.
  set (s1 := set_clock (e_time h) (set_queue (remove_id (e_id h) (queue s0)) s0)).
  pose proof (fire_umoves tb h s1) as H. pose proof (fire_clock tb h s1) as Hc.
  exists (nextid (fire tb h s1)), (queue (fire tb h s1)), (out (fire tb h s1)).
  unfold core_of in *. cbn [clock nextid queue out emit] in *.
  subst s1. cbn [clock nextid queue out set_clock set_queue] in *. rewrite Hc in *.
  split; [exact H|reflexivity].
Qed.

Lemma fire_event_shape tb x t e s : exists k m pi j n2 q2 o2,
  umoves (clock s, nextid s, queue s, OHandler k t (clock s) e (Some m) :: out s) (clock s, n2, q2, o2)
  /\ core_of (fire_event tb x t e s) = (clock s, n2, q2, OTap t pi (NEv pi j) e :: o2).
Proof.
  destruct x as [[pi j] ev]. unfold fire_event.
  set (s1 := emit _ s).
  pose proof (run_prog_umoves tb pi (ev_prog ev) t e s1) as H.
  pose proof (core_clock _ _ H) as Hc.
  exists (ev_prog ev), (mem e (locus s (ev_locus ev))), pi, j.
  exists (nextid (run_prog tb pi (ev_prog ev) t e s1)), (queue (run_prog tb pi (ev_prog ev) t e s1)),
         (out (run_prog tb pi (ev_prog ev) t e s1)).
  unfold core_of in *. cbn [clock nextid queue out emit] in *. rewrite Hc in *. subst s1.
  cbn [clock nextid queue out emit] in *. split; [exact H|reflexivity].
Qed.

Lemma discard_dead_fix f q :
  match head q with None => True | Some h => e_live h = true end -> discard_dead f q = q.
Proof. destruct f as [|f]; cbn; [reflexivity|]. destruct (head q) as [h|]; [intros ->|]; reflexivity. Qed.

Lemma discard_discard s : discard (discard s) = discard s.
Proof.
  unfold discard at 1. cbn [queue set_queue discard]. unfold discard. cbn.
  rewrite discard_dead_fix; [reflexivity|]. apply discard_dead_head. apply le_n.
Qed.

Lemma run_pendingL_kmoves tb fuel t n s : forall n' s' l,
  run_pendingL tb fuel t n s = (n', s', l) -> kmoves (core_of s) l (core_of s').
Proof.
  revert n s. induction fuel as [|f IH]; intros n s n' s' l; cbn [run_pendingL].
  - intros [= <- <- <-]. apply ks_refl.
  - assert (Hd : kmoves (core_of s) [] (core_of (discard s))) by (apply kmoves_one, km_discard).
    destruct (head (queue (discard s))) as [h|] eqn:Eh; [|intros [= <- <- <-]; exact Hd].
    destruct (Qle_bool (e_time h) t); [|intros [= <- <- <-]; exact Hd].
    destruct (run_pendingL tb f t (S n) _) as [[n1 s1] l1] eqn:E. intros [= <- <- <-].
    apply (kmoves_trans _ [] _ (h :: l1) _ Hd).
    apply (ks_step _ [h] _ l1 _ (pend_step_kmove tb h _ Eh (discard_head_live _ _ Eh))).
    eapply IH. exact E.
Qed.

End K.
