(* Frame property over the write summaries of Model/Sequence.v: an event of one instance
   leaves every attribute and every locus that is named for another instance untouched. *)
From Coq Require Import List ZArith QArith Bool Arith String Ascii Lia.
From EpyV Require Import Model.Kernel Model.Sequence Proofs.Sequence Proofs.SequenceNames.
Import ListNotations.
Close Scope Q_scope.
Open Scope list_scope.

Lemma selem_eqb_eq (a b : elem) : elem_eqb a b = true <-> a = b.
Proof.
  destruct a as [x|x1 x2], b as [y|y1 y2]; simpl; try (split; [discriminate|congruence]).
  - rewrite Z.eqb_eq. split; congruence.
  - rewrite andb_true_iff, !Z.eqb_eq. split; [intros [-> ->]; reflexivity|intro H; injection H; auto].
Qed.

Lemma key_eqb_eq (a b : string * elem) : key_eqb a b = true <-> a = b.
Proof.
  unfold key_eqb. destruct a as [a1 a2], b as [b1 b2]; simpl.
  rewrite andb_true_iff, String.eqb_eq, selem_eqb_eq. split; [intros [-> ->]; reflexivity|intro H; injection H; auto].
Qed.

Lemma attr_get_set k k' v l :
  attr_get k (attr_set k' v l) = if key_eqb k k' then Some v else attr_get k l.
Proof.
  induction l as [|[k0 v0] l IH]; simpl.
  - destruct (key_eqb k k'); reflexivity.
  - destruct (key_eqb k' k0) eqn:E; simpl.
    + apply key_eqb_eq in E. subst k0. destruct (key_eqb k k'); reflexivity.
    + destruct (key_eqb k k0) eqn:E0.
      * apply key_eqb_eq in E0. subst k0. destruct (key_eqb k k') eqn:E1; [|reflexivity].
        apply key_eqb_eq in E1. subst k'. assert (key_eqb k k = true) by (apply key_eqb_eq; reflexivity). congruence.
      * exact IH.
Qed.

(* ------------------------------------------------------------------ the general frame *)
(* an attribute name the event may not write keeps its value on every element *)
Theorem frame_attrs (inst : option string) (fn : string) (stems : list string) (ws : list write) (w : sworld) :
  (forall x, In x ws -> within_summary fn stems x = true) ->
  forall a e, ~ In a (may_change_attrs inst fn) ->
  attr_get (a, e) (sw_attrs (apply_writes inst ws w)) = attr_get (a, e) (sw_attrs w).
Proof.
  unfold apply_writes. revert w. induction ws as [|x ws IH]; intros w Hws a e Ha; simpl; [reflexivity|].
  rewrite IH; [|intros y Hy; apply Hws; right; exact Hy|exact Ha].
  specialize (Hws x (or_introl eq_refl)). destruct x as [v e' val|stem content]; simpl; [|reflexivity].
  rewrite attr_get_set. destruct (key_eqb (a, e) (var_name inst v, e')) eqn:E; [|reflexivity].
  exfalso. apply key_eqb_eq in E. injection E as E _. apply Ha. subst a.
  unfold may_change_attrs. simpl in Hws. apply existsb_exists in Hws. destruct Hws as (v' & Hv' & Ev).
  assert (v = v').
  { destruct v, v'; simpl in Ev; try discriminate; apply String.eqb_eq in Ev; congruence. }
  subst v'. apply in_map, Hv'.
Qed.

(* a locus the event may not touch keeps its contents *)
Theorem frame_loci (inst : option string) (fn : string) (stems : list string) (ws : list write) (w : sworld) :
  (forall x, In x ws -> within_summary fn stems x = true) ->
  forall n, ~ In n (may_change_loci inst stems) ->
  locus_get n (apply_writes inst ws w) = locus_get n w.
Proof.
  unfold apply_writes. revert w. induction ws as [|x ws IH]; intros w Hws n Hn; simpl; [reflexivity|].
  rewrite IH; [|intros y Hy; apply Hws; right; exact Hy|exact Hn].
  specialize (Hws x (or_introl eq_refl)). destruct x as [v e' val|stem content]; simpl; [reflexivity|].
  unfold locus_get. simpl. rewrite dict_get_set.
  destruct (String.eqb n (decorated_name inst stem)) eqn:E; [|reflexivity].
  exfalso. apply String.eqb_eq in E. apply Hn. subst n. simpl in Hws.
  apply existsb_exists in Hws. destruct Hws as (s & Hs & Es). apply String.eqb_eq in Es. subst s.
  unfold may_change_loci. apply in_map, Hs.
Qed.

(* ------------------------------------------------------------------ other instances *)
Lemma write_summary_stems fn v : In v (write_summary fn) ->
  match v with Own s => has_at s = false | Shared n => In n shared_vars end.
Proof.
  unfold write_summary. destruct (String.eqb fn "infect").
  - simpl. intros [<-|[<-|[<-|[<-|[<-|[<-|[]]]]]]]; simpl; auto.
  - destruct (String.eqb fn "remove" || String.eqb fn "recover" || String.eqb fn "resuscept"); [|intros []].
    simpl. intros [<-|[]]. reflexivity.
Qed.

(* a state variable of another instance j is outside the write set of an event of i *)
Lemma other_instance_attr (i j : option string) (fn stem : string) :
  i <> j -> has_at stem = false -> ~ In (state_variable j stem) shared_vars ->
  ~ In (state_variable j stem) (may_change_attrs i fn).
Proof.
  intros Hij Hstem Hshared Hin. unfold may_change_attrs in Hin. apply in_map_iff in Hin.
  destruct Hin as (v & Ev & Hv). pose proof (write_summary_stems fn v Hv) as Hk.
  destruct v as [s|n]; simpl in Ev.
  - unfold state_variable in Ev. apply decorated_inj in Ev; [|assumption..]. destruct Ev as [_ Ev]. congruence.
  - apply Hshared. rewrite <- Ev. exact Hk.
Qed.

Lemma shared_vars_no_at n : In n shared_vars -> has_at n = false.
Proof. simpl. intros [<-|[<-|[<-|[<-|[]]]]]; reflexivity. Qed.

(* for a named instance j the side condition on the shared names holds by itself *)
Lemma named_not_shared (j stem : string) : ~ In (state_variable (Some j) stem) shared_vars.
Proof.
  intro H. apply shared_vars_no_at in H. unfold state_variable in H. rewrite has_at_decorated in H. discriminate.
Qed.

Theorem frame_other_instance (i j : option string) (fn : string) (stems : list string) (ws : list write) (w : sworld) :
  i <> j ->
  (forall x, In x ws -> within_summary fn stems x = true) ->
  (forall s, In s stems -> has_at s = false) ->
  (forall stem e, has_at stem = false -> ~ In (state_variable j stem) shared_vars ->
     attr_get (state_variable j stem, e) (sw_attrs (apply_writes i ws w)) = attr_get (state_variable j stem, e) (sw_attrs w))
  /\ (forall stem, has_at stem = false ->
     locus_get (decorated_name j stem) (apply_writes i ws w) = locus_get (decorated_name j stem) w).
Proof.
  intros Hij Hws Hstems. split.
  - intros stem e Hstem Hshared. apply (frame_attrs i fn stems ws w Hws).
    apply other_instance_attr; assumption.
  - intros stem Hstem. apply (frame_loci i fn stems ws w Hws).
    intro Hin. unfold may_change_loci in Hin. apply in_map_iff in Hin. destruct Hin as (s & Es & Hs).
    apply decorated_inj in Es; [|apply Hstems, Hs|exact Hstem]. destruct Es as [_ Es]. congruence.
Qed.
