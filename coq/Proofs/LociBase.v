(* Basic facts about the executable model Model/Loci.v: list-sets, dispatch through the
   registration table, adjacency, matches. *)
From Coq Require Import List ZArith Bool Arith Lia.
From EpyV Require Import Model.Loci.
Import ListNotations.

(* ---------- elements ---------- *)
Lemma elem_eqb_eq : forall x y, elem_eqb x y = true <-> x = y.
Proof.
  intros [a|a b] [c|c d]; cbn; split; intro H; try discriminate; try congruence.
  - apply Z.eqb_eq in H. congruence.
  - inversion H. apply Z.eqb_refl.
  - apply andb_true_iff in H. destruct H as [H1 H2]. apply Z.eqb_eq in H1, H2. congruence.
  - inversion H. rewrite !Z.eqb_refl. reflexivity.
Qed.

Lemma elem_eqb_neq : forall x y, elem_eqb x y = false <-> x <> y.
Proof.
  intros x y. split.
  - intros H E. apply elem_eqb_eq in E. congruence.
  - intro H. destruct (elem_eqb x y) eqn:E; [|reflexivity]. apply elem_eqb_eq in E. contradiction.
Qed.

Lemma elem_dec : forall x y : elem, {x = y} + {x <> y}.
Proof. intros x y. destruct (elem_eqb x y) eqn:E; [left; apply elem_eqb_eq; exact E | right; apply elem_eqb_neq; exact E]. Qed.

Lemma zmem_In : forall c l, zmem c l = true <-> In c l.
Proof.
  intros c l. unfold zmem. rewrite existsb_exists. split.
  - intros [x [Hx He]]. apply Z.eqb_eq in He. subst. exact Hx.
  - intro H. exists c. split; [exact H | apply Z.eqb_refl].
Qed.

Lemma zmem_false : forall c l, zmem c l = false <-> ~ In c l.
Proof.
  intros c l. split.
  - intros H HI. apply zmem_In in HI. congruence.
  - intro H. destruct (zmem c l) eqn:E; [|reflexivity]. apply zmem_In in E. contradiction.
Qed.

Lemma znodup_In : forall c l, In c (znodup l) <-> In c l.
Proof.
  intros c l. induction l as [|x t IH]; cbn; [tauto|].
  destruct (zmem x t) eqn:E.
  - rewrite IH. split; [tauto|]. intros [H|H]; [subst; apply zmem_In; exact E | exact H].
  - cbn. rewrite IH. tauto.
Qed.

Lemma lmem_In : forall x l, lmem x l = true <-> In x l.
Proof.
  intros x l. unfold lmem. rewrite existsb_exists. split.
  - intros [y [Hy He]]. apply elem_eqb_eq in He. subst. exact Hy.
  - intro H. exists x. split; [exact H | apply elem_eqb_eq; reflexivity].
Qed.

Lemma ladd_In : forall x l y, In y (ladd x l) <-> In y l \/ y = x.
Proof.
  intros x l y. unfold ladd. destruct (lmem x l) eqn:E.
  - apply lmem_In in E. split; [tauto|]. intros [H|H]; [exact H | subst; exact E].
  - rewrite in_app_iff. cbn. split; [intros [H|[H|[]]]; [left; exact H | right; congruence] | intros [H|H]; [left; exact H | right; left; congruence]].
Qed.

Lemma ladd_NoDup : forall x l, NoDup l -> NoDup (ladd x l).
Proof.
  intros x l H. unfold ladd. destruct (lmem x l) eqn:E; [exact H|].
  assert (Hn : ~ In x l) by (intro HI; apply lmem_In in HI; congruence).
  clear E. induction H as [|a t Ha Ht IH]; cbn.
  - constructor; [intros []|constructor].
  - constructor.
    + rewrite in_app_iff. cbn. intros [H1|[H1|[]]]; [contradiction | subst; apply Hn; left; reflexivity].
    + apply IH. intro HI. apply Hn. right. exact HI.
Qed.

Lemma ldiscard_In : forall x l y, In y (ldiscard x l) <-> In y l /\ y <> x.
Proof.
  intros x l y. unfold ldiscard. rewrite filter_In. split; intros [H1 H2]; split; try exact H1.
  - intro HE. subst. rewrite (proj2 (elem_eqb_eq x x) eq_refl) in H2. discriminate.
  - apply negb_true_iff, elem_eqb_neq. congruence.
Qed.

Lemma ldiscard_NoDup : forall x l, NoDup l -> NoDup (ldiscard x l).
Proof. intros x l H. unfold ldiscard. apply NoDup_filter. exact H. Qed.

Lemma enodup_In : forall x l, In x (enodup l) <-> In x l.
Proof.
  intros x l. induction l as [|a t IH]; cbn; [tauto|].
  destruct (lmem a t) eqn:E.
  - rewrite IH. split; [tauto|]. intros [H|H]; [subst; apply lmem_In; exact E | exact H].
  - cbn. rewrite IH. tauto.
Qed.

Lemma enodup_NoDup : forall l, NoDup (enodup l).
Proof.
  induction l as [|a t IH]; cbn; [constructor|].
  destruct (lmem a t) eqn:E; [exact IH|].
  constructor; [|exact IH]. rewrite enodup_In. intro H. apply lmem_In in H. congruence.
Qed.

(* ---------- iterating a handler ---------- *)
Definition adds (h : list elem -> list elem) (A : elem -> Prop) : Prop :=
  (forall l x, In x (h l) <-> In x l \/ A x) /\ (forall l, NoDup l -> NoDup (h l)).
Definition drops (h : list elem -> list elem) (D : elem -> Prop) : Prop :=
  (forall l x, In x (h l) <-> In x l /\ ~ D x) /\ (forall l, NoDup l -> NoDup (h l)).

Lemma iter_adds : forall h A, adds h A -> forall k l x,
  In x (Nat.iter k h l) <-> In x l \/ (k <> 0 /\ A x).
Proof.
  intros h A [HA _] k l x. induction k as [|k IH]; cbn.
  - split; [tauto|]. intros [H|[H _]]; [exact H | congruence].
  - rewrite HA, IH. split.
    + intros [[H|[_ H]]|H]; [left; exact H | right; split; [discriminate|exact H] | right; split; [discriminate|exact H]].
    + intros [H|[_ H]]; [left; left; exact H | right; exact H].
Qed.

Lemma iter_drops : forall h D, drops h D -> forall k l x,
  In x (Nat.iter k h l) <-> In x l /\ (k = 0 \/ ~ D x).
Proof.
  intros h D [HD _] k l x. induction k as [|k IH]; cbn.
  - split; [intro H; split; [exact H | left; reflexivity] | tauto].
  - rewrite HD, IH. split.
    + intros [[H _] H2]. split; [exact H | right; exact H2].
    + intros [H [H2|H2]]; [discriminate|]. split; [split; [exact H | right; exact H2] | exact H2].
Qed.

Lemma iter_NoDup : forall (h : list elem -> list elem), (forall l, NoDup l -> NoDup (h l)) ->
  forall k l, NoDup l -> NoDup (Nat.iter k h l).
Proof. intros h H k l Hl. induction k as [|k IH]; cbn; [exact Hl | apply H; exact IH]. Qed.

Lemma adds_id : adds (fun l => l) (fun _ => False).
Proof. split; [intros; tauto | auto]. Qed.
Lemma drops_id : drops (fun l => l) (fun _ => False).
Proof. split; [intros; tauto | auto]. Qed.

(* a fold of drop steps *)
Lemma fold_drops : forall (B : Type) (step : list elem -> B -> list elem) (D : B -> elem -> Prop),
  (forall b, drops (fun l => step l b) (D b)) ->
  forall bs l x, In x (fold_left step bs l) <-> In x l /\ forall b, In b bs -> ~ D b x.
Proof.
  intros B step D H bs. induction bs as [|b t IH]; intros l x; cbn.
  - split; [intro Hx; split; [exact Hx | intros b []] | tauto].
  - rewrite IH. destruct (H b) as [Hb _]. rewrite Hb. split.
    + intros [[H1 H2] H3]. split; [exact H1|]. intros b' [E|Hb']; [subst; exact H2 | apply H3; exact Hb'].
    + intros [H1 H2]. split; [split; [exact H1 | apply H2; left; reflexivity] | intros b' Hb'; apply H2; right; exact Hb'].
Qed.

Lemma fold_adds : forall (B : Type) (step : list elem -> B -> list elem) (A : B -> elem -> Prop),
  (forall b, adds (fun l => step l b) (A b)) ->
  forall bs l x, In x (fold_left step bs l) <-> In x l \/ exists b, In b bs /\ A b x.
Proof.
  intros B step A H bs. induction bs as [|b t IH]; intros l x; cbn.
  - split; [tauto | intros [Hx|[b [[] _]]]; exact Hx].
  - rewrite IH. destruct (H b) as [Hb _]. rewrite Hb. split.
    + intros [[H1|H1]|[b' [H1 H2]]]; [left; exact H1 | right; exists b; split; [left; reflexivity | exact H1] | right; exists b'; split; [right; exact H1 | exact H2]].
    + intros [H1|[b' [[E|H1] H2]]]; [left; left; exact H1 | subst; left; right; exact H2 | right; exists b'; split; assumption].
Qed.

Lemma fold_NoDup : forall (B : Type) (step : list elem -> B -> list elem),
  (forall b l, NoDup l -> NoDup (step l b)) -> forall bs l, NoDup l -> NoDup (fold_left step bs l).
Proof. intros B step H bs. induction bs as [|b t IH]; intros l Hl; cbn; [exact Hl | apply IH, H, Hl]. Qed.

(* ---------- dispatch through the registration table ---------- *)
Lemma upd_nth_length : forall A i (f : A -> A) l, length (upd_nth i f l) = length l.
Proof. intros A i f l. revert i. induction l as [|x t IH]; intros [|i]; cbn; try reflexivity. rewrite IH. reflexivity. Qed.

Lemma upd_nth_nth : forall A (d : A) i f l j, j < length l ->
  nth j (upd_nth i f l) d = if Nat.eqb j i then f (nth j l d) else nth j l d.
Proof.
  intros A d i f l. revert i. induction l as [|x t IH]; intros i j Hj; cbn in Hj; [lia|].
  destruct i as [|i]; destruct j as [|j]; cbn; try reflexivity.
  apply IH. lia.
Qed.

Fixpoint cnt (i : nat) (l : list nat) : nat :=
  match l with [] => 0 | x :: t => (if Nat.eqb i x then 1 else 0) + cnt i t end.

Lemma cnt_app : forall i a b, cnt i (a ++ b) = cnt i a + cnt i b.
Proof. intros i a b. induction a as [|x t IH]; cbn; [reflexivity | rewrite IH; lia]. Qed.

Lemma fold_upd_length : forall A (g : nat -> A -> A) is (L : list A),
  length (fold_left (fun L i => upd_nth i (g i) L) is L) = length L.
Proof. intros A g is. induction is as [|i t IH]; intros L; cbn; [reflexivity | rewrite IH, upd_nth_length; reflexivity]. Qed.

Lemma iter_succ_r : forall A (f : A -> A) k x, Nat.iter (S k) f x = Nat.iter k f (f x).
Proof. intros A f k x. induction k as [|k IH]; cbn; [reflexivity|]. cbn in IH. rewrite IH. reflexivity. Qed.

Lemma fold_upd_nth : forall A (d : A) (g : nat -> A -> A) is (L : list A) j, j < length L ->
  nth j (fold_left (fun L i => upd_nth i (g i) L) is L) d = Nat.iter (cnt j is) (g j) (nth j L d).
Proof.
  intros A d g is. induction is as [|i t IH]; intros L j Hj; cbn; [reflexivity|].
  rewrite IH by (rewrite upd_nth_length; exact Hj).
  rewrite upd_nth_nth by exact Hj.
  destruct (Nat.eqb j i) eqn:E; cbn; [|reflexivity].
  apply Nat.eqb_eq in E. subst i. rewrite <- iter_succ_r. reflexivity.
Qed.

Fixpoint zcount (c : Z) (l : list Z) : nat :=
  match l with [] => 0 | x :: t => (if Z.eqb c x then 1 else 0) + zcount c t end.

Lemma cnt_const : forall i j (l : list Z), cnt i (map (fun _ => j) l) = if Nat.eqb i j then length l else 0.
Proof. intros i j l. induction l as [|x t IH]; cbn; [destruct (Nat.eqb i j); reflexivity | rewrite IH; destruct (Nat.eqb i j); reflexivity]. Qed.

Lemma filter_eqb_length : forall c l, length (filter (Z.eqb c) l) = zcount c l.
Proof. intros c l. induction l as [|x t IH]; cbn; [reflexivity|]. destruct (Z.eqb c x); cbn; rewrite IH; reflexivity. Qed.

Lemma cnt_effects_from : forall tbl s c j,
  (s <= j < s + length tbl ->
   cnt j (effects_from s tbl c) = zcount c (compartments_of (nth (j - s) tbl default_spec)))
  /\ (~ (s <= j < s + length tbl) -> cnt j (effects_from s tbl c) = 0).
Proof.
  induction tbl as [|sp t IH]; intros s c j.
  - split; [cbn [length]; lia | reflexivity].
  - cbn [effects_from length]. rewrite cnt_app, cnt_const, filter_eqb_length.
    destruct (IH (S s) c j) as [IH1 IH2]. destruct (Nat.eqb j s) eqn:E.
    + apply Nat.eqb_eq in E. subst j. split; [|lia]. intros _.
      rewrite IH2 by lia. rewrite Nat.sub_diag. cbn [nth]. lia.
    + apply Nat.eqb_neq in E. split; intro H.
      * rewrite IH1 by lia. destruct (j - s) as [|k] eqn:E4; [lia|]. replace (j - S s) with k by lia. reflexivity.
      * rewrite IH2 by lia. reflexivity.
Qed.

Lemma cnt_effects : forall tbl c j, j < length tbl ->
  cnt j (effects tbl c) = zcount c (compartments_of (nth j tbl default_spec)).
Proof.
  intros tbl c j Hj. unfold effects. destruct (cnt_effects_from tbl 0 c j) as [H _].
  rewrite H by lia. rewrite Nat.sub_0_r. reflexivity.
Qed.

(* number of handler calls a locus receives for a list of (current) compartments *)
Fixpoint hits (sp : spec) (cs : list (option Z)) : nat :=
  match cs with
  | [] => 0
  | None :: t => hits sp t
  | Some c :: t => zcount c (compartments_of sp) + hits sp t
  end.

Lemma run_handlers_length : forall tbl h cs L, length (run_handlers tbl h cs L) = length L.
Proof.
  intros tbl h cs. unfold run_handlers. induction cs as [|c t IH]; intros L; cbn; [reflexivity|].
  rewrite IH. destruct c; [apply fold_upd_length | reflexivity].
Qed.

Lemma iter_plus : forall A (f : A -> A) a b x, Nat.iter (a + b) f x = Nat.iter b f (Nat.iter a f x).
Proof.
  intros A f a b x. rewrite Nat.add_comm. induction b as [|b IH]; [reflexivity|].
  change (f (Nat.iter (b + a) f x) = f (Nat.iter b f (Nat.iter a f x))). rewrite IH. reflexivity.
Qed.

Lemma run_handlers_nth : forall tbl h cs L j, length L = length tbl -> j < length tbl ->
  nth j (run_handlers tbl h cs L) [] =
  Nat.iter (hits (nth j tbl default_spec) cs) (h (nth j tbl default_spec)) (nth j L []).
Proof.
  intros tbl h cs. unfold run_handlers. induction cs as [|c t IH]; intros L j HL Hj; cbn [fold_left hits]; [reflexivity|].
  destruct c as [c|].
  - rewrite IH by (rewrite ?fold_upd_length; assumption).
    rewrite (fold_upd_nth _ [] (fun i => h (nth i tbl default_spec))) by (rewrite HL; exact Hj).
    rewrite cnt_effects by exact Hj. rewrite iter_plus. reflexivity.
  - apply IH; assumption.
Qed.

(* which compartments a locus is registered under *)
Definition regs (sp : spec) (c : Z) : Prop :=
  match sp with
  | NodeLocus c0 => c = c0
  | EdgeLocus l r => c = l \/ c = r
  | MultiEdgeLocus l rs => In c rs
  end.

Lemma zcount_pos : forall c l, zcount c l <> 0 <-> In c l.
Proof.
  intros c l. induction l as [|x t IH]; cbn; [split; [congruence | intros []]|].
  destruct (Z.eqb c x) eqn:E.
  - apply Z.eqb_eq in E. subst. split; [intros _; left; reflexivity | intros _; discriminate].
  - apply Z.eqb_neq in E. cbn. rewrite IH. split; [intro H; right; exact H | intros [H|H]; [congruence | exact H]].
Qed.

Lemma compartments_regs : forall sp c, In c (compartments_of sp) <-> regs sp c.
Proof.
  intros [c0|l r|l rs] c; cbn.
  - split; [intros [H|[]]; congruence | intro H; left; congruence].
  - split; [intros [H|[H|[]]]; [left|right]; congruence | intros [H|H]; [left|right;left]; congruence].
  - apply znodup_In.
Qed.

Lemma hits_pos : forall sp cs, hits sp cs <> 0 <-> exists c, In (Some c) cs /\ regs sp c.
Proof.
  intros sp cs. induction cs as [|[c|] t IH]; cbn.
  - split; [congruence | intros [c [[] _]]].
  - split.
    + intro H. destruct (zcount c (compartments_of sp)) eqn:E.
      * cbn in H. apply IH in H. destruct H as [c' [H1 H2]]. exists c'. split; [right; exact H1 | exact H2].
      * exists c. split; [left; reflexivity|]. apply compartments_regs, zcount_pos. rewrite E. discriminate.
    + intros [c' [[H1|H1] H2]].
      * inversion H1. subst c'. apply compartments_regs, zcount_pos in H2. lia.
      * assert (H : hits sp t <> 0) by (apply IH; exists c'; split; assumption). lia.
  - rewrite IH. split; intros [c [H1 H2]]; exists c; (split; [|exact H2]).
    + right. exact H1.
    + destruct H1 as [H1|H1]; [discriminate | exact H1].
Qed.

(* ---------- the network ---------- *)
Definition adj (s : state) (a b : Z) : Prop := adjb (st_edges s) a b = true.

Lemma same_edge_spec : forall a b e, same_edge a b e = true <-> e = (a, b) \/ e = (b, a).
Proof.
  intros a b [x y]. unfold same_edge. cbn. rewrite orb_true_iff, !andb_true_iff, !Z.eqb_eq.
  split; [intros [[H1 H2]|[H1 H2]]; subst; tauto | intros [H|H]; inversion H; subst; tauto].
Qed.

Lemma adjb_spec : forall es a b, adjb es a b = true <-> In (a, b) es \/ In (b, a) es.
Proof.
  intros es a b. unfold adjb. rewrite existsb_exists. split.
  - intros [e [He Hs]]. apply same_edge_spec in Hs. destruct Hs; subst; tauto.
  - intros [H|H]; [exists (a, b) | exists (b, a)]; (split; [exact H | apply same_edge_spec; tauto]).
Qed.

Lemma adjb_sym : forall es a b, adjb es a b = adjb es b a.
Proof.
  intros es a b. destruct (adjb es a b) eqn:E1, (adjb es b a) eqn:E2; try reflexivity.
  - apply adjb_spec in E1. assert (H : adjb es b a = true) by (apply adjb_spec; tauto). congruence.
  - apply adjb_spec in E2. assert (H : adjb es a b = true) by (apply adjb_spec; tauto). congruence.
Qed.

Lemma incident_In : forall es n e, In e (incident es n) <-> fst e = n /\ adjb es n (snd e) = true.
Proof.
  intros es n [x y]. unfold incident. rewrite in_flat_map. cbn. split.
  - intros [[a b] [He Hi]]. cbn in Hi.
    destruct (Z.eqb a n) eqn:E1.
    + apply Z.eqb_eq in E1. subst a. destruct Hi as [Hi|[]]. inversion Hi. subst. split; [reflexivity|]. apply adjb_spec. left. exact He.
    + destruct (Z.eqb b n) eqn:E2; [|destruct Hi].
      apply Z.eqb_eq in E2. subst b. destruct Hi as [Hi|[]]. inversion Hi. subst. split; [reflexivity|]. apply adjb_spec. right. exact He.
  - intros [Hx Ha]. subst x. apply adjb_spec in Ha. destruct Ha as [Ha|Ha].
    + exists (n, y). split; [exact Ha|]. cbn. rewrite Z.eqb_refl. left. reflexivity.
    + exists (y, n). split; [exact Ha|]. cbn. destruct (Z.eqb y n) eqn:E.
      * apply Z.eqb_eq in E. subst. left. reflexivity.
      * rewrite Z.eqb_refl. left. reflexivity.
Qed.

(* ---------- matches, in terms of qual ---------- *)
Definition edge_spec (sp : spec) : Prop := match sp with NodeLocus _ => False | _ => True end.

Lemma matches_fwd : forall sp s n m, matches sp (getc s n) (getc s m) = Fwd -> qual sp s n m = true.
Proof.
  intros [c|l r|l rs] s n m; cbn; try discriminate.
  - destruct (ceq (getc s n) r && ceq (getc s m) l); [discriminate|].
    destruct (ceq (getc s n) l && ceq (getc s m) r); [reflexivity | discriminate].
  - destruct (ceq (getc s n) l && cin (getc s m) rs); [reflexivity|].
    destruct (cin (getc s n) rs && ceq (getc s m) l); discriminate.
Qed.

Lemma matches_bwd : forall sp s n m, matches sp (getc s n) (getc s m) = Bwd -> qual sp s m n = true.
Proof.
  intros [c|l r|l rs] s n m; cbn; try discriminate.
  - rewrite (andb_comm (ceq (getc s m) l)).
    destruct (ceq (getc s n) r && ceq (getc s m) l); [reflexivity|].
    destruct (ceq (getc s n) l && ceq (getc s m) r); discriminate.
  - rewrite (andb_comm (ceq (getc s m) l)).
    destruct (ceq (getc s n) l && cin (getc s m) rs); [discriminate|].
    destruct (cin (getc s n) rs && ceq (getc s m) l); [reflexivity | discriminate].
Qed.

Lemma matches_none : forall sp s n m, matches sp (getc s n) (getc s m) = NoMatch ->
  qual sp s n m = false /\ qual sp s m n = false.
Proof.
  intros [c|l r|l rs] s n m; cbn; [tauto | |].
  - rewrite (andb_comm (ceq (getc s m) l)).
    destruct (ceq (getc s n) r && ceq (getc s m) l); [discriminate|].
    destruct (ceq (getc s n) l && ceq (getc s m) r); [discriminate | tauto].
  - rewrite (andb_comm (ceq (getc s m) l) (cin (getc s n) rs)).
    destruct (ceq (getc s n) l && cin (getc s m) rs); [discriminate|].
    destruct (cin (getc s n) rs && ceq (getc s m) l); [discriminate | tauto].
Qed.

Lemma is_match_qual : forall sp s n m,
  is_match (matches sp (getc s n) (getc s m)) = true <-> qual sp s n m = true \/ qual sp s m n = true.
Proof.
  intros sp s n m. destruct (matches sp (getc s n) (getc s m)) eqn:E; cbn.
  - apply matches_fwd in E. tauto.
  - apply matches_bwd in E. tauto.
  - apply matches_none in E. destruct E as [E1 E2]. rewrite E1, E2. split; [discriminate | intros [H|H]; discriminate].
Qed.

Lemma ceq_true : forall a c, ceq a c = true <-> a = Some c.
Proof. intros [x|] c; cbn; [rewrite Z.eqb_eq; split; congruence | split; discriminate]. Qed.
Lemma cin_true : forall a rs, cin a rs = true <-> exists c, a = Some c /\ In c rs.
Proof.
  intros [x|] rs; cbn.
  - rewrite zmem_In. split; [intro H; exists x; tauto | intros [c [H1 H2]]; congruence].
  - split; [discriminate | intros [c [H _]]; discriminate].
Qed.

(* both endpoints of a qualifying pair are in compartments the locus is registered under *)
Lemma qual_regs : forall sp s a b, wf_spec sp = true -> qual sp s a b = true ->
  exists ca cb, getc s a = Some ca /\ getc s b = Some cb /\ regs sp ca /\ regs sp cb.
Proof.
  intros [c|l r|l rs] s a b Hwf; cbn; try discriminate.
  - rewrite andb_true_iff, !ceq_true. intros [H1 H2]. exists l, r. tauto.
  - rewrite andb_true_iff, ceq_true, cin_true. intros [H1 [c [H2 H3]]]. exists l, c.
    cbn in Hwf. apply zmem_In in Hwf. tauto.
Qed.

Lemma qual_ext : forall sp s s' a b, getc s a = getc s' a -> getc s b = getc s' b -> qual sp s a b = qual sp s' a b.
Proof. intros [c|l r|l rs] s s' a b H1 H2; cbn; rewrite ?H1, ?H2; reflexivity. Qed.
