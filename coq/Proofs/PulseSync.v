(* Synchrony is absorbing on a complete network (C20, last clause), as a statement about pending
   firing times under explicit hypotheses on the numeric update; and its consequences for the
   number of distinct pending times and the size of every synchronised group. *)
From Coq Require Import List Arith Lia.
Import ListNotations.

Section Batch.
Variables node time : Type.
Variable t : time.            (* the time at which the batch of firings happens *)
Variable nxt : time.          (* where a node that fires at t is rescheduled (one period later) *)
Variable upd : time -> time.  (* where a cascade at t moves a node whose firing is pending at a given time:
                                 HYPOTHESIS: a function of that pending time alone *)
Hypothesis nxt_ne : nxt <> t.
(* a node due now is left alone (phase 1 -> state 1) or joins the firing node (synchronised) *)
Hypothesis upd_due : upd t = t \/ upd t = nxt.
(* a node that has just fired is left alone (phase 0 -> state 0 is passed over) *)
Hypothesis upd_fired : upd nxt = nxt.

Definition pend : Type := node -> time.

(* one firing on a complete network: n is due and fires, every other node is cascaded *)
Definition step (n : node) (p p' : pend) : Prop :=
  p n = t /\ p' n = nxt /\ forall m, m <> n -> p' m = upd (p m).

Inductive batch : pend -> pend -> Prop :=
| b_nil p : batch p p
| b_cons n p p' p'' : step n p p' -> batch p' p'' -> batch p p''.

(* during the batch two synchronised nodes are either still equal or one has fired and the other is due *)
Definition rel (p : pend) (a b : node) : Prop :=
  p a = p b \/ (p a = nxt /\ p b = t) \/ (p a = t /\ p b = nxt).

Hypothesis node_dec : forall a b : node, {a = b} + {a <> b}.

Lemma step_rel n p p' a b : step n p p' -> rel p a b -> rel p' a b.
Proof.
  intros [Hd [Hn Ho]] R. unfold rel in *.
  destruct (node_dec a n) as [Ea|Ea], (node_dec b n) as [Eb|Eb].
  - subst. left. reflexivity.
  - subst a. rewrite Hn, (Ho b Eb). destruct R as [R|[[R1 R2]|[R1 R2]]].
    + rewrite <- R, Hd. destruct upd_due as [U|U]; rewrite U; [right; left; split; reflexivity|left; reflexivity].
    + exfalso. apply nxt_ne. rewrite <- R1. exact Hd.
    + rewrite R2, upd_fired. left. reflexivity.
  - subst b. rewrite Hn, (Ho a Ea). destruct R as [R|[[R1 R2]|[R1 R2]]].
    + rewrite R, Hd. destruct upd_due as [U|U]; rewrite U; [right; right; split; reflexivity|left; reflexivity].
    + rewrite R1, upd_fired. left. reflexivity.
    + exfalso. apply nxt_ne. rewrite <- R2. exact Hd.
  - rewrite (Ho a Ea), (Ho b Eb). destruct R as [R|[[R1 R2]|[R1 R2]]].
    + left. rewrite R. reflexivity.
    + rewrite R1, R2, upd_fired. destruct upd_due as [U|U]; rewrite U; [right; left; split; reflexivity|left; reflexivity].
    + rewrite R1, R2, upd_fired. destruct upd_due as [U|U]; rewrite U; [right; right; split; reflexivity|left; reflexivity].
Qed.

Lemma batch_rel p p' a b : batch p p' -> rel p a b -> rel p' a b.
Proof. induction 1 as [p|n p p1 p2 Hs Hb IH]; intros R; [exact R|]. apply IH. eapply step_rel; eassumption. Qed.

(* after the whole batch (no node is due at t any more) synchronised nodes are still synchronised *)
Theorem batch_sync_absorbing p p' a b :
  batch p p' -> (forall m, p' m <> t) -> p a = p b -> p' a = p' b.
Proof.
  intros Hb Hend E. destruct (batch_rel p p' a b Hb (or_introl E)) as [R|[[_ R]|[R _]]]; [exact R| |];
    exfalso; eapply Hend; exact R.
Qed.
End Batch.

(* ------------------------------------------------------------------ consequences for counts *)
Section Counts.
Variables node time : Type.
Variable time_dec : forall a b : time, {a = b} + {a <> b}.
Variable nodes : list node.
Variables p p' : node -> time.
Hypothesis absorbing : forall a b, In a nodes -> In b nodes -> p a = p b -> p' a = p' b.

Definition ndistinct (q : node -> time) : nat := length (nodup time_dec (map q nodes)).
Definition group (q : node -> time) (a : node) : nat :=
  length (filter (fun b => if time_dec (q b) (q a) then true else false) nodes).

(* where the old pending time v is sent: well defined on the times that occur *)
Definition image (v : time) : time :=
  match find (fun a => if time_dec (p a) v then true else false) nodes with Some a => p' a | None => v end.

Lemma image_spec a : In a nodes -> image (p a) = p' a.
Proof.
  intros Ha. unfold image.
  destruct (find (fun a0 => if time_dec (p a0) (p a) then true else false) nodes) as [c|] eqn:E.
  - apply find_some in E. destruct E as [Hc E]. destruct (time_dec (p c) (p a)) as [Ec|]; [|discriminate].
    apply absorbing; assumption.
  - pose proof (find_none _ _ E a Ha) as H. cbn in H. destruct (time_dec (p a) (p a)); [discriminate|contradiction].
Qed.

Lemma map_image : map p' nodes = map image (map p nodes).
Proof.
  rewrite map_map. apply map_ext_in. intros a Ha. symmetry. apply image_spec, Ha.
Qed.

(* the number of distinct pending times does not increase *)
Theorem distinct_not_increasing : ndistinct p' <= ndistinct p.
Proof.
  unfold ndistinct. rewrite map_image.
  set (l := map p nodes).
  rewrite <- (map_length image (nodup time_dec l)).
  apply NoDup_incl_length; [apply NoDup_nodup|].
  intros v Hv. apply nodup_In in Hv. apply in_map_iff in Hv. destruct Hv as [u [<- Hu]].
  apply in_map. apply nodup_In. exact Hu.
Qed.

(* the synchronised group of every node does not shrink, in particular the largest one *)
Theorem group_not_shrinking a : In a nodes -> group p a <= group p' a.
Proof.
  intros Ha. unfold group.
  assert (G : forall l, incl l nodes ->
    length (filter (fun b => if time_dec (p b) (p a) then true else false) l)
    <= length (filter (fun b => if time_dec (p' b) (p' a) then true else false) l)).
  { induction l as [|b l IH]; intros Hi; cbn [filter]; [lia|].
    assert (Hb : In b nodes) by (apply Hi; left; reflexivity).
    assert (Hl : incl l nodes) by (intros x Hx; apply Hi; right; exact Hx).
    specialize (IH Hl).
    destruct (time_dec (p b) (p a)) as [E|E].
    - rewrite (absorbing b a Hb Ha E). destruct (time_dec (p' a) (p' a)); [cbn; lia|contradiction].
    - destruct (time_dec (p' b) (p' a)); cbn; lia. }
  apply G, incl_refl.
Qed.
End Counts.
