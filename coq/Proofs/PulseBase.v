(* Facts about Model/Pulse.v that do not involve the kernel state: the event map, the oracle,
   the clamp of normalisePhase (C20_phase_range), and the shape of every program as a sequence
   of elementary steps (oracle requests, changes of the bumping/bumped sets, setFiringTime). *)
From Coq Require Import List ZArith QArith Qabs Bool Arith Lia Lqa.
From EpyV Require Import Lib.Prelude Model.Kernel Model.Pulse Proofs.KernelBase.
Import ListNotations.
Open Scope Q_scope.

(* ------------------------------------------------------------------ the clamp *)
Lemma clamp01_range r : 0 <= clamp01 r /\ clamp01 r <= 1.
Proof.
  unfold clamp01, pymax, pymin.
  destruct (Qltb 1 r) eqn:E1.
  - destruct (Qltb 1 0) eqn:E2; [apply Qltb_true in E2; lra|]. lra.
  - apply Qltb_false in E1. destruct (Qltb r 0) eqn:E2.
    + lra.
    + apply Qltb_false in E2. lra.
Qed.

Lemma clamp01_fix r : 0 <= r -> r <= 1 -> clamp01 r = r.
Proof.
  intros H0 H1. unfold clamp01, pymax, pymin.
  destruct (Qltb 1 r) eqn:E1; [apply Qltb_true in E1; lra|].
  destruct (Qltb r 0) eqn:E2; [apply Qltb_true in E2; lra|]. reflexivity.
Qed.

(* ------------------------------------------------------------------ the event map *)
Definition ev_look (m : list (Z * (nat * Q))) (n : Z) : option (nat * Q) :=
  match find (fun p => Z.eqb (fst p) n) m with Some p => Some (snd p) | None => None end.
Definition upd_ev (n : Z) (v : nat * Q) (m : list (Z * (nat * Q))) : list (Z * (nat * Q)) :=
  (n, v) :: filter (fun p => negb (Z.eqb (fst p) n)) m.

Lemma ev_of_look w n : ev_of w n = ev_look (pw_ev w) n.
Proof. reflexivity. Qed.

Lemma look_upd_same n v m : ev_look (upd_ev n v m) n = Some v.
Proof. unfold ev_look, upd_ev. cbn. rewrite Z.eqb_refl. reflexivity. Qed.

Lemma look_upd_other n v m n' : n' <> n -> ev_look (upd_ev n v m) n' = ev_look m n'.
Proof.
  intros Hne. unfold ev_look, upd_ev. cbn [find fst].
  destruct (Z.eqb_spec n n') as [E|_]; [congruence|].
  induction m as [|p m IH]; cbn; [reflexivity|].
  destruct (Z.eqb_spec (fst p) n) as [E|E]; cbn.
  - destruct (Z.eqb_spec (fst p) n') as [E'|_]; [congruence|]. exact IH.
  - destruct (Z.eqb (fst p) n'); [reflexivity|exact IH].
Qed.

Lemma set_ev_ev n v w : pw_ev (set_ev n v w) = upd_ev n v (pw_ev w).
Proof. reflexivity. Qed.

(* ------------------------------------------------------------------ changes that leave the scheduling state alone *)
Record wsame (w w' : pworld) : Prop := {
  ws_ev : pw_ev w' = pw_ev w; ws_np : pw_nposted w' = pw_nposted w;
  ws_ft : pw_ftimes w' = pw_ftimes w; ws_fn : pw_fnodes w' = pw_fnodes w;
  ws_bg : pw_bumping w' = pw_bumping w; ws_bd : pw_bumped w' = pw_bumped w;
  ws_rq : exists l, pw_reqs w' = l ++ pw_reqs w }.

Lemma wsame_refl w : wsame w w.
Proof. split; try reflexivity. exists []. reflexivity. Qed.
Lemma wsame_trans w1 w2 w3 : wsame w1 w2 -> wsame w2 w3 -> wsame w1 w3.
Proof.
  intros [A1 A2 A3 A4 A5 A6 [l1 A7]] [B1 B2 B3 B4 B5 B6 [l2 B7]]. split; try congruence.
  exists (l2 ++ l1). rewrite B7, A7, app_assoc. reflexivity.
Qed.

Definition mkreq (k : rkind) (t a r : Q) : req := {| rq_kind := k; rq_t := t; rq_arg := a; rq_ans := r |}.

Lemma ask_spec k t a w : let r := fst (ask k t a w) in let w' := snd (ask k t a w) in
  wsame w w' /\ pw_reqs w' = mkreq k t a r :: pw_reqs w.
Proof.
  unfold ask. destruct (pw_oracle w) as [|[k' x] rest]; cbn.
  - split; [|reflexivity]. split; try reflexivity. eexists [_]. reflexivity.
  - split; [|reflexivity]. split; try reflexivity. eexists [_]. reflexivity.
Qed.
Lemma ask_wsame k t a w r w' : ask k t a w = (r, w') -> wsame w w'.
Proof. intros E. pose proof (ask_spec k t a w) as H. rewrite E in H. apply H. Qed.
Lemma ask_reqs k t a w r w' : ask k t a w = (r, w') -> pw_reqs w' = mkreq k t a r :: pw_reqs w.
Proof. intros E. pose proof (ask_spec k t a w) as H. rewrite E in H. apply H. Qed.

Lemma set_bad_wsame w : wsame w (set_bad w).
Proof. split; try reflexivity. exists []. reflexivity. Qed.
Lemma set_orders_wsame o w : wsame w (set_orders o w).
Proof. split; try reflexivity. exists []. reflexivity. Qed.

(* a hypothesis on the oracle's answers, like [good] of Proofs/PulseInv.v: round(x, 5) of an argument that is exactly 1
   is 1 (decimal rounding is the identity on 1.0; Tie/C20.v checks it on every run) *)
Definition round_one (l : list req) : Prop := forall r, In r l -> rq_kind r = RN -> rq_arg r == 1 -> rq_ans r == 1.
Lemma round_one_app l1 l2 : round_one (l1 ++ l2) -> round_one l2.
Proof. intros H r Hr. apply H, in_or_app. right. exact Hr. Qed.
Definition round_one_b (l : list req) : bool :=
  forallb (fun r => match rq_kind r with RN => negb (Qeq_bool (rq_arg r) 1) || Qeq_bool (rq_ans r) 1 | _ => true end) l.
Lemma round_one_b_ok l : round_one_b l = true -> round_one l.
Proof.
  unfold round_one_b. rewrite forallb_forall. intros H r Hr Hk Ha. specialize (H r Hr). rewrite Hk in H.
  apply orb_true_iff in H. destruct H as [H|H].
  - apply negb_true_iff in H. apply Qeq_bool_iff in Ha. congruence.
  - apply Qeq_bool_iff, H.
Qed.

(* a phase that rounds to 1 is "already synchronised" *)
Lemma clamp01_one r : r == 1 -> is01 (clamp01 r) = true.
Proof.
  intros H. unfold clamp01, pymax, pymin.
  destruct (Qltb 1 r) eqn:E1; [apply Qltb_true in E1; lra|].
  destruct (Qltb r 0) eqn:E2; [apply Qltb_true in E2; lra|].
  unfold is01. apply orb_true_iff. left. apply Qeq_bool_iff. exact H.
Qed.

Section Steps.
Variable cfg : pcfg.
Notation period := (pc_period cfg).

Lemma normalise_phase_spec t x w c w' : normalise_phase t x w = (c, w') ->
  wsame w w' /\ 0 <= c /\ c <= 1 /\ exists r, c = clamp01 r /\ pw_reqs w' = mkreq RN t (Qred x) r :: pw_reqs w.
Proof.
  unfold normalise_phase. destruct (ask RN t (Qred x) w) as [r w1] eqn:E. intros [= <- <-].
  split; [eapply ask_wsame; exact E|]. destruct (clamp01_range r). repeat split; try assumption.
  exists r. split; [reflexivity|]. eapply ask_reqs; exact E.
Qed.

Lemma get_phase_spec t n w c w' : get_phase cfg t n w = (c, w') -> wsame w w' /\ 0 <= c /\ c <= 1.
Proof.
  unfold get_phase. destruct (ev_of w n) as [[k old]|].
  - intros E. apply normalise_phase_spec in E. tauto.
  - intros [= <- <-]. split; [apply set_bad_wsame|lra].
Qed.

(* elementary steps of a program under construction, at handler time t: [Some n] marks setFiringTime on n *)
Definition unpost_of (w : pworld) (n : Z) : list action :=
  match ev_of w n with Some (k, _) => [AUnpost k false] | None => [] end.

Inductive qstep (t : Q) : option Z -> pstate -> pstate -> Prop :=
| qs_same w w' a : wsame w w' -> qstep t None (w, a) (w', a)
| qs_sft w a n arg c T w1 : ask RT t arg w = (T, w1) -> 0 <= c -> c <= 1 -> arg == t + c * period ->
    qstep t (Some n) (w, a)
          (set_ev n (pw_nposted w1, Qred (t + (T - t))) w1, a ++ unpost_of w1 n ++ [APostOn (EN n) (T - t) prog_fired]).

Definition ocons (o : option Z) (ns : list Z) : list Z := match o with Some n => n :: ns | None => ns end.

Inductive qsteps (t : Q) : list Z -> pstate -> pstate -> Prop :=
| qss_nil st : qsteps t [] st st
| qss_cons o st1 st2 st3 ns : qstep t o st1 st2 -> qsteps t ns st2 st3 -> qsteps t (ocons o ns) st1 st3.

Lemma qsteps_trans t ns1 ns2 a b c : qsteps t ns1 a b -> qsteps t ns2 b c -> qsteps t (ns1 ++ ns2) a c.
Proof.
  intros H. revert ns2 c. induction H as [st|o st1 st2 st3 ns Hq Hs IH]; intros ns2 c H2; [exact H2|].
  replace (ocons o ns ++ ns2) with (ocons o (ns ++ ns2)) by (destruct o; reflexivity).
  eapply qss_cons; [exact Hq|apply IH; exact H2].
Qed.
Lemma qsteps_one t o a b : qstep t o a b -> qsteps t (ocons o []) a b.
Proof. intros H. eapply qss_cons; [exact H|apply qss_nil]. Qed.
Lemma qsteps_same t w w' a : wsame w w' -> qsteps t [] (w, a) (w', a).
Proof. intros H. apply (qsteps_one t None). apply qs_same, H. Qed.

(* what every such sequence preserves *)
Lemma qstep_keeps t o st st' : qstep t o st st' ->
  pw_ftimes (fst st') = pw_ftimes (fst st) /\ pw_fnodes (fst st') = pw_fnodes (fst st)
  /\ pw_bumping (fst st') = pw_bumping (fst st) /\ pw_bumped (fst st') = pw_bumped (fst st)
  /\ (exists l, pw_reqs (fst st') = l ++ pw_reqs (fst st)) /\ (exists l, snd st' = snd st ++ l).
Proof.
  intros [w w' a H|w a n arg c T w1 E _ _ _]; cbn [fst snd].
  - destruct H. repeat split; try assumption. exists []. rewrite app_nil_r. reflexivity.
  - destruct (ask_wsame _ _ _ _ _ _ E). repeat split; try assumption. eexists. reflexivity.
Qed.
Lemma qsteps_keeps t ns st st' : qsteps t ns st st' ->
  pw_ftimes (fst st') = pw_ftimes (fst st) /\ pw_fnodes (fst st') = pw_fnodes (fst st)
  /\ pw_bumping (fst st') = pw_bumping (fst st) /\ pw_bumped (fst st') = pw_bumped (fst st)
  /\ (exists l, pw_reqs (fst st') = l ++ pw_reqs (fst st)) /\ (exists l, snd st' = snd st ++ l).
Proof.
  induction 1 as [st|o st1 st2 st3 ns Hq Hs IH].
  - repeat split; try reflexivity; exists []; [reflexivity|rewrite app_nil_r; reflexivity].
  - apply qstep_keeps in Hq. destruct Hq as [A1 [A2 [A3 [A4 [[l1 A5] [m1 A6]]]]]].
    destruct IH as [B1 [B2 [B3 [B4 [[l2 B5] [m2 B6]]]]]]. repeat split; try congruence.
    + exists (l2 ++ l1). rewrite B5, A5, app_assoc. reflexivity.
    + exists (m1 ++ m2). rewrite B6, A6, app_assoc. reflexivity.
Qed.

(* a node whose firing time is not set keeps its entry in the map; one that has an entry keeps having one *)
Lemma qstep_look t o st st' : qstep t o st st' -> forall m, o <> Some m -> ev_of (fst st') m = ev_of (fst st) m.
Proof.
  intros [w w' a H|w a n arg c T w1 E _ _ _] m Hm; cbn [fst]; rewrite !ev_of_look.
  - rewrite (ws_ev _ _ H). reflexivity.
  - rewrite set_ev_ev, look_upd_other by congruence. rewrite (ws_ev _ _ (ask_wsame _ _ _ _ _ _ E)). reflexivity.
Qed.
Lemma qsteps_look t ns st st' : qsteps t ns st st' -> forall m, ~ In m ns -> ev_of (fst st') m = ev_of (fst st) m.
Proof.
  induction 1 as [st|o st1 st2 st3 ns Hq Hs IH]; intros m Hm; [reflexivity|].
  rewrite IH by (intros Hin; apply Hm; destruct o; [right|]; exact Hin).
  eapply qstep_look; [exact Hq|]. intros ->. apply Hm. left. reflexivity.
Qed.
Lemma qstep_dom t o st st' : qstep t o st st' -> forall m, ev_of (fst st) m <> None -> ev_of (fst st') m <> None.
Proof.
  intros Hq m Hm. destruct o as [n|].
  - destruct (Z.eq_dec m n) as [->|Hne].
    + inversion Hq; subst. cbn [fst]. rewrite ev_of_look, set_ev_ev, look_upd_same. discriminate.
    + rewrite (qstep_look _ _ _ _ Hq) by congruence. exact Hm.
  - rewrite (qstep_look _ _ _ _ Hq) by discriminate. exact Hm.
Qed.
Lemma qsteps_dom t ns st st' : qsteps t ns st st' -> forall m, ev_of (fst st) m <> None -> ev_of (fst st') m <> None.
Proof.
  induction 1 as [st|o st1 st2 st3 ns Hq Hs IH]; intros m Hm; [exact Hm|].
  apply IH. eapply qstep_dom; eassumption.
Qed.
Lemma qsteps_sets_dom t ns st st' : qsteps t ns st st' -> forall m, In m ns -> ev_of (fst st') m <> None.
Proof.
  induction 1 as [st|o st1 st2 st3 ns Hq Hs IH]; intros m Hm; [destruct Hm|].
  destruct o as [n|]; cbn [ocons] in Hm; [|apply IH; exact Hm].
  destruct Hm as [<-|Hm]; [|apply IH; exact Hm].
  eapply qsteps_dom; [exact Hs|]. inversion Hq; subst. cbn [fst]. rewrite ev_of_look, set_ev_ev, look_upd_same. discriminate.
Qed.

(* ------------------------------------------------------------------ the programs as step sequences *)
Lemma set_firing_time_step t n c w a :
  0 <= c -> c <= 1 ->
  qstep t (Some n) (w, a) (set_firing_time t n (t + c * period) (w, a)).
Proof.
  intros H0 H1. unfold set_firing_time. cbn [fst snd].
  destruct (ask RT t (Qred (t + c * period)) w) as [T w1] eqn:E.
  change (match ev_of w1 n with Some (k, _) => [AUnpost k false] | None => [] end) with (unpost_of w1 n).
  eapply qs_sft; [exact E|exact H0|exact H1|apply Qred_correct].
Qed.

Lemma set_phase_steps t n phi w a : qsteps t [n] (w, a) (set_phase cfg t n phi (w, a)).
Proof.
  unfold set_phase. cbn [fst snd]. destruct (normalise_phase t (1 - phi) w) as [c w1] eqn:E.
  apply normalise_phase_spec in E. destruct E as [Hs [H0 [H1 _]]].
  apply (qsteps_trans t [] [n] _ (w1, a)); [apply qsteps_same, Hs|].
  apply (qsteps_one t (Some n)). apply set_firing_time_step; assumption.
Qed.

(* cascade from the point where the phase of m has been read *)
Lemma cascade_steps_from t n m w a :
  exists ns, qsteps t ns (snd (get_phase cfg t m w), a) (cascade cfg t n m (w, a)) /\ Forall (eq m) ns.
Proof.
  unfold cascade. cbn [fst snd].
  destruct (get_phase cfg t m w) as [phi w1] eqn:E1. cbn [snd].
  destruct (is01 phi).
  { exists []. split; [apply qss_nil|constructor]. }
  destruct (ask RS t phi w1) as [s2 w4] eqn:E4. apply ask_wsame in E4.
  destruct (ask RG t (Qred (pc_coupling cfg + s2)) w4) as [g w5] eqn:E5. apply ask_wsame in E5.
  destruct (normalise_phase t g w5) as [newPhase w6] eqn:E6. apply normalise_phase_spec in E6. destruct E6 as [S6 _].
  assert (S7 : wsame w1 w6).
  { apply (wsame_trans _ _ _ E4). apply (wsame_trans _ _ _ E5). exact S6. }
  pose proof (set_phase_steps t m newPhase w6 a) as H7.
  destruct (set_phase cfg t m newPhase (w6, a)) as [w7 a7] eqn:E7. cbn [fst snd].
  destruct (get_phase cfg t m w7) as [newState w8] eqn:E8. apply get_phase_spec in E8. destruct E8 as [S8 _].
  assert (H8 : qsteps t [m] (w1, a) (w8, a7)).
  { apply (qsteps_trans t [] ([m] ++ []) _ (w6, a)); [apply qsteps_same, S7|].
    eapply qsteps_trans; [exact H7|apply qsteps_same, S8]. }
  destruct (is01 newState).
  - exists ([m] ++ [m]). split; [|repeat constructor].
    eapply qsteps_trans; [exact H8|apply set_phase_steps].
  - exists [m]. split; [exact H8|repeat constructor].
Qed.

Lemma cascade_steps t n m w a : exists ns, qsteps t ns (w, a) (cascade cfg t n m (w, a)) /\ Forall (eq m) ns.
Proof.
  destruct (cascade_steps_from t n m w a) as [ns [H F]].
  destruct (get_phase cfg t m w) as [phi w1] eqn:E1. apply get_phase_spec in E1. destruct E1 as [S1 _]. cbn [snd] in H.
  exists ([] ++ ns). split; [|exact F].
  eapply qsteps_trans; [apply qsteps_same, S1|exact H].
Qed.

(* a node that is due now (its firing is pending at the handler's time t) is passed over: its phase is
   normalisePhase(1 - (t - t) / period), the rounding of exactly 1 *)
Lemma cascade_due_kept t n m w a k :
  ev_of w m = Some (k, t) -> round_one (pw_reqs (fst (cascade cfg t n m (w, a)))) ->
  wsame w (fst (cascade cfg t n m (w, a))).
Proof.
  intros Hev Hr.
  destruct (cascade_steps_from t n m w a) as [ns [Hs _]].
  destruct (qsteps_keeps _ _ _ _ Hs) as [_ [_ [_ [_ [[l Hl] _]]]]]. cbn [fst] in Hl.
  revert Hr Hl. unfold cascade, get_phase. cbn [fst snd]. rewrite Hev.
  destruct (normalise_phase t (1 - (t - t) / period) w) as [phi w1] eqn:E.
  apply normalise_phase_spec in E. destruct E as [S [_ [_ [r [-> Hrq]]]]]. cbn [snd].
  intros Hr Hl.
  assert (H1 : r == 1).
  { apply (Hr (mkreq RN t (Qred (1 - (t - t) / period)) r)).
    - rewrite Hl. apply in_or_app. right. rewrite Hrq. left. reflexivity.
    - reflexivity.
    - cbn [rq_arg mkreq]. rewrite Qred_correct. unfold Qdiv. ring. }
  rewrite (clamp01_one r H1). cbn [fst]. exact S.
Qed.

(* programs that also change the bumping / bumped sets *)
Inductive pstep (t : Q) : list Z -> pstate -> pstate -> Prop :=
| ps_q ns st st' : qsteps t ns st st' -> pstep t ns st st'
| ps_sets w a bg bd : pstep t [] (w, a) (set_sets bg bd w, a).
Inductive psteps (t : Q) : list Z -> pstate -> pstate -> Prop :=
| pss_nil st : psteps t [] st st
| pss_cons ns1 ns2 st1 st2 st3 : pstep t ns1 st1 st2 -> psteps t ns2 st2 st3 -> psteps t (ns1 ++ ns2) st1 st3.

Lemma psteps_trans t ns1 ns2 a b c : psteps t ns1 a b -> psteps t ns2 b c -> psteps t (ns1 ++ ns2) a c.
Proof.
  intros H. revert ns2 c. induction H as [st|n1 n2 st1 st2 st3 Hq Hs IH]; intros ns2 c H2; [exact H2|].
  rewrite <- app_assoc. eapply pss_cons; [exact Hq|apply IH; exact H2].
Qed.
Lemma psteps_q t ns a b : qsteps t ns a b -> psteps t ns a b.
Proof. intros H. rewrite <- (app_nil_r ns). eapply pss_cons; [apply ps_q, H|apply pss_nil]. Qed.
Lemma psteps_sets t w a bg bd : psteps t [] (w, a) (set_sets bg bd w, a).
Proof. change (@nil Z) with (@nil Z ++ []). eapply pss_cons; [apply ps_sets|apply pss_nil]. Qed.

Lemma pstep_keeps t ns st st' : pstep t ns st st' ->
  pw_ftimes (fst st') = pw_ftimes (fst st) /\ pw_fnodes (fst st') = pw_fnodes (fst st)
  /\ (exists l, pw_reqs (fst st') = l ++ pw_reqs (fst st)) /\ (exists l, snd st' = snd st ++ l)
  /\ (forall m, ~ In m ns -> ev_of (fst st') m = ev_of (fst st) m)
  /\ (forall m, ev_of (fst st) m <> None -> ev_of (fst st') m <> None)
  /\ (forall m, In m ns -> ev_of (fst st') m <> None).
Proof.
  intros [ns0 st0 st0' H|w a bg bd].
  - pose proof (qsteps_keeps _ _ _ _ H) as [A1 [A2 [_ [_ [A5 A6]]]]].
    repeat split; try assumption; [apply (qsteps_look _ _ _ _ H)|apply (qsteps_dom _ _ _ _ H)|apply (qsteps_sets_dom _ _ _ _ H)].
  - cbn [fst snd]. repeat split; try reflexivity; try (exists []; try rewrite app_nil_r; reflexivity).
    + intros m Hm. exact Hm.
    + intros m [].
Qed.
Lemma psteps_keeps t ns st st' : psteps t ns st st' ->
  pw_ftimes (fst st') = pw_ftimes (fst st) /\ pw_fnodes (fst st') = pw_fnodes (fst st)
  /\ (exists l, pw_reqs (fst st') = l ++ pw_reqs (fst st)) /\ (exists l, snd st' = snd st ++ l)
  /\ (forall m, ~ In m ns -> ev_of (fst st') m = ev_of (fst st) m)
  /\ (forall m, ev_of (fst st) m <> None -> ev_of (fst st') m <> None)
  /\ (forall m, In m ns -> ev_of (fst st') m <> None).
Proof.
  induction 1 as [st|n1 n2 st1 st2 st3 Hq Hs IH].
  - repeat split; try reflexivity; try (exists []; try rewrite app_nil_r; reflexivity).
    + intros m Hm; exact Hm.
    + intros m [].
  - apply pstep_keeps in Hq. destruct Hq as [A1 [A2 [[l1 A3] [[m1 A4] [A5 [A6 A7]]]]]].
    destruct IH as [B1 [B2 [[l2 B3] [[m2 B4] [B5 [B6 B7]]]]]]. repeat split; try congruence.
    + exists (l2 ++ l1). rewrite B3, A3, app_assoc. reflexivity.
    + exists (m1 ++ m2). rewrite B4, A4, app_assoc. reflexivity.
    + intros m Hm. rewrite B5, A5; [reflexivity| |]; intros Hin; apply Hm, in_or_app; [left|right]; exact Hin.
    + intros m Hm. apply B6, A6, Hm.
    + intros m Hm. apply in_app_or in Hm. destruct Hm as [Hm|Hm]; [apply B6, A7, Hm|apply B7, Hm].
Qed.

Lemma fire_node_steps t n w a : psteps t [n] (w, a) (fire_node cfg t n (w, a)).
Proof.
  unfold fire_node. cbn [fst snd].
  set (w1 := set_sets _ (pw_bumped w) w).
  pose proof (set_phase_steps t n 0 w1 a) as H.
  destruct (set_phase cfg t n 0 (w1, a)) as [w2 a2]. cbn [fst snd].
  change [n] with ([] ++ [n] ++ []).
  eapply psteps_trans; [apply psteps_sets|]. eapply psteps_trans; [apply psteps_q, H|apply psteps_sets].
Qed.

Lemma memz_In x l : memz x l = true <-> In x l.
Proof.
  unfold memz. rewrite existsb_exists. split.
  - intros [y [Hy E]]. apply Z.eqb_eq in E. subst. exact Hy.
  - intros H. exists x. split; [exact H|apply Z.eqb_refl].
Qed.
Lemma addz_In x y l : In y (addz x l) <-> y = x \/ In y l.
Proof.
  unfold addz. destruct (memz x l) eqn:E.
  - apply memz_In in E. split; [intros H; right; exact H|intros [->|H]; assumption].
  - rewrite in_app_iff. cbn. split; [intros [H|[H|[]]]; [right; exact H|left; symmetry; exact H]|intros [->|H]; [right; left; reflexivity|left; exact H]].
Qed.

Lemma cascade_bumped t n m w a : pw_bumped (fst (cascade cfg t n m (w, a))) = pw_bumped w.
Proof. destruct (cascade_steps t n m w a) as [ns [H _]]. apply qsteps_keeps in H. apply H. Qed.

(* the firing node n is in bumped, so the cascades leave it alone *)
Lemma cascade_loop_steps t n ms : forall w a, In n (pw_bumped w) ->
  exists ns, psteps t ns (w, a) (cascade_loop cfg t n ms (w, a)) /\ ~ In n ns.
Proof.
  induction ms as [|m ms IH]; intros w a Hn; cbn [cascade_loop].
  - exists []. split; [apply pss_nil|intros []].
  - cbn [fst snd]. set (w0 := set_sets (remz m (pw_bumping w)) (pw_bumped w) w).
    change (pw_bumped w0) with (pw_bumped w).
    destruct (memz m (pw_bumped w)) eqn:Em.
    + destruct (IH w0 a Hn) as [ns [H1 H2]]. exists ([] ++ ns). split; [|exact H2].
      eapply psteps_trans; [apply psteps_sets|exact H1].
    + assert (Hmn : m <> n) by (intros ->; apply memz_In in Hn; congruence).
      destruct (cascade_steps t n m w0 a) as [ns1 [H1 F1]].
      pose proof (cascade_bumped t n m w0 a) as Hb.
      destruct (cascade cfg t n m (w0, a)) as [w2 a2]. cbn [fst snd] in *.
      set (w3 := set_sets (pw_bumping w2) (addz m (pw_bumped w2)) w2).
      assert (Hn3 : In n (pw_bumped w3)).
      { cbn. apply addz_In. right. rewrite Hb. exact Hn. }
      destruct (IH w3 a2 Hn3) as [ns2 [H2 N2]].
      exists ([] ++ ns1 ++ [] ++ ns2). split.
      * eapply psteps_trans; [apply psteps_sets|]. eapply psteps_trans; [apply psteps_q, H1|].
        eapply psteps_trans; [apply psteps_sets|exact H2].
      * cbn [app]. intros Hin. apply in_app_or in Hin. destruct Hin as [Hin|Hin]; [|exact (N2 Hin)].
        rewrite Forall_forall in F1. apply Hmn. apply F1, Hin.
Qed.

Lemma pop_order_wsame w ms w' : pop_order w = (ms, w') -> wsame w w'.
Proof.
  unfold pop_order. destruct (pw_orders w) as [|o rest].
  - intros [= <- <-]. apply set_bad_wsame.
  - destruct (nodupz o && forallb _ o); intros [= <- <-].
    + apply set_orders_wsame.
    + eapply wsame_trans; [apply set_orders_wsame|apply set_bad_wsame].
Qed.

Lemma probe_queries w : Forall (fun a => exists k, a = AQuery k) (probe cfg w).
Proof.
  unfold probe. destruct (pc_observe cfg); [|constructor].
  apply Forall_forall. intros a Ha. apply in_map_iff in Ha. destruct Ha as [n [<- _]]. eexists. reflexivity.
Qed.

(* the event function: reset the sets, fire the node (setFiringTime on n first), log, cascade (never on n), probe *)
Lemma fired_prog_spec t n l w w' acts : fired_prog cfg t (EN n) l w = (w', acts) ->
  exists w1 a1 ns acts0,
    (w1, a1) = fire_node cfg t n (set_sets [] [] w, [])
    /\ psteps t [n] (w, []) (w1, a1)
    /\ psteps t ns (add_log t n w1, a1) (w', acts0) /\ ~ In n ns
    /\ acts = acts0 ++ probe cfg w'.
Proof.
  unfold fired_prog.
  pose proof (fire_node_steps t n (set_sets [] [] w) []) as H1.
  assert (Hb : In n (pw_bumped (fst (fire_node cfg t n (set_sets [] [] w, []))))).
  { unfold fire_node. cbn [fst snd]. apply addz_In. left. reflexivity. }
  destruct (fire_node cfg t n (set_sets [] [] w, [])) as [w1 a1] eqn:EFN. cbn [fst snd] in *.
  destruct (pop_order (add_log t n w1)) as [ms w3] eqn:E3.
  pose proof (pop_order_wsame _ _ _ E3) as S3.
  assert (Hb3 : In n (pw_bumped w3)) by (rewrite (ws_bd _ _ S3); exact Hb).
  destruct (cascade_loop_steps t n ms w3 a1 Hb3) as [ns [H4 N4]].
  destruct (cascade_loop cfg t n ms (w3, a1)) as [w4 a4]. cbn [fst snd]. intros [= <- <-].
  exists w1, a1, ([] ++ ns), a4. repeat split.
  - change [n] with ([] ++ [n]). eapply psteps_trans; [apply psteps_sets|exact H1].
  - eapply psteps_trans; [apply psteps_q, qsteps_same, S3|exact H4].
  - exact N4.
Qed.

(* a node other than the firing one that is due at the event's time is still due at that time afterwards *)
Lemma cascade_loop_due_kept t n m k ms : forall w a, In n (pw_bumped w) ->
  ev_of w m = Some (k, t) -> round_one (pw_reqs (fst (cascade_loop cfg t n ms (w, a)))) ->
  ev_of (fst (cascade_loop cfg t n ms (w, a))) m = Some (k, t).
Proof.
  induction ms as [|m' ms IH]; intros w a Hn Hev Hr; cbn [cascade_loop] in *.
  - exact Hev.
  - cbn [fst snd] in *. set (w0 := set_sets (remz m' (pw_bumping w)) (pw_bumped w) w) in *.
    change (pw_bumped w0) with (pw_bumped w) in *.
    destruct (memz m' (pw_bumped w)) eqn:Em.
    + apply IH; [exact Hn|exact Hev|exact Hr].
    + destruct (cascade_steps t n m' w0 a) as [ns1 [H1 F1]].
      pose proof (cascade_bumped t n m' w0 a) as Hb.
      pose proof (cascade_due_kept t n m' w0 a k) as Hk.
      destruct (cascade cfg t n m' (w0, a)) as [w2 a2]. cbn [fst snd] in *.
      set (w3 := set_sets (pw_bumping w2) (addz m' (pw_bumped w2)) w2) in *.
      assert (Hn3 : In n (pw_bumped w3)).
      { cbn. apply addz_In. right. rewrite Hb. exact Hn. }
      destruct (cascade_loop_steps t n ms w3 a2 Hn3) as [ns2 [H2 _]].
      destruct (psteps_keeps _ _ _ _ H2) as [_ [_ [[l2 Hl2] _]]]. cbn [fst] in Hl2.
      assert (Hr2 : round_one (pw_reqs w2)).
      { rewrite Hl2 in Hr. apply round_one_app in Hr. exact Hr. }
      apply IH; [exact Hn3| |exact Hr].
      change (ev_of w3 m) with (ev_of w2 m).
      destruct (Z.eq_dec m' m) as [->|Hne].
      * rewrite ev_of_look, (ws_ev _ _ (Hk Hev Hr2)). exact Hev.
      * assert (X : ev_of w2 m = ev_of w0 m).
        { apply (qsteps_look _ _ _ _ H1 m). intros Hin. rewrite Forall_forall in F1. apply Hne. apply F1, Hin. }
        rewrite X. exact Hev.
Qed.

Lemma fired_prog_due_kept t n l w w' acts m k : fired_prog cfg t (EN n) l w = (w', acts) -> m <> n ->
  ev_of w m = Some (k, t) -> round_one (pw_reqs w') -> ev_of w' m = Some (k, t).
Proof.
  unfold fired_prog. intros E Hmn Hev Hr.
  pose proof (fire_node_steps t n (set_sets [] [] w) []) as H1.
  assert (Hb : In n (pw_bumped (fst (fire_node cfg t n (set_sets [] [] w, []))))).
  { unfold fire_node. cbn [fst snd]. apply addz_In. left. reflexivity. }
  destruct (fire_node cfg t n (set_sets [] [] w, [])) as [w1 a1] eqn:EFN. cbn [fst snd] in *.
  destruct (pop_order (add_log t n w1)) as [ms w3] eqn:E3.
  pose proof (pop_order_wsame _ _ _ E3) as S3.
  assert (Hb3 : In n (pw_bumped w3)) by (rewrite (ws_bd _ _ S3); exact Hb).
  assert (Hev3 : ev_of w3 m = Some (k, t)).
  { rewrite ev_of_look, (ws_ev _ _ S3). cbn [pw_ev add_log]. rewrite <- ev_of_look.
    destruct (psteps_keeps _ _ _ _ H1) as [_ [_ [_ [_ [K _]]]]]. cbn [fst] in K.
    rewrite (K m); [exact Hev|]. intros [Hin|[]]. apply Hmn. symmetry. exact Hin. }
  pose proof (cascade_loop_due_kept t n m k ms w3 a1 Hb3 Hev3) as H.
  destruct (cascade_loop cfg t n ms (w3, a1)) as [w4 a4]. cbn [fst snd] in *.
  injection E as <- <-. apply H, Hr.
Qed.

(* the firing node's own step, in full *)
Lemma fire_node_spec t n w a : exists r w2 T w3,
  ask RN t (Qred (1 - 0)) (set_sets (fold_left (fun acc m => addz m acc) (neighbours cfg n) (pw_bumping w)) (pw_bumped w) w) = (r, w2)
  /\ ask RT t (Qred (t + clamp01 r * period)) w2 = (T, w3)
  /\ ev_of (fst (fire_node cfg t n (w, a))) n = Some (pw_nposted w3, Qred (t + (T - t))).
Proof.
  unfold fire_node, set_phase, normalise_phase, set_firing_time. cbn [fst snd].
  destruct (ask RN t (Qred (1 - 0)) _) as [r w2] eqn:E1. cbn [fst snd].
  destruct (ask RT t (Qred (t + clamp01 r * period)) w2) as [T w3] eqn:E2. cbn [fst snd].
  exists r, w2, T, w3. split; [reflexivity|]. split; [exact E2|]. rewrite ev_of_look. cbn [pw_ev set_sets]. rewrite set_ev_ev, look_upd_same. reflexivity.
Qed.

(* set-up *)
Lemma init_node_steps w a n : qsteps 0 [n] (w, a) (init_node cfg (w, a) n).
Proof.
  unfold init_node. cbn [fst snd].
  destruct (ask RR 0 0 w) as [state w1] eqn:E1. apply ask_wsame in E1.
  destruct (ask RG 0 state w1) as [phase w2] eqn:E2. apply ask_wsame in E2.
  apply (qsteps_trans 0 [] [n] _ (w2, a)); [apply qsteps_same; eapply wsame_trans; eassumption|apply set_phase_steps].
Qed.

Lemma init_fold_steps nodes : forall st, qsteps 0 nodes st (fold_left (init_node cfg) nodes st).
Proof.
  induction nodes as [|n nodes IH]; intros st; cbn [fold_left]; [apply qss_nil|].
  change (n :: nodes) with ([n] ++ nodes). eapply qsteps_trans; [|apply IH].
  destruct st as [w a]. apply init_node_steps.
Qed.

Lemma init_phases_steps oracle orders :
  qsteps 0 (pc_nodes cfg) (init_world oracle orders, []) (init_phases cfg oracle orders).
Proof. apply init_fold_steps. Qed.

End Steps.
