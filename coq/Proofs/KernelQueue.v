(* C04: the posted-event queue of Model/Kernel.v against its abstract reading (live entries
   ordered by (time, id)).  Invariants of the core (clock, next id, queue, output) and of the
   list of fired entries, proved once per kind of move (KernelBase.kmove) and lifted over
   run_pending and the two scheduler loops. *)
From Coq Require Import List ZArith QArith Qabs Bool Arith Lia Lqa.
From EpyV Require Import Model.Kernel Proofs.KernelBase Proofs.KernelLoops.
Import ListNotations.
Open Scope Q_scope.

Lemma NoDup_app_one {A} (l : list A) a : NoDup l -> ~ In a l -> NoDup (l ++ [a]).
Proof.
  induction l as [|x l IH]; cbn; intros H Hn; [constructor; [intros []|constructor]|].
  inversion H; subst. constructor.
  - intros Hi. apply in_app_or in Hi. destruct Hi as [Hi|[Hi|[]]]; [contradiction|]. apply Hn. left. symmetry. exact Hi.
  - apply IH; [assumption|]. intros Hi. apply Hn. right. exact Hi.
Qed.

(* ------------------------------------------------------------------ well-formed queue *)
Definition wfk (n : nat) (q : list entry) : Prop :=
  NoDup (map e_id q) /\ Forall (fun x => (e_id x < n)%nat) q.

Lemma wfk_incl n q q' : NoDup (map e_id q') -> incl q' q -> wfk n q -> wfk n q'.
Proof.
  intros Hnd Hi [_ Hlt]. split; [exact Hnd|]. rewrite Forall_forall in *. intros x Hx. apply Hlt, Hi, Hx.
Qed.

Lemma wfk_remove n q i : wfk n q -> wfk n (remove_id i q).
Proof. intros H. eapply wfk_incl; [apply remove_id_NoDup, H|apply remove_id_incl|exact H]. Qed.

Lemma wfk_discard n q f : wfk n q -> wfk n (discard_dead f q).
Proof. intros H. eapply wfk_incl; [apply discard_dead_NoDup, H|apply discard_dead_incl|exact H]. Qed.

Lemma wfk_post n q t p e prog rep : wfk n q -> wfk (S n) (mk_entry t n p e prog rep :: q).
Proof.
  intros [Hnd Hlt]. split; cbn.
  - constructor; [|exact Hnd]. intros Hin. apply in_map_iff in Hin. destruct Hin as [y [Hy Hin]].
    rewrite Forall_forall in Hlt. specialize (Hlt y Hin). lia.
  - constructor; [cbn; lia|]. eapply Forall_impl; [|exact Hlt]. cbn. intros; lia.
Qed.

Lemma wfk_kill n q i : wfk n q -> wfk n (kill i q).
Proof.
  intros [Hnd Hlt]. split; [rewrite kill_ids; exact Hnd|].
  rewrite Forall_forall in *. intros y Hy. apply kill_in in Hy.
  destruct Hy as [[Hy _]|[x [Hx [_ ->]]]]; [apply Hlt, Hy|]. cbn. apply Hlt, Hx.
Qed.

Lemma wfk_umove c n q o c' n' q' o' : umove (c, n, q, o) (c', n', q', o') -> wfk n q -> wfk n' q'.
Proof.
  intros H. inversion H; subst; intros Hw; auto using wfk_post, wfk_kill.
Qed.

Lemma wfk_umoves k k' : umoves k k' -> wfk (snd (fst (fst k))) (snd (fst k)) -> wfk (snd (fst (fst k'))) (snd (fst k')).
Proof.
  induction 1 as [|k1 k2 k3 H _ IH]; [auto|]. intros Hw. apply IH.
  destruct k1 as [[[c n] q] o], k2 as [[[c' n'] q'] o']. cbn in *. eapply wfk_umove; eassumption.
Qed.

(* ------------------------------------------------------------------ conservation of a live entry *)
(* a live entry is in the queue, or has fired, or has been un-posted (and the user was told its time) *)
Definition unposted (y : entry) : obs := OUnpost (e_id y) (Some (Some (e_time y))).
Definition cons_of (y : entry) (q : list entry) (lg : list entry) (o : list obs) : Prop :=
  In y q \/ In y lg \/ In (unposted y) o.

Lemma cons_umove y c n q o c' n' q' o' lg : e_live y = true -> wfk n q ->
  umove (c, n, q, o) (c', n', q', o') -> cons_of y q lg o -> cons_of y q' lg o'.
Proof.
  intros Hl Hw H. unfold cons_of. inversion H; subst; intros [Hq|[Hg|Ho]]; auto using in_cons.
  - (* kill *) destruct (Nat.eq_dec (e_id y) i) as [E|E].
    + right. right. left.
      match goal with F : find_live _ _ = Some _ |- _ => apply find_live_some in F; destruct F as [Hx [Hi _]] end.
      assert (x = y) by (eapply NoDup_id_inj; [apply Hw|assumption|assumption|congruence]).
      subst x. unfold unposted. rewrite E. reflexivity.
    + left. apply kill_keeps; assumption.
Qed.

Lemma cons_umoves y lg k k' : e_live y = true -> umoves k k' ->
  wfk (snd (fst (fst k))) (snd (fst k)) ->
  cons_of y (snd (fst k)) lg (snd k) -> cons_of y (snd (fst k')) lg (snd k').
Proof.
  intros Hl. induction 1 as [|k1 k2 k3 H H' IH]; [auto|]. intros Hw Hc.
  destruct k1 as [[[c n] q] o], k2 as [[[c' n'] q'] o']. cbn in *.
  apply IH; [eapply wfk_umove; eassumption|eapply cons_umove; eassumption].
Qed.

Lemma cons_emit y q lg o x : cons_of y q lg o -> cons_of y q lg (x :: o).
Proof. unfold cons_of. intros [H|[H|H]]; auto using in_cons. Qed.

Lemma cons_discard y n q lg o f : e_live y = true -> wfk n q -> cons_of y q lg o -> cons_of y (discard_dead f q) lg o.
Proof.
  unfold cons_of. intros Hl Hw [H|[H|H]]; auto. left. apply discard_dead_keeps_live; [apply Hw|assumption..].
Qed.

Lemma cons_pop y n q lg o h : wfk n q -> In h q -> cons_of y q lg o ->
  cons_of y (remove_id (e_id h) q) (lg ++ [h]) (hrec h :: o).
Proof.
  unfold cons_of. intros Hw Hh [H|[H|H]].
  - destruct (Nat.eq_dec (e_id y) (e_id h)) as [E|E].
    + right. left. assert (y = h) by (eapply NoDup_id_inj; [apply Hw|eassumption..]). subst. apply in_or_app. right. left. reflexivity.
    + left. apply remove_id_keeps; assumption.
  - right. left. apply in_or_app. left. exact H.
  - right. right. right. exact H.
Qed.

Lemma cons_log y q lg o l : cons_of y q lg o -> cons_of y q (lg ++ l) o.
Proof. unfold cons_of. intros [H|[H|H]]; auto. right. left. apply in_or_app. left. exact H. Qed.

(* ------------------------------------------------------------------ the ghost-log invariant *)
Definition is_ph (x : obs) : bool := match x with OHandler _ _ _ _ None => true | _ => false end.

(* records that the invariant does not depend on: everything but successful posts / un-posts and
   posted-handler records *)
Definition gneutral (x : obs) : bool :=
  match x with
  | OHandler _ _ _ _ None | OPosted _ _ | OUnpost _ (Some (Some _)) => false
  | _ => true
  end.

Lemma neutral_gneutral x : neutral x = true -> gneutral x = true.
Proof. destruct x as [? ? ? ? [m|]| | | | |? [[r|]|]| |]; cbn; congruence. Qed.

Record ginv2 (n : nat) (q : list entry) (o : list obs) (lg lgr : list entry) : Prop := {
  g_wf : wfk n q;
  (* fired ids are gone for good *)
  g_fired : forall x, In x lg -> (e_id x < n)%nat /\ ~ In (e_id x) (map e_id q) /\ e_live x = true;
  g_nodup : NoDup (map e_id lg);
  (* the posted-handler records are those of the fired entries, in order *)
  g_hrec : filter is_ph o = map hrec (rev lg);
  (* every id handed to the user names an entry with the time it was posted for *)
  g_posted : forall i tt, In (OPosted i tt) o ->
     exists x, e_id x = i /\ e_time x = tt /\ e_live x = true /\ cons_of x q lg o;
  (* an un-posted id is dead and never fires *)
  g_unposted : forall i r, In (OUnpost i (Some (Some r))) o ->
     (i < n)%nat /\ (forall y, In y q -> e_id y = i -> e_live y = false) /\ ~ In i (map e_id lg);
  (* a repeating entry that fired has posted its successor *)
  g_rep : forall x ddt, In x lgr -> e_rep x = Some ddt -> 0 <= ddt ->
     exists y, succ_of x ddt y /\ cons_of y q lg o }.
Definition ginv n q o lg := ginv2 n q o lg lg.

Lemma succ_live x ddt y : succ_of x ddt y -> e_live y = true.
Proof. intros ->. reflexivity. Qed.

Lemma ginv_emit n q o lg lgr x : gneutral x = true -> ginv2 n q o lg lgr -> ginv2 n q (x :: o) lg lgr.
Proof.
  intros Hx [G1 G2 G3 G4 G5 G7 G8]. split; [exact G1|exact G2|exact G3|..].
  - cbn. replace (is_ph x) with false; [exact G4|]. destruct x as [? ? ? ? [m|]| | | | | | |]; cbn in *; congruence.
  - intros i tt [E|H]; [subst x; discriminate|]. destruct (G5 i tt H) as [y [A [B [C D]]]].
    exists y. auto using cons_emit.
  - intros i r [E|H]; [subst x; discriminate|]. exact (G7 i r H).
  - intros y ddt Hy Hr Hd. destruct (G8 y ddt Hy Hr Hd) as [z [A B]]. exists z. auto using cons_emit.
Qed.

Lemma ginv_umove c n q o c' n' q' o' lg lgr : umove (c, n, q, o) (c', n', q', o') -> ginv2 n q o lg lgr -> ginv2 n' q' o' lg lgr.
Proof.
  intros H G. pose proof G as [G1 G2 G3 G4 G5 G7 G8].
  assert (Hcons : forall y, e_live y = true -> cons_of y q lg o -> cons_of y q' lg o')
    by (intros y Hl; eapply cons_umove; eassumption).
  inversion H; subst.
  - apply ginv_emit; [apply neutral_gneutral|]; assumption.
  - (* post *) split; auto using wfk_post.
    + intros x Hx. destruct (G2 x Hx) as [A [B C]]. split; [lia|split; [|exact C]]. cbn. intros [E|E]; [lia|auto].
    + intros i tt Hi. destruct (G5 i tt Hi) as [y [A [B [C D]]]]. exists y. auto 6.
    + intros i r Hi. destruct (G7 i r Hi) as [A [B C]]. split; [lia|split; [|exact C]].
      intros y [<-|Hy] E; [cbn in E; lia|auto].
    + intros x ddt Hx Hr Hd. destruct (G8 x ddt Hx Hr Hd) as [y [A B]]. exists y.
      split; [exact A|]. apply Hcons; [eapply succ_live; eassumption|exact B].
  - (* OPosted record *) split; auto.
    + intros i tt [E|Hi].
      * injection E as <- <-. exists x. split; [reflexivity|split; [reflexivity|split; [assumption|]]]. left. assumption.
      * destruct (G5 i tt Hi) as [y [A [B [C D]]]]. exists y. auto 6 using cons_emit.
    + intros i r [E|Hi]; [discriminate|exact (G7 i r Hi)].
    + intros y ddt Hy Hr Hd. destruct (G8 y ddt Hy Hr Hd) as [z [A B]]. exists z. auto using cons_emit.
  - (* kill *)
    match goal with F : find_live _ _ = Some _ |- _ => pose proof (find_live_some _ _ _ F) as [Hx [Hi Hlx]] end.
    split; auto using wfk_kill.
    + intros y Hy. rewrite kill_ids. exact (G2 y Hy).
    + intros j tt [E|Hj]; [discriminate|]. destruct (G5 j tt Hj) as [y [A [B [C D]]]]. exists y. auto 6.
    + intros j r [E|Hj].
      * injection E as <- <-. split; [|split].
        -- destruct G1 as [_ Hlt]. rewrite Forall_forall in Hlt. rewrite <- Hi. apply Hlt, Hx.
        -- intros y Hy E. apply kill_in in Hy. destruct Hy as [[_ Hne]|[z [_ [_ ->]]]]; [contradiction|reflexivity].
        -- intros Hin. apply in_map_iff in Hin. destruct Hin as [z [Hz Hin]].
           destruct (G2 z Hin) as [_ [Hn _]]. apply Hn. rewrite Hz, <- Hi. apply in_map, Hx.
      * destruct (G7 j r Hj) as [A [B C]]. split; [exact A|split; [|exact C]].
        intros y Hy E. apply kill_in in Hy. destruct Hy as [[Hy _]|[z [_ [_ ->]]]]; [auto|reflexivity].
    + intros y ddt Hy Hr Hd. destruct (G8 y ddt Hy Hr Hd) as [z [A B]]. exists z.
      split; [exact A|]. apply Hcons; [eapply succ_live; eassumption|exact B].
Qed.

Lemma ginv_umoves k k' lg lgr : umoves k k' ->
  ginv2 (snd (fst (fst k))) (snd (fst k)) (snd k) lg lgr -> ginv2 (snd (fst (fst k'))) (snd (fst k')) (snd k') lg lgr.
Proof.
  induction 1 as [|k1 k2 k3 H _ IH]; [auto|]. intros G. apply IH.
  destruct k1 as [[[c n] q] o], k2 as [[[c' n'] q'] o']. cbn in *. eapply ginv_umove; eassumption.
Qed.

Lemma ginv_discard n q o lg lgr f : ginv2 n q o lg lgr -> ginv2 n (discard_dead f q) o lg lgr.
Proof.
  intros [G1 G2 G3 G4 G5 G7 G8]. split; auto using wfk_discard.
  - intros x Hx. destruct (G2 x Hx) as [A [B C]]. split; [exact A|split; [|exact C]].
    intros Hin. apply B. apply in_map_iff in Hin. destruct Hin as [z [Hz Hin]].
    apply in_map_iff. exists z. split; [exact Hz|]. eapply discard_dead_incl; eassumption.
  - intros i tt Hi. destruct (G5 i tt Hi) as [y [A [B [C D]]]]. exists y.
    split; [exact A|split; [exact B|split; [exact C|]]]. eapply cons_discard; eassumption.
  - intros i r Hi. destruct (G7 i r Hi) as [A [B C]]. split; [exact A|split; [|exact C]].
    intros y Hy. apply B. eapply discard_dead_incl; eassumption.
  - intros x ddt Hx Hr Hd. destruct (G8 x ddt Hx Hr Hd) as [y [A B]]. exists y. split; [exact A|].
    eapply cons_discard; [eapply succ_live; eassumption|eassumption..].
Qed.

(* popping the live head: its record goes out, it joins the log; the successor of a repeating
   head is not there yet, so [g_rep] still ranges over the old log *)
Lemma ginv_pop n q o lg h : head q = Some h -> e_live h = true -> ginv n q o lg ->
  ginv2 n (remove_id (e_id h) q) (hrec h :: o) (lg ++ [h]) lg.
Proof.
  intros Hh Hl [G1 G2 G3 G4 G5 G7 G8]. pose proof (head_in _ _ Hh) as Hin.
  split; auto using wfk_remove.
  - intros x Hx. apply in_app_or in Hx. destruct Hx as [Hx|[<-|[]]].
    + destruct (G2 x Hx) as [A [B C]]. split; [exact A|split; [|exact C]].
      intros Hi. apply B. apply in_map_iff in Hi. destruct Hi as [z [Hz Hi]].
      apply in_map_iff. exists z. split; [exact Hz|]. eapply remove_id_incl; eassumption.
    + split; [|split; [|exact Hl]].
      * destruct G1 as [_ Hlt]. rewrite Forall_forall in Hlt. apply Hlt, Hin.
      * apply remove_id_gone, G1.
  - rewrite map_app. cbn. apply NoDup_app_one; [exact G3|].
    intros Hi. apply in_map_iff in Hi. destruct Hi as [z [Hz Hi]]. destruct (G2 z Hi) as [_ [B _]].
    apply B. rewrite Hz. apply in_map, Hin.
  - cbn. rewrite G4, rev_app_distr. reflexivity.
  - intros i tt [E|Hi]; [discriminate|]. destruct (G5 i tt Hi) as [y [A [B [C D]]]]. exists y.
    split; [exact A|split; [exact B|split; [exact C|]]]. eapply cons_pop; eassumption.
  - intros i r [E|Hi]; [discriminate|]. destruct (G7 i r Hi) as [A [B C]]. split; [exact A|split].
    + intros y Hy. apply B. eapply remove_id_incl; eassumption.
    + rewrite map_app. cbn. intros Hx. apply in_app_or in Hx. destruct Hx as [Hx|[Hx|[]]]; [auto|].
      rewrite (B h Hin Hx) in Hl. discriminate.
  - intros x ddt Hx Hr Hd. destruct (G8 x ddt Hx Hr Hd) as [y [A B]]. exists y. split; [exact A|].
    eapply cons_pop; eassumption.
Qed.

(* once the handler has returned, the successor of a repeating head is queued *)
Lemma ginv_close n q o lg h : ginv2 n q o (lg ++ [h]) lg ->
  (forall ddt, e_rep h = Some ddt -> 0 <= ddt -> exists y, succ_of h ddt y /\ In y q) ->
  ginv n q o (lg ++ [h]).
Proof.
  intros [G1 G2 G3 G4 G5 G7 G8] Hs. split; auto.
  intros x ddt Hx Hr Hd. apply in_app_or in Hx. destruct Hx as [Hx|[<-|[]]]; [eauto|].
  destruct (Hs ddt Hr Hd) as [y [A B]]. exists y. split; [exact A|left; exact B].
Qed.

Lemma ginv_kmove c n q o l c' n' q' o' lg : kmove (c, n, q, o) l (c', n', q', o') ->
  ginv n q o lg -> ginv n' q' o' (lg ++ l).
Proof.
  intros H G. inversion H; subst.
  - rewrite app_nil_r. apply (ginv_umoves _ _ lg lg H0 G).
  - rewrite app_nil_r. apply ginv_discard, G.
  - rewrite app_nil_r. exact G.
  - apply ginv_emit; [reflexivity|]. apply ginv_close; [|assumption].
    match goal with U : umoves _ _ |- _ => apply (ginv_umoves _ _ (lg ++ [h]) lg U) end. cbn.
    apply ginv_pop; assumption.
  - rewrite app_nil_r. apply ginv_emit; [reflexivity|].
    match goal with U : umoves _ _ |- _ => apply (ginv_umoves _ _ lg lg U) end. cbn.
    apply ginv_emit; [reflexivity|exact G].
Qed.

Lemma ginv_kmoves k l k' lg : kmoves k l k' ->
  ginv (snd (fst (fst k))) (snd (fst k)) (snd k) lg -> ginv (snd (fst (fst k'))) (snd (fst k')) (snd k') (lg ++ l).
Proof.
  intros H. revert lg. induction H as [|k1 l1 k2 l2 k3 H _ IH]; intros lg G; [rewrite app_nil_r; exact G|].
  rewrite app_assoc. apply IH.
  destruct k1 as [[[c n] q] o], k2 as [[[c' n'] q'] o']. cbn in *. eapply ginv_kmove; eassumption.
Qed.

Lemma ginv_init : ginv 0 [] [] [].
Proof.
  split; cbn; try (intros; contradiction); try constructor; try constructor.
Qed.

(* ------------------------------------------------------------------ the loops are sequences of moves *)
Section Runs.
Context {W : Type}.
Implicit Types s : st W.

Lemma osame_core s s' : osame s s' -> core_of s' = core_of s.
Proof. intros [H _]. exact H. Qed.

Lemma osame_clock s s' : osame s s' -> clock s' = clock s.
Proof. intros [H _]. unfold core_of in H. congruence. Qed.

Lemma discard_kmoves s : kmoves (core_of s) [] (core_of (discard s)).
Proof. apply kmoves_one, km_discard. Qed.

Lemma set_clock_kmoves t s : kmoves (core_of s) [] (core_of (set_clock t s)).
Proof. apply kmoves_one, km_clock. Qed.

Lemma fire_tranche_kmoves tb t evs nev s nev' s' : clock s = t ->
  fire_tranche tb t evs nev s = (nev', s') -> kmoves (core_of s) [] (core_of s') /\ clock s' = t.
Proof.
  intros Hc H.
  apply (fire_tranche_inv tb t (fun _ s1 => kmoves (core_of s) [] (core_of s1) /\ clock s1 = t)) in H; [exact H| |].
  - intros _ s1 x e [A B]. split.
    + apply (kmoves_trans _ [] _ [] _ A). apply kmoves_one, fire_event_kmove, B.
    + rewrite fire_event_clock. exact B.
  - split; [apply ks_refl|exact Hc].
Qed.

Lemma stoch_loopL_kmoves tb pf fuel t ev s t' ev' s' l :
  stoch_loopL tb pf fuel t ev s = (t', ev', s', l) -> kmoves (core_of s) l (core_of s').
Proof.
  intros H.
  apply (stoch_loopL_inv tb pf (fun _ _ s1 lg => kmoves (core_of s) lg (core_of s1))) with (lg := []) in H; [exact H|..].
  - intros _ _ s1 lg K. exact K.
  - intros t1 _ s1 lg r K _ Hs. destruct Hs.
    + rewrite <- (app_nil_r lg). eapply kmoves_trans; [exact K|apply discard_kmoves].
    + exact K.
    + eapply kmoves_trans; [exact K|]. apply (kmoves_trans _ [] _ l0 _ (discard_kmoves s1)).
      eapply run_pendingL_kmoves; eassumption.
    + eapply kmoves_trans; [exact K|]. rewrite <- (app_nil_r l0).
      eapply kmoves_trans; [|apply set_clock_kmoves].
      rewrite <- (osame_core _ _ H0). eapply run_pendingL_kmoves; eassumption.
    + eapply kmoves_trans; [exact K|]. rewrite <- (app_nil_r l0).
      eapply kmoves_trans; [rewrite <- (osame_core _ _ H0); eapply run_pendingL_kmoves; eassumption|].
      apply (kmoves_trans _ [] _ [] _ (set_clock_kmoves nt s4)).
      rewrite <- (osame_core _ _ H3). apply kmoves_one, fire_event_kmove.
      rewrite (osame_clock _ _ H3). reflexivity.
  - apply ks_refl.
Qed.

Lemma sync_loopL_kmoves tb pf fuel t ev k s t' ev' k' s' l :
  sync_loopL tb pf fuel t ev k s = (t', ev', k', s', l) -> kmoves (core_of s) l (core_of s').
Proof.
  intros H.
  apply (sync_loopL_inv tb pf (fun _ _ _ s1 lg => kmoves (core_of s) lg (core_of s1))) with (lg := []) in H; [exact H|..].
  - intros _ _ _ s1 lg K. exact K.
  - intros t1 _ _ s1 lg nev s3 l0 K _ Hs. inversion Hs as [n s0 l1 s2 evs nev1 s31 Hrp Hos Hft]; subst.
    eapply kmoves_trans; [exact K|]. rewrite <- (app_nil_r l0).
    eapply kmoves_trans; [apply (kmoves_trans _ [] _ l0 _ (set_clock_kmoves t1 s1)); eapply run_pendingL_kmoves; eassumption|].
    apply (kmoves_trans _ [] _ [] _ (set_clock_kmoves t1 s0)).
    rewrite <- (osame_core _ _ Hos).
    eapply fire_tranche_kmoves; [|eassumption]. rewrite (osame_clock _ _ Hos). reflexivity.
  - apply ks_refl.
Qed.

(* the runs, with the log of fired entries *)
Definition stoch_runL (tb : table W) (pf fuel : nat) (rs ls : list Q) (ds : list nat) :=
  stoch_loopL tb pf fuel 0 0 (setup_state tb rs ls ds).
Definition sync_runL (tb : table W) (pf fuel : nat) (rs : list Q) (ds : list nat) :=
  sync_loopL tb pf fuel 1 0 0 (setup_state tb rs [] ds).
Definition stoch_fired tb pf fuel rs ls ds : list entry := snd (stoch_runL tb pf fuel rs ls ds).
Definition sync_fired tb pf fuel rs ds : list entry := snd (sync_runL tb pf fuel rs ds).

Lemma stoch_run_eq tb pf fuel rs ls ds :
  stoch_run tb pf fuel rs ls ds =
  let '(t, ev, s, _) := stoch_runL tb pf fuel rs ls ds in
  {| r_time := t; r_events := ev; r_steps := 0; r_out := rev (out s); r_stuck := stuck s; r_final := s |}.
Proof.
  unfold stoch_run, stoch_runL. rewrite <- stoch_loopL_fst.
  destruct (stoch_loopL tb pf fuel 0 0 _) as [[[t ev] s] l]. reflexivity.
Qed.

Lemma sync_run_eq tb pf fuel rs ds :
  sync_run tb pf fuel rs ds =
  let '(t, ev, k, s, _) := sync_runL tb pf fuel rs ds in
  {| r_time := t; r_events := ev; r_steps := k; r_out := rev (out s); r_stuck := stuck s; r_final := s |}.
Proof.
  unfold sync_run, sync_runL. rewrite <- sync_loopL_fst.
  destruct (sync_loopL tb pf fuel 1 0 0 _) as [[[[t ev] k] s] l]. reflexivity.
Qed.

Lemma setup_kmoves (tb : table W) rs ls ds : kmoves (0, 0%nat, [], []) [] (core_of (setup_state tb rs ls ds)).
Proof. apply kmoves_u. apply (proj1 (setup_state_umoves tb rs ls ds)). Qed.

Lemma stoch_run_kmoves (tb : table W) pf fuel rs ls ds :
  kmoves (0, 0%nat, [], []) (stoch_fired tb pf fuel rs ls ds) (core_of (r_final (stoch_run tb pf fuel rs ls ds))).
Proof.
  rewrite stoch_run_eq. unfold stoch_fired. destruct (stoch_runL tb pf fuel rs ls ds) as [[[t ev] s] l] eqn:E.
  cbn. apply (kmoves_trans _ [] _ l _ (setup_kmoves tb rs ls ds)). eapply stoch_loopL_kmoves. exact E.
Qed.

Lemma sync_run_kmoves (tb : table W) pf fuel rs ds :
  kmoves (0, 0%nat, [], []) (sync_fired tb pf fuel rs ds) (core_of (r_final (sync_run tb pf fuel rs ds))).
Proof.
  rewrite sync_run_eq. unfold sync_fired. destruct (sync_runL tb pf fuel rs ds) as [[[[t ev] k] s] l] eqn:E.
  cbn. apply (kmoves_trans _ [] _ l _ (setup_kmoves tb rs [] ds)). eapply sync_loopL_kmoves. exact E.
Qed.

Definition ginv_st s lg : Prop := ginv (nextid s) (queue s) (out s) lg.

Lemma ginv_kmoves_st s l s' lg : kmoves (core_of s) l (core_of s') -> ginv_st s lg -> ginv_st s' (lg ++ l).
Proof. intros K G. apply (ginv_kmoves _ _ _ lg K G). Qed.

Lemma stoch_run_ginv tb pf fuel rs ls ds :
  ginv_st (r_final (stoch_run tb pf fuel rs ls ds)) (stoch_fired tb pf fuel rs ls ds).
Proof. apply (ginv_kmoves _ _ _ [] (stoch_run_kmoves tb pf fuel rs ls ds) ginv_init). Qed.

Lemma sync_run_ginv tb pf fuel rs ds :
  ginv_st (r_final (sync_run tb pf fuel rs ds)) (sync_fired tb pf fuel rs ds).
Proof. apply (ginv_kmoves _ _ _ [] (sync_run_kmoves tb pf fuel rs ds) ginv_init). Qed.

End Runs.
