(* C04 at the level of single operations and of run_pending from an arbitrary well-formed state:
   frame property of moves (they never read the output), conservation of live entries,
   ids that are gone stay gone, the head after discarding is the least live entry. *)
From Coq Require Import List ZArith QArith Qabs Bool Arith Lia Lqa Sorted.
From EpyV Require Import Model.Kernel Proofs.KernelBase Proofs.KernelLoops Proofs.KernelQueue.
Import ListNotations.
Open Scope Q_scope.

(* ------------------------------------------------------------------ moves do not read the output *)
Lemma umove_frame c n q o c' n' q' o' : umove (c, n, q, o) (c', n', q', o') ->
  exists d, o' = d ++ o /\ forall o2, umove (c, n, q, o2) (c', n', q', d ++ o2).
Proof.
  intros H. inversion H; subst.
  - exists [x]. split; [reflexivity|]. intros o2. apply um_emit. assumption.
  - exists []. split; [reflexivity|]. intros o2. apply um_post. assumption.
  - exists [OPosted (e_id x) (e_time x)]. split; [reflexivity|]. intros o2. apply um_posted; assumption.
  - exists [OUnpost i (Some (Some (e_time x)))]. split; [reflexivity|]. intros o2. apply um_kill. assumption.
Qed.

Lemma umoves_frame k k' : umoves k k' ->
  exists d, snd k' = d ++ snd k /\ forall o2, umoves (fst k, o2) (fst k', d ++ o2).
Proof.
  induction 1 as [k|k1 k2 k3 H _ IH].
  - exists []. split; [reflexivity|]. intros o2. apply us_refl.
  - destruct IH as [d2 [E2 F2]].
    destruct k1 as [[[c n] q] o], k2 as [[[c' n'] q'] o']. destruct (umove_frame _ _ _ _ _ _ _ _ H) as [d1 [E1 F1]].
    exists (d2 ++ d1). cbn in *. split; [rewrite E2, E1, app_assoc; reflexivity|].
    intros o2. eapply us_step; [apply F1|]. rewrite <- app_assoc. apply F2.
Qed.

Lemma kmove_frame c n q o l c' n' q' o' : kmove (c, n, q, o) l (c', n', q', o') ->
  exists d, o' = d ++ o /\ forall o2, kmove (c, n, q, o2) l (c', n', q', d ++ o2).
Proof.
  intros H. inversion H; subst.
  - match goal with U : umoves _ _ |- _ => destruct (umoves_frame _ _ U) as [d [E F]] end. cbn in *.
    exists d. split; [exact E|]. intros ox. apply km_u, F.
  - exists []. split; [reflexivity|]. intros ox. apply km_discard.
  - exists []. split; [reflexivity|]. intros ox. apply km_clock.
  - match goal with U : umoves _ _ |- _ => destruct (umoves_frame _ _ U) as [d [E F]] end. cbn in *.
    exists (trec h :: d ++ [hrec h]). split; [cbn; rewrite E, <- app_assoc; reflexivity|].
    intros ox. cbn. rewrite <- app_assoc. cbn. apply km_posted; [assumption|assumption| |assumption].
    apply (F (hrec h :: ox)).
  - match goal with U : umoves _ _ |- _ => destruct (umoves_frame _ _ U) as [d [E F]] end. cbn in *.
    exists (OTap c' pi (NEv pi j) e :: d ++ [OHandler k c' c' e (Some m)]).
    split; [cbn; rewrite E, <- app_assoc; reflexivity|].
    intros ox. cbn. rewrite <- app_assoc. cbn. eapply km_event. apply (F (_ :: ox)).
Qed.

Lemma kmoves_frame k l k' : kmoves k l k' ->
  exists d, snd k' = d ++ snd k /\ forall o2, kmoves (fst k, o2) l (fst k', d ++ o2).
Proof.
  induction 1 as [k|k1 l1 k2 l2 k3 H _ IH].
  - exists []. split; [reflexivity|]. intros o2. apply ks_refl.
  - destruct IH as [d2 [E2 F2]].
    destruct k1 as [[[c n] q] o], k2 as [[[c' n'] q'] o']. destruct (kmove_frame _ _ _ _ _ _ _ _ _ H) as [d1 [E1 F1]].
    exists (d2 ++ d1). cbn in *. split; [rewrite E2, E1, app_assoc; reflexivity|].
    intros o2. eapply ks_step; [apply F1|]. rewrite <- app_assoc. apply F2.
Qed.

(* ------------------------------------------------------------------ well-formedness and conservation along moves *)
Lemma wfk_kmove c n q o l c' n' q' o' : kmove (c, n, q, o) l (c', n', q', o') -> wfk n q -> wfk n' q'.
Proof.
  intros H Hw. inversion H; subst; auto using wfk_discard.
  - match goal with U : umoves _ _ |- _ => apply (wfk_umoves _ _ U Hw) end.
  - match goal with U : umoves _ _ |- _ => apply (wfk_umoves _ _ U) end. cbn. apply wfk_remove, Hw.
  - match goal with U : umoves _ _ |- _ => apply (wfk_umoves _ _ U Hw) end.
Qed.

Lemma wfk_kmoves k l k' : kmoves k l k' ->
  wfk (snd (fst (fst k))) (snd (fst k)) -> wfk (snd (fst (fst k'))) (snd (fst k')).
Proof.
  induction 1 as [|k1 l1 k2 l2 k3 H _ IH]; [auto|]. intros Hw. apply IH.
  destruct k1 as [[[c n] q] o], k2 as [[[c' n'] q'] o']. cbn in *. eapply wfk_kmove; eassumption.
Qed.

Lemma cons_kmove y c n q o l c' n' q' o' lg : e_live y = true -> wfk n q ->
  kmove (c, n, q, o) l (c', n', q', o') -> cons_of y q lg o -> cons_of y q' (lg ++ l) o'.
Proof.
  intros Hl Hw H C. inversion H; subst.
  - rewrite app_nil_r. match goal with U : umoves _ _ |- _ => apply (cons_umoves y lg _ _ Hl U Hw C) end.
  - rewrite app_nil_r. eapply cons_discard; eassumption.
  - rewrite app_nil_r. exact C.
  - apply cons_emit.
    match goal with U : umoves _ _ |- _ => apply (cons_umoves y (lg ++ [h]) _ _ Hl U) end; cbn.
    + apply wfk_remove, Hw.
    + eapply cons_pop; [exact Hw|apply head_in; assumption|exact C].
  - rewrite app_nil_r. apply cons_emit.
    match goal with U : umoves _ _ |- _ => apply (cons_umoves y lg _ _ Hl U Hw) end. cbn. apply cons_emit, C.
Qed.

Lemma cons_kmoves y k l k' lg : e_live y = true -> kmoves k l k' ->
  wfk (snd (fst (fst k))) (snd (fst k)) ->
  cons_of y (snd (fst k)) lg (snd k) -> cons_of y (snd (fst k')) (lg ++ l) (snd k').
Proof.
  intros Hl H. revert lg. induction H as [|k1 l1 k2 l2 k3 H _ IH]; intros lg Hw C; [rewrite app_nil_r; exact C|].
  rewrite app_assoc.
  destruct k1 as [[[c n] q] o], k2 as [[[c' n'] q'] o']. cbn in *.
  apply IH; [eapply wfk_kmove; eassumption|eapply cons_kmove; eassumption].
Qed.

(* ------------------------------------------------------------------ an id that is no longer pending stays so *)
(* [gone i]: id i was allocated and no live entry carries it (fired, or un-posted and lazily deleted) *)
Definition gone (i n : nat) (q : list entry) : Prop := (i < n)%nat /\ find_live i q = None.

Lemma gone_umove i c n q o c' n' q' o' : umove (c, n, q, o) (c', n', q', o') -> gone i n q -> gone i n' q'.
Proof.
  intros H [A B]. inversion H; subst; try (split; assumption).
  - split; [lia|]. apply find_live_none. intros y [<-|Hy] E; [cbn in E; lia|].
    rewrite find_live_none in B. auto.
  - split; [exact A|]. apply find_live_none. intros y Hy E. rewrite find_live_none in B.
    apply kill_in in Hy. destruct Hy as [[Hy _]|[z [_ [_ ->]]]]; [auto|reflexivity].
Qed.

Lemma gone_umoves i k k' : umoves k k' ->
  gone i (snd (fst (fst k))) (snd (fst k)) -> gone i (snd (fst (fst k'))) (snd (fst k')).
Proof.
  induction 1 as [|k1 k2 k3 H _ IH]; [auto|]. intros G. apply IH.
  destruct k1 as [[[c n] q] o], k2 as [[[c' n'] q'] o']. cbn in *. eapply gone_umove; eassumption.
Qed.

Lemma gone_incl i n q q' : incl q' q -> gone i n q -> gone i n q'.
Proof.
  intros Hi [A B]. split; [exact A|]. rewrite find_live_none in *. intros y Hy. apply B, Hi, Hy.
Qed.

Lemma gone_kmove i c n q o l c' n' q' o' : kmove (c, n, q, o) l (c', n', q', o') ->
  gone i n q -> gone i n' q' /\ ~ In i (map e_id l).
Proof.
  intros H G. inversion H; subst.
  - split; [|intros []]. match goal with U : umoves _ _ |- _ => apply (gone_umoves i _ _ U G) end.
  - split; [|intros []]. eapply gone_incl; [apply discard_dead_incl|exact G].
  - split; [|intros []]. exact G.
  - split.
    + match goal with U : umoves _ _ |- _ => apply (gone_umoves i _ _ U) end. cbn.
      eapply gone_incl; [apply remove_id_incl|exact G].
    + cbn. intros [E|[]]. destruct G as [_ B]. rewrite find_live_none in B.
      match goal with Hh : head q = Some h, Hl : e_live h = true |- _ =>
        rewrite (B h (head_in _ _ Hh) E) in Hl; discriminate end.
  - split; [|intros []]. match goal with U : umoves _ _ |- _ => apply (gone_umoves i _ _ U G) end.
Qed.

Lemma gone_kmoves i k l k' : kmoves k l k' ->
  gone i (snd (fst (fst k))) (snd (fst k)) -> gone i (snd (fst (fst k'))) (snd (fst k')) /\ ~ In i (map e_id l).
Proof.
  induction 1 as [|k1 l1 k2 l2 k3 H _ IH]; [intros G; split; [exact G|intros []]|]. intros G.
  destruct k1 as [[[c n] q] o], k2 as [[[c' n'] q'] o']. cbn in *.
  destruct (gone_kmove i _ _ _ _ _ _ _ _ _ H G) as [G2 N1]. destruct (IH G2) as [G3 N2].
  split; [exact G3|]. rewrite map_app. intros Hi. apply in_app_or in Hi. tauto.
Qed.

Section Ops.
Context {W : Type}.
Implicit Types s : st W.

Definition gone_st (i : nat) s : Prop := gone i (nextid s) (queue s).

(* ------------------------------------------------------------------ post *)
Lemma post_rejected t p e prog rep s : Qltb t (clock s) = true -> post t p e prog rep s = (None, s).
Proof. unfold post. intros ->. reflexivity. Qed.

Lemma post_accepted t p e prog rep s : Qltb t (clock s) = false ->
  exists s', post t p e prog rep s = (Some (nextid s), s') /\
    queue s' = mk_entry t (nextid s) p e prog rep :: queue s /\ nextid s' = S (nextid s) /\
    clock s' = clock s /\ out s' = out s.
Proof. unfold post. intros ->. eexists. split; [reflexivity|]. cbn. auto. Qed.

(* ------------------------------------------------------------------ the head after discarding *)
Lemma discard_head_min_live s : wf s ->
  match head (queue (discard s)) with
  | None => forall x, In x (queue s) -> e_live x = false
  | Some h => In h (queue s) /\ e_live h = true /\
              forall x, In x (queue s) -> e_live x = true -> x = h \/ before h x = true
  end.
Proof.
  intros [Hnd Hlt]. destruct (head (queue (discard s))) as [h|] eqn:Eh.
  - pose proof (head_in _ _ Eh) as Hin. unfold discard in Hin. cbn in Hin.
    pose proof (discard_dead_incl _ _ _ Hin) as Hq. split; [exact Hq|split; [eapply discard_head_live; exact Eh|]].
    intros x Hx Hl.
    assert (Hx' : In x (queue (discard s))) by (unfold discard; cbn; apply discard_dead_keeps_live; assumption).
    pose proof (head_min _ _ Eh x Hx') as Hm.
    destruct (Nat.eq_dec (e_id x) (e_id h)) as [E|E].
    + left. eapply NoDup_id_inj; eassumption.
    + right. apply before_total; assumption.
  - apply head_none in Eh. intros x Hx. destruct (e_live x) eqn:El; [|reflexivity]. exfalso.
    assert (Hx' : In x (queue (discard s))) by (unfold discard; cbn; apply discard_dead_keeps_live; assumption).
    rewrite Eh in Hx'. exact Hx'.
Qed.

Lemma next_pending_time_spec s : wf s ->
  match fst (next_pending_time s) with
  | None => forall x, In x (queue s) -> e_live x = false
  | Some t => exists h, t = e_time h /\ In h (queue s) /\ e_live h = true /\
              forall x, In x (queue s) -> e_live x = true -> x = h \/ before h x = true
  end.
Proof.
  intros Hw. pose proof (discard_head_min_live s Hw) as H. unfold next_pending_time. cbn [fst].
  destruct (head (queue (discard s))) as [h|]; cbn; [exists h; split; [reflexivity|exact H]|exact H].
Qed.

(* ------------------------------------------------------------------ un-post / query *)
Definition the_id (k : nat) s : nat := nth (k mod length (ids s)) (ids s) 0%nat.

Lemma unpost_live p t e k fatal s x : ids s <> [] -> find_live (the_id k s) (queue s) = Some x ->
  do_action p t e (AUnpost k fatal) s =
  emit (OUnpost (the_id k s) (Some (Some (e_time x)))) (set_queue (kill (the_id k s) (queue s)) s).
Proof.
  intros Hi Hf. unfold the_id in *. cbn [do_action]. destruct (ids s) as [|i0 l0]; [contradiction|].
  rewrite Hf. reflexivity.
Qed.

Lemma unpost_dead p t e k fatal s : ids s <> [] -> find_live (the_id k s) (queue s) = None ->
  do_action p t e (AUnpost k fatal) s = emit (OUnpost (the_id k s) (if fatal then None else Some None)) s.
Proof.
  intros Hi Hf. unfold the_id in *. cbn [do_action]. destruct (ids s) as [|i0 l0]; [contradiction|].
  rewrite Hf. reflexivity.
Qed.

Lemma query_spec p t e k s : ids s <> [] ->
  do_action p t e (AQuery k) s = emit (OQuery (the_id k s) (option_map e_time (find_live (the_id k s) (queue s)))) s.
Proof. intros Hi. unfold the_id. cbn [do_action]. destruct (ids s) as [|i0 l0]; [contradiction|]. reflexivity. Qed.

Lemma unpost_makes_gone i s x : wf s -> find_live i (queue s) = Some x ->
  gone_st i (emit (OUnpost i (Some (Some (e_time x)))) (set_queue (kill i (queue s)) s)).
Proof.
  intros [_ Hlt] Hf. apply find_live_some in Hf. destruct Hf as [Hx [Hi _]].
  split; cbn; [|apply find_live_kill]. rewrite Forall_forall in Hlt. rewrite <- Hi. apply Hlt, Hx.
Qed.

(* ------------------------------------------------------------------ run_pending from any well-formed state *)
Lemma run_pendingL_not_stuck tb fuel t : forall n s n' s' l,
  run_pendingL tb fuel t n s = (n', s', l) -> stuck s' = false ->
  forall x, In x (queue s') -> e_live x = true -> t < e_time x.
Proof.
  induction fuel as [|f IH]; intros n s n' s' l; cbn [run_pendingL].
  - intros [= <- <- <-]. cbn. discriminate.
  - destruct (head (queue (discard s))) as [h|] eqn:Eh.
    2:{ intros [= <- <- <-] _. apply head_none in Eh. rewrite Eh. intros ? []. }
    destruct (Qle_bool (e_time h) t) eqn:Et.
    2:{ intros [= <- <- <-] _. apply Qle_bool_false in Et. intros x Hx _.
        pose proof (notbefore_time_le _ _ (head_min _ _ Eh x Hx)). lra. }
    destruct (run_pendingL tb f t (S n) _) as [[n1 s1] l1] eqn:E. intros [= <- <- <-] Hs.
    eapply IH; eassumption.
Qed.

Lemma run_pendingL_fired_le tb fuel t : forall n s n' s' l,
  run_pendingL tb fuel t n s = (n', s', l) -> forall x, In x l -> e_time x <= t /\ e_live x = true.
Proof.
  induction fuel as [|f IH]; intros n s n' s' l; cbn [run_pendingL].
  - intros [= <- <- <-] ? [].
  - destruct (head (queue (discard s))) as [h|] eqn:Eh; [|intros [= <- <- <-] ? []].
    destruct (Qle_bool (e_time h) t) eqn:Et; [|intros [= <- <- <-] ? []].
    destruct (run_pendingL tb f t (S n) _) as [[n1 s1] l1] eqn:E. intros [= <- <- <-] x [<-|Hx].
    + split; [apply Qle_bool_iff, Et|eapply discard_head_live; exact Eh].
    + eapply IH; eassumption.
Qed.

(* everything the ghost-log invariant says, for a run_pending from any well-formed state; [d] is
   the output produced by the call *)
Lemma run_pendingL_ginv tb fuel t n s n' s' l : wf s ->
  run_pendingL tb fuel t n s = (n', s', l) ->
  exists d, out s' = d ++ out s /\ ginv (nextid s') (queue s') d l.
Proof.
  intros Hw H. apply run_pendingL_kmoves in H. destruct (kmoves_frame _ _ _ H) as [d [E F]].
  exists d. split; [exact E|]. specialize (F []). rewrite app_nil_r in F.
  apply (ginv_kmoves _ _ _ [] F). cbn. split; cbn; try (intros; contradiction); try constructor; try apply Hw.
Qed.

Lemma run_pendingL_cons tb fuel t n s n' s' l y : wf s ->
  run_pendingL tb fuel t n s = (n', s', l) -> In y (queue s) -> e_live y = true ->
  In y l \/ In y (queue s') \/ In (unposted y) (out s').
Proof.
  intros Hw H Hy Hl. apply run_pendingL_kmoves in H.
  pose proof (cons_kmoves y _ _ _ [] Hl H Hw (or_introl Hy)) as C. cbn in C.
  destruct C as [C|[C|C]]; auto.
Qed.

Lemma run_pendingL_gone tb fuel t n s n' s' l i : gone_st i s ->
  run_pendingL tb fuel t n s = (n', s', l) -> gone_st i s' /\ ~ In i (map e_id l).
Proof. intros G H. apply run_pendingL_kmoves in H. apply (gone_kmoves i _ _ _ H G). Qed.

Lemma do_action_gone p t e a s i : gone_st i s -> gone_st i (do_action p t e a s).
Proof. intros G. apply (gone_umoves i _ _ (do_action_umoves p t e a s) G). Qed.

Lemma run_actions_gone p t e acts s i : gone_st i s -> gone_st i (run_actions p t e acts s).
Proof. intros G. apply (gone_umoves i _ _ (run_actions_umoves p t e acts s) G). Qed.

Lemma do_action_wf p t e a s : wf s -> wf (do_action p t e a s).
Proof. intros G. apply (wfk_umoves _ _ (do_action_umoves p t e a s) G). Qed.

Lemma run_pendingL_wf tb fuel t n s n' s' l : wf s -> run_pendingL tb fuel t n s = (n', s', l) -> wf s'.
Proof. intros Hw H. apply run_pendingL_kmoves in H. apply (wfk_kmoves _ _ _ H Hw). Qed.

End Ops.

(* ------------------------------------------------------------------ lazily deleted entries were un-posted by the user *)
Definition dinv (q : list entry) (o : list obs) : Prop :=
  forall x, In x q -> e_live x = false -> In (unposted x) o.

Lemma dinv_umove c n q o c' n' q' o' : wfk n q -> umove (c, n, q, o) (c', n', q', o') -> dinv q o -> dinv q' o'.
Proof.
  intros Hw H D. inversion H; subst.
  - intros y Hy Hl. right. auto.
  - intros y [<-|Hy] Hl; [discriminate|auto].
  - intros y Hy Hl. right. auto.
  - match goal with F : find_live _ _ = Some _ |- _ => pose proof (find_live_some _ _ _ F) as [Hx [Hi Hlx]] end.
    intros y Hy Hl. apply kill_in in Hy. destruct Hy as [[Hy _]|[z [Hz [Hzi ->]]]].
    + right. auto.
    + destruct (e_live z) eqn:Ez.
      * assert (z = x) by (eapply NoDup_id_inj; [apply Hw|assumption|assumption|congruence]). subst z. left.
        unfold unposted. cbn. rewrite Hi. reflexivity.
      * right. rewrite (dead_of_dead z Ez). auto.
Qed.

Lemma dinv_umoves k k' : umoves k k' -> wfk (snd (fst (fst k))) (snd (fst k)) ->
  dinv (snd (fst k)) (snd k) -> dinv (snd (fst k')) (snd k').
Proof.
  induction 1 as [|k1 k2 k3 H _ IH]; [auto|]. intros Hw D.
  destruct k1 as [[[c n] q] o], k2 as [[[c' n'] q'] o']. cbn in *.
  apply IH; [eapply wfk_umove; eassumption|eapply dinv_umove; eassumption].
Qed.

Lemma dinv_incl q q' o x : incl q' q -> dinv q o -> dinv q' (x :: o).
Proof. intros Hi D y Hy Hl. right. apply D; auto. Qed.

Lemma dinv_kmove c n q o l c' n' q' o' : wfk n q -> kmove (c, n, q, o) l (c', n', q', o') -> dinv q o -> dinv q' o'.
Proof.
  intros Hw H D. inversion H; subst.
  - match goal with U : umoves _ _ |- _ => apply (dinv_umoves _ _ U Hw D) end.
  - intros y Hy. apply D. exact (discard_dead_incl _ _ _ Hy).
  - exact D.
  - intros y Hy Hl. right. revert y Hy Hl.
    match goal with U : umoves _ _ |- _ => apply (dinv_umoves _ _ U) end; cbn.
    + apply wfk_remove, Hw.
    + apply (dinv_incl q); [apply remove_id_incl|exact D].
  - intros y Hy Hl. right. revert y Hy Hl.
    match goal with U : umoves _ _ |- _ => apply (dinv_umoves _ _ U Hw) end. cbn.
    apply (dinv_incl q); [apply incl_refl|exact D].
Qed.

Lemma dinv_kmoves k l k' : kmoves k l k' -> wfk (snd (fst (fst k))) (snd (fst k)) ->
  dinv (snd (fst k)) (snd k) -> dinv (snd (fst k')) (snd k').
Proof.
  induction 1 as [|k1 l1 k2 l2 k3 H _ IH]; [auto|]. intros Hw D.
  destruct k1 as [[[c n] q] o], k2 as [[[c' n'] q'] o']. cbn in *.
  apply IH; [eapply wfk_kmove; eassumption|eapply dinv_kmove; eassumption].
Qed.
