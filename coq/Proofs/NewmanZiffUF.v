(* Proofs about the union-find of Model/NewmanZiff.v (C13): paths, path compression, join. *)
From Coq Require Import List ZArith Bool Arith Lia Permutation.
From EpyV Require Import Lib.Prelude Model.NewmanZiff.
Import ListNotations.

(* ------------------------------------------------------------------ the array *)
Lemma set_length a : forall n v, length (set a n v) = length a.
Proof. induction a as [|x a IH]; intros [|n] v; cbn; auto. Qed.

Lemma get_set_same a : forall n v, n < length a -> get (set a n v) n = v.
Proof.
  unfold get. induction a as [|x a IH]; intros [|n] v H; cbn in *; try lia; auto.
  apply IH; lia.
Qed.

Lemma get_set_other a : forall n m v, n <> m -> get (set a n v) m = get a m.
Proof.
  unfold get. induction a as [|x a IH]; intros [|n] [|m] v H; cbn in *; try lia; auto.
Qed.

Lemma unocc_set a n v : unocc (set a n v) = unocc a.
Proof. unfold unocc. rewrite set_length. reflexivity. Qed.

Lemma get_out a n : length a <= n -> get a n = 0%Z.
Proof. intros H. unfold get. apply nth_overflow. exact H. Qed.

Lemma unocc_pos a : (0 < unocc a)%Z.
Proof. unfold unocc. lia. Qed.

Lemma get_repeat v N n : n < N -> get (repeat v N) n = v.
Proof. intros H. unfold get. apply nth_repeat_lt || (revert n H; induction N; intros [|n] H; cbn; try lia; auto; apply IHN; lia). Qed.

(* ------------------------------------------------------------------ paths to the root *)
(* [path a n r d]: following parent entries from n reaches the root r in d steps *)
Inductive path (a : list Z) : nat -> nat -> nat -> Prop :=
| path_root n : n < length a -> (get a n < 0)%Z -> path a n n 0
| path_step n r d : n < length a -> (0 <= get a n)%Z -> path a (Z.to_nat (get a n)) r d -> path a n r (S d).

Definition occ (a : list Z) (n : nat) : Prop := n < length a /\ get a n <> unocc a.
Definition is_root (a : list Z) (r : nat) : Prop := r < length a /\ (get a r < 0)%Z.

Lemma path_lt a n r d : path a n r d -> n < length a /\ is_root a r.
Proof. induction 1 as [n H1 H2|n r d H1 H2 H3 [IH1 IH2]]; unfold is_root; auto. Qed.

Lemma path_occ a n r d : path a n r d -> occ a n.
Proof.
  intros H. destruct H as [n H1 H2|n r d H1 H2 H3]; split; auto.
  - pose proof (unocc_pos a). lia.
  - intros E. apply path_lt in H3. destruct H3 as [H3 _]. rewrite E in H3. unfold unocc in H3. lia.
Qed.

Lemma path_det a n r d : path a n r d -> forall r' d', path a n r' d' -> r = r' /\ d = d'.
Proof.
  induction 1 as [n H1 H2|n r d H1 H2 H3 IH]; intros r' d' P; inversion P; subst; try lia; auto.
  destruct (IH _ _ H4) as [-> ->]. auto.
Qed.

Lemma path_of_root a r : is_root a r -> path a r r 0.
Proof. intros [H1 H2]. constructor; auto. Qed.

Lemma path_root_inv a r s d : is_root a r -> path a r s d -> s = r /\ d = 0.
Proof. intros H P. destruct (path_det _ _ _ _ (path_of_root _ _ H) _ _ P) as [-> <-]. auto. Qed.

(* ------------------------------------------------------------------ path compression *)
(* [compr a a']: a' arises from a by overwriting non-root entries with the root of their tree *)
Record compr (a a' : list Z) : Prop := {
  c_len : length a' = length a;
  c_neg : forall x, (get a x < 0)%Z -> get a' x = get a x;
  c_neg' : forall x, (get a' x < 0)%Z -> (get a x < 0)%Z;
  c_unocc : forall x, get a' x = unocc a' <-> get a x = unocc a;
  c_path : forall m s e, path a m s e -> exists e', e' <= e /\ path a' m s e'
}.

Lemma compr_refl a : compr a a.
Proof. constructor; auto; try tauto. intros m s e P. exists e. auto. Qed.

Lemma compr_trans a b c : compr a b -> compr b c -> compr a c.
Proof.
  intros [L1 N1 M1 U1 P1] [L2 N2 M2 U2 P2]. constructor.
  - congruence.
  - intros x H. rewrite N2; [apply N1; exact H | rewrite N1; exact H].
  - intros x H. apply M1, M2, H.
  - intros x. rewrite U2. apply U1.
  - intros m s e P. destruct (P1 _ _ _ P) as (e1 & Le1 & Q1). destruct (P2 _ _ _ Q1) as (e2 & Le2 & Q2).
    exists e2. split; [lia | exact Q2].
Qed.

Lemma compr_set a n r d : (0 <= get a n)%Z -> path a n r d -> compr a (set a n (Z.of_nat r)).
Proof.
  intros Hn P. pose proof (path_lt _ _ _ _ P) as [Ln [Lr Rr]]. pose proof (path_occ _ _ _ _ P) as [_ On].
  assert (Hnr : n <> r) by (intros ->; lia).
  constructor.
  - apply set_length.
  - intros x H. apply get_set_other. intros ->. lia.
  - intros x H. destruct (Nat.eq_dec n x) as [->|Ne].
    + rewrite get_set_same in H by exact Ln. lia.
    + rewrite get_set_other in H by exact Ne. exact H.
  - intros x. rewrite unocc_set. destruct (Nat.eq_dec n x) as [->|Ne].
    + rewrite get_set_same by exact Ln. unfold unocc. split; intros E; [lia | contradiction].
    + rewrite get_set_other by exact Ne. tauto.
  - intros m s e Q. induction Q as [m H1 H2|m s e H1 H2 H3 IH].
    + exists 0. split; [lia|]. constructor; [rewrite set_length; exact H1|].
      rewrite get_set_other; [exact H2 | intros ->; lia].
    + destruct IH as (e' & Le & Q'). destruct (Nat.eq_dec n m) as [->|Ne].
      * assert (s = r) as -> by (destruct (path_det _ _ _ _ P _ _ (path_step _ _ _ _ H1 H2 H3)); auto).
        exists 1. split; [lia|]. apply path_step.
        -- rewrite set_length; exact H1.
        -- rewrite get_set_same by exact H1. lia.
        -- rewrite get_set_same by exact H1. rewrite Nat2Z.id. constructor; [rewrite set_length; exact Lr|].
           rewrite get_set_other by exact Hnr. exact Rr.
      * exists (S e'). split; [lia|]. apply path_step.
        -- rewrite set_length; exact H1.
        -- rewrite get_set_other by exact Ne. exact H2.
        -- rewrite get_set_other by exact Ne. exact Q'.
Qed.

(* rootOf returns the root and a compressed array, whenever the fuel exceeds the depth *)
Lemma rootOf_spec : forall fuel a n r d, path a n r d -> d < fuel ->
  exists a', rootOf fuel a n = (a', r) /\ compr a a'.
Proof.
  induction fuel as [|f IH]; intros a n r d P Hd; [lia|].
  cbn [rootOf]. destruct P as [n H1 H2|n r d H1 H2 H3].
  - apply Z.ltb_lt in H2. rewrite H2. exists a. split; [reflexivity | apply compr_refl].
  - assert (E : (get a n <? 0)%Z = false) by (apply Z.ltb_ge; exact H2). rewrite E.
    destruct (IH a _ r d H3 ltac:(lia)) as (a1 & E1 & C1). rewrite E1.
    exists (set a1 n (Z.of_nat r)). split; [reflexivity|].
    eapply compr_trans; [exact C1|].
    destruct (c_path _ _ C1 _ _ _ (path_step _ _ _ _ H1 H2 H3)) as (e' & _ & Q).
    apply (compr_set a1 n r e'); [|exact Q].
    destruct (Z.lt_ge_cases (get a1 n) 0) as [Hneg|Hge]; [|exact Hge].
    apply (c_neg' _ _ C1) in Hneg. lia.
Qed.

(* ------------------------------------------------------------------ connectivity *)
(* reflexive-symmetric-transitive closure of an edge list *)
Inductive conn (es : list nedge) : nat -> nat -> Prop :=
| conn_refl x : conn es x x
| conn_edge x y : In (x, y) es -> conn es x y
| conn_sym x y : conn es x y -> conn es y x
| conn_trans x y z : conn es x y -> conn es y z -> conn es x z.

Lemma conn_sub es es' : (forall x y, In (x, y) es -> conn es' x y) -> forall x y, conn es x y -> conn es' x y.
Proof.
  intros H x y C. induction C as [x|x y I|x y C IH|x y z C1 IH1 C2 IH2].
  - apply conn_refl.
  - apply H, I.
  - apply conn_sym, IH.
  - eapply conn_trans; eauto.
Qed.

(* the same undirected edge set *)
Definition esub (es es' : list nedge) : Prop := forall x y, In (x, y) es -> In (x, y) es' \/ In (y, x) es'.
Definition eeq (es es' : list nedge) : Prop := esub es es' /\ esub es' es.

Lemma esub_refl es : esub es es.
Proof. intros x y H. auto. Qed.

Lemma esub_trans a b c : esub a b -> esub b c -> esub a c.
Proof. intros H1 H2 x y H. destruct (H1 _ _ H) as [I|I]; destruct (H2 _ _ I); auto. Qed.

Lemma eeq_refl es : eeq es es.
Proof. split; apply esub_refl. Qed.

Lemma eeq_sym a b : eeq a b -> eeq b a.
Proof. intros [H1 H2]. split; auto. Qed.

Lemma eeq_trans a b c : eeq a b -> eeq b c -> eeq a c.
Proof. intros [H1 H2] [H3 H4]. split; eapply esub_trans; eauto. Qed.

Lemma conn_esub es es' : esub es es' -> forall x y, conn es x y -> conn es' x y.
Proof.
  intros H. apply conn_sub. intros x y I. destruct (H _ _ I) as [J|J].
  - apply conn_edge, J.
  - apply conn_sym, conn_edge, J.
Qed.

Lemma conn_eeq es es' : eeq es es' -> forall x y, conn es x y <-> conn es' x y.
Proof. intros [H1 H2] x y. split; apply conn_esub; assumption. Qed.

(* ------------------------------------------------------------------ the invariant *)
(* [UF a es]: the array a is a union-find forest for the graph with edge list es on the occupied
   nodes: every occupied node reaches a root (so the parent pointers are acyclic), in fewer steps
   than the size stored there (so rootOf terminates within fuel N); the endpoints of every edge
   have the same root and every node is connected to its root (so the classes of rootOf are the
   connected components, see [uf_classes]); a root stores minus the number of nodes of its tree. *)
Record UF (a : list Z) (es : list nedge) : Prop := {
  uf_total : forall n, occ a n -> exists r d, path a n r d /\ (Z.of_nat d < - get a r)%Z;
  uf_edge : forall x y, In (x, y) es -> exists r d e, path a x r d /\ path a y r e;
  uf_root_conn : forall x r d, path a x r d -> conn es x r;
  uf_size : forall r, is_root a r ->
      exists l, NoDup l /\ (forall x, In x l <-> exists d, path a x r d) /\ (- get a r)%Z = Z.of_nat (length l)
}.

Lemma conn_same_root a es : UF a es -> forall x y, conn es x y ->
  (forall r d, path a x r d -> exists e, path a y r e) /\ (forall r d, path a y r d -> exists e, path a x r e).
Proof.
  intros U x y C. induction C as [x|x y I|x y C [IH1 IH2]|x y z C1 [IH1 IH2] C2 [IH3 IH4]].
  - split; intros r d P; exists d; exact P.
  - destruct (uf_edge _ _ U _ _ I) as (r0 & d0 & e0 & P1 & P2). split; intros r d P.
    + destruct (path_det _ _ _ _ P _ _ P1) as [-> _]. eauto.
    + destruct (path_det _ _ _ _ P _ _ P2) as [-> _]. eauto.
  - split; assumption.
  - split; intros r d P.
    + destruct (IH1 _ _ P) as (e & Q). eauto.
    + destruct (IH4 _ _ P) as (e & Q). eauto.
Qed.

(* the classes of rootOf are the connected components *)
Lemma uf_classes a es : UF a es -> forall n m r s d e, path a n r d -> path a m s e -> (r = s <-> conn es n m).
Proof.
  intros U n m r s d e P Q. split.
  - intros ->. eapply conn_trans; [eapply uf_root_conn; eauto | apply conn_sym; eapply uf_root_conn; eauto].
  - intros C. destruct (conn_same_root _ _ U _ _ C) as [H _]. destruct (H _ _ P) as (e' & Q').
    destruct (path_det _ _ _ _ Q _ _ Q'); auto.
Qed.

Lemma NoDup_lt_length l N : NoDup l -> (forall x, In x l -> x < N) -> length l <= N.
Proof.
  intros ND H. rewrite <- (seq_length N 0). apply NoDup_incl_length; [exact ND|].
  intros x I. apply in_seq. specialize (H _ I). lia.
Qed.

Lemma uf_size_le a es r : UF a es -> is_root a r -> (0 < - get a r <= Z.of_nat (length a))%Z.
Proof.
  intros U R. destruct (uf_size _ _ U _ R) as (l & ND & Hl & E). rewrite E. split.
  - assert (In r l) by (apply Hl; exists 0; apply path_of_root; exact R).
    destruct l; [contradiction | cbn; lia].
  - apply Nat2Z.inj_le. apply NoDup_lt_length; [exact ND|].
    intros x I. apply Hl in I. destruct I as (d & P). apply path_lt in P. tauto.
Qed.

Lemma uf_depth a es n r d : UF a es -> path a n r d -> d < length a.
Proof.
  intros U P. destruct (uf_total _ _ U _ (path_occ _ _ _ _ P)) as (r' & d' & P' & Hd).
  destruct (path_det _ _ _ _ P _ _ P') as [-> ->].
  pose proof (uf_size_le _ _ _ U (proj2 (path_lt _ _ _ _ P'))). lia.
Qed.

Lemma compr_occ a a' : compr a a' -> forall x, occ a' x <-> occ a x.
Proof. intros C x. unfold occ. rewrite (c_len _ _ C), (c_unocc _ _ C). tauto. Qed.

Lemma compr_root a a' : compr a a' -> forall r, is_root a' r <-> is_root a r.
Proof.
  intros C r. unfold is_root. rewrite (c_len _ _ C). split; intros [H1 H2]; split; auto.
  - apply (c_neg' _ _ C), H2.
  - rewrite (c_neg _ _ C); exact H2.
Qed.

Lemma compr_path_inv a a' es : UF a es -> compr a a' -> forall x r d, path a' x r d -> exists d0, d <= d0 /\ path a x r d0.
Proof.
  intros U C x r d P. pose proof (path_occ _ _ _ _ P) as O. apply (compr_occ _ _ C) in O.
  destruct (uf_total _ _ U _ O) as (r0 & d0 & P0 & _). destruct (c_path _ _ C _ _ _ P0) as (e' & Le & P').
  destruct (path_det _ _ _ _ P _ _ P') as [-> ->]. eauto.
Qed.

(* the invariant survives path compression *)
Lemma UF_compr a a' es : UF a es -> compr a a' -> UF a' es.
Proof.
  intros U C. constructor.
  - intros n O. apply (compr_occ _ _ C) in O. destruct (uf_total _ _ U _ O) as (r & d & P & Hd).
    destruct (c_path _ _ C _ _ _ P) as (e' & Le & P'). exists r, e'. split; [exact P'|].
    rewrite (c_neg _ _ C); [lia | apply path_lt in P; apply P].
  - intros x y I. destruct (uf_edge _ _ U _ _ I) as (r & d & e & P & Q).
    destruct (c_path _ _ C _ _ _ P) as (d' & _ & P'). destruct (c_path _ _ C _ _ _ Q) as (e' & _ & Q'). eauto.
  - intros x r d P. destruct (compr_path_inv _ _ _ U C _ _ _ P) as (d0 & _ & P0). eapply uf_root_conn; eauto.
  - intros r R. pose proof R as R0. apply (compr_root _ _ C) in R0.
    destruct (uf_size _ _ U _ R0) as (l & ND & Hl & E). exists l. split; [exact ND|]. split.
    + intros x. rewrite Hl. split; intros (d & P).
      * destruct (c_path _ _ C _ _ _ P) as (d' & _ & P'). eauto.
      * destruct (compr_path_inv _ _ _ U C _ _ _ P) as (d0 & _ & P0). eauto.
    + rewrite (c_neg _ _ C); [exact E | apply R0].
Qed.

(* rootOf(n) on an occupied node of a well-formed array, with the fuel N of the model *)
Lemma root_spec a es n : UF a es -> occ a n ->
  exists a' r d, root a n = (a', r) /\ path a n r d /\ compr a a'.
Proof.
  intros U O. destruct (uf_total _ _ U _ O) as (r & d & P & _).
  destruct (rootOf_spec (length a) a n r d P (uf_depth _ _ _ _ _ U P)) as (a' & E & C).
  exists a', r, d. auto.
Qed.

Lemma UF_eeq a es es' : eeq es es' -> UF a es -> UF a es'.
Proof.
  intros Q U. constructor.
  - apply (uf_total _ _ U).
  - intros x y I. destruct (proj2 Q _ _ I) as [J|J]; destruct (uf_edge _ _ U _ _ J) as (r & d & e & P1 & P2); eauto.
  - intros x r d P. apply (conn_eeq _ _ Q). eapply uf_root_conn; eauto.
  - apply (uf_size _ _ U).
Qed.

(* ------------------------------------------------------------------ an edge inside one component *)
Lemma UF_same a es n m c dn dm : UF a es -> path a n c dn -> path a m c dm -> UF a ((n, m) :: es).
Proof.
  intros U Pn Pm. constructor.
  - apply (uf_total _ _ U).
  - intros x y [E|I]; [injection E as <- <-; eauto | apply (uf_edge _ _ U _ _ I)].
  - intros x r d P. eapply conn_sub; [|eapply uf_root_conn; eauto]. intros; apply conn_edge; right; assumption.
  - apply (uf_size _ _ U).
Qed.

Lemma NoDup_app_disj {A} (l1 l2 : list A) :
  NoDup l1 -> NoDup l2 -> (forall x, In x l1 -> In x l2 -> False) -> NoDup (l1 ++ l2).
Proof.
  induction l1 as [|x l1 IH]; intros N1 N2 D; cbn; [exact N2|].
  inversion N1; subst. constructor.
  - rewrite in_app_iff. intros [H|H]; [contradiction | apply (D x); [left; reflexivity | exact H]].
  - apply IH; auto. intros y H1' H2'. apply (D y); [right; exact H1' | exact H2'].
Qed.

(* ------------------------------------------------------------------ join *)
Section Join.
  Variables (a : list Z) (c1 c2 : nat).
  Hypothesis R1 : is_root a c1.
  Hypothesis R2 : is_root a c2.
  Hypothesis Ne : c1 <> c2.

  Let a' := fst (join a c1 c2).

  Lemma join_fst : a' = set (set a c2 (Z.of_nat c1)) c1 (get a c1 + get a c2)%Z.
  Proof.
    unfold a', join. cbn [fst]. rewrite get_set_other by (intros E; apply Ne; auto). reflexivity.
  Qed.

  Lemma join_len : length a' = length a.
  Proof. rewrite join_fst, !set_length. reflexivity. Qed.

  Lemma join_get_c1 : get a' c1 = (get a c1 + get a c2)%Z.
  Proof. rewrite join_fst. apply get_set_same. rewrite set_length. apply R1. Qed.

  Lemma join_get_c2 : get a' c2 = Z.of_nat c1.
  Proof. rewrite join_fst. rewrite get_set_other by exact Ne. apply get_set_same. apply R2. Qed.

  Lemma join_get_other x : x <> c1 -> x <> c2 -> get a' x = get a x.
  Proof. intros H1 H2. rewrite join_fst. rewrite !get_set_other by auto. reflexivity. Qed.

  Lemma join_snd : snd (join a c1 c2) = (- get a' c1)%Z.
  Proof. reflexivity. Qed.

  Lemma join_unocc x : get a' x = unocc a' <-> get a x = unocc a.
  Proof.
    unfold unocc. rewrite join_len. destruct R1 as [L1 N1], R2 as [L2 N2].
    destruct (Nat.eq_dec x c1) as [->|H1]; [rewrite join_get_c1; lia|].
    destruct (Nat.eq_dec x c2) as [->|H2]; [rewrite join_get_c2; lia|].
    rewrite join_get_other by auto. tauto.
  Qed.

  Lemma join_occ x : occ a' x <-> occ a x.
  Proof. unfold occ. rewrite join_len, join_unocc. tauto. Qed.

  Lemma join_root r : is_root a' r <-> is_root a r /\ r <> c2.
  Proof.
    unfold is_root. rewrite join_len. destruct R1 as [L1 N1], R2 as [L2 N2].
    destruct (Nat.eq_dec r c1) as [->|H1]; [rewrite join_get_c1; split; [intros [? ?]; repeat split; auto | intros [[? ?] ?]; split; auto; lia]|].
    destruct (Nat.eq_dec r c2) as [->|H2]; [rewrite join_get_c2; split; [intros [? ?]; lia | intros [_ ?]; contradiction]|].
    rewrite join_get_other by auto. tauto.
  Qed.

  (* the root map: c2's tree now hangs under c1 *)
  Definition jroot (r : nat) : nat := if Nat.eqb r c2 then c1 else r.
  Definition jdepth (r d : nat) : nat := if Nat.eqb r c2 then S d else d.

  Lemma path_join x r d : path a x r d -> path a' x (jroot r) (jdepth r d).
  Proof.
    destruct R1 as [L1 N1], R2 as [L2 N2].
    assert (Pc1 : path a' c1 c1 0).
    { constructor; [rewrite join_len; exact L1 | rewrite join_get_c1; lia]. }
    induction 1 as [x H1 H2|x r d H1 H2 H3 IH]; unfold jroot, jdepth in *.
    - destruct (Nat.eqb_spec x c2) as [->|Hx].
      + apply path_step; [rewrite join_len; exact L2 | rewrite join_get_c2; lia |].
        rewrite join_get_c2, Nat2Z.id. exact Pc1.
      + destruct (Nat.eq_dec x c1) as [->|Hx1]; [exact Pc1|].
        constructor; [rewrite join_len; exact H1 | rewrite join_get_other by auto; exact H2].
    - assert (x <> c1) by (intros ->; lia). assert (x <> c2) by (intros ->; lia).
      assert (E : get a' x = get a x) by (apply join_get_other; auto).
      destruct (Nat.eqb_spec r c2) as [->|Hr]; (apply path_step; [rewrite join_len; exact H1 | rewrite E; exact H2 | rewrite E; exact IH]).
  Qed.

  Hypothesis es : list nedge.
  Hypothesis U : UF a es.

  Lemma path_join_inv x r d : path a' x r d -> exists r0 d0, path a x r0 d0 /\ r = jroot r0 /\ d = jdepth r0 d0.
  Proof.
    intros P. pose proof (path_occ _ _ _ _ P) as O. apply join_occ in O.
    destruct (uf_total _ _ U _ O) as (r0 & d0 & P0 & _). exists r0, d0. split; [exact P0|].
    destruct (path_det _ _ _ _ P _ _ (path_join _ _ _ P0)); auto.
  Qed.

  Variables (n m dn dm : nat).
  Hypothesis Pn : path a n c1 dn.
  Hypothesis Pm : path a m c2 dm.

  Lemma UF_join : UF a' ((n, m) :: es).
  Proof.
    pose proof (uf_size_le _ _ _ U R1) as S1. pose proof (uf_size_le _ _ _ U R2) as S2.
    assert (Mono : forall x y, conn es x y -> conn ((n, m) :: es) x y).
    { apply conn_sub. intros; apply conn_edge; right; assumption. }
    constructor.
    - intros x O. apply join_occ in O. destruct (uf_total _ _ U _ O) as (r & d & P & Hd).
      exists (jroot r), (jdepth r d). split; [apply path_join; exact P|].
      unfold jroot, jdepth. destruct (Nat.eqb_spec r c2) as [->|Hr].
      + rewrite join_get_c1. lia.
      + destruct (Nat.eq_dec r c1) as [->|Hr1]; [rewrite join_get_c1; lia|].
        rewrite join_get_other by auto. exact Hd.
    - intros x y [E|I].
      + injection E as <- <-. exists c1, (jdepth c1 dn), (jdepth c2 dm). split.
        * replace c1 with (jroot c1) at 1; [apply path_join; exact Pn|]. unfold jroot.
          destruct (Nat.eqb_spec c1 c2); [contradiction | reflexivity].
        * replace c1 with (jroot c2) at 1; [apply path_join; exact Pm|]. unfold jroot. rewrite Nat.eqb_refl. reflexivity.
      + destruct (uf_edge _ _ U _ _ I) as (r & d & e & P1 & P2). exists (jroot r), (jdepth r d), (jdepth r e).
        split; apply path_join; assumption.
    - intros x r d P. destruct (path_join_inv _ _ _ P) as (r0 & d0 & P0 & -> & _).
      unfold jroot. destruct (Nat.eqb_spec r0 c2) as [->|Hr].
      + (* x ~ c2 ~ m ~ n ~ c1 *)
        eapply conn_trans; [apply Mono; eapply uf_root_conn; eauto|].
        eapply conn_trans; [apply conn_sym, Mono; eapply (uf_root_conn _ _ U); exact Pm|].
        eapply conn_trans; [apply conn_sym, conn_edge; left; reflexivity|].
        apply Mono. eapply uf_root_conn; eauto.
      + apply Mono. eapply uf_root_conn; eauto.
    - intros r R. apply join_root in R. destruct R as [R Hr2].
      destruct (Nat.eq_dec r c1) as [->|Hr1].
      + destruct (uf_size _ _ U _ R1) as (l1 & ND1 & Hl1 & E1). destruct (uf_size _ _ U _ R2) as (l2 & ND2 & Hl2 & E2).
        exists (l1 ++ l2). split; [|split].
        * apply NoDup_app_disj; auto. intros x I1 I2. apply Hl1 in I1. apply Hl2 in I2.
          destruct I1 as (d1 & P1), I2 as (d2 & P2). destruct (path_det _ _ _ _ P1 _ _ P2). contradiction.
        * intros x. rewrite in_app_iff, Hl1, Hl2. split.
          -- intros [(d & P)|(d & P)]; apply path_join in P; unfold jroot in P.
             ++ destruct (Nat.eqb_spec c1 c2); [contradiction|]. eauto.
             ++ rewrite Nat.eqb_refl in P. eauto.
          -- intros (d & P). destruct (path_join_inv _ _ _ P) as (r0 & d0 & P0 & E & _). unfold jroot in E.
             destruct (Nat.eqb_spec r0 c2) as [->|Hr0]; [right; eauto | left; subst r0; eauto].
        * rewrite join_get_c1, app_length. lia.
      + destruct (uf_size _ _ U _ R) as (l & ND & Hl & E). exists l. split; [exact ND|]. split.
        * intros x. rewrite Hl. split; intros (d & P).
          -- apply path_join in P. unfold jroot in P. destruct (Nat.eqb_spec r c2); [contradiction|]. eauto.
          -- destruct (path_join_inv _ _ _ P) as (r0 & d0 & P0 & E0 & _). unfold jroot in E0.
             destruct (Nat.eqb_spec r0 c2) as [->|Hr0]; [contradiction | subst r0; eauto].
        * rewrite join_get_other by auto. exact E.
  Qed.
End Join.
