(* Counting permutations by the set of their first k elements (C14, uniformity):
   a uniformly random permutation of a duplicate-free list has a uniformly random k-subset as prefix.
   Stated and proved as a counting theorem over the explicit enumeration [perms] of all permutations:
   exactly  k! * (n-k)!  of the n! permutations of [es] have a given k-subset S as their first k elements.
   Stdlib only; closed under the global context. *)
From Coq Require Import List ZArith QArith Qround Bool Arith Lia Permutation.
From EpyV Require Import Lib.Prelude Model.Percolate Proofs.Percolate.
Import ListNotations.
Local Close Scope Q_scope.

(* ---- generic list facts *)
Lemma NoDup_app_intro {A} (a b : list A) :
  NoDup a -> NoDup b -> (forall x, In x a -> In x b -> False) -> NoDup (a ++ b).
Proof.
  induction a as [|y a IH]; cbn; intros Ha Hb Hd; [exact Hb|].
  inversion Ha as [|? ? Hn Ha']; subst. constructor.
  - intros H. apply in_app_or in H. destruct H as [H|H]; [exact (Hn H) | exact (Hd y (or_introl eq_refl) H)].
  - apply IH; [exact Ha' | exact Hb | intros x Hx; apply Hd; right; exact Hx].
Qed.

Lemma NoDup_app_disj {A} (a b : list A) x : NoDup (a ++ b) -> In x a -> In x b -> False.
Proof.
  induction a as [|y a IH]; cbn; intros ND Ha Hb; [destruct Ha|].
  inversion ND as [|? ? Hn ND']; subst.
  destruct Ha as [->|Ha]; [apply Hn, in_or_app; right; exact Hb | exact (IH ND' Ha Hb)].
Qed.

Lemma NoDup_app_l {A} (a b : list A) : NoDup (a ++ b) -> NoDup a.
Proof.
  induction a as [|y a IH]; cbn; intros ND; [constructor|].
  inversion ND as [|? ? Hn ND']; subst. constructor; [|exact (IH ND')].
  intros H. apply Hn, in_or_app. left; exact H.
Qed.

Lemma NoDup_app_r {A} (a b : list A) : NoDup (a ++ b) -> NoDup b.
Proof.
  induction a as [|y a IH]; cbn; intros ND; [exact ND|].
  inversion ND; subst. apply IH; assumption.
Qed.

Lemma NoDup_map_inj_in {A B} (f : A -> B) (l : list A) :
  (forall x y, In x l -> In y l -> f x = f y -> x = y) -> NoDup l -> NoDup (map f l).
Proof.
  induction l as [|a l IH]; cbn; intros Hinj ND; [constructor|].
  inversion ND as [|? ? Hn ND']; subst. constructor.
  - intros H. apply in_map_iff in H. destruct H as (b & Hb & Hin).
    apply Hn. rewrite (Hinj a b (or_introl eq_refl) (or_intror Hin) (eq_sym Hb)). exact Hin.
  - apply IH; [|exact ND']. intros x y Hx Hy. apply Hinj; right; assumption.
Qed.

Lemma NoDup_flat_map {A B} (f : A -> list B) (l : list A) :
  NoDup l -> (forall a, In a l -> NoDup (f a)) ->
  (forall a b y, In a l -> In b l -> In y (f a) -> In y (f b) -> a = b) ->
  NoDup (flat_map f l).
Proof.
  induction l as [|a l IH]; cbn; intros ND Hf Hd; [constructor|].
  inversion ND as [|? ? Hn ND']; subst. apply NoDup_app_intro.
  - apply Hf. left; reflexivity.
  - apply IH; [exact ND' | intros b Hb; apply Hf; right; exact Hb|].
    intros b c y Hb Hc. apply Hd; right; assumption.
  - intros y Hy Hy'. apply in_flat_map in Hy'. destruct Hy' as (b & Hb & Hyb).
    apply Hn. rewrite (Hd a b y (or_introl eq_refl) (or_intror Hb) Hy Hyb). exact Hb.
Qed.

Lemma flat_map_const_length {A B} (f : A -> list B) (l : list A) n :
  (forall a, In a l -> length (f a) = n) -> length (flat_map f l) = length l * n.
Proof.
  induction l as [|a l IH]; cbn; intros H; [reflexivity|].
  rewrite app_length, (H a (or_introl eq_refl)), IH; [reflexivity|].
  intros b Hb. apply H. right; exact Hb.
Qed.

Lemma firstn_app_len {A} (a b : list A) k : length a = k -> firstn k (a ++ b) = a.
Proof. intros <-. induction a as [|x a IH]; cbn; [reflexivity | f_equal; exact IH]. Qed.

Lemma skipn_app_len {A} (a b : list A) k : length a = k -> skipn k (a ++ b) = b.
Proof. intros <-. induction a as [|x a IH]; cbn; [reflexivity | exact IH]. Qed.

Lemma firstn_min_len {A} (p : list A) k : firstn k p = firstn (Nat.min k (length p)) p.
Proof.
  destruct (Nat.le_ge_cases k (length p)) as [H|H].
  - rewrite (Nat.min_l _ _ H). reflexivity.
  - rewrite (Nat.min_r _ _ H), firstn_all. apply firstn_all2. exact H.
Qed.

Lemma filter_map_length {A B} (g : A -> B) (f : B -> bool) (l : list A) :
  length (filter (fun x => f (g x)) l) = length (filter f (map g l)).
Proof.
  induction l as [|x l IH]; cbn; [reflexivity|]. destruct (f (g x)); cbn; rewrite IH; reflexivity.
Qed.

Lemma split_middle_unique {A} (x : A) a b a' b' :
  a ++ x :: b = a' ++ x :: b' -> ~ In x a -> ~ In x a' -> a = a' /\ b = b'.
Proof.
  revert a'. induction a as [|y a IH]; intros [|z a']; cbn; intros E Ha Ha'.
  - injection E as E. split; [reflexivity | exact E].
  - injection E as E1 E2. exfalso. apply Ha'. left. symmetry; exact E1.
  - injection E as E1 E2. exfalso. apply Ha. left. exact E1.
  - injection E as E1 E2. subst z.
    destruct (IH a' E2) as [-> ->]; [intros H; apply Ha; right; exact H | intros H; apply Ha'; right; exact H|].
    split; reflexivity.
Qed.

(* ---- the enumeration of all permutations of a list *)
Section Perms.
  Context {A : Type}.

  (* x inserted at every position of l *)
  Fixpoint inserts (x : A) (l : list A) : list (list A) :=
    match l with
    | [] => [[x]]
    | y :: t => (x :: y :: t) :: map (cons y) (inserts x t)
    end.

  Fixpoint perms (l : list A) : list (list A) :=
    match l with
    | [] => [[]]
    | x :: t => flat_map (inserts x) (perms t)
    end.

  Lemma in_inserts x l p : In p (inserts x l) <-> exists a b, l = a ++ b /\ p = a ++ x :: b.
  Proof.
    revert p. induction l as [|y t IH]; intros p; cbn.
    - split.
      + intros [<-|[]]. exists [], []. split; reflexivity.
      + intros (a & b & H & ->). symmetry in H. apply app_eq_nil in H. destruct H as [-> ->]. left; reflexivity.
    - split.
      + intros [<-|H].
        * exists [], (y :: t). split; reflexivity.
        * apply in_map_iff in H. destruct H as (q & <- & Hq). apply IH in Hq.
          destruct Hq as (a & b & -> & ->). exists (y :: a), b. split; reflexivity.
      + intros (a & b & H & ->). destruct a as [|z a]; cbn in *.
        * subst b. left; reflexivity.
        * injection H as <- ->. right. apply in_map_iff. exists (a ++ x :: b). split; [reflexivity|].
          apply IH. exists a, b. split; reflexivity.
  Qed.

  Lemma inserts_Permutation x l p : In p (inserts x l) -> Permutation p (x :: l).
  Proof.
    intros H. apply in_inserts in H. destruct H as (a & b & -> & ->).
    symmetry. apply Permutation_middle.
  Qed.

  Lemma inserts_length x l : length (inserts x l) = S (length l).
  Proof. induction l as [|y t IH]; cbn; [reflexivity|]. rewrite map_length, IH. reflexivity. Qed.

  Lemma inserts_NoDup x l : ~ In x l -> NoDup (inserts x l).
  Proof.
    induction l as [|y t IH]; cbn; intros Hn.
    - constructor; [intros []|constructor].
    - constructor.
      + intros H. apply in_map_iff in H. destruct H as (q & Hq & _). injection Hq as E _.
        apply Hn. left; exact E.
      + apply NoDup_map_inj_in.
        * intros a b _ _ E. injection E as E. exact E.
        * apply IH. intros H. apply Hn. right; exact H.
  Qed.

  (* soundness and completeness of the enumeration (no side condition needed) *)
  Lemma perms_sound l p : In p (perms l) -> Permutation p l.
  Proof.
    revert p. induction l as [|x t IH]; intros p; cbn.
    - intros [<-|[]]. constructor.
    - intros H. apply in_flat_map in H. destruct H as (q & Hq & Hp).
      eapply perm_trans; [exact (inserts_Permutation x q p Hp) | apply perm_skip, IH, Hq].
  Qed.

  Lemma perms_complete l p : Permutation p l -> In p (perms l).
  Proof.
    revert p. induction l as [|x t IH]; intros p P; cbn.
    - apply Permutation_sym, Permutation_nil in P. subst p. left; reflexivity.
    - assert (Hx : In x p) by (eapply Permutation_in; [symmetry; exact P | left; reflexivity]).
      apply in_split in Hx. destruct Hx as (a & b & ->).
      apply in_flat_map. exists (a ++ b). split.
      + apply IH. symmetry. eapply Permutation_cons_app_inv. symmetry. exact P.
      + apply in_inserts. exists a, b. split; reflexivity.
  Qed.

  Lemma perms_spec l p : In p (perms l) <-> Permutation p l.
  Proof. split; [apply perms_sound | apply perms_complete]. Qed.

  Lemma perms_length l : length (perms l) = fact (length l).
  Proof.
    induction l as [|x t IH]; [reflexivity|].
    cbn [perms]. rewrite (flat_map_const_length (inserts x) (perms t) (S (length t))).
    - rewrite IH. change (fact (length (x :: t))) with (S (length t) * fact (length t)). apply Nat.mul_comm.
    - intros q Hq. rewrite inserts_length. f_equal. apply Permutation_length, perms_sound, Hq.
  Qed.

  Lemma perms_NoDup l : NoDup l -> NoDup (perms l).
  Proof.
    induction l as [|x t IH]; intros ND; cbn.
    - constructor; [intros []|constructor].
    - inversion ND as [|? ? Hn ND']; subst.
      assert (Hq : forall q, In q (perms t) -> ~ In x q).
      { intros q Hq H. apply Hn. eapply Permutation_in; [apply perms_sound; exact Hq | exact H]. }
      apply NoDup_flat_map.
      + apply IH, ND'.
      + intros q Hin. apply inserts_NoDup, Hq, Hin.
      + intros q q' p Hin Hin' Hp Hp'.
        apply in_inserts in Hp. destruct Hp as (a & b & -> & ->).
        apply in_inserts in Hp'. destruct Hp' as (a' & b' & -> & E).
        destruct (split_middle_unique x a b a' b' E) as [-> ->]; [| |reflexivity].
        * intros H. apply (Hq _ Hin), in_or_app. left; exact H.
        * intros H. apply (Hq _ Hin'), in_or_app. left; exact H.
  Qed.

  (* ---- a boolean test that two lists have the same elements *)
  Variable eqb : A -> A -> bool.
  Hypothesis eqb_spec : forall x y, eqb x y = true <-> x = y.

  Definition memb (x : A) (l : list A) : bool := existsb (eqb x) l.
  Definition same_elts (a b : list A) : bool :=
    forallb (fun x => memb x b) a && forallb (fun x => memb x a) b.

  Lemma memb_In x l : memb x l = true <-> In x l.
  Proof.
    unfold memb. rewrite existsb_exists. split.
    - intros (y & Hy & E). apply eqb_spec in E. subst y. exact Hy.
    - intros H. exists x. split; [exact H | apply eqb_spec; reflexivity].
  Qed.

  Lemma same_elts_spec a b : same_elts a b = true <-> (forall x, In x a <-> In x b).
  Proof.
    unfold same_elts. rewrite andb_true_iff, !forallb_forall. split.
    - intros [H1 H2] x. split; intros H; [apply memb_In, H1, H | apply memb_In, H2, H].
    - intros H. split; intros x Hx; apply memb_In, H, Hx.
  Qed.

  (* ---- the count *)
  Section Count.
    Variables (es S : list A).
    Hypothesis NDes : NoDup es.
    Hypothesis NDS : NoDup S.
    Hypothesis Sub : incl S es.

    (* the complement of S in es *)
    Let R := filter (fun x => negb (memb x S)) es.

    Lemma in_R x : In x R <-> In x es /\ ~ In x S.
    Proof.
      unfold R. rewrite filter_In, negb_true_iff, <- not_true_iff_false, memb_In. reflexivity.
    Qed.

    Lemma NoDup_R : NoDup R.
    Proof. apply NoDup_filter, NDes. Qed.

    Lemma split_Permutation : Permutation (S ++ R) es.
    Proof.
      apply NoDup_Permutation; [|exact NDes|].
      - apply NoDup_app_intro; [exact NDS | exact NoDup_R|].
        intros x Hs Hr. apply in_R in Hr. exact (proj2 Hr Hs).
      - intros x. rewrite in_app_iff, in_R. split.
        + intros [H|[H _]]; [apply Sub, H | exact H].
        + intros H. destruct (memb x S) eqn:E.
          * left. apply memb_In, E.
          * right. split; [exact H|]. intros Hs. apply memb_In in Hs. congruence.
    Qed.

    Lemma R_length : length R = length es - length S.
    Proof.
      generalize (Permutation_length split_Permutation). rewrite app_length. lia.
    Qed.

    (* the permutations of es whose first (length S) elements are those of S, listed explicitly *)
    Definition glued : list (list A) := flat_map (fun a => map (app a) (perms R)) (perms S).

    Lemma glued_length : length glued = fact (length S) * fact (length es - length S).
    Proof.
      unfold glued. rewrite (flat_map_const_length _ _ (fact (length R))).
      - rewrite perms_length, R_length. reflexivity.
      - intros a _. rewrite map_length. apply perms_length.
    Qed.

    Lemma glued_NoDup : NoDup glued.
    Proof.
      unfold glued. apply NoDup_flat_map.
      - apply perms_NoDup, NDS.
      - intros a _. apply NoDup_map_inj_in; [|apply perms_NoDup, NoDup_R].
        intros b b' _ _ E. exact (app_inv_head a b b' E).
      - intros a a' p Ha Ha' Hp Hp'.
        apply in_map_iff in Hp. destruct Hp as (b & <- & _).
        apply in_map_iff in Hp'. destruct Hp' as (b' & E & _).
        assert (La : length a = length S) by apply Permutation_length, perms_sound, Ha.
        assert (La' : length a' = length S) by apply Permutation_length, perms_sound, Ha'.
        rewrite <- (firstn_app_len a b (length S) La), <- (firstn_app_len a' b' (length S) La'), E.
        reflexivity.
    Qed.

    Lemma in_glued p :
      In p glued <-> In p (perms es) /\ same_elts (firstn (length S) p) S = true.
    Proof.
      unfold glued. rewrite in_flat_map. split.
      - intros (a & Ha & Hp). apply in_map_iff in Hp. destruct Hp as (b & <- & Hb).
        apply perms_sound in Ha. apply perms_sound in Hb. split.
        + apply perms_complete. eapply perm_trans; [|exact split_Permutation].
          apply Permutation_app; assumption.
        + rewrite (firstn_app_len a b _ (Permutation_length Ha)).
          apply same_elts_spec. intros x. split; apply Permutation_in; [|symmetry]; exact Ha.
      - intros [Hp Hs]. apply perms_sound in Hp.
        assert (NDp : NoDup p) by (eapply Permutation_NoDup; [symmetry; exact Hp | exact NDes]).
        rewrite <- (firstn_skipn (length S) p) in NDp.
        assert (Hsame := proj1 (same_elts_spec _ _) Hs).
        exists (firstn (length S) p). split.
        + apply perms_complete, NoDup_Permutation; [exact (NoDup_app_l _ _ NDp) | exact NDS | exact Hsame].
        + apply in_map_iff. exists (skipn (length S) p). split; [apply firstn_skipn|].
          apply perms_complete, NoDup_Permutation; [exact (NoDup_app_r _ _ NDp) | exact NoDup_R|].
          intros x. rewrite in_R. split.
          * intros Hx. split.
            -- eapply Permutation_in; [exact Hp|]. rewrite <- (firstn_skipn (length S) p).
               apply in_or_app. right; exact Hx.
            -- intros HS. apply Hsame in HS. exact (NoDup_app_disj _ _ x NDp HS Hx).
          * intros [Hx Hn].
            assert (Hin : In x p) by (eapply Permutation_in; [symmetry; exact Hp | exact Hx]).
            rewrite <- (firstn_skipn (length S) p) in Hin. apply in_app_or in Hin.
            destruct Hin as [Hin|Hin]; [|exact Hin]. exfalso. apply Hn, Hsame, Hin.
    Qed.

    (* THE COUNT: k! (n-k)! permutations of es start with (a rearrangement of) S, k = |S| *)
    Theorem prefix_count :
      length (filter (fun p => same_elts (firstn (length S) p) S) (perms es))
      = fact (length S) * fact (length es - length S).
    Proof.
      rewrite <- glued_length. apply Permutation_length, NoDup_Permutation.
      - apply NoDup_filter, perms_NoDup, NDes.
      - exact glued_NoDup.
      - intros p. rewrite filter_In. symmetry. apply in_glued.
    Qed.

    (* the same with a cut position k that may exceed the length (firstn then takes everything) *)
    Theorem prefix_count_min k : length S = Nat.min k (length es) ->
      length (filter (fun p => same_elts (firstn k p) S) (perms es))
      = fact (length S) * fact (length es - length S).
    Proof.
      intros Hk. rewrite <- prefix_count. f_equal. apply filter_ext_in.
      intros p Hp. rewrite (firstn_min_len p k), (Permutation_length (perms_sound _ _ Hp)), <- Hk.
      reflexivity.
    Qed.
  End Count.

  (* uniformity: any two k-subsets are the prefix set of equally many permutations *)
  Theorem prefix_uniform es S S' k :
    NoDup es -> NoDup S -> NoDup S' -> incl S es -> incl S' es ->
    length S = Nat.min k (length es) -> length S' = Nat.min k (length es) ->
    length (filter (fun p => same_elts (firstn k p) S) (perms es))
    = length (filter (fun p => same_elts (firstn k p) S') (perms es)).
  Proof.
    intros NDes NDS NDS' Sub Sub' Hk Hk'.
    rewrite (prefix_count_min es S NDes NDS Sub k Hk), (prefix_count_min es S' NDes NDS' Sub' k Hk'), Hk, Hk'.
    reflexivity.
  Qed.
End Perms.

(* ---- permutations commute with relabelling: index permutations enumerate element permutations *)
Lemma inserts_map {A B} (f : A -> B) x l : inserts (f x) (map f l) = map (map f) (inserts x l).
Proof.
  induction l as [|y t IH]; cbn; [reflexivity|]. f_equal.
  rewrite IH, !map_map. reflexivity.
Qed.

Lemma perms_map {A B} (f : A -> B) l : perms (map f l) = map (map f) (perms l).
Proof.
  induction l as [|x t IH]; cbn; [reflexivity|].
  rewrite IH. generalize (perms t). intros L. induction L as [|q L IHL]; cbn; [reflexivity|].
  rewrite map_app, IHL, inserts_map. reflexivity.
Qed.

(* applying every index permutation of 0..n-1 to l lists every permutation of l, in the same order, once each *)
Lemma apply_all_perms {A} (d : A) (l : list A) :
  map (apply_perm d l) (perms (seq 0 (length l))) = perms l.
Proof.
  unfold apply_perm. rewrite <- perms_map, map_nth_seq. reflexivity.
Qed.

(* the shuffle oracle's range: [perms (seq 0 n)] is exactly the set of index permutations, each once, n! of them *)
Lemma index_perms_spec n :
  NoDup (perms (seq 0 n)) /\ length (perms (seq 0 n)) = fact n /\
  (forall perm, In perm (perms (seq 0 n)) <-> is_perm perm n).
Proof.
  split; [apply perms_NoDup, seq_NoDup | split].
  - rewrite perms_length, seq_length. reflexivity.
  - intros perm. unfold is_perm. apply perms_spec.
Qed.

(* ---- C14: the occupied set of Percolate over all shuffles *)
Definition same_edges : list edge -> list edge -> bool := same_elts zpair_eqb.

Lemma same_edges_spec a b : same_edges a b = true <-> (forall e, In e a <-> In e b).
Proof. apply same_elts_spec. exact zpair_eqb_eq. Qed.

Lemma occupied_count nodes es T S :
  NoDupU es -> NoDup S -> incl S es -> length S = Nat.min (occ_of (length es) T) (length es) ->
  length (filter (fun perm => same_edges (occupied (percolate nodes es perm T)) S) (perms (seq 0 (length es))))
  = fact (length S) * fact (length es - length S).
Proof.
  intros Hnd NDS Sub Hk.
  change (length (filter (fun perm => (fun p => same_elts zpair_eqb (firstn (occ_of (length es) T) p) S)
                                        (apply_perm (0, 0)%Z es perm)) (perms (seq 0 (length es))))
          = fact (length S) * fact (length es - length S)).
  rewrite filter_map_length, apply_all_perms.
  exact (prefix_count_min zpair_eqb zpair_eqb_eq es S (NoDupU_NoDup es Hnd) NDS Sub _ Hk).
Qed.

Lemma occupied_uniform nodes es T S S' :
  NoDupU es -> NoDup S -> NoDup S' -> incl S es -> incl S' es ->
  length S = Nat.min (occ_of (length es) T) (length es) ->
  length S' = Nat.min (occ_of (length es) T) (length es) ->
  length (filter (fun perm => same_edges (occupied (percolate nodes es perm T)) S) (perms (seq 0 (length es))))
  = length (filter (fun perm => same_edges (occupied (percolate nodes es perm T)) S') (perms (seq 0 (length es)))).
Proof.
  intros Hnd NDS NDS' Sub Sub' Hk Hk'.
  rewrite (occupied_count nodes es T S Hnd NDS Sub Hk), (occupied_count nodes es T S' Hnd NDS' Sub' Hk'), Hk, Hk'.
  reflexivity.
Qed.
