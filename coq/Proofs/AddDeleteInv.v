(* C19, part 4: the loci invariant of the coupled compartmented model (C01's Inv) under add and
   delete, in the combinations in which the disease hears of the new edges; the disease's own
   event functions; lengths of the loci table. *)
From Coq Require Import List ZArith QArith Bool Arith Lia Sorted Permutation.
From EpyV Require Import Lib.Prelude Model.Kernel Model.Loci Model.Compart Model.AddDelete
                         Proofs.LociBase Proofs.LociLocus Proofs.LociInv Proofs.AddDelete Proofs.AddDeleteSteps.
Import ListNotations.
Close Scope Q_scope.
Close Scope Z_scope.

(* ------------------------------------------------------------------ the number of loci never changes *)
Definition LL (s s' : state) : Prop := length (st_loci s') = length (st_loci s).

Lemma LL_refl : forall s, LL s s. Proof. reflexivity. Qed.
Lemma LL_trans : forall a b c, LL a b -> LL b c -> LL a c. Proof. unfold LL. intros. congruence. Qed.

Lemma LL_set_compartment : forall tbl s n c, LL s (fst (set_compartment tbl s n c)).
Proof.
  intros. unfold set_compartment, LL. destruct (negb (has_node s n)); cbn [fst]; [reflexivity|].
  unfold call_enter. rewrite call_length. reflexivity.
Qed.

Lemma LL_change_compartment : forall tbl s n c, LL s (fst (change_compartment tbl s n c)).
Proof.
  intros. unfold change_compartment, LL. destruct (getc_raises s n); cbn [fst]; [reflexivity|].
  unfold call_enter. rewrite call_length. cbn [with_attr st_loci].
  destruct (getc s n); [unfold call_leave; apply call_length | reflexivity].
Qed.

Lemma LL_add_edge : forall tbl s n m, LL s (fst (add_edge tbl s n m)).
Proof.
  intros. unfold add_edge, LL. destruct (negb (has_node s n) || negb (has_node s m)); cbn [fst]; [reflexivity|].
  destruct (getc_raises s n || getc_raises s m); cbn [fst]; [reflexivity|].
  unfold call_add. rewrite call_length. reflexivity.
Qed.

Lemma LL_rm_loop : forall tbl inc s, LL s (fold_left (fun s e => call_remove tbl s (E (fst e) (snd e))) inc s).
Proof.
  intros tbl inc. induction inc as [|e inc IH]; intros s; cbn [fold_left]; [reflexivity|].
  eapply LL_trans; [|apply IH]. unfold LL, call_remove. apply call_length.
Qed.

Lemma LL_remove_node : forall tbl s n, LL s (fst (remove_node tbl s n)).
Proof.
  intros. unfold remove_node. destruct (getc_raises s n); cbn [fst]; [reflexivity|].
  unfold LL. cbn [st_loci]. unfold call_remove at 1. rewrite call_length. apply LL_rm_loop.
Qed.

Lemma LL_p_remove_node : forall s n, LL s (fst (p_remove_node s n)).
Proof. intros. unfold p_remove_node. destruct (has_node s n); reflexivity. Qed.

Lemma LL_p_add_node : forall s n, LL s (p_add_node s n).
Proof. intros. unfold p_add_node. destruct (has_node s n); reflexivity. Qed.

Lemma LL_p_add_edge : forall s n m, LL s (fst (p_add_edge s n m)).
Proof. intros. unfold p_add_edge. destruct (negb (has_node s n) || negb (has_node s m)); reflexivity. Qed.

Section InvSteps.
Variable cf : adcfg.
Let tbl := ac_tbl cf.

Lemma LL_link : forall s i j, LL s (fst (link cf s i j)).
Proof. intros. unfold link. destruct (tracked_edges cf); [apply LL_add_edge | apply LL_p_add_edge]. Qed.

Lemma LL_link_all : forall es s i, LL s (fst (link_all cf s i es)).
Proof.
  induction es as [|j es IH]; intros s i; cbn [link_all]; [reflexivity|].
  pose proof (LL_link s i j) as L1. destruct (link cf s i j) as [s1 o]. cbn [fst] in L1.
  pose proof (IH s1 i) as L2. destruct (link_all cf s1 i es) as [s2 ok]. cbn [fst] in *. eapply LL_trans; eassumption.
Qed.

(* the network state add leaves behind, without the rest of the world *)
Definition add_state (w : adworld) : state :=
  let s := aw_st w in
  let i := new_node_name s in
  let s2 := fst (mark_new cf (p_add_node s i) i) in
  match picks (ac_deg cf) (zsort (zadd i (aw_all w))) i [] (aw_draws w) with
  | None => s2
  | Some (es, _) => fst (link_all cf s2 i es)
  end.

Lemma add_step_st : forall w, aw_st (add_step cf w) = add_state w.
Proof.
  intro w. unfold add_step, add_state. cbv zeta.
  destruct (mark_new cf (p_add_node (aw_st w) (new_node_name (aw_st w))) (new_node_name (aw_st w))) as [s2 o2]. cbn [fst].
  destruct (picks _ _ _ _ _) as [[es ds]|]; [|reflexivity].
  destruct (link_all cf s2 (new_node_name (aw_st w)) es) as [s3 ok]. reflexivity.
Qed.

Lemma LL_add_step : forall w, LL (aw_st w) (aw_st (add_step cf w)).
Proof.
  intro w. rewrite add_step_st. unfold add_state. cbv zeta.
  assert (L2 : LL (aw_st w) (fst (mark_new cf (p_add_node (aw_st w) (new_node_name (aw_st w))) (new_node_name (aw_st w))))).
  { apply (LL_trans _ (p_add_node (aw_st w) (new_node_name (aw_st w)))); [apply LL_p_add_node|].
    unfold mark_new. destruct (with_disease cf); [apply LL_set_compartment | apply LL_refl]. }
  destruct (picks _ _ _ _ _) as [[es ds]|]; [|exact L2]. eapply LL_trans; [exact L2 | apply LL_link_all].
Qed.

Definition delete_state (w : adworld) (n : Z) : state :=
  fst (unlink cf (fst (mark_removed cf (aw_st w) n)) n).

Lemma delete_step_st : forall w n, aw_st (delete_step cf w n) = delete_state w n.
Proof.
  intros w n. unfold delete_step, delete_state. destruct (mark_removed cf (aw_st w) n) as [s1 o1]. cbn [fst].
  destruct (unlink cf s1 n) as [s2 o2]. reflexivity.
Qed.

Lemma LL_delete_step : forall w n, LL (aw_st w) (aw_st (delete_step cf w n)).
Proof.
  intros w n. rewrite delete_step_st. unfold delete_state.
  apply (LL_trans _ (fst (mark_removed cf (aw_st w) n))).
  - unfold mark_removed. destruct (with_disease cf); [apply LL_change_compartment | apply LL_refl].
  - unfold unlink. destruct (ac_combo cf); [apply LL_p_remove_node | apply LL_remove_node | apply LL_p_remove_node].
Qed.

(* ------------------------------------------------------------------ C01's invariant *)
Hypothesis Hwf : wf_loci tbl = true.
Hypothesis Hso : single_orientation tbl = true.

(* calls that raise leave the state as it was, so these two need no precondition *)
Lemma change_compartment_inv : forall s n c, Inv tbl s -> Inv tbl (fst (change_compartment tbl s n c)).
Proof.
  intros s n c H. destruct (getc_raises s n) eqn:Er.
  - destruct (change_compartment_frame tbl s n c) as [_ [_ [_ [_ Q]]]]. cbv zeta in Q. rewrite (Q Er). exact H.
  - apply (inv_step tbl s (ChangeC n c) Hwf Hso H). cbn. rewrite Er. reflexivity.
Qed.

Lemma remove_node_inv : forall s n, Inv tbl s -> Inv tbl (fst (remove_node tbl s n)).
Proof.
  intros s n H. destruct (getc_raises s n) eqn:Er.
  - destruct (remove_node_frame tbl s n) as [_ Q]. rewrite (Q Er). exact H.
  - apply (inv_step tbl s (RemoveNode n) Hwf Hso H). cbn. rewrite Er. reflexivity.
Qed.

Lemma add_edge_raises : forall s n m v, getc_raises (fst (add_edge tbl s n m)) v = getc_raises s v.
Proof.
  intros s n m v. destruct (add_edge_frame tbl s n m) as [A [B _]]. cbv zeta in *.
  unfold getc_raises, has_node. rewrite A, B. reflexivity.
Qed.

Lemma link_all_inv : tracked_edges cf = true -> forall es s i, Inv tbl s ->
  (forall v, In v (i :: es) -> getc_raises s v = false) -> Inv tbl (fst (link_all cf s i es)).
Proof.
  intros T. induction es as [|j es IH]; intros s i H Hr; cbn [link_all]; [exact H|].
  unfold link at 1. rewrite T. fold tbl.
  assert (H1 : Inv tbl (fst (add_edge tbl s i j))).
  { apply (inv_step tbl s (AddEdge i j) Hwf Hso H). cbn. rewrite (Hr i), (Hr j); [reflexivity | right; left; reflexivity | left; reflexivity]. }
  assert (Hr1 : forall v, In v (i :: es) -> getc_raises (fst (add_edge tbl s i j)) v = false).
  { intros v Hv. rewrite add_edge_raises. apply Hr. destruct Hv as [Hv|Hv]; [left; exact Hv | right; right; exact Hv]. }
  destruct (add_edge tbl s i j) as [s1 o]. cbn [fst] in *.
  specialize (IH s1 i H1 Hr1). destruct (link_all cf s1 i es) as [s2 ok]. exact IH.
Qed.

(* add: AddNode i None; SetC i S; AddEdge i j for the nodes drawn - every one a valid call *)
Lemma add_step_inv : tracked_edges cf = true -> forall w, Base cf w -> Inv tbl (aw_st w) -> Inv tbl (aw_st (add_step cf w)).
Proof.
  intros T w HB HI. pose proof HB as [[HG HN] [HA [HAN HC]]]. pose proof (tracked_with_disease cf T) as D.
  rewrite add_step_st. unfold add_state. cbv zeta.
  pose proof (new_node_name_fresh (aw_st w)) as Hfresh.
  set (s := aw_st w) in *. set (i := new_node_name s) in *.
  assert (Hhn : has_node s i = false) by (apply not_true_is_false; intro H; apply has_node_In in H; contradiction).
  (* AddNode i None *)
  assert (E1 : p_add_node s i = step tbl s (AddNode i None)) by reflexivity.
  assert (I1 : Inv tbl (p_add_node s i)).
  { rewrite E1. apply inv_step; try assumption. change (negb (has_node s i) = true). rewrite Hhn. reflexivity. }
  assert (Hn1 : has_node (p_add_node s i) i = true).
  { unfold p_add_node. rewrite Hhn. apply has_node_In. cbn [st_nodes]. apply in_app_iff. right. left. reflexivity. }
  assert (Hat1 : st_attr (p_add_node s i) = st_attr s) by (unfold p_add_node; rewrite Hhn; reflexivity).
  (* SetC i S *)
  unfold mark_new. rewrite D. fold tbl.
  assert (I2 : Inv tbl (fst (set_compartment tbl (p_add_node s i) i (ac_S cf)))).
  { apply (inv_step tbl (p_add_node s i) (SetC i (ac_S cf)) Hwf Hso I1).
    change (has_node (p_add_node s i) i && match getc (p_add_node s i) i with None => true | Some _ => false end = true).
    rewrite Hn1. unfold getc. rewrite Hat1. rewrite (proj2 HG i Hfresh). reflexivity. }
  destruct (set_compartment_frame tbl (p_add_node s i) i (ac_S cf)) as [A2 [B2 [C2 _]]]. cbv zeta in *.
  set (s2 := fst (set_compartment tbl (p_add_node s i) i (ac_S cf))) in *.
  destruct (picks (ac_deg cf) (zsort (zadd i (aw_all w))) i [] (aw_draws w)) as [[es ds]|] eqn:Ep; [|exact I2].
  apply link_all_inv; [exact T | exact I2|].
  assert (HL : zsort (zadd i (aw_all w)) <> []).
  { intro H. assert (Hi : In i (zsort (zadd i (aw_all w)))) by (apply zsort_In, zadd_In; right; reflexivity).
    rewrite H in Hi. destruct Hi. }
  destruct (picks_spec _ _ _ _ _ _ _ HL Ep (NoDup_nil Z) (fun H => H) (incl_nil_l _)) as [new [E1' [_ [_ [E4 E5]]]]].
  intros v Hv. unfold getc_raises, has_node. rewrite A2, C2, Hn1.
  assert (Hvn : In v (st_nodes (p_add_node s i))).
  { unfold p_add_node. rewrite Hhn. cbn [st_nodes]. apply in_app_iff. destruct Hv as [<-|Hv]; [right; left; reflexivity|].
    left. specialize (E5 v Hv). apply zsort_In, zadd_In in E5. destruct E5 as [H| ->]; [apply HAN, H | contradiction]. }
  apply zmem_In in Hvn as Hz. rewrite Hz. cbn [negb orb andb].
  destruct (Z.eqb_spec v i) as [_|Hne]; [reflexivity|]. rewrite Hat1.
  assert (In v (st_nodes s)).
  { unfold p_add_node in Hvn. rewrite Hhn in Hvn. cbn [st_nodes] in Hvn. apply in_app_iff in Hvn. destruct Hvn as [H|[H|[]]]; [exact H|congruence]. }
  destruct (HC D v H) as [c ->]. reflexivity.
Qed.

(* delete in the inheritance combination: ChangeC n R; RemoveNode n *)
Lemma delete_step_inv_inherit : ac_combo cf = Inherit -> forall w n, Inv tbl (aw_st w) -> Inv tbl (aw_st (delete_step cf w n)).
Proof.
  intros Ec w n H. rewrite delete_step_st. unfold delete_state, mark_removed, unlink, with_disease. rewrite Ec. fold tbl.
  apply remove_node_inv, change_compartment_inv, H.
Qed.

(* ------------------------------------------------------------------ Process.removeNode under the disease's feet *)
(* sound exactly when no locus of the disease mentions the compartment the node is in *)
Definition mentions (sp : spec) (c : Z) : bool :=
  match sp with
  | NodeLocus c' => Z.eqb c' c
  | EdgeLocus l r => Z.eqb l c || Z.eqb r c
  | MultiEdgeLocus l rs => Z.eqb l c || zmem c rs
  end.

Lemma truthP_mentions : forall sp s n c x, getc s n = Some c -> truthP sp s x -> involves n x -> mentions sp c = true.
Proof.
  intros sp s n c x Hc Ht Hi. destruct sp as [c'|l r|l rs]; destruct x as [v|a b]; cbn in Ht, Hi |- *; try contradiction.
  - subst v. destruct Ht as [_ Ht]. rewrite Hc in Ht. inversion Ht. apply Z.eqb_refl.
  - destruct Ht as [_ Hq]. apply andb_true_iff in Hq. destruct Hq as [Q1 Q2]. apply ceq_true in Q1, Q2.
    destruct Hi as [->| ->]; [rewrite Hc in Q1; inversion Q1; rewrite Z.eqb_refl; reflexivity|].
    rewrite Hc in Q2. inversion Q2. rewrite Z.eqb_refl. apply orb_true_r.
  - destruct Ht as [_ Hq]. apply andb_true_iff in Hq. destruct Hq as [Q1 Q2]. apply ceq_true in Q1. apply cin_true in Q2.
    destruct Q2 as [c2 [Q2 Q3]].
    destruct Hi as [->| ->]; [rewrite Hc in Q1; inversion Q1; rewrite Z.eqb_refl; reflexivity|].
    rewrite Hc in Q2. inversion Q2. subst c2. apply zmem_In in Q3. rewrite Q3. apply orb_true_r.
Qed.

Lemma p_remove_node_inv : forall s n c, Inv tbl s -> In n (st_nodes s) -> getc s n = Some c ->
  forallb (fun sp => negb (mentions sp c)) tbl = true -> Inv tbl (fst (p_remove_node s n)).
Proof.
  intros s n c HI Hn Hc Hm. apply has_node_In in Hn as Hhn.
  destruct (p_remove_node_frame s n Hhn) as [_ Wn]. set (s' := fst (p_remove_node s n)) in *.
  pose proof Wn as [A [B C]].
  apply Inv_loci_inv in HI. destruct HI as [HG [HL HS]].
  apply WInv_Inv; [exact Hso|]. split.
  - exact (graph_ok_without s n s' Wn HG).
  - split; [unfold s', p_remove_node; rewrite Hhn; exact HL|]. intros i Hi.
    assert (Eloci : st_loci s' = st_loci s) by (unfold s', p_remove_node; rewrite Hhn; reflexivity). rewrite Eloci.
    apply (mid_winv_removed _ s s' n).
    + intro v. rewrite A, filter_In, negb_true_iff, Z.eqb_neq. tauto.
    + intros a b. unfold adj. rewrite B, !adjb_spec, !filter_In. unfold touches. cbn [fst snd].
      rewrite !negb_true_iff, !orb_false_iff, !Z.eqb_neq. tauto.
    + intros v Hv. unfold getc. rewrite C. apply Z.eqb_neq in Hv. rewrite Hv. reflexivity.
    + destruct (HS i Hi) as [S1 S2].
      assert (Hno : forall x, truthP (nth i tbl default_spec) s x -> ~ involves n x).
      { intros x Hx Hinv. pose proof (truthP_mentions _ _ _ _ _ Hc Hx Hinv) as M.
        rewrite forallb_forall in Hm. specialize (Hm (nth i tbl default_spec) (nth_In _ _ Hi)). rewrite M in Hm. discriminate. }
      split; [exact S1|]. split.
      * intros x Hx. apply S2 in Hx. split; [exact Hx | apply Hno, Hx].
      * intros x Hx _. left. apply S2, Hx.
Qed.

End InvSteps.
