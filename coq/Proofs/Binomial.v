(* A small self-contained development of finite distributions over Q, the binomial and
   geometric laws of independent Bernoulli trials, and their connection to the per-element
   trials of synchronous dynamics (spec_trials of Proofs/KernelSync.v).
   What is NOT proved here (and cannot be, in this setting): that rng.random() <= p has
   probability p.  The laws below take that as the definition of [trial p]. *)
From Coq Require Import List ZArith QArith Bool Arith Lia.
From EpyV Require Import Model.Kernel Proofs.KernelSync.
Import ListNotations.
Open Scope Q_scope.

(* ------------------------------------------------------------------ distributions *)
Definition dist (A : Type) := list (A * Q).
Definition ret {A} (a : A) : dist A := [(a, 1)].
Definition scale {A} (p : Q) (d : dist A) : dist A := map (fun bq => (fst bq, p * snd bq)) d.
Definition bind {A B} (d : dist A) (f : A -> dist B) : dist B :=
  flat_map (fun ap => scale (snd ap) (f (fst ap))) d.
Fixpoint prob {A} (P : A -> bool) (d : dist A) : Q :=
  match d with [] => 0 | (a, q) :: d' => (if P a then q else 0) + prob P d' end.
Definition mass {A} (d : dist A) : Q := prob (fun _ => true) d.
Definition trial (p : Q) : dist bool := [(true, p); (false, 1 - p)].

Lemma prob_app : forall A (P : A -> bool) d1 d2, prob P (d1 ++ d2) == prob P d1 + prob P d2.
Proof.
  intros A P. induction d1 as [|[a q] d1 IH]; intros d2; cbn [prob app].
  - rewrite Qplus_0_l; reflexivity.
  - rewrite IH, Qplus_assoc. reflexivity.
Qed.

Lemma prob_scale : forall A (P : A -> bool) p d, prob P (scale p d) == p * prob P d.
Proof.
  intros A P p. induction d as [|[a q] d IH]; cbn [prob scale map fst snd].
  - ring.
  - fold (scale p d). rewrite IH. destruct (P a); ring.
Qed.

Lemma prob_ret : forall A (P : A -> bool) a, prob P (ret a) == if P a then 1 else 0.
Proof. intros A P a. cbn [prob ret]. destruct (P a); ring. Qed.

Lemma prob_ext : forall A (P P' : A -> bool) d, (forall a, P a = P' a) -> prob P d == prob P' d.
Proof.
  intros A P P' d H. induction d as [|[a q] d IH]; cbn [prob]; [reflexivity|].
  rewrite IH, H. reflexivity.
Qed.

Lemma prob_false : forall A (d : dist A), prob (fun _ => false) d == 0.
Proof. intros A. induction d as [|[a q] d IH]; cbn [prob]; [reflexivity | rewrite IH; ring]. Qed.

(* the law of total probability *)
Lemma prob_bind_trial : forall B (P : B -> bool) p (f : bool -> dist B),
  prob P (bind (trial p) f) == p * prob P (f true) + (1 - p) * prob P (f false).
Proof.
  intros B P p f. unfold bind, trial. cbn [flat_map fst snd].
  rewrite !prob_app, !prob_scale. cbn [prob]. ring.
Qed.

(* mapping the outcome *)
Lemma prob_bind_ret : forall A B (P : B -> bool) (g : A -> B) d,
  prob P (bind d (fun a => ret (g a))) == prob (fun a => P (g a)) d.
Proof.
  intros A B P g. induction d as [|[a q] d IH]; [reflexivity|].
  unfold bind in *. cbn [flat_map fst snd prob]. rewrite prob_app, IH, prob_scale, prob_ret.
  destruct (P (g a)); ring.
Qed.

(* ------------------------------------------------------------------ powers and Pascal's triangle *)
Fixpoint qpow (q : Q) (n : nat) : Q := match n with O => 1 | S n' => q * qpow q n' end.

Fixpoint binom (n k : nat) : nat :=
  match n, k with
  | _, O => 1
  | O, S _ => 0
  | S n', S k' => binom n' k' + binom n' (S k')
  end.

Lemma binom_0 : forall n, binom n 0 = 1%nat.
Proof. destruct n; reflexivity. Qed.

Lemma binom_gt : forall n k, (n < k)%nat -> binom n k = 0%nat.
Proof.
  induction n as [|n IH]; intros k H; destruct k as [|k]; try lia; [reflexivity|].
  cbn [binom]. rewrite !IH by lia. reflexivity.
Qed.

Lemma binom_diag : forall n, binom n n = 1%nat.
Proof. induction n as [|n IH]; [reflexivity|]. cbn [binom]. rewrite IH, binom_gt by lia. reflexivity. Qed.

(* Pascal's numbers are the binomial coefficients n! / (k! (n-k)!) *)
Lemma binom_fact : forall n k, (k <= n)%nat -> (binom n k * (fact k * fact (n - k)) = fact n)%nat.
Proof.
  induction n as [|n IH]; intros k H.
  - assert (k = 0%nat) by lia; subst. reflexivity.
  - destruct k as [|k]; [cbn [binom]; rewrite Nat.sub_0_r; cbn [fact]; lia|].
    cbn [binom]. destruct (Nat.eq_dec k n) as [->|Hne].
    + rewrite binom_diag, (binom_gt n (S n)) by lia. replace (S n - S n)%nat with 0%nat by lia.
      change (fact 0) with 1%nat. ring.
    + assert (H1 := IH k ltac:(lia)). assert (H2 := IH (S k) ltac:(lia)).
      remember (n - S k)%nat as m eqn:Em.
      replace (S n - S k)%nat with (S m) by lia. replace (n - k)%nat with (S m) in H1 by lia.
      change (fact (S n)) with (S n * fact n)%nat.
      replace (S n * fact n)%nat with (S k * fact n + S m * fact n)%nat
        by (replace (S n) with (S k + S m)%nat by lia; ring).
      rewrite <- H1 at 1. rewrite <- H2.
      change (fact (S m)) with (S m * fact m)%nat. change (fact (S k)) with (S k * fact k)%nat. ring.
Qed.

Definition qn (n : nat) : Q := inject_Z (Z.of_nat n).

Lemma qn_add : forall a b, qn (a + b) == qn a + qn b.
Proof. intros. unfold qn. rewrite Nat2Z.inj_add, inject_Z_plus. reflexivity. Qed.

(* ------------------------------------------------------------------ the binomial law *)
(* number of successes in n independent trials *)
Fixpoint successes (n : nat) (p : Q) : dist nat :=
  match n with
  | O => ret 0%nat
  | S n' => bind (trial p) (fun b => bind (successes n' p) (fun k => ret (if b then S k else k)))
  end.

Definition binomial_pmf (n : nat) (p : Q) (k : nat) : Q := qn (binom n k) * qpow p k * qpow (1 - p) (n - k).

Lemma successes_step : forall n p (P : nat -> bool),
  prob P (successes (S n) p) == p * prob (fun k => P (S k)) (successes n p) + (1 - p) * prob P (successes n p).
Proof.
  intros n p P. cbn [successes]. rewrite prob_bind_trial, !prob_bind_ret. reflexivity.
Qed.

Theorem binomial_law : forall n p k, prob (Nat.eqb k) (successes n p) == binomial_pmf n p k.
Proof.
  induction n as [|n IH]; intros p k.
  - unfold binomial_pmf. cbn [successes]. rewrite prob_ret.
    destruct k as [|k]; cbn [Nat.eqb binom qpow Nat.sub]; [change (qn 1) with 1 | change (qn 0) with 0]; ring.
  - rewrite successes_step. destruct k as [|k].
    + rewrite (prob_ext _ _ (fun _ => false)) by reflexivity. rewrite prob_false, IH.
      unfold binomial_pmf. cbn [binom qpow]. rewrite !Nat.sub_0_r. cbn [qpow]. rewrite binom_0. change (qn 1) with 1. ring.
    + rewrite (prob_ext _ (fun j => (S k =? S j)%nat) (Nat.eqb k)) by reflexivity.
      rewrite !IH. unfold binomial_pmf. cbn [binom]. rewrite qn_add.
      replace (S n - S k)%nat with (n - k)%nat by lia. cbn [qpow].
      destruct (le_lt_dec (S k) n) as [Hle|Hgt].
      * replace (n - k)%nat with (S (n - S k)) by lia. cbn [qpow]. ring.
      * rewrite (binom_gt n (S k)) by lia. change (qn 0) with 0. ring.
Qed.

(* ------------------------------------------------------------------ the geometric law *)
(* index (from 1) of the first success among n trials, if any *)
Fixpoint first_success (n : nat) (p : Q) : dist (option nat) :=
  match n with
  | O => ret None
  | S n' => bind (trial p) (fun b => if b then ret (Some 1%nat)
                                     else bind (first_success n' p) (fun r => ret (option_map S r)))
  end.

Definition is_some_k (k : nat) (r : option nat) : bool :=
  match r with Some j => Nat.eqb k j | None => false end.

Lemma first_success_not_0 : forall n p, prob (is_some_k 0) (first_success n p) == 0.
Proof.
  induction n as [|n IH]; intros p.
  - cbn [first_success]. rewrite prob_ret. reflexivity.
  - cbn [first_success]. rewrite prob_bind_trial, prob_ret, prob_bind_ret.
    rewrite (prob_ext _ _ (fun _ => false)) by (intros [j|]; reflexivity).
    rewrite prob_false. cbn [is_some_k Nat.eqb]. ring.
Qed.

Theorem geometric_law : forall n p k, (1 <= k <= n)%nat ->
  prob (is_some_k k) (first_success n p) == qpow (1 - p) (k - 1) * p.
Proof.
  induction n as [|n IH]; intros p k H; [lia|].
  cbn [first_success]. rewrite prob_bind_trial, prob_ret, prob_bind_ret.
  destruct k as [|k]; [lia|].
  rewrite (prob_ext _ _ (is_some_k k)) by (intros [j|]; reflexivity).
  destruct k as [|k].
  - rewrite first_success_not_0. cbn [is_some_k Nat.eqb Nat.sub qpow]. ring.
  - rewrite IH by lia. cbn [is_some_k Nat.eqb]. replace (S (S k) - 1)%nat with (S (S k - 1)) by lia. cbn [qpow]. ring.
Qed.

(* no success at all in n trials *)
Theorem geometric_none : forall n p,
  prob (fun r => match r with None => true | Some _ => false end) (first_success n p) == qpow (1 - p) n.
Proof.
  induction n as [|n IH]; intros p.
  - cbn [first_success qpow]. rewrite prob_ret. reflexivity.
  - cbn [first_success]. rewrite prob_bind_trial, prob_ret, prob_bind_ret.
    rewrite (prob_ext _ _ (fun r => match r with None => true | Some _ => false end)) by (intros [j|]; reflexivity).
    rewrite IH. cbn [qpow]. ring.
Qed.

(* ------------------------------------------------------------------ connection to the model *)
(* The selection made by [trials] depends on the variates only through the outcomes [r <= p]:
   it picks the elements at the positions of the successes. *)
Fixpoint pick {A} (m : list bool) (els : list A) : list A :=
  match els with
  | [] => []
  | e :: els' => if hd false m then e :: pick (tl m) els' else pick (tl m) els'
  end.

Fixpoint outcomes (p : Q) (n : nat) (rs : list Q) : list bool :=
  match n with O => [] | S n' => Qle_bool (hd 0 rs) p :: outcomes p n' (tl rs) end.

Definition ntrue (m : list bool) : nat := length (filter (fun b : bool => b) m).

Lemma spec_trials_pick : forall x p els rs,
  spec_trials x p els rs = map (pair x) (pick (outcomes p (length els) rs) els).
Proof.
  intros x p. induction els as [|e els IH]; intros rs; [reflexivity|].
  cbn [spec_trials length outcomes pick hd tl]. rewrite IH.
  destruct (Qle_bool (hd 0 rs) p); reflexivity.
Qed.

Lemma outcomes_length : forall p n rs, length (outcomes p n rs) = n.
Proof. intros p. induction n as [|n IH]; intros rs; [reflexivity|]. cbn [outcomes length]. rewrite IH. reflexivity. Qed.

Lemma pick_length : forall A (els : list A) m, length m = length els -> length (pick m els) = ntrue m.
Proof.
  intros A. induction els as [|e els IH]; intros m H.
  - destruct m; [reflexivity | discriminate].
  - destruct m as [|b m]; [discriminate|]. cbn [pick hd tl]. unfold ntrue. cbn [filter].
    injection H as H. destruct b; cbn [length]; rewrite (IH m H); reflexivity.
Qed.

(* the number selected is the number of successful trials *)
Lemma spec_trials_count : forall x p els rs,
  length (spec_trials x p els rs) = ntrue (outcomes p (length els) rs).
Proof.
  intros. rewrite spec_trials_pick, map_length, pick_length; [reflexivity | apply outcomes_length].
Qed.

(* the outcomes of n independent trials *)
Fixpoint masks (n : nat) (p : Q) : dist (list bool) :=
  match n with
  | O => ret []
  | S n' => bind (trial p) (fun b => bind (masks n' p) (fun m => ret (b :: m)))
  end.

Lemma successes_masks : forall n p (P : nat -> bool),
  prob P (successes n p) == prob (fun m => P (ntrue m)) (masks n p).
Proof.
  induction n as [|n IH]; intros p P.
  - cbn [successes masks]. rewrite !prob_ret. reflexivity.
  - rewrite successes_step. cbn [masks]. rewrite prob_bind_trial, !prob_bind_ret.
    rewrite (IH p (fun k => P (S k))), (IH p P). reflexivity.
Qed.

Lemma In_bind : forall A B (d : dist A) (f : A -> dist B) b q,
  In (b, q) (bind d f) -> exists a qa qb, In (a, qa) d /\ In (b, qb) (f a).
Proof.
  intros A B d f b q H. unfold bind in H. apply in_flat_map in H. destruct H as [[a qa] [H1 H2]].
  unfold scale in H2. apply in_map_iff in H2. destruct H2 as [[b' qb] [E H2]].
  cbn [fst snd] in *. inversion E; subst. exists a, qa, qb. split; assumption.
Qed.

Lemma masks_length : forall n p m q, In (m, q) (masks n p) -> length m = n.
Proof.
  induction n as [|n IH]; intros p m q H.
  - cbn [masks ret In] in H. destruct H as [H|[]]. inversion H; reflexivity.
  - cbn [masks] in H. apply In_bind in H. destruct H as (b & qa & qb & _ & H).
    apply In_bind in H. destruct H as (m' & qa' & qb' & H1 & H2).
    cbn [ret In] in H2. destruct H2 as [H2|[]]. inversion H2; subst. cbn [length]. rewrite (IH _ _ _ H1). reflexivity.
Qed.

Lemma prob_ext_In : forall A (P P' : A -> bool) d, (forall a q, In (a, q) d -> P a = P' a) -> prob P d == prob P' d.
Proof.
  intros A P P'. induction d as [|[a q] d IH]; intros H; cbn [prob]; [reflexivity|].
  rewrite IH by (intros a' q' Hin; apply (H a' q'); right; exact Hin).
  rewrite (H a q) by (left; reflexivity). reflexivity.
Qed.

(* the sub-list selected from a locus [els] when each element undergoes an independent trial *)
Definition selected_dist {X} (x : X) (p : Q) (els : list elem) : dist (list (X * elem)) :=
  bind (masks (length els) p) (fun m => ret (map (pair x) (pick m els))).

Theorem selected_binomial : forall X (x : X) p els k,
  prob (fun sel => Nat.eqb k (length sel)) (selected_dist x p els) == binomial_pmf (length els) p k.
Proof.
  intros X x p els k. unfold selected_dist. rewrite prob_bind_ret.
  rewrite <- binomial_law, (successes_masks _ _ (Nat.eqb k)).
  apply prob_ext_In. intros m q H. rewrite map_length, pick_length; [reflexivity|].
  exact (masks_length _ _ _ _ H).
Qed.

(* total mass 1: these are distributions *)
Lemma mass_trial : forall p, mass (trial p) == 1.
Proof. intros p. unfold mass, trial. cbn [prob]. ring. Qed.

Lemma mass_successes : forall n p, mass (successes n p) == 1.
Proof.
  unfold mass. induction n as [|n IH]; intros p.
  - cbn [successes]. rewrite prob_ret. reflexivity.
  - rewrite successes_step, !IH. ring.
Qed.
