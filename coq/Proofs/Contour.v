(* The exact algebra of the contour extraction: aliasing identity, the no-alias case, and what
   getCoefficient / evaluate return for a polynomial series.  MathComp style.
   The statements that Properties/C17.v exports are packaged as [..._stmt] definitions so that
   the (standard-library style) properties file can state them without MathComp notations. *)
From mathcomp Require Import all_ssreflect all_algebra.
From EpyV Require Import Model.Contour.
Set Implicit Arguments.
Unset Strict Implicit.
Unset Printing Implicit Defensive.
Import GRing.Theory.
Local Open Scope ring_scope.

Section Contour.
Variable F : fieldType.

Lemma sum_unity_root m (x : F) : x ^+ m = 1 -> \sum_(k < m) x ^+ k = if x == 1 then m%:R else 0.
Proof.
move=> xm1; case: eqP => [->|/eqP x_neq1].
  by rewrite (eq_bigr (fun=> 1)) ?sumr_const ?card_ord // => k _; rewrite expr1n.
have := subrX1 x m; rewrite xm1 subrr => /esym/eqP; rewrite mulf_eq0 subr_eq0 (negbTE x_neq1) /=.
by move/eqP.
Qed.

Lemma prim_root_neq0 m (z : F) : m.-primitive_root z -> z != 0.
Proof.
move=> prim_z; apply/eqP => z0; have := prim_expr_order prim_z.
rewrite z0 expr0n; case: m prim_z => [|m] prim_z /=; first by have := prim_order_gt0 prim_z.
by move/eqP; rewrite eq_sym oner_eq0.
Qed.

(* the mean over the m-th roots of unity picks out the coefficients in the residue class of n *)
Theorem contour_exact m (z r : F) a d n : m.-primitive_root z -> m%:R != 0 :> F -> r != 0 ->
  contour_mean m z r (peval a d) n = \sum_(j < d | j == n %[mod m]) a j * r ^+ j / r ^+ n.
Proof.
move=> prim_z m_neq0 r_neq0; rewrite /contour_mean /peval.
have z_neq0 := prim_root_neq0 prim_z.
have zn_neq0 : z ^+ n != 0 by rewrite expf_neq0.
transitivity (m%:R^-1 * \sum_(j < d) a j * r ^+ j / r ^+ n * \sum_(k < m) (z ^+ j / z ^+ n) ^+ k).
  congr (_ * _); rewrite (eq_bigr (fun k : 'I_m => \sum_(j < d) a j * r ^+ j / r ^+ n * (z ^+ j / z ^+ n) ^+ k)).
    by rewrite exchange_big /=; apply: eq_bigr => j _; rewrite big_distrr.
  move=> k _; rewrite big_distrl /=; apply: eq_bigr => j _.
  rewrite !exprMn !exprVn -!exprM invfM [(k * j)%N]mulnC [(k * n)%N]mulnC.
  by rewrite -!mulrA; congr (_ * (_ * _)); rewrite mulrCA.
rewrite (eq_bigr (fun j : 'I_d => if j == n %[mod m] then a j * r ^+ j / r ^+ n * m%:R else 0)); last first.
  move=> j _; rewrite sum_unity_root; last first.
    by rewrite expr_div_n -!exprM ![(_ * m)%N]mulnC !exprM (prim_expr_order prim_z) !expr1n divr1.
  rewrite -(inj_eq (mulIf zn_neq0)) divfK // mul1r (eq_prim_root_expr prim_z).
  by case: ifP => _; rewrite ?mulr0.
rewrite -big_mkcond /= big_distrr /=; apply: eq_bigr => j _.
by rewrite mulrC mulfK.
Qed.

(* with more points than n and fewer than m + n coefficients, only j = n is in the class *)
Lemma alias_class m d n (j : 'I_d) : (n < m)%N -> (d <= m + n)%N -> (j == n %[mod m]) = (j == n :> nat).
Proof.
move=> lt_nm le_d; apply/eqP/eqP => [|->//].
rewrite (modn_small lt_nm) => jn.
have lt_j : (j < m + n)%N by exact: leq_trans (ltn_ord j) le_d.
rewrite (divn_eq j m) jn in lt_j *.
by case: (j %/ m)%N lt_j => [|q]; rewrite ?mul0n // mulSn -addnA ltn_add2l ltnNge leq_addl.
Qed.

Theorem contour_no_alias m (z r : F) a d n : m.-primitive_root z -> m%:R != 0 :> F -> r != 0 ->
  (n < m)%N -> (d <= m + n)%N ->
  contour_mean m z r (peval a d) n = if (n < d)%N then a n else 0.
Proof.
move=> prim_z m_neq0 r_neq0 lt_nm le_d; rewrite contour_exact //.
rewrite (eq_bigl (fun j : 'I_d => j == n :> nat)); last by move=> j; rewrite alias_class.
case: ltnP => [lt_nd|le_dn].
  rewrite (big_pred1 (Ordinal lt_nd)) /=; first by rewrite mulfK // expf_neq0.
  by move=> j; rewrite /= -val_eqE.
by rewrite big_pred0 // => j; apply/negbTE; rewrite neq_ltn (leq_trans (ltn_ord j) le_dn).
Qed.

(* getCoefficient(i) of the order-th derivative object = coefficient i of the order-th derivative *)
Theorem contour_coeff_deriv m (z : F) (p : {poly F}) order i : m.-primitive_root z -> m%:R != 0 :> F ->
  i`!%:R != 0 :> F -> (i + order < m)%N -> (size p <= m + (i + order))%N ->
  contour_coeff m z (horner p) order i = (p^`(order))`_i.
Proof.
move=> prim_z m_neq0 i_neq0 lt_nm le_p; rewrite /contour_coeff.
have -> : contour_mean m z 1 (horner p) (i + order) = contour_mean m z 1 (peval (fun j => p`_j) (size p)) (i + order).
  by rewrite /contour_mean; congr (_ * _); apply: eq_bigr => k _; rewrite horner_coef.
rewrite contour_no_alias ?oner_neq0 // coef_derivn [(order + i)%N]addnC.
case: ltnP => [_|le_pn]; last by rewrite nth_default // mulr0 mul0r mul0rn.
rewrite -(ffact_fact (leq_addl i order)) addnK natrM -mulr_natr mulrAC mulfK //.
by rewrite mul1r mulrC mulr_natr.
Qed.

(* evaluate(x0) of the order-th derivative object = value of the order-th derivative at x0 *)
Theorem contour_value_deriv m (z : F) (p : {poly F}) order (x0 : F) : m.-primitive_root z -> m%:R != 0 :> F ->
  (order < m)%N -> (size p <= m + order)%N ->
  contour_value m z (horner p) order x0 = (p^`(order)).[x0].
Proof.
move=> prim_z m_neq0 lt_nm le_p; rewrite /contour_value.
have -> : contour_mean m z 1 (fun w => p.[x0 + w]) order
        = contour_mean m z 1 (peval (fun j => p^`N(j).[x0]) (size p)) order.
  rewrite /contour_mean; congr (_ * _); apply: eq_bigr => k _.
  by rewrite nderiv_taylor //; apply: mulrC.
rewrite contour_no_alias ?oner_neq0 // nderivn_def hornerMn -mulr_natl.
case: ltnP => [_|le_pn]; first by rewrite mulr1 mulr_natl.
by rewrite nderivn_poly0 // horner0 mulr0 mul0rn.
Qed.

End Contour.

(* ------------------------------------------------------------ statements exported to Properties/C17.v *)

Definition contour_exact_stmt : Prop :=
  forall (F : fieldType) (m : nat) (z r : F) (a : nat -> F) (d n : nat),
  m.-primitive_root z -> m%:R != 0 :> F -> r != 0 ->
  contour_mean m z r (peval a d) n = \sum_(j < d | j == n %[mod m]) a j * r ^+ j / r ^+ n.

Definition contour_no_alias_stmt : Prop :=
  forall (F : fieldType) (m : nat) (z r : F) (a : nat -> F) (d n : nat),
  m.-primitive_root z -> m%:R != 0 :> F -> r != 0 -> (n < m)%N -> (d <= m + n)%N ->
  contour_mean m z r (peval a d) n = if (n < d)%N then a n else 0.

Definition contour_coeff_deriv_stmt : Prop :=
  forall (F : fieldType) (m : nat) (z : F) (p : {poly F}) (order i : nat),
  m.-primitive_root z -> m%:R != 0 :> F -> i`!%:R != 0 :> F -> (i + order < m)%N -> (size p <= m + (i + order))%N ->
  contour_coeff m z (horner p) order i = (p^`(order))`_i.

Definition contour_value_deriv_stmt : Prop :=
  forall (F : fieldType) (m : nat) (z : F) (p : {poly F}) (order : nat) (x0 : F),
  m.-primitive_root z -> m%:R != 0 :> F -> (order < m)%N -> (size p <= m + order)%N ->
  contour_value m z (horner p) order x0 = (p^`(order)).[x0].

Lemma contour_exact_holds : contour_exact_stmt. Proof. exact: contour_exact. Qed.
Lemma contour_no_alias_holds : contour_no_alias_stmt. Proof. exact: contour_no_alias. Qed.
Lemma contour_coeff_deriv_holds : contour_coeff_deriv_stmt. Proof. exact: contour_coeff_deriv. Qed.
Lemma contour_value_deriv_holds : contour_value_deriv_stmt. Proof. exact: contour_value_deriv. Qed.
