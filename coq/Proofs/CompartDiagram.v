(* C07: well-formed shipped-model tables, their transition diagram, and what every call of an
   event function entered from the scheduler does to the compartments (partition, arrow of the
   diagram, infection through an infectious edge, posting of the fixed-delay removal,
   quiescence).  All per-call statements are about a call [CEv x t e] that satisfies
   [call_ok] on a state satisfying the run invariant [J] (Proofs/CompartInv.v); Proofs/
   CompartRun.v shows that every call of either scheduler is of that form. *)
From Coq Require Import List ZArith QArith Bool Arith Lia Lqa.
From EpyV Require Import Lib.Prelude Model.Kernel Model.Loci Model.Compart
  Proofs.KernelBase Proofs.KernelMember Proofs.LociBase Proofs.LociLocus Proofs.LociInv
  Proofs.CompartRun Proofs.CompartSort Proofs.CompartInv.
Import ListNotations.
Close Scope Q_scope.

(* ------------------------------------------------------------------ well-formed tables *)
Definition locus_left (sp : spec) : Z :=
  match sp with NodeLocus c => c | EdgeLocus l _ => l | MultiEdgeLocus l _ => l end.

(* a node event function sits on a node locus, an edge event function on an edge locus *)
Definition kind_fits (sp : spec) (h : hkind) : bool :=
  match h, sp with
  | HNode _, NodeLocus _ => true
  | HLeft _ _ _, EdgeLocus _ _ => true
  | HLeft _ _ _, MultiEdgeLocus _ _ => true
  | HNop, _ => true
  | _, _ => false
  end.

Definition posted_node_prog (cm : cmodel) (k : nat) : bool :=
  match nth_error (cm_kinds cm) k with Some (HNode _) => true | _ => false end.

Definition wf_kind_post (cm : cmodel) (h : hkind) : bool :=
  match h with
  | HLeft _ _ (Some (T, k)) => Qle_bool 0 T && posted_node_prog cm k
  | _ => true
  end.

Definition wf_event (cm : cmodel) (ev : cevent) : bool :=
  (ce_locus ev <? length (cm_specs cm))
  && kind_fits (nth (ce_locus ev) (cm_specs cm) default_spec) (ce_kind ev)
  && wf_kind_post cm (ce_kind ev).

(* events refer to existing loci of the right sort; posted programs exist, are node event functions
   and are posted with a non-negative delay; the loci table is well formed (C01); the equilibrium
   test reads existing loci; every target compartment is a compartment of the model (true by the
   definition of cm_comps; checked all the same) *)
Definition wf_model (cm : cmodel) : bool :=
  wf_loci (cm_specs cm)
  && forallb (wf_event cm) (cm_events cm)
  && forallb (fun h => match h with HNode _ => true | _ => false end) (cm_extra cm)
  && match cm_seed_post cm with
     | Some (c, T, k) => Qle_bool 0 T && posted_node_prog cm k && zmem c (cm_comps cm)
     | None => true
     end
  && forallb (fun i => i <? length (cm_specs cm)) (cm_equil cm)
  && forallb (fun h => forallb (fun c => zmem c (cm_comps cm)) (kind_target h)) (cm_kinds cm).

Lemma wf_model_loci cm : wf_model cm = true -> wf_loci (cm_specs cm) = true.
Proof. unfold wf_model. rewrite !andb_true_iff. tauto. Qed.

Lemma wf_model_event cm ev : wf_model cm = true -> In ev (cm_events cm) ->
  ce_locus ev < length (cm_specs cm)
  /\ kind_fits (nth (ce_locus ev) (cm_specs cm) default_spec) (ce_kind ev) = true
  /\ wf_kind_post cm (ce_kind ev) = true.
Proof.
  unfold wf_model. rewrite !andb_true_iff. intros [[[[[_ H] _] _] _] _] Hin.
  rewrite forallb_forall in H. specialize (H ev Hin). unfold wf_event in H. rewrite !andb_true_iff in H.
  destruct H as [[H1 H2] H3]. apply Nat.ltb_lt in H1. tauto.
Qed.

(* ------------------------------------------------------------------ the diagram *)
Fixpoint pnodup (l : list (Z * Z)) : list (Z * Z) :=
  match l with
  | [] => []
  | x :: t => if existsb (zpair_eqb x) t then pnodup t else x :: pnodup t
  end.

Lemma zpair_eqb_eq a b : zpair_eqb a b = true <-> a = b.
Proof.
  destruct a as [a1 a2], b as [b1 b2]. unfold zpair_eqb. cbn [fst snd]. rewrite andb_true_iff, !Z.eqb_eq.
  split; [intros [-> ->]; reflexivity | intros E; inversion E; tauto].
Qed.

Lemma pnodup_In x l : In x (pnodup l) <-> In x l.
Proof.
  induction l as [|y t IH]; cbn [pnodup In]; [tauto|].
  destruct (existsb (zpair_eqb y) t) eqn:E.
  - rewrite IH. split; [tauto|]. intros [<-|H]; [|exact H].
    apply existsb_exists in E. destruct E as [z [Hz Ez]]. apply zpair_eqb_eq in Ez. subst z. exact Hz.
  - cbn [In]. rewrite IH. tauto.
Qed.

(* an HNode c event on NodeLocus l contributes l -> c; an HLeft c event on EdgeLocus l r or
   MultiEdgeLocus l rs contributes l -> c *)
Definition event_arrow (cm : cmodel) (ev : cevent) : list (Z * Z) :=
  let l := locus_left (nth (ce_locus ev) (cm_specs cm) default_spec) in
  match ce_kind ev with
  | HNode c => [(l, c)]
  | HLeft c _ _ => [(l, c)]
  | _ => []
  end.

(* a posted node event function HNode c' reached from an infection into c (or from the seeds in c) contributes c -> c' *)
Definition post_arrow (cm : cmodel) (c : Z) (k : nat) : list (Z * Z) :=
  match nth_error (cm_kinds cm) k with Some (HNode c') => [(c, c')] | _ => [] end.

Definition posted_arrows (cm : cmodel) : list (Z * Z) :=
  flat_map (fun ev => match ce_kind ev with HLeft c _ (Some (_, k)) => post_arrow cm c k | _ => [] end) (cm_events cm)
  ++ match cm_seed_post cm with Some (c, _, k) => post_arrow cm c k | None => [] end.

Definition diagram (cm : cmodel) : list (Z * Z) :=
  pnodup (flat_map (event_arrow cm) (cm_events cm) ++ posted_arrows cm).

Lemma event_arrow_in cm ev a : In ev (cm_events cm) -> In a (event_arrow cm ev) -> In a (diagram cm).
Proof.
  intros H1 H2. unfold diagram. apply pnodup_In, in_app_iff. left. apply in_flat_map. exists ev. split; assumption.
Qed.

(* ------------------------------------------------------------------ counting *)
Lemma znodup_NoDup l : NoDup (znodup l).
Proof.
  induction l as [|x t IH]; cbn [znodup]; [constructor|].
  destruct (zmem x t) eqn:E; [exact IH|]. constructor; [|exact IH].
  intros H. apply (proj1 (znodup_In x t)) in H. apply (proj2 (zmem_In x t)) in H. congruence.
Qed.

Fixpoint lsum (l : list nat) : nat := match l with [] => 0 | x :: t => x + lsum t end.

Lemma lsum_map_add {A} (f g : A -> nat) l :
  lsum (map (fun x => f x + g x) l) = lsum (map f l) + lsum (map g l).
Proof. induction l as [|x l IH]; cbn; [reflexivity|]. rewrite IH. lia. Qed.

Lemma count_one c0 comps : NoDup comps -> In c0 comps ->
  lsum (map (fun c => if Z.eqb c0 c then 1 else 0) comps) = 1.
Proof.
  induction comps as [|c comps IH]; intros Hnd Hin; [destruct Hin|].
  inversion Hnd as [|? ? Hn Hnd']; subst. cbn [map lsum]. destruct Hin as [<-|Hin].
  - rewrite Z.eqb_refl.
    assert (Z : lsum (map (fun c1 => if Z.eqb c c1 then 1 else 0) comps) = 0).
    { clear IH Hnd Hnd'. induction comps as [|d comps IH]; [reflexivity|]. cbn [map lsum].
      destruct (Z.eqb_spec c d) as [->|_]; [exfalso; apply Hn; left; reflexivity|].
      rewrite IH; [reflexivity|]. intros H. apply Hn. right. exact H. }
    rewrite Z. reflexivity.
  - destruct (Z.eqb_spec c0 c) as [->|_]; [contradiction|]. rewrite (IH Hnd' Hin). reflexivity.
Qed.

(* the sizes results() reports are the true counts and sum to the number of nodes *)
Lemma counts_sum s comps : NoDup comps ->
  (forall v, In v (st_nodes s) -> exists c, getc s v = Some c /\ In c comps) ->
  lsum (map (count_in s) comps) = length (st_nodes s).
Proof.
  intros Hnd. unfold count_in, nodes_in. induction (st_nodes s) as [|v vs IH]; intros H.
  - cbn [filter length]. clear. induction comps as [|c comps IHc]; [reflexivity | exact IHc].
  - destruct (H v (or_introl eq_refl)) as [c0 [E Hc]].
    rewrite (map_ext _ (fun c => (if Z.eqb c0 c then 1 else 0)
               + length (filter (fun v0 => match getc s v0 with Some x => Z.eqb x c | None => false end) vs))).
    + rewrite lsum_map_add, (count_one c0 comps Hnd Hc), IH; [reflexivity|].
      intros u Hu. apply H. right. exact Hu.
    + intros c. cbn [filter]. rewrite E. destruct (Z.eqb c0 c); reflexivity.
Qed.

(* ------------------------------------------------------------------ the events of the simulation table *)
Definition mk_ev (j : nat) (cev : cevent) : event :=
  {| ev_elem := ce_elem cev; ev_locus := ce_locus cev; ev_p := ce_p cev; ev_prog := j |}.

Lemma nth_error_indexed {A B} (f : nat * A -> B) (l : list A) : forall a j,
  nth_error (map f (combine (seq a (length l)) l)) j = option_map (fun x => f ((a + j)%nat, x)) (nth_error l j).
Proof.
  induction l as [|x l IH]; intros a j; [destruct j; reflexivity|].
  destruct j as [|j]; cbn [length seq combine map nth_error option_map]; [rewrite Nat.add_0_r; reflexivity|].
  rewrite IH. replace (S a + j)%nat with (a + S j)%nat by lia. reflexivity.
Qed.

Section CD.
Variable cm : cmodel.
Variables (nodes : list Z) (edges : list (Z * Z)) (init : list (Z * Z)) (maxtime : Q) (monitor : option Q).
Let tb := mk_table cm nodes edges init maxtime monitor.
Let JJ := J cm nodes edges.

Definition mpi : nat := match monitor with Some _ => 1 | None => 0 end.

Lemma model_events j : nth_error
  (map (fun x : nat * cevent => {| ev_elem := ce_elem (snd x); ev_locus := ce_locus (snd x); ev_p := ce_p (snd x); ev_prog := fst x |})
       (combine (seq 0 (length (cm_events cm))) (cm_events cm))) j = option_map (mk_ev j) (nth_error (cm_events cm) j).
Proof. rewrite nth_error_indexed. cbn [Nat.add]. reflexivity. Qed.

Lemma all_events_mk pi j ev : In (pi, j, ev) (all_events tb) <->
  pi = mpi /\ exists cev, nth_error (cm_events cm) j = Some cev /\ ev = mk_ev j cev.
Proof.
  unfold all_events. rewrite all_events_from_In, Nat.sub_0_r. unfold tb, mk_table, mpi. cbn [t_procs].
  split.
  - intros (_ & p & E1 & E2). destruct monitor as [delta|].
    + destruct pi as [|[|pi]]; cbn [nth_error] in E1.
      * inversion E1; subst. cbn [p_events] in E2. destruct j; discriminate.
      * inversion E1; subst. cbn [p_events] in E2. rewrite model_events in E2.
        split; [reflexivity|]. destruct (nth_error (cm_events cm) j) as [cev|]; [|discriminate].
        exists cev. inversion E2. split; reflexivity.
      * destruct pi; discriminate.
    + destruct pi as [|pi]; cbn [nth_error] in E1; [|destruct pi; discriminate].
      inversion E1; subst. cbn [p_events] in E2. rewrite model_events in E2.
      split; [reflexivity|]. destruct (nth_error (cm_events cm) j) as [cev|]; [|discriminate].
      exists cev. inversion E2. split; reflexivity.
  - intros [-> [cev [E ->]]]. split; [lia|]. destruct monitor as [delta|]; cbn [nth_error].
    + eexists. split; [reflexivity|]. cbn [p_events]. rewrite model_events, E. reflexivity.
    + eexists. split; [reflexivity|]. cbn [p_events]. rewrite model_events, E. reflexivity.
Qed.

Lemma event_kind j cev : nth_error (cm_events cm) j = Some cev -> nth_error (cm_kinds cm) j = Some (ce_kind cev).
Proof.
  intros E. unfold cm_kinds. rewrite nth_error_app1.
  - rewrite nth_error_map, E. reflexivity.
  - rewrite map_length. apply nth_error_Some. congruence.
Qed.

(* ------------------------------------------------------------------ members of the kernel's loci are members of the truth *)
Lemma locus_ksort (s : st cworld) li : JJ s -> locus s li = ksort (nth li (st_loci (cw_st (world s))) []).
Proof.
  intros H. unfold locus. rewrite (proj1 H). change (@nil Kernel.elem) with (ksort []). apply map_nth.
Qed.

Lemma member_truth (s : st cworld) li e : JJ s -> li < length (cm_specs cm) -> mem e (locus s li) = true ->
  exists x, e = kelem x /\ truthP (nth li (cm_specs cm) default_spec) (cw_st (world s)) x.
Proof.
  intros H Hli Hm. rewrite (locus_ksort s li H) in Hm. apply mem_In, ksort_In, in_map_iff in Hm.
  destruct Hm as [x [<- Hx]]. exists x. split; [reflexivity|].
  destruct H as (_ & [_ [_ Hl]] & _). destruct (Hl li Hli) as [_ [Hs _]]. apply Hs, Hx.
Qed.

(* what is known at a call of a stochastic / per-element event function *)
Lemma event_call (s : st cworld) x t e : wf_model cm = true -> JJ s -> call_ok tb (CEv x t e) s ->
  exists j cev le, x = (mpi, j, mk_ev j cev) /\ nth_error (cm_events cm) j = Some cev /\ In cev (cm_events cm)
    /\ e = kelem le /\ truthP (nth (ce_locus cev) (cm_specs cm) default_spec) (cw_st (world s)) le
    /\ clock s = t
    /\ world (after tb (CEv x t e) s) = fst (handler (cm_specs cm) 0 (ce_kind cev) t e (loci s) (world s)).
Proof.
  intros Hwf Hj (Hx & Hm & Hc). destruct x as [[pi j] ev]. apply all_events_mk in Hx.
  destruct Hx as [-> [cev [E ->]]]. pose proof (nth_error_In _ _ E) as Hin.
  destruct (wf_model_event cm cev Hwf Hin) as (Hli & _ & _).
  cbn [snd mk_ev ev_locus] in Hm. destruct (member_truth s _ e Hj Hli Hm) as [le [He Ht]].
  exists j, cev, le. repeat split; try assumption.
  pose proof (after_lw tb (CEv (mpi, j, mk_ev j cev) t e) s) as A. cbn [call_args snd mk_ev ev_prog] in A.
  destruct A as [_ A]. rewrite A. unfold tb. rewrite prog_of_kind, (event_kind j cev E). reflexivity.
Qed.

(* ------------------------------------------------------------------ C07_diagram, C07_through_infectious_edge *)
Definition right_ok (sp : spec) (s : Loci.state) (m : Z) : Prop :=
  match sp with
  | NodeLocus _ => False
  | EdgeLocus _ r => getc s m = Some r
  | MultiEdgeLocus _ rs => exists r, getc s m = Some r /\ In r rs
  end.

Lemma truthP_edge_facts sp s n m : truthP sp s (E n m) ->
  adj s n m /\ getc s n = Some (locus_left sp) /\ right_ok sp s m.
Proof.
  destruct sp as [c|l r|l rs]; cbn [truthP qual locus_left right_ok]; [intros []| |].
  - rewrite andb_true_iff, !ceq_true. tauto.
  - rewrite andb_true_iff, ceq_true, cin_true. tauto.
Qed.

Lemma truthP_node_facts sp s n : truthP sp s (N n) -> In n (st_nodes s) /\ getc s n = Some (locus_left sp).
Proof. destruct sp as [c|l r|l rs]; cbn [truthP locus_left]; [tauto | intros [] | intros []]. Qed.

(* at a call of an edge event function the element (n, m) is an edge of the network, n is in the
   left compartment and m in (one of) the right one(s), at that very moment *)
Theorem through_infectious_edge (s : st cworld) x t e : wf_model cm = true -> JJ s -> call_ok tb (CEv x t e) s ->
  forall j cev c mark post, x = (mpi, j, mk_ev j cev) -> nth_error (cm_events cm) j = Some cev ->
  ce_kind cev = HLeft c mark post ->
  let sp := nth (ce_locus cev) (cm_specs cm) default_spec in
  let st := cw_st (world s) in
  exists n m, e = EE n m /\ (In (n, m) edges \/ In (m, n) edges)
    /\ getc st n = Some (locus_left sp) /\ right_ok sp st m.
Proof.
  intros Hwf Hj Hok j cev c mark post Ex En Ek. cbv zeta.
  destruct (event_call s x t e Hwf Hj Hok) as (j' & cev' & le & Ex' & En' & Hin & He & Ht & _).
  rewrite Ex in Ex'. inversion Ex'; subst j'. rewrite En in En'. inversion En'; subst cev'.
  destruct (wf_model_event cm cev Hwf Hin) as (_ & Hfit & _). rewrite Ek in Hfit.
  destruct le as [v|n m].
  - exfalso. destruct (nth (ce_locus cev) (cm_specs cm) default_spec); cbn in Hfit, Ht; [discriminate | exact Ht | exact Ht].
  - exists n, m. split; [exact He|]. destruct (truthP_edge_facts _ _ n m Ht) as (Ha & Hl & Hr).
    split; [|split; assumption]. apply adjb_spec in Ha.
    destruct Hj as (_ & _ & _ & Hedges & _). rewrite Hedges in Ha. exact Ha.
Qed.

(* every compartment change made by the call is an arrow of the diagram; nothing else changes *)
Theorem call_diagram (s : st cworld) x t e : wf_model cm = true -> JJ s -> call_ok tb (CEv x t e) s ->
  forall v, getc (cw_st (world (after tb (CEv x t e) s))) v <> getc (cw_st (world s)) v ->
  exists l c, getc (cw_st (world s)) v = Some l /\ getc (cw_st (world (after tb (CEv x t e) s))) v = Some c
    /\ In (l, c) (diagram cm).
Proof.
  intros Hwf Hj Hok v Hne.
  destruct (event_call s x t e Hwf Hj Hok) as (j & cev & le & Ex & En & Hin & He & Ht & _ & Hw).
  rewrite Hw, handler_st in *. clear Hw.
  destruct (wf_model_event cm cev Hwf Hin) as (_ & Hfit & _).
  destruct (moved (ce_kind cev) e) as [[n c]|] eqn:M; [|congruence].
  rewrite cc_getc in *. destruct (getc_raises (cw_st (world s)) n); [congruence|].
  destruct (Z.eqb_spec v n) as [->|_]; [|congruence].
  exists (locus_left (nth (ce_locus cev) (cm_specs cm) default_spec)), c.
  assert (A : In (locus_left (nth (ce_locus cev) (cm_specs cm) default_spec), c) (event_arrow cm cev)
              /\ getc (cw_st (world s)) n = Some (locus_left (nth (ce_locus cev) (cm_specs cm) default_spec))).
  { unfold event_arrow. destruct (ce_kind cev) as [c1|c1 mark post| |] eqn:Ek; destruct e as [n1|n1 m1]; cbn in M; try discriminate;
      inversion M; subst n1 c1; (split; [left; reflexivity|]).
    - destruct le as [u|u w]; cbn in He; inversion He; subst u. exact (proj2 (truthP_node_facts _ _ n Ht)).
    - destruct le as [u|u w]; cbn in He; inversion He; subst u w. exact (proj1 (proj2 (truthP_edge_facts _ _ n m1 Ht))). }
  destruct A as [A1 A2]. split; [exact A2|]. split; [reflexivity|]. exact (event_arrow_in cm cev _ Hin A1).
Qed.

(* ------------------------------------------------------------------ C07_fixed_recovery: the removal is posted at t + T *)
Definition loci_only (a : action) : Prop := match a with ALAdd _ _ | ALDiscard _ _ => True | _ => False end.

Lemma sync_from_loci_only i old new : Forall loci_only (sync_from i old new).
Proof.
  revert i old. induction new as [|n new IH]; intros i old; cbn [sync_from]; [constructor|].
  apply Forall_app. split; [|apply Forall_app; split; [|apply IH]];
    apply Forall_forall; intros a Ha; apply in_map_iff in Ha; destruct Ha as [y [<- _]]; exact I.
Qed.

Lemma run_loci_only {W} p t e acts (s : st W) : Forall loci_only acts ->
  let s' := run_actions p t e acts s in
  clock s' = clock s /\ nextid s' = nextid s /\ queue s' = queue s /\ out s' = out s /\ ids s' = ids s.
Proof.
  unfold run_actions. revert s. induction acts as [|a acts IH]; intros s H; cbn [fold_left]; [repeat split|].
  inversion H as [|? ? Ha H']; subst. destruct (IH (do_action p t e a s) H') as (I1 & I2 & I3 & I4 & I5).
  rewrite I1, I2, I3, I4, I5. destruct a; cbn in Ha; try contradiction; repeat split.
Qed.

(* an infection event function with fixed recovery, entered at time t on (n, m): right after it
   the queue holds a fresh live one-shot entry for node n, program k, due at t + T, and the
   posting is recorded in the output (so C04 applies to it) *)
Theorem fixed_recovery_posts (s : st cworld) x t e : wf_model cm = true -> JJ s -> call_ok tb (CEv x t e) s ->
  forall j cev c mark T k n m, x = (mpi, j, mk_ev j cev) -> nth_error (cm_events cm) j = Some cev ->
  ce_kind cev = HLeft c mark (Some (T, k)) -> e = EE n m ->
  let s' := after tb (CEv x t e) s in
  let y := {| e_time := Qred (t + T); e_id := nextid s; e_live := true; e_proc := mpi; e_elem := EN n; e_prog := k; e_rep := None |} in
  (0 <= T)%Q /\ posted_node_prog cm k = true /\ queue s' = y :: queue s /\ nextid s' = S (nextid s)
  /\ exists l, out s' = OTap t mpi (NEv mpi j) e :: OPosted (nextid s) (Qred (t + T)) :: l ++ out s.
Proof.
  intros Hwf Hj Hok j cev c mark T k n m Ex En Ek Ee. cbv zeta.
  assert (Hin : In cev (cm_events cm)) by (eapply nth_error_In; exact En).
  destruct (wf_model_event cm cev Hwf Hin) as (_ & _ & Hp). rewrite Ek in Hp. cbn [wf_kind_post] in Hp.
  apply andb_true_iff in Hp. destruct Hp as [HT Hk]. apply Qle_bool_iff in HT.
  split; [exact HT|]. split; [exact Hk|].
  destruct Hok as (_ & _ & Hc). subst x e. cbn [after]. unfold fire_event, run_prog. cbn [snd mk_ev ev_prog ev_locus].
  unfold tb at 1 2 3. rewrite prog_of_kind, (event_kind j cev En), Ek.
  set (s1 := emit _ s). cbn [handler].
  set (s'' := fst (change_compartment (cm_specs cm) (cw_st (world s1)) n c)).
  set (w' := if mark then _ else _).
  unfold run_actions. rewrite fold_left_app.
  pose proof (run_loci_only mpi t (EE n m) (sync_actions 0 (loci s1) (st_loci s'')) (set_world w' s1)
                (sync_from_loci_only 0 _ _)) as R. cbv zeta in R. unfold run_actions in R.
  set (s2 := fold_left _ (sync_actions 0 (loci s1) (st_loci s'')) (set_world w' s1)) in *.
  destruct R as (R1 & R2 & R3 & R4 & R5). cbn [clock nextid queue out ids set_world] in R1, R2, R3, R4, R5.
  cbn [fold_left do_action]. unfold post. rewrite R1.
  assert (Hq : Qltb (Qred (t + T)) (clock s1) = false).
  { apply Qltb_false. unfold s1. cbn [clock emit]. rewrite Hc, Qred_correct. lra. }
  rewrite Hq. cbn [emit push_id queue nextid out]. rewrite R2, R3, R4.
  split; [reflexivity|]. split; [reflexivity|]. exists [OHandler j t (clock s) (EE n m) (Some (mem (EE n m) (locus s (ce_locus cev))))].
  reflexivity.
Qed.

(* ------------------------------------------------------------------ C07_quiescent *)
Lemma qsum_zero {A} (f : A -> Q) l : (forall x, In x l -> (0 <= f x)%Q) -> (qsum f l == 0)%Q ->
  forall x, In x l -> (f x == 0)%Q.
Proof.
  induction l as [|y l IH]; intros Hnn Hz x Hx; [destruct Hx|]. cbn [qsum] in Hz.
  assert (H1 : (0 <= f y)%Q) by (apply Hnn; left; reflexivity).
  assert (H2 : (0 <= qsum f l)%Q) by (apply qsum_nonneg; intros z Hz'; apply Hnn; right; exact Hz').
  destruct Hx as [<-|Hx]; [lra|]. apply IH; [intros z Hz'; apply Hnn; right; exact Hz' | lra | exact Hx].
Qed.

(* when the total rate is zero (the branch a = 0 of the Gillespie loop) every per-element event
   of positive probability has an empty locus, hence nothing qualifies for it *)
Theorem quiescent (s : st cworld) : wf_model cm = true -> JJ s ->
  (forall ev, In ev (cm_events cm) -> (0 <= ce_p ev)%Q) ->
  Qeq_bool (sum_rates s (transitions tb)) 0 = true ->
  forall cev, In cev (cm_events cm) -> ce_elem cev = true -> (0 < ce_p cev)%Q ->
  forall x, ~ truthP (nth (ce_locus cev) (cm_specs cm) default_spec) (cw_st (world s)) x.
Proof.
  intros Hwf Hj Hnn Hz cev Hin Hel Hp x Hx.
  apply Qeq_bool_iff in Hz. rewrite sum_rates_qsum in Hz.
  destruct (In_nth_error _ _ Hin) as [j Ej].
  assert (Hall : In (mpi, j, mk_ev j cev) (all_events tb)) by (apply all_events_mk; split; [reflexivity|]; exists cev; split; [exact Ej | reflexivity]).
  assert (Htr : In (mpi, j, mk_ev j cev) (transitions tb)).
  { unfold transitions. apply in_app_iff. left. unfold per_element. apply filter_In. split; [exact Hall | exact Hel]. }
  assert (Hr : (Kernel.rate s (mpi, j, mk_ev j cev) == 0)%Q).
  { apply (qsum_zero (Kernel.rate s) (transitions tb)); [|exact Hz | exact Htr].
    intros y Hy. apply rate_nonneg. apply In_transitions in Hy. destruct y as [[pi' j'] ev']. apply all_events_mk in Hy.
    destruct Hy as [_ [cev' [E' ->]]]. cbn [snd mk_ev ev_p]. apply Hnn. eapply nth_error_In. exact E'. }
  unfold Kernel.rate in Hr. cbn [snd mk_ev ev_elem ev_locus ev_p] in Hr. rewrite Hel, Qred_correct in Hr.
  assert (Hl : locus s (ce_locus cev) = []).
  { destruct (locus s (ce_locus cev)) as [|e0 l0] eqn:El; [reflexivity|]. exfalso.
    unfold qlen in Hr. cbn [length] in Hr.
    assert (0 < inject_Z (Z.of_nat (S (length l0))))%Q by (unfold Qlt; cbn; lia).
    assert (0 < ce_p cev * inject_Z (Z.of_nat (S (length l0))))%Q by (apply Qmult_lt_0_compat; assumption). lra. }
  destruct (wf_model_event cm cev Hwf Hin) as (Hli & _ & _).
  rewrite (locus_ksort s _ Hj) in Hl. apply ksort_nil_iff in Hl.
  destruct Hj as (_ & [_ [_ HL]] & _). destruct (HL _ Hli) as (_ & _ & Hc). rewrite Hl in Hc.
  destruct (Hc x Hx) as [[]|[]].
Qed.

(* the exit of the Gillespie loop through a = 0 with nothing pending *)
Lemma stoch_loop_quiescent_exit pf f t ev (s : st cworld) :
  at_equil tb t s = false -> Qeq_bool (sum_rates s (transitions tb)) 0 = true -> head (queue (discard s)) = None ->
  stoch_loop tb pf (S f) t ev s = (t, ev, discard s).
Proof.
  intros H1 H2 H3. rewrite stoch_loop_S, H1, H2. unfold next_pending_time. rewrite H3. reflexivity.
Qed.

(* spelled out: no edge from the left to the right compartment, no node in the compartment *)
Corollary quiescent_no_edge (s : st cworld) : wf_model cm = true -> JJ s ->
  (forall ev, In ev (cm_events cm) -> (0 <= ce_p ev)%Q) ->
  Qeq_bool (sum_rates s (transitions tb)) 0 = true ->
  forall cev l r, In cev (cm_events cm) -> ce_elem cev = true -> (0 < ce_p cev)%Q ->
  nth (ce_locus cev) (cm_specs cm) default_spec = EdgeLocus l r ->
  forall a b, In (a, b) edges \/ In (b, a) edges ->
  ~ (getc (cw_st (world s)) a = Some l /\ getc (cw_st (world s)) b = Some r).
Proof.
  intros Hwf Hj Hnn Hz cev l r Hin Hel Hp Hsp a b Hab [Ha Hb].
  apply (quiescent s Hwf Hj Hnn Hz cev Hin Hel Hp (E a b)). rewrite Hsp. cbn [truthP qual]. split.
  - unfold adj. apply adjb_spec. destruct Hj as (_ & _ & _ & -> & _). exact Hab.
  - rewrite Ha, Hb. cbn [ceq]. rewrite !Z.eqb_refl. reflexivity.
Qed.

Corollary quiescent_no_node (s : st cworld) : wf_model cm = true -> JJ s ->
  (forall ev, In ev (cm_events cm) -> (0 <= ce_p ev)%Q) ->
  Qeq_bool (sum_rates s (transitions tb)) 0 = true ->
  forall cev c, In cev (cm_events cm) -> ce_elem cev = true -> (0 < ce_p cev)%Q ->
  nth (ce_locus cev) (cm_specs cm) default_spec = NodeLocus c ->
  forall v, In v nodes -> getc (cw_st (world s)) v <> Some c.
Proof.
  intros Hwf Hj Hnn Hz cev c Hin Hel Hp Hsp v Hv Hc.
  apply (quiescent s Hwf Hj Hnn Hz cev Hin Hel Hp (N v)). rewrite Hsp. cbn [truthP]. split; [|exact Hc].
  destruct Hj as (_ & _ & -> & _). exact Hv.
Qed.

(* ------------------------------------------------------------------ C07_partition *)
Theorem partition (s : st cworld) : JJ s ->
  let st := cw_st (world s) in
  st_nodes st = nodes /\ st_edges st = edges
  /\ (forall v, In v nodes -> exists c, getc st v = Some c /\ In c (cm_comps cm))
  /\ NoDup (cm_comps cm)
  /\ lsum (map (count_in st) (cm_comps cm)) = length nodes.
Proof.
  intros (_ & _ & Hn & He & Hg). cbv zeta. split; [exact Hn|]. split; [exact He|]. split; [exact Hg|].
  split; [apply znodup_NoDup|]. rewrite <- Hn. apply counts_sum; [apply znodup_NoDup|]. rewrite Hn. exact Hg.
Qed.

End CD.
