(* The one-step law of the synchronous model: the variates consumed by a timestep are replaced
   by every pattern of trial outcomes, weighted as independent Bernoulli trials
   (Proofs/Binomial.v), and pushed through tranche / fire_tranche of Model/Kernel.v.
   For tables without fixed-rate events (all shipped compartmented models).
   A success is scripted as the variate 0 (0 <= p), a failure as 2 (not 2 <= p for p < 2). *)
From Coq Require Import List ZArith QArith Bool Arith Lia.
From EpyV Require Model.Loci.
From EpyV Require Import Lib.Prelude Model.Kernel Model.Compart Proofs.KernelMember Proofs.KernelSync Proofs.Binomial.
Import ListNotations.
Open Scope Q_scope.

(* independent trials with probabilities ps *)
Fixpoint patterns (ps : list Q) : dist (list bool) :=
  match ps with
  | [] => ret []
  | p :: ps' => bind (trial p) (fun b => bind (patterns ps') (fun m => ret (b :: m)))
  end.

Definition rands_of (m : list bool) : list Q := map (fun b : bool => if b then 0 else 2) m.

(* independent components: the product law *)
Fixpoint indep {A} (ds : list (dist A)) : dist (list A) :=
  match ds with
  | [] => ret []
  | d :: ds' => bind d (fun c => bind (indep ds') (fun l => ret (c :: l)))
  end.

(* all assignments of n components over the values cs *)
Fixpoint assignments {A} (cs : list A) (n : nat) : list (list A) :=
  match n with
  | O => [[]]
  | S n' => flat_map (fun c => map (cons c) (assignments cs n')) cs
  end.

(* two laws over lists of integers agree on every point of univ, and d1 has no mass elsewhere *)
Definition same_law (univ : list (list Z)) (d1 d2 : dist (list Z)) : bool :=
  forallb (fun x => Qeq_bool (prob (list_eqb Z.eqb x) d1) (prob (list_eqb Z.eqb x) d2)) univ
  && Qeq_bool (prob (fun y => existsb (list_eqb Z.eqb y) univ) d1) 1
  && Qeq_bool (mass d1) 1 && Qeq_bool (mass d2) 1.

Lemma patterns_repeat : forall n p, patterns (repeat p n) = masks n p.
Proof. induction n as [|n IH]; intros p; [reflexivity|]. cbn [repeat patterns masks]. rewrite IH. reflexivity. Qed.

Lemma outcomes_rands_of : forall p m, 0 <= p -> p < 2 -> outcomes p (length m) (rands_of m) = m.
Proof.
  intros p m H0 H2. induction m as [|b m IH]; [reflexivity|].
  cbn [length rands_of map outcomes hd tl]. fold (rands_of m). rewrite IH. f_equal.
  destruct b.
  - apply Qle_bool_iff. exact H0.
  - destruct (Qle_bool 2 p) eqn:E; [|reflexivity]. apply Qle_bool_iff in E.
    exfalso. exact (Qlt_not_le _ _ H2 E).
Qed.

Section Law.
Context {W : Type}.
Notation st := (st W).
Variable tb : table W.

(* the probability of each trial of a timestep, in the order the variates are consumed *)
Definition trial_probs (lc : list (list elem)) : list Q :=
  flat_map (fun x => repeat (ev_p (snd x)) (length (block lc x))) (per_element tb).

Definition with_rands (rs : list Q) (s : st) : st := set_oracle rs (lns s) (draws s) s.

(* the part of a timestep after the posted events: draw the tranche, fire it *)
Definition tranche_step (t : Q) (n : nat) (s : st) : nat * st :=
  let '(evs, s2) := tranche tb s in fire_tranche tb t evs n s2.

Lemma sync_step_tranche_step : forall pf t s,
  sync_step tb pf t s =
  tranche_step t (fst (run_pending tb pf t 0 (set_clock t s))) (set_clock t (snd (run_pending tb pf t 0 (set_clock t s)))).
Proof.
  intros pf t s. unfold sync_step, tranche_step. destruct (run_pending tb pf t 0 (set_clock t s)) as [n s1].
  reflexivity.
Qed.

(* the law of what is selected, and of (a view of) the state after the step *)
Definition select_dist (s : st) : dist (list (xev * elem)) :=
  bind (patterns (trial_probs (loci s))) (fun m => ret (fst (tranche tb (with_rands (rands_of m) s)))).

Definition step_dist {A} (t : Q) (s : st) (view : st -> A) : dist A :=
  bind (patterns (trial_probs (loci s))) (fun m => ret (view (snd (tranche_step t 0 (with_rands (rands_of m) s))))).

Lemma count_elem_trial_probs : forall lc, length (trial_probs lc) = count_elem lc (per_element tb).
Proof.
  intros lc. unfold trial_probs. induction (per_element tb) as [|x evs IH]; [reflexivity|].
  cbn [flat_map count_elem]. rewrite app_length, repeat_length, IH. reflexivity.
Qed.

(* without fixed-rate events every variate a timestep consumes is one of these trials *)
Lemma trial_probs_all : forall lc, fixed_rate tb = [] -> length (trial_probs lc) = tranche_rands tb lc.
Proof.
  intros lc H. unfold tranche_rands, count_fixed. rewrite H, count_elem_trial_probs. cbn [filter length]. lia.
Qed.

(* One per-element event and nothing else: the selected list is the image of |locus| independent
   Bernoulli(p) trials, each element kept iff its trial succeeds (selected_dist of Binomial.v). *)
Theorem select_dist_single : forall (s : st) x, per_element tb = [x] -> fixed_rate tb = [] ->
  active (loci s) x = true -> 0 <= ev_p (snd x) -> ev_p (snd x) < 2 ->
  forall P, prob P (select_dist s) == prob P (selected_dist x (ev_p (snd x)) (lookup (loci s) x)).
Proof.
  intros s x Hpe Hfr Ha H0 H2 P. unfold select_dist, selected_dist, trial_probs.
  rewrite Hpe. cbn [flat_map]. rewrite app_nil_r. unfold block. rewrite Ha, patterns_repeat, !prob_bind_ret.
  apply prob_ext_In. intros m q Hin. f_equal.
  rewrite tranche_spec. cbn [fst]. unfold spec_tranche. rewrite Hpe, Hfr.
  cbn [spec_elem spec_fixed with_rands set_oracle loci rands]. rewrite !app_nil_r.
  unfold block. rewrite Ha, spec_trials_pick.
  rewrite <- (masks_length _ _ _ _ Hin), (outcomes_rands_of _ m H0 H2). reflexivity.
Qed.

Corollary select_count_binomial : forall (s : st) x, per_element tb = [x] -> fixed_rate tb = [] ->
  active (loci s) x = true -> 0 <= ev_p (snd x) -> ev_p (snd x) < 2 ->
  forall k, prob (fun sel => Nat.eqb k (length sel)) (select_dist s) ==
            binomial_pmf (length (lookup (loci s) x)) (ev_p (snd x)) k.
Proof.
  intros s x Hpe Hfr Ha H0 H2 k. rewrite (select_dist_single s x Hpe Hfr Ha H0 H2).
  apply selected_binomial.
Qed.

End Law.

(* ------------------------------------------------------------------ shipped SIR as an instance *)
(* the table harness/compart_coq.py renders for epydemic.SIR: compartments I = 1, R = 2, S = 3;
   locus 0 = SI edges with the infection event, locus 1 = I nodes with the removal event *)
Definition sir (pInfect pRemove : Q) : cmodel :=
  {| cm_specs := [Loci.EdgeLocus 3 1; Loci.NodeLocus 1];
     cm_events := [ {| ce_elem := true; ce_locus := 0; ce_p := pInfect; ce_kind := HLeft 1 true None |};
                    {| ce_elem := true; ce_locus := 1; ce_p := pRemove; ce_kind := HNode 2 |} ];
     cm_extra := []; cm_seed_post := None; cm_equil := [] |}.

Definition comps_of (nodes : list Z) (s : st cworld) : list Z :=
  map (fun v => match Loci.getc (cw_st (world s)) v with Some c => c | None => 0%Z end) nodes.

Definition sir_table (nodes : list Z) (edges : list (Z * Z)) (init : list (Z * Z)) (pi pr : Q) : table cworld :=
  mk_table (sir pi pr) nodes edges init 2 None.

(* the law of the compartments after the first timestep *)
Definition sir_step (nodes : list Z) (edges : list (Z * Z)) (init : list (Z * Z)) (pi pr : Q) : dist (list Z) :=
  let tb := sir_table nodes edges init pi pr in
  step_dist tb 1 (set_clock 1 (setup_state tb [] [] [])) (comps_of nodes).

(* a node moves to c with probability q, else stays in c' *)
Definition two (c : Z) (q : Q) (c' : Z) : dist Z := [(c, q); (c', 1 - q)].
