(* C07, the key invariant of a run of a shipped compartmented model (Model/Compart.v run by
   Model/Kernel.v): at set-up, after every scheduler move and after every event function
     (a) the kernel's ordered loci are [map ksort] of the loci the handlers of Model/Loci.v keep;
     (b) those loci satisfy the C01 invariant for the model's table (weak form: exact up to the
         stored orientation of an edge that qualifies both ways round; it is the strong form
         [Inv] whenever the table is single_orientation);
     (c) the node and edge lists never change and every node has a compartment of the model.
   For every cmodel with a well-formed loci table, every network, initial assignment, oracle. *)
From Coq Require Import List ZArith QArith Bool Arith Lia.
From EpyV Require Import Lib.Prelude Model.Kernel Model.Loci Model.Compart
  Proofs.KernelBase Proofs.LociBase Proofs.LociLocus Proofs.LociInv Proofs.CompartRun Proofs.CompartSort.
Import ListNotations.
Close Scope Q_scope.

(* ------------------------------------------------------------------ kernel: what a call does to loci and world *)
Definition call_args (c : call) : nat * Q * Kernel.elem :=
  match c with
  | CEv x t e => (ev_prog (snd x), t, e)
  | CPost h => (e_prog h, e_time h, e_elem h)
  end.

Section KW.
Context {W : Type}.
Variable tb : table W.
Implicit Types s : st W.

Lemma run_prog_lw p k t e s :
  loci (run_prog tb p k t e s) = fold_left (act_loci e) (snd (prog_of tb k t e (loci s) (world s))) (loci s)
  /\ world (run_prog tb p k t e s) = fst (prog_of tb k t e (loci s) (world s)).
Proof.
  unfold run_prog. destruct (prog_of tb k t e (loci s) (world s)) as [w acts]. cbn [fst snd].
  rewrite run_actions_loci, run_actions_world. split; reflexivity.
Qed.

Lemma post_lw t p e prog rep s : loci (snd (post t p e prog rep s)) = loci s /\ world (snd (post t p e prog rep s)) = world s.
Proof. unfold post. destruct (Qltb t (clock s)); split; reflexivity. Qed.

(* the event function entered by call c computes from the loci and the world of the state it
   is entered on; its result and its loci actions are all that changes loci and world *)
Lemma after_lw c s :
  let '(k, t, e) := call_args c in
  loci (after tb c s) = fold_left (act_loci e) (snd (prog_of tb k t e (loci s) (world s))) (loci s)
  /\ world (after tb c s) = fst (prog_of tb k t e (loci s) (world s)).
Proof.
  destruct c as [[[pi j] ev] t e|h]; cbn [call_args after snd].
  - unfold fire_event. cbn [loci world emit].
    exact (run_prog_lw pi (ev_prog ev) t e (emit (OHandler (ev_prog ev) t (clock s) e (Some (mem e (locus s (ev_locus ev))))) s)).
  - unfold pend_step, fire. cbn [loci world emit].
    set (s1 := emit _ (set_clock _ (set_queue _ s))).
    pose proof (run_prog_lw (e_proc h) (e_prog h) (e_time h) (e_elem h) s1) as R.
    change (loci s1) with (loci s) in R. change (world s1) with (world s) in R.
    destruct (e_rep h) as [ddt|]; [|exact R].
    pose proof (post_lw (Qred (e_time h + ddt)) (e_proc h) (e_elem h) (e_prog h) (Some ddt)
                  (run_prog tb (e_proc h) (e_prog h) (e_time h) (e_elem h) s1)) as P.
    destruct (post _ _ _ _ _ _) as [[i|] s3]; cbn [snd] in P; cbn [loci world emit];
      destruct P as [P1 P2]; rewrite P1, P2; exact R.
Qed.

(* set-up actions that only post events leave loci and world alone *)
Definition post_only (a : action) : Prop :=
  match a with APost _ _ | APostOn _ _ _ | APostRep _ _ _ => True | _ => False end.

Lemma post_only_loci e acts L : Forall post_only acts -> fold_left (act_loci e) acts L = L.
Proof.
  revert L. induction acts as [|a acts IH]; intros L H; cbn [fold_left]; [reflexivity|].
  inversion H as [|? ? Ha H']; subst. rewrite <- (IH L H') at 2. f_equal. destruct a; cbn in Ha; try contradiction; reflexivity.
Qed.

Lemma setup_state_lw rs ls ds : (forall p, In p (t_procs tb) -> Forall post_only (p_setup p)) ->
  loci (setup_state tb rs ls ds) = init_loci tb /\ world (setup_state tb rs ls ds) = t_world tb.
Proof.
  intros H. unfold setup_state.
  set (s0 := {| clock := 0%Q; nextid := 0; queue := []; loci := init_loci tb; world := t_world tb; ids := []; out := [];
                rands := rs; lns := ls; draws := ds; stuck := false |}).
  change (init_loci tb) with (loci s0). change (t_world tb) with (world s0).
  generalize 0%nat as k. generalize s0 as s. clear s0. revert H.
  induction (t_procs tb) as [|p ps IH]; intros H s k; cbn [fold_left fst snd]; [split; reflexivity|].
  destruct (IH (fun q Hq => H q (or_intror Hq)) (run_actions k 0%Q (EN 0) (p_setup p) s) (S k)) as [A B].
  rewrite A, B, run_actions_loci, run_actions_world, post_only_loci; [split; reflexivity|].
  apply H. left. reflexivity.
Qed.
End KW.

(* ------------------------------------------------------------------ compartments of a model *)
Definition kind_target (h : hkind) : list Z :=
  match h with HNode c => [c] | HLeft c _ _ => [c] | _ => [] end.
Definition spec_comps (sp : spec) : list Z :=
  match sp with NodeLocus c => [c] | EdgeLocus l r => [l; r] | MultiEdgeLocus l rs => l :: rs end.
(* program k of the simulation is the event function with summary [nth k (cm_kinds cm)] *)
Definition cm_kinds (cm : cmodel) : list hkind := map ce_kind (cm_events cm) ++ cm_extra cm ++ [HObs].
(* the compartments a table mentions: those its loci track and those its event functions move nodes to *)
Definition cm_comps (cm : cmodel) : list Z :=
  znodup (flat_map spec_comps (cm_specs cm) ++ flat_map kind_target (cm_kinds cm)).

(* the call changeCompartment(n, c) an event function with summary h makes on element e, if any *)
Definition moved (h : hkind) (e : Kernel.elem) : option (Z * Z) :=
  match h, e with
  | HNode c, EN n => Some (n, c)
  | HLeft c _ _, EE n m => Some (n, c)
  | _, _ => None
  end.

Lemma moved_target h e n c : moved h e = Some (n, c) -> In c (kind_target h).
Proof. destruct h, e; cbn; intros E; inversion E; subst; left; reflexivity. Qed.

Lemma kind_comps cm h c : In h (cm_kinds cm) -> In c (kind_target h) -> In c (cm_comps cm).
Proof.
  intros Hh Hc. unfold cm_comps. apply znodup_In, in_app_iff. right. apply in_flat_map. exists h. split; assumption.
Qed.

(* ------------------------------------------------------------------ changeCompartment *)
Lemma cc_frame tbl s n c :
  st_nodes (fst (change_compartment tbl s n c)) = st_nodes s /\ st_edges (fst (change_compartment tbl s n c)) = st_edges s.
Proof. unfold change_compartment. destruct (getc_raises s n); [split; reflexivity|]. destruct (getc s n); split; reflexivity. Qed.

Lemma cc_getc tbl s n c v :
  getc (fst (change_compartment tbl s n c)) v =
  if getc_raises s n then getc s v else if Z.eqb v n then Some c else getc s v.
Proof.
  unfold change_compartment. destruct (getc_raises s n); [reflexivity|]. cbn [fst].
  unfold getc, call_enter, call_leave, Loci.call, with_loci, with_attr. cbn [st_attr].
  destruct (Z.eqb v n); [reflexivity|]. destruct (match st_attr s n with Some (Some c0) => Some c0 | _ => None end); reflexivity.
Qed.

Lemma cc_raised tbl s n c : getc_raises s n = true -> fst (change_compartment tbl s n c) = s.
Proof. intros H. unfold change_compartment. rewrite H. reflexivity. Qed.

(* ------------------------------------------------------------------ the event functions *)
Lemma handler_st tbl off h t e kl w :
  cw_st (fst (handler tbl off h t e kl w)) =
  match moved h e with Some (n, c) => fst (change_compartment tbl (cw_st w) n c) | None => cw_st w end.
Proof. destruct h as [c|c [|] post| |], e as [n|n m]; reflexivity. Qed.

Lemma handler_loci tbl off h t e kl w :
  fold_left (act_loci e) (snd (handler tbl off h t e kl w)) kl =
  match moved h e with
  | Some (n, c) => fold_left (act_loci e) (sync_actions off kl (st_loci (fst (change_compartment tbl (cw_st w) n c)))) kl
  | None => kl
  end.
Proof.
  destruct h as [c|c mark post| |], e as [n|n m]; try reflexivity.
  cbn [handler moved snd]. rewrite fold_left_app. destruct post as [[T k]|]; reflexivity.
Qed.

Section CI.
Variable cm : cmodel.
Variables (nodes : list Z) (edges : list (Z * Z)) (init : list (Z * Z)) (maxtime : Q) (monitor : option Q).
Let tb := mk_table cm nodes edges init maxtime monitor.

(* (a), (b), (c) for a loci state and the kernel's copy *)
Definition SInv (s : Loci.state) (kl : list (list Kernel.elem)) : Prop :=
  kl = map ksort (st_loci s)
  /\ WInv (cm_specs cm) s
  /\ st_nodes s = nodes /\ st_edges s = edges
  /\ forall v, In v nodes -> exists c, getc s v = Some c /\ In c (cm_comps cm).

Definition J (s : st cworld) : Prop := SInv (cw_st (world s)) (loci s).

Lemma sinv_change s kl e n c : wf_loci (cm_specs cm) = true -> In c (cm_comps cm) -> SInv s kl ->
  SInv (fst (change_compartment (cm_specs cm) s n c))
       (fold_left (act_loci e) (sync_actions 0 kl (st_loci (fst (change_compartment (cm_specs cm) s n c)))) kl).
Proof.
  intros Hwf Hc (Hk & Hw & Hn & He & Hg).
  set (s' := fst (change_compartment (cm_specs cm) s n c)).
  assert (Hw' : WInv (cm_specs cm) s').
  { unfold s'. destruct (getc_raises s n) eqn:R; [rewrite cc_raised; assumption|].
    apply change_compartment_winv; assumption. }
  destruct (cc_frame (cm_specs cm) s n c) as [F1 F2]. fold s' in F1, F2.
  split.
  - apply sync_actions_spec.
    + rewrite Hk, map_length. destruct Hw as [_ [L _]]. destruct Hw' as [_ [L' _]]. congruence.
    + rewrite Hk. apply Forall_forall. intros l Hl. apply in_map_iff in Hl. destruct Hl as [l0 [<- _]]. apply ksort_ssorted.
  - split; [exact Hw'|]. split; [congruence|]. split; [congruence|].
    intros v Hv. unfold s'. rewrite cc_getc. destruct (getc_raises s n); [apply Hg, Hv|].
    destruct (Z.eqb v n); [exists c; split; [reflexivity | exact Hc] | apply Hg, Hv].
Qed.

(* every event function of the model, on every element, at every time, keeps the invariant *)
Lemma sinv_handler h t e kl w : wf_loci (cm_specs cm) = true -> In h (cm_kinds cm) -> SInv (cw_st w) kl ->
  SInv (cw_st (fst (handler (cm_specs cm) 0 h t e kl w))) (fold_left (act_loci e) (snd (handler (cm_specs cm) 0 h t e kl w)) kl).
Proof.
  intros Hwf Hh H. rewrite handler_st, handler_loci. destruct (moved h e) as [[n c]|] eqn:M; [|exact H].
  apply sinv_change; [exact Hwf | | exact H]. eapply kind_comps; [exact Hh | eapply moved_target; exact M].
Qed.

Lemma nth_map_error {A B} (f : A -> B) l k d :
  nth k (map f l) d = match nth_error l k with Some x => f x | None => d end.
Proof. revert k. induction l as [|x l IH]; intros [|k]; cbn; try reflexivity. apply IH. Qed.

Lemma prog_of_kind k :
  prog_of tb k = match nth_error (cm_kinds cm) k with Some h => handler (cm_specs cm) 0 h | None => static [] end.
Proof.
  unfold prog_of, tb, mk_table. cbn [t_progs].
  replace (map (fun ev => handler (cm_specs cm) 0 (ce_kind ev)) (cm_events cm) ++
           map (handler (cm_specs cm) 0) (cm_extra cm) ++ [handler (cm_specs cm) 0 HObs])
    with (map (handler (cm_specs cm) 0) (cm_kinds cm)).
  - apply nth_map_error.
  - unfold cm_kinds. rewrite !map_app, map_map. reflexivity.
Qed.

Lemma J_sched s s' : J s -> sched s s' -> J s'.
Proof. intros H (H1 & H2 & _). unfold J. rewrite H1, H2. exact H. Qed.

Lemma J_call s c : wf_loci (cm_specs cm) = true -> J s -> J (after tb c s).
Proof.
  intros Hwf H. pose proof (after_lw tb c s) as A. destruct (call_args c) as [[k t] e]. destruct A as [A1 A2].
  unfold J. rewrite A1, A2, prog_of_kind. destruct (nth_error (cm_kinds cm) k) as [h|] eqn:E; [|exact H].
  apply sinv_handler; [exact Hwf | eapply nth_error_In; exact E | exact H].
Qed.

(* ------------------------------------------------------------------ set-up *)
(* the initial assignment names nodes of the network and compartments of the model, and covers every node *)
Definition init_ok : bool :=
  forallb (fun nc => zmem (fst nc) nodes && zmem (snd nc) (cm_comps cm)) init
  && forallb (fun v => zmem v (map fst init)) nodes.

Lemma step_change tbl s n c : step tbl s (ChangeC n c) = fst (change_compartment tbl s n c).
Proof. reflexivity. Qed.

Lemma setup_props tbl : forall ini s, (forall nc, In nc ini -> In (snd nc) (cm_comps cm)) ->
  let s' := fold_left (step tbl) (init_ops ini) s in
  st_nodes s' = st_nodes s /\ st_edges s' = st_edges s
  /\ (forall v c, getc s' v = Some c -> getc s v = Some c \/ In c (cm_comps cm))
  /\ (forall v, getc s v <> None \/ (In v (map fst ini) /\ getc_raises s v = false) -> getc s' v <> None).
Proof.
  induction ini as [|[n c] ini IH]; intros s Hc; cbn [init_ops map fold_left].
  - split; [reflexivity|]. split; [reflexivity|]. split; [intros v c H; left; exact H|].
    intros v [H|[[] _]]. exact H.
  - cbn [fst snd]. rewrite step_change. set (s1 := fst (change_compartment tbl s n c)).
    destruct (IH s1 (fun nc H => Hc nc (or_intror H))) as (I1 & I2 & I3 & I4). fold (init_ops ini) in *.
    destruct (cc_frame tbl s n c) as [F1 F2]. fold s1 in F1, F2.
    assert (G : forall v, getc s1 v = if getc_raises s n then getc s v else if Z.eqb v n then Some c else getc s v)
      by (intro v; apply cc_getc).
    split; [congruence|]. split; [congruence|]. split.
    + intros v c' H. destruct (I3 v c' H) as [H1|H1]; [|right; exact H1]. rewrite G in H1.
      destruct (getc_raises s n); [left; exact H1|]. destruct (Z.eqb v n); [|left; exact H1].
      inversion H1; subst. right. apply (Hc (n, c')). left. reflexivity.
    + intros v H. apply I4. destruct H as [H|[[H|H] R]].
      * left. rewrite G. destruct (getc_raises s n); [exact H|]. destruct (Z.eqb v n); [discriminate | exact H].
      * cbn [fst] in H. subst v. left. rewrite G, R, Z.eqb_refl. discriminate.
      * right. split; [exact H|]. apply attr_present_step_change. exact R.
Qed.

Lemma resort l : fold_left (fun acc x => ins x acc) (ksort l) [] = ksort l.
Proof.
  apply ssorted_ext; [apply fold_ins_ssorted; exact I | apply ksort_ssorted|].
  intros x. rewrite fold_ins_In. cbn. tauto.
Qed.

Lemma mk_table_post_only p : In p (t_procs tb) -> Forall post_only (p_setup p).
Proof.
  unfold tb, mk_table. cbn [t_procs].
  assert (M : Forall post_only (match cm_seed_post cm with
            | Some (c, T, k) => map (fun n => APostOn (EN n) T k) (nodes_in (Loci.setup (cm_specs cm) nodes edges init) c)
            | None => [] end)).
  { destruct (cm_seed_post cm) as [[[c T] k]|]; [|constructor].
    apply Forall_forall. intros a Ha. apply in_map_iff in Ha. destruct Ha as [n [<- _]]. exact I. }
  destruct monitor as [delta|]; cbn [In]; intros [<-|[<-|[]]] || intros [<-|[]]; cbn [p_setup]; try exact M.
  constructor; [exact I | constructor].
Qed.

Theorem J_setup rs ls ds : wf_loci (cm_specs cm) = true -> graph_okb nodes edges = true -> init_ok = true ->
  J (setup_state tb rs ls ds).
Proof.
  intros Hwf Hg Hi. unfold J.
  destruct (setup_state_lw tb rs ls ds mk_table_post_only) as [A B]. rewrite A, B.
  unfold init_ok in Hi. apply andb_true_iff in Hi. destruct Hi as [Hi1 Hi2]. rewrite forallb_forall in Hi1, Hi2.
  unfold tb, mk_table, init_loci. cbn [t_loci t_world cw_st].
  set (s0 := Loci.setup (cm_specs cm) nodes edges init).
  split.
  - rewrite map_map. apply map_ext. intros l. cbn [snd]. apply resort.
  - assert (V : forallb (fun nc => zmem (fst nc) nodes) init = true).
    { apply forallb_forall. intros nc H. specialize (Hi1 nc H). apply andb_true_iff in Hi1. exact (proj1 Hi1). }
    split.
    { apply (weak_history (cm_specs cm) nodes edges init [] Hwf Hg). rewrite app_nil_r. apply setup_valid. exact V. }
    destruct (setup_props (cm_specs cm) init (state0 (cm_specs cm) nodes edges)) as (P1 & P2 & P3 & P4).
    { intros nc H. specialize (Hi1 nc H). apply andb_true_iff in Hi1. apply zmem_In. exact (proj2 Hi1). }
    fold (Loci.setup (cm_specs cm) nodes edges init) in P1, P2, P3, P4. fold s0 in P1, P2, P3, P4.
    split; [exact P1|]. split; [exact P2|].
    intros v Hv.
    assert (N : getc s0 v <> None).
    { apply P4. right. split; [apply zmem_In, Hi2, Hv|].
      unfold getc_raises, has_node, state0. cbn [st_nodes st_attr]. rewrite (proj2 (zmem_In v nodes) Hv). reflexivity. }
    destruct (getc s0 v) as [c|] eqn:E; [|congruence]. exists c. split; [reflexivity|].
    destruct (P3 v c E) as [H|H]; [|exact H]. unfold getc, state0 in H. cbn [st_attr] in H. destruct (zmem v nodes); discriminate.
Qed.

(* ------------------------------------------------------------------ along every run *)
Theorem J_steps rs ls ds cs s : wf_loci (cm_specs cm) = true -> graph_okb nodes edges = true -> init_ok = true ->
  Steps tb (setup_state tb rs ls ds) cs s -> J s /\ Forall (fun sc => J (fst sc)) cs.
Proof.
  intros Hwf Hg Hi H.
  apply (Steps_inv tb J (fun s s' => @J_sched s s') (fun s c Hj _ => J_call s c Hwf Hj) _ cs s (J_setup rs ls ds Hwf Hg Hi) H).
Qed.

End CI.
