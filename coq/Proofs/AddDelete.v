(* C19, part 1: the pieces of AddDelete - the all-nodes locus as a set, newNodeName, the draw loop
   of add, the network operations of Process - and what they do to a network state. *)
From Coq Require Import List ZArith Bool Arith Lia Sorted Permutation.
From EpyV Require Import Lib.Prelude Model.Kernel Model.Loci Model.Compart Model.AddDelete
                         Proofs.LociBase Proofs.LociLocus Proofs.LociInv.
Import ListNotations.
Close Scope Q_scope.
Close Scope Z_scope.

(* ------------------------------------------------------------------ sets of node names *)
Lemma NoDup_snoc : forall (x : Z) l, NoDup l -> ~ In x l -> NoDup (l ++ [x]).
Proof.
  intros x l H Hx. apply (Permutation_NoDup (Permutation_cons_append l x)). constructor; assumption.
Qed.

Lemma zadd_In : forall x l y, In y (zadd x l) <-> In y l \/ y = x.
Proof.
  intros x l y. unfold zadd. destruct (zmem x l) eqn:E.
  - apply zmem_In in E. split; [tauto|]. intros [H| ->]; assumption.
  - rewrite in_app_iff. cbn. split; [intros [H|[H|[]]]; auto | intros [H|H]; auto].
Qed.

Lemma zadd_NoDup : forall x l, NoDup l -> NoDup (zadd x l).
Proof.
  intros x l H. unfold zadd. destruct (zmem x l) eqn:E; [exact H|].
  apply zmem_false in E. apply NoDup_snoc; assumption.
Qed.

Lemma zadd_fresh : forall x l, ~ In x l -> zadd x l = l ++ [x].
Proof. intros x l H. unfold zadd. apply zmem_false in H. rewrite H. reflexivity. Qed.

Lemma zdiscard_In : forall x l y, In y (zdiscard x l) <-> In y l /\ y <> x.
Proof.
  intros x l y. unfold zdiscard. rewrite filter_In, negb_true_iff, Z.eqb_neq. split; intros [A B]; split; auto.
Qed.

Lemma zdiscard_NoDup : forall x l, NoDup l -> NoDup (zdiscard x l).
Proof. intros x l H. apply NoDup_filter, H. Qed.

Lemma zdiscard_length : forall x l, NoDup l -> In x l -> S (length (zdiscard x l)) = length l.
Proof.
  intros x l. induction l as [|y l IH]; intros Hn Hx; [destruct Hx|].
  inversion Hn as [|? ? Hy Hn']; subst. unfold zdiscard in *. cbn [filter].
  destruct (Z.eqb_spec x y) as [->|Hne]; cbn [negb].
  - cbn [length]. f_equal. clear IH Hx Hn. induction l as [|z l IH]; [reflexivity|].
    cbn [filter]. destruct (Z.eqb_spec y z) as [->|Hz]; [exfalso; apply Hy; left; reflexivity|].
    cbn [negb length]. f_equal. apply IH; [intro H; apply Hy; right; exact H | inversion Hn'; assumption].
  - cbn [length]. f_equal. apply IH; [exact Hn'|]. destruct Hx as [->|Hx]; [congruence|exact Hx].
Qed.

Lemma zins_In : forall x l y, In y (zins x l) <-> y = x \/ In y l.
Proof.
  intros x l y. induction l as [|z l IH]; cbn [zins].
  - cbn. split; [intros [H|[]]; auto | intros [H|[]]; auto].
  - destruct (Z.ltb_spec x z) as [Hlt|Hge]; [cbn; split; [intros [H|H]; auto | intros [H|H]; auto]|].
    destruct (Z.eqb_spec x z) as [->|Hne].
    + cbn. split; [auto|]. intros [->|H]; auto.
    + cbn [In]. rewrite IH. split; [intros [H1|[H1|H1]]; auto | intros [H1|[H1|H1]]; auto].
Qed.

Lemma zsort_acc_In : forall l acc y, In y (fold_left (fun acc x => zins x acc) l acc) <-> In y acc \/ In y l.
Proof.
  induction l as [|x l IH]; intros acc y; cbn [fold_left].
  - cbn. tauto.
  - rewrite IH, zins_In. cbn. split; [intros [[H|H]|H]; auto | intros [H|[H|H]]; auto].
Qed.

Lemma zsort_In : forall l y, In y (zsort l) <-> In y l.
Proof. intros l y. unfold zsort. rewrite zsort_acc_In. cbn. tauto. Qed.

(* ascending enumerations *)
Definition zsorted (l : list Z) : Prop := StronglySorted Z.lt l.

Lemma zins_sorted : forall x l, zsorted l -> zsorted (zins x l).
Proof.
  intros x l H. induction H as [|z l Hs IH Hz]; cbn [zins]; [repeat constructor|].
  destruct (Z.ltb_spec x z) as [Hlt|Hge].
  - constructor; [constructor; assumption|]. constructor; [exact Hlt|].
    rewrite Forall_forall in *. intros y Hy. specialize (Hz y Hy). lia.
  - destruct (Z.eqb_spec x z); [constructor; assumption|].
    constructor; [exact IH|]. rewrite Forall_forall in *. intros y Hy. apply zins_In in Hy.
    destruct Hy as [->|Hy]; [lia | apply Hz, Hy].
Qed.

Lemma zsort_sorted : forall l, zsorted (zsort l).
Proof.
  intro l. unfold zsort.
  assert (G : forall acc, zsorted acc -> zsorted (fold_left (fun acc x => zins x acc) l acc)).
  { induction l as [|x l IH]; intros acc Ha; cbn [fold_left]; [exact Ha|]. apply IH, zins_sorted, Ha. }
  apply G. constructor.
Qed.

Lemma zsorted_ext : forall a b, zsorted a -> zsorted b -> (forall x, In x a <-> In x b) -> a = b.
Proof.
  intros a b Ha. revert b. induction Ha as [|x a Hs IH Hx]; intros b Hb Hab.
  - destruct b as [|y b]; [reflexivity|]. exfalso. apply (Hab y). left. reflexivity.
  - destruct b as [|y b]; [exfalso; apply (Hab x); left; reflexivity|].
    inversion Hb as [|? ? Hsb Hy]; subst. rewrite Forall_forall in Hx, Hy.
    assert (E : x = y).
    { destruct (proj1 (Hab x) (or_introl eq_refl)) as [E|Hin]; [auto|].
      destruct (proj2 (Hab y) (or_introl eq_refl)) as [E|Hin']; [auto|].
      specialize (Hy x Hin). specialize (Hx y Hin'). lia. }
    subst y. f_equal. apply IH; [exact Hsb|]. intro z. split; intro Hz.
    + destruct (proj1 (Hab z) (or_intror Hz)) as [E|H]; [|exact H]. subst z. specialize (Hx x Hz). lia.
    + destruct (proj2 (Hab z) (or_intror Hz)) as [E|H]; [|exact H]. subst z. specialize (Hy x Hz). lia.
Qed.

Lemma zsorted_NoDup : forall l, zsorted l -> NoDup l.
Proof.
  intros l H. induction H as [|x l Hs IH Hx]; constructor; [|exact IH].
  intro Hin. rewrite Forall_forall in Hx. specialize (Hx x Hin). lia.
Qed.

(* removal of the first occurrence: what Kernel.del does *)
Fixpoint zdel (x : Z) (l : list Z) : list Z :=
  match l with [] => [] | y :: l' => if Z.eqb x y then l' else y :: zdel x l' end.

Lemma zdel_sorted_In : forall x l y, zsorted l -> (In y (zdel x l) <-> In y l /\ y <> x).
Proof.
  intros x l y H. induction H as [|z l Hs IH Hz]; cbn [zdel]; [cbn; tauto|].
  rewrite Forall_forall in Hz. destruct (Z.eqb_spec x z) as [->|Hne].
  - cbn. split; [intro Hy; split; [auto|]; specialize (Hz y Hy); lia|]. intros [[->|Hy] Hn]; [congruence|exact Hy].
  - cbn [In]. rewrite IH. split; [intros [->|[A B]]; auto | intros [[->|A] B]; auto].
Qed.

Lemma zdel_sorted : forall x l, zsorted l -> zsorted (zdel x l).
Proof.
  intros x l H. induction H as [|z l Hs IH Hz]; cbn [zdel]; [constructor|].
  destruct (Z.eqb x z); [exact Hs|]. constructor; [exact IH|].
  rewrite Forall_forall in *. intros y Hy. apply (zdel_sorted_In x l y Hs) in Hy. apply Hz, Hy.
Qed.

Lemma zsort_zadd : forall x l, zsort (zadd x l) = zins x (zsort l).
Proof.
  intros x l. apply zsorted_ext; [apply zsort_sorted | apply zins_sorted, zsort_sorted|].
  intro y. rewrite zsort_In, zadd_In, zins_In, zsort_In. tauto.
Qed.

Lemma zsort_zdiscard : forall x l, zsort (zdiscard x l) = zdel x (zsort l).
Proof.
  intros x l. apply zsorted_ext; [apply zsort_sorted | apply zdel_sorted, zsort_sorted|].
  intro y. rewrite zsort_In, zdiscard_In, (zdel_sorted_In x _ y (zsort_sorted l)), zsort_In. tauto.
Qed.

(* the kernel's ordered loci hold the same enumeration *)
Lemma ins_map_EN : forall x l, ins (EN x) (map EN l) = map EN (zins x l).
Proof.
  intros x l. induction l as [|y l IH]; cbn [map ins zins]; [reflexivity|].
  cbn [Kernel.elem_ltb Kernel.elem_eqb]. destruct (x <? y)%Z; [reflexivity|]. destruct (x =? y)%Z; [reflexivity|].
  cbn [map]. rewrite IH. reflexivity.
Qed.

Lemma del_map_EN : forall x l, del (EN x) (map EN l) = map EN (zdel x l).
Proof.
  intros x l. induction l as [|y l IH]; cbn [map del zdel]; [reflexivity|].
  cbn [Kernel.elem_eqb]. destruct (x =? y)%Z; [reflexivity|]. cbn [map]. rewrite IH. reflexivity.
Qed.

(* ------------------------------------------------------------------ newNodeName *)
Lemma count_ge_mono : forall i l,
  length (filter (fun v => (i + 1 <=? v)%Z) l) <= length (filter (fun v => (i <=? v)%Z) l).
Proof.
  intros i l. induction l as [|v l IH]; [reflexivity|]. cbn [filter].
  destruct (Z.leb_spec (i + 1) v), (Z.leb_spec i v); cbn [length]; lia.
Qed.

Lemma count_ge_strict : forall i l, In i l ->
  length (filter (fun v => (i + 1 <=? v)%Z) l) < length (filter (fun v => (i <=? v)%Z) l).
Proof.
  intros i l. induction l as [|v l IH]; intros Hi; [destruct Hi|]. cbn [filter].
  pose proof (count_ge_mono i l) as Hm.
  destruct Hi as [->|Hi].
  - destruct (Z.leb_spec (i + 1) i), (Z.leb_spec i i); cbn [length]; lia.
  - specialize (IH Hi). destruct (Z.leb_spec (i + 1) v), (Z.leb_spec i v); cbn [length]; lia.
Qed.

(* the search never runs out of fuel while fewer than fuel names at or above i are taken *)
Lemma name_search_fresh : forall fuel i l,
  length (filter (fun v => (i <=? v)%Z) l) < fuel -> ~ In (name_search fuel i l) l.
Proof.
  induction fuel as [|f IH]; intros i l Hlt; [lia|]. cbn [name_search].
  destruct (zmem i l) eqn:E.
  - apply zmem_In in E. apply IH. pose proof (count_ge_strict i l E). lia.
  - apply zmem_false, E.
Qed.

Lemma name_search_ge : forall fuel i l, (i <= name_search fuel i l)%Z.
Proof.
  induction fuel as [|f IH]; intros i l; cbn [name_search]; [lia|].
  destruct (zmem i l); [|lia]. specialize (IH (i + 1)%Z l). lia.
Qed.

Lemma filter_length_le : forall A (f : A -> bool) l, length (filter f l) <= length l.
Proof. intros A f l. induction l as [|x l IH]; cbn; [lia|]. destruct (f x); cbn; lia. Qed.

Lemma new_node_name_fresh : forall s, ~ In (new_node_name s) (st_nodes s).
Proof.
  intro s. unfold new_node_name. apply name_search_fresh.
  pose proof (filter_length_le Z (fun v => (Z.of_nat (length (st_nodes s)) + 1 <=? v)%Z) (st_nodes s)). lia.
Qed.

Lemma new_node_name_above_order : forall s, (Z.of_nat (length (st_nodes s)) < new_node_name s)%Z.
Proof. intro s. unfold new_node_name. pose proof (name_search_ge (S (length (st_nodes s))) (Z.of_nat (length (st_nodes s)) + 1) (st_nodes s)). lia. Qed.

(* ------------------------------------------------------------------ the draw loop *)
Lemma draw_at_In : forall L k, L <> [] -> In (draw_at L k) L.
Proof.
  intros L k HL. unfold draw_at. apply nth_In. apply Nat.mod_upper_bound. destruct L; [congruence|cbn; lia].
Qed.

Definition admissible (i : Z) (es : list Z) (j : Z) : Prop := ~ In j es /\ j <> i.

Lemma admissible_b : forall i es j, negb (zmem j es) && negb (Z.eqb i j) = true <-> admissible i es j.
Proof.
  intros i es j. unfold admissible. rewrite andb_true_iff, !negb_true_iff, zmem_false, Z.eqb_neq.
  split; intros [A B]; split; auto.
Qed.

Lemma pick_adm : forall L i es ds j ds', pick L i es ds = Some (j, ds') ->
  admissible i es j /\ In j (map (draw_at L) ds)
  /\ (forall v, admissible i es v -> v <> j -> In v (map (draw_at L) ds) -> In v (map (draw_at L) ds')).
Proof.
  intros L i es ds j ds'. induction ds as [|k ds IH]; cbn [pick]; [discriminate|].
  destruct (negb (zmem (draw_at L k) es) && negb (Z.eqb i (draw_at L k))) eqn:E.
  - intros [= <- <-]. apply admissible_b in E. split; [exact E|]. split; [left; reflexivity|].
    intros v Hv Hne [H|H]; [congruence|exact H].
  - intro H. destruct (IH H) as [A [B C]]. split; [exact A|]. split; [right; exact B|].
    intros v Hv Hne [Hk|Hin]; [|apply C; assumption].
    exfalso. subst v. apply admissible_b in Hv. congruence.
Qed.

Lemma pick_spec : forall L i es ds j ds', L <> [] -> pick L i es ds = Some (j, ds') ->
  In j L /\ admissible i es j
  /\ (forall v, admissible i es v -> v <> j -> In v (map (draw_at L) ds) -> In v (map (draw_at L) ds')).
Proof.
  intros L i es ds j ds' HL E. destruct (pick_adm L i es ds j ds' E) as [A [B C]].
  split; [|split; assumption]. apply in_map_iff in B. destruct B as [k [<- _]]. apply draw_at_In, HL.
Qed.

Lemma pick_some : forall L i es ds, (exists v, admissible i es v /\ In v (map (draw_at L) ds)) ->
  exists j ds', pick L i es ds = Some (j, ds').
Proof.
  intros L i es ds. induction ds as [|k ds IH]; intros [v [Hv Hin]]; [destruct Hin|]. cbn [pick].
  destruct (negb (zmem (draw_at L k) es) && negb (Z.eqb i (draw_at L k))) eqn:E; [eauto|].
  apply IH. exists v. split; [exact Hv|]. destruct Hin as [Hk|Hin]; [|exact Hin].
  exfalso. subst v. apply admissible_b in Hv. congruence.
Qed.

(* what a completed draw loop returns *)
Lemma picks_spec : forall c L i es0 ds es ds', L <> [] -> picks c L i es0 ds = Some (es, ds') ->
  NoDup es0 -> ~ In i es0 -> incl es0 L ->
  exists new, es = es0 ++ new /\ length new = c /\ NoDup es /\ ~ In i es /\ incl es L.
Proof.
  induction c as [|c IH]; intros L i es0 ds es ds' HL; cbn [picks].
  - intros [= <- <-] Hn Hi Hs. exists []. rewrite app_nil_r. repeat split; assumption.
  - destruct (pick L i es0 ds) as [[j ds1]|] eqn:E; [|discriminate]. intros H Hn Hi Hs.
    destruct (pick_spec L i es0 ds j ds1 HL E) as [HjL [[Hj1 Hj2] _]].
    destruct (IH L i (es0 ++ [j]) ds1 es ds' HL H) as [new [E1 [E2 [E3 [E4 E5]]]]].
    + apply NoDup_snoc; assumption.
    + rewrite in_app_iff. cbn. intros [H1|[H1|[]]]; [contradiction|congruence].
    + intros y Hy. apply in_app_iff in Hy. destruct Hy as [Hy|[<-|[]]]; [apply Hs, Hy|exact HjL].
    + subst es. rewrite <- app_assoc in *. cbn [app] in *. exists (j :: new).
      split; [reflexivity|]. split; [cbn; rewrite E2; reflexivity|]. repeat split; assumption.
Qed.

(* the loop completes as soon as the ranks supplied select c distinct admissible nodes *)
Lemma picks_progress : forall c L i es ds vs,
  NoDup vs -> c <= length vs ->
  (forall v, In v vs -> admissible i es v /\ In v (map (draw_at L) ds)) ->
  exists es' ds', picks c L i es ds = Some (es', ds').
Proof.
  induction c as [|c IH]; intros L i es ds vs Hn Hc Hvs; cbn [picks]; [eauto|].
  destruct vs as [|v0 vs0] eqn:Evs; [cbn in Hc; lia|]. rewrite <- Evs in *.
  destruct (pick_some L i es ds) as [j [ds1 E]].
  { exists v0. apply Hvs. rewrite Evs. left. reflexivity. }
  rewrite E.
  destruct (pick_adm L i es ds j ds1 E) as [[Hj1 Hj2] [_ Hrest]].
  apply (IH L i (es ++ [j]) ds1 (zdiscard j vs)).
  - apply zdiscard_NoDup, Hn.
  - rewrite Evs in Hc. cbn [length] in Hc.
    destruct (in_dec Z.eq_dec j vs) as [Hin|Hnin].
    + pose proof (zdiscard_length j vs Hn Hin) as Hl. rewrite Evs in Hl at 2. cbn [length] in Hl. lia.
    + assert (El : length (zdiscard j vs) <= length vs /\ length vs <= length (zdiscard j vs)).
      { clear - Hnin. unfold zdiscard. induction vs as [|y vs IHv]; [cbn; lia|]. cbn [filter].
        destruct (Z.eqb_spec j y) as [->|Hy]; [exfalso; apply Hnin; left; reflexivity|].
        cbn [negb length]. assert (~ In j vs) by (intro; apply Hnin; right; assumption). specialize (IHv H). lia. }
      rewrite Evs in El at 2 3. cbn [length] in El. lia.
  - intros v Hv. apply zdiscard_In in Hv. destruct Hv as [Hv Hne]. destruct (Hvs v Hv) as [[A1 A2] B]. split.
    + split; [|exact A2]. rewrite in_app_iff. cbn. intros [H|[H|[]]]; [contradiction|congruence].
    + apply Hrest; [split; assumption | exact Hne | exact B].
Qed.
