(* C02: the inverse-CDF scan [select] of Model/Kernel.v (stochasticdynamics.py:80-94).
   For non-negative rates and a threshold xc in [0, total), the entry returned is the one whose
   cumulative-rate interval [prefix j, prefix (j+1)) contains xc; with xc = r2 * total the set of
   r2 in [0,1) selecting entry j is the interval [prefix j / a, prefix (j+1) / a), of length
   rate_j / a.  Self-contained (no other proof file is imported). *)
From Coq Require Import List ZArith QArith Bool Arith Lia Lqa.
From EpyV Require Import Lib.Dist Model.Kernel.
Import ListNotations.
Open Scope Q_scope.

Lemma gQltb_lt : forall x y, Qltb x y = true <-> x < y.
Proof.
  intros x y. unfold Qltb. rewrite negb_true_iff. split; intros H.
  - apply Qnot_le_lt. intros H1. apply Qle_bool_iff in H1. congruence.
  - destruct (Qle_bool y x) eqn:E; [|reflexivity]. apply Qle_bool_iff in E. exfalso. apply (Qlt_not_le _ _ H E).
Qed.

Lemma gQltb_ge : forall x y, Qltb x y = false <-> y <= x.
Proof. intros x y. unfold Qltb. rewrite negb_false_iff. apply Qle_bool_iff. Qed.

(* ------------------------------------------------------------------ prefix sums *)
Definition prefix {A} (f : A -> Q) (l : list A) (j : nat) : Q := sumf f (firstn j l).

Lemma prefix_0 : forall A (f : A -> Q) l, prefix f l 0 = 0.
Proof. intros. unfold prefix. destruct l; reflexivity. Qed.

Lemma prefix_cons : forall A (f : A -> Q) x l j, prefix f (x :: l) (S j) = f x + prefix f l j.
Proof. reflexivity. Qed.

Lemma prefix_all : forall A (f : A -> Q) l, prefix f l (length l) = sumf f l.
Proof. intros. unfold prefix. rewrite firstn_all. reflexivity. Qed.

Lemma prefix_S : forall A (f : A -> Q) l j d, (j < length l)%nat ->
  prefix f l (S j) == prefix f l j + f (nth j l d).
Proof.
  intros A f. induction l as [|x l IH]; intros j d Hj; [cbn in Hj; lia|].
  destruct j as [|j].
  - rewrite prefix_cons, !prefix_0. cbn [nth]. ring.
  - rewrite !prefix_cons. cbn [nth]. rewrite (IH j d); [ring | cbn in Hj; lia].
Qed.

Lemma In_firstn : forall A (l : list A) j x, In x (firstn j l) -> In x l.
Proof.
  intros A. induction l as [|y l IH]; intros j x H; destruct j; cbn in H; try contradiction.
  destruct H as [->|H]; [left; reflexivity | right; exact (IH j x H)].
Qed.

Section NonNeg.
Context {A : Type} (f : A -> Q).

Lemma prefix_nonneg : forall l j, (forall x, In x l -> 0 <= f x) -> 0 <= prefix f l j.
Proof.
  intros l j H. unfold prefix. apply sumf_nonneg. intros x Hx. apply H. exact (In_firstn A l j x Hx).
Qed.

Lemma prefix_step_le : forall l j, (forall x, In x l -> 0 <= f x) -> prefix f l j <= prefix f l (S j).
Proof.
  induction l as [|x l IH]; intros j H.
  - unfold prefix. rewrite !firstn_nil. apply Qle_refl.
  - destruct j as [|j].
    + rewrite prefix_cons, !prefix_0. assert (H0 := H x (or_introl eq_refl)). lra.
    + rewrite !prefix_cons. assert (H1 : prefix f l j <= prefix f l (S j)) by (apply IH; intros y Hy; apply H; right; exact Hy). lra.
Qed.

Lemma prefix_mono : forall l j k, (forall x, In x l -> 0 <= f x) -> (j <= k)%nat -> prefix f l j <= prefix f l k.
Proof.
  intros l j k H Hjk. induction Hjk as [|k Hjk IH]; [apply Qle_refl|].
  eapply Qle_trans; [exact IH | apply prefix_step_le; exact H].
Qed.

Lemma prefix_le_total : forall l j, (forall x, In x l -> 0 <= f x) -> prefix f l j <= sumf f l.
Proof.
  intros l j H. destruct (Nat.le_gt_cases j (length l)) as [Hj|Hj].
  - rewrite <- prefix_all. apply prefix_mono; assumption.
  - unfold prefix. rewrite firstn_all2; [apply Qle_refl | lia].
Qed.

(* ------------------------------------------------------------------ the scan *)
(* the scan started with accumulator xs returns entry j when xc lies in the j-th interval shifted by xs *)
Lemma select_at : forall xc l xs cur j, (forall x, In x l -> 0 <= f x) -> (j < length l)%nat ->
  xs + prefix f l j <= xc -> xc < xs + prefix f l (S j) ->
  select f xc xs cur l = nth j l cur.
Proof.
  intros xc. induction l as [|x l IH]; intros xs cur j Hnn Hj Hlo Hhi; [cbn in Hj; lia|].
  cbn [select]. destruct j as [|j].
  - rewrite prefix_cons, prefix_0 in Hhi.
    assert (E : Qltb xc (xs + f x) = true) by (apply gQltb_lt; lra). rewrite E. reflexivity.
  - rewrite prefix_cons in Hlo. rewrite prefix_cons in Hhi.
    assert (Hp : 0 <= prefix f l j) by (apply prefix_nonneg; intros y Hy; apply Hnn; right; exact Hy).
    assert (E : Qltb xc (xs + f x) = false) by (apply gQltb_ge; lra). rewrite E.
    cbn [nth]. rewrite (nth_indep l cur x); [|cbn in Hj; lia].
    apply IH.
    + intros y Hy. apply Hnn. right. exact Hy.
    + cbn in Hj. lia.
    + rewrite Qred_correct. lra.
    + rewrite Qred_correct. lra.
Qed.

(* some interval contains xc *)
Lemma interval_exists : forall xc l xs, xs <= xc -> xc < xs + sumf f l ->
  exists j, (j < length l)%nat /\ xs + prefix f l j <= xc /\ xc < xs + prefix f l (S j).
Proof.
  intros xc. induction l as [|x l IH]; intros xs Hlo Hhi.
  - cbn [sumf] in Hhi. lra.
  - cbn [sumf] in Hhi. destruct (Qlt_le_dec xc (xs + f x)) as [H|H].
    + exists 0%nat. rewrite prefix_cons, !prefix_0. cbn [length]. split; [lia|]. split; lra.
    + destruct (IH (xs + f x) H) as (j & Hj & H1 & H2); [lra|].
      exists (S j). rewrite !prefix_cons. cbn [length]. split; [lia|]. split; lra.
Qed.

(* ... and only one: the intervals are disjoint *)
Lemma interval_unique : forall xc l j k, (forall x, In x l -> 0 <= f x) ->
  prefix f l j <= xc -> xc < prefix f l (S j) -> prefix f l k <= xc -> xc < prefix f l (S k) -> j = k.
Proof.
  intros xc l j k Hnn Hj1 Hj2 Hk1 Hk2.
  destruct (Nat.lt_trichotomy j k) as [H|[H|H]]; [|exact H|]; exfalso.
  - assert (prefix f l (S j) <= prefix f l k) by (apply prefix_mono; [exact Hnn | lia]). lra.
  - assert (prefix f l (S k) <= prefix f l j) by (apply prefix_mono; [exact Hnn | lia]). lra.
Qed.

(* the entry returned is the one whose interval contains xc *)
Theorem select_interval_at : forall xc l x0 j, (forall x, In x l -> 0 <= f x) -> (j < length l)%nat ->
  prefix f l j <= xc -> xc < prefix f l (S j) -> select f xc 0 x0 l = nth j l x0.
Proof. intros xc l x0 j Hnn Hj H1 H2. apply select_at; try assumption; lra. Qed.

Theorem select_index : forall xc l x0, (forall x, In x l -> 0 <= f x) -> 0 <= xc -> xc < sumf f l ->
  exists j, (j < length l)%nat /\ prefix f l j <= xc /\ xc < prefix f l (S j) /\ select f xc 0 x0 l = nth j l x0 /\
            forall k, prefix f l k <= xc -> xc < prefix f l (S k) -> k = j.
Proof.
  intros xc l x0 Hnn Hlo Hhi.
  destruct (interval_exists xc l 0 Hlo) as (j & Hj & H1 & H2); [lra|].
  assert (H1' : prefix f l j <= xc) by lra. assert (H2' : xc < prefix f l (S j)) by lra.
  exists j. repeat split; try assumption.
  - apply select_interval_at; assumption.
  - intros k Hk1 Hk2. exact (interval_unique xc l k j Hnn Hk1 Hk2 H1' H2').
Qed.

(* for duplicate-free lists of entries, an iff on the entry itself *)
Theorem select_interval : forall xc l x0 j, NoDup l -> (forall x, In x l -> 0 <= f x) -> 0 <= xc -> xc < sumf f l ->
  (j < length l)%nat ->
  (select f xc 0 x0 l = nth j l x0 <-> prefix f l j <= xc /\ xc < prefix f l (S j)).
Proof.
  intros xc l x0 j Hnd Hnn Hlo Hhi Hj. split.
  - intros E. destruct (select_index xc l x0 Hnn Hlo Hhi) as (k & Hk & H1 & H2 & Es & _).
    rewrite Es in E. assert (k = j) by (apply (proj1 (NoDup_nth l x0) Hnd); assumption). subst k. split; assumption.
  - intros [H1 H2]. apply select_interval_at; assumption.
Qed.

(* an entry of rate zero (or any non-positive rate) is never returned *)
Theorem select_positive : forall xc l x0, (forall x, In x l -> 0 <= f x) -> 0 <= xc -> xc < sumf f l ->
  In (select f xc 0 x0 l) l /\ 0 < f (select f xc 0 x0 l).
Proof.
  intros xc l x0 Hnn Hlo Hhi. destruct (select_index xc l x0 Hnn Hlo Hhi) as (j & Hj & H1 & H2 & Es & _).
  rewrite Es. split; [apply nth_In; exact Hj|]. rewrite (prefix_S _ f l j x0 Hj) in H2. lra.
Qed.

Corollary select_zero_never : forall xc l x0 x, (forall y, In y l -> 0 <= f y) -> 0 <= xc -> xc < sumf f l ->
  f x == 0 -> select f xc 0 x0 l <> x.
Proof.
  intros xc l x0 x Hnn Hlo Hhi Hz E. destruct (select_positive xc l x0 Hnn Hlo Hhi) as [_ Hp]. rewrite E, Hz in Hp.
  exact (Qlt_irrefl 0 Hp).
Qed.

(* ------------------------------------------------------------------ in terms of the uniform variate r2 *)
Lemma div_le_iff : forall p r a, 0 < a -> (p / a <= r <-> p <= r * a).
Proof.
  intros p r a Ha. split; intros H.
  - setoid_replace p with ((p / a) * a) by (field; lra). apply Qmult_le_compat_r; lra.
  - apply Qle_shift_div_r; assumption.
Qed.
Lemma lt_div_iff : forall p r a, 0 < a -> (r < p / a <-> r * a < p).
Proof.
  intros p r a Ha. split; intros H.
  - setoid_replace p with ((p / a) * a) by (field; lra). apply Qmult_lt_compat_r; assumption.
  - apply Qlt_shift_div_l; assumption.
Qed.

Theorem select_measure : forall l x0 r2 j, NoDup l -> (forall x, In x l -> 0 <= f x) ->
  let a := sumf f l in 0 < a -> 0 <= r2 -> r2 < 1 -> (j < length l)%nat ->
  (select f (r2 * a) 0 x0 l = nth j l x0 <-> prefix f l j / a <= r2 /\ r2 < prefix f l (S j) / a)
  /\ prefix f l (S j) / a - prefix f l j / a == f (nth j l x0) / a.
Proof.
  intros l x0 r2 j Hnd Hnn a Ha Hr0 Hr1 Hj. subst a. split.
  - rewrite (select_interval (r2 * sumf f l) l x0 j Hnd Hnn); try assumption.
    + rewrite (div_le_iff _ _ _ Ha), (lt_div_iff _ _ _ Ha). reflexivity.
    + apply Qmult_le_0_compat; lra.
    + assert (r2 * sumf f l < 1 * sumf f l) by (apply Qmult_lt_compat_r; assumption). lra.
  - rewrite (prefix_S _ f l j x0 Hj). field. lra.
Qed.

End NonNeg.

(* ------------------------------------------------------------------ the same scan through Qeq-equal thresholds *)
Lemma select_xc_ext : forall A (f : A -> Q) xc xc' l xs cur, xc == xc' -> select f xc xs cur l = select f xc' xs cur l.
Proof.
  intros A f xc xc' l. induction l as [|x l IH]; intros xs cur E; [reflexivity|].
  cbn [select]. assert (Eb : Qltb xc (xs + f x) = Qltb xc' (xs + f x)).
  { destruct (Qltb xc' (xs + f x)) eqn:E'.
    - apply gQltb_lt. apply gQltb_lt in E'. lra.
    - apply gQltb_ge. apply gQltb_ge in E'. lra. }
  rewrite Eb. destruct (Qltb xc' (xs + f x)); [reflexivity|]. apply IH. exact E.
Qed.
