(* SIR_VariableInfection (Model/CompartVI.v) run by the dynamic kernel (Model/KernelDyn.v):
     - its programs are Model/Compart.v's event functions on the base part of the state;
     - under either dynamics every call of infect is on an edge that is in the SI locus at that
       instant (the loops test it; unconditional since repair F15);
     - for the shipped class (no event function posts, no set-up posting) only Monitor.observe is
       ever queued, and it is inert;
     - the per-element distribution is the registered events followed by one entry per element
       of the SI locus, in ascending order, with that edge's infectivity;
     - the run invariant of Proofs/CompartInv.v (kernel loci = sorted handler loci, C01 loci
       invariant, fixed network, every node in a compartment of the model) holds on every state
       of every run, by the SAME step lemma (sinv_handler) as for the static tables;
     - every compartment change of a run is an arrow  left(locus) -> target  of the event that
       made it; an infection goes through an edge of the network whose other end is, at that
       very moment, in the right compartment of the SI locus.
   For every vimodel, network, initial assignment, infectivities, oracle and fuel. *)
From Coq Require Import List ZArith QArith Bool Arith Lia.
From EpyV Require Import Lib.Prelude Model.Kernel Model.KernelDyn Model.Loci Model.Compart Model.CompartVI
  Proofs.KernelBase Proofs.KernelMember Proofs.KernelSync Proofs.LociBase Proofs.LociLocus Proofs.LociInv
  Proofs.CompartRun Proofs.CompartSort Proofs.CompartInv Proofs.CompartDiagram
  Proofs.KernelDyn Proofs.KernelDynLoops Proofs.KernelDynRun.
Import ListNotations.
Close Scope Q_scope.

(* no event function of the model posts an event, and set-up posts nothing (the shipped class) *)
Definition kind_nopost (h : hkind) : bool := match h with HLeft _ _ (Some _) => false | _ => true end.
Definition vi_nopost (vm : vimodel) : bool :=
  forallb kind_nopost (map ce_kind (vim_events vm)) && kind_nopost (vim_infect vm)
  && match vim_seed_post vm with None => true | Some _ => false end.

(* the arrows of the model: left compartment of the locus -> target of the event function, for the
   registered events and for the appended infection entries *)
Definition vi_arrows (vm : vimodel) : list (Z * Z) :=
  flat_map (fun cev => map (fun c => (locus_left (nth (ce_locus cev) (vim_specs vm) default_spec), c)) (kind_target (ce_kind cev)))
           (vim_events vm)
  ++ map (fun c => (locus_left (nth (vim_si vm) (vim_specs vm) default_spec), c)) (kind_target (vim_infect vm)).

Lemma lift_prog_fst p t e kl w :
  fst (lift_prog p t e kl w) = {| vi_base := fst (p t e kl (vi_base w)); vi_inf := vi_inf w |}.
Proof. unfold lift_prog. destruct (p t e kl (vi_base w)); reflexivity. Qed.
Lemma lift_prog_snd p t e kl w : snd (lift_prog p t e kl w) = snd (p t e kl (vi_base w)).
Proof. unfold lift_prog. destruct (p t e kl (vi_base w)); reflexivity. Qed.

Lemma loci_only_posts_ok Qp a : loci_only a -> posts_ok Qp a.
Proof. destruct a; cbn; tauto. Qed.

Lemma handler_posts_ok Qp tbl off h t e kl w : kind_nopost h = true -> Forall (posts_ok Qp) (snd (handler tbl off h t e kl w)).
Proof.
  intros Hn.
  assert (S : forall new, Forall (posts_ok Qp) (sync_actions off kl new)).
  { intros new. unfold sync_actions. eapply Forall_impl; [apply loci_only_posts_ok | apply sync_from_loci_only]. }
  destruct h as [c|c mark [[T k]|]| |], e as [n|n m]; cbn [handler snd]; try discriminate; try constructor; try apply S; try constructor.
  rewrite app_nil_r. apply S.
Qed.

Section VI.
Variable vm : vimodel.
Variables (nodes : list Z) (edges : list (Z * Z)) (init : list (Z * Z)) (inf : list (Z * Z * Q)) (maxtime : Q) (monitor : option Q).
Let cm := vi_cm vm.
Let tb0 := mk_table cm nodes edges init maxtime monitor.
Let D := mk_vitable vm nodes edges init inf maxtime monitor.
Let specs := vim_specs vm.
Let si := vim_si vm.
Implicit Types s : st viworld.

(* ------------------------------------------------------------------ the programs *)
Lemma kinds_eq : cm_kinds cm = map ce_kind (vim_events vm) ++ [vim_infect vm; HObs].
Proof. reflexivity. Qed.

Lemma t_progs_kinds : t_progs tb0 = map (handler specs 0) (cm_kinds cm).
Proof.
  unfold tb0, mk_table. cbn [t_progs]. unfold cm_kinds. rewrite !map_app, map_map. reflexivity.
Qed.

Lemma vi_prog_of k :
  prog_of (d_tb D) k = match nth_error (cm_kinds cm) k with Some h => lift_prog (handler specs 0 h) | None => static [] end.
Proof.
  unfold prog_of, D, mk_vitable. cbn [d_tb t_progs]. fold cm. fold tb0. rewrite t_progs_kinds, map_map.
  apply nth_map_error.
Qed.

(* the class of programs that are ever posted: Monitor.observe *)
Definition vi_posted (k : nat) : Prop := k = (length (vim_events vm) + 1)%nat.

Lemma kobs_kind : nth_error (cm_kinds cm) (length (vim_events vm) + 1) = Some HObs.
Proof.
  rewrite kinds_eq, nth_error_app2; rewrite map_length; [|lia].
  replace (length (vim_events vm) + 1 - length (vim_events vm))%nat with 1%nat by lia. reflexivity.
Qed.

Lemma nopost_kinds h : vi_nopost vm = true -> In h (cm_kinds cm) -> kind_nopost h = true.
Proof.
  unfold vi_nopost. rewrite !andb_true_iff, forallb_forall. intros [[H1 H2] _] Hin. rewrite kinds_eq in Hin.
  apply in_app_or in Hin. destruct Hin as [Hin|[<-|[<-|[]]]]; [apply H1, Hin | exact H2 | reflexivity].
Qed.

Lemma vi_progs_posts : vi_nopost vm = true ->
  forall k t e lc w, Forall (posts_ok vi_posted) (snd (prog_of (d_tb D) k t e lc w)).
Proof.
  intros Hn k t e lc w. rewrite vi_prog_of. destruct (nth_error (cm_kinds cm) k) as [h|] eqn:E; [|constructor].
  rewrite lift_prog_snd. apply handler_posts_ok. apply (nopost_kinds h Hn). eapply nth_error_In. exact E.
Qed.

Lemma vi_setup_posts : vi_nopost vm = true -> forall p, In p (t_procs (d_tb D)) -> Forall (posts_ok vi_posted) (p_setup p).
Proof.
  intros Hn. assert (Hs : vim_seed_post vm = None).
  { unfold vi_nopost in Hn. rewrite !andb_true_iff in Hn. destruct Hn as [_ Hn]. destruct (vim_seed_post vm); [discriminate | reflexivity]. }
  unfold D, mk_vitable, mk_table. cbn [d_tb t_procs cm_seed_post vi_cm]. rewrite Hs.
  destruct monitor as [delta|]; cbn [In]; intros p [<-|[<-|[]]] || intros p [<-|[]]; cbn [p_setup]; try constructor.
  - cbn [posts_ok]. unfold vi_posted. reflexivity.
  - constructor.
Qed.

Lemma vi_posted_inert : forall k, vi_posted k -> forall t e lc w,
  fst (prog_of (d_tb D) k t e lc w) = w /\ fold_left (act_loci e) (snd (prog_of (d_tb D) k t e lc w)) lc = lc.
Proof.
  intros k -> t e lc w. rewrite vi_prog_of, kobs_kind. destruct w as [b i]. split; reflexivity.
Qed.

(* SingletonLocus.__contains__ holds of an entry in the state it is generated from *)
Lemma vi_dyn_shape pi lc w d : In d (d_dyn D pi lc w) ->
  pi = vi_mpi monitor /\ exists e, In e (nth si lc []) /\ d = vi_entry vm w e.
Proof.
  unfold D, mk_vitable. cbn [d_dyn]. destruct (Nat.eqb_spec pi (vi_mpi monitor)) as [->|]; [|intros []].
  intros H. apply in_map_iff in H. destruct H as [e [<- He]]. split; [reflexivity|]. exists e. split; [exact He | reflexivity].
Qed.

Lemma vi_dyn_sound pi lc w d : In d (d_dyn D pi lc w) -> de_member d lc w = true.
Proof.
  intros H. destruct (vi_dyn_shape pi lc w d H) as [_ [e [He ->]]]. cbn [vi_entry de_member]. apply mem_In. exact He.
Qed.

(* ------------------------------------------------------------------ C05 under stochastic dynamics *)
Theorem vi_stoch_member pf fuel rs ls ds k t c e m :
  In (OHandler k t c e (Some m)) (r_out (dstoch_run D pf fuel rs ls ds)) -> m = true.
Proof. exact (dstoch_run_member D pf fuel rs ls ds k t c e m). Qed.

(* ------------------------------------------------------------------ the distribution *)
Lemma all_events_eq : all_events (d_tb D) = all_events tb0.
Proof. reflexivity. Qed.

Theorem vi_dper_element lc w :
  dper_element D lc w = map TStat (per_element (d_tb D)) ++ map (fun e => TDyn (vi_mpi monitor) (vi_entry vm w e)) (nth si lc []).
Proof.
  unfold dper_element, per_element, all_events, D, mk_vitable, mk_table. cbn [d_tb t_procs d_dyn].
  destruct monitor as [delta|]; cbn [dper_from all_events_from d_dyn vi_mpi Nat.eqb p_events index_events filter map app].
  - rewrite !app_nil_r, map_map. reflexivity.
  - rewrite !app_nil_r, map_map. reflexivity.
Qed.

(* ------------------------------------------------------------------ the run invariant *)
Definition VJ s : Prop := SInv cm nodes edges (cw_st (vi_base (world s))) (loci s).

Lemma VJ_dsched s s' : VJ s -> dsched s s' -> VJ s'.
Proof. intros H (H1 & H2 & _). unfold VJ. rewrite H1, H2. exact H. Qed.

Lemma VJ_dafter c s : wf_loci specs = true -> VJ s -> VJ (dafter D c s).
Proof.
  intros Hwf H. pose proof (dafter_lw D c s) as A. destruct (dcall_args c) as [[k t] e]. destruct A as [A1 A2].
  unfold VJ. rewrite A1, A2, vi_prog_of. destruct (nth_error (cm_kinds cm) k) as [h|] eqn:E; [|exact H].
  rewrite lift_prog_fst, lift_prog_snd. cbn [vi_base].
  apply (sinv_handler cm nodes edges h t e (loci s) (vi_base (world s)) Hwf); [eapply nth_error_In; exact E | exact H].
Qed.

Lemma vi_post_only p : In p (t_procs (d_tb D)) -> Forall post_only (p_setup p).
Proof. exact (mk_table_post_only cm nodes edges init maxtime monitor p). Qed.

Theorem VJ_setup rs ls ds : wf_loci specs = true -> graph_okb nodes edges = true -> init_ok cm nodes init = true ->
  VJ (setup_state (d_tb D) rs ls ds).
Proof.
  intros Hwf Hg Hi. unfold VJ.
  destruct (setup_state_lw (d_tb D) rs ls ds vi_post_only) as [A B]. rewrite A, B.
  pose proof (J_setup cm nodes edges init maxtime monitor rs ls ds Hwf Hg Hi) as H0. unfold J in H0.
  destruct (setup_state_lw tb0 rs ls ds (mk_table_post_only cm nodes edges init maxtime monitor)) as [A0 B0].
  fold tb0 in H0. rewrite A0, B0 in H0. exact H0.
Qed.

Theorem VJ_dsteps Xtr rs ls ds cs s : wf_loci specs = true -> graph_okb nodes edges = true -> init_ok cm nodes init = true ->
  DSteps D Xtr (setup_state (d_tb D) rs ls ds) cs s -> VJ s /\ Forall (fun sc => VJ (fst sc)) cs.
Proof.
  intros Hwf Hg Hi H.
  apply (DSteps_inv D Xtr VJ (fun s s' => @VJ_dsched s s') (fun s c Hj _ => VJ_dafter c s Hwf Hj) _ cs s (VJ_setup rs ls ds Hwf Hg Hi) H).
Qed.

(* only Monitor.observe is ever queued *)
Theorem vi_qinv_dsteps Xtr rs ls ds cs s : vi_nopost vm = true ->
  DSteps D Xtr (setup_state (d_tb D) rs ls ds) cs s -> qinv vi_posted s /\ Forall (fun sc => qinv vi_posted (fst sc)) cs.
Proof.
  intros Hn H.
  refine (DSteps_inv D Xtr (qinv vi_posted) _ _ _ cs s _ H).
  - intros s1 s2 Hq (_ & _ & _ & Hi). exact (qinv_incl vi_posted s1 s2 Hi Hq).
  - intros s1 c Hq Hok. exact (dafter_qinv D vi_posted (vi_progs_posts Hn) Xtr c s1 Hok Hq).
  - apply (setup_qinv D vi_posted (vi_setup_posts Hn)).
Qed.

(* ------------------------------------------------------------------ C07_partition *)
Theorem vi_partition s : VJ s ->
  let st := cw_st (vi_base (world s)) in
  st_nodes st = nodes /\ st_edges st = edges
  /\ (forall v, In v nodes -> exists c, getc st v = Some c /\ In c (cm_comps cm))
  /\ NoDup (cm_comps cm)
  /\ lsum (map (count_in st) (cm_comps cm)) = length nodes.
Proof.
  intros (_ & _ & Hn & He & Hg). cbv zeta. split; [exact Hn|]. split; [exact He|]. split; [exact Hg|].
  split; [apply znodup_NoDup|]. rewrite <- Hn. apply counts_sum; [apply znodup_NoDup|]. rewrite Hn. exact Hg.
Qed.

(* ------------------------------------------------------------------ members of the kernel's loci are members of the truth *)
Lemma sinv_member st kl li e : SInv cm nodes edges st kl -> mem e (nth li kl []) = true ->
  li < length specs /\ exists x, e = kelem x /\ In x (nth li (st_loci st) []) /\ truthP (nth li specs default_spec) st x.
Proof.
  intros (Hk & [_ [Hlen Hl]] & _) Hm. apply mem_In in Hm.
  assert (Hli : li < length specs).
  { destruct (Nat.lt_ge_cases li (length specs)) as [L|L]; [exact L|]. exfalso.
    rewrite nth_overflow in Hm; [destruct Hm|]. rewrite Hk, map_length, Hlen. exact L. }
  split; [exact Hli|]. rewrite Hk in Hm. change (@nil Kernel.elem) with (ksort []) in Hm. rewrite map_nth in Hm.
  apply ksort_In, in_map_iff in Hm. destruct Hm as [x [<- Hx]]. exists x. split; [reflexivity|]. split; [exact Hx|].
  destruct (Hl li Hli) as [_ [Hs _]]. apply Hs, Hx.
Qed.

(* with a locus that cannot match both ways round, membership IS the tracked condition *)
Lemma sinv_member_iff st kl li e : SInv cm nodes edges st kl -> li < length specs ->
  single_spec (nth li specs default_spec) = true ->
  (mem e (nth li kl []) = true <-> exists x, e = kelem x /\ truthP (nth li specs default_spec) st x).
Proof.
  intros H Hli Hs. split.
  - intros Hm. destruct (sinv_member st kl li e H Hm) as [_ [x [E [_ T]]]]. exists x. split; assumption.
  - intros [x [-> T]]. destruct H as (Hk & [_ [Hlen Hl]] & _). apply mem_In. rewrite Hk.
    change (@nil Kernel.elem) with (ksort []). rewrite map_nth. apply ksort_In_kelem.
    destruct (winv1_sinv1 _ _ _ Hs (Hl li Hli)) as [_ Hiff]. apply Hiff. exact T.
Qed.

Lemma sinv_sorted st kl li : SInv cm nodes edges st kl -> ssorted (nth li kl []).
Proof.
  intros (Hk & _). rewrite Hk. change (@nil Kernel.elem) with (ksort []). rewrite map_nth. apply ksort_ssorted.
Qed.

(* ------------------------------------------------------------------ what an event function does to the compartments *)
(* an event function with summary h entered on a member e of locus li: the only node whose
   compartment changes goes from the left compartment of the locus to the target of h *)
Lemma handler_arrow li h t e kl w : SInv cm nodes edges (cw_st w) kl -> mem e (nth li kl []) = true ->
  forall v, getc (cw_st (fst (handler specs 0 h t e kl w))) v <> getc (cw_st w) v ->
  exists c, getc (cw_st w) v = Some (locus_left (nth li specs default_spec))
    /\ getc (cw_st (fst (handler specs 0 h t e kl w))) v = Some c /\ In c (kind_target h).
Proof.
  intros H Hm v Hne. destruct (sinv_member _ _ _ _ H Hm) as [_ [x [He [_ Ht]]]].
  rewrite handler_st in *. destruct (moved h e) as [[n c]|] eqn:M; [|congruence].
  rewrite cc_getc in *. destruct (getc_raises (cw_st w) n); [congruence|].
  destruct (Z.eqb_spec v n) as [->|_]; [|congruence].
  exists c. split; [|split; [reflexivity | eapply moved_target; exact M]].
  destruct h as [c1|c1 mark post| |], e as [n1|n1 m1]; cbn in M; try discriminate; inversion M; subst n1 c1.
  - destruct x as [u|u z]; cbn in He; inversion He; subst u. exact (proj2 (truthP_node_facts _ _ n Ht)).
  - destruct x as [u|u z]; cbn in He; inversion He; subst u z. exact (proj1 (proj2 (truthP_edge_facts _ _ n m1 Ht))).
Qed.

Lemma all_events_vi pi j ev : In (pi, j, ev) (all_events (d_tb D)) ->
  pi = vi_mpi monitor /\ exists cev, nth_error (vim_events vm) j = Some cev /\ ev = mk_ev j cev.
Proof. rewrite all_events_eq. intros H. apply (all_events_mk cm nodes edges init maxtime monitor) in H. exact H. Qed.

Lemma arrows_event cev c : In cev (vim_events vm) -> In c (kind_target (ce_kind cev)) ->
  In (locus_left (nth (ce_locus cev) specs default_spec), c) (vi_arrows vm).
Proof.
  intros H1 H2. unfold vi_arrows. apply in_or_app. left. apply in_flat_map. exists cev. split; [exact H1|].
  apply in_map_iff. exists c. split; [reflexivity | exact H2].
Qed.

Lemma arrows_infect c : In c (kind_target (vim_infect vm)) -> In (locus_left (nth si specs default_spec), c) (vi_arrows vm).
Proof. intros H. unfold vi_arrows. apply in_or_app. right. apply in_map_iff. exists c. split; [reflexivity | exact H]. Qed.

Lemma infect_kind : nth_error (cm_kinds cm) (vi_infect_prog vm) = Some (vim_infect vm).
Proof.
  unfold vi_infect_prog. rewrite kinds_eq, nth_error_app2; rewrite map_length; [|lia]. rewrite Nat.sub_diag. reflexivity.
Qed.

(* C07_diagram for every call of a stochastic / per-element event function or appended entry:
   whatever compartment changes is an arrow of the model *)
Theorem vi_call_diagram Xtr c s : VJ s -> dcall_ok D Xtr c s -> (forall h, c <> DPost h) ->
  forall v, getc (cw_st (vi_base (world (dafter D c s)))) v <> getc (cw_st (vi_base (world s))) v ->
  exists l c', getc (cw_st (vi_base (world s))) v = Some l /\ getc (cw_st (vi_base (world (dafter D c s)))) v = Some c'
    /\ In (l, c') (vi_arrows vm).
Proof.
  intros Hj Hok Hnp v Hne. pose proof (dafter_lw D c s) as A.
  destruct c as [[[pi j] ev] t e|pi d t|h]; [| |exfalso; exact (Hnp h eq_refl)];
    cbn [dcall_args snd] in A; destruct A as [_ A]; rewrite A in *; clear A.
  - destruct Hok as (Hx & Hm & _). destruct (all_events_vi pi j ev Hx) as [-> [cev [En ->]]].
    cbn [mk_ev ev_prog ev_locus snd] in *. rewrite vi_prog_of, (event_kind cm j cev En), lift_prog_fst in *. cbn [vi_base] in *.
    destruct (handler_arrow (ce_locus cev) (ce_kind cev) t e (loci s) (vi_base (world s)) Hj Hm v Hne) as [c' [G1 [G2 G3]]].
    exists (locus_left (nth (ce_locus cev) specs default_spec)), c'. split; [exact G1|]. split; [exact G2|].
    apply arrows_event; [eapply nth_error_In; exact En | exact G3].
  - destruct Hok as ([lc [w Hr]] & Hm & _). destruct (vi_dyn_shape pi lc w d Hr) as [_ [e [_ ->]]].
    cbn [vi_entry de_prog de_value de_member] in *. rewrite vi_prog_of, infect_kind, lift_prog_fst in *. cbn [vi_base] in *.
    destruct (handler_arrow si (vim_infect vm) t e (loci s) (vi_base (world s)) Hj Hm v Hne) as [c' [G1 [G2 G3]]].
    exists (locus_left (nth si specs default_spec)), c'. split; [exact G1|]. split; [exact G2|]. apply arrows_infect. exact G3.
Qed.

(* for the shipped class the posted events (Monitor.observe) change neither compartments nor loci *)
Theorem vi_posted_call_inert Xtr h s : qinv vi_posted s -> dcall_ok D Xtr (DPost h) s ->
  world (dafter D (DPost h) s) = world s /\ loci (dafter D (DPost h) s) = loci s.
Proof.
  intros Hq [Hh _]. apply head_in in Hh.
  assert (Hp : vi_posted (e_prog h)) by (unfold qinv in Hq; rewrite Forall_forall in Hq; exact (Hq h Hh)).
  pose proof (dafter_lw D (DPost h) s) as A. cbn [dcall_args] in A. destruct A as [A1 A2].
  destruct (vi_posted_inert _ Hp (e_time h) (e_elem h) (loci s) (world s)) as [I1 I2].
  rewrite A1, A2, I1, I2. split; reflexivity.
Qed.

(* C07_through_infectious_edge for the appended entries: when infect is entered, under either
   dynamics, its element is an edge (n, m) of the network, n is in the left and m in the right
   compartment of the SI locus at that very moment *)
Theorem vi_through_infectious_edge Xtr pi d t s l r : VJ s -> dcall_ok D Xtr (DDyn pi d t) s ->
  nth si specs default_spec = EdgeLocus l r ->
  exists n m, de_value d = EE n m /\ de_prog d = vi_infect_prog vm /\ pi = vi_mpi monitor
    /\ (In (n, m) edges \/ In (m, n) edges)
    /\ getc (cw_st (vi_base (world s))) n = Some l /\ getc (cw_st (vi_base (world s))) m = Some r.
Proof.
  intros Hj ([lc [w Hr]] & Hm & _) Hsp. destruct (vi_dyn_shape pi lc w d Hr) as [-> [e [_ ->]]].
  cbn [vi_entry de_prog de_value de_member] in *.
  destruct (sinv_member _ _ _ _ Hj Hm) as [_ [x [-> [_ Ht]]]]. fold si in Ht. rewrite Hsp in Ht.
  destruct x as [u|n m]; [destruct Ht|]. exists n, m. split; [reflexivity|]. split; [reflexivity|]. split; [reflexivity|].
  destruct (truthP_edge_facts _ _ n m Ht) as (Ha & Hl & Hrr). cbn [locus_left right_ok] in Hl, Hrr.
  split; [|split; assumption]. apply adjb_spec in Ha. destruct Hj as (_ & _ & _ & Hedges & _). rewrite Hedges in Ha. exact Ha.
Qed.

(* the entries of the distribution, read with the invariant: one per S-I edge of the network, ascending *)
Theorem vi_entries_truth s l r : VJ s -> si < length specs -> nth si specs default_spec = EdgeLocus l r -> Z.eqb l r = false ->
  ssorted (nth si (loci s) []) /\
  forall e, In e (nth si (loci s) []) <->
    exists n m, e = EE n m /\ (In (n, m) edges \/ In (m, n) edges)
      /\ getc (cw_st (vi_base (world s))) n = Some l /\ getc (cw_st (vi_base (world s))) m = Some r.
Proof.
  intros Hj Hsi Hsp Hlr. split; [exact (sinv_sorted _ _ si Hj)|]. intros e. rewrite <- mem_In.
  rewrite (sinv_member_iff _ _ si e Hj Hsi); [|fold si; rewrite Hsp; cbn [single_spec]; rewrite Hlr; reflexivity].
  fold si. rewrite Hsp. destruct Hj as (_ & _ & _ & Hedges & _). split.
  - intros [x [-> Ht]]. destruct x as [u|n m]; [destruct Ht|]. exists n, m. split; [reflexivity|].
    destruct (truthP_edge_facts _ _ n m Ht) as (Ha & Hl & Hrr). cbn [locus_left right_ok] in Hl, Hrr.
    apply adjb_spec in Ha. rewrite Hedges in Ha. tauto.
  - intros (n & m & -> & Ha & Hl & Hrr). exists (E n m). split; [reflexivity|]. cbn [truthP qual]. split.
    + unfold adj. apply adjb_spec. rewrite Hedges. exact Ha.
    + rewrite Hl, Hrr. cbn [ceq]. rewrite !Z.eqb_refl. reflexivity.
Qed.

(* ------------------------------------------------------------------ whole runs as call sequences *)
Theorem vi_stoch_run_steps pf fuel rs ls ds :
  exists cs, DSteps D (fun _ => True) (setup_state (d_tb D) rs ls ds) cs (r_final (dstoch_run D pf fuel rs ls ds)).
Proof.
  exact (dstoch_run_dsteps D (fun _ => True) (fun _ => True) (fun _ _ _ => I) (fun _ _ _ _ _ _ _ => I) pf fuel rs ls ds I).
Qed.

Theorem vi_sync_run_steps pf fuel rs ds :
  exists cs, DSteps D (Xpos) (setup_state (d_tb D) rs [] ds) cs (r_final (dsync_run D pf fuel rs ds)).
Proof. exact (dsync_run_dsteps D pf fuel rs ds). Qed.

End VI.
