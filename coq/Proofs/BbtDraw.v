(* C09: the law of draw().  The only property of the tree that matters is that the stored sizes
   are the real sizes (Ok); with the BST order every member then has probability exactly 1/n. *)
From Coq Require Import ZArith QArith List Bool Arith Lia.
From EpyV Require Import Model.Bbt Proofs.BbtRot Proofs.BbtSet.
Import ListNotations. Close Scope Z_scope. Close Scope Q_scope. Open Scope nat_scope.

Definition qn (n : nat) : Q := inject_Z (Z.of_nat n).

Lemma qn_add a b : (qn (a + b) == qn a + qn b)%Q.
Proof. unfold qn. rewrite Nat2Z.inj_add, inject_Z_plus. reflexivity. Qed.
Lemma qn_S a : (qn (S a) == 1 + qn a)%Q.
Proof. change (S a) with (1 + a). rewrite qn_add. reflexivity. Qed.
Lemma inv_qn n : n <> 0 -> ((1 # Pos.of_nat n) * qn n == 1)%Q.
Proof.
  intros Hn. unfold qn, Qeq, Qmult, inject_Z. cbn [Qnum Qden].
  rewrite Pos.mul_1_r, Z.mul_1_r, Z.mul_1_l, Z.mul_1_l.
  destruct n as [|n]; [congruence|]. rewrite <- Pos.of_nat_succ, Zpos_P_of_succ_nat, Nat2Z.inj_succ. reflexivity.
Qed.

Lemma sumQ_app l1 l2 : (sumQ (l1 ++ l2) == sumQ l1 + sumQ l2)%Q.
Proof. induction l1 as [|x l1 IH]; cbn [app sumQ]; [ring|]. rewrite IH. ring. Qed.
Lemma sumQ_const (f : nat -> Q) (x : Q) l : (forall i, In i l -> (f i == x)%Q) -> (sumQ (map f l) == qn (length l) * x)%Q.
Proof.
  induction l as [|i l IH]; intros H; cbn [map sumQ length].
  - unfold qn. cbn. ring.
  - assert (H1 : (f i == x)%Q) by (apply H; left; reflexivity).
    assert (H2 : (sumQ (map f l) == qn (length l) * x)%Q) by (apply IH; intros; apply H; right; assumption).
    rewrite qn_S, H1, H2. ring.
Qed.

(* a sum over [0, a+1+b) of a function that is x below a, y at a, z above a *)
Lemma sum_three (f : nat -> Q) a b x y z :
  (forall i, i < a -> (f i == x)%Q) -> (f a == y)%Q -> (forall i, a < i -> (f i == z)%Q) ->
  (sumQ (map f (seq 0 (a + 1 + b))) == qn a * x + y + qn b * z)%Q.
Proof.
  intros Hx Hy Hz. rewrite !seq_app, !map_app, !sumQ_app. cbn [seq map sumQ plus].
  rewrite (sumQ_const f x), (sumQ_const f z), !seq_length, Hy.
  - ring.
  - intros i Hi. apply in_seq in Hi. apply Hz. lia.
  - intros i Hi. apply in_seq in Hi. apply Hx. lia.
Qed.

Definition ind (d e : Z) : nat := if Z.eq_dec d e then 1 else 0.

(* P(draw t = e) * size t = number of occurrences of e in the in-order list *)
Lemma draw_count e t : Ok t ->
  (prob_ct (draw_ct t) e * qn (size t) == qn (count_occ Z.eq_dec (inorder t) e))%Q.
Proof.
  induction t as [|l IHl d h ls rs r IHr]; intros Ho.
  - cbn. reflexivity.
  - destruct Ho as (Hol & Hor & _ & -> & ->). specialize (IHl Hol). specialize (IHr Hor).
    cbn [draw_ct inorder size]. rewrite count_occ_app. cbn [count_occ].
    assert (Hd : ((if (d =? e)%Z then 1 else 0) == qn (ind d e))%Q).
    { unfold ind. destruct (Z.eqb_spec d e), (Z.eq_dec d e); try congruence; reflexivity. }
    assert (Hc : count_occ Z.eq_dec (inorder l) e + (if Z.eq_dec d e then S (count_occ Z.eq_dec (inorder r) e) else count_occ Z.eq_dec (inorder r) e)
                 = count_occ Z.eq_dec (inorder l) e + ind d e + count_occ Z.eq_dec (inorder r) e).
    { unfold ind. destruct (Z.eq_dec d e); lia. }
    rewrite Hc. clear Hc.
    destruct (Nat.eqb_spec (size l + 1 + size r) 1) as [H1|H1].
    + assert (Hl0 : size l = 0) by lia. assert (Hr0 : size r = 0) by lia.
      rewrite (size_0 l Hl0), (size_0 r Hr0). cbn [prob_ct size inorder count_occ plus].
      rewrite Hd. replace (ind d e + 0) with (ind d e) by lia. change (qn 1) with 1%Q. ring.
    + cbn [prob_ct].
      rewrite (sum_three _ (size l) (size r) (prob_ct (draw_ct l) e) (qn (ind d e)) (prob_ct (draw_ct r) e)).
      * rewrite (Qmult_comm (qn (size l))), IHl, (Qmult_comm (qn (size r))), IHr.
        rewrite <- !qn_add.
        set (c := count_occ Z.eq_dec (inorder l) e + ind d e + count_occ Z.eq_dec (inorder r) e).
        rewrite <- Qmult_assoc, (Qmult_comm (qn c)), Qmult_assoc, inv_qn by lia. ring.
      * intros i Hi. destruct (Nat.ltb_spec i (size l)); [reflexivity|lia].
      * destruct (Nat.ltb_spec (size l) (size l)); [lia|]. rewrite Nat.eqb_refl. cbn [prob_ct]. exact Hd.
      * intros i Hi. destruct (Nat.ltb_spec i (size l)); [lia|]. destruct (Nat.eqb_spec i (size l)); [lia|reflexivity].
Qed.

Lemma count_1 l e : NoDup l -> In e l -> count_occ Z.eq_dec l e = 1.
Proof.
  intros Hnd Hin. apply (NoDup_count_occ Z.eq_dec) with (x := e) in Hnd.
  apply (count_occ_In Z.eq_dec) in Hin. lia.
Qed.

(* exact uniformity: every member of a Good non-empty tree is drawn with probability 1/size *)
Theorem draw_uniform t e : Good t -> In e (inorder t) ->
  (prob_ct (draw_ct t) e == 1 # Pos.of_nat (size t))%Q.
Proof.
  intros [Hb [Ho _]] Hin. pose proof (draw_count e t Ho) as H.
  rewrite (count_1 _ _ (sorted_NoDup _ Hb) Hin) in H.
  assert (Hs : size t <> 0) by (rewrite size_inorder; destruct (inorder t); [destruct Hin|discriminate]).
  rewrite <- (Qmult_1_r (prob_ct (draw_ct t) e)), <- (inv_qn (size t) Hs).
  rewrite (Qmult_comm (1 # Pos.of_nat (size t))), Qmult_assoc, H. unfold qn. cbn. ring.
Qed.
(* the same with the stored length, which is what the program computes *)
Theorem draw_uniform_len t e : Good t -> In e (inorder t) ->
  (prob_ct (draw_ct t) e == 1 # Pos.of_nat (len t))%Q.
Proof. intros H Hin. rewrite len_good, <- size_inorder by assumption. apply draw_uniform; assumption. Qed.

Theorem draw_nonmember t e : Good t -> ~ In e (inorder t) -> (prob_ct (draw_ct t) e == 0)%Q.
Proof.
  intros [Hb [Ho _]] Hn. pose proof (draw_count e t Ho) as H.
  apply (count_occ_not_In Z.eq_dec) in Hn. rewrite Hn in H.
  destruct (Nat.eq_dec (size t) 0) as [Hs|Hs].
  - rewrite (size_0 t Hs). reflexivity.
  - rewrite <- (Qmult_1_r (prob_ct (draw_ct t) e)), <- (inv_qn (size t) Hs).
    rewrite (Qmult_comm (1 # Pos.of_nat (size t))), Qmult_assoc, H. unfold qn. cbn. ring.
Qed.

(* every run of draw on a non-empty Good tree with in-range integers returns a member; it never
   reaches a missing child; it asks for at most [ht t] integers, each time over the size of the
   sub-tree it is in *)
Lemma run_draw t : Ok t -> t <> Leaf -> forall ints,
  match fst (run_ct (draw_ct t) ints) with
  | Drew e => In e (inorder t)
  | Stuck => False
  | BadScript => True
  end /\ length (snd (run_ct (draw_ct t) ints)) <= ht t /\
  Forall (fun n => 2 <= n <= size t) (snd (run_ct (draw_ct t) ints)).
Proof.
  induction t as [|l IHl d h ls rs r IHr]; intros Ho Hne ints; [congruence|].
  destruct Ho as (Hol & Hor & _ & -> & ->). cbn [draw_ct inorder ht size].
  destruct (Nat.eqb_spec (size l + 1 + size r) 1) as [H1|H1].
  - cbn. split; [apply in_or_app; right; left; reflexivity|]. split; [lia|constructor].
  - cbn [run_ct]. destruct ints as [|i ints].
    + cbn. split; [exact I|]. split; [lia|]. constructor; [lia|constructor].
    + destruct (Nat.ltb_spec i (size l + 1 + size r)) as [Hi|Hi];
        [|cbn; split; [exact I|split; [lia|constructor; [lia|constructor]]]].
      destruct (Nat.ltb_spec i (size l)) as [Ha|Ha]; [|destruct (Nat.eqb_spec i (size l)) as [Hb|Hb]].
      * destruct (IHl Hol) with (ints := ints) as (I1 & I2 & I3); [intros ->; cbn in Ha; lia|].
        destruct (run_ct (draw_ct l) ints) as [res q]. cbn [fst snd length] in *.
        split; [destruct res; auto; apply in_or_app; left; assumption|]. split; [lia|].
        constructor; [lia|]. eapply Forall_impl; [|exact I3]. cbn. intros; lia.
      * cbn. split; [apply in_or_app; right; left; reflexivity|]. split; [lia|]. constructor; [lia|constructor].
      * destruct (IHr Hor) with (ints := ints) as (I1 & I2 & I3); [intros ->; cbn in Hi; lia|].
        destruct (run_ct (draw_ct r) ints) as [res q]. cbn [fst snd length] in *.
        split; [destruct res; auto; apply in_or_app; right; right; assumption|]. split; [lia|].
        constructor; [lia|]. eapply Forall_impl; [|exact I3]. cbn. intros; lia.
Qed.
