(* Proofs about Model/Generators.v (C15), part 1: the quota/parameter automaton, FixedNetwork, the PLC degree loop. *)
From Coq Require Import List ZArith QArith Bool Arith Lia.
From EpyV Require Import Lib.Prelude Model.Shuffle Model.Generators.
Import ListNotations.
Local Open Scope nat_scope.

(* ================================================================ quota and parameters *)
Definition is_gen (o : qop) : bool := match o with QGen | QNext => true | _ => false end.
Definition gens (ops : list qop) : nat := length (filter is_gen ops).

(* the parameter values handed to _generate, in order *)
Fixpoint graph_params (outs : list qout) : list (list Z) :=
  match outs with
  | [] => []
  | OGraph p :: r => p :: graph_params r
  | _ :: r => graph_params r
  end.

(* specification, with no notion of aliasing or quota: what every request should see is the caller's dict as
   it was at the most recent set() *)
Fixpoint snaps (snap caller : list Z) (ops : list qop) : list (list Z) :=
  match ops with
  | [] => []
  | QSet :: r => snaps caller caller r
  | QMutate k v :: r => snaps snap (update caller k v) r
  | (QGen | QNext) :: r => snap :: snaps snap caller r
  end.

Definition budget (rem : option nat) (ops : list qop) : nat :=
  match rem with None => gens ops | Some L => L end.

Lemma snaps_length snap caller ops : length (snaps snap caller ops) = gens ops.
Proof.
  revert snap caller. induction ops as [|o r IH]; intros; [reflexivity|].
  destruct o; unfold gens in *; cbn; rewrite ?IH; reflexivity.
Qed.

Lemma q_run_params s ops : q_alias s = false ->
  graph_params (q_run s ops) = firstn (budget (q_rem s) ops) (snaps (q_own s) (q_caller s) ops).
Proof.
  revert s. induction ops as [|o r IH]; intros s Ha.
  - destruct (q_rem s); destruct s; cbn; try reflexivity. destruct n; reflexivity.
  - destruct o; cbn [q_run q_step].
    + (* set *) rewrite app_nil_l, IH by reflexivity. cbn. unfold budget, gens. cbn. reflexivity.
    + (* mutate *) rewrite app_nil_l, IH by exact Ha. cbn. unfold budget, gens. cbn. reflexivity.
    + (* generate *) unfold q_generate, q_params. rewrite Ha. destruct (q_rem s) as [[|n]|] eqn:Hr; cbn [app graph_params].
      * rewrite IH by exact Ha. rewrite Hr. reflexivity.
      * rewrite IH by first [exact Ha | reflexivity]. cbn. reflexivity.
      * rewrite IH by exact Ha. rewrite Hr. unfold budget, gens. cbn. reflexivity.
    + (* next *) unfold q_generate, q_params. rewrite Ha. destruct (q_rem s) as [[|n]|] eqn:Hr; cbn [app graph_params].
      * rewrite IH by exact Ha. rewrite Hr. reflexivity.
      * rewrite IH by first [exact Ha | reflexivity]. cbn. reflexivity.
      * rewrite IH by exact Ha. rewrite Hr. unfold budget, gens. cbn. reflexivity.
Qed.

(* the number of networks handed out, whatever the parameters are *)
Lemma q_run_count s ops :
  length (graph_params (q_run s ops)) = match q_rem s with None => gens ops | Some L => Nat.min L (gens ops) end.
Proof.
  revert s. induction ops as [|o r IH]; intros s.
  - destruct (q_rem s); cbn; [rewrite Nat.min_0_r|]; reflexivity.
  - destruct o; cbn [q_run q_step].
    + rewrite app_nil_l, IH. reflexivity.
    + rewrite app_nil_l, IH. reflexivity.
    + unfold q_generate. destruct (q_rem s) as [[|n]|] eqn:Hr; cbn [app graph_params length]; rewrite IH; cbn [q_rem]; rewrite ?Hr; unfold gens; cbn; reflexivity.
    + unfold q_generate. destruct (q_rem s) as [[|n]|] eqn:Hr; cbn [app graph_params length]; rewrite IH; cbn [q_rem]; rewrite ?Hr; unfold gens; cbn; reflexivity.
Qed.

(* one answer per request; None / StopIteration exactly when the quota is used up *)
Fixpoint answers (rem : option nat) (ops : list qop) : list bool :=      (* true = a network *)
  match ops with
  | [] => []
  | (QGen | QNext) :: r => match rem with
                           | None => true :: answers None r
                           | Some (S n) => true :: answers (Some n) r
                           | Some 0 => false :: answers (Some 0) r
                           end
  | _ :: r => answers rem r
  end.

Definition is_graph (o : qout) : bool := match o with OGraph _ => true | _ => false end.

Lemma q_run_answers s ops : map is_graph (q_run s ops) = answers (q_rem s) ops.
Proof.
  revert s. induction ops as [|o r IH]; intros s; [reflexivity|].
  destruct o; cbn [q_run q_step answers].
  - rewrite app_nil_l, IH. reflexivity.
  - rewrite app_nil_l, IH. reflexivity.
  - unfold q_generate. destruct (q_rem s) as [[|n]|] eqn:Hr; cbn; rewrite IH; cbn; rewrite ?Hr; reflexivity.
  - unfold q_generate. destruct (q_rem s) as [[|n]|] eqn:Hr; cbn; rewrite IH; cbn; rewrite ?Hr; reflexivity.
Qed.

Lemma answers_spec rem ops :
  answers rem ops = match rem with
                    | None => repeat true (gens ops)
                    | Some L => repeat true (Nat.min L (gens ops)) ++ repeat false (gens ops - L)
                    end.
Proof.
  revert rem. induction ops as [|o r IH]; intros rem.
  - destruct rem; cbn; [rewrite Nat.min_0_r|]; reflexivity.
  - destruct o; cbn [answers]; try (rewrite IH; unfold gens; cbn; reflexivity).
    + destruct rem as [[|n]|]; rewrite IH; unfold gens; cbn; rewrite ?Nat.sub_0_r; reflexivity.
    + destruct rem as [[|n]|]; rewrite IH; unfold gens; cbn; rewrite ?Nat.sub_0_r; reflexivity.
Qed.

(* generate() answers None and __next__ raises StopIteration, never the other way round *)
Lemma q_run_kind s ops : Forall2 (fun o out => match out with
                                               | ONone => o = QGen | OStop => o = QNext | OGraph _ => True end)
                                 (filter is_gen ops) (q_run s ops).
Proof.
  revert s. induction ops as [|o r IH]; intros s; [constructor|].
  destruct o; cbn [q_run q_step filter is_gen]; try (rewrite app_nil_l; apply IH).
  - unfold q_generate. destruct (q_rem s) as [[|n]|]; cbn; constructor; auto.
  - unfold q_generate. destruct (q_rem s) as [[|n]|]; cbn; constructor; auto.
Qed.

(* after a set() the generator is no longer tied to the caller's dict *)
Lemma q_after_set s : q_alias (fst (q_step s QSet)) = false /\ q_own (fst (q_step s QSet)) = q_caller s
  /\ q_caller (fst (q_step s QSet)) = q_caller s /\ q_rem (fst (q_step s QSet)) = q_rem s.
Proof. cbn. auto. Qed.

(* ================================================================ FixedNetwork *)
Lemma fixed_all_equal proto limit ops g : In (Some g) (fixed_outputs proto limit ops) -> g = proto.
Proof.
  unfold fixed_outputs. intros H. apply in_map_iff in H. destruct H as [o [H _]].
  destruct o; congruence.
Qed.

Lemma fixed_answers proto limit ops :
  map (fun o => match o with Some _ => true | None => false end) (fixed_outputs proto limit ops) = answers limit ops.
Proof.
  unfold fixed_outputs. rewrite map_map.
  change (answers limit ops) with (answers (q_rem (q_init false [] limit)) ops).
  rewrite <- q_run_answers. apply map_ext. intros [| |p]; reflexivity.
Qed.

(* ================================================================ PLC degree sequence *)
Definition deg_ok (k : nat) : Prop := 1 <= k <= 99.
Definition ev_ok (e : pev) : Prop := match e with PK k _ => deg_ok k | PIdx _ => True end.

Lemma plc_draw_spec p evs k rest : Forall ev_ok evs -> plc_draw p evs = Some (k, rest) ->
  deg_ok k /\ Forall ev_ok rest /\ length rest < length evs.
Proof.
  revert k rest. induction evs as [|e evs IH]; intros k rest Hf; cbn [plc_draw]; [discriminate|].
  destruct e as [k0 r|i]; [|discriminate]. inversion Hf as [|? ? H1 H2]; subst.
  destruct (Qle_bool (p k0) r).
  - intros H. destruct (IH _ _ H2 H) as [A [B C]]. cbn. auto.
  - intros H. inversion H; subst. cbn. auto.
Qed.

Lemma plc_fill_spec p n : forall ns evs ns' rest, Forall ev_ok evs -> Forall deg_ok ns ->
  plc_fill p n ns evs = Some (ns', rest) ->
  Forall deg_ok ns' /\ length ns' = length ns + n /\ Forall ev_ok rest.
Proof.
  induction n as [|n IH]; intros ns evs ns' rest He Hn; cbn [plc_fill].
  - intros H; inversion H; subst. auto.
  - destruct (plc_draw p evs) as [[k r]|] eqn:Hd; [|discriminate].
    destruct (plc_draw_spec _ _ _ _ He Hd) as [Hk [Hr _]].
    intros H. apply IH in H; [|exact Hr|apply Forall_app; auto].
    destruct H as [A [B C]]. rewrite app_length in B. cbn in B. split; [exact A|]. split; [lia|exact C].
Qed.

Lemma remove_nth_Forall {A} (P : A -> Prop) i l : Forall P l -> Forall P (remove_nth i l).
Proof.
  revert i. induction l as [|x l IH]; intros i H; [destruct i; constructor|].
  inversion H; subst. destruct i; cbn; [assumption|]. constructor; auto.
Qed.

Lemma remove_nth_length {A} i (l : list A) : i < length l -> S (length (remove_nth i l)) = length l.
Proof.
  revert i. induction l as [|x l IH]; intros i H; [cbn in H; lia|].
  destruct i; cbn; [reflexivity|]. cbn in H. rewrite IH by lia. reflexivity.
Qed.

Lemma plc_repair_spec p fuel : forall ns evs ns' rest, Forall ev_ok evs -> Forall deg_ok ns ->
  plc_repair fuel p ns evs = Some (ns', rest) ->
  Forall deg_ok ns' /\ length ns' = length ns /\ Nat.even (total ns') = true.
Proof.
  induction fuel as [|f IH]; intros ns evs ns' rest He Hn; cbn [plc_repair];
    destruct (Nat.even (total ns)) eqn:Hev.
  - intros H; inversion H; subst. auto.
  - discriminate.
  - intros H; inversion H; subst. auto.
  - destruct evs as [|[k r|i] evs]; try discriminate. inversion He as [|? ? _ He']; subst.
    destruct (i <? length ns - 1) eqn:Hi; [|discriminate]. apply Nat.ltb_lt in Hi.
    destruct (plc_draw p evs) as [[k r]|] eqn:Hd; [|discriminate].
    destruct (plc_draw_spec _ _ _ _ He' Hd) as [Hk [Hr _]].
    intros H. apply IH in H; [|exact Hr|apply Forall_app; split; [apply remove_nth_Forall; exact Hn|auto]].
    destruct H as [A [B C]]. split; [exact A|]. split; [|exact C].
    rewrite B, app_length. cbn. pose proof (remove_nth_length i ns ltac:(lia)). lia.
Qed.

Lemma plc_degrees_spec p N evs ns rest : Forall ev_ok evs -> plc_degrees p N evs = Some (ns, rest) ->
  Forall deg_ok ns /\ length ns = N /\ Nat.even (total ns) = true.
Proof.
  intros He. unfold plc_degrees. destruct (plc_fill p N [] evs) as [[ns0 r0]|] eqn:Hf; [|discriminate].
  destruct (plc_fill_spec _ _ _ _ _ _ He (Forall_nil _) Hf) as [A [B C]]. cbn in B.
  intros H. destruct (plc_repair_spec _ _ _ _ _ _ C A H) as [A' [B' C']]. split; [exact A'|]. split; [lia|exact C'].
Qed.
