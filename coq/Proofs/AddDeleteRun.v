(* C19, part 3: invariants of whole kernel runs of tables whose event functions post nothing.
   Generic in the user state W: if every registered event function, run on an element of its
   locus, re-establishes an invariant J of (kernel loci, world), then J holds in every state of a
   stochastic or synchronous run (Model/Kernel.v), in particular at the end.  Self-contained
   (only Model/Kernel.v), so that it does not move with the kernel proofs of other properties. *)
From Coq Require Import List ZArith QArith Bool Arith Lia.
From EpyV Require Import Model.Kernel.
Import ListNotations.
Close Scope Q_scope.

(* actions that only touch loci (and the observation stream) *)
Definition quiet (a : action) : bool :=
  match a with ALAdd _ _ | ALDiscard _ _ | ALAddSelf _ | ALDiscardSelf _ | AObserve => true | _ => false end.

Definition act_loci (e : elem) (lc : list (list elem)) (a : action) : list (list elem) :=
  match a with
  | ALAdd l x => Kernel.upd_nth l (ins x) lc
  | ALDiscard l x => Kernel.upd_nth l (del x) lc
  | ALAddSelf l => Kernel.upd_nth l (ins e) lc
  | ALDiscardSelf l => Kernel.upd_nth l (del e) lc
  | _ => lc
  end.
Definition acts_loci (e : elem) (acts : list action) (lc : list (list elem)) : list (list elem) :=
  fold_left (act_loci e) acts lc.

Lemma mem_In : forall x l, mem x l = true -> In x l.
Proof.
  intros x l H. unfold mem in H. apply existsb_exists in H. destruct H as [y [Hy E]].
  replace x with y; [exact Hy|]. destruct x, y; cbn in E; try discriminate.
  - apply Z.eqb_eq in E. congruence.
  - apply andb_true_iff in E. destruct E as [E1 E2]. apply Z.eqb_eq in E1, E2. congruence.
Qed.

Lemma nth_mod_In : forall (l : list elem) k d, l <> [] -> In (nth (k mod length l) l d) l.
Proof. intros l k d H. apply nth_In. apply Nat.mod_upper_bound. destruct l; [congruence|cbn; lia]. Qed.

Lemma select_In : forall A (f : A -> Q) xc l xs cur, In (select f xc xs cur l) (cur :: l).
Proof.
  intros A f xc. induction l as [|x l IH]; intros xs cur; cbn [select]; [left; reflexivity|].
  destruct (Qltb xc (xs + f x)); [right; left; reflexivity|].
  right. exact (IH (Qred (xs + f x)) x).
Qed.

Section Run.
Variable W : Type.
Variable tb : table W.
Variable J : list (list elem) -> W -> Prop.

(* the part of a kernel state the invariant speaks about; nothing is ever posted *)
Definition SJ (s : st W) : Prop := queue s = [] /\ J (loci s) (world s).
Definition same_lw (s s' : st W) : Prop := queue s' = queue s /\ loci s' = loci s /\ world s' = world s.

Lemma same_lw_SJ : forall s s', same_lw s s' -> SJ s -> SJ s'.
Proof. intros s s' [A [B C]] [Q H]. split; [congruence|]. rewrite B, C. exact H. Qed.
Lemma same_lw_refl : forall s, same_lw s s. Proof. intro; repeat split. Qed.
Lemma same_lw_trans : forall a b c, same_lw a b -> same_lw b c -> same_lw a c.
Proof. intros a b c [A1 [A2 A3]] [B1 [B2 B3]]. repeat split; congruence. Qed.

Lemma next_rand_lw : forall s, same_lw s (snd (next_rand s)).
Proof. intro s. unfold next_rand. destruct (rands s); repeat split. Qed.
Lemma next_ln_lw : forall s, same_lw s (snd (next_ln s)).
Proof. intro s. unfold next_ln. destruct (lns s); repeat split. Qed.
Lemma next_draw_lw : forall s, same_lw s (snd (next_draw s)).
Proof. intro s. unfold next_draw. destruct (draws s); repeat split. Qed.

(* quiet actions *)
Lemma do_action_quiet : forall p t e a (s : st W), quiet a = true ->
  queue (do_action p t e a s) = queue s /\ world (do_action p t e a s) = world s
  /\ loci (do_action p t e a s) = act_loci e (loci s) a.
Proof. intros p t e a s H. destruct a; try discriminate; cbn; auto. Qed.

Lemma run_actions_quiet : forall p t e acts (s : st W), forallb quiet acts = true ->
  queue (run_actions p t e acts s) = queue s /\ world (run_actions p t e acts s) = world s
  /\ loci (run_actions p t e acts s) = acts_loci e acts (loci s).
Proof.
  intros p t e acts. unfold run_actions, acts_loci. induction acts as [|a acts IH]; intros s H; cbn [fold_left]; [auto|].
  cbn [forallb] in H. apply andb_true_iff in H. destruct H as [Ha Hr].
  destruct (do_action_quiet p t e a s Ha) as [A [B C]]. destruct (IH (do_action p t e a s) Hr) as [A' [B' C']].
  rewrite A', B', C', A, B, C. auto.
Qed.

(* every registered event function, run on an element of its locus, is quiet and re-establishes J *)
Definition prog_ok : Prop :=
  forall x t e lc w, In x (all_events tb) -> J lc w -> In e (nth (ev_locus (snd x)) lc []) ->
    forallb quiet (snd (prog_of tb (ev_prog (snd x)) t e lc w)) = true
    /\ J (acts_loci e (snd (prog_of tb (ev_prog (snd x)) t e lc w)) lc) (fst (prog_of tb (ev_prog (snd x)) t e lc w)).

Hypothesis Hprog : prog_ok.

Lemma fire_event_SJ : forall x t e s, In x (all_events tb) -> In e (locus s (ev_locus (snd x))) -> SJ s -> SJ (fire_event tb x t e s).
Proof.
  intros [[pi j] ev] t e s Hx He [HQ HJ]. unfold fire_event, run_prog. cbn [snd] in *.
  set (s1 := emit (OHandler (ev_prog ev) t (clock s) e (Some (mem e (locus s (ev_locus ev))))) s).
  change (loci s1) with (loci s). change (world s1) with (world s).
  destruct (Hprog (pi, j, ev) t e (loci s) (world s) Hx HJ He) as [P1 P2]. cbn [snd] in P1, P2.
  destruct (prog_of tb (ev_prog ev) t e (loci s) (world s)) as [w acts]. cbn [fst snd] in *.
  destruct (run_actions_quiet pi t e acts (set_world w s1) P1) as [A [B C]].
  split; cbn; [rewrite A; exact HQ|]. rewrite B, C. exact P2.
Qed.

(* with an empty queue the posted-event machinery does nothing *)
Lemma discard_lw : forall s, queue s = [] -> same_lw s (discard s).
Proof. intros s H. unfold discard, same_lw. rewrite H. cbn. auto. Qed.

Lemma run_pending_lw : forall pf t n s, queue s = [] -> same_lw s (snd (run_pending tb pf t n s)).
Proof.
  intros pf t n s H. destruct pf as [|f]; cbn [run_pending]; [repeat split|].
  pose proof (discard_lw s H) as D. destruct D as [D1 D2]. rewrite D1, H. cbn [head snd]. split; [exact D1|exact D2].
Qed.

(* ------------------------------------------------------------------ stochastic dynamics *)
Lemma stoch_loop_SJ : forall pf fuel t ev s, SJ s -> SJ (snd (stoch_loop tb pf fuel t ev s)).
Proof.
  intros pf fuel. induction fuel as [|f IH]; intros t ev s H; cbn [stoch_loop].
  - cbn. exact H.
  - destruct (Qle_bool (t_maxtime tb) t || t_equil tb (loci s) (world s)); [exact H|].
    destruct (Qeq_bool (sum_rates s (transitions tb)) 0).
    + unfold next_pending_time. pose proof (discard_lw s (proj1 H)) as D.
      destruct D as [D1 D2]. rewrite D1, (proj1 H). cbn [head option_map snd].
      apply (same_lw_SJ s); [split; assumption | exact H].
    + pose proof (next_rand_lw s) as L1. destruct (next_rand s) as [r1 s1]. cbn [snd] in L1.
      pose proof (next_ln_lw s1) as L2. destruct (next_ln s1) as [ln s2]. cbn [snd] in L2.
      destruct (transitions tb) as [|x0 rest] eqn:Et; [exact H|].
      assert (Sel : exists x s3, (match rest with
                                  | [] => (x0, s2)
                                  | _ :: _ => let '(r2, s3) := next_rand s2 in
                                              (select (rate s) (r2 * sum_rates s (x0 :: rest)) 0 x0 (x0 :: rest), s3)
                                  end) = (x, s3) /\ same_lw s2 s3 /\ In x (x0 :: rest)).
      { destruct rest as [|x1 rest'].
        - exists x0, s2. split; [reflexivity|]. split; [apply same_lw_refl | left; reflexivity].
        - pose proof (next_rand_lw s2) as L3. destruct (next_rand s2) as [r2 s3]. cbn [snd] in L3.
          eexists _, s3. split; [reflexivity|]. split; [exact L3|].
          destruct (select_In _ (rate s) (r2 * sum_rates s (x0 :: x1 :: rest')) (x0 :: x1 :: rest') 0 x0) as [E|E];
            [rewrite <- E; left; reflexivity | exact E]. }
      destruct Sel as [x [s3 [Es [L3 Hx]]]]. rewrite Es.
      assert (H3 : SJ s3) by (apply (same_lw_SJ s); [eapply same_lw_trans; [exact L1|eapply same_lw_trans; eassumption] | exact H]).
      pose proof (run_pending_lw pf (Qred (t + Qred (1 / sum_rates s (x0 :: rest) * ln))) 0 s3 (proj1 H3)) as L4.
      destruct (run_pending tb pf _ 0 s3) as [n s4]. cbn [snd] in L4.
      assert (H4 : SJ s4) by (apply (same_lw_SJ s3); assumption).
      set (nt := Qred (t + Qred (1 / sum_rates s (x0 :: rest) * ln))).
      assert (H5 : SJ (set_clock nt s4)) by exact H4.
      destruct (locus (set_clock nt s4) (ev_locus (snd x))) as [|e0 lc] eqn:El; [apply IH, H5|].
      pose proof (next_draw_lw (set_clock nt s4)) as L6. destruct (next_draw (set_clock nt s4)) as [k s6]. cbn [snd] in L6.
      apply IH. apply fire_event_SJ.
      * rewrite <- Et in Hx. unfold transitions in Hx. apply in_app_or in Hx.
        destruct Hx as [Hx|Hx]; apply filter_In in Hx; exact (proj1 Hx).
      * unfold locus in *. destruct L6 as [_ [L6 _]]. rewrite L6, El. apply nth_mod_In. discriminate.
      * apply (same_lw_SJ (set_clock nt s4)); assumption.
Qed.

(* set-up: no process of the table has set-up actions *)
Hypothesis Hsetup : forall p, In p (t_procs tb) -> p_setup p = [].
Hypothesis Hinit : J (init_loci tb) (t_world tb).

Lemma setup_state_SJ : forall rs ls ds, SJ (setup_state tb rs ls ds).
Proof.
  intros rs ls ds. unfold setup_state.
  set (s0 := {| clock := 0%Q; nextid := 0; queue := []; loci := init_loci tb; world := t_world tb; ids := []; out := [];
                rands := rs; lns := ls; draws := ds; stuck := false |}).
  assert (G : forall ps k s, (forall p, In p ps -> p_setup p = []) ->
              fst (fold_left (fun (acc : st W * nat) p => (run_actions (snd acc) 0%Q (EN 0) (p_setup p) (fst acc), S (snd acc))) ps (s, k)) = s).
  { induction ps as [|p ps IHp]; intros k s Hp; cbn [fold_left fst snd]; [reflexivity|].
    rewrite (Hp p (or_introl eq_refl)). cbn [run_actions fold_left]. apply IHp. intros q Hq. apply Hp. right. exact Hq. }
  rewrite (G (t_procs tb) 0 s0 Hsetup). split; [reflexivity | exact Hinit].
Qed.

Theorem stoch_run_SJ : forall pf fuel rs ls ds, SJ (r_final (stoch_run tb pf fuel rs ls ds)).
Proof.
  intros pf fuel rs ls ds. unfold stoch_run.
  pose proof (stoch_loop_SJ pf fuel 0%Q 0 (setup_state tb rs ls ds) (setup_state_SJ rs ls ds)) as H.
  destruct (stoch_loop tb pf fuel 0%Q 0 (setup_state tb rs ls ds)) as [[t ev] s]. exact H.
Qed.

(* ------------------------------------------------------------------ synchronous dynamics *)
Lemma trials_lw : forall p x els s, same_lw s (snd (trials p x els s)) /\ Forall (fun xe => fst xe = x) (fst (trials p x els s)).
Proof.
  intros p x els. induction els as [|e els IH]; intros s; cbn [trials]; [split; [apply same_lw_refl|constructor]|].
  pose proof (next_rand_lw s) as L1. destruct (next_rand s) as [r s1]. cbn [snd] in L1.
  destruct (IH s1) as [L2 F2]. destruct (trials p x els s1) as [sel s2]. cbn [fst snd] in *.
  split; [eapply same_lw_trans; eassumption|]. destruct (Qle_bool r p); [constructor; [reflexivity|exact F2] | exact F2].
Qed.

Lemma tranche_elem_lw : forall evs s, same_lw s (snd (tranche_elem evs s)) /\ Forall (fun xe => In (fst xe) evs) (fst (tranche_elem evs s)).
Proof.
  induction evs as [|x evs IH]; intros s; cbn [tranche_elem]; [split; [apply same_lw_refl|constructor]|].
  assert (A : exists sel s1, (match locus s (ev_locus (snd x)) with
                              | [] => ([], s)
                              | _ :: _ => if Qltb 0 (ev_p (snd x)) then trials (ev_p (snd x)) x (locus s (ev_locus (snd x))) s else ([], s)
                              end) = (sel, s1) /\ same_lw s s1 /\ Forall (fun xe => fst xe = x) sel).
  { destruct (locus s (ev_locus (snd x))) as [|e0 l0]; [exists [], s; split; [reflexivity|split; [apply same_lw_refl|constructor]]|].
    destruct (Qltb 0 (ev_p (snd x))); [|exists [], s; split; [reflexivity|split; [apply same_lw_refl|constructor]]].
    destruct (trials_lw (ev_p (snd x)) x (e0 :: l0) s) as [L F]. destruct (trials (ev_p (snd x)) x (e0 :: l0) s) as [sel s1].
    exists sel, s1. auto. }
  destruct A as [sel [s1 [E [L1 F1]]]]. rewrite E.
  destruct (IH s1) as [L2 F2]. destruct (tranche_elem evs s1) as [sel' s2]. cbn [fst snd] in *.
  split; [eapply same_lw_trans; eassumption|]. apply Forall_app. split.
  - eapply Forall_impl; [|exact F1]. intros xe Hx. left. auto.
  - eapply Forall_impl; [|exact F2]. intros xe Hx. right. exact Hx.
Qed.

Lemma tranche_fixed_lw : forall evs s, same_lw s (snd (tranche_fixed evs s)) /\ Forall (fun xe => In (fst xe) evs) (fst (tranche_fixed evs s)).
Proof.
  induction evs as [|x evs IH]; intros s; cbn [tranche_fixed]; [split; [apply same_lw_refl|constructor]|].
  assert (A : exists sel s1, (match locus s (ev_locus (snd x)) with
                              | [] => ([], s)
                              | _ :: _ => if Qltb 0 (ev_p (snd x)) then
                                            let '(r, s1) := next_rand s in
                                            if Qle_bool r (ev_p (snd x)) then
                                              let '(k, s2) := next_draw s1 in
                                              ([(x, nth (k mod length (locus s (ev_locus (snd x)))) (locus s (ev_locus (snd x))) (EN 0))], s2)
                                            else ([], s1)
                                          else ([], s)
                              end) = (sel, s1) /\ same_lw s s1 /\ Forall (fun xe => fst xe = x) sel).
  { destruct (locus s (ev_locus (snd x))) as [|e0 l0]; [exists [], s; split; [reflexivity|split; [apply same_lw_refl|constructor]]|].
    destruct (Qltb 0 (ev_p (snd x))); [|exists [], s; split; [reflexivity|split; [apply same_lw_refl|constructor]]].
    pose proof (next_rand_lw s) as L1. destruct (next_rand s) as [r s1]. cbn [snd] in L1.
    destruct (Qle_bool r (ev_p (snd x))); [|exists [], s1; split; [reflexivity|split; [exact L1|constructor]]].
    pose proof (next_draw_lw s1) as L2. destruct (next_draw s1) as [k s2]. cbn [snd] in L2.
    eexists _, s2. split; [reflexivity|]. split; [eapply same_lw_trans; eassumption|]. constructor; [reflexivity|constructor]. }
  destruct A as [sel [s1 [E [L1 F1]]]]. rewrite E.
  destruct (IH s1) as [L2 F2]. destruct (tranche_fixed evs s1) as [sel' s2]. cbn [fst snd] in *.
  split; [eapply same_lw_trans; eassumption|]. apply Forall_app. split.
  - eapply Forall_impl; [|exact F1]. intros xe Hx. left. auto.
  - eapply Forall_impl; [|exact F2]. intros xe Hx. right. exact Hx.
Qed.

Lemma tranche_lw : forall s, same_lw s (snd (tranche tb s)) /\ Forall (fun xe => In (fst xe) (all_events tb)) (fst (tranche tb s)).
Proof.
  intro s. unfold tranche.
  destruct (tranche_elem_lw (per_element tb) s) as [L1 F1]. destruct (tranche_elem (per_element tb) s) as [a s1]. cbn [fst snd] in *.
  destruct (tranche_fixed_lw (fixed_rate tb) s1) as [L2 F2]. destruct (tranche_fixed (fixed_rate tb) s1) as [b s2]. cbn [fst snd] in *.
  split; [eapply same_lw_trans; eassumption|]. apply Forall_app. split.
  - eapply Forall_impl; [|exact F1]. intros xe Hx. unfold per_element in Hx. apply filter_In in Hx. exact (proj1 Hx).
  - eapply Forall_impl; [|exact F2]. intros xe Hx. unfold fixed_rate in Hx. apply filter_In in Hx. exact (proj1 Hx).
Qed.

Lemma fire_tranche_SJ : forall t evs nev s, Forall (fun xe => In (fst xe) (all_events tb)) evs -> SJ s ->
  SJ (snd (fire_tranche tb t evs nev s)).
Proof.
  intros t evs. induction evs as [|[x e] evs IH]; intros nev s F H; cbn [fire_tranche]; [exact H|].
  inversion F as [|? ? Fx Fr]; subst. cbn [fst] in Fx.
  destruct (mem e (locus s (ev_locus (snd x)))) eqn:Em; [|apply IH; assumption].
  apply IH; [exact Fr|]. apply fire_event_SJ; [exact Fx | apply mem_In, Em | exact H].
Qed.

Lemma sync_loop_SJ : forall pf fuel t ev steps s, SJ s -> SJ (snd (sync_loop tb pf fuel t ev steps s)).
Proof.
  intros pf fuel. induction fuel as [|f IH]; intros t ev steps s H; cbn [sync_loop]; [exact H|].
  destruct (Qle_bool (t_maxtime tb) t || t_equil tb (loci s) (world s)); [exact H|].
  assert (H0 : SJ (set_clock t s)) by exact H.
  pose proof (run_pending_lw pf t 0 (set_clock t s) (proj1 H0)) as L1.
  destruct (run_pending tb pf t 0 (set_clock t s)) as [n s1]. cbn [snd] in L1.
  assert (H1 : SJ (set_clock t s1)) by (apply (same_lw_SJ (set_clock t s)); assumption).
  destruct (tranche_lw (set_clock t s1)) as [L2 F2]. destruct (tranche tb (set_clock t s1)) as [evs s2]. cbn [fst snd] in *.
  assert (H2 : SJ s2) by (apply (same_lw_SJ (set_clock t s1)); assumption).
  pose proof (fire_tranche_SJ t evs n s2 F2 H2) as H3. destruct (fire_tranche tb t evs n s2) as [nev s3]. cbn [snd] in H3.
  apply IH, H3.
Qed.

Theorem sync_run_SJ : forall pf fuel rs ds, SJ (r_final (sync_run tb pf fuel rs ds)).
Proof.
  intros pf fuel rs ds. unfold sync_run.
  pose proof (sync_loop_SJ pf fuel 1%Q 0 0 (setup_state tb rs [] ds) (setup_state_SJ rs [] ds)) as H.
  destruct (sync_loop tb pf fuel 1%Q 0 0 (setup_state tb rs [] ds)) as [[[t ev] steps] s]. exact H.
Qed.

End Run.
