(* Proofs about Model/Generators.v (C15), part 2: core-periphery and modular assembly over the contracts of
   the networkx primitives. *)
From Coq Require Import List ZArith QArith Bool Arith Lia.
From EpyV Require Import Lib.Prelude Model.Shuffle Model.Generators Proofs.Shuffle.
Import ListNotations.
Local Open Scope nat_scope.

(* ================================================================ lists of labels *)
Lemma zmem_In x l : zmem x l = true <-> In x l.
Proof.
  unfold zmem. rewrite existsb_exists. split.
  - intros [y [H1 H2]]. apply Z.eqb_eq in H2. subst. exact H1.
  - intros H. exists x. split; [exact H | apply Z.eqb_refl].
Qed.

Lemma nth_map_lt {A B} (f : A -> B) l j d d' : j < length l -> nth j (map f l) d' = f (nth j l d).
Proof.
  revert j. induction l as [|x l IH]; intros j H; [cbn in H; lia|].
  destruct j; cbn; [reflexivity | apply IH; cbn in H; lia].
Qed.

Lemma zseq_length a n : length (zseq a n) = n.
Proof. unfold zseq. rewrite map_length, seq_length. reflexivity. Qed.

Lemma zseq_In a n v : In v (zseq a n) <-> (a <= v < a + Z.of_nat n)%Z.
Proof.
  unfold zseq. rewrite in_map_iff. split.
  - intros [i [<- Hi]]. apply in_seq in Hi. lia.
  - intros H. exists (Z.to_nat (v - a)). split; [lia | apply in_seq; lia].
Qed.

Lemma zseq_nth a n i : i < n -> nth i (zseq a n) 0%Z = (a + Z.of_nat i)%Z.
Proof.
  intros H. unfold zseq. rewrite (nth_map_lt _ _ _ 0) by (rewrite seq_length; exact H).
  rewrite seq_nth by exact H. reflexivity.
Qed.

Lemma zseq_S a n : zseq a (S n) = a :: zseq (a + 1) n.
Proof.
  unfold zseq. cbn [seq map]. f_equal; [lia|]. rewrite <- seq_shift, map_map. apply map_ext. intros; lia.
Qed.

Lemma index_of_lt v l : In v l -> index_of v l < length l.
Proof.
  induction l as [|x l IH]; [intros []|]. intros H. cbn. destruct (x =? v)%Z eqn:E; [lia|].
  apply Z.eqb_neq in E. destruct H as [H|H]; [congruence|]. specialize (IH H). lia.
Qed.

Lemma map_relabel_self l off : NoDup l -> map (relabel l off) l = zseq off (length l).
Proof.
  revert off. induction l as [|x l IH]; intros off Hn; [reflexivity|].
  inversion Hn as [|? ? Hx Hl]; subst. cbn [length]. rewrite zseq_S. cbn [map]. f_equal.
  - unfold relabel. cbn. rewrite Z.eqb_refl. lia.
  - rewrite <- (IH (off + 1)%Z Hl). apply map_ext_in. intros v Hv. unfold relabel. cbn.
    destruct (x =? v)%Z eqn:E; [apply Z.eqb_eq in E; subst; contradiction | lia].
Qed.

Lemma relabel_range l off v : In v l -> (off <= relabel l off v < off + Z.of_nat (length l))%Z.
Proof. intros H. unfold relabel. pose proof (index_of_lt v l H). lia. Qed.

Lemma relabel_edges_In kept off es e : In e (relabel_edges kept off es) ->
  exists a b, In (a, b) es /\ In a kept /\ In b kept /\ e = (relabel kept off a, relabel kept off b).
Proof.
  unfold relabel_edges, induced. intros H. apply in_map_iff in H. destruct H as [[a b] [<- H]].
  apply filter_In in H. destruct H as [H1 H2]. apply andb_true_iff in H2. destruct H2 as [Ha Hb].
  apply zmem_In in Ha, Hb. exists a, b. cbn in *. auto.
Qed.

Lemma relabel_edges_range kept off es e : In e (relabel_edges kept off es) ->
  (off <= fst e < off + Z.of_nat (length kept))%Z /\ (off <= snd e < off + Z.of_nat (length kept))%Z.
Proof.
  intros H. apply relabel_edges_In in H. destruct H as [a [b [_ [Ha [Hb ->]]]]]. cbn [fst snd].
  split; apply relabel_range; assumption.
Qed.

(* ================================================================ paths and connectivity *)
Inductive path (es : list edge) : Z -> Z -> Prop :=
| path_refl x : path es x x
| path_step x y z : has_edge es x y = true -> path es y z -> path es x z.

Definition conn (es : list edge) (ns : list Z) : Prop := forall x y, In x ns -> In y ns -> path es x y.

Definition emap (f : Z -> Z) (es : list edge) : list edge := map (fun e => (f (fst e), f (snd e))) es.

Lemma has_edge_emap f es x y : has_edge es x y = true -> has_edge (emap f es) (f x) (f y) = true.
Proof.
  rewrite !has_edge_In. intros [[a b] [Hi Hs]]. exists (f a, f b). split.
  - unfold emap. apply in_map_iff. exists (a, b). auto.
  - apply same_edge_iff in Hs. apply same_edge_iff. destruct Hs as [[-> ->]|[-> ->]]; auto.
Qed.

Lemma path_emap f es x y : path es x y -> path (emap f es) (f x) (f y).
Proof.
  induction 1 as [x|x y z H _ IH]; [constructor|].
  eapply path_step; [apply has_edge_emap; exact H | exact IH].
Qed.

Lemma path_mono es es' x y : (forall a b, has_edge es a b = true -> has_edge es' a b = true) -> path es x y -> path es' x y.
Proof. intros Hs. induction 1 as [x|x y z H _ IH]; [constructor | eapply path_step; [apply Hs; exact H | exact IH]]. Qed.

(* a restricted, renumbered copy of a connected piece is connected *)
Lemma relabel_conn kept off es : conn (induced es kept) kept ->
  conn (relabel_edges kept off es) (map (relabel kept off) kept).
Proof.
  intros Hc x y Hx Hy. apply in_map_iff in Hx, Hy. destruct Hx as [x0 [<- Hx]]. destruct Hy as [y0 [<- Hy]].
  exact (path_emap (relabel kept off) _ _ _ (Hc x0 y0 Hx Hy)).
Qed.

(* ================================================================ core-periphery *)
Lemma cp_nodes_labels i : NoDup (cp_order i) ->
  map v_label (g_nodes (cp_generate i)) = zseq 0 (length (cp_order i)).
Proof.
  intros Hn. unfold cp_generate, cp_kept. cbn [g_nodes]. rewrite map_map. unfold v_label. cbn [fst].
  exact (map_relabel_self (cp_order i) 0%Z Hn).
Qed.

Lemma cp_edges_closed i e : In e (g_edges (cp_generate i)) ->
  In (fst e) (zseq 0 (length (cp_order i))) /\ In (snd e) (zseq 0 (length (cp_order i))).
Proof.
  unfold cp_generate, cp_kept. cbn [g_edges]. intros H. apply relabel_edges_range in H.
  rewrite !zseq_In. exact H.
Qed.

Lemma cp_origin_01 i v : In v (g_nodes (cp_generate i)) -> v_origin v = 0%Z \/ v_origin v = 1%Z.
Proof.
  unfold cp_generate. cbn [g_nodes]. intros H. apply in_map_iff in H. destruct H as [x [<- _]].
  unfold v_origin, cp_origin. cbn. destruct (x <? Z.of_nat (cp_Nc i))%Z; auto.
Qed.

(* the extractor functions return exactly the nodes carrying the mark *)
Lemma nodes_of_origin_spec g o l :
  In l (nodes_of_origin g o) <-> exists v, In v (g_nodes g) /\ v_label v = l /\ v_origin v = o.
Proof.
  unfold nodes_of_origin. rewrite in_map_iff. split.
  - intros [v [Hl Hv]]. apply filter_In in Hv. destruct Hv as [Hv Ho]. apply Z.eqb_eq in Ho. exists v. auto.
  - intros [v [Hv [Hl Ho]]]. exists v. split; [exact Hl|]. apply filter_In. split; [exact Hv | apply Z.eqb_eq; exact Ho].
Qed.

(* node j of the result is node (cp_order)[j] of the composed network, and is marked core iff that one was a core node *)
Lemma cp_node_nth i j : NoDup (cp_order i) -> j < length (cp_order i) ->
  nth j (g_nodes (cp_generate i)) (0%Z, 0%Z, false)
  = (Z.of_nat j, cp_origin (cp_Nc i) (nth j (cp_order i) 0%Z), false).
Proof.
  intros Hn Hj. unfold cp_generate, cp_kept. cbn [g_nodes].
  rewrite (nth_map_lt _ _ _ 0%Z) by exact Hj. f_equal. f_equal.
  pose proof (map_relabel_self (cp_order i) 0%Z Hn) as E.
  apply (f_equal (fun l => nth j l 0%Z)) in E. rewrite zseq_nth in E by exact Hj.
  rewrite (nth_map_lt _ _ _ 0%Z) in E by exact Hj. rewrite E. lia.
Qed.

Lemma cp_connected i : conn (induced (cp_all_edges i) (cp_order i)) (cp_order i) ->
  conn (g_edges (cp_generate i)) (map v_label (g_nodes (cp_generate i))).
Proof.
  intros Hc. unfold cp_generate, cp_kept. cbn [g_nodes g_edges]. rewrite map_map. unfold v_label. cbn [fst].
  apply relabel_conn. exact Hc.
Qed.

(* ================================================================ modular *)
Definition in_centre (Nc : nat) (v : Z) : Prop := (0 <= v < Z.of_nat Nc)%Z.
Definition in_sat (Nc Ns k : nat) (v : Z) : Prop :=
  (sat_offset Nc Ns k <= v < sat_offset Nc Ns k + Z.of_nat Ns)%Z.

Lemma sat_offset_S Nc Ns k : sat_offset Nc Ns (S k) = (sat_offset Nc Ns k + Z.of_nat Ns)%Z.
Proof. unfold sat_offset. lia. Qed.

Lemma sat_offset_mono Nc Ns k k' : k <= k' -> (sat_offset Nc Ns k <= sat_offset Nc Ns k')%Z.
Proof.
  intros H. unfold sat_offset. apply Zplus_le_compat_l. apply Z.mul_le_mono_nonneg_r; lia.
Qed.

Lemma sat_offset_ge Nc Ns k : (Z.of_nat Nc <= sat_offset Nc Ns k)%Z.
Proof. unfold sat_offset. pose proof (Z.mul_nonneg_nonneg (Z.of_nat k) (Z.of_nat Ns)). lia. Qed.

Lemma sat_centre_disjoint Nc Ns k v : in_sat Nc Ns k v -> in_centre Nc v -> False.
Proof. unfold in_sat, in_centre. pose proof (sat_offset_ge Nc Ns k). lia. Qed.

Lemma sat_sat_disjoint Nc Ns k k' v : in_sat Nc Ns k v -> in_sat Nc Ns k' v -> k = k'.
Proof.
  unfold in_sat. intros H H'.
  destruct (Nat.lt_trichotomy k k') as [L|[E|L]]; [exfalso|exact E|exfalso].
  - pose proof (sat_offset_mono Nc Ns (S k) k' L). rewrite sat_offset_S in *. lia.
  - pose proof (sat_offset_mono Nc Ns (S k') k L). rewrite sat_offset_S in *. lia.
Qed.

(* side conditions: a component of a graph on N nodes has at most N nodes; rng.choice indexes its argument *)
Fixpoint choices_ok (kc : nat) (sats : list module_in) (choices : list (nat * nat)) : Prop :=
  match sats, choices with
  | [], [] => True
  | m :: r, (ci, si) :: cs => ci < kc /\ si < length (m_order m) /\ choices_ok kc r cs
  | _, _ => False
  end.

Record mod_wf (i : mod_input) : Prop := {
  wf_centre : length (m_order (md_centre i)) <= md_Nc i;
  wf_sats : Forall (fun m => length (m_order m) <= md_Ns i) (md_sats i);
  wf_choices : choices_ok (length (m_order (md_centre i))) (md_sats i) (md_choices i)
}.

Section Modular.
  Variables (Nc Ns : nat) (kc : nat).
  Hypothesis Hkc : kc <= Nc.
  Let ns_centre := zseq 0 kc.

  Lemma module_node_in_sat k m si : length (m_order m) <= Ns -> si < length (m_order m) ->
    in_sat Nc Ns k (nth si (module_nodes Ns m (sat_offset Nc Ns k)) 0%Z).
  Proof.
    intros Hl Hs. unfold module_nodes, module_kept. rewrite zseq_nth by exact Hs. unfold in_sat. lia.
  Qed.

  Lemma centre_node_in ci : ci < kc -> in_centre Nc (nth ci ns_centre 0%Z).
  Proof. intros H. unfold ns_centre. rewrite zseq_nth by exact H. unfold in_centre. lia. Qed.

  (* every link joins a satellite node to a centre node *)
  Lemma links_from_shape k0 sats choices n m :
    Forall (fun m => length (m_order m) <= Ns) sats -> choices_ok kc sats choices ->
    In (n, m) (links_from ns_centre Nc Ns k0 sats choices) ->
    exists k, k0 <= k /\ in_sat Nc Ns k n /\ in_centre Nc m.
  Proof.
    revert k0 choices. induction sats as [|s sats IH]; intros k0 choices Hf Hc; [intros []|].
    destruct choices as [|[ci si] cs]; [intros []|]. cbn [links_from choices_ok] in *.
    destruct Hc as [Hci [Hsi Hc]]. inversion Hf as [|? ? Hs Hf']; subst.
    intros [H|H].
    - inversion H; subst. exists k0. split; [lia|]. split; [apply module_node_in_sat; assumption | apply centre_node_in; exact Hci].
    - destruct (IH (S k0) cs Hf' Hc H) as [k [Hk R]]. exists k. split; [lia | exact R].
  Qed.

  (* among the links, satellite k owns exactly one *)
  Lemma links_from_one k0 sats choices :
    Forall (fun m => length (m_order m) <= Ns) sats -> choices_ok kc sats choices ->
    forall k, k0 <= k < k0 + length sats ->
    exists n m, in_sat Nc Ns k n /\ in_centre Nc m /\ In (n, m) (links_from ns_centre Nc Ns k0 sats choices) /\
      forall x y, existsb (same_edge (x, y)) (links_from ns_centre Nc Ns k0 sats choices) = true ->
                  in_sat Nc Ns k x -> in_centre Nc y -> x = n /\ y = m.
  Proof.
    revert k0 choices. induction sats as [|s sats IH]; intros k0 choices Hf Hc k Hk; [cbn in Hk; lia|].
    destruct choices as [|[ci si] cs]; [destruct Hc|]. cbn [links_from choices_ok length] in *.
    destruct Hc as [Hci [Hsi Hc]]. inversion Hf as [|? ? Hs Hf']; subst.
    set (n0 := nth si (module_nodes Ns s (sat_offset Nc Ns k0)) 0%Z).
    set (m0 := nth ci ns_centre 0%Z).
    assert (Hn0 : in_sat Nc Ns k0 n0) by (apply module_node_in_sat; assumption).
    assert (Hm0 : in_centre Nc m0) by (apply centre_node_in; exact Hci).
    (* a later link never touches satellite k0, and no link has its centre end in a satellite *)
    assert (Hlater : forall k' x y, existsb (same_edge (x, y)) (links_from ns_centre Nc Ns (S k0) sats cs) = true ->
                       in_sat Nc Ns k' x -> in_centre Nc y -> S k0 <= k').
    { intros k' x y He Hx Hy. apply existsb_exists in He. destruct He as [[n m] [Hi Hsame]].
      destruct (links_from_shape (S k0) sats cs n m Hf' Hc Hi) as [k1 [Hk1 [Hn Hm]]].
      apply same_edge_iff in Hsame. destruct Hsame as [[-> ->]|[-> ->]].
      - rewrite (sat_sat_disjoint _ _ _ _ _ Hx Hn). exact Hk1.
      - exfalso. exact (sat_centre_disjoint _ _ _ _ Hx Hm). }
    destruct (Nat.eq_dec k k0) as [->|Hne].
    - exists n0, m0. split; [exact Hn0|]. split; [exact Hm0|]. split; [left; reflexivity|].
      intros x y He Hx Hy. cbn [existsb] in He. apply orb_true_iff in He. destruct He as [He|He].
      + apply same_edge_iff in He. destruct He as [[-> ->]|[-> ->]]; [auto|].
        exfalso. exact (sat_centre_disjoint _ _ _ _ Hx Hm0).
      + pose proof (Hlater k0 x y He Hx Hy). lia.
    - destruct (IH (S k0) cs Hf' Hc k ltac:(lia)) as [n [m [Hn [Hm [Hi Hu]]]]].
      exists n, m. split; [exact Hn|]. split; [exact Hm|]. split; [right; exact Hi|].
      intros x y He Hx Hy. cbn [existsb] in He. apply orb_true_iff in He. destruct He as [He|He].
      + exfalso. apply same_edge_iff in He. destruct He as [[-> ->]|[-> ->]].
        * apply Hne. exact (sat_sat_disjoint _ _ _ _ _ Hx Hn0).
        * exact (sat_centre_disjoint _ _ _ _ Hx Hm0).
      + exact (Hu x y He Hx Hy).
  Qed.

End Modular.

  (* the satellites' own edges stay inside their block *)
Lemma sat_edges_from_range Nc Ns k0 sats e :
    Forall (fun m => length (m_order m) <= Ns) sats -> In e (sat_edges_from Nc Ns k0 sats) ->
    exists k, k0 <= k /\ in_sat Nc Ns k (fst e) /\ in_sat Nc Ns k (snd e).
  Proof.
    revert k0. induction sats as [|s sats IH]; intros k0 Hf; [intros []|].
    inversion Hf as [|? ? Hs Hf']; subst. cbn [sat_edges_from]. intros H. apply in_app_or in H. destruct H as [H|H].
    - exists k0. split; [lia|]. unfold module_edges, module_kept in H. apply relabel_edges_range in H. unfold in_sat. lia.
    - destruct (IH (S k0) Hf' H) as [k [Hk R]]. exists k. split; [lia | exact R].
  Qed.

Lemma sat_nodes_from_blocks Nc Ns k0 sats v o :
    Forall (fun m => length (m_order m) <= Ns) sats -> In (v, o) (sat_nodes_from Nc Ns k0 sats) ->
    exists k, k0 <= k < k0 + length sats /\ o = Z.of_nat (S k) /\ in_sat Nc Ns k v.
  Proof.
    revert k0. induction sats as [|s sats IH]; intros k0 Hf; [intros []|].
    inversion Hf as [|? ? Hs Hf']; subst. cbn [sat_nodes_from length]. intros H. apply in_app_or in H. destruct H as [H|H].
    - apply in_map_iff in H. destruct H as [x [E Hx]]. inversion E; subst. exists k0. split; [lia|]. split; [reflexivity|].
      unfold module_nodes, module_kept in Hx. apply zseq_In in Hx. unfold in_sat. lia.
    - destruct (IH (S k0) Hf' H) as [k [Hk R]]. exists k. split; [lia | exact R].
  Qed.

Lemma has_edge_fold_add links : forall base x y,
  has_edge (fold_left (fun g e => add_edge g (fst e) (snd e)) links base) x y
  = has_edge base x y || existsb (same_edge (x, y)) links.
Proof.
  induction links as [|l links IH]; intros base x y; cbn [fold_left existsb]; [rewrite orb_false_r; reflexivity|].
  rewrite IH, has_edge_add, <- surjective_pairing, (same_edge_sym l), orb_assoc. reflexivity.
Qed.

Lemma mod_base_intra i x y k : mod_wf i ->
  has_edge (mod_base_edges i) x y = true -> in_sat (md_Nc i) (md_Ns i) k x -> in_centre (md_Nc i) y -> False.
Proof.
  intros [Hc Hs _] H Hx Hy. apply has_edge_In in H. destruct H as [[a b] [Hi Hsame]].
  unfold mod_base_edges in Hi. apply in_app_or in Hi.
  assert (Hcase : (in_centre (md_Nc i) a /\ in_centre (md_Nc i) b)
                  \/ exists k', in_sat (md_Nc i) (md_Ns i) k' a /\ in_sat (md_Nc i) (md_Ns i) k' b).
  { destruct Hi as [Hi|Hi].
    - left. unfold module_edges, module_kept in Hi. apply relabel_edges_range in Hi. cbn in Hi. unfold in_centre. lia.
    - right. destruct (sat_edges_from_range _ _ 0 _ _ Hs Hi) as [k' [_ R]]. exists k'. exact R. }
  apply same_edge_iff in Hsame.
  destruct Hcase as [[Ha Hb]|[k' [Ha Hb]]]; destruct Hsame as [[-> ->]|[-> ->]].
  - exact (sat_centre_disjoint _ _ _ _ Hx Ha).
  - exact (sat_centre_disjoint _ _ _ _ Hx Hb).
  - exact (sat_centre_disjoint _ _ _ _ Hb Hy).
  - exact (sat_centre_disjoint _ _ _ _ Ha Hy).
Qed.

(* each satellite is joined to the centre by exactly one edge *)
Lemma mod_one_link i : mod_wf i -> forall k, k < length (md_sats i) ->
  exists n m, in_sat (md_Nc i) (md_Ns i) k n /\ in_centre (md_Nc i) m /\ In (n, m) (mod_links i) /\
    has_edge (g_edges (mod_generate i)) n m = true /\
    forall x y, has_edge (g_edges (mod_generate i)) x y = true ->
                in_sat (md_Nc i) (md_Ns i) k x -> in_centre (md_Nc i) y -> x = n /\ y = m.
Proof.
  intros Hwf k Hk. pose proof Hwf as [Hc Hs Hch].
  destruct (links_from_one (md_Nc i) (md_Ns i) (length (m_order (md_centre i)))
              Hc 0 (md_sats i) (md_choices i) Hs Hch k ltac:(lia)) as [n [m [Hn [Hm [Hi Hu]]]]].
  exists n, m. split; [exact Hn|]. split; [exact Hm|]. split; [exact Hi|].
  unfold mod_generate. cbn [g_edges]. split.
  - rewrite has_edge_fold_add. apply orb_true_iff. right. apply existsb_exists. exists (n, m). split; [exact Hi | apply same_edge_refl].
  - intros x y H Hx Hy. rewrite has_edge_fold_add in H. apply orb_true_iff in H. destruct H as [H|H].
    + exfalso. exact (mod_base_intra i x y k Hwf H Hx Hy).
    + exact (Hu x y H Hx Hy).
Qed.

(* no edge between two different satellites *)
Lemma mod_no_sat_sat i x y k k' : mod_wf i -> has_edge (g_edges (mod_generate i)) x y = true ->
  in_sat (md_Nc i) (md_Ns i) k x -> in_sat (md_Nc i) (md_Ns i) k' y -> k = k'.
Proof.
  intros Hwf H Hx Hy. pose proof Hwf as [Hc Hs Hch]. unfold mod_generate in H. cbn [g_edges] in H.
  rewrite has_edge_fold_add in H. apply orb_true_iff in H. destruct H as [H|H].
  - apply has_edge_In in H. destruct H as [[a b] [Hi Hsame]]. unfold mod_base_edges in Hi. apply in_app_or in Hi.
    apply same_edge_iff in Hsame. destruct Hi as [Hi|Hi].
    + exfalso. unfold module_edges, module_kept in Hi. apply relabel_edges_range in Hi. cbn in Hi.
      assert (Ha : in_centre (md_Nc i) a) by (unfold in_centre; lia).
      assert (Hb : in_centre (md_Nc i) b) by (unfold in_centre; lia).
      destruct Hsame as [[E1 E2]|[E1 E2]]; rewrite E1 in Hx.
      * exact (sat_centre_disjoint _ _ _ _ Hx Ha).
      * exact (sat_centre_disjoint _ _ _ _ Hx Hb).
    + destruct (sat_edges_from_range _ _ 0 _ _ Hs Hi) as [k1 [_ [Ha Hb]]].
      destruct Hsame as [[-> ->]|[-> ->]].
      * rewrite (sat_sat_disjoint _ _ _ _ _ Hx Ha). exact (sat_sat_disjoint _ _ _ _ _ Hb Hy).
      * rewrite (sat_sat_disjoint _ _ _ _ _ Hx Hb). exact (sat_sat_disjoint _ _ _ _ _ Ha Hy).
  - exfalso. apply existsb_exists in H. destruct H as [[n m] [Hi Hsame]].
    destruct (links_from_shape (md_Nc i) (md_Ns i) (length (m_order (md_centre i)))
                Hc 0 _ _ n m Hs Hch Hi) as [k1 [_ [Hn Hm]]].
    apply same_edge_iff in Hsame. destruct Hsame as [[E1 E2]|[E1 E2]].
    + rewrite E2 in Hy. exact (sat_centre_disjoint _ _ _ _ Hy Hm).
    + rewrite E1 in Hx. exact (sat_centre_disjoint _ _ _ _ Hx Hm).
Qed.

(* the core-link flag sits on the endpoints of the links and nowhere else *)
Lemma mod_flags i v : In v (g_nodes (mod_generate i)) ->
  (v_flag v = true <-> exists l, In l (mod_links i) /\ (fst l = v_label v \/ snd l = v_label v)).
Proof.
  unfold mod_generate. cbn [g_nodes]. intros H. apply in_map_iff in H. destruct H as [p [<- _]].
  unfold v_flag, v_label, is_endpoint. cbn [fst snd]. rewrite existsb_exists. split.
  - intros [l [Hl Ho]]. exists l. split; [exact Hl|]. apply orb_true_iff in Ho. rewrite !Z.eqb_eq in Ho. exact Ho.
  - intros [l [Hl Ho]]. exists l. split; [exact Hl|]. apply orb_true_iff. rewrite !Z.eqb_eq. exact Ho.
Qed.

(* the origin mark says which block a node lives in *)
Lemma mod_origin_blocks i v : mod_wf i -> In v (g_nodes (mod_generate i)) ->
  (v_origin v = 0%Z /\ in_centre (md_Nc i) (v_label v))
  \/ exists k, k < length (md_sats i) /\ v_origin v = Z.of_nat (S k) /\ in_sat (md_Nc i) (md_Ns i) k (v_label v).
Proof.
  intros [Hc Hs _]. unfold mod_generate. cbn [g_nodes]. intros H. apply in_map_iff in H. destruct H as [[x o] [<- H]].
  unfold v_origin, v_label. cbn [fst snd]. unfold mod_base_nodes in H. apply in_app_or in H. destruct H as [H|H].
  - left. apply in_map_iff in H. destruct H as [x0 [E Hx]]. inversion E; subst. split; [reflexivity|].
    unfold mod_centre_nodes, module_nodes, module_kept in Hx. apply zseq_In in Hx. unfold in_centre. lia.
  - right. destruct (sat_nodes_from_blocks _ _ 0 _ _ _ Hs H) as [k [Hk R]]. exists k. split; [lia | exact R].
Qed.

(* every module is connected by its own edges, which are edges of the result *)
Lemma module_conn N m off : conn (induced (m_edges m) (m_order m)) (m_order m) -> NoDup (m_order m) ->
  conn (module_edges N m off) (module_nodes N m off).
Proof.
  intros Hc Hn. unfold module_edges, module_nodes, module_kept. rewrite <- (map_relabel_self (m_order m) off Hn).
  apply relabel_conn. exact Hc.
Qed.

Lemma mod_base_in_result i x y : has_edge (mod_base_edges i) x y = true -> has_edge (g_edges (mod_generate i)) x y = true.
Proof. intros H. unfold mod_generate. cbn [g_edges]. rewrite has_edge_fold_add, H. reflexivity. Qed.

Lemma sat_edges_from_nth Nc Ns sats : forall k0 k m x y, nth_error sats k = Some m ->
  has_edge (module_edges Ns m (sat_offset Nc Ns (k0 + k))) x y = true -> has_edge (sat_edges_from Nc Ns k0 sats) x y = true.
Proof.
  induction sats as [|s sats IH]; intros k0 k m x y Hn H; [destruct k; discriminate|].
  cbn [sat_edges_from]. rewrite has_edge_app. apply orb_true_iff. destruct k as [|k].
  - left. cbn in Hn. inversion Hn; subst. rewrite Nat.add_0_r in H. exact H.
  - right. cbn in Hn. apply (IH (S k0) k m); [exact Hn|]. rewrite Nat.add_succ_comm. exact H.
Qed.

Lemma mod_modules_connected i :
  (conn (induced (m_edges (md_centre i)) (m_order (md_centre i))) (m_order (md_centre i)) -> NoDup (m_order (md_centre i)) ->
   conn (g_edges (mod_generate i)) (mod_centre_nodes i))
  /\ forall k m, nth_error (md_sats i) k = Some m ->
       conn (induced (m_edges m) (m_order m)) (m_order m) -> NoDup (m_order m) ->
       conn (g_edges (mod_generate i)) (module_nodes (md_Ns i) m (sat_offset (md_Nc i) (md_Ns i) k)).
Proof.
  split.
  - intros Hc Hn x y Hx Hy. apply (path_mono (module_edges (md_Nc i) (md_centre i) 0)).
    + intros a b H. apply mod_base_in_result. unfold mod_base_edges. rewrite has_edge_app, H. reflexivity.
    + exact (module_conn _ _ _ Hc Hn x y Hx Hy).
  - intros k m Hk Hc Hn x y Hx Hy. apply (path_mono (module_edges (md_Ns i) m (sat_offset (md_Nc i) (md_Ns i) k))).
    + intros a b H. apply mod_base_in_result. unfold mod_base_edges. rewrite has_edge_app. apply orb_true_iff. right.
      apply (sat_edges_from_nth _ _ _ 0 k m); [exact Hk | exact H].
    + exact (module_conn _ _ _ Hc Hn x y Hx Hy).
Qed.
