(* SIR_VariableInfection, the remaining run-level theorems lifted to the dynamic kernel: final statements.
     C08: the contact-forest invariant [Forest] of Proofs/ContactInv.v - the SAME predicate, at the table
          [vi_fcm vm] that lists infect as an event on the SI locus - along every run of
          [mk_vitable vm ...] under both dynamics, and what follows from it;
     C07: quiescence of the Gillespie loop, the counts of the final state, and the transition diagram
          for ALL calls of the posted-removal subclass.
   Since [VForest w] IS [Forest (vi_fcm vm) nodes edges init (vi_base w)], the state-level theorems of
   Properties/C08.v that take a [Forest] hypothesis (C08_forest_meaning, C08_unique_parent,
   C08_one_hit_per_node, C08_hit_nodes, C08_infector_earlier, C08_acyclic, C08_forest_list) apply verbatim;
   the most used ones are restated here for convenience.
   Hypotheses: [wf_model (vi_fcm vm)], [once_model (vi_fcm vm)] (booleans; true of the shipped class and of
   the posted-removal subclass: CVI8_shipped), [graph_okb], [init_ok]. *)
From Coq Require Import List ZArith QArith Bool Arith Lia Relations Sorted.
From EpyV Require Import Lib.Prelude Model.Kernel Model.KernelDyn Model.Loci Model.Compart Model.CompartVI
  Proofs.KernelBase Proofs.KernelMember Proofs.KernelSync Proofs.LociBase Proofs.LociLocus Proofs.LociInv
  Proofs.CompartRun Proofs.CompartSort Proofs.CompartInv Proofs.CompartDiagram
  Proofs.ContactBase Proofs.ContactForest Proofs.ContactInv Proofs.ContactSync
  Proofs.KernelDyn Proofs.KernelDynLoops Proofs.KernelDynRun Proofs.CompartVI
  Proofs.CompartVIQuiet Proofs.CompartVIPost Proofs.ContactVI Proofs.ContactVITime.
Import ListNotations.
Open Scope Q_scope.

(* ================================================================== the tables *)
Theorem CVI8_shipped : forall p,
  wf_model (vi_fcm (sir_vi p)) = true /\ once_model (vi_fcm (sir_vi p)) = true /\ sus (vi_fcm (sir_vi p)) = [3]%Z
  /\ (forall T, 0 <= T -> wf_model (vi_fcm (sir_vi_gen p (Some T))) = true /\ once_model (vi_fcm (sir_vi_gen p (Some T))) = true).
Proof.
  intros p. split; [reflexivity|]. split; [reflexivity|]. split; [reflexivity|]. intros T HT.
  apply Qle_bool_iff in HT. split; [|reflexivity]. unfold wf_model. cbn. rewrite HT. reflexivity.
Qed.
Print Assumptions CVI8_shipped.

(* the invariant is the one of Properties/C08.v *)
Theorem CVI8_forest_is_forest : forall vm nodes edges init (w : viworld),
  VForest vm nodes edges init w <-> Forest (vi_fcm vm) nodes edges init (vi_base w).
Proof. intros. reflexivity. Qed.
Print Assumptions CVI8_forest_is_forest.

(* ================================================================== C08_forest_inv *)
(* after set-up, at the final state, and on the state every call of the run was entered on: any run
   (a DSteps sequence; every run of either loop is one: CVI_vi_stoch_run, CVI_vi_sync_run) *)
Theorem CVI8_forest_inv : forall vm nodes edges init inf maxtime monitor Xtr rs ls ds cs (s : st viworld),
  let D := mk_vitable vm nodes edges init inf maxtime monitor in
  wf_model (vi_fcm vm) = true -> once_model (vi_fcm vm) = true -> graph_okb nodes edges = true -> init_ok (vi_fcm vm) nodes init = true ->
  DSteps D Xtr (setup_state (d_tb D) rs ls ds) cs s ->
  VForest vm nodes edges init (world s) /\ Forall (fun sc => VForest vm nodes edges init (world (fst sc))) cs.
Proof.
  intros vm nodes edges init inf maxtime monitor Xtr rs ls ds cs s D Hwf Ho Hg Hi H.
  destruct (KV_dsteps vm nodes edges init inf maxtime monitor Xtr rs ls ds cs s Hwf Ho Hg Hi H) as [A B].
  split; [exact (proj2 (proj2 A))|]. eapply Forall_impl; [|exact B]. intros sc Hk. exact (proj2 (proj2 Hk)).
Qed.
Print Assumptions CVI8_forest_inv.

Theorem CVI8_forest_inv_call : forall vm nodes edges init inf maxtime monitor Xtr (s : st viworld) c,
  let D := mk_vitable vm nodes edges init inf maxtime monitor in
  wf_model (vi_fcm vm) = true -> once_model (vi_fcm vm) = true ->
  KV vm nodes edges init s -> dcall_ok D Xtr c s -> KV vm nodes edges init (dafter D c s).
Proof. intros vm nodes edges init inf maxtime monitor Xtr s c D. exact (KV_dafter vm nodes edges init inf maxtime monitor Xtr s c). Qed.
Print Assumptions CVI8_forest_inv_call.

Theorem CVI8_forest_final_stoch : forall vm nodes edges init inf maxtime monitor pf fuel rs ls ds,
  wf_model (vi_fcm vm) = true -> once_model (vi_fcm vm) = true -> graph_okb nodes edges = true -> init_ok (vi_fcm vm) nodes init = true ->
  VForest vm nodes edges init (world (r_final (dstoch_run (mk_vitable vm nodes edges init inf maxtime monitor) pf fuel rs ls ds))).
Proof.
  intros vm nodes edges init inf maxtime monitor pf fuel rs ls ds Hwf Ho Hg Hi.
  destruct (vi_stoch_run_steps vm nodes edges init inf maxtime monitor pf fuel rs ls ds) as [cs H].
  exact (proj1 (CVI8_forest_inv vm nodes edges init inf maxtime monitor _ rs ls ds cs _ Hwf Ho Hg Hi H)).
Qed.
Print Assumptions CVI8_forest_final_stoch.

Theorem CVI8_forest_final_sync : forall vm nodes edges init inf maxtime monitor pf fuel rs ds,
  wf_model (vi_fcm vm) = true -> once_model (vi_fcm vm) = true -> graph_okb nodes edges = true -> init_ok (vi_fcm vm) nodes init = true ->
  VForest vm nodes edges init (world (r_final (dsync_run (mk_vitable vm nodes edges init inf maxtime monitor) pf fuel rs ds))).
Proof.
  intros vm nodes edges init inf maxtime monitor pf fuel rs ds Hwf Ho Hg Hi.
  destruct (vi_sync_run_steps vm nodes edges init inf maxtime monitor pf fuel rs ds) as [cs H].
  exact (proj1 (CVI8_forest_inv vm nodes edges init inf maxtime monitor _ rs [] ds cs _ Hwf Ho Hg Hi H)).
Qed.
Print Assumptions CVI8_forest_final_sync.

(* ================================================================== what the invariant gives (restated) *)
Theorem CVI8_unique_parent : forall vm nodes edges init (w : viworld) n t, VForest vm nodes edges init w ->
  In (n, t) (cw_hit (vi_base w)) ->
  exists m, In (n, m, t) (cw_occ (vi_base w)) /\ forall m' t', In (n, m', t') (cw_occ (vi_base w)) -> m' = m /\ t' = t.
Proof. intros vm nodes edges init w n t. exact (unique_parent (vi_fcm vm) nodes edges init (vi_base w) n t). Qed.
Print Assumptions CVI8_unique_parent.

Theorem CVI8_one_hit_per_node : forall vm nodes edges init (w : viworld), VForest vm nodes edges init w ->
  NoDup (map fst (cw_hit (vi_base w))).
Proof. intros vm nodes edges init w. exact (hit_NoDup (vi_fcm vm) nodes edges init (vi_base w)). Qed.
Print Assumptions CVI8_one_hit_per_node.

Theorem CVI8_hit_nodes : forall vm nodes edges init (w : viworld), VForest vm nodes edges init w ->
  (forall n, In n (map fst (cw_hit (vi_base w))) <-> In n (map child (cw_occ (vi_base w))))
  /\ (forall n t, In (n, t) (cw_hit (vi_base w)) ->
        exists c, In c (sus (vi_fcm vm)) /\ getc (Loci.setup (vim_specs vm) nodes edges init) n = Some c)
  /\ (forall v c, getc (cw_st (vi_base w)) v = Some c -> In c (sus (vi_fcm vm)) ->
        forall x, In x (cw_occ (vi_base w)) -> child x <> v /\ parent x <> v).
Proof.
  intros vm nodes edges init w F. split; [intro n; exact (hit_iff_child (vi_fcm vm) nodes edges init (vi_base w) n F)|].
  split; [intros n t; exact (hit_not_seed (vi_fcm vm) nodes edges init (vi_base w) n t F) | exact (proj1 F)].
Qed.
Print Assumptions CVI8_hit_nodes.

Theorem CVI8_acyclic : forall vm nodes edges init (w : viworld), VForest vm nodes edges init w ->
  let P := par (cw_occ (vi_base w)) in
  (forall n m m' t t', In (n, m, t) (cw_occ (vi_base w)) -> In (n, m', t') (cw_occ (vi_base w)) -> m = m' /\ t = t')
  /\ (forall n, ~ clos_trans Z P n n)
  /\ (forall n, In n (map fst (cw_hit (vi_base w))) -> exists r, clos_refl_trans Z P n r /\ ~ In r (map fst (cw_hit (vi_base w))))
  /\ forestL (cw_occ (vi_base w)).
Proof.
  intros vm nodes edges init w F. pose proof (proj1 (proj2 (proj2 (proj2 F)))) as F5. cbv zeta.
  split; [exact (forestL_functional _ F5)|]. split; [exact (forestL_acyclic _ F5)|]. split; [|exact F5].
  intros n Hn. apply (hit_iff_child (vi_fcm vm) nodes edges init (vi_base w) n F) in Hn. destruct (forestL_root _ F5 n Hn) as [r [P R]].
  exists r. split; [exact P|]. intros Hr. apply R. apply (hit_iff_child (vi_fcm vm) nodes edges init (vi_base w) r F). exact Hr.
Qed.
Print Assumptions CVI8_acyclic.

(* skeletonise() = the full node set with exactly the occupied edges *)
Theorem CVI8_skeleton : forall vm nodes edges init inf maxtime monitor Xtr rs ls ds cs (s : st viworld),
  let D := mk_vitable vm nodes edges init inf maxtime monitor in
  wf_model (vi_fcm vm) = true -> once_model (vi_fcm vm) = true -> graph_okb nodes edges = true -> init_ok (vi_fcm vm) nodes init = true ->
  DSteps D Xtr (setup_state (d_tb D) rs ls ds) cs s ->
  let w := vi_base (world s) in
  fst (skeleton w) = nodes
  /\ (forall e, In e (snd (skeleton w)) <-> In e edges /\ exists x, In x (cw_occ w) /\ (e = (child x, parent x) \/ e = (parent x, child x)))
  /\ (forall x, In x (cw_occ w) -> In (child x, parent x) (snd (skeleton w)) \/ In (parent x, child x) (snd (skeleton w))).
Proof.
  intros vm nodes edges init inf maxtime monitor Xtr rs ls ds cs s D Hwf Ho Hg Hi H. cbv zeta.
  destruct (KV_dsteps vm nodes edges init inf maxtime monitor Xtr rs ls ds cs s Hwf Ho Hg Hi H) as [((_ & _ & Hn & He & _) & _ & F) _].
  destruct (skeleton_spec (vi_fcm vm) nodes edges init maxtime monitor (vi_base (world s)) F He) as (A & B & C).
  split; [rewrite A; exact Hn | split; [exact B | exact C]].
Qed.
Print Assumptions CVI8_skeleton.

(* ================================================================== C08_event_time, C08_occupied_are_infections *)
(* every occupied edge (n, m, t) - and with it the hitting time t of n - was recorded by an event function
   entered from the scheduler (never a posted one) on that very pair, on a state whose clock was t, on a
   member of its locus: event time = tOccupied = tHitting *)
Theorem CVI8_event_time : forall vm nodes edges init inf maxtime monitor Xtr rs ls ds cs (s : st viworld) n m t,
  let D := mk_vitable vm nodes edges init inf maxtime monitor in
  wf_model (vi_fcm vm) = true -> once_model (vi_fcm vm) = true -> graph_okb nodes edges = true -> init_ok (vi_fcm vm) nodes init = true ->
  DSteps D Xtr (setup_state (d_tb D) rs ls ds) cs s -> In (n, m, t) (cw_occ (vi_base (world s))) ->
  exists sc, In sc cs /\ (forall hh, snd sc <> DPost hh) /\ snd (fst (dcall_args (snd sc))) = t /\ snd (dcall_args (snd sc)) = EE n m
    /\ clock (fst sc) = t /\ dcall_ok D Xtr (snd sc) (fst sc).
Proof. intros vm nodes edges init inf maxtime monitor Xtr rs ls ds cs s n m t D. exact (vocc_event_time vm nodes edges init inf maxtime monitor Xtr rs ls ds cs s n m t). Qed.
Print Assumptions CVI8_event_time.

Theorem CVI8_occupied_are_infections : forall vm nodes edges init inf maxtime monitor Xtr rs ls ds cs (s : st viworld),
  let D := mk_vitable vm nodes edges init inf maxtime monitor in
  wf_model (vi_fcm vm) = true -> once_model (vi_fcm vm) = true -> graph_okb nodes edges = true -> init_ok (vi_fcm vm) nodes init = true ->
  DSteps D Xtr (setup_state (d_tb D) rs ls ds) cs s -> cw_occ (vi_base (world s)) = vinfections vm cs.
Proof. intros vm nodes edges init inf maxtime monitor Xtr rs ls ds cs s D. exact (occ_is_vinfections vm nodes edges init inf maxtime monitor Xtr rs ls ds cs s). Qed.
Print Assumptions CVI8_occupied_are_infections.

(* ================================================================== C08_times_increase *)
Theorem CVI8_times_increase : forall (R : Q -> Q -> Prop) vm nodes edges init inf maxtime monitor Xtr rs ls ds cs (s : st viworld),
  let D := mk_vitable vm nodes edges init inf maxtime monitor in
  wf_model (vi_fcm vm) = true -> once_model (vi_fcm vm) = true -> graph_okb nodes edges = true -> init_ok (vi_fcm vm) nodes init = true ->
  DSteps D Xtr (setup_state (d_tb D) rs ls ds) cs s -> StronglySorted R (map snd (vinfections vm cs)) ->
  forall n m t t', In (n, m, t) (cw_occ (vi_base (world s))) -> In (m, t') (cw_hit (vi_base (world s))) -> R t' t.
Proof. intros R vm nodes edges init inf maxtime monitor Xtr rs ls ds cs s D. exact (vtimes_along_tree vm nodes edges init inf maxtime monitor R Xtr rs ls ds cs s). Qed.
Print Assumptions CVI8_times_increase.

(* STRICTLY later, synchronous dynamics: every synchronous run whatsoever (any oracle, any fuel, stuck or not) *)
Theorem CVI8_times_strict_sync : forall vm nodes edges init inf maxtime monitor pf fuel rs ds,
  wf_model (vi_fcm vm) = true -> once_model (vi_fcm vm) = true -> graph_okb nodes edges = true -> init_ok (vi_fcm vm) nodes init = true ->
  let w := vi_base (world (r_final (dsync_run (mk_vitable vm nodes edges init inf maxtime monitor) pf fuel rs ds))) in
  forall n m t t', In (n, m, t) (cw_occ w) -> In (m, t') (cw_hit w) -> t' < t.
Proof.
  intros vm nodes edges init inf maxtime monitor pf fuel rs ds Hwf Ho Hg Hi.
  exact (vstrict_sync vm nodes edges init inf maxtime monitor Hwf Ho pf fuel rs ds Hg Hi).
Qed.
Print Assumptions CVI8_times_strict_sync.

(* STRICTLY later, Gillespie dynamics: probabilities and infectivities >= 0, every ln(1/r) served > 0, and a run
   that did not exhaust its fuel or oracle *)
Theorem CVI8_times_strict_stoch : forall vm nodes edges init inf maxtime monitor pf fuel rs ls ds,
  wf_model (vi_fcm vm) = true -> once_model (vi_fcm vm) = true -> graph_okb nodes edges = true -> init_ok (vi_fcm vm) nodes init = true ->
  (forall ev, In ev (vim_events vm) -> 0 <= ce_p ev) -> (forall x, In x inf -> 0 <= snd x) -> Forall (Qlt 0) ls ->
  let r := dstoch_run (mk_vitable vm nodes edges init inf maxtime monitor) pf fuel rs ls ds in
  r_stuck r = false ->
  forall n m t t', In (n, m, t) (cw_occ (vi_base (world (r_final r)))) -> In (m, t') (cw_hit (vi_base (world (r_final r)))) -> t' < t.
Proof.
  intros vm nodes edges init inf maxtime monitor pf fuel rs ls ds Hwf Ho Hg Hi Hp Hq Hls.
  exact (vstrict_stoch vm nodes edges init inf maxtime monitor Hwf Ho (conj Hp Hq) pf fuel rs ls ds Hg Hi Hls).
Qed.
Print Assumptions CVI8_times_strict_stoch.

(* ================================================================== C07: quiescence *)
Theorem CVI7_infectivity_constant : forall vm nodes edges init inf maxtime monitor Xtr rs ls ds cs (s : st viworld),
  let D := mk_vitable vm nodes edges init inf maxtime monitor in
  DSteps D Xtr (setup_state (d_tb D) rs ls ds) cs s -> vi_inf (world s) = inf /\ Forall (fun sc => vi_inf (world (fst sc)) = inf) cs.
Proof. intros vm nodes edges init inf maxtime monitor Xtr rs ls ds cs s D. exact (inf_const_dsteps vm nodes edges init inf maxtime monitor Xtr rs ls ds cs s). Qed.
Print Assumptions CVI7_infectivity_constant.

(* the exit of the Gillespie loop through a = 0 with nothing pending ... *)
Theorem CVI7_quiescent_exit : forall vm nodes edges init inf maxtime monitor pf f t ev (s : st viworld),
  let D := mk_vitable vm nodes edges init inf maxtime monitor in
  at_equil (d_tb D) t s = false -> Qeq_bool (dsum_rates s (dtransitions D (loci s) (world s))) 0 = true ->
  head (queue (discard s)) = None -> dstoch_loop D pf (S f) t ev s = (t, ev, discard s).
Proof. intros vm nodes edges init inf maxtime monitor pf f t ev s D. exact (dstoch_loop_quiescent_exit vm nodes edges init inf maxtime monitor pf f t ev s). Qed.
Print Assumptions CVI7_quiescent_exit.

(* ... happens only when every edge in the SI locus has infectivity 0 and every registered per-element event
   of positive probability has an empty locus *)
Theorem CVI7_quiescent : forall vm nodes edges init inf maxtime monitor (s : st viworld),
  let D := mk_vitable vm nodes edges init inf maxtime monitor in
  vi_nonneg vm (world s) -> Qeq_bool (dsum_rates s (dtransitions D (loci s) (world s))) 0 = true ->
  (forall e, In e (nth (vim_si vm) (loci s) []) -> de_p (vi_entry vm (world s) e) == 0)
  /\ (forall cev, In cev (vim_events vm) -> ce_elem cev = true -> 0 < ce_p cev -> locus s (ce_locus cev) = []).
Proof. intros vm nodes edges init inf maxtime monitor s D. exact (vi_quiescent vm nodes edges init inf maxtime monitor s). Qed.
Print Assumptions CVI7_quiescent.

(* with the run invariant: no S-I edge of the network with positive infectivity ... *)
Theorem CVI7_quiescent_no_edge : forall vm nodes edges init inf maxtime monitor (s : st viworld) l r,
  let D := mk_vitable vm nodes edges init inf maxtime monitor in
  VJ vm nodes edges s -> vi_nonneg vm (world s) -> Qeq_bool (dsum_rates s (dtransitions D (loci s) (world s))) 0 = true ->
  (vim_si vm < length (vim_specs vm))%nat -> nth (vim_si vm) (vim_specs vm) default_spec = EdgeLocus l r -> Z.eqb l r = false ->
  forall n m, In (n, m) edges \/ In (m, n) edges ->
  getc (cw_st (vi_base (world s))) n = Some l -> getc (cw_st (vi_base (world s))) m = Some r ->
  forall p, infectivity (vi_inf (world s)) n m = Some p -> p == 0.
Proof. intros vm nodes edges init inf maxtime monitor s l r D. exact (vi_quiescent_no_edge vm nodes edges init inf maxtime monitor s l r). Qed.
Print Assumptions CVI7_quiescent_no_edge.

(* ... and, when pRemove > 0, no infected node *)
Theorem CVI7_quiescent_no_node : forall vm nodes edges init inf maxtime monitor (s : st viworld) cev c,
  let D := mk_vitable vm nodes edges init inf maxtime monitor in
  VJ vm nodes edges s -> vi_nonneg vm (world s) -> Qeq_bool (dsum_rates s (dtransitions D (loci s) (world s))) 0 = true ->
  In cev (vim_events vm) -> ce_elem cev = true -> 0 < ce_p cev -> (ce_locus cev < length (vim_specs vm))%nat ->
  nth (ce_locus cev) (vim_specs vm) default_spec = NodeLocus c ->
  forall v, In v nodes -> getc (cw_st (vi_base (world s))) v <> Some c.
Proof. intros vm nodes edges init inf maxtime monitor s cev c D. exact (vi_quiescent_no_node vm nodes edges init inf maxtime monitor s cev c). Qed.
Print Assumptions CVI7_quiescent_no_node.

(* ================================================================== C07: the counts of the final state *)
Theorem CVI7_counts_stoch : forall vm nodes edges init inf maxtime monitor pf fuel rs ls ds,
  wf_loci (vim_specs vm) = true -> graph_okb nodes edges = true -> init_ok (vi_cm vm) nodes init = true ->
  let st := cw_st (vi_base (world (r_final (dstoch_run (mk_vitable vm nodes edges init inf maxtime monitor) pf fuel rs ls ds)))) in
  st_nodes st = nodes /\ (forall v, In v nodes -> exists c, getc st v = Some c /\ In c (cm_comps (vi_cm vm)))
  /\ NoDup (cm_comps (vi_cm vm)) /\ lsum (map (count_in st) (cm_comps (vi_cm vm))) = length nodes.
Proof.
  intros vm nodes edges init inf maxtime monitor pf fuel rs ls ds Hwf Hg Hi. cbv zeta.
  destruct (vi_stoch_run_steps vm nodes edges init inf maxtime monitor pf fuel rs ls ds) as [cs H].
  destruct (VJ_dsteps vm nodes edges init inf maxtime monitor _ rs ls ds cs _ Hwf Hg Hi H) as [Hj _].
  destruct (vi_partition vm nodes edges _ Hj) as (A & _ & B & C & E). tauto.
Qed.
Print Assumptions CVI7_counts_stoch.

Theorem CVI7_counts_sync : forall vm nodes edges init inf maxtime monitor pf fuel rs ds,
  wf_loci (vim_specs vm) = true -> graph_okb nodes edges = true -> init_ok (vi_cm vm) nodes init = true ->
  let st := cw_st (vi_base (world (r_final (dsync_run (mk_vitable vm nodes edges init inf maxtime monitor) pf fuel rs ds)))) in
  st_nodes st = nodes /\ (forall v, In v nodes -> exists c, getc st v = Some c /\ In c (cm_comps (vi_cm vm)))
  /\ NoDup (cm_comps (vi_cm vm)) /\ lsum (map (count_in st) (cm_comps (vi_cm vm))) = length nodes.
Proof.
  intros vm nodes edges init inf maxtime monitor pf fuel rs ds Hwf Hg Hi. cbv zeta.
  destruct (vi_sync_run_steps vm nodes edges init inf maxtime monitor pf fuel rs ds) as [cs H].
  destruct (VJ_dsteps vm nodes edges init inf maxtime monitor _ rs [] ds cs _ Hwf Hg Hi H) as [Hj _].
  destruct (vi_partition vm nodes edges _ Hj) as (A & _ & B & C & E). tauto.
Qed.
Print Assumptions CVI7_counts_sync.

(* ================================================================== C07: the diagram for ALL calls of the posted-removal subclass *)
(* [sir_vi_gen p (Some T)]: every call of a run - registered event, appended entry, or posted (remove on a seed,
   Monitor.observe) - changes compartments only along S > I (3 > 1) or I > R (1 > 2) *)
Theorem CVI7_posted_removal_diagram : forall p T nodes edges init inf maxtime monitor Xtr rs ls ds cs (s : st viworld),
  let D := mk_vitable (sir_vi_gen p (Some T)) nodes edges init inf maxtime monitor in
  graph_okb nodes edges = true -> init_ok (vi_cm (sir_vi_gen p (Some T))) nodes init = true ->
  DSteps D Xtr (setup_state (d_tb D) rs ls ds) cs s ->
  forall s1 c, In (s1, c) cs -> forall v,
  getc (cw_st (vi_base (world (dafter D c s1)))) v <> getc (cw_st (vi_base (world s1))) v ->
  exists l c', getc (cw_st (vi_base (world s1))) v = Some l /\ getc (cw_st (vi_base (world (dafter D c s1)))) v = Some c'
    /\ In (l, c') [(1, 2); (3, 1)]%Z.
Proof. intros p T nodes edges init inf maxtime monitor Xtr rs ls ds cs s D. exact (post_run_diagram p T nodes edges init inf maxtime monitor Xtr rs ls ds cs s). Qed.
Print Assumptions CVI7_posted_removal_diagram.

(* the invariant behind it: only Monitor.observe and remove-on-a-seed are ever queued; a seed is infected or removed *)
Theorem CVI7_posted_removal_inv : forall p T nodes edges init inf maxtime monitor Xtr rs ls ds cs (s : st viworld),
  let D := mk_vitable (sir_vi_gen p (Some T)) nodes edges init inf maxtime monitor in
  graph_okb nodes edges = true -> init_ok (vi_cm (sir_vi_gen p (Some T))) nodes init = true ->
  DSteps D Xtr (setup_state (d_tb D) rs ls ds) cs s ->
  JP p T nodes edges init s /\ Forall (fun sc => JP p T nodes edges init (fst sc)) cs.
Proof. intros p T nodes edges init inf maxtime monitor Xtr rs ls ds cs s D. exact (JP_dsteps p T nodes edges init inf maxtime monitor Xtr rs ls ds cs s). Qed.
Print Assumptions CVI7_posted_removal_inv.

(* ================================================================== non-vacuity *)
(* path 0 - 1 - 2, node 0 infected; infectivities 1/2 on (0,1), 1/4 on (1,2); pRemove = 1/4 *)
Definition ex8 (mon : option Q) : dtable viworld :=
  mk_vitable (sir_vi (1#4)) [0; 1; 2]%Z [(0, 1); (1, 2)]%Z [(0, 1); (1, 3); (2, 3)]%Z
             (initial_infectivities [(0, 1); (1, 2)]%Z [1#2; 1#4]) 5 mon.

Example CVI8_example_hyps :
  wf_model (vi_fcm (sir_vi (1#4))) = true /\ once_model (vi_fcm (sir_vi (1#4))) = true
  /\ graph_okb [0; 1; 2]%Z [(0, 1); (1, 2)]%Z = true /\ init_ok (vi_fcm (sir_vi (1#4))) [0; 1; 2]%Z [(0, 1); (1, 3); (2, 3)]%Z = true.
Proof. repeat split. Qed.
Print Assumptions CVI8_example_hyps.

(* Gillespie: 0 infects 1 at 1/2, 0 is removed at 3/2, 1 infects 2 at 7/2 *)
Example CVI8_example_stoch :
  let r := dstoch_run (ex8 None) 50 50 [1#2; 1#2; 1#2; 1#2; 1#2; 1#2; 1#2; 1#2] [3#8; 3#4; 1; 3] [0%nat; 0%nat] in
  let w := vi_base (world (r_final r)) in
  r_stuck r = false /\ cw_occ w = [((1, 0)%Z, 1 # 2); ((2, 1)%Z, 7 # 2)] /\ cw_hit w = [(1%Z, 1 # 2); (2%Z, 7 # 2)]
  /\ skeleton w = ([0; 1; 2], [(0, 1); (1, 2)])%Z /\ Forall (Qlt 0) [3#8; 3#4; 1; 3].
Proof. cbv zeta. repeat split; try (vm_compute; reflexivity). repeat constructor. Qed.
Print Assumptions CVI8_example_stoch.

(* synchronous: 0 infects 1 in step 1, 1 infects 2 in step 2 *)
Example CVI8_example_sync :
  let r := dsync_run (ex8 None) 50 50 [1#2; 1#4; 1#2; 1#2; 1#8; 1#2; 1#2; 1#2; 1#2; 1#2; 1#2; 1#2; 1#2] [] in
  let w := vi_base (world (r_final r)) in
  r_stuck r = false /\ cw_occ w = [((1, 0)%Z, 1); ((2, 1)%Z, 2)] /\ cw_hit w = [(1%Z, 1); (2%Z, 2)]
  /\ skeleton w = ([0; 1; 2], [(0, 1); (1, 2)])%Z.
Proof. cbv zeta. repeat split; vm_compute; reflexivity. Qed.
Print Assumptions CVI8_example_sync.

(* quiescence: path 0 - 1, node 0 infected, infectivity 0 on the edge, pRemove = 1: the only possible event is the
   removal of 0 (at time 1); then the total rate is 0 with nothing pending and the loop exits at 1 < maximumTime,
   with no infected node and no S-I edge *)
Example CVI7_example_quiescent :
  let D := mk_vitable (sir_vi 1) [0; 1]%Z [(0, 1)]%Z [(0, 1); (1, 3)]%Z (initial_infectivities [(0, 1)]%Z [0]) 3 None in
  let r := dstoch_run D 50 50 [1#2; 1#2; 1#2] [1; 1] [0%nat] in
  r_stuck r = false /\ r_time r = 1 /\ r_events r = 1%nat
  /\ loci (r_final r) = [[]; []]
  /\ map (getc (cw_st (vi_base (world (r_final r))))) [0; 1]%Z = [Some 2; Some 3]%Z
  /\ Qeq_bool (dsum_rates (r_final r) (dtransitions D (loci (r_final r)) (world (r_final r)))) 0 = true
  /\ vi_nonneg (sir_vi 1) (world (r_final r)).
Proof.
  cbv zeta. repeat split; try (vm_compute; reflexivity).
  - intros ev [<-|[]]. vm_compute. discriminate.
  - intros x Hx. vm_compute in Hx. destruct Hx as [<-|[]]. vm_compute. discriminate.
Qed.
Print Assumptions CVI7_example_quiescent.
