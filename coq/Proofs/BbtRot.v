From Coq Require Import ZArith List Bool Arith Lia.
From EpyV Require Import Model.Bbt.
Import ListNotations. Close Scope Z_scope. Open Scope nat_scope.

Fixpoint ht (t : tree) : nat := match t with Leaf => 0 | Node l _ _ _ _ r => S (Nat.max (ht l) (ht r)) end.
Fixpoint size (t : tree) : nat := match t with Leaf => 0 | Node l _ _ _ _ r => size l + 1 + size r end.
Fixpoint Ok (t : tree) : Prop :=
  match t with Leaf => True | Node l _ h ls rs r => Ok l /\ Ok r /\ h = Nat.max (ht l) (ht r) /\ ls = size l /\ rs = size r end.
Fixpoint Bal (t : tree) : Prop :=
  match t with Leaf => True | Node l _ _ _ _ r => Bal l /\ Bal r /\ ht l <= S (ht r) /\ ht r <= S (ht l) end.

Lemma ok_sh t : Ok t -> sh t = ht t.
Proof. destruct t; simpl; [reflexivity|]. intros (_ & _ & -> & _). reflexivity. Qed.
Lemma ok_slen t : Ok t -> slen t = size t.
Proof. destruct t; simpl; [reflexivity|]. intros (_ & _ & _ & -> & ->). reflexivity. Qed.
Lemma mk_ok l d r : Ok l -> Ok r -> Ok (mk l d r).
Proof. intros Hl Hr. unfold mk. simpl. rewrite !ok_sh, !ok_slen by assumption. auto. Qed.
Lemma ht_mk l d r : ht (mk l d r) = S (Nat.max (ht l) (ht r)).
Proof. reflexivity. Qed.
Lemma inorder_mk l d r : inorder (mk l d r) = inorder l ++ d :: inorder r.
Proof. reflexivity. Qed.
Lemma size_mk l d r : size (mk l d r) = size l + 1 + size r.
Proof. reflexivity. Qed.
Lemma bal_mk l d r : Bal l -> Bal r -> ht l <= S (ht r) -> ht r <= S (ht l) -> Bal (mk l d r).
Proof. simpl; auto. Qed.
Lemma unbal_mk l d r : Ok l -> Ok r ->
  unbal (mk l d r) = negb ((ht l <=? S (ht r)) && (ht r <=? S (ht l))).
Proof.
  intros Hl Hr. unfold mk, unbal. rewrite !ok_sh by assumption.
  destruct (Nat.leb_spec (ht l) (S (ht r))), (Nat.leb_spec (ht r) (S (ht l))), (Nat.ltb_spec 1 (Nat.max (ht l) (ht r) - Nat.min (ht l) (ht r))); simpl; try reflexivity; lia.
Qed.
Lemma taller_left_mk l d r : Ok l -> Ok r -> taller_left (mk l d r) = (ht r <? ht l).
Proof. intros Hl Hr. unfold mk, taller_left. rewrite !ok_sh by assumption. reflexivity. Qed.

(* stored fields are right and the tree is height-balanced (the order-independent part of Good) *)
Definition Inv t := Ok t /\ Bal t.
(* both sub-trees have the same height *)
Definition level (t : tree) : Prop := match t with Leaf => True | Node l _ _ _ _ r => ht l = ht r end.

(* the specification of one rotation, nested repairs included *)
Definition RotSpec (f : tree -> tree) (bound : nat) : Prop :=
  forall l d r, Inv l -> Inv r -> ht (mk l d r) <= bound ->
  (ht l = S (S (ht r)) \/ ht r = S (S (ht l))) ->
  let t := f (mk l d r) in
  Inv t /\ inorder t = inorder (mk l d r) /\ size t = size (mk l d r) /\
  (ht t = ht (mk l d r) \/ S (ht t) = ht (mk l d r)) /\
  (* the height drops whenever the taller child is not level (always so after an insertion) *)
  ((ht l = S (S (ht r)) -> ~ level l -> S (ht t) = ht (mk l d r)) /\
   (ht r = S (S (ht l)) -> ~ level r -> S (ht t) = ht (mk l d r))).

Lemma fixr_bal f l d r : Ok l -> Ok r -> ht l <= S (ht r) -> ht r <= S (ht l) ->
  fixr f (mk l d r) = mk l d r.
Proof.
  intros. unfold fixr. rewrite unbal_mk by assumption.
  replace ((ht l <=? S (ht r)) && (ht r <=? S (ht l))) with true; [reflexivity|].
  symmetry; apply andb_true_iff; split; apply Nat.leb_le; lia.
Qed.
Lemma fixr_unbal f l d r : Ok l -> Ok r -> (S (ht r) < ht l \/ S (ht l) < ht r) ->
  fixr f (mk l d r) = f (mk l d r).
Proof.
  intros Hl Hr H. unfold fixr. rewrite unbal_mk by assumption.
  destruct (Nat.leb_spec (ht l) (S (ht r))), (Nat.leb_spec (ht r) (S (ht l))); cbn; try reflexivity; lia.
Qed.

Ltac five := refine (conj (conj _ _) (conj _ (conj _ (conj _ _)))).
Ltac t_lv := split; intros; rewrite ?ht_mk in *; match goal with Hlv : level _ <-> _ |- _ => try rewrite Hlv in * end; lia.
Ltac t_in := rewrite ?inorder_mk; repeat match goal with H : inorder _ = _ |- _ => rewrite H end;
             rewrite ?inorder_mk; rewrite <- ?app_assoc; cbn [app]; rewrite <- ?app_assoc; reflexivity.
Ltac t_sz := rewrite ?size_mk; repeat match goal with H : size _ = _ |- _ => rewrite H end; rewrite ?size_mk; lia.
Ltac t_ht := rewrite ?ht_mk in *; lia.
Ltac t_bal := repeat match goal with |- Bal (mk _ _ _) => apply bal_mk | |- Bal _ => assumption | |- _ <= _ => t_ht end.
Ltac t_ok := repeat match goal with |- Ok (mk _ _ _) => apply mk_ok | |- Ok _ => assumption end.

Lemma rot_body_spec f n : RotSpec f n -> RotSpec (rot_body (fixr f)) (S n).
Proof.
  intros IH l d r [Hol Hbl] [Hor Hbr] Hf Hd.
  change (rot_body (fixr f) (mk l d r)) with (rot_node (fixr f) (mk l d r) l d r).
  unfold rot_node. rewrite !(ok_sh l), !(ok_sh r) by assumption.
  rewrite ht_mk in Hf.
  destruct (Nat.ltb_spec (ht r) (ht l)) as [Hlt|Hge].
  - destruct Hd as [Hd|Hd]; [|lia].
    destruct l as [|yl yd yh yls yrs yr]; [simpl in Hd; lia|].
    destruct Hol as (Hoyl & Hoyr & -> & -> & ->).
    destruct Hbl as (Hbyl & Hbyr & Hb1 & Hb2).
    rewrite !(ok_sh yl), !(ok_sh yr) by assumption.
    set (y := Node yl yd _ _ _ yr) in *.
    assert (Hhy : ht y = S (Nat.max (ht yl) (ht yr))) by reflexivity.
    assert (Hiy : inorder y = inorder yl ++ yd :: inorder yr) by reflexivity.
    assert (Hsy : size y = size yl + 1 + size yr) by reflexivity.
    assert (Hlv : level y <-> ht yl = ht yr) by (split; intro H; exact H).
    clearbody y.
    destruct (Nat.ltb_spec (ht yr) (ht yl)) as [Hy|Hy].
    + rewrite fixr_bal by (assumption || lia).
      cbv zeta. five; [t_ok | t_bal | t_in | t_sz | t_ht | t_lv].
    + destruct yr as [|xl xd xh xls xrs xr]; [simpl in *; lia|].
      destruct Hoyr as (Hoxl & Hoxr & -> & -> & ->).
      destruct Hbyr as (Hbxl & Hbxr & Hbx1 & Hbx2).
      cbn [ht inorder size] in *.
      rewrite (fixr_bal f xr d r) by (assumption || lia).
      destruct (Nat.leb_spec (ht yl) (S (ht xl))) as [Hc|Hc].
      * rewrite (fixr_bal f yl yd xl) by (assumption || lia).
        five; [t_ok | t_bal | t_in | t_sz | t_ht | t_lv].
      * rewrite (fixr_unbal f yl yd xl) by (assumption || lia).
        destruct (IH yl yd xl (conj Hoyl Hbyl) (conj Hoxl Hbxl)) as ((Hok' & Hbal') & Hin' & Hsz' & Hht' & _); [rewrite ht_mk; lia | lia |].
        set (y2 := f (mk yl yd xl)) in *. clearbody y2.
        rewrite !ht_mk in Hht'.
        five; [t_ok | t_bal | t_in | t_sz | t_ht | t_lv].
  - destruct Hd as [Hd|Hd]; [lia|].
    destruct r as [|yl yd yh yls yrs yr]; [simpl in Hd; lia|].
    destruct Hor as (Hoyl & Hoyr & -> & -> & ->).
    destruct Hbr as (Hbyl & Hbyr & Hb1 & Hb2).
    rewrite !(ok_sh yl), !(ok_sh yr) by assumption.
    set (y := Node yl yd _ _ _ yr) in *.
    assert (Hhy : ht y = S (Nat.max (ht yl) (ht yr))) by reflexivity.
    assert (Hiy : inorder y = inorder yl ++ yd :: inorder yr) by reflexivity.
    assert (Hsy : size y = size yl + 1 + size yr) by reflexivity.
    assert (Hlv : level y <-> ht yl = ht yr) by (split; intro H; exact H).
    clearbody y.
    destruct (Nat.ltb_spec (ht yr) (ht yl)) as [Hy|Hy].
    + destruct yl as [|xl xd xh xls xrs xr]; [simpl in *; lia|].
      destruct Hoyl as (Hoxl & Hoxr & -> & -> & ->).
      destruct Hbyl as (Hbxl & Hbxr & Hbx1 & Hbx2).
      cbn [ht inorder size] in *.
      rewrite (fixr_bal f l d xl) by (assumption || lia).
      rewrite (fixr_bal f xr yd yr) by (assumption || lia).
      five; [t_ok | t_bal | t_in | t_sz | t_ht | t_lv].
    + rewrite fixr_bal by (assumption || lia).
      five; [t_ok | t_bal | t_in | t_sz | t_ht | t_lv].
Qed.

Theorem rot_spec : forall fuel, RotSpec (rot fuel) fuel.
Proof.
  induction fuel as [|fuel IH].
  - intros l d r _ _ Hf _. rewrite ht_mk in Hf. lia.
  - cbn [rot]. apply rot_body_spec. exact IH.
Qed.
Print Assumptions rot_spec.
