(* The dynamic kernel is a conservative extension of Model/Kernel.v: on a table without appended
   entries both of its loops compute exactly what Model/Kernel.v's loops compute (same result
   record: time, counts, output stream, final state).  So the scheduler code duplicated in
   Model/KernelDyn.v is tied to the one the properties C02-C06 are proved about and that the
   kernel tie co-executes. *)
From Coq Require Import List ZArith QArith Qabs Bool Arith Lia.
From EpyV Require Import Model.Kernel Model.KernelDyn Proofs.KernelDyn.
Import ListNotations.
Open Scope Q_scope.

Section S.
Context {W : Type}.
Variable tb : table W.
Notation D := (static_dtable tb).
Implicit Types s : st W.

Lemma dtransitions_static lc w : dtransitions D lc w = map TStat (transitions tb).
Proof.
  unfold dtransitions, dper_element, transitions, per_element, all_events.
  rewrite (dper_from_static D lc w (fun _ => eq_refl)), map_app. reflexivity.
Qed.

Lemma dsum_rates_static s l : dsum_rates s (map TStat l) = sum_rates s l.
Proof.
  unfold dsum_rates, sum_rates. generalize 0. induction l as [|x l IH]; intros a; cbn [map fold_left]; [reflexivity|].
  apply IH.
Qed.

Lemma select_static s xc l : forall xs cur,
  select (drate s) xc xs (TStat cur) (map TStat l) = TStat (select (rate s) xc xs cur l).
Proof.
  induction l as [|x l IH]; intros xs cur; cbn [map select]; [reflexivity|].
  cbn [drate]. destruct (Qltb xc (xs + rate s x)); [reflexivity | apply IH].
Qed.

Lemma dstoch_loop_static pf : forall fuel t ev s, dstoch_loop D pf fuel t ev s = stoch_loop tb pf fuel t ev s.
Proof.
  induction fuel as [|f IH]; intros t ev s; [reflexivity|].
  cbn [dstoch_loop stoch_loop]. cbn [static_dtable d_tb].
  destruct (Qle_bool (t_maxtime tb) t || t_equil tb (loci s) (world s)); [reflexivity|].
  rewrite dtransitions_static, dsum_rates_static.
  destruct (Qeq_bool (sum_rates s (transitions tb)) 0).
  - destruct (next_pending_time s) as [[et|] s']; [|reflexivity].
    destruct (run_pending tb pf et 0 s') as [n s'']. apply IH.
  - destruct (next_rand s) as [r1 s1]. destruct (next_ln s1) as [ln s2].
    destruct (transitions tb) as [|x0 rest]; [reflexivity|]. cbn [map].
    destruct rest as [|x1 rest]; cbn [map].
    + destruct (run_pending tb pf _ 0 s2) as [n s4].
      destruct (locus (set_clock _ s4) (ev_locus (snd x0))); [apply IH|].
      destruct (next_draw _) as [k s6]. apply IH.
    + destruct (next_rand s2) as [r2 s3].
      change (TStat x0 :: TStat x1 :: map TStat rest) with (map (@TStat W) (x0 :: x1 :: rest)).
      rewrite select_static.
      destruct (run_pending tb pf _ 0 s3) as [n s4].
      destruct (locus (set_clock _ s4) _); [apply IH|].
      destruct (next_draw _) as [k s6]. apply IH.
Qed.

Theorem dstoch_run_static pf fuel rs ls ds : dstoch_run D pf fuel rs ls ds = stoch_run tb pf fuel rs ls ds.
Proof. unfold dstoch_run, stoch_run. rewrite dstoch_loop_static. reflexivity. Qed.

Lemma dtranche_elem_static : forall evs s,
  dtranche_elem (map TStat evs) s = (map lift_sel (fst (tranche_elem evs s)), snd (tranche_elem evs s)).
Proof.
  induction evs as [|x evs IH]; intros s; cbn [map dtranche_elem tranche_elem]; [reflexivity|].
  destruct (locus s (ev_locus (snd x))) as [|e0 l0].
  - rewrite IH. destruct (tranche_elem evs s) as [sel' s2]. reflexivity.
  - destruct (Qltb 0 (ev_p (snd x))).
    + destruct (trials (ev_p (snd x)) x (e0 :: l0) s) as [sel s1]. rewrite IH.
      destruct (tranche_elem evs s1) as [sel' s2]. cbn [fst snd]. rewrite map_app. reflexivity.
    + rewrite IH. destruct (tranche_elem evs s) as [sel' s2]. reflexivity.
Qed.

Lemma dtranche_static s : dtranche D s = (map lift_sel (fst (tranche tb s)), snd (tranche tb s)).
Proof.
  unfold dtranche, tranche, dper_element. cbn [static_dtable d_tb].
  rewrite (dper_from_static D (loci s) (world s) (fun _ => eq_refl)).
  change (filter (fun x : nat * nat * event => ev_elem (snd x)) (all_events_from 0 (t_procs tb))) with (per_element tb).
  rewrite dtranche_elem_static. destruct (tranche_elem (per_element tb) s) as [a s1]. cbn [fst snd].
  destruct (tranche_fixed (fixed_rate tb) s1) as [b s2]. cbn [fst snd]. rewrite map_app. reflexivity.
Qed.

Lemma dfire_tranche_static t : forall evs nev s,
  dfire_tranche D t (map lift_sel evs) nev s = fire_tranche tb t evs nev s.
Proof.
  induction evs as [|[x e] evs IH]; intros nev s; [reflexivity|].
  cbn [map lift_sel fst snd dfire_tranche fire_tranche]. cbn [static_dtable d_tb].
  destruct (mem e (locus s (ev_locus (snd x)))); apply IH.
Qed.

Lemma dsync_loop_static pf : forall fuel t ev k s, dsync_loop D pf fuel t ev k s = sync_loop tb pf fuel t ev k s.
Proof.
  induction fuel as [|f IH]; intros t ev k s; [reflexivity|].
  cbn [dsync_loop sync_loop]. cbn [static_dtable d_tb].
  destruct (Qle_bool (t_maxtime tb) t || t_equil tb (loci s) (world s)); [reflexivity|].
  destruct (run_pending tb pf t 0 (set_clock t s)) as [n s1].
  rewrite dtranche_static. destruct (tranche tb (set_clock t s1)) as [evs s2]. cbn [fst snd].
  rewrite dfire_tranche_static. destruct (fire_tranche tb t evs n s2) as [nev s3]. apply IH.
Qed.

Theorem dsync_run_static pf fuel rs ds : dsync_run D pf fuel rs ds = sync_run tb pf fuel rs ds.
Proof. unfold dsync_run, sync_run. rewrite dsync_loop_static. reflexivity. Qed.

End S.
