(* C08 for SIR_VariableInfection: the contact-forest invariant of Proofs/ContactInv.v along every run
   of the dynamic kernel (DSteps), by SIMULATION of each call: a call of the dynamic table
   [mk_vitable vm ...] on state s does to the base part of the user state exactly what the
   corresponding call of the STATIC table [mk_table (vi_fcm vm) ...] does on the projected state,
   where [vi_fcm vm] registers infect as an ordinary per-element event on the SI locus (its
   probability is irrelevant: only single calls are compared, never the scheduler).  So the per-call
   theorem K_call of Proofs/ContactInv.v (and marking_call, through_infectious_edge, ... behind it)
   is re-used as it stands; [Forest], its consequences (unique parent, one hit per node, acyclic,
   skeleton, ...) are the very same definitions and theorems, instantiated at [vi_fcm vm]. *)
From Coq Require Import List ZArith QArith Bool Arith Lia Relations Sorted.
From EpyV Require Import Lib.Prelude Model.Kernel Model.KernelDyn Model.Loci Model.Compart Model.CompartVI
  Proofs.KernelBase Proofs.KernelMember Proofs.KernelSync Proofs.LociBase Proofs.LociLocus Proofs.LociInv
  Proofs.CompartRun Proofs.CompartSort Proofs.CompartInv Proofs.CompartDiagram
  Proofs.ContactBase Proofs.ContactForest Proofs.ContactInv
  Proofs.KernelDyn Proofs.KernelDynLoops Proofs.KernelDynRun Proofs.CompartVI.
Import ListNotations.
Close Scope Q_scope.

(* the appended infection entries as a registered event of a static table *)
Definition vi_inf_event (vm : vimodel) : cevent :=
  {| ce_elem := true; ce_locus := vim_si vm; ce_p := 0%Q; ce_kind := vim_infect vm |}.
Definition vi_fcm (vm : vimodel) : cmodel :=
  {| cm_specs := vim_specs vm; cm_events := vim_events vm ++ [vi_inf_event vm]; cm_extra := [];
     cm_seed_post := vim_seed_post vm; cm_equil := [] |}.

Lemma fcm_kinds vm : cm_kinds (vi_fcm vm) = cm_kinds (vi_cm vm).
Proof. unfold cm_kinds. cbn [vi_fcm vi_cm cm_events cm_extra]. rewrite map_app, <- app_assoc. reflexivity. Qed.

Lemma fcm_comps vm : cm_comps (vi_fcm vm) = cm_comps (vi_cm vm).
Proof. unfold cm_comps. rewrite fcm_kinds. reflexivity. Qed.

Lemma SInv_fcm vm nodes edges st kl : SInv (vi_fcm vm) nodes edges st kl <-> SInv (vi_cm vm) nodes edges st kl.
Proof. unfold SInv. rewrite fcm_comps. reflexivity. Qed.

(* the kernel state with the user state cut down to its base part *)
Definition proj (s : st viworld) : st cworld :=
  {| clock := clock s; nextid := nextid s; queue := queue s; loci := loci s; world := vi_base (world s); ids := ids s;
     out := out s; rands := rands s; lns := lns s; draws := draws s; stuck := stuck s |}.

Section CV.
Variable vm : vimodel.
Variables (nodes : list Z) (edges : list (Z * Z)) (init : list (Z * Z)) (inf : list (Z * Z * Q)) (maxtime : Q) (monitor : option Q).
Let D := mk_vitable vm nodes edges init inf maxtime monitor.
Let fcm := vi_fcm vm.
Let tbF := mk_table fcm nodes edges init maxtime monitor.
Let jinf := vi_infect_prog vm.
Implicit Types s : st viworld.

(* the static call that corresponds to a call of the dynamic table *)
Definition sim (c : @dcall viworld) : call :=
  match c with
  | DEv x t e => CEv x t e
  | DDyn pi d t => CEv (pi, jinf, mk_ev jinf (vi_inf_event vm)) t (de_value d)
  | DPost h => CPost h
  end.

Lemma inf_event_nth : nth_error (cm_events fcm) jinf = Some (vi_inf_event vm).
Proof.
  unfold fcm, vi_fcm, jinf, vi_infect_prog. cbn [cm_events]. rewrite nth_error_app2; [|lia]. rewrite Nat.sub_diag. reflexivity.
Qed.

Lemma sim_ok Xtr c s : dcall_ok D Xtr c s -> call_ok tbF (sim c) (proj s).
Proof.
  destruct c as [[[pi j] ev] t e|pi d t|h]; cbn [dcall_ok sim call_ok].
  - intros (Hx & Hm & Hc & _). split; [|split; [exact Hm | exact Hc]].
    destruct (all_events_vi vm nodes edges init inf maxtime monitor pi j ev Hx) as [-> [cev [En ->]]].
    apply (all_events_mk fcm nodes edges init maxtime monitor). split; [reflexivity|]. exists cev. split; [|reflexivity].
    unfold fcm, vi_fcm. cbn [cm_events]. rewrite nth_error_app1; [exact En|]. apply nth_error_Some. congruence.
  - intros ([lc [w Hr]] & Hm & Hc & _).
    destruct (vi_dyn_shape vm nodes edges init inf maxtime monitor pi lc w d Hr) as [-> [e [_ ->]]].
    cbn [vi_entry de_member de_value] in *. split; [|split; [exact Hm | exact Hc]].
    apply (all_events_mk fcm nodes edges init maxtime monitor). split; [reflexivity|]. exists (vi_inf_event vm).
    split; [exact inf_event_nth | reflexivity].
  - tauto.
Qed.

Lemma sim_args Xtr c s : dcall_ok D Xtr c s -> call_args (sim c) = dcall_args c.
Proof.
  destruct c as [x t e|pi d t|h]; cbn [sim call_args dcall_args]; try reflexivity.
  intros ([lc [w Hr]] & _). destruct (vi_dyn_shape vm nodes edges init inf maxtime monitor pi lc w d Hr) as [_ [e [_ ->]]].
  reflexivity.
Qed.

(* the summary of the event function a call of the dynamic table enters *)
Definition dcall_kind (c : @dcall viworld) : option hkind := nth_error (cm_kinds (vi_cm vm)) (fst (fst (dcall_args c))).

Lemma sim_kind Xtr c s : dcall_ok D Xtr c s -> call_kind fcm (sim c) = dcall_kind c.
Proof. intros Hok. unfold call_kind, dcall_kind. rewrite (sim_args Xtr c s Hok). unfold fcm. rewrite fcm_kinds. reflexivity. Qed.

Lemma dafter_world c s :
  vi_base (world (dafter D c s)) =
  match dcall_kind c with
  | Some h => fst (handler (vim_specs vm) 0 h (snd (fst (dcall_args c))) (snd (dcall_args c)) (loci s) (vi_base (world s)))
  | None => vi_base (world s)
  end.
Proof.
  pose proof (dafter_lw D c s) as A. unfold dcall_kind. destruct (dcall_args c) as [[k t] e]. cbn [fst snd].
  destruct A as [_ A]. rewrite A. unfold D. rewrite vi_prog_of. destruct (nth_error (cm_kinds (vi_cm vm)) k); [|reflexivity].
  rewrite lift_prog_fst. reflexivity.
Qed.

(* THE SIMULATION: same effect on the base part of the user state *)
Lemma sim_world Xtr c s : dcall_ok D Xtr c s -> world (after tbF (sim c) (proj s)) = vi_base (world (dafter D c s)).
Proof.
  intros Hok. unfold tbF. rewrite after_world, dafter_world, (sim_kind Xtr c s Hok), (sim_args Xtr c s Hok). reflexivity.
Qed.

(* ------------------------------------------------------------------ posted events sit on node elements *)
Lemma vi_prog_okact k t e kl w : Forall (okact e) (snd (prog_of (d_tb D) k t e kl w)).
Proof.
  unfold D. rewrite vi_prog_of. destruct (nth_error (cm_kinds (vi_cm vm)) k) as [h|]; [|constructor].
  rewrite lift_prog_snd. apply handler_okact.
Qed.

Lemma run_prog_QE_vi p k t e s : QE s -> QE (run_prog (d_tb D) p k t e s).
Proof.
  intros Hq. unfold run_prog. pose proof (vi_prog_okact k t e (loci s) (world s)) as A.
  destruct (prog_of (d_tb D) k t e (loci s) (world s)) as [w acts]. cbn [snd] in A.
  apply run_actions_QE; [exact A | exact Hq].
Qed.

Lemma QE_dsched s s' : QE s -> dsched s s' -> QE s'.
Proof. intros Hq (_ & _ & _ & Hi) x Hx. apply Hq, Hi, Hx. Qed.

Lemma QE_dafter Xtr s c : QE s -> dcall_ok D Xtr c s -> QE (dafter D c s).
Proof.
  intros Hq Hok. destruct c as [[[pi j] ev] t e|pi d t|h]; cbn [dafter].
  - unfold fire_event. intros y Hy. cbn [queue emit] in Hy. revert y Hy. apply run_prog_QE_vi. exact Hq.
  - unfold fire_dyn. intros y Hy. cbn [queue emit] in Hy. revert y Hy. apply run_prog_QE_vi. exact Hq.
  - destruct Hok as [Hh _]. apply head_in in Hh. destruct (Hq h Hh) as [n En].
    unfold pend_step, fire. intros y Hy. cbn [queue emit] in Hy. revert y Hy.
    set (s1 := emit _ (set_clock _ (set_queue _ s))).
    assert (Q1 : QE s1) by (intros y Hy; cbn in Hy; apply Hq; eapply remove_id_incl; exact Hy).
    pose proof (run_prog_QE_vi (e_proc h) (e_prog h) (e_time h) (e_elem h) s1 Q1) as Q2.
    destruct (e_rep h) as [ddt|]; [|exact Q2].
    unfold post. destruct (Qltb _ _); cbn [queue emit]; [exact Q2|].
    intros y [<-|Hy]; [exists n; exact En | apply Q2, Hy].
Qed.

Lemma QE_setup_vi rs ls ds : QE (setup_state (d_tb D) rs ls ds).
Proof.
  unfold setup_state.
  set (s0 := {| clock := 0%Q; nextid := 0; queue := []; loci := init_loci (d_tb D); world := t_world (d_tb D); ids := []; out := [];
                rands := rs; lns := ls; draws := ds; stuck := false |}).
  assert (Q0 : QE s0) by (intros x []).
  assert (P : forall p, In p (t_procs (d_tb D)) -> Forall (okact (EN 0)) (p_setup p)).
  { intros p Hp. unfold D, mk_vitable, mk_table in Hp. cbn [d_tb t_procs] in Hp.
    assert (M : Forall (okact (EN 0)) (match cm_seed_post (vi_cm vm) with
            | Some (c, T, k) => map (fun n => APostOn (EN n) T k) (nodes_in (Loci.setup (cm_specs (vi_cm vm)) nodes edges init) c)
            | None => [] end)).
    { destruct (cm_seed_post (vi_cm vm)) as [[[c T] k]|]; [|constructor].
      apply Forall_forall. intros a Ha. apply in_map_iff in Ha. destruct Ha as [n [<- _]]. exact I. }
    destruct monitor as [delta|]; cbn [In] in Hp.
    - destruct Hp as [<-|[<-|[]]]; cbn [p_setup]; [|exact M]. constructor; [exists 0%Z; reflexivity | constructor].
    - destruct Hp as [<-|[]]; cbn [p_setup]. exact M. }
  revert P Q0. generalize 0%nat as k. generalize s0 as s. clear s0.
  induction (t_procs (d_tb D)) as [|p ps IH]; intros s k P Q0; cbn [fold_left fst snd]; [exact Q0|].
  apply IH; [intros q Hq; apply P; right; exact Hq|].
  apply run_actions_QE; [apply P; left; reflexivity | exact Q0].
Qed.

(* ------------------------------------------------------------------ the invariant along runs *)
Definition VForest (w : viworld) : Prop := Forest fcm nodes edges init (vi_base w).

(* run invariant of C07 (VJ), posted events on node elements, contact forest *)
Definition KV s : Prop := VJ vm nodes edges s /\ QE s /\ VForest (world s).

Lemma KV_proj s : KV s -> K fcm nodes edges init (proj s).
Proof.
  intros (Hj & Hq & Hf). split; [|split; [exact Hq | exact Hf]].
  unfold J, proj. cbn [world loci]. apply SInv_fcm. exact Hj.
Qed.

Lemma KV_dsched s s' : KV s -> dsched s s' -> KV s'.
Proof.
  intros (Hj & Hq & Hf) Hs. split; [eapply VJ_dsched; eassumption|]. split; [eapply QE_dsched; eassumption|].
  destruct Hs as (_ & -> & _). exact Hf.
Qed.

Lemma KV_dafter Xtr s c : wf_model fcm = true -> once_model fcm = true -> KV s -> dcall_ok D Xtr c s -> KV (dafter D c s).
Proof.
  intros Hwf Ho Hk Hok. pose proof Hk as (Hj & Hq & Hf).
  split; [apply VJ_dafter; [exact (wf_model_loci fcm Hwf) | exact Hj]|]. split; [eapply QE_dafter; eassumption|].
  pose proof (K_call fcm nodes edges init maxtime monitor (proj s) (sim c) Hwf Ho (KV_proj s Hk) (sim_ok Xtr c s Hok)) as (_ & _ & F).
  fold tbF in F. rewrite (sim_world Xtr c s Hok) in F. exact F.
Qed.

Lemma KV_setup rs ls ds : wf_model fcm = true -> graph_okb nodes edges = true -> init_ok fcm nodes init = true ->
  KV (setup_state (d_tb D) rs ls ds).
Proof.
  intros Hwf Hg Hi. split; [|split; [apply QE_setup_vi|]].
  - apply VJ_setup; [exact (wf_model_loci fcm Hwf) | exact Hg|]. unfold init_ok in *. rewrite <- fcm_comps. exact Hi.
  - destruct (setup_state_lw (d_tb D) rs ls ds (vi_post_only vm nodes edges init inf maxtime monitor)) as [_ B]. rewrite B.
    unfold D, mk_vitable, mk_table, VForest, Forest. cbn [d_tb t_world vi_base cw_st cw_occ cw_hit].
    refine (conj _ (conj eq_refl (conj _ (conj I (conj _ _))))).
    + intros v c _ _ x [].
    + intros x [].
    + intros v c H _. exact H.
    + intros x [].
Qed.

Theorem KV_dsteps Xtr rs ls ds cs s : wf_model fcm = true -> once_model fcm = true -> graph_okb nodes edges = true ->
  init_ok fcm nodes init = true -> DSteps D Xtr (setup_state (d_tb D) rs ls ds) cs s -> KV s /\ Forall (fun sc => KV (fst sc)) cs.
Proof.
  intros Hwf Ho Hg Hi H.
  exact (DSteps_inv D Xtr KV KV_dsched (fun s c Hk Hok => KV_dafter Xtr s c Hwf Ho Hk Hok) _ cs s (KV_setup rs ls ds Hwf Hg Hi) H).
Qed.

(* ------------------------------------------------------------------ the records as functions of the calls of the run *)
Definition vinfection (sc : st viworld * @dcall viworld) : list (Z * Z * Q) :=
  match dcall_kind (snd sc) with
  | Some h => match marks h (snd (dcall_args (snd sc))) with
              | Some nm => [(nm, snd (fst (dcall_args (snd sc))))]
              | None => []
              end
  | None => []
  end.
Definition vinfections (cs : list (st viworld * @dcall viworld)) : list (Z * Z * Q) := flat_map vinfection cs.

(* what is known at a call that marks: it is entered from the scheduler (not posted) on the pair (n, m)
   at clock time; n is susceptible, m is not, (n, m) is an edge of the network *)
Lemma vmarking_call Xtr s c h n m : wf_model fcm = true -> once_model fcm = true -> KV s -> dcall_ok D Xtr c s ->
  dcall_kind c = Some h -> marks h (snd (dcall_args c)) = Some (n, m) ->
  let st := cw_st (vi_base (world s)) in
  (forall hh, c <> DPost hh) /\ snd (fst (dcall_args c)) = clock s /\ snd (dcall_args c) = EE n m
  /\ (exists l, In l (sus fcm) /\ getc st n = Some l) /\ (exists r, ~ In r (sus fcm) /\ getc st m = Some r)
  /\ adjb edges n m = true.
Proof.
  intros Hwf Ho Hk Hok Ek Em. cbv zeta.
  assert (Ek' : call_kind fcm (sim c) = Some h) by (rewrite (sim_kind Xtr c s Hok); exact Ek).
  assert (Em' : marks h (snd (call_args (sim c))) = Some (n, m)) by (rewrite (sim_args Xtr c s Hok); exact Em).
  destruct (marking_call fcm nodes edges init maxtime monitor (proj s) (sim c) h n m Hwf Ho (KV_proj s Hk) (sim_ok Xtr c s Hok) Ek' Em')
    as ((x & Ec) & Hn & Hm & Hadj & _).
  pose proof (sim_args Xtr c s Hok) as Ea. rewrite Ec in Ea. cbn [call_args] in Ea.
  split; [intros hh ->; cbn [sim] in Ec; discriminate|].
  rewrite <- Ea. cbn [fst snd]. split; [reflexivity|]. split; [reflexivity|]. split; [exact Hn|]. split; [exact Hm | exact Hadj].
Qed.

Theorem occ_is_vinfections Xtr rs ls ds cs s : wf_model fcm = true -> once_model fcm = true -> graph_okb nodes edges = true ->
  init_ok fcm nodes init = true -> DSteps D Xtr (setup_state (d_tb D) rs ls ds) cs s ->
  cw_occ (vi_base (world s)) = vinfections cs.
Proof.
  intros Hwf Ho Hg Hi H. induction H as [|cs s s' H IH Hs|cs s c H IH Hok].
  - destruct (setup_state_lw (d_tb D) rs ls ds (vi_post_only vm nodes edges init inf maxtime monitor)) as [_ B]. rewrite B. reflexivity.
  - destruct Hs as (_ & -> & _). exact IH.
  - destruct (KV_dsteps Xtr rs ls ds cs s Hwf Ho Hg Hi H) as [Hk _].
    unfold vinfections. rewrite flat_map_app. fold (vinfections cs). rewrite <- IH. cbn [flat_map]. rewrite app_nil_r.
    rewrite dafter_world. unfold vinfection. cbn [snd].
    destruct (dcall_kind c) as [h|] eqn:Ek; [|rewrite app_nil_r; reflexivity]. rewrite handler_occ.
    destruct (marks h (snd (dcall_args c))) as [[n m]|] eqn:Em; [|rewrite app_nil_r; reflexivity].
    destruct (vmarking_call Xtr s c h n m Hwf Ho Hk Hok Ek Em) as (_ & _ & _ & (l & Hl & Hn) & _).
    destruct Hk as (_ & _ & (F1 & _)). apply mark_occupied_fresh. exact (F1 n l Hn Hl).
Qed.

(* every occupied edge was recorded by an event function entered from the scheduler (never a posted one)
   on that very pair, at the clock time of that call, on a member of its locus *)
Theorem vocc_event_time Xtr rs ls ds cs s n m t : wf_model fcm = true -> once_model fcm = true -> graph_okb nodes edges = true ->
  init_ok fcm nodes init = true -> DSteps D Xtr (setup_state (d_tb D) rs ls ds) cs s -> In (n, m, t) (cw_occ (vi_base (world s))) ->
  exists sc, In sc cs /\ (forall hh, snd sc <> DPost hh) /\ snd (fst (dcall_args (snd sc))) = t /\ snd (dcall_args (snd sc)) = EE n m
    /\ clock (fst sc) = t /\ dcall_ok D Xtr (snd sc) (fst sc).
Proof.
  intros Hwf Ho Hg Hi H Hin. rewrite (occ_is_vinfections Xtr rs ls ds cs s Hwf Ho Hg Hi H) in Hin.
  unfold vinfections in Hin. apply in_flat_map in Hin. destruct Hin as [[s1 c] [Hsc Hx]].
  destruct (KV_dsteps Xtr rs ls ds cs s Hwf Ho Hg Hi H) as [_ Hall]. rewrite Forall_forall in Hall. pose proof (Hall _ Hsc) as Hk. cbn [fst] in Hk.
  pose proof (DSteps_calls D Xtr _ _ _ H) as Hoks. rewrite Forall_forall in Hoks. pose proof (Hoks _ Hsc) as Hok. cbn [fst snd] in Hok.
  unfold vinfection in Hx. cbn [snd] in Hx. destruct (dcall_kind c) as [h|] eqn:Ek; [|destruct Hx].
  destruct (marks h (snd (dcall_args c))) as [[n' m']|] eqn:Em; [|destruct Hx]. destruct Hx as [Hx|[]]. injection Hx as E1 E2 E3. subst n' m'.
  destruct (vmarking_call Xtr s1 c h n m Hwf Ho Hk Hok Ek Em) as (Hnp & Et & Ee & _).
  exists (s1, c). cbn [fst snd]. split; [exact Hsc|]. split; [exact Hnp|]. split; [exact E3|]. split; [exact Ee|].
  split; [rewrite <- Et; exact E3 | exact Hok].
Qed.

(* times along the tree: whenever the times of the marking calls of the run are R-related in call order,
   the hitting time of an infector is R-related to the hitting time of the node it infected *)
Theorem vtimes_along_tree (R : Q -> Q -> Prop) Xtr rs ls ds cs s : wf_model fcm = true -> once_model fcm = true ->
  graph_okb nodes edges = true -> init_ok fcm nodes init = true -> DSteps D Xtr (setup_state (d_tb D) rs ls ds) cs s ->
  StronglySorted R (map snd (vinfections cs)) ->
  forall n m t t', In (n, m, t) (cw_occ (vi_base (world s))) -> In (m, t') (cw_hit (vi_base (world s))) -> R t' t.
Proof.
  intros Hwf Ho Hg Hi H Hs n m t t' Hx Hm.
  destruct (KV_dsteps Xtr rs ls ds cs s Hwf Ho Hg Hi H) as [(_ & _ & F) _].
  rewrite <- (occ_is_vinfections Xtr rs ls ds cs s Hwf Ho Hg Hi H) in Hs.
  destruct (in_split _ _ Hx) as [o1 [o2 E]].
  destruct (infector_earlier fcm nodes edges init (vi_base (world s)) o1 (n, m, t) o2 t' F E Hm) as [m' Hy]. cbn [parent fst snd] in Hy.
  rewrite E, map_app in Hs. cbn [map snd] in Hs.
  apply (SS_before R (map snd o1) t (map snd o2) Hs t'). apply in_map_iff. exists (m, m', t'). split; [reflexivity | exact Hy].
Qed.

End CV.
