(* C07_quiescent for SIR_VariableInfection: when the dynamic Gillespie loop finds a total rate of
   zero (the branch a = 0; with nothing pending it is the exit of the loop), then - probabilities
   and infectivities being >= 0 - every edge currently in the SI locus has infectivity 0 and every
   registered per-element event of positive probability has an empty locus: no S-I edge of positive
   infectivity, and, when pRemove > 0, no infected node.  Also: the infectivities never change. *)
From Coq Require Import List ZArith QArith Bool Arith Lia Lqa.
From EpyV Require Import Lib.Prelude Model.Kernel Model.KernelDyn Model.Loci Model.Compart Model.CompartVI
  Proofs.KernelBase Proofs.KernelMember Proofs.KernelSync Proofs.LociBase Proofs.LociLocus Proofs.LociInv
  Proofs.CompartRun Proofs.CompartSort Proofs.CompartInv Proofs.CompartDiagram
  Proofs.KernelDyn Proofs.KernelDynLoops Proofs.KernelDynRun Proofs.CompartVI.
Import ListNotations.
Close Scope Q_scope.

Section VQ.
Variable vm : vimodel.
Variables (nodes : list Z) (edges : list (Z * Z)) (init : list (Z * Z)) (inf : list (Z * Z * Q)) (maxtime : Q) (monitor : option Q).
Let D := mk_vitable vm nodes edges init inf maxtime monitor.
Let specs := vim_specs vm.
Let si := vim_si vm.
Implicit Types s : st viworld.

(* ------------------------------------------------------------------ the edge attribute is set once *)
Definition inf_const s : Prop := vi_inf (world s) = inf.

Lemma inf_const_dafter c s : inf_const s -> inf_const (dafter D c s).
Proof.
  intros H. pose proof (dafter_lw D c s) as A. destruct (dcall_args c) as [[k t] e]. destruct A as [_ A].
  unfold inf_const. rewrite A. unfold D. rewrite vi_prog_of. destruct (nth_error (cm_kinds (vi_cm vm)) k); [|exact H].
  rewrite lift_prog_fst. exact H.
Qed.

Theorem inf_const_dsteps Xtr rs ls ds cs s :
  DSteps D Xtr (setup_state (d_tb D) rs ls ds) cs s -> inf_const s /\ Forall (fun sc => inf_const (fst sc)) cs.
Proof.
  intros H. refine (DSteps_inv D Xtr inf_const _ _ _ cs s _ H).
  - intros s1 s2 Hc (_ & Hw & _). unfold inf_const. rewrite Hw. exact Hc.
  - intros s1 c Hc _. apply inf_const_dafter. exact Hc.
  - unfold inf_const. destruct (setup_state_lw (d_tb D) rs ls ds (vi_post_only vm nodes edges init inf maxtime monitor)) as [_ B].
    rewrite B. reflexivity.
Qed.

(* ------------------------------------------------------------------ probabilities >= 0 *)
Definition vi_nonneg (w : viworld) : Prop :=
  (forall ev, In ev (vim_events vm) -> (0 <= ce_p ev)%Q) /\ (forall x, In x (vi_inf w) -> (0 <= snd x)%Q).

Lemma entry_p_nonneg w e : vi_nonneg w -> (0 <= de_p (vi_entry vm w e))%Q.
Proof.
  intros [_ H]. cbn [vi_entry de_p]. destruct e as [n|n m]; [apply Qle_refl|].
  unfold infectivity. destruct (find _ (vi_inf w)) as [x|] eqn:E; cbn [option_map]; [|apply Qle_refl].
  apply find_some in E. apply H. exact (proj1 E).
Qed.

Lemma vi_dnonneg lc w : vi_nonneg w -> dnonneg D lc w.
Proof.
  intros Hnn x Hx. apply dtransitions_In in Hx. destruct x as [[[pi j] ev]|pi d]; cbn [trans_p snd].
  - destruct (all_events_vi vm nodes edges init inf maxtime monitor pi j ev Hx) as [_ [cev [En ->]]]. cbn [mk_ev ev_p].
    apply (proj1 Hnn). eapply nth_error_In. exact En.
  - destruct (vi_dyn_shape vm nodes edges init inf maxtime monitor pi lc w d Hx) as [_ [e [_ ->]]]. apply entry_p_nonneg. exact Hnn.
Qed.

(* ------------------------------------------------------------------ the branch a = 0 *)
Theorem vi_quiescent s : vi_nonneg (world s) ->
  Qeq_bool (dsum_rates s (dtransitions D (loci s) (world s))) 0 = true ->
  (forall e, In e (nth si (loci s) []) -> (de_p (vi_entry vm (world s) e) == 0)%Q)
  /\ (forall cev, In cev (vim_events vm) -> ce_elem cev = true -> (0 < ce_p cev)%Q -> locus s (ce_locus cev) = []).
Proof.
  intros Hnn Hz. apply Qeq_bool_iff in Hz. rewrite dsum_rates_qsum in Hz.
  assert (Hall : forall x, In x (dtransitions D (loci s) (world s)) -> (0 <= drate s x)%Q).
  { intros x Hx. apply drate_nonneg. exact (vi_dnonneg _ _ Hnn x Hx). }
  pose proof (qsum_zero (drate s) _ Hall Hz) as Hzero. split.
  - intros e He.
    assert (Hin : In (TDyn (vi_mpi monitor) (vi_entry vm (world s) e)) (dtransitions D (loci s) (world s))).
    { unfold dtransitions. apply in_or_app. left. unfold D. rewrite vi_dper_element. apply in_or_app. right.
      apply in_map_iff. exists e. split; [reflexivity | exact He]. }
    specialize (Hzero _ Hin). cbn [drate] in Hzero. cbn [vi_entry de_member] in Hzero.
    assert (Hmem : mem e (nth (vim_si vm) (loci s) []) = true) by (apply mem_In; exact He).
    rewrite Hmem in Hzero. exact Hzero.
  - intros cev Hin Hel Hp. destruct (In_nth_error _ _ Hin) as [j Ej].
    assert (Hall' : In (vi_mpi monitor, j, mk_ev j cev) (all_events (d_tb D))).
    { unfold D. rewrite all_events_eq. apply (all_events_mk (vi_cm vm) nodes edges init maxtime monitor). split; [reflexivity|].
      exists cev. split; [exact Ej | reflexivity]. }
    assert (Htr : In (TStat (vi_mpi monitor, j, mk_ev j cev)) (dtransitions D (loci s) (world s))).
    { unfold dtransitions. apply in_or_app. left. unfold D. rewrite vi_dper_element. apply in_or_app. left.
      apply in_map. unfold per_element. apply filter_In. split; [exact Hall' | exact Hel]. }
    specialize (Hzero _ Htr). cbn [drate] in Hzero. unfold Kernel.rate in Hzero. cbn [snd mk_ev ev_elem ev_locus ev_p] in Hzero.
    rewrite Hel, Qred_correct in Hzero.
    destruct (locus s (ce_locus cev)) as [|e0 l0] eqn:El; [reflexivity|]. exfalso.
    unfold qlen in Hzero. cbn [length] in Hzero.
    assert (0 < inject_Z (Z.of_nat (S (length l0))))%Q by (unfold Qlt; cbn; lia).
    assert (0 < ce_p cev * inject_Z (Z.of_nat (S (length l0))))%Q by (apply Qmult_lt_0_compat; assumption). lra.
Qed.

(* the exit of the Gillespie loop through a = 0 with nothing pending *)
Lemma dstoch_loop_quiescent_exit pf f t ev s :
  at_equil (d_tb D) t s = false -> Qeq_bool (dsum_rates s (dtransitions D (loci s) (world s))) 0 = true ->
  head (queue (discard s)) = None -> dstoch_loop D pf (S f) t ev s = (t, ev, discard s).
Proof.
  intros H1 H2 H3. rewrite dstoch_loop_S, H1, H2. unfold next_pending_time. rewrite H3. reflexivity.
Qed.

(* spelled out with the run invariant: no S-I edge of positive infectivity ... *)
Corollary vi_quiescent_no_edge s l r : VJ vm nodes edges s -> vi_nonneg (world s) ->
  Qeq_bool (dsum_rates s (dtransitions D (loci s) (world s))) 0 = true ->
  si < length specs -> nth si specs default_spec = EdgeLocus l r -> Z.eqb l r = false ->
  forall n m, In (n, m) edges \/ In (m, n) edges ->
  getc (cw_st (vi_base (world s))) n = Some l -> getc (cw_st (vi_base (world s))) m = Some r ->
  forall p, infectivity (vi_inf (world s)) n m = Some p -> (p == 0)%Q.
Proof.
  intros Hj Hnn Hz Hsi Hsp Hlr n m He Hn Hm p Hp.
  destruct (vi_quiescent s Hnn Hz) as [Q1 _].
  destruct (vi_entries_truth vm nodes edges s l r Hj Hsi Hsp Hlr) as [_ Hiff].
  assert (Hin : In (EE n m) (nth si (loci s) [])) by (apply Hiff; exists n, m; tauto).
  specialize (Q1 _ Hin). cbn [vi_entry de_p] in Q1. rewrite Hp in Q1. exact Q1.
Qed.

(* ... and no node in the compartment of a registered node event of positive probability (pRemove > 0: no infected node) *)
Corollary vi_quiescent_no_node s cev c : VJ vm nodes edges s -> vi_nonneg (world s) ->
  Qeq_bool (dsum_rates s (dtransitions D (loci s) (world s))) 0 = true ->
  In cev (vim_events vm) -> ce_elem cev = true -> (0 < ce_p cev)%Q -> ce_locus cev < length specs ->
  nth (ce_locus cev) specs default_spec = NodeLocus c ->
  forall v, In v nodes -> getc (cw_st (vi_base (world s))) v <> Some c.
Proof.
  intros Hj Hnn Hz Hin Hel Hp Hli Hsp v Hv Hc.
  destruct (vi_quiescent s Hnn Hz) as [_ Q2]. specialize (Q2 cev Hin Hel Hp).
  assert (Hm : mem (EN v) (nth (ce_locus cev) (loci s) []) = true).
  { apply (sinv_member_iff vm nodes edges _ _ (ce_locus cev) (EN v) Hj Hli); [fold specs; rewrite Hsp; reflexivity|].
    exists (N v). split; [reflexivity|]. fold specs. rewrite Hsp. cbn [truthP]. split; [|exact Hc].
    destruct Hj as (_ & _ & -> & _). exact Hv. }
  unfold locus in Q2. rewrite Q2 in Hm. discriminate.
Qed.

End VQ.
